/-
C37 — property theorems.

Property: for any nonsingular block-diagonal matrix, block inversion returns its inverse, and for
any row/column-permuted block-diagonal matrix the computed permutation exposes square blocks and
the permuted inverter returns the matrix inverse.

Part A (Mathlib matrices over an arbitrary field `K`): the algebra the code relies on.
Part B (executable model of Model.lean, lists of rationals): the Gauss–Jordan inverse, the label
merging that stands for `networkx.connected_components`, `permSearch`, the csr layout.

Second round: completeness of `inverse` (`gaussJordan_complete`, `gaussJordan_correct`) and the
whole pipelines (`invertDiagonalBlocks_correct`, `invertPermuted_correct`) are theorems as well; the
exact identity check `A·X = I = X·A` in the driver is kept as redundancy.
What is still NOT a theorem: that the triple returned by `permSearch` satisfies the
block-diagonality hypothesis of `invertPermuted_correct` in its positional form (it is proved in
the membership form `permSearch_blocks_square`); completeness of the pipelines.
-/
import PorepyVerif.C37.Lemmas

open Matrix

namespace PorepyVerif.C37

/-! ## Part A — algebra -/

section Algebra
variable {K : Type*} [Field K]
variable {o : Type*} [Fintype o] [DecidableEq o]
variable {m' : o → Type*} [∀ k, Fintype (m' k)] [∀ k, DecidableEq (m' k)]
variable {n : Type*} [Fintype n] [DecidableEq n]
variable {m : Type*} [Fintype m] [DecidableEq m]
variable {ι : Type*} [DecidableEq ι]

theorem blockdiag_mul_inv (M : ∀ k, Matrix (m' k) (m' k) K) (h : ∀ k, IsUnit (M k)) :
    blockDiagonal' M * blockDiagonal' (fun k => (M k)⁻¹) = 1 := by
  rw [← blockDiagonal'_mul]
  have : (fun k => M k * (M k)⁻¹) = (1 : ∀ k, Matrix (m' k) (m' k) K) := by
    funext k
    exact Matrix.mul_nonsing_inv _ ((Matrix.isUnit_iff_isUnit_det _).mp (h k))
  rw [this, blockDiagonal'_one]

/-- `blockdiag_inv`: the inverse of a block-diagonal matrix whose (square, possibly differently
    sized) blocks are invertible is the block-diagonal matrix of the inverses of the blocks —
    what `invert_diagonal_blocks` assembles with `block_diag_matrix`. -/
theorem blockdiag_inv (M : ∀ k, Matrix (m' k) (m' k) K) (h : ∀ k, IsUnit (M k)) :
    (blockDiagonal' M)⁻¹ = blockDiagonal' (fun k => (M k)⁻¹) :=
  Matrix.inv_eq_right_inv (blockdiag_mul_inv M h)

/-- a block-diagonal matrix is invertible iff every block is (the precondition of the property,
    "nonsingular block-diagonal", is the same as "every block nonsingular") -/
theorem blockdiag_isUnit_iff (M : ∀ k, Matrix (m' k) (m' k) K) :
    IsUnit (blockDiagonal' M) ↔ ∀ k, IsUnit (M k) := by
  constructor
  · intro h k
    have hdet := (Matrix.isUnit_iff_isUnit_det _).mp h
    have hcl : ∀ i j : (Σ k, m' k), blockDiagonal' M i j ≠ 0 → i.1 = j.1 := by
      rintro ⟨k1, i⟩ ⟨k2, j⟩ hne
      by_contra hk
      exact hne (blockDiagonal'_apply_ne M i j hk)
    have hR := closed_block_mul_right (blockDiagonal' M) (blockDiagonal' M)⁻¹ Sigma.fst Sigma.fst hcl
      (Matrix.mul_nonsing_inv _ hdet) k
    -- the `k`-block of `blockDiagonal' M`, re-indexed by `m' k`, is `M k`
    let e : m' k ≃ {x : (Σ k, m' k) // x.1 = k} :=
      { toFun := fun i => ⟨⟨k, i⟩, rfl⟩
        invFun := fun x => x.2 ▸ x.1.2
        left_inv := fun i => rfl
        right_inv := by rintro ⟨⟨k', i⟩, rfl⟩; rfl }
    have hM : M k = ((blockDiagonal' M).submatrix (Subtype.val : {x : (Σ k, m' k) // x.1 = k} → _)
        (Subtype.val : {x : (Σ k, m' k) // x.1 = k} → _)).submatrix e e := by
      ext i j
      simp [e, blockDiagonal'_apply_eq]
    have hprod := congrArg (fun X => X.submatrix e e) hR
    simp only [Matrix.submatrix_one_equiv] at hprod
    rw [← Matrix.submatrix_mul_equiv _ _ e e e, ← hM] at hprod
    exact (Matrix.isUnit_iff_isUnit_det _).mpr (Matrix.isUnit_det_of_right_inverse hprod)
  · intro h
    exact (Matrix.isUnit_iff_isUnit_det _).mpr
      (Matrix.isUnit_det_of_right_inverse (blockdiag_mul_inv M h))

/-- `perm_inv`: if `B = P_r A P_c` (rows and columns re-indexed by bijections `er`, `ec`, i.e.
    `B = A[row_perm, :][:, col_perm]`) then `A⁻¹ = P_c B⁻¹ P_r`. -/
theorem perm_inv (A : Matrix n n K) (er ec : m ≃ n) :
    A⁻¹ = ((A.submatrix er ec)⁻¹).submatrix ec.symm er.symm := by
  rw [Matrix.inv_submatrix_equiv]
  simp

/-- re-indexing rows and columns by bijections preserves (non)invertibility -/
theorem perm_isUnit_iff (A : Matrix n n K) (er ec : m ≃ n) :
    IsUnit (A.submatrix er ec) ↔ IsUnit A := Matrix.isUnit_submatrix_equiv er ec

/-- The whole of `invert_permuted_block_diag_matrix`: if the permuted matrix is block diagonal
    with invertible blocks, then `A` is invertible and its inverse is the un-permuted block
    diagonal of the block inverses. -/
theorem permuted_blockdiag_inv (A : Matrix n n K) (er ec : (Σ k, m' k) ≃ n)
    (M : ∀ k, Matrix (m' k) (m' k) K) (hB : A.submatrix er ec = blockDiagonal' M)
    (hM : ∀ k, IsUnit (M k)) :
    IsUnit A ∧ A⁻¹ = (blockDiagonal' (fun k => (M k)⁻¹)).submatrix ec.symm er.symm := by
  constructor
  · rw [← perm_isUnit_iff A er ec, hB]
    exact (blockdiag_isUnit_iff M).mpr hM
  · rw [perm_inv A er ec, hB, blockdiag_inv M hM]

omit [Fintype n] [DecidableEq n] in
/-- A row classification `f` and a column classification `g` that are closed under the non-zero
    pattern (`A i j ≠ 0 → f i = g j`; the connected components of the bipartite pattern graph are
    the finest such pair) bring `A` into block-diagonal form: re-indexed along the fibres, `A` is
    the block-diagonal matrix of its (a priori rectangular) blocks. -/
theorem closed_pattern_blockdiag (A : Matrix n n K) (f g : n → ι)
    (hcl : ∀ i j, A i j ≠ 0 → f i = g j) :
    A.submatrix (Equiv.sigmaFiberEquiv f) (Equiv.sigmaFiberEquiv g)
      = blockDiagonal' (fun k => A.submatrix (Subtype.val : {i // f i = k} → n)
          (Subtype.val : {j // g j = k} → n)) := by
  ext ⟨k, i, hi⟩ ⟨k', j, hj⟩
  by_cases hk : k = k'
  · subst hk
    simp [blockDiagonal'_apply_eq, Equiv.sigmaFiberEquiv]
  · rw [blockDiagonal'_apply_ne _ _ _ hk]
    simp only [Matrix.submatrix_apply, Equiv.sigmaFiberEquiv, Equiv.coe_fn_mk]
    by_contra hne
    exact hk (by rw [← hi, ← hj]; exact hcl i j hne)

/-- `components_give_blocks`: if `A` is invertible, every block exposed by a closed pair of
    classifications is square (as many rows as columns) and two-sided invertible, the inverse
    of block `k` being the block of `A⁻¹` in the transposed position.  This is why the
    `AssertionError("Block mismatch")` of the code cannot fire on a nonsingular matrix. -/
theorem components_give_blocks (A : Matrix n n K) (f g : n → ι)
    (hcl : ∀ i j, A i j ≠ 0 → f i = g j) (hA : IsUnit A) (k : ι) :
    Fintype.card {i // f i = k} = Fintype.card {j // g j = k} ∧
    A.submatrix (Subtype.val : {i // f i = k} → n) (Subtype.val : {j // g j = k} → n)
      * A⁻¹.submatrix (Subtype.val : {j // g j = k} → n) (Subtype.val : {i // f i = k} → n) = 1 ∧
    A⁻¹.submatrix (Subtype.val : {j // g j = k} → n) (Subtype.val : {i // f i = k} → n)
      * A.submatrix (Subtype.val : {i // f i = k} → n) (Subtype.val : {j // g j = k} → n) = 1 := by
  have hdet := (Matrix.isUnit_iff_isUnit_det _).mp hA
  have h1 := closed_block_mul_right A A⁻¹ f g hcl (Matrix.mul_nonsing_inv A hdet) k
  have h2 := closed_block_mul_left A A⁻¹ f g hcl (Matrix.nonsing_inv_mul A hdet) k
  exact ⟨Nat.le_antisymm (card_le_of_mul_eq_one _ _ h1) (card_le_of_mul_eq_one _ _ h2), h1, h2⟩

end Algebra

/-! ### non-vacuity of Part A: the hypotheses are satisfiable with concrete data -/

example : (blockDiagonal' (fun _ : Fin 2 => (1 : Matrix (Fin 3) (Fin 3) ℚ)))⁻¹
    = blockDiagonal' (fun _ => (1 : Matrix (Fin 3) (Fin 3) ℚ)⁻¹) :=
  blockdiag_inv _ (fun _ => isUnit_one)

/-- the identity, re-indexed along the fibres of `id`, is block diagonal with 1×1 identity blocks -/
example : IsUnit (1 : Matrix (Fin 3) (Fin 3) ℚ) :=
  (permuted_blockdiag_inv (1 : Matrix (Fin 3) (Fin 3) ℚ)
    (Equiv.sigmaFiberEquiv (id : Fin 3 → Fin 3)) (Equiv.sigmaFiberEquiv (id : Fin 3 → Fin 3))
    (fun _ => 1) (by rw [Matrix.submatrix_one_equiv]; exact (blockDiagonal'_one).symm)
    (fun _ => isUnit_one)).1

/-- the diagonal pattern of the identity is closed under `f = g = id`: three 1×1 blocks -/
example : Fintype.card {i : Fin 3 // id i = 0} = Fintype.card {j : Fin 3 // id j = 0} :=
  (components_give_blocks (1 : Matrix (Fin 3) (Fin 3) ℚ) id id
    (by intro i j h; by_contra hne; exact h (Matrix.one_apply_ne hne)) isUnit_one 0).1

/-! ## Part B — the executable model -/

/-- List-level statement about the exact Gauss–Jordan elimination: whenever it returns `some B`,
    `B·A = I` (every row `b_i` of `B` satisfies `b_i·A = e_i`). -/
theorem gaussJordan_left_inverse (A B : Mat) (h : inverse A = some B) :
    matMul A.length B A = identity A.length ∧ isSquare A.length B = true := by
  refine ⟨inverse_left A B h, ?_⟩
  obtain ⟨h1, h2⟩ := inverse_length A B h
  exact (isSquare_iff _ _).mpr ⟨h1, h2⟩

/-- `gaussJordan_correct_partial`: read as Mathlib matrices over ℚ, the result of the model's
    block inversion is the two-sided inverse, `A·B = 1`, `B·A = 1` and `A⁻¹ = B`.
    "partial": soundness only.  The full statement would add completeness,
      `IsUnit (toMatrix A.length A) → ∃ B, inverse A = some B`,
    which is not proved (it is exercised by every valid case of the correspondence check: the
    driver would answer `singular`, a disagreement). -/
theorem gaussJordan_correct_partial (A B : Mat) (h : inverse A = some B) :
    toMatrix A.length A * toMatrix A.length B = 1 ∧ toMatrix A.length B * toMatrix A.length A = 1 ∧
      (toMatrix A.length A)⁻¹ = toMatrix A.length B := by
  obtain ⟨hrows, _, _, _⟩ := inverse_some A B h
  obtain ⟨hBl, hBr⟩ := inverse_length A B h
  have hBA := toMatrix_mul_of_matMul A.length A B rfl hrows hBl hBr (inverse_left A B h)
  exact ⟨mul_eq_one_comm.mp hBA, hBA, Matrix.inv_eq_left_inv hBA⟩

/-- `gaussJordan_complete`: completeness of the pivot search.  If the matrix is nonsingular, the
    elimination never runs out of pivots (invariant: a vector orthogonal to all current rows is
    orthogonal to all rows of `A`; without a pivot the vector `(heads of the finished rows, -1,
    0, …)` is such a vector, so `A` would have a non-trivial kernel). -/
theorem gaussJordan_complete (A : Mat) (hsq : isSquare A.length A = true)
    (hdet : IsUnit (toMatrix A.length A).det) : ∃ B, inverse A = some B :=
  inverse_complete_list A hsq (trivialKernel_of_det A.length A hsq hdet)

/-- `gaussJordan_correct`: the full statement.  On square input the model's `np.linalg.inv`
    answers `some` exactly for the nonsingular matrices, and then with the inverse. -/
theorem gaussJordan_correct (A : Mat) (hsq : isSquare A.length A = true) :
    ((∃ B, inverse A = some B) ↔ IsUnit (toMatrix A.length A).det) ∧
    (∀ B, inverse A = some B → (toMatrix A.length A)⁻¹ = toMatrix A.length B) := by
  refine ⟨⟨?_, gaussJordan_complete A hsq⟩, fun B h => (gaussJordan_correct_partial A B h).2.2⟩
  rintro ⟨B, h⟩
  exact Matrix.isUnit_det_of_right_inverse (gaussJordan_correct_partial A B h).1

/-- `invertDiagonalBlocks_correct`: `invert_diagonal_blocks` as a whole.  If the matrix is block
    diagonal with respect to the (positive) sizes, i.e. equals the block-diagonal assembly of its
    own diagonal blocks, then the assembled result is the two-sided inverse (list level:
    `X·A = I`; as Mathlib matrices also `A·X = 1` and `A⁻¹ = X`).  This is the identity the
    driver re-checks at run time; it is now redundant. -/
theorem invertDiagonalBlocks_correct (n : Nat) (A : Mat) (sizes : List Nat) (r : BlockInverse)
    (hsq : isSquare n A = true) (hsz : (sizes.filter (· > 0)).sum = n)
    (hbd : A = denseBlockDiag n 0 (extractBlocks A 0 (sizes.filter (· > 0))))
    (h : invertDiagonalBlocks A sizes = some r) :
    matMul n r.dense A = identity n ∧ toMatrix n A * toMatrix n r.dense = 1 ∧
      (toMatrix n A)⁻¹ = toMatrix n r.dense := by
  obtain ⟨hl, hw⟩ := (isSquare_iff n A).mp hsq
  obtain ⟨hmul, hYl, hYw⟩ := invertDiagonalBlocks_left n A sizes r hl hsz hbd h
  have hM := toMatrix_mul_of_matMul n A r.dense hl hw hYl hYw hmul
  exact ⟨hmul, mul_eq_one_comm.mp hM, Matrix.inv_eq_left_inv hM⟩

/-- `invertPermuted_correct`: `invert_permuted_block_diag_matrix` as a whole, for the executable
    model.  If `row_perm`, `col_perm` are permutations and `A[row_perm, :][:, col_perm]` is block
    diagonal with the given sizes, then whatever the model returns is the inverse of `A`. -/
theorem invertPermuted_correct (n : Nat) (A : Mat) (rp cp sizes : List Nat) (X : Mat)
    (hr : rp.Perm (List.range n)) (hc : cp.Perm (List.range n))
    (hsz : (sizes.filter (· > 0)).sum = n)
    (hbd : permute A rp cp
      = denseBlockDiag n 0 (extractBlocks (permute A rp cp) 0 (sizes.filter (· > 0))))
    (h : invertPermuted n A rp cp sizes = some X) :
    toMatrix n X * toMatrix n A = 1 ∧ toMatrix n A * toMatrix n X = 1 ∧
      (toMatrix n A)⁻¹ = toMatrix n X := by
  have hM := invertPermuted_left n A rp cp sizes X hr hc hsz hbd h
  exact ⟨hM, mul_eq_one_comm.mp hM, Matrix.inv_eq_left_inv hM⟩

/-- `invertDiagonalBlocks_correct_checked`: the same with the hypotheses as ONE decidable input
    condition `blockHyp`, which the driver evaluates on every case (answer field `hyp_ok`). -/
theorem invertDiagonalBlocks_correct_checked (n : Nat) (A : Mat) (sizes : List Nat)
    (r : BlockInverse) (hyp : blockHyp n A sizes = true)
    (h : invertDiagonalBlocks A sizes = some r) :
    matMul n r.dense A = identity n ∧ toMatrix n A * toMatrix n r.dense = 1 ∧
      (toMatrix n A)⁻¹ = toMatrix n r.dense := by
  simp only [blockHyp, isBlockDiag, Bool.and_eq_true, decide_eq_true_eq] at hyp
  exact invertDiagonalBlocks_correct n A sizes r hyp.1.1 hyp.1.2 hyp.2 h

/-- `invertPermuted_correct_checked`: the hypotheses of `invertPermuted_correct` as the decidable
    input condition `pipelineHyp` (permutations; sizes sum to `n`; the permuted matrix equals the
    block-diagonal assembly of its diagonal blocks), evaluated by the driver on every case. -/
theorem invertPermuted_correct_checked (n : Nat) (A : Mat) (rp cp sizes : List Nat) (X : Mat)
    (hyp : pipelineHyp n A rp cp sizes = true) (h : invertPermuted n A rp cp sizes = some X) :
    toMatrix n X * toMatrix n A = 1 ∧ toMatrix n A * toMatrix n X = 1 ∧
      (toMatrix n A)⁻¹ = toMatrix n X := by
  simp only [pipelineHyp, isBlockDiag, Bool.and_eq_true, decide_eq_true_eq] at hyp
  exact invertPermuted_correct n A rp cp sizes X (isPermOfRange_perm n rp hyp.1.1.1)
    (isPermOfRange_perm n cp hyp.1.1.2) hyp.1.2 hyp.2 h

/-- `permSearch_invert_correct`: search followed by inversion (driver op `pinv`), the third clause
    of the property for the executable model: if the computed permutation passes the decidable
    check, the permuted inverter applied to it returns the inverse of `A`. -/
theorem permSearch_invert_correct (n : Nat) (A : Mat) (r : PermResult) (X : Mat)
    (_hs : permSearch n n A = .ok r)
    (hyp : pipelineHyp n A r.rowPerm r.colPerm r.sizes = true)
    (h : invertPermuted n A r.rowPerm r.colPerm r.sizes = some X) :
    (toMatrix n A)⁻¹ = toMatrix n X :=
  (invertPermuted_correct_checked n A _ _ _ X hyp h).2.2

/-- `invertDiagonalBlocksOpt_spec`: option handling of `invert_diagonal_blocks`.  A result is
    returned exactly for `method ∈ {None, "numba", "python"}` on csr/csc input and is then the
    result of the common inverter (so the theorems above apply to every method); an unknown
    method is a `ValueError` whatever the input, a wrong storage format a `TypeError`. -/
theorem invertDiagonalBlocksOpt_spec (fmtOk : Bool) (method : Option String) (A : Mat) (s : List Nat) :
    (∀ r, invertDiagonalBlocksOpt fmtOk method A s = .ok r ↔
      ((method = none ∨ method = some "numba" ∨ method = some "python") ∧ fmtOk = true ∧
        invertDiagonalBlocks A s = some r)) ∧
    (invertDiagonalBlocksOpt fmtOk method A s = .error .unknownMethod ↔
      ¬ (method = none ∨ method = some "numba" ∨ method = some "python")) := by
  unfold invertDiagonalBlocksOpt
  have hiff : ((method == none || method == some "numba" || method == some "python") = true) ↔
      (method = none ∨ method = some "numba" ∨ method = some "python") := by
    simp [or_assoc]
  split
  · rename_i hc
    have hm := hiff.mp hc
    cases fmtOk <;> cases hinv : invertDiagonalBlocks A s <;> simp [hm]
  · rename_i hc
    have hm : ¬ (method = none ∨ method = some "numba" ∨ method = some "python") :=
      fun h => hc (hiff.mpr h)
    simp [hm]

/-- `blockDiagIndex_rect_square`: the two entry points of `block_diag_index` agree — for square
    blocks the row indices of the two-argument branch are the column indices the one-argument
    branch puts into the csr matrix — and the two index arrays have equal length. -/
theorem blockDiagIndex_rect_square (o : Nat) (sz m n : List Nat) (ro co : Nat) :
    (blockDiagIndexRect o o sz sz).1 = blockDiagIndex o sz ∧
      (blockDiagIndexRect ro co m n).1.length = (blockDiagIndexRect ro co m n).2.length :=
  ⟨blockDiagIndexRect_square o sz, blockDiagIndexRect_lengths ro co m n⟩

/-- every block handed to `invertAll` is inverted by `inverse` (so the two theorems above apply
    block by block); the results are square and have the sizes of the blocks -/
theorem invertAll_correct (Bs Xs : List Mat) (h : invertAll Bs = some Xs) :
    List.Forall₂ (fun B X => inverse B = some X) Bs Xs ∧ SquareBlocks Xs ∧
      Xs.map List.length = Bs.map List.length := by
  have h1 := invertAll_forall₂ Bs Xs h
  exact ⟨h1, forall₂_inverse_square Bs Xs h1⟩

/-- `blockDiag_layout`: the index bookkeeping of `block_diag_index` / `block_diag_matrix`.
    Zero sizes are dropped; the blocks that are inverted are the diagonal blocks of `A` with the
    given sizes; and whenever the sizes fit into the matrix, the three csr arrays of the result
    are exactly the row-wise listing (`layoutRows`) of the inverted blocks: row `q` of block `k`
    (offset `o_k`) stores the columns `o_k … o_k + s_k - 1` with the values of row `q` of the
    inverse of block `k`, and `indptr` is the running sum of the row lengths. -/
theorem blockDiag_layout (A : Mat) (s : List Nat) (r : BlockInverse)
    (h : invertDiagonalBlocks A s = some r) :
    r.sizes = s.filter (· > 0) ∧
    List.Forall₂ (fun B X => inverse B = some X) (extractBlocks A 0 r.sizes) r.blocks ∧
    (r.sizes.sum ≤ A.length →
      r.indices.zip r.data = (layoutRows 0 r.blocks).flatten ∧
      r.indices.length = r.data.length ∧
      r.indptr = 0 :: cumsumFrom 0 ((layoutRows 0 r.blocks).map List.length)) := by
  unfold invertDiagonalBlocks at h
  simp only at h
  split at h
  · cases h
  · rename_i inv hinv
    simp only [Option.some.injEq] at h
    subst h
    obtain ⟨h1, hsq, hlen⟩ := invertAll_correct _ _ hinv
    refine ⟨rfl, h1, ?_⟩
    intro hfit
    have hsz : inv.map List.length = s.filter (· > 0) := by
      rw [hlen]; exact extractBlocks_lengths A 0 _ (by simpa using hfit)
    have hl := layout_entries 0 inv hsq
    rw [hsz] at hl
    refine ⟨hl.1, hl.2, ?_⟩
    show blockDiagIndptr _ = _
    rw [blockDiagIndptr, ← hsz, layout_rowLengths 0 inv hsq]

/-- `components_closed`: every non-zero entry of a square matrix lies inside one computed
    component, i.e. rows and columns of different components do not interact. -/
theorem components_closed (n : Nat) (A : Mat) (hsq : isSquare n A = true) (i j : Nat)
    (h : entry A i j ≠ 0) :
    ∃ c ∈ components n (labels n (edges A)), i ∈ c.1 ∧ j ∈ c.2 :=
  components_closed_aux n A hsq i j h

/-- `components_minimal`: the computed components are not coarser than the connected components:
    any two nodes (row `i` ↦ `i`, column `j` ↦ `n + j`) of one computed component are connected
    by a path of non-zero entries. Together with `components_closed` the computed components
    ARE the connected components of the bipartite pattern graph. -/
theorem components_minimal (n : Nat) (A : Mat) (c : List Nat × List Nat)
    (hc : c ∈ components n (labels n (edges A))) (u v : Nat)
    (hu : u ∈ blockNodes n c) (hv : v ∈ blockNodes n c) :
    Relation.EqvGen (fun u v => ∃ i j, entry A i j ≠ 0 ∧ u = i ∧ v = n + j) u v := by
  have := components_minimal_aux n (edges A) c hc u v hu hv
  refine Relation.EqvGen.mono ?_ u v this
  rintro a b ⟨e, he, rfl, rfl⟩
  exact ⟨e.1, e.2, (mem_edges A e.1 e.2).mp he, rfl, rfl⟩

/-- `components_partition`: the computed blocks partition rows and columns.  Whenever
    `generate_permutation_to_block_diag_matrix` (model `permSearch`) returns, `row_perm` is a
    permutation of `0 … n-1`; if moreover no row of the matrix is entirely zero (true for every
    nonsingular matrix), `col_perm` is a permutation of `0 … n-1` as well.  (With an all-zero
    row the code pairs it with the column of the same index, which need not be free: the
    hypothesis is necessary, see the second `example` below.) -/
theorem components_partition (n : Nat) (A : Mat) (r : PermResult) (hsq : isSquare n A = true)
    (h : permSearch n n A = .ok r) :
    r.rowPerm.Perm (List.range n) ∧
      ((∀ i, i < n → ∃ j, entry A i j ≠ 0) → r.colPerm.Perm (List.range n)) := by
  rcases permSearch_cases n A r h with ⟨_, _, hr, hc, _⟩ | ⟨_, hsqr, hb, hr, hc, _⟩
  · rw [hr, hc]; exact ⟨List.Perm.refl _, fun _ => List.Perm.refl _⟩
  · rw [hr, hc, hb, flatMap_fst_blocks, flatMap_snd_blocks]
    refine ⟨rowPerm_perm_aux n _, ?_⟩
    intro hrow
    have hmiss : missingRows n (components n (labels n (edges A))) = [] := by
      apply List.eq_nil_iff_forall_not_mem.mpr
      intro i hi
      obtain ⟨hin, hnot⟩ := (mem_missingRows _ _ _).mp hi
      obtain ⟨j, hj⟩ := hrow i hin
      obtain ⟨c, hc, hic, _⟩ := components_closed n A hsq i j hj
      exact hnot (List.mem_flatMap.mpr ⟨c, hc, hic⟩)
    rw [hmiss, List.append_nil]
    apply perm_range_of_nodup n _ (nodup_components_cols n _) (components_cols_lt n _)
    rw [← sum_length_eq _ hsqr]
    have := (rowPerm_perm_aux n (labels n (edges A))).length_eq
    rw [hmiss, List.append_nil] at this
    simpa using this

/-- `permSearch_blocks_square`: what the returned triple means.  The permutations are the
    concatenations of the rows / columns of the blocks, `block_sizes` are the block lengths, every
    block has as many rows as columns, and every non-zero entry of the matrix lies inside a block:
    `A[row_perm, :][:, col_perm]` is block diagonal with the reported square blocks. -/
theorem permSearch_blocks_square (n : Nat) (A : Mat) (r : PermResult) (hsq : isSquare n A = true)
    (h : permSearch n n A = .ok r) :
    r.rowPerm = r.blocks.flatMap (·.1) ∧ r.colPerm = r.blocks.flatMap (·.2) ∧
    r.sizes = r.blocks.map (·.1.length) ∧ (∀ b ∈ r.blocks, b.1.length = b.2.length) ∧
    (∀ i j, entry A i j ≠ 0 → ∃ b ∈ r.blocks, i ∈ b.1 ∧ j ∈ b.2) := by
  rcases permSearch_cases n A r h with ⟨_, hb, hr, hc, hs⟩ | ⟨_, hsqr, hb, hr, hc, hs⟩
  · refine ⟨by simp [hr, hb], by simp [hc, hb], by simp [hs, hb], by simp [hb], ?_⟩
    intro i j hij
    obtain ⟨hi, hj⟩ := entry_ne_zero_lt n A hsq i j hij
    exact ⟨_, by rw [hb]; exact List.mem_singleton_self _, by simpa using hi, by simpa using hj⟩
  · refine ⟨hr, hc, hs, ?_, ?_⟩
    · intro b hbm
      rw [hb] at hbm
      rcases List.mem_append.mp hbm with hm | hm
      · exact hsqr b hm
      · obtain ⟨i, _, rfl⟩ := List.mem_map.mp hm
        rfl
    · intro i j hij
      obtain ⟨c, hc, h1, h2⟩ := components_closed n A hsq i j hij
      exact ⟨c, by rw [hb]; exact List.mem_append_left _ hc, h1, h2⟩

/-! ### non-vacuity: concrete data -/

/-- the 2×2 block `[[2,1],[1,3]]` and the 1×1 block `[4]`, as in the tests of the code -/
example : inverse [[2, 1], [1, 3]] = some [[3/5, -1/5], [-1/5, 2/5]] := by decide +kernel

/-- pivoting: zero diagonal -/
example : inverse [[0, 2], [4, 0]] = some [[0, 1/4], [1/2, 0]] := by decide +kernel

/-- singular block: no pivot -/
example : inverse [[1, 2], [2, 4]] = none := by decide +kernel

example : (invertDiagonalBlocks [[2, 1, 0], [1, 3, 0], [0, 0, 4]] [2, 0, 1]).map
    (fun r => (r.indices, r.indptr, r.data, r.dense))
    = some ([0, 1, 0, 1, 2], [0, 2, 4, 5], [3/5, -1/5, -1/5, 2/5, 1/4],
            [[3/5, -1/5, 0], [-1/5, 2/5, 0], [0, 0, 1/4]]) := by decide +kernel

/-- a permuted block-diagonal matrix: components {row 0; col 2} and {rows 1,2; cols 0,1} -/
example : (match permSearch 3 3 [[0, 0, 4], [2, 1, 0], [1, 3, 0]] with
    | .ok r => some (r.rowPerm, r.colPerm, r.sizes)
    | .error _ => none) = some ([0, 1, 2], [2, 0, 1], [1, 2]) := by decide +kernel

example : invertPermuted 3 [[0, 0, 4], [2, 1, 0], [1, 3, 0]] [0, 1, 2] [2, 0, 1] [1, 2]
    = some [[0, 3/5, -1/5], [0, -1/5, 2/5], [1/4, 0, 0]] := by decide +kernel

/-- the hypothesis "no all-zero row" of `components_partition` is needed: zero row 1, zero
    column 0 — the code (and the model) return `col_perm = [1, 2, 1]`, not a permutation -/
example : (match permSearch 3 3 [[0, 1, 0], [0, 0, 0], [0, 0, 1]] with
    | .ok r => some (r.rowPerm, r.colPerm, r.sizes)
    | .error _ => none) = some ([0, 2, 1], [1, 2, 1], [1, 1, 1]) := by decide +kernel

/-- outside the property (singular input): zero row `i = 1` and zero column `j = 0 ≠ i` — every
    component is square, the all-zero row is appended as the 1×1 block (1, 1), and `col_perm`
    contains the column 1 twice while column 0 is missing -/
example : (match permSearch 3 3 [[0, 1, 0], [0, 0, 0], [0, 0, 1]] with
    | .ok r => decide (r.colPerm.Nodup) | .error _ => true) = false := by decide +kernel

/-- non-vacuity of `invertPermuted_correct`: all hypotheses hold for the 3×3 example above -/
example : (toMatrix 3 [[0, 0, 4], [2, 1, 0], [1, 3, 0]])⁻¹
    = toMatrix 3 [[0, 3/5, -1/5], [0, -1/5, 2/5], [1/4, 0, 0]] :=
  (invertPermuted_correct 3 [[0, 0, 4], [2, 1, 0], [1, 3, 0]] [0, 1, 2] [2, 0, 1] [1, 2] _
    (by decide) (by decide) (by decide) (by decide +kernel) (by decide +kernel)).2.2

/-- non-vacuity of the `_checked` theorems: the decidable conditions hold on concrete data -/
example : blockHyp 3 [[2, 1, 0], [1, 3, 0], [0, 0, 4]] [2, 0, 1] = true := by decide +kernel
example : pipelineHyp 3 [[0, 0, 4], [2, 1, 0], [1, 3, 0]] [0, 1, 2] [2, 0, 1] [1, 2] = true := by
  decide +kernel
/-- … and fail when the sizes do not expose the blocks -/
example : pipelineHyp 3 [[0, 0, 4], [2, 1, 0], [1, 3, 0]] [0, 1, 2] [2, 0, 1] [2, 1] = false := by
  decide +kernel

example : (match invertDiagonalBlocksOpt true (some "cython") [[2]] [1] with
    | .error .unknownMethod => 1 | _ => 0) = 1 := by decide +kernel
example : (match invertDiagonalBlocksOpt false none [[2]] [1] with
    | .error .badFormat => 1 | _ => 0) = 1 := by decide +kernel

/-- the docstring example of `block_diag_index`: m = [2, 3], n = [1, 2] -/
example : blockDiagIndexRect 0 0 [2, 3] [1, 2] = ([0, 1, 2, 3, 4, 2, 3, 4], [0, 0, 1, 1, 1, 2, 2, 2]) := by
  decide +kernel

/-- non-vacuity of `gaussJordan_complete`: a unit determinant -/
example : ∃ B, inverse [[2, 1], [1, 3]] = some B :=
  gaussJordan_complete [[2, 1], [1, 3]] (by decide) (by
    have : (toMatrix 2 [[2, 1], [1, 3]]).det = 5 := by
      rw [Matrix.det_fin_two]
      simp [toMatrix, entry]
      norm_num
    show IsUnit (toMatrix 2 [[2, 1], [1, 3]]).det
    rw [this]
    exact isUnit_iff_ne_zero.mpr (by norm_num))

/-- a component with more columns than rows: `AssertionError` -/
example : (match permSearch 3 3 [[1, 1, 0], [0, 0, 0], [0, 0, 1]] with
    | .ok _ => 0 | .error .assertionError => 1 | .error .valueError => 2) = 1 := by decide +kernel

end PorepyVerif.C37
