/-
C39 — property theorems (statements depend on Model.lean and the definitions `BC.wf`,
`Partition` of Lemmas.lean).

Property: for any grid and any assignment of Dirichlet, Neumann and Robin conditions, every
boundary face carries exactly one condition type, interior non-fracture faces carry none,
unassigned boundary faces are Neumann, and the vectorial variant satisfies this per component.

A grid is (number of faces, domain-boundary tag, fracture tag, tip tag) — arbitrary.  Faces are
given as an index array (any order, repetitions, negative or too large entries allowed) or a
mask; conditions as one keyword or a list.

What "last assignment wins" means in the code: the loop writes only for `dir` and `rob`; the
keyword `neu` is `pass`.  Hence the type of a face after the call is the last `dir`/`rob`
given for it, and `neu` given after `dir` leaves the face Dirichlet (`neu_does_not_override`).
-/
import PorepyVerif.C39.Lemmas

namespace PorepyVerif.C39

/-- the three arrays of a successfully constructed scalar object satisfy the partition invariant -/
theorem mkScalar_partition (g : Grid) (faces : Option Faces) (cond : Option Conds) (b : BC) (w : Bool)
    (h : mkScalar g faces cond = .ok (b, w)) : Partition g b := by
  unfold mkScalar at h
  cases faces with
  | none =>
    simp only [Except.ok.injEq, Prod.mk.injEq] at h
    rw [← h.1]; exact partition_init g
  | some fa =>
    simp only at h
    cases hp : prepare g fa cond with
    | error e => simp [hp] at h
    | ok r =>
      obtain ⟨pairs, w'⟩ := r
      simp only [hp] at h
      split at h
      · simp only [Except.ok.injEq, Prod.mk.injEq] at h
        rw [← h.1]
        exact partition_applyAll g _ pairs (partition_init g) (prepare_ok g fa cond pairs w' hp)
      · cases h

/-- Every boundary face (domain boundary, fracture or tip) carries exactly one condition type. -/
theorem bc_exactly_one_on_boundary (g : Grid) (faces : Option Faces) (cond : Option Conds) (b : BC)
    (w : Bool) (h : mkScalar g faces cond = .ok (b, w)) (f : Nat) (hf : g.isBf f = true) :
    exactlyOne (get b.neu f) (get b.dir f) (get b.rob f) = true :=
  ((mkScalar_partition g faces cond b w h).2 f).1 hf

/-- Faces that are not boundary faces (interior non-fracture faces) carry no condition;
    the arrays have exactly `nf` entries. -/
theorem bc_none_on_interior (g : Grid) (faces : Option Faces) (cond : Option Conds) (b : BC)
    (w : Bool) (h : mkScalar g faces cond = .ok (b, w)) :
    (b.neu.length = g.nf ∧ b.dir.length = g.nf ∧ b.rob.length = g.nf) ∧
    ∀ f, g.isBf f = false → get b.neu f = false ∧ get b.dir f = false ∧ get b.rob f = false := by
  have hP := mkScalar_partition g faces cond b w h
  refine ⟨hP.1, fun f hf => ?_⟩
  have := (hP.2 f).2 hf
  simp only [BC.at, Prod.mk.injEq] at this
  exact this

/-- Refinement: the constructed arrays hold, at every face, the last `dir`/`rob` among the
    (face, cond) pairs, starting from the default (Neumann on boundary faces, nothing elsewhere). -/
theorem bc_type_is_last_assignment (g : Grid) (fa : Faces) (cond : Option Conds) (b : BC) (w w' : Bool)
    (pairs : List (Nat × Cond)) (hp : prepare g fa cond = .ok (pairs, w'))
    (h : mkScalar g (some fa) cond = .ok (b, w)) (f : Nat) :
    b.at f = lastType f (g.isBf f, false, false) pairs := by
  unfold mkScalar at h
  simp only [hp] at h
  split at h
  · rename_i hflag
    simp only [Except.ok.injEq, Prod.mk.injEq] at h
    obtain ⟨_, hat, hall⟩ := applyAll_spec g.nf pairs (BC.init g) (wf_init g)
      (fun p hp' => isBf_lt g _ (prepare_ok g fa cond pairs w' hp p hp'))
    rw [← h.1, hat f, at_init, goodPrefix_of_all_good pairs (by rw [← hall]; exact hflag)]
  · cases h

/-- Unassigned boundary faces are Neumann (no argument at all). -/
theorem bc_default_neumann_no_faces (g : Grid) (cond : Option Conds) (b : BC) (w : Bool)
    (h : mkScalar g none cond = .ok (b, w)) (f : Nat) (hf : g.isBf f = true) :
    b.at f = (true, false, false) := by
  simp only [mkScalar, Except.ok.injEq, Prod.mk.injEq] at h
  rw [← h.1, at_init, hf]

/-- Unassigned boundary faces are Neumann: a boundary face that does not occur in the face
    argument (index list, or true positions of the mask) is Neumann and nothing else. -/
theorem bc_default_neumann (g : Grid) (fa : Faces) (cond : Option Conds) (b : BC) (w : Bool)
    (fs : List Int) (hfs : resolveFaces g.nf fa = .ok fs)
    (h : mkScalar g (some fa) cond = .ok (b, w)) (f : Nat) (hf : g.isBf f = true)
    (hnot : (f : Int) ∉ fs) : b.at f = (true, false, false) := by
  cases hp : prepare g fa cond with
  | error e => simp [mkScalar, hp] at h
  | ok r =>
    obtain ⟨pairs, w'⟩ := r
    rw [bc_type_is_last_assignment g fa cond b w w' pairs hp h f, hf]
    rcases lastType_cases f pairs (true, false, false) with h' | ⟨_, q, hq, hqf, _⟩
    · exact h'
    · exfalso
      -- q.1 = f is one of the resolved faces
      unfold prepare at hp
      cases cond with
      | none => simp at hp
      | some cs =>
        simp only [hfs] at hp
        split at hp
        · cases hp
        · rename_i hall
          split at hp
          · cases hp
          · simp only [Except.ok.injEq, Prod.mk.injEq] at hp
            rw [← hp.1] at hq
            obtain ⟨i, hi, hi'⟩ := List.mem_map.mp (List.of_mem_zip hq).1
            have hin : inBf g i = true := by
              have : fs.all (inBf g) = true := by simpa using hall
              exact List.all_eq_true.mp this i hi
            simp only [inBf, Bool.and_eq_true, decide_eq_true_eq] at hin
            have : (f : Int) = i := by
              rw [← hqf, ← hi']; exact Int.toNat_of_nonneg hin.1
            exact hnot (this ▸ hi)

/-- Last assignment wins, as coded: if the last `dir`/`rob` given for face `f` is `c`
    (anything after it for `f` is `neu`), the face has exactly type `c`. -/
theorem bc_last_assignment_wins (g : Grid) (fa : Faces) (cond : Option Conds) (b : BC) (w w' : Bool)
    (pre post : List (Nat × Cond)) (f : Nat) (c : Cond) (hc : c = .dir ∨ c = .rob)
    (hp : prepare g fa cond = .ok (pre ++ (f, c) :: post, w'))
    (hpost : ∀ p ∈ post, p.1 = f → p.2 = .neu)
    (h : mkScalar g (some fa) cond = .ok (b, w)) :
    b.at f = (false, c == .dir, c == .rob) := by
  rw [bc_type_is_last_assignment g fa cond b w w' _ hp h f,
    (lastType_append_last f _ pre post c (fun p hp' e => Or.inl (hpost p hp' e))).2]
  rcases hc with rfl | rfl <;> simp [stepType]

/-- `neu` is not an assignment: `neu` given for `f` after the other pairs leaves the face as
    those pairs made it — in particular `dir` followed by `neu` on the same face stays Dirichlet. -/
theorem neu_does_not_override (g : Grid) (fa : Faces) (cond : Option Conds) (b : BC) (w w' : Bool)
    (pre post : List (Nat × Cond)) (f : Nat)
    (hp : prepare g fa cond = .ok (pre ++ (f, .neu) :: post, w'))
    (hpost : ∀ p ∈ post, p.1 = f → p.2 = .neu)
    (h : mkScalar g (some fa) cond = .ok (b, w)) :
    b.at f = lastType f (g.isBf f, false, false) pre := by
  rw [bc_type_is_last_assignment g fa cond b w w' _ hp h f,
    (lastType_append_last f _ pre post .neu (fun p hp' e => Or.inl (hpost p hp' e))).2]
  simp [stepType]

/-! ### vectorial variant: constructor followed by any history of `set_bc` calls -/

/-- Per component: after the constructor and ANY sequence of `set_bc` calls — including calls
    that raise, some after writing part of their pairs — every component (row of the
    `(dim, num_faces)` arrays) satisfies the partition invariant, there are `dim` components,
    and all components are equal. -/
theorem bcv_componentwise (g : Grid) (dim : Nat) (faces : Option Faces) (cond : Option Conds)
    (v0 : VBC) (h0 : mkVector g dim faces cond = .ok v0)
    (calls : List (Option Faces × Option Conds)) :
    (runV g v0 calls).length = dim ∧
    (∀ b ∈ runV g v0 calls, Partition g b) ∧
    (∀ b ∈ runV g v0 calls, ∀ b' ∈ runV g v0 calls, b = b') := by
  have hstep : ∀ (v : VBC) fa co, (v.length = dim ∧ (∀ b ∈ v, Partition g b) ∧ (∀ b ∈ v, ∀ b' ∈ v, b = b')) →
      ((setBcV g v fa co).1.length = dim ∧ (∀ b ∈ (setBcV g v fa co).1, Partition g b) ∧
        (∀ b ∈ (setBcV g v fa co).1, ∀ b' ∈ (setBcV g v fa co).1, b = b')) := by
    intro v fa co ⟨h1, h2, h3⟩
    simp only [setBcV, List.length_map, List.mem_map]
    refine ⟨h1, ?_, ?_⟩
    · rintro b ⟨a, ha, rfl⟩; exact partition_setBc g a fa co (h2 a ha)
    · rintro b ⟨a, ha, rfl⟩ b' ⟨a', ha', rfl⟩; rw [h3 a ha a' ha']
  have hrun : ∀ (calls : List (Option Faces × Option Conds)) (v : VBC),
      (v.length = dim ∧ (∀ b ∈ v, Partition g b) ∧ (∀ b ∈ v, ∀ b' ∈ v, b = b')) →
      ((runV g v calls).length = dim ∧ (∀ b ∈ runV g v calls, Partition g b) ∧
        (∀ b ∈ runV g v calls, ∀ b' ∈ runV g v calls, b = b')) := by
    intro calls
    induction calls with
    | nil => intro v hv; exact hv
    | cons c cs ih => intro v hv; exact ih _ (hstep v c.1 c.2 hv)
  apply hrun
  -- the constructor: default arrays, then one `set_bc`
  have hinit : (List.replicate dim (BC.init g)).length = dim ∧
      (∀ b ∈ List.replicate dim (BC.init g), Partition g b) ∧
      (∀ b ∈ List.replicate dim (BC.init g), ∀ b' ∈ List.replicate dim (BC.init g), b = b') := by
    refine ⟨by simp, ?_, ?_⟩
    · intro b hb; rw [(List.mem_replicate.mp hb).2]; exact partition_init g
    · intro b hb b' hb'; rw [(List.mem_replicate.mp hb).2, (List.mem_replicate.mp hb').2]
  have := hstep _ faces cond hinit
  unfold mkVector at h0
  simp only at h0
  split at h0
  · simp only [Except.ok.injEq] at h0; rw [← h0]; exact this
  · cases h0

/-- One `set_bc` call on one component: every face gets the last `dir`/`rob` among the pairs
    executed before the first unknown keyword, and keeps its type otherwise. -/
theorem set_bc_type_is_last_assignment (g : Grid) (b : BC) (hb : Partition g b) (fa : Faces)
    (cond : Option Conds) (pairs : List (Nat × Cond)) (w : Bool)
    (hp : prepare g fa cond = .ok (pairs, w)) (f : Nat) :
    (setBc g b (some fa) cond).1.at f = lastType f (b.at f) (goodPrefix pairs) := by
  simp only [setBc, hp]
  exact (applyAll_spec g.nf pairs b hb.1
    (fun p hp' => isBf_lt g _ (prepare_ok g fa cond pairs w hp p hp'))).2.1 f

/-! ### histories: constructor followed by ANY sequence of `set_bc` / `internal_to_dirichlet` -/

/-- The three flag arrays after any history depend only on the last `dir`/`rob` written per
    (component, face): for every component `b` and every face `f` (boundary, interior or out of
    range) the triple (is_neu, is_dir, is_rob) equals `lastType` over the concatenation of the
    pairs each operation really executed, starting from the default — Neumann on every boundary
    face, which on split fractured grids includes the internal-boundary (fracture) faces.
    Failing `set_bc` calls contribute their executed prefix (or nothing if validation failed);
    `internal_to_dirichlet` contributes a `dir` for every fracture face. Every component also
    satisfies the partition invariant. -/
theorem bcv_history_last_assignment (g : Grid) (dim : Nat) (faces : Option Faces) (cond : Option Conds)
    (v0 : VBC) (h0 : mkVector g dim faces cond = .ok v0) (ops : List VOp) :
    (runOps g v0 ops).length = dim ∧
    ∀ b ∈ runOps g v0 ops, Partition g b ∧
      ∀ f, b.at f = lastType f (g.isBf f, false, false)
        (executed g (.setBc faces cond) ++ ops.flatMap (executed g)) := by
  -- invariant carried along the history
  have hstep : ∀ (v : VBC) (acc : List (Nat × Cond)) (o : VOp),
      (v.length = dim ∧ ∀ b ∈ v, Partition g b ∧ ∀ f, b.at f = lastType f (g.isBf f, false, false) acc) →
      ((stepV g v o).length = dim ∧ ∀ b ∈ stepV g v o, Partition g b ∧
        ∀ f, b.at f = lastType f (g.isBf f, false, false) (acc ++ executed g o)) := by
    intro v acc o ⟨hl, hv⟩
    have hpart : ∀ (a a' : BC), Partition g a → a'.wf g.nf →
        (∀ f, a'.at f = lastType f (a.at f) (executed g o)) → Partition g a' := by
      intro a a' hPa hw' hat'
      refine ⟨hw', fun f => ?_⟩
      rcases lastType_cases f (executed g o) (a.at f) with h | ⟨h, q, hq, hqf, _⟩
      · have e := hat' f; rw [h] at e
        simp only [BC.at, Prod.mk.injEq] at e
        obtain ⟨e1, e2, e3⟩ := e
        exact ⟨fun hb => by rw [e1, e2, e3]; exact (hPa.2 f).1 hb,
               fun hb => by simp only [BC.at, e1, e2, e3]; exact (hPa.2 f).2 hb⟩
      · have hbf : g.isBf f = true := by
          have := executed_on_boundary g o q hq; rw [hqf] at this; exact this
        refine ⟨fun _ => ?_, fun hn => by rw [hbf] at hn; cases hn⟩
        have e := hat' f
        rcases h with h | h <;>
        · rw [h] at e
          simp only [BC.at, Prod.mk.injEq] at e
          obtain ⟨e1, e2, e3⟩ := e
          rw [e1, e2, e3]; rfl
    cases o with
    | setBc fa co =>
      simp only [stepV, setBcV, List.length_map, List.mem_map]
      refine ⟨hl, ?_⟩
      rintro b ⟨a, ha, rfl⟩
      obtain ⟨hPa, hata⟩ := hv a ha
      obtain ⟨hw', hat'⟩ := setBc_spec g a hPa.1 fa co
      exact ⟨hpart a _ hPa hw' hat', fun f => by rw [hat' f, hata f, lastType_append]⟩
    | internalToDirichlet =>
      simp only [stepV, List.length_map, List.mem_map]
      refine ⟨hl, ?_⟩
      rintro b ⟨a, ha, rfl⟩
      obtain ⟨hPa, hata⟩ := hv a ha
      obtain ⟨hw', hat'⟩ := internalToDirichlet_spec g a hPa.1
      exact ⟨hpart a _ hPa hw' hat', fun f => by rw [hat' f, hata f, lastType_append]⟩
  have hrun : ∀ (ops : List VOp) (v : VBC) (acc : List (Nat × Cond)),
      (v.length = dim ∧ ∀ b ∈ v, Partition g b ∧ ∀ f, b.at f = lastType f (g.isBf f, false, false) acc) →
      ((runOps g v ops).length = dim ∧ ∀ b ∈ runOps g v ops, Partition g b ∧
        ∀ f, b.at f = lastType f (g.isBf f, false, false) (acc ++ ops.flatMap (executed g))) := by
    intro ops
    induction ops with
    | nil => intro v acc hv; simpa [runOps] using hv
    | cons o os ih =>
      intro v acc hv
      have := ih (stepV g v o) (acc ++ executed g o) (hstep v acc o hv)
      simpa [runOps, List.flatMap_cons, List.append_assoc] using this
  -- the constructor is the default arrays followed by one `set_bc`
  have hinit : (List.replicate dim (BC.init g)).length = dim ∧
      ∀ b ∈ List.replicate dim (BC.init g), Partition g b ∧
        ∀ f, b.at f = lastType f (g.isBf f, false, false) [] := by
    refine ⟨by simp, fun b hb => ?_⟩
    rw [(List.mem_replicate.mp hb).2]
    exact ⟨partition_init g, fun f => at_init g f⟩
  have h1 := hstep _ [] (.setBc faces cond) hinit
  have hv0 : v0 = stepV g (List.replicate dim (BC.init g)) (.setBc faces cond) := by
    unfold mkVector at h0
    simp only at h0
    split at h0
    · simp only [Except.ok.injEq] at h0; rw [← h0]; rfl
    · cases h0
  rw [hv0]
  simpa using hrun ops _ _ h1

/-- Internal-boundary default on split fractured grids: a fracture face that no executed pair
    names is Neumann (and nothing else) in every component, after any history. -/
theorem bcv_internal_boundary_default (g : Grid) (dim : Nat) (faces : Option Faces) (cond : Option Conds)
    (v0 : VBC) (h0 : mkVector g dim faces cond = .ok v0) (ops : List VOp) (f : Nat)
    (hf : f < g.nf) (hfrac : g.frac f = true)
    (hnot : ∀ p ∈ executed g (.setBc faces cond) ++ ops.flatMap (executed g), p.1 ≠ f) :
    ∀ b ∈ runOps g v0 ops, b.at f = (true, false, false) := by
  intro b hb
  have h := ((bcv_history_last_assignment g dim faces cond v0 h0 ops).2 b hb).2 f
  have hbf : g.isBf f = true := by simp [Grid.isBf, hf, hfrac]
  rw [h, hbf]
  rcases lastType_cases f _ (true, false, false) with h' | ⟨_, q, hq, hqf, _⟩
  · exact h'
  · exact absurd hqf (hnot q hq)

/-- `internal_to_dirichlet` (as the property requires it): afterwards every fracture face is
    Dirichlet only, every other face is unchanged. -/
theorem internal_to_dirichlet_spec (g : Grid) (b : BC) (hb : Partition g b) (f : Nat) :
    (internalToDirichlet g b).at f =
      if f < g.nf ∧ g.frac f = true then (false, true, false) else b.at f := by
  rw [(internalToDirichlet_spec g b hb.1).2 f]
  simp only [executed, lastType_all_dir, List.mem_filter, List.mem_range]

/-! ### error cases (all `ValueError` in the code, except the assertion) -/

/-- a mask of the wrong size is rejected -/
theorem bc_rejects_wrong_mask (g : Grid) (m : List Bool) (cs : Conds) (hm : m.length ≠ g.nf) :
    mkScalar g (some (.mask m)) (some cs) = .error .maskSize ∧
    callErr g (some (.mask m)) (some cs) = some .maskSize := by
  simp [mkScalar, callErr, prepare, resolveFaces, hm]

/-- a face that is not a boundary face (interior, negative, too large) is rejected, nothing is written -/
theorem bc_rejects_non_boundary (g : Grid) (fa : Faces) (cs : Conds) (fs : List Int)
    (hfs : resolveFaces g.nf fa = .ok fs) (i : Int) (hi : i ∈ fs) (hbad : inBf g i = false) (b : BC) :
    mkScalar g (some fa) (some cs) = .error .notBoundary ∧
    setBc g b (some fa) (some cs) = (b, some .notBoundary) := by
  have hall : fs.all (inBf g) = false := by
    rw [List.all_eq_false]; exact ⟨i, hi, by simp [hbad]⟩
  simp [mkScalar, setBc, prepare, hfs, hall]

/-- the number of keywords must equal the number of faces -/
theorem bc_rejects_length_mismatch (g : Grid) (fa : Faces) (cl : List Cond) (fs : List Int)
    (hfs : resolveFaces g.nf fa = .ok fs) (hall : fs.all (inBf g) = true)
    (hlen : fs.length ≠ cl.length) (b : BC) :
    mkScalar g (some fa) (some (.many cl)) = .error .length ∧
    setBc g b (some fa) (some (.many cl)) = (b, some .length) := by
  simp [mkScalar, setBc, prepare, hfs, hall, expandConds, hlen]

/-- an unknown keyword is rejected: the scalar constructor fails, `set_bc` raises -/
theorem bc_rejects_unknown_keyword (g : Grid) (fa : Faces) (cond : Option Conds)
    (pairs : List (Nat × Cond)) (w : Bool) (hp : prepare g fa cond = .ok (pairs, w))
    (p : Nat × Cond) (hmem : p ∈ pairs) (hbad : p.2 = .bad) (b : BC) :
    mkScalar g (some fa) cond = .error .unknown ∧ (setBc g b (some fa) cond).2 = some .unknown := by
  have hall : pairs.all (fun p => p.2 != .bad) = false := by
    rw [List.all_eq_false]; exact ⟨p, hmem, by simp [hbad]⟩
  have hflag : ∀ b : BC, (applyAll b pairs).2 = false := by
    intro b
    have := setBc_err g b (some fa) cond
    simp only [setBc, callErr, hp, hall] at this
    by_cases e : (applyAll b pairs).2 = true
    · simp [e] at this
    · simpa using e
  constructor
  · simp [mkScalar, hp, hflag]
  · rw [setBc_err]; simp [callErr, hp, hall]

/-! ### non-vacuity: concrete grids and assignments -/

deriving instance DecidableEq for Except

/-- 6 faces; 0,1 domain boundary, 2 fracture, 5 tip, 3,4 interior -/
def gEx : Grid := ⟨6, fun f => f < 2, fun f => f == 2, fun f => f == 5⟩

/-- rob then dir on face 0 (the F6 input), dir then neu on face 1 (stays Dirichlet),
    rob on the fracture face 2 (warns), face 5 unassigned (Neumann) -/
example :
    mkScalar gEx (some (.idx [0, 0, 1, 1, 2])) (some (.many [.rob, .dir, .dir, .neu, .rob]))
      = .ok (⟨[false, false, false, false, false, true],
              [true, true, false, false, false, false],
              [false, false, true, false, false, false]⟩, true) := by decide

example : mkScalar gEx (some (.mask [true, false, false, false, false, true])) (some (.one .dir))
      = .ok (⟨[false, true, true, false, false, false],
              [true, false, false, false, false, true],
              [false, false, false, false, false, false]⟩, false) := by decide

example : mkScalar gEx (some (.idx [3])) (some (.one .dir)) = .error .notBoundary := by decide
example : mkScalar gEx (some (.idx [-1])) (some (.one .dir)) = .error .notBoundary := by decide
example : mkScalar gEx (some (.idx [0, 1])) (some (.many [.dir])) = .error .length := by decide
example : mkScalar gEx (some (.idx [0, 1])) (some (.many [.dir, .bad])) = .error .unknown := by decide
example : mkScalar gEx (some (.mask [true])) (some (.one .dir)) = .error .maskSize := by decide
example : mkScalar gEx (some (.idx [0])) none = .error .assertion := by decide

/-- vectorial, 2 components: constructor, then a `set_bc` that raises after writing face 0 -/
example :
    (mkVector gEx 2 (some (.idx [0])) (some (.one .rob))).toOption.map
      (fun v => runV gEx v [(some (.idx [0, 1, 2]), some (.many [.dir, .bad, .rob]))])
      = some (List.replicate 2 ⟨[false, true, true, false, false, true],
                                [true, false, false, false, false, false],
                                [false, false, false, false, false, false]⟩) := by decide

/-- known finding: `internal_to_dirichlet` AS CODED leaves the Robin flag of a fracture face set:
    face 2 (fracture) was Robin and ends up Dirichlet AND Robin; the property-following version
    clears it. -/
example :
    (mkVector gEx 1 (some (.idx [2])) (some (.one .rob))).toOption.map
      (fun v => (v.map (internalToDirichletCoded gEx), v.map (internalToDirichlet gEx)))
      = some ([⟨[true, true, false, false, false, true], [false, false, true, false, false, false],
                [false, false, true, false, false, false]⟩],
              [⟨[true, true, false, false, false, true], [false, false, true, false, false, false],
                [false, false, false, false, false, false]⟩]) := by decide

example : parseCond "DiR" = .dir ∧ parseCond "neu" = .neu ∧ parseCond "Rob" = .rob ∧ parseCond "dirichlet" = .bad := by
  decide +kernel

end PorepyVerif.C39
