/- C39 line-protocol driver: `lake env lean --run PorepyVerif/C39/Driver.lean` -/
import PorepyVerif.Common.Wire
import PorepyVerif.C39.Model
open Lean PV PorepyVerif.C39

/-- state: the abstracted grid and the vectorial object under construction (if any) -/
structure St where
  g : Grid
  v : Option VBC

def tagFn (l : List Bool) : Nat → Bool := fun f => l.getD f false

def jFaces (j : Json) : R (Option Faces) :=
  match j with
  | .null => pure none
  | _ =>
    match j.getObjVal? "idx" with
    | .ok a => do let l ← jList jInt a; pure (some (.idx l))
    | .error _ =>
      match j.getObjVal? "mask" with
      | .ok a => do let l ← jList jBool a; pure (some (.mask l))
      | .error _ => throw "faces: expected null, {idx} or {mask}"

def jConds (j : Json) : R (Option Conds) :=
  match j with
  | .null => pure none
  | .str s => pure (some (.one (parseCond s)))
  | .arr _ => do let l ← jList jStr j; pure (some (.many (l.map parseCond)))
  | _ => throw "cond: expected null, string or list of strings"

def ofBools (l : List Bool) : Json := ofList Json.bool l
def ofBC (b : BC) : Json := obj [("neu", ofBools b.neu), ("dir", ofBools b.dir), ("rob", ofBools b.rob)]

def errName : Err → String
  | .assertion => "AssertionError"
  | _ => "ValueError"

def step (st : St) (j : Json) : R (St × Json) := do
  let op ← fStr j "op"
  match op with
  | "grid" =>
    let nf ← fNat j "nf"
    let dom ← field j "dom" >>= jList jBool
    let frac ← field j "frac" >>= jList jBool
    let tip ← field j "tip" >>= jList jBool
    if dom.length != nf || frac.length != nf || tip.length != nf then throw "tag length mismatch" else
    pure ({ g := ⟨nf, tagFn dom, tagFn frac, tagFn tip⟩, v := none }, Json.str "ok")
  | "scalar" =>
    let faces ← jFaces (fieldD j "faces" .null)
    let cond ← jConds (fieldD j "cond" .null)
    match mkScalar st.g faces cond with
    | .ok (b, w) => pure (st, obj [("bc", ofBC b), ("warn", Json.bool w)])
    | .error e => pure (st, err (errName e))
  | "vector" =>
    let dim ← fNat j "dim"
    let faces ← jFaces (fieldD j "faces" .null)
    let cond ← jConds (fieldD j "cond" .null)
    match mkVector st.g dim faces cond with
    | .ok v => pure ({ st with v := some v }, obj [("comps", ofList ofBC v)])
    | .error e => pure ({ st with v := none }, err (errName e))
  | "set_bc" =>
    match st.v with
    | none => pure (st, err "no-object")
    | some v =>
      let faces ← jFaces (fieldD j "faces" .null)
      let cond ← jConds (fieldD j "cond" .null)
      let r := setBcV st.g v faces cond
      let e := match r.2 with
        | none => Json.null
        | some e => Json.str (errName e)
      pure ({ st with v := some r.1 }, obj [("comps", ofList ofBC r.1), ("raised", e)])
  | "internal_to_dirichlet" =>
    match st.v with
    | none => pure (st, err "no-object")
    | some v =>
      let v' := v.map (internalToDirichlet st.g)
      pure ({ st with v := some v' }, obj [("comps", ofList ofBC v'), ("raised", Json.null)])
  | _ => throw s!"unknown op {op}"

def main : IO Unit := runDriver ({ g := ⟨0, fun _ => false, fun _ => false, fun _ => false⟩, v := none } : St) step
