import PorepyVerif.C39.Props
#print axioms PorepyVerif.C39.bc_exactly_one_on_boundary
#print axioms PorepyVerif.C39.bc_none_on_interior
#print axioms PorepyVerif.C39.bc_type_is_last_assignment
#print axioms PorepyVerif.C39.bc_default_neumann_no_faces
#print axioms PorepyVerif.C39.bc_default_neumann
#print axioms PorepyVerif.C39.bc_last_assignment_wins
#print axioms PorepyVerif.C39.neu_does_not_override
#print axioms PorepyVerif.C39.bcv_componentwise
#print axioms PorepyVerif.C39.set_bc_type_is_last_assignment
#print axioms PorepyVerif.C39.bc_rejects_wrong_mask
#print axioms PorepyVerif.C39.bc_rejects_non_boundary
#print axioms PorepyVerif.C39.bc_rejects_length_mismatch
#print axioms PorepyVerif.C39.bc_rejects_unknown_keyword
#print axioms PorepyVerif.C39.bcv_history_last_assignment
#print axioms PorepyVerif.C39.bcv_internal_boundary_default
#print axioms PorepyVerif.C39.internal_to_dirichlet_spec
