/-
C39 — executable model of `porepy.params.bc.BoundaryCondition` and
`BoundaryConditionVectorial` (constructor and `set_bc`), core Lean only.

A grid is abstracted to what the code reads from it: the number of faces and the three face
tags `domain_boundary_faces`, `fracture_faces`, `tip_faces` (`get_all_boundary_faces` is the set
of faces carrying at least one of them).  A boundary-condition object is the triple of boolean
arrays `is_neu`, `is_dir`, `is_rob`; the vectorial object is one such triple per component
(row `d` of the `(dim, num_faces)` arrays).  The assignment loop is a fold over (face, cond)
pairs that writes the three arrays exactly as the code does, so that a branch that forgets to
clear one array (finding F6) is expressible.
-/
namespace PorepyVerif.C39

/-- the condition keyword after `s.lower()`; `bad` is any other string -/
inductive Cond where
  | neu | dir | rob | bad
  deriving DecidableEq, Repr, Inhabited

def parseCond (s : String) : Cond :=
  let t := s.toLower
  if t = "neu" then .neu else if t = "dir" then .dir else if t = "rob" then .rob else .bad

/-- what the constructors read from the grid -/
structure Grid where
  nf : Nat
  dom : Nat → Bool
  frac : Nat → Bool
  tip : Nat → Bool

/-- `f ∈ sd.get_all_boundary_faces()` -/
def Grid.isBf (g : Grid) (f : Nat) : Bool := decide (f < g.nf) && (g.dom f || g.frac f || g.tip f)

/-- the three boolean arrays -/
structure BC where
  neu : List Bool
  dir : List Bool
  rob : List Bool
  deriving DecidableEq, Repr

/-- array read (out of range reads `false`; all arrays have length `nf`, see `Lemmas`) -/
def get (l : List Bool) (f : Nat) : Bool := l.getD f false

/-- `np.zeros(nf, bool)` three times, then `is_neu[bf] = True` -/
def BC.init (g : Grid) : BC :=
  ⟨(List.range g.nf).map g.isBf, List.replicate g.nf false, List.replicate g.nf false⟩

/-- body of the assignment loop for one (face, cond) pair; `none` = `raise ValueError` -/
def BC.assign (b : BC) (f : Nat) : Cond → Option BC
  | .neu => some b                                   -- `pass  # Neumann is already default`
  | .dir => some ⟨b.neu.set f false, b.dir.set f true, b.rob.set f false⟩
  | .rob => some ⟨b.neu.set f false, b.dir.set f false, b.rob.set f true⟩
  | .bad => none

/-- the `for` loop: stops at the first unknown keyword, keeping what was written before
    (observable for `set_bc`, where the object survives the exception); flag = completed -/
def applyAll (b : BC) : List (Nat × Cond) → BC × Bool
  | [] => (b, true)
  | p :: ps =>
    match b.assign p.1 p.2 with
    | some b' => applyAll b' ps
    | none => (b, false)

/-- `faces` argument: integer index array or boolean mask -/
inductive Faces where
  | idx (l : List Int)
  | mask (m : List Bool)

/-- `cond` argument: one string for all faces or a list of strings -/
inductive Conds where
  | one (c : Cond)
  | many (l : List Cond)

inductive Err where
  | assertion      -- `assert cond is not None`
  | maskSize       -- boolean faces of the wrong size
  | notBoundary    -- some face is not in `bf`
  | length         -- `faces.size != len(cond)`
  | unknown        -- keyword other than dir / neu / rob
  deriving DecidableEq, Repr

/-- positions of the `true` entries, ascending (`np.argwhere(mask)`) -/
def maskIdx : List Bool → Nat → List Int
  | [], _ => []
  | b :: m, i => if b then (i : Int) :: maskIdx m (i + 1) else maskIdx m (i + 1)

def resolveFaces (nf : Nat) : Faces → Except Err (List Int)
  | .idx l => .ok l
  | .mask m => if m.length = nf then .ok (maskIdx m 0) else .error .maskSize

def inBf (g : Grid) (i : Int) : Bool := decide (0 ≤ i) && g.isBf i.toNat

def expandConds (n : Nat) : Conds → List Cond
  | .one c => List.replicate n c
  | .many l => l

/-- outcome of the validated part of one call: the (face, cond) pairs handed to the loop,
    and whether the scalar constructor warns about internal boundaries -/
def prepare (g : Grid) (faces : Faces) (cond : Option Conds) : Except Err (List (Nat × Cond) × Bool) :=
  match cond with
  | none => .error .assertion
  | some cs =>
    match resolveFaces g.nf faces with
    | .error e => .error e
    | .ok fs =>
      if !(fs.all (inBf g)) then .error .notBoundary else
      let warn := !(fs.all (fun i => g.dom i.toNat || g.tip i.toNat))
      let cl := expandConds fs.length cs
      if fs.length ≠ cl.length then .error .length else
      .ok ((fs.map Int.toNat).zip cl, warn)

/-- the pairs the loop executes: everything before the first unknown keyword -/
def goodPrefix : List (Nat × Cond) → List (Nat × Cond)
  | [] => []
  | p :: ps => if p.2 = .bad then [] else p :: goodPrefix ps

/-- `set_bc(faces, cond)` on one component: new arrays and the exception raised, if any.
    The arrays are returned in every case because the object outlives a failing call. -/
def setBc (g : Grid) (b : BC) (faces : Option Faces) (cond : Option Conds) : BC × Option Err :=
  match faces with
  | none => (b, none)
  | some fa =>
    match prepare g fa cond with
    | .error e => (b, some e)
    | .ok (pairs, _) =>
      let r := applyAll b pairs
      (r.1, if r.2 then none else some .unknown)

/-- `BoundaryCondition(sd, faces, cond)`: arrays and the warning flag, or the exception -/
def mkScalar (g : Grid) (faces : Option Faces) (cond : Option Conds) : Except Err (BC × Bool) :=
  match faces with
  | none => .ok (BC.init g, false)
  | some fa =>
    match prepare g fa cond with
    | .error e => .error e
    | .ok (pairs, warn) =>
      let r := applyAll (BC.init g) pairs
      if r.2 then .ok (r.1, warn) else .error .unknown

/-- vectorial object: one triple of arrays per component -/
abbrev VBC := List BC

/-- the exception a call raises (it does not depend on the arrays) -/
def callErr (g : Grid) (faces : Option Faces) (cond : Option Conds) : Option Err :=
  match faces with
  | none => none
  | some fa =>
    match prepare g fa cond with
    | .error e => some e
    | .ok (pairs, _) => if pairs.all (fun p => p.2 != .bad) then none else some .unknown

/-- `is_x[:, f] = v` writes every row: each component performs the same call -/
def setBcV (g : Grid) (v : VBC) (faces : Option Faces) (cond : Option Conds) : VBC × Option Err :=
  (v.map (fun b => (setBc g b faces cond).1), callErr g faces cond)

/-- `BoundaryConditionVectorial(sd, faces, cond)` = default arrays, then `set_bc` -/
def mkVector (g : Grid) (dim : Nat) (faces : Option Faces) (cond : Option Conds) : Except Err VBC :=
  let r := setBcV g (List.replicate dim (BC.init g)) faces cond
  match r.2 with
  | none => .ok r.1
  | some e => .error e

/-- a history of `set_bc` calls on a vectorial object (failing calls included) -/
def runV (g : Grid) (v : VBC) : List (Option Faces × Option Conds) → VBC
  | [] => v
  | c :: cs => runV g (setBcV g v c.1 c.2).1 cs

/-- `internal_to_dirichlet(sd)` on one component: every fracture (internal boundary) face becomes
    Dirichlet.  The model follows the PROPERTY: the Robin flag is cleared as well.  The code
    (`is_neu[:, frac] = False; is_dir[:, frac] = True`) does not clear `is_rob` — known finding,
    see `internalToDirichletCoded`. -/
def internalToDirichlet (g : Grid) (b : BC) : BC :=
  ⟨b.neu.mapIdx (fun f v => if g.frac f then false else v),
   b.dir.mapIdx (fun f v => if g.frac f then true else v),
   b.rob.mapIdx (fun f v => if g.frac f then false else v)⟩

/-- the method as it is coded (Robin flag untouched) -/
def internalToDirichletCoded (g : Grid) (b : BC) : BC :=
  ⟨b.neu.mapIdx (fun f v => if g.frac f then false else v),
   b.dir.mapIdx (fun f v => if g.frac f then true else v),
   b.rob⟩

/-- operations on an existing vectorial object -/
inductive VOp where
  | setBc (faces : Option Faces) (cond : Option Conds)
  | internalToDirichlet

def stepV (g : Grid) (v : VBC) : VOp → VBC
  | .setBc fa co => (setBcV g v fa co).1
  | .internalToDirichlet => v.map (internalToDirichlet g)

/-- any history of operations (failing `set_bc` calls included) -/
def runOps (g : Grid) (v : VBC) : List VOp → VBC
  | [] => v
  | o :: os => runOps g (stepV g v o) os

/-- the (face, cond) pairs an operation really writes: for `set_bc` the validated pairs before
    the first unknown keyword (nothing if validation fails), for `internal_to_dirichlet` a `dir`
    for every fracture face -/
def executed (g : Grid) : VOp → List (Nat × Cond)
  | .setBc none _ => []
  | .setBc (some fa) co =>
    match prepare g fa co with
    | .ok (pairs, _) => goodPrefix pairs
    | .error _ => []
  | .internalToDirichlet => ((List.range g.nf).filter g.frac).map (fun f => (f, Cond.dir))

/-! ### specification side -/

def exactlyOne (a b c : Bool) : Bool := (a && !b && !c) || (!a && b && !c) || (!a && !b && c)

/-- (is_neu, is_dir, is_rob) at face `f` -/
def BC.at (b : BC) (f : Nat) : Bool × Bool × Bool := (get b.neu f, get b.dir f, get b.rob f)

/-- what the loop leaves at face `f`: the last `dir`/`rob` assigned to `f`; `neu` assigns nothing -/
def lastType (f : Nat) (t : Bool × Bool × Bool) : List (Nat × Cond) → Bool × Bool × Bool
  | [] => t
  | p :: ps =>
    if p.1 = f then
      match p.2 with
      | .dir => lastType f (false, true, false) ps
      | .rob => lastType f (false, false, true) ps
      | _ => lastType f t ps
    else lastType f t ps


end PorepyVerif.C39
