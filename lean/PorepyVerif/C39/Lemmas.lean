/-
C39 — helper lemmas (property theorems are in Props.lean).
-/
import PorepyVerif.C39.Model

namespace PorepyVerif.C39

/-! ### array reads and writes -/

theorem get_set (l : List Bool) (i j : Nat) (v : Bool) :
    get (l.set i v) j = if i = j ∧ i < l.length then v else get l j := by
  unfold get
  simp only [List.getD_eq_getElem?_getD, List.getElem?_set]
  by_cases h : i = j
  · subst h
    by_cases hl : i < l.length
    · simp [hl]
    · simp [hl]
  · simp [h]

theorem get_replicate_false (n f : Nat) : get (List.replicate n false) f = false := by
  unfold get
  simp only [List.getD_eq_getElem?_getD, List.getElem?_replicate]
  split <;> rfl

theorem get_map_range (p : Nat → Bool) (n f : Nat) :
    get ((List.range n).map p) f = (decide (f < n) && p f) := by
  unfold get
  simp only [List.getD_eq_getElem?_getD, List.getElem?_map]
  by_cases h : f < n <;> simp [h]

/-- all three arrays have the length of the grid -/
def BC.wf (n : Nat) (b : BC) : Prop := b.neu.length = n ∧ b.dir.length = n ∧ b.rob.length = n

theorem wf_init (g : Grid) : (BC.init g).wf g.nf := by
  simp [BC.wf, BC.init]

theorem at_init (g : Grid) (f : Nat) : (BC.init g).at f = (g.isBf f, false, false) := by
  simp only [BC.at, BC.init, get_replicate_false, get_map_range]
  simp only [Grid.isBf, Bool.and_self_left]

/-! ### one assignment -/

/-- effect of one loop body at every face -/
def stepType (f0 : Nat) (c : Cond) (f : Nat) (t : Bool × Bool × Bool) : Bool × Bool × Bool :=
  if f0 = f then
    match c with
    | .dir => (false, true, false)
    | .rob => (false, false, true)
    | _ => t
  else t

theorem assign_spec (n : Nat) (b b' : BC) (f0 : Nat) (c : Cond) (hw : b.wf n) (hf : f0 < n)
    (h : b.assign f0 c = some b') : b'.wf n ∧ ∀ f, b'.at f = stepType f0 c f (b.at f) := by
  obtain ⟨h1, h2, h3⟩ := hw
  cases c with
  | neu =>
    simp only [BC.assign, Option.some.injEq] at h
    subst h
    refine ⟨⟨h1, h2, h3⟩, fun f => ?_⟩
    unfold stepType; split <;> rfl
  | dir =>
    simp only [BC.assign, Option.some.injEq] at h
    subst h
    refine ⟨⟨by simp [h1], by simp [h2], by simp [h3]⟩, fun f => ?_⟩
    simp only [BC.at, get_set, h1, h2, h3, hf, and_true, stepType]
    by_cases e : f0 = f <;> simp [e]
  | rob =>
    simp only [BC.assign, Option.some.injEq] at h
    subst h
    refine ⟨⟨by simp [h1], by simp [h2], by simp [h3]⟩, fun f => ?_⟩
    simp only [BC.at, get_set, h1, h2, h3, hf, and_true, stepType]
    by_cases e : f0 = f <;> simp [e]
  | bad => simp [BC.assign] at h

theorem assign_none_iff (b : BC) (f0 : Nat) (c : Cond) : b.assign f0 c = none ↔ c = .bad := by
  cases c <;> simp [BC.assign]

/-! ### the loop -/

theorem lastType_cons (f : Nat) (t : Bool × Bool × Bool) (p : Nat × Cond) (ps : List (Nat × Cond)) :
    lastType f t (p :: ps) = lastType f (stepType p.1 p.2 f t) ps := by
  simp only [lastType, stepType]
  by_cases e : p.1 = f
  · simp only [e, if_true]
    cases p.2 <;> rfl
  · simp only [e, if_false]

theorem applyAll_spec (n : Nat) (ps : List (Nat × Cond)) :
    ∀ (b : BC), b.wf n → (∀ p ∈ ps, p.1 < n) →
      (applyAll b ps).1.wf n ∧
      (∀ f, (applyAll b ps).1.at f = lastType f (b.at f) (goodPrefix ps)) ∧
      ((applyAll b ps).2 = ps.all (fun p => p.2 != .bad)) := by
  induction ps with
  | nil => intro b hw _; exact ⟨hw, fun _ => rfl, rfl⟩
  | cons p ps ih =>
    intro b hw hp
    have hp0 : p.1 < n := hp p List.mem_cons_self
    have hps : ∀ q ∈ ps, q.1 < n := fun q hq => hp q (List.mem_cons_of_mem _ hq)
    cases hc : b.assign p.1 p.2 with
    | none =>
      have hbad : p.2 = .bad := (assign_none_iff b p.1 p.2).mp hc
      simp only [applyAll, hc]
      refine ⟨hw, fun f => ?_, ?_⟩
      · simp only [goodPrefix, hbad, if_true, lastType]
      · simp [hbad]
    | some b' =>
      have hnb : p.2 ≠ .bad := fun e => by
        have := (assign_none_iff b p.1 p.2).mpr e
        rw [hc] at this; cases this
      obtain ⟨hw', hat⟩ := assign_spec n b b' p.1 p.2 hw hp0 hc
      obtain ⟨i1, i2, i3⟩ := ih b' hw' hps
      simp only [applyAll, hc, goodPrefix, hnb, if_false, List.all_cons]
      refine ⟨i1, fun f => ?_, ?_⟩
      · rw [i2 f, hat f, lastType_cons]
      · rw [i3]; simp [hnb]

/-! ### facts about `lastType` -/

theorem lastType_cases (f : Nat) (ps : List (Nat × Cond)) : ∀ t,
    lastType f t ps = t ∨ ((lastType f t ps = (false, true, false) ∨ lastType f t ps = (false, false, true))
      ∧ ∃ p ∈ ps, p.1 = f ∧ (p.2 = .dir ∨ p.2 = .rob)) := by
  induction ps with
  | nil => intro t; exact Or.inl rfl
  | cons p ps ih =>
    intro t
    rw [lastType_cons]
    by_cases e : p.1 = f
    · cases hc : p.2 with
      | neu =>
        simp only [stepType, e, if_true]
        rcases ih t with h | ⟨h, q, hq, hq'⟩
        · exact Or.inl h
        · exact Or.inr ⟨h, q, List.mem_cons_of_mem _ hq, hq'⟩
      | bad =>
        simp only [stepType, e, if_true]
        rcases ih t with h | ⟨h, q, hq, hq'⟩
        · exact Or.inl h
        · exact Or.inr ⟨h, q, List.mem_cons_of_mem _ hq, hq'⟩
      | dir =>
        simp only [stepType, e, if_true]
        right
        rcases ih (false, true, false) with h | ⟨h, _⟩
        · exact ⟨Or.inl h, p, List.mem_cons_self, e, Or.inl hc⟩
        · exact ⟨h, p, List.mem_cons_self, e, Or.inl hc⟩
      | rob =>
        simp only [stepType, e, if_true]
        right
        rcases ih (false, false, true) with h | ⟨h, _⟩
        · exact ⟨Or.inr h, p, List.mem_cons_self, e, Or.inr hc⟩
        · exact ⟨h, p, List.mem_cons_self, e, Or.inr hc⟩
    · simp only [stepType, e, if_false]
      rcases ih t with h | ⟨h, q, hq, hq'⟩
      · exact Or.inl h
      · exact Or.inr ⟨h, q, List.mem_cons_of_mem _ hq, hq'⟩

theorem goodPrefix_subset (ps : List (Nat × Cond)) : ∀ p ∈ goodPrefix ps, p ∈ ps := by
  induction ps with
  | nil => intro p h; cases h
  | cons q ps ih =>
    intro p h
    simp only [goodPrefix] at h
    split at h
    · cases h
    · rcases List.mem_cons.mp h with rfl | h'
      · exact List.mem_cons_self
      · exact List.mem_cons_of_mem _ (ih p h')

theorem goodPrefix_of_all_good (ps : List (Nat × Cond)) (h : ps.all (fun p => p.2 != .bad) = true) :
    goodPrefix ps = ps := by
  induction ps with
  | nil => rfl
  | cons q ps ih =>
    simp only [List.all_cons, Bool.and_eq_true, bne_iff_ne, ne_eq] at h
    simp only [goodPrefix, h.1, if_false, ih h.2]

/-- the last write wins: after the final `dir`/`rob` for face `f` nothing changes the face -/
theorem lastType_append_last (f : Nat) (t : Bool × Bool × Bool) (pre post : List (Nat × Cond)) (c : Cond)
    (hpost : ∀ p ∈ post, p.1 = f → (p.2 = .neu ∨ p.2 = .bad)) :
    lastType f t (pre ++ (f, c) :: post) = lastType f (lastType f t pre) ((f, c) :: post) ∧
    lastType f t (pre ++ (f, c) :: post) = stepType f c f (lastType f t pre) := by
  have happ : ∀ (l1 l2 : List (Nat × Cond)) t, lastType f t (l1 ++ l2) = lastType f (lastType f t l1) l2 := by
    intro l1
    induction l1 with
    | nil => intro l2 t; rfl
    | cons q l1 ih => intro l2 t; simp only [List.cons_append, lastType_cons, ih]
  have hnop : ∀ (l : List (Nat × Cond)) t, (∀ p ∈ l, p.1 = f → (p.2 = .neu ∨ p.2 = .bad)) → lastType f t l = t := by
    intro l
    induction l with
    | nil => intro t _; rfl
    | cons q l ih =>
      intro t h
      rw [lastType_cons, ih _ (fun p hp => h p (List.mem_cons_of_mem _ hp))]
      unfold stepType
      by_cases e : q.1 = f
      · rcases h q List.mem_cons_self e with h' | h' <;> simp [e, h']
      · simp [e]
  refine ⟨happ _ _ _, ?_⟩
  rw [happ, lastType_cons, hnop _ _ hpost]

/-! ### argument validation -/

theorem prepare_ok (g : Grid) (fa : Faces) (cond : Option Conds) (pairs : List (Nat × Cond)) (w : Bool)
    (h : prepare g fa cond = .ok (pairs, w)) : ∀ p ∈ pairs, g.isBf p.1 = true := by
  unfold prepare at h
  cases cond with
  | none => simp at h
  | some cs =>
    simp only at h
    cases hr : resolveFaces g.nf fa with
    | error e => simp [hr] at h
    | ok fs =>
      simp only [hr] at h
      by_cases hall : fs.all (inBf g) = true
      · simp only [hall, Bool.not_true, Bool.false_eq_true, if_false] at h
        split at h
        · cases h
        · simp only [Except.ok.injEq, Prod.mk.injEq] at h
          intro p hp
          rw [← h.1] at hp
          have hm := (List.of_mem_zip hp).1
          obtain ⟨i, hi, hi'⟩ := List.mem_map.mp hm
          have := (List.all_eq_true.mp hall) i hi
          simp only [inBf, Bool.and_eq_true] at this
          rw [← hi']; exact this.2
      · simp [hall] at h

theorem isBf_lt (g : Grid) (f : Nat) (h : g.isBf f = true) : f < g.nf := by
  simp only [Grid.isBf, Bool.and_eq_true, decide_eq_true_eq] at h
  exact h.1

end PorepyVerif.C39

namespace PorepyVerif.C39

/-! ### the partition invariant -/

/-- The property for one triple of arrays: lengths fit the grid, every boundary face carries
    exactly one type, every other face (interior, or index out of range) carries none. -/
def Partition (g : Grid) (b : BC) : Prop :=
  b.wf g.nf ∧ ∀ f,
    (g.isBf f = true → exactlyOne (get b.neu f) (get b.dir f) (get b.rob f) = true) ∧
    (g.isBf f = false → b.at f = (false, false, false))

theorem partition_init (g : Grid) : Partition g (BC.init g) := by
  refine ⟨wf_init g, fun f => ?_⟩
  have h := at_init g f
  simp only [BC.at, Prod.mk.injEq] at h
  obtain ⟨h1, h2, h3⟩ := h
  constructor
  · intro hb; rw [h1, h2, h3, hb]; rfl
  · intro hb; simp only [BC.at, h1, h2, h3, hb]

theorem partition_applyAll (g : Grid) (b : BC) (ps : List (Nat × Cond)) (hb : Partition g b)
    (hps : ∀ p ∈ ps, g.isBf p.1 = true) : Partition g (applyAll b ps).1 := by
  obtain ⟨hw, hP⟩ := hb
  obtain ⟨w', hat, _⟩ := applyAll_spec g.nf ps b hw (fun p hp => isBf_lt g _ (hps p hp))
  refine ⟨w', fun f => ?_⟩
  have hf := hat f
  rcases lastType_cases f (goodPrefix ps) (b.at f) with h | ⟨h, q, hq, hqf, _⟩
  · rw [h] at hf
    simp only [BC.at, Prod.mk.injEq] at hf
    obtain ⟨h1, h2, h3⟩ := hf
    constructor
    · intro hbf; rw [h1, h2, h3]; exact (hP f).1 hbf
    · intro hbf; simp only [BC.at, h1, h2, h3]; exact (hP f).2 hbf
  · have hbf : g.isBf f = true := by
      have := hps q (goodPrefix_subset ps q hq)
      rw [hqf] at this; exact this
    constructor
    · intro _
      rcases h with h | h <;>
      · rw [h] at hf
        simp only [BC.at, Prod.mk.injEq] at hf
        obtain ⟨h1, h2, h3⟩ := hf
        rw [h1, h2, h3]; rfl
    · intro hn; rw [hbf] at hn; cases hn

theorem partition_setBc (g : Grid) (b : BC) (faces : Option Faces) (cond : Option Conds)
    (hb : Partition g b) : Partition g (setBc g b faces cond).1 := by
  unfold setBc
  cases faces with
  | none => exact hb
  | some fa =>
    simp only
    cases hp : prepare g fa cond with
    | error e => exact hb
    | ok r =>
      obtain ⟨pairs, w⟩ := r
      exact partition_applyAll g b pairs hb (prepare_ok g fa cond pairs w hp)

theorem setBc_err (g : Grid) (b : BC) (faces : Option Faces) (cond : Option Conds) :
    (setBc g b faces cond).2 = callErr g faces cond := by
  unfold setBc callErr
  cases faces with
  | none => rfl
  | some fa =>
    simp only
    cases hp : prepare g fa cond with
    | error e => rfl
    | ok r =>
      obtain ⟨pairs, w⟩ := r
      -- the completion flag of the loop does not depend on the arrays
      have key : ∀ (ps : List (Nat × Cond)) (b : BC), (applyAll b ps).2 = ps.all (fun p => p.2 != .bad) := by
        intro ps
        induction ps with
        | nil => intro b; rfl
        | cons p ps ih =>
          intro b
          cases hc : b.assign p.1 p.2 with
          | none =>
            have hbad : p.2 = .bad := (assign_none_iff b p.1 p.2).mp hc
            simp only [applyAll, hc]
            simp [hbad]
          | some b' =>
            have hnb : p.2 ≠ .bad := fun e => by
              have := (assign_none_iff b p.1 p.2).mpr e
              rw [hc] at this; cases this
            simp only [applyAll, hc, List.all_cons, ih b']
            simp [hnb]
      simp only [key]

end PorepyVerif.C39

namespace PorepyVerif.C39

/-! ### histories of operations -/

theorem lastType_append (f : Nat) : ∀ (l1 l2 : List (Nat × Cond)) (t : Bool × Bool × Bool),
    lastType f t (l1 ++ l2) = lastType f (lastType f t l1) l2 := by
  intro l1
  induction l1 with
  | nil => intro l2 t; rfl
  | cons q l1 ih => intro l2 t; simp only [List.cons_append, lastType_cons, ih]

/-- a list of `dir` assignments makes exactly its faces Dirichlet -/
theorem lastType_all_dir (f : Nat) (fs : List Nat) : ∀ t : Bool × Bool × Bool,
    lastType f t (fs.map (fun x => (x, Cond.dir))) = if f ∈ fs then (false, true, false) else t := by
  induction fs with
  | nil => intro t; simp [lastType]
  | cons a fs ih =>
    intro t
    simp only [List.map_cons, lastType_cons, ih, stepType, List.mem_cons]
    by_cases e : a = f
    · subst e; simp
    · have e' : ¬ f = a := fun h => e h.symm
      simp [e, e']

theorem get_mapIdx (l : List Bool) (p : Nat → Bool → Bool) (f : Nat) :
    get (l.mapIdx p) f = if f < l.length then p f (get l f) else false := by
  unfold get
  simp only [List.getD_eq_getElem?_getD, List.getElem?_mapIdx]
  by_cases h : f < l.length
  · simp [h]
  · simp [h]

theorem internalToDirichlet_spec (g : Grid) (b : BC) (hw : b.wf g.nf) :
    (internalToDirichlet g b).wf g.nf ∧
    ∀ f, (internalToDirichlet g b).at f = lastType f (b.at f) (executed g .internalToDirichlet) := by
  obtain ⟨h1, h2, h3⟩ := hw
  refine ⟨⟨by simp [internalToDirichlet, h1], by simp [internalToDirichlet, h2], by simp [internalToDirichlet, h3]⟩, fun f => ?_⟩
  simp only [executed, lastType_all_dir, List.mem_filter, List.mem_range]
  simp only [BC.at, internalToDirichlet, get_mapIdx, h1, h2, h3]
  by_cases hf : f < g.nf
  · by_cases hr : g.frac f = true
    · simp [hf, hr]
    · simp [hf, hr]
  · have hg : ∀ l : List Bool, l.length = g.nf → get l f = false := by
      intro l hl
      unfold get
      rw [List.getD_eq_getElem?_getD, List.getElem?_eq_none (by omega)]
      rfl
    simp [hf, hg _ h1, hg _ h2, hg _ h3]

theorem setBc_spec (g : Grid) (b : BC) (hw : b.wf g.nf) (fa : Option Faces) (co : Option Conds) :
    (setBc g b fa co).1.wf g.nf ∧
    ∀ f, (setBc g b fa co).1.at f = lastType f (b.at f) (executed g (.setBc fa co)) := by
  cases fa with
  | none => exact ⟨hw, fun f => rfl⟩
  | some fa =>
    cases hp : prepare g fa co with
    | error e => simp only [setBc, executed, hp]; exact ⟨hw, fun f => rfl⟩
    | ok r =>
      obtain ⟨pairs, w⟩ := r
      simp only [setBc, executed, hp]
      obtain ⟨h1, h2, _⟩ := applyAll_spec g.nf pairs b hw
        (fun p hp' => isBf_lt g _ (prepare_ok g fa co pairs w hp p hp'))
      exact ⟨h1, h2⟩

/-- every face named by an executed pair is a boundary face -/
theorem executed_on_boundary (g : Grid) (o : VOp) : ∀ p ∈ executed g o, g.isBf p.1 = true := by
  intro p hp
  cases o with
  | internalToDirichlet =>
    simp only [executed, List.mem_map, List.mem_filter, List.mem_range] at hp
    obtain ⟨f, ⟨hf, hr⟩, rfl⟩ := hp
    simp [Grid.isBf, hf, hr]
  | setBc fa co =>
    cases fa with
    | none => simp [executed] at hp
    | some fa =>
      cases hq : prepare g fa co with
      | error e => simp [executed, hq] at hp
      | ok r =>
        obtain ⟨pairs, w⟩ := r
        simp only [executed, hq] at hp
        exact prepare_ok g fa co pairs w hq p (goodPrefix_subset pairs p hp)

end PorepyVerif.C39
