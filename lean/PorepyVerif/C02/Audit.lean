import PorepyVerif.C02.Props
#print axioms PorepyVerif.C02.parseBin_eq_directBin
#print axioms PorepyVerif.C02.parse_eq_direct
#print axioms PorepyVerif.C02.evaluate_eq_direct
#print axioms PorepyVerif.C02.evaluate_list_cache_transparent
#print axioms PorepyVerif.C02.evaluate_list_eq_map
#print axioms PorepyVerif.C02.parse_val_noderiv
#print axioms PorepyVerif.C02.evaluate_val_noderiv
#print axioms PorepyVerif.C02.prev_leaf_is_stored
#print axioms PorepyVerif.C02.prev_is_constant
#print axioms PorepyVerif.C02.prev_zero_jacobian
#print axioms PorepyVerif.C02.shiftTime_no_current
#print axioms PorepyVerif.C02.shiftIter_no_current
#print axioms PorepyVerif.C02.const_add_keeps_jacobian
#print axioms PorepyVerif.C02.directBin_add_comm
#print axioms PorepyVerif.C02.reverse_build
#print axioms PorepyVerif.C02.reverse_build_parse
