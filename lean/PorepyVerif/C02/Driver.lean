/- C02 line-protocol driver: `lake env lean --run PorepyVerif/C02/Driver.lean`

   op "eval": {"op":"eval","env":{...},"expr":<PyExpr>}  →
     {"tree": "<canonical form of the built operator tree>",
      "d1": <evaluate true>, "d0": <evaluate false>, "s1": <evaluateDirect true>, "s0": <evaluateDirect false>,
      "l1"/"l0": <evaluateList true/false of expr :: extra>  (when "extra" is given)}
   or {"build_err": "<kind>"} when the python expression itself raises. -/
import PorepyVerif.Common.Wire
import PorepyVerif.C02.Model
open Lean PV PorepyVerif.C02

def jMat (j : Json) : PV.R Mat := do
  let nc ← fNat j "nc"
  let rows ← fRatss j "rows"
  pure ⟨nc, rows⟩

def jSlicer (j : Json) : PV.R Slicer := do
  pure ⟨← fNats j "dom", ← fNats j "rng", ← fNat j "rsize", ← fNat j "dsize"⟩

def jOp (s : String) : PV.R Op :=
  match s with
  | "add" => pure .add | "sub" => pure .sub | "mul" => pure .mul
  | "div" => pure .div | "pow" => pure .pow | "matmul" => pure .matmul
  | _ => throw s!"unknown operation {s}"

partial def jFExpr (j : Json) : PV.R FExpr := do
  match ← fStr j "k" with
  | "x" => pure .x
  | "y" => pure .y
  | "c" => pure (.const (← fRat j "c"))
  | "add" => pure (.add (← jFExpr (← field j "a")) (← jFExpr (← field j "b")))
  | "sub" => pure (.sub (← jFExpr (← field j "a")) (← jFExpr (← field j "b")))
  | "mul" => pure (.mul (← jFExpr (← field j "a")) (← jFExpr (← field j "b")))
  | k => throw s!"unknown function node {k}"

/-- {"f": body} = pp.ad.Function; {"f": body, "diag": [m1] | [m1, m2]} = DiagonalJacobianFunction -/
def jFunc (j : Json) : PV.R Func := do
  let body ← jFExpr (← field j "f")
  match fieldD j "diag" Json.null with
  | .null => pure (.poly body)
  | d => do
    match ← jList jRat d with
    | [m1] => pure (.diag body m1 none)
    | [m1, m2] => pure (.diag body m1 (some m2))
    | _ => throw "diag: one or two multipliers expected"

def jRaw (j : Json) : PV.R Raw := do
  match ← fStr j "k" with
  | "num" => pure (.num (← fRat j "c"))
  | "arr" => pure (.arr (← fRats j "v"))
  | "sp" => pure (.sp (← jMat j))
  | k => throw s!"unknown raw kind {k}"

partial def jExpr (j : Json) : PV.R PyExpr := do
  match ← fStr j "k" with
  | "var" => pure (.tree (.leaf (.var (← fNatss j "subs") (← fBool j "md") (← fInt j "t") (← fInt j "i"))))
  | "scalar" => pure (.tree (.leaf (.scalar (← fRat j "c"))))
  | "dense" => pure (.tree (.leaf (.dense (← fRats j "v"))))
  | "sparse" => pure (.tree (.leaf (.sparse (← jMat j))))
  | "proj" => pure (.tree (.leaf (.proj (← jSlicer j))))
  | "td" => pure (.tree (.leaf (.td (← fNat j "id") (← fInt j "t"))))
  | "plist" => pure (.tree (.projList (← (field j "ps" >>= jList jSlicer))))
  | "raw" => pure (.raw (← jRaw (← field j "r")))
  | "bin" => pure (.bin (← jOp (← fStr j "op")) (← jExpr (← field j "a")) (← jExpr (← field j "b")))
  | "neg" => pure (.neg (← jExpr (← field j "a")))
  | "pt" => pure (.prevTime (← fNat j "steps") (← jExpr (← field j "a")))
  | "pi" => pure (.prevIter (← fNat j "steps") (← jExpr (← field j "a")))
  | "f1" => pure (.call1 (← jFunc j) (← jExpr (← field j "a")))
  | "f2" => pure (.call2 (← jFunc j) (← jExpr (← field j "a")) (← jExpr (← field j "b")))
  | k => throw s!"unknown expression node {k}"

/-- "state": null = the option `state=None` of `evaluate` (resolved by the model, `withState`) -/
def jState (j : Json) : PV.R (Option Vec) := field j "state" >>= jOpt (jList jRat)

def jEnv (j : Json) : PV.R Env := do
  pure { state := (← jState j).getD [], iterVals := ← fRatss j "iter", timeVals := ← fRatss j "time",
         tdIter := ← fRatss j "tdIter", tdTime := ← (field j "tdTime" >>= jList (jList (jList jRat))) }

def errName : Err → String
  | .valueError => "ValueError" | .indexError => "IndexError" | .keyError => "KeyError"
  | .typeError => "TypeError" | .notImplemented => "NotImplementedError"
  | .assertionError => "AssertionError" | .div0 => "div0" | .unsupported => "unsupported"

def opName : Op → String
  | .add => "add" | .sub => "sub" | .mul => "mul" | .div => "div" | .pow => "pow" | .matmul => "matmul"

def intStr (i : Int) : String := toString i

/-- canonical form of a tree: operation names, children in order, leaf kinds with their indices -/
def treeStr : OpTree → String
  | .leaf (.var subs md t i) =>
      s!"{if md then "mdvar" else "var"}[{subs.flatten.length},{intStr t},{intStr i}]"
  | .leaf (.scalar c) => s!"scalar[{ratToString c}]"
  | .leaf (.dense v) => s!"dense[{v.length}]"
  | .leaf (.sparse m) => s!"sparse[{m.rows.length}x{m.nc}]"
  | .leaf (.proj s) => s!"proj[{s.dsize}>{s.rsize}]"
  | .leaf (.td id t) => s!"td[{id},{intStr t}]"
  | .projList ps => s!"plist[{ps.length}]"
  | .bin op a b => s!"{opName op}({treeStr a},{treeStr b})"
  | .func1 _ a => s!"evaluate({treeStr a})"
  | .func2 _ a b => s!"evaluate({treeStr a},{treeStr b})"

def ofValue : PorepyVerif.C02.R Value → Json
  | .error e => err (errName e)
  | .ok (.scalar c) => obj [("kind", Json.str "scalar"), ("c", ofRat c)]
  | .ok (.vec v) => obj [("kind", Json.str "vec"), ("v", ofRats v)]
  | .ok (.mat m) => obj [("kind", Json.str "mat"), ("nc", ofNat m.nc), ("rows", ofList ofRats m.rows)]
  | .ok (.slicer _) => obj [("kind", Json.str "slicer")]
  | .ok (.slicers _) => obj [("kind", Json.str "slicers")]
  | .ok (.ad a) => obj [("kind", Json.str "ad"), ("val", ofRats (vals a)), ("jac", ofList ofRats (a.map (·.g)))]

def ofValues : PorepyVerif.C02.R (List Value) → Json
  | .error e => err (errName e)
  | .ok vs => ofList (fun v => ofValue (.ok v)) vs

def run (j : Json) : PV.R Json := do
  match ← fStr j "op" with
  | "eval" =>
    let env0 ← jEnv (← field j "env")
    let st ← jState (← field j "env")
    let e ← jExpr (← field j "expr")
    match withState env0 st with
    | .error k => pure (obj [("state_err", Json.str (errName k))])
    | .ok env =>
    match build e with
    | .error k => pure (obj [("build_err", Json.str (errName k))])
    | .ok (.raw _) => pure (obj [("build_err", Json.str "raw")])
    | .ok (.tree t) =>
      -- further operators evaluated together with the first one in ONE call
      let extras ← (jList jExpr (fieldD j "extra" (Json.arr #[])))
      let built := extras.map build
      let trees := built.filterMap (fun b => match b with | .ok (.tree x) => some x | _ => none)
      let lists : List (String × Json) :=
        if trees.length != built.length then [("list_build_err", Json.bool true)]
        else [("l1", ofValues (evaluateList true env (t :: trees))), ("l0", ofValues (evaluateList false env (t :: trees)))]
      pure (obj ([("tree", Json.str (treeStr t)), ("wf", Json.bool (envWFb env)),
                 ("vj", ofValue (valueAndJacobian env0 st t)), ("v", ofValue (valueOnly env0 st t)),
                 ("d1", ofValue (evaluateOpt true env0 st t)), ("d0", ofValue (evaluateOpt false env0 st t)),
                 ("s1", ofValue (evaluateDirect true env t)), ("s0", ofValue (evaluateDirect false env t))] ++ lists))
  | o => throw s!"unknown op {o}"

def main : IO Unit := runPure run
