/-
C02 — property theorems (statements depend on Model.lean only; helper lemmas in Lemmas.lean).

Property: for any AD operator expression over variables, scalars, dense arrays, sparse arrays,
projections and wrapped functions, evaluating it through the equation system (`parse`, `evaluate`:
the model of `AdParser`) gives the same value and Jacobian as evaluating the same expression directly
with the forward-mode rules (`direct`, `evaluateDirect`), including when a plain python number or
numpy array is the left operand (`reverse_build`).  Values obtained with and without derivatives
agree (`parse_val_noderiv`, `evaluate_val_noderiv`), and sub-expressions taken at a previous time
step or iterate evaluate to the stored values and contribute no derivative (`prev_*`, `shift*`,
`const_add_keeps_jacobian`).
-/
import PorepyVerif.C02.Lemmas

namespace PorepyVerif.C02

variable {P : PowFns}

/-! ### parser = direct forward-mode evaluation -/

/-- Node level, ALL operations and ALL pairs of operand kinds: what the parser computes from two
    parsed children — with its operand flips for an ndarray on the left, through python's dispatch and
    AdArray's methods as coded (`a-b = a+(-b)`, `b-a = -(a-b)`, `a/b = a*b**(-1)`, `c/a = a**(-1)*c`) —
    is the closed-form forward-mode rule in mathematical operand order, error kinds included. -/
theorem parseBin_eq_directBin (N : Nat) (op : Op) (l r : Value) :
    parseBin P N op l r = directBin P N op l r :=
  parseBin_eq_directBin' N op l r

/-- Tree level: for EVERY operator tree and environment (stored vectors of the length of the state),
    with and without derivatives, the parser's result is the direct forward-mode evaluation. -/
theorem parse_eq_direct (deriv : Bool) (e : Env) (hwf : EnvWF e) (t : OpTree) :
    parse deriv e t = direct deriv e t :=
  parse_eq_direct' deriv e hwf t

/-- … and so is what `EquationSystem.evaluate(op, derivative, state)` returns. -/
theorem evaluate_eq_direct (deriv : Bool) (e : Env) (hwf : EnvWF e) (t : OpTree) :
    evaluate deriv e t = evaluateDirect deriv e t := by
  simp only [evaluate, evaluateDirect, parse_eq_direct deriv e hwf t]

/-! ### several operators in one `evaluate` call (shared cache of parsed leaves) -/

/-- The cache is transparent: evaluating a list of operators in one call (all parsed with one
    cache of parsed leaves, then post-processed) is parsing every operator on its own. -/
theorem evaluate_list_cache_transparent (deriv : Bool) (e : Env) (ts : List OpTree) :
    evaluateList deriv e ts = (ts.mapM (parse deriv e) >>= fun vs => vs.mapM (finish e.N deriv)) := by
  simp only [evaluateList]
  rw [parseListC_eq deriv e ts [] (fun p hp => by cases hp)]

/-- `evaluate([op_1, …, op_k])` returns the list `vs` exactly when evaluating the operators one by one
    returns `vs` (whatever sub-expressions and leaves the operators share). -/
theorem evaluate_list_eq_map (deriv : Bool) (e : Env) (ts : List OpTree) (vs : List Value) :
    evaluateList deriv e ts = .ok vs ↔ ts.mapM (evaluate deriv e) = .ok vs := by
  rw [evaluate_list_cache_transparent]
  exact mapM_comp_ok (parse deriv e) (finish e.N deriv) ts vs

/-! ### values with and without derivatives agree -/

/-- Whenever the evaluation with derivatives succeeds, the evaluation without derivatives succeeds
    and returns the same result with the Jacobian forgotten (every tree, every environment). -/
theorem parse_val_noderiv (e : Env) (t : OpTree) :
    ∀ z, parse true e t = .ok z → parse false e t = .ok (strip z) := by
  induction t with
  | leaf l => intro z h; exact hom_parseLeaf e l z h
  | projList ps => intro z h; simp only [parse] at h ⊢; cases h; rfl
  | bin op a b iha ihb =>
    intro z h
    simp only [parse] at h ⊢
    cases h1 : parse true e a with
    | error er => simp [h1] at h
    | ok x =>
      cases h2 : parse true e b with
      | error er => simp [h1, h2] at h
      | ok y =>
        simp only [h1, h2, bind_ok] at h
        simp only [iha x h1, ihb y h2, bind_ok]
        rw [parseBin_eq_directBin] at h ⊢
        exact directBin_strip e.N op x y z h
  | func1 f a iha =>
    intro z h
    simp only [parse] at h ⊢
    cases h1 : parse true e a with
    | error er => simp [h1] at h
    | ok x =>
      simp only [h1, bind_ok] at h
      simp only [iha x h1, bind_ok]
      exact hom_applyFunc e.N f x x z h
  | func2 f a b iha ihb =>
    intro z h
    simp only [parse] at h ⊢
    cases h1 : parse true e a with
    | error er => simp [h1] at h
    | ok x =>
      cases h2 : parse true e b with
      | error er => simp [h1, h2] at h
      | ok y =>
        simp only [h1, h2, bind_ok] at h
        simp only [iha x h1, ihb y h2, bind_ok]
        exact hom_applyFunc e.N f x y z h

/-- `EquationSystem.evaluate`: if derivative=True returns the AdArray `a`, derivative=False returns
    a number or vector holding exactly `a.val`. -/
theorem evaluate_val_noderiv (e : Env) (t : OpTree) (a : Ad)
    (h : evaluate true e t = .ok (.ad a)) :
    ∃ w, evaluate false e t = .ok w ∧ valOf w = some (vals a) := by
  simp only [evaluate] at h ⊢
  cases h1 : parse true e t with
  | error er => simp [h1] at h
  | ok v =>
    simp only [h1, bind_ok] at h
    simp only [parse_val_noderiv e t v h1, bind_ok, finish, Bool.false_eq_true, if_false]
    refine ⟨strip v, rfl, ?_⟩
    cases v with
    | scalar c => simp only [finish, if_true] at h; cases h; rfl
    | vec w =>
      simp only [finish, if_true] at h; cases h
      simp [strip, valOf, vals, zeroJac, List.map_map, Function.comp_def]
    | mat m => simp only [finish, if_true] at h; cases h
    | slicer s => simp only [finish, if_true] at h; cases h
    | slicers l => simp only [finish, if_true] at h; cases h
    | ad a' => simp only [finish, if_true] at h; cases h; rfl

/-! ### previous time steps / iterates: stored values, no derivative -/

/-- A variable or md-variable leaf at a previous time step or iterate parses — with or without
    derivatives — to the stored vector at its dofs (never to an AdArray). -/
theorem prev_leaf_is_stored (deriv : Bool) (e : Env) (hwf : EnvWF e) (subs : List (List Nat)) (md : Bool)
    (t i : Int) (hprev : 0 ≤ t ∨ 0 ≤ i) (st : Vec) (hst : stored e t i = .ok st) :
    parse deriv e (.leaf (.var subs md t i)) = .ok (.vec (gather st subs.flatten)) := by
  simp only [parse]
  rw [parseLeaf_eq_directLeaf deriv e hwf]
  simp only [directLeaf, hprev, if_true, hst, bind_ok, pure_eq_ok]
  split
  · rename_i h
    have : subs = [] := by
      cases subs with
      | nil => rfl
      | cons s r => simp at h
    subst this
    rfl
  · rfl

/-- A tree all of whose variable leaves are taken at previous time steps / iterates (constants,
    arrays, matrices, projections, time-dependent arrays and functions allowed, any arithmetic on top)
    evaluates identically with and without derivatives: the requested derivative never enters. -/
theorem prev_is_constant (e : Env) (t : OpTree) (h : t.noCurrent = true) :
    parse true e t = parse false e t := by
  induction t with
  | leaf l =>
    cases l with
    | var subs md t i =>
      simp only [OpTree.noCurrent, Bool.or_eq_true, decide_eq_true_eq] at h
      simp only [parse, parseLeaf, h, if_true]
    | scalar c => rfl
    | dense v => rfl
    | sparse m => rfl
    | proj s => rfl
    | td id t => rfl
  | projList ps => rfl
  | bin op a b iha ihb =>
    simp only [OpTree.noCurrent, Bool.and_eq_true] at h
    simp only [parse, iha h.1, ihb h.2]
  | func1 f a iha =>
    simp only [OpTree.noCurrent] at h
    simp only [parse, iha h]
  | func2 f a b iha ihb =>
    simp only [OpTree.noCurrent, Bool.and_eq_true] at h
    simp only [parse, iha h.1, ihb h.2]

/-- … and the AdArray returned for it by `evaluate(derivative=True)` has an all-zero Jacobian. -/
theorem prev_zero_jacobian (e : Env) (t : OpTree) (h : t.noCurrent = true) (a : Ad)
    (hev : evaluate true e t = .ok (.ad a)) : ∀ u ∈ a, u.g = zeros e.N := by
  simp only [evaluate, prev_is_constant e t h] at hev
  cases h1 : parse false e t with
  | error er => simp [h1] at hev
  | ok v =>
    have hv := noAd_parse_false e t v h1
    simp only [h1, bind_ok, finish, if_true] at hev
    cases v with
    | scalar c => cases hev; intro u hu; simp [zeroJac] at hu; subst hu; rfl
    | vec w =>
      cases hev; intro u hu
      simp only [zeroJac, List.mem_map] at hu
      obtain ⟨c, _, rfl⟩ := hu
      rfl
    | mat m => cases hev
    | slicer s => cases hev
    | slicers l => cases hev
    | ad a' => cases hv

/-- `op.previous_timestep(steps)` of a whole expression (private indices `-1` or stored indices):
    when python builds it, no variable of the copy is at the current time step and iterate. -/
theorem shiftTime_no_current (steps : Nat) (t t' : OpTree) (hok : t.indexOk = true)
    (h : shiftTime steps t = .ok t') : t'.noCurrent = true := by
  induction t generalizing t' with
  | leaf l =>
    cases l with
    | var subs md ti ii =>
      simp only [shiftTime] at h
      split at h
      · cases h
      · split at h
        · cases h
        · cases h
          simp only [OpTree.indexOk, Bool.and_eq_true, decide_eq_true_eq] at hok
          simp only [OpTree.noCurrent, Bool.or_eq_true, decide_eq_true_eq]
          left; omega
    | scalar c => simp only [shiftTime] at h; cases h; rfl
    | dense v => simp only [shiftTime] at h; cases h; rfl
    | sparse m => simp only [shiftTime] at h; cases h; rfl
    | proj s => simp only [shiftTime] at h; cases h; rfl
    | td id tt =>
      simp only [shiftTime] at h
      split at h <;> cases h
      rfl
  | projList ps => simp only [shiftTime] at h; cases h; rfl
  | bin op a b iha ihb =>
    simp only [OpTree.indexOk, Bool.and_eq_true] at hok
    simp only [shiftTime] at h
    cases h1 : shiftTime steps a with
    | error er => simp [h1] at h
    | ok a' =>
      cases h2 : shiftTime steps b with
      | error er => simp [h1, h2] at h
      | ok b' =>
        simp only [h1, h2, bind_ok, pure_eq_ok] at h
        cases h
        simp only [OpTree.noCurrent, iha a' hok.1 h1, ihb b' hok.2 h2, Bool.and_self]
  | func1 f a iha =>
    simp only [OpTree.indexOk] at hok
    simp only [shiftTime] at h
    cases h1 : shiftTime steps a with
    | error er => simp [h1] at h
    | ok a' =>
      simp only [h1, bind_ok, pure_eq_ok] at h
      cases h
      simp only [OpTree.noCurrent, iha a' hok h1]
  | func2 f a b iha ihb =>
    simp only [OpTree.indexOk, Bool.and_eq_true] at hok
    simp only [shiftTime] at h
    cases h1 : shiftTime steps a with
    | error er => simp [h1] at h
    | ok a' =>
      cases h2 : shiftTime steps b with
      | error er => simp [h1, h2] at h
      | ok b' =>
        simp only [h1, h2, bind_ok, pure_eq_ok] at h
        cases h
        simp only [OpTree.noCurrent, iha a' hok.1 h1, ihb b' hok.2 h2, Bool.and_self]

/-- the same for `op.previous_iteration(steps)` -/
theorem shiftIter_no_current (steps : Nat) (t t' : OpTree) (hok : t.indexOk = true)
    (h : shiftIter steps t = .ok t') : t'.noCurrent = true := by
  induction t generalizing t' with
  | leaf l =>
    cases l with
    | var subs md ti ii =>
      simp only [shiftIter] at h
      split at h
      · cases h
      · split at h
        · cases h
        · cases h
          simp only [OpTree.indexOk, Bool.and_eq_true, decide_eq_true_eq] at hok
          simp only [OpTree.noCurrent, Bool.or_eq_true, decide_eq_true_eq]
          right; omega
    | scalar c => simp only [shiftIter] at h; cases h; rfl
    | dense v => simp only [shiftIter] at h; cases h; rfl
    | sparse m => simp only [shiftIter] at h; cases h; rfl
    | proj s => simp only [shiftIter] at h; cases h; rfl
    | td id tt => simp only [shiftIter] at h; cases h; rfl
  | projList ps => simp only [shiftIter] at h; cases h; rfl
  | bin op a b iha ihb =>
    simp only [OpTree.indexOk, Bool.and_eq_true] at hok
    simp only [shiftIter] at h
    cases h1 : shiftIter steps a with
    | error er => simp [h1] at h
    | ok a' =>
      cases h2 : shiftIter steps b with
      | error er => simp [h1, h2] at h
      | ok b' =>
        simp only [h1, h2, bind_ok, pure_eq_ok] at h
        cases h
        simp only [OpTree.noCurrent, iha a' hok.1 h1, ihb b' hok.2 h2, Bool.and_self]
  | func1 f a iha =>
    simp only [OpTree.indexOk] at hok
    simp only [shiftIter] at h
    cases h1 : shiftIter steps a with
    | error er => simp [h1] at h
    | ok a' =>
      simp only [h1, bind_ok, pure_eq_ok] at h
      cases h
      simp only [OpTree.noCurrent, iha a' hok h1]
  | func2 f a b iha ihb =>
    simp only [OpTree.indexOk, Bool.and_eq_true] at hok
    simp only [shiftIter] at h
    cases h1 : shiftIter steps a with
    | error er => simp [h1] at h
    | ok a' =>
      cases h2 : shiftIter steps b with
      | error er => simp [h1, h2] at h
      | ok b' =>
        simp only [h1, h2, bind_ok, pure_eq_ok] at h
        cases h
        simp only [OpTree.noCurrent, iha a' hok.1 h1, ihb b' hok.2 h2, Bool.and_self]

/-- Through arithmetic: adding a sub-expression without current variables (previous time step /
    iterate values, constants) to an expression with Jacobian `J`, on either side, leaves `J` unchanged. -/
theorem const_add_keeps_jacobian (e : Env) (a c : OpTree) (hc : c.noCurrent = true) (x : Ad)
    (ha : parse true e a = .ok (.ad x)) :
    (∀ z, parse true e (.bin .add a c) = .ok z → ∃ x', z = .ad x' ∧ jacRows x' = jacRows x) ∧
    (∀ z, parse true e (.bin .add c a) = .ok z → ∃ x', z = .ad x' ∧ jacRows x' = jacRows x) := by
  have hcc := prev_is_constant e c hc
  constructor
  · intro z h
    simp only [parse, ha, bind_ok] at h
    cases h2 : parse true e c with
    | error er => simp [h2] at h
    | ok y =>
      have hy := noAd_parse_false e c y (hcc ▸ h2)
      simp only [h2, bind_ok, parseBin_eq_directBin, directBin] at h
      cases y with
      | scalar k =>
        simp only [directAd] at h; cases h
        exact ⟨_, rfl, by simp [jacRows, List.map_map, dAddC, Function.comp_def]⟩
      | vec v =>
        simp only [directAd, bAV] at h
        cases he : expand x.length v with
        | none => simp [he] at h
        | some w =>
          simp only [he] at h; cases h
          exact ⟨_, rfl, jacRows_zipWith_left dAddC (fun _ _ => rfl) x w (expand_length he).symm⟩
      | mat m => simp only [directAd] at h; cases h
      | slicer s => simp only [directAd] at h; cases h
      | slicers l => simp only [directAd] at h; cases h
      | ad b => cases hy
  · intro z h
    simp only [parse, ha] at h
    cases h2 : parse true e c with
    | error er => simp [h2] at h
    | ok y =>
      have hy := noAd_parse_false e c y (hcc ▸ h2)
      simp only [h2, bind_ok, parseBin_eq_directBin] at h
      cases y with
      | scalar k =>
        simp only [directBin, directSA] at h; cases h
        exact ⟨_, rfl, by simp [jacRows, List.map_map, dCAdd, Function.comp_def]⟩
      | vec v =>
        simp only [directBin, directVA, bAV] at h
        cases he : expand x.length v with
        | none => simp [he] at h
        | some w =>
          simp only [he] at h; cases h
          exact ⟨_, rfl, jacRows_zipWith_left (fun u c => dCAdd c u) (fun _ _ => rfl) x w (expand_length he).symm⟩
      | mat m => simp only [directBin] at h; cases h
      | slicer s => simp only [directBin, py] at h; cases h
      | slicers l => simp only [directBin] at h; cases h
      | ad b => cases hy

/-! ### the hypotheses above are established by the code that constructs the inputs -/

/-- `EnvWF` is a decidable condition on the input (the driver evaluates it on every case) -/
theorem parse_eq_direct_dec (deriv : Bool) (e : Env) (hwf : envWFb e = true) (t : OpTree) :
    parse deriv e t = direct deriv e t :=
  parse_eq_direct deriv e ((envWFb_iff e).mp hwf) t

/-- Every tree python builds — by the arithmetic overloads (also the reverse ones), unary minus, function
    calls and `previous_timestep` / `previous_iteration` of sub-expressions, in any nesting — from operator
    objects with private indices `-1` or stored ones (fresh variables and arrays have `-1`) has such indices:
    the hypothesis `indexOk` of the shift theorems holds for everything constructible. -/
theorem build_indexOk (p : PyExpr) (t : OpTree) (hp : p.leavesOk = true) (hb : build p = .ok (.tree t)) :
    t.indexOk = true :=
  build_indexOk' p (.tree t) hp hb

/-- Hence `expr.previous_timestep(steps)` / `expr.previous_iteration(steps)` of ANY constructible expression,
    whenever python builds it, contains no variable at the current time step and iterate … -/
theorem built_prev_no_current (p : PyExpr) (steps : Nat) (t : OpTree) (hp : p.leavesOk = true) :
    (build (.prevTime steps p) = .ok (.tree t) → t.noCurrent = true) ∧
    (build (.prevIter steps p) = .ok (.tree t) → t.noCurrent = true) := by
  constructor
  · intro hb
    simp only [build] at hb
    cases hx : build p with
    | error er => simp [hx] at hb
    | ok bx =>
      simp only [hx, bind_ok] at hb
      cases bx with
      | raw r => cases hb
      | tree t0 =>
        have h0 := build_indexOk p t0 hp hx
        cases hs : shiftTime steps t0 with
        | error er => simp [hs] at hb
        | ok s =>
          simp only [hs, bind_ok, pure_eq_ok, Except.ok.injEq, Built.tree.injEq] at hb
          subst hb
          exact shiftTime_no_current steps t0 s h0 hs
  · intro hb
    simp only [build] at hb
    cases hx : build p with
    | error er => simp [hx] at hb
    | ok bx =>
      simp only [hx, bind_ok] at hb
      cases bx with
      | raw r => cases hb
      | tree t0 =>
        have h0 := build_indexOk p t0 hp hx
        cases hs : shiftIter steps t0 with
        | error er => simp [hs] at hb
        | ok s =>
          simp only [hs, bind_ok, pure_eq_ok, Except.ok.injEq, Built.tree.injEq] at hb
          subst hb
          exact shiftIter_no_current steps t0 s h0 hs

/-- … and so evaluates to an AdArray with an all-zero Jacobian (no hypothesis left but constructibility). -/
theorem built_prev_zero_jacobian (e : Env) (p : PyExpr) (steps : Nat) (t : OpTree) (hp : p.leavesOk = true)
    (hb : build (.prevTime steps p) = .ok (.tree t) ∨ build (.prevIter steps p) = .ok (.tree t)) (a : Ad)
    (hev : evaluate true e t = .ok (.ad a)) : ∀ u ∈ a, u.g = zeros e.N := by
  have hn : t.noCurrent = true := by
    rcases hb with hb | hb
    · exact (built_prev_no_current p steps t hp).1 hb
    · exact (built_prev_no_current p steps t hp).2 hb
  exact prev_zero_jacobian e t hn a hev

/-! ### other entry points: `state=None`, `Operator.value_and_jacobian`, `Operator.value` -/

/-- `state=None` means the values stored at iterate index 0 -/
theorem state_none_is_iterate0 (deriv : Bool) (e : Env) (t : OpTree) (s : Vec) (h : e.iterVals[0]? = some s) :
    evaluateOpt deriv e none t = evaluateOpt deriv e (some s) t := by
  simp only [evaluateOpt, withState, h]

/-- the deprecated `Operator.value_and_jacobian(equation_system, state)` (which wraps once more) returns
    what `EquationSystem.evaluate(op, derivative=True, state)` returns; `Operator.value` is derivative=False -/
theorem value_and_jacobian_eq_evaluate (e : Env) (state : Option Vec) (t : OpTree) :
    valueAndJacobian e state t = evaluateOpt true e state t ∧ valueOnly e state t = evaluateOpt false e state t := by
  refine ⟨?_, rfl⟩
  simp only [valueAndJacobian, evaluateOpt]
  cases hs : withState e state with
  | error er => rfl
  | ok e' =>
    simp only [bind_ok]
    cases hv : evaluate true e' t with
    | error er => rfl
    | ok w =>
      simp only [bind_ok]
      simp only [evaluate] at hv
      cases hp : parse true e' t with
      | error er => simp [hp] at hv
      | ok v =>
        simp only [hp, bind_ok] at hv
        exact finish_idem e'.N v w hv

/-! ### a python number / numpy array / scipy matrix as the LEFT operand -/

/-- Value level: for a raw python operand `c` (number, array, matrix) and any data value `y`
    (number, vector, matrix, AdArray), `y + c` — which is what `Operator.__radd__` builds — is `c + y`. -/
theorem directBin_add_comm (N : Nat) (c : Raw) (y : Value) (hy : y.isData = true) :
    directBin P N .add y c.value = directBin P N .add c.value y := by
  cases c with
  | num k =>
    cases y with
    | scalar d => simp only [Raw.value, directBin, py, pyScalar]; congr 2; grind
    | vec w => simp only [Raw.value, directBin, py, pyScalar, vec_scalar_add]
    | mat m => rfl
    | ad a =>
      simp only [Raw.value, directBin, directAd, directSA]
      congr 2
      exact map_congr' a (fun u => by simp only [dAddC, dCAdd]; congr 1; grind)
    | slicer s => cases hy
    | slicers l => cases hy
  | arr v =>
    cases y with
    | scalar d => simp only [Raw.value, directBin, py, pyScalar, vec_scalar_add]
    | vec w => simp only [Raw.value, directBin, vecBin_add_comm]
    | mat m => rfl
    | ad a =>
      simp only [Raw.value, directBin, directAd, directVA, bAV]
      cases expand a.length v with
      | none => rfl
      | some w =>
        dsimp only
        congr 2
        exact zipWith_congr' a w (fun u k => by simp only [dAddC, dCAdd]; congr 1; grind)
    | slicer s => cases hy
    | slicers l => cases hy
  | sp m =>
    cases y with
    | scalar d => rfl
    | vec w => rfl
    | mat k => simp only [Raw.value, directBin, py, pyMat, matAdd_comm]
    | ad a => rfl
    | slicer s => cases hy
    | slicers l => cases hy

/-- `c ∘ x` written in python with a plain number, numpy array or scipy matrix `c` on the LEFT of an
    operator expression `x`: whenever python builds an operator tree `t'` for it (through the reverse
    overloads `__radd__ … __rmatmul__` and `_parse_other`), that tree denotes the forward-mode rule
    applied to `(c, ⟦x⟧)` in this order, for every operation. -/
theorem reverse_build (deriv : Bool) (e : Env) (op : Op) (c : Raw) (t t' : OpTree)
    (hb : build (.bin op (.raw c) (.tree t)) = .ok (.tree t'))
    (hd : ∀ y, direct deriv e t = .ok y → y.isData = true) :
    direct deriv e t' = (direct deriv e t >>= fun y => directBin e.P e.N op c.value y) := by
  simp only [build, bind_ok] at hb
  cases op
  · -- `c + x` is built as `x + c`
    simp only [mkReverse, bind_ok, pure_eq_ok] at hb
    cases hb
    simp only [direct, direct_wrap]
    cases h : direct deriv e t with
    | error er => rfl
    | ok y => simp only [bind_ok]; exact directBin_add_comm e.N c y (hd y h)
  all_goals
    first
    | (simp only [mkReverse, bind_ok, pure_eq_ok] at hb
       cases hb
       simp only [direct, direct_wrap, bind_ok])
    | (cases c <;> simp only [mkReverse, bind_ok, pure_eq_ok] at hb <;> first | (cases hb; done) | (cases hb; simp only [direct, direct_wrap, bind_ok]))

/-- … and the parser evaluates that tree to the same thing. -/
theorem reverse_build_parse (deriv : Bool) (e : Env) (hwf : EnvWF e) (op : Op) (c : Raw) (t t' : OpTree)
    (hb : build (.bin op (.raw c) (.tree t)) = .ok (.tree t'))
    (hd : ∀ y, direct deriv e t = .ok y → y.isData = true) :
    parse deriv e t' = (parse deriv e t >>= fun y => directBin e.P e.N op c.value y) := by
  rw [parse_eq_direct deriv e hwf, parse_eq_direct deriv e hwf]
  exact reverse_build deriv e op c t t' hb hd

/-! ### non-vacuity: concrete environments and trees (state (1,2,3), time step 0 holds (10,20,30)) -/

def env0 : Env :=
  { state := [1, 2, 3], iterVals := [[1, 2, 3], [4, 5, 6]], timeVals := [[10, 20, 30]], tdIter := [[7, 8]], tdTime := [[[9, 9]]] }

/-- variable with dofs 0 and 2, current -/
def v02 : OpTree := .leaf (.var [[0, 2]] false (-1) (-1))
/-- md-variable with blocks (2) and (0) -/
def md20 : OpTree := .leaf (.var [[2], [0]] true (-1) (-1))

example : EnvWF env0 := by
  constructor <;> intro v hv <;> simp [env0, Env.N] at hv ⊢ <;> rcases hv with rfl | rfl <;> rfl

/-- ndarray − AdArray·AdArray_prev: flipped and negated by the parser -/
example : (shiftTime 1 v02).toOption = some (.leaf (.var [[0, 2]] false 0 (-1))) := by decide +kernel
example :
    (parse true env0 (.bin .sub (.leaf (.dense [1/2, 1])) (.bin .mul v02 (.leaf (.var [[0, 2]] false 0 (-1)))))).toOption
      = some (.ad [⟨-19/2, [-10, 0, 0]⟩, ⟨-89, [0, 0, -30]⟩]) := by decide +kernel
/-- ndarray / AdArray through `__rtruediv__` -/
example : (parse true env0 (.bin .div (.leaf (.dense [1/2, 1])) v02)).toOption
      = some (.ad [⟨1/2, [-1/2, 0, 0]⟩, ⟨1/3, [0, 0, -1/9]⟩]) := by decide +kernel
/-- the F1 regression `2.0 * v`, `2.0 / v`, `M @ v` with raw left operands -/
example : (build (.bin .mul (.raw (.num 2)) (.tree v02))).toOption.map (fun b => match b with | .tree t => some t | _ => none)
      = some (some (.bin .mul (.leaf (.scalar 2)) v02)) := by decide +kernel
example : (evaluate true env0 (.bin .div (.leaf (.scalar 2)) v02)).toOption
      = some (.ad [⟨2, [-2, 0, 0]⟩, ⟨2/3, [0, 0, -2/9]⟩]) := by decide +kernel
example : (evaluate true env0 (.bin .matmul (.leaf (.sparse ⟨2, [[1, 1], [0, 2]]⟩)) v02)).toOption
      = some (.ad [⟨4, [1, 0, 1]⟩, ⟨6, [0, 0, 2]⟩]) := by decide +kernel
/-- previous md-variable: stored values, zero Jacobian after `evaluate` -/
example : (evaluate true env0 (.leaf (.var [[2], [0]] true 0 (-1)))).toOption
      = some (.ad [⟨30, [0, 0, 0]⟩, ⟨10, [0, 0, 0]⟩]) := by decide +kernel
example : (evaluate false env0 (.bin .add md20 (.leaf (.var [[2], [0]] true (-1) 1)))).toOption
      = some (.vec [9, 5]) := by decide +kernel
/-- an ill-typed tree: size mismatch raises ValueError in both evaluations -/
example : parse true env0 (.bin .add v02 (.leaf (.dense [1, 2, 3]))) = .error .valueError := by
  simp [parse, parseLeaf, parseBin, py, pyAd, adAdd, v02, adRows, expand]
/-- hypotheses of `shiftTime_no_current`, `const_add_keeps_jacobian`, `reverse_build`, `evaluate_val_noderiv` are satisfiable -/
example : v02.indexOk = true ∧ md20.indexOk = true := by decide
example : (parse true env0 (.bin .add (.leaf (.var [[0, 2]] false 0 (-1))) v02)).toOption
      = some (.ad [⟨11, [1, 0, 0]⟩, ⟨33, [0, 0, 1]⟩]) := by decide +kernel
example : (build (.bin .add (.raw (.arr [5, 6])) (.tree v02))).toOption.map (fun b => match b with | .tree t => some t | _ => none)
      = some (some (.bin .add v02 (.leaf (.dense [5, 6])))) := by decide +kernel
example : (direct true env0 v02).toOption.map Value.isData = some true := by decide +kernel
example : (evaluate true env0 (.bin .sub (.leaf (.scalar 1)) v02)).toOption = some (.ad [⟨0, [-1, 0, 0]⟩, ⟨-2, [0, 0, -1]⟩])
    ∧ (evaluate false env0 (.bin .sub (.leaf (.scalar 1)) v02)).toOption = some (.vec [0, -2]) := by decide +kernel
/-- a wrapped function `f(x, y) = x*y - 2` of a current and a previous variable -/
example : (evaluate true env0 (.func2 (.poly (.sub (.mul .x .y) (.const 2))) v02 (.leaf (.var [[0, 2]] false 0 (-1))))).toOption
      = some (.ad [⟨8, [10, 0, 0]⟩, ⟨88, [0, 0, 30]⟩]) := by decide +kernel
/-- a list sharing the leaf `dense [5, 6]` and the variable -/
example : (evaluateList true env0 [.bin .add v02 (.leaf (.dense [5, 6])), .bin .mul (.leaf (.dense [5, 6])) v02]).toOption
      = some [.ad [⟨6, [1, 0, 0]⟩, ⟨9, [0, 0, 1]⟩], .ad [⟨5, [5, 0, 0]⟩, ⟨18, [0, 0, 6]⟩]] := by decide +kernel
/-- broadcasting of a length-1 array: `v + [10]`, `[10] - v`, `v ** [2]` -/
example : (evaluate true env0 (.bin .sub (.leaf (.dense [10])) v02)).toOption
      = some (.ad [⟨9, [-1, 0, 0]⟩, ⟨7, [0, 0, -1]⟩]) := by decide +kernel
example : (evaluate true env0 (.bin .pow v02 (.leaf (.dense [2])))).toOption
      = some (.ad [⟨1, [2, 0, 0]⟩, ⟨9, [0, 0, 6]⟩]) := by decide +kernel
/-- real powers through an interpretation of `pow` / `log` (here an arbitrary rational one): `2 ** v`, `v ** (1/2)` -/
def P1 : PowFns := ⟨fun x c => x + c, fun x => 2 * x, fun _ _ => true, fun _ => true⟩
example : (evaluate true { env0 with P := P1 } (.bin .pow (.leaf (.scalar (1/2))) (.bin .add v02 (.leaf (.scalar (1/2)))))).toOption
      = some (.ad [⟨2, [2, 0, 0]⟩, ⟨4, [0, 0, 4]⟩]) := by decide +kernel
example : (evaluate true env0 (.bin .pow (.leaf (.scalar (1/2))) (.bin .add v02 (.leaf (.scalar (1/2)))))).toOption = none := by
  decide +kernel
/-- a DiagonalJacobianFunction `g(x, y) = x*y` with multipliers 3 and 1/2: values exact, Jacobian `3 Jx + Jy/2` -/
example : (evaluate true env0 (.func2 (.diag (.mul .x .y) 3 (some (1/2))) v02 (.bin .mul v02 v02))).toOption
      = some (.ad [⟨1, [4, 0, 0]⟩, ⟨27, [0, 0, 6]⟩]) := by decide +kernel
example : (evaluate false env0 (.func2 (.diag (.mul .x .y) 3 (some (1/2))) v02 (.bin .mul v02 v02))).toOption
      = some (.vec [1, 27]) := by decide +kernel
/-- the constructed-input theorems are not vacuous: `(2 - v).previous_timestep(2)` built from fresh objects -/
example : envWFb env0 = true := by decide
example : (PyExpr.bin .sub (.raw (.num 2)) (.tree v02)).leavesOk = true := by decide
example : (build (.prevTime 2 (.bin .sub (.raw (.num 2)) (.tree v02)))).toOption.map (fun b => match b with | .tree t => some t | _ => none)
      = some (some (.bin .sub (.leaf (.scalar 2)) (.leaf (.var [[0, 2]] false 1 (-1))))) := by decide +kernel
example : (valueAndJacobian env0 none (.bin .mul v02 v02)).toOption = some (.ad [⟨1, [2, 0, 0]⟩, ⟨9, [0, 0, 6]⟩])
    ∧ (valueOnly env0 (some [5, 5, 5]) (.bin .mul v02 v02)).toOption = some (.vec [25, 25]) := by decide +kernel
example : v02.noCurrent = false ∧ (OpTree.leaf (.var [[0, 2]] false 0 (-1))).noCurrent = true := by decide

end PorepyVerif.C02
