/-
C02 — helper lemmas: the parser's operand flips and AdArray's method decompositions agree with the
closed-form forward-mode rules (node level), previous md-variables (scatter / gather), and the
homomorphism from derivative=True results to derivative=False results.
-/
import PorepyVerif.C02.Model
namespace PorepyVerif.C02

@[simp] theorem bind_ok {α β : Type} (x : α) (f : α → R β) : (Except.ok x >>= f) = f x := rfl
@[simp] theorem bind_err {α β : Type} (e : Err) (f : α → R β) : ((Except.error e : R α) >>= f) = Except.error e := rfl
@[simp] theorem pure_eq_ok {α : Type} (x : α) : (pure x : R α) = Except.ok x := rfl

theorem map_congr' {α β : Type} {f g : α → β} (l : List α) (h : ∀ x, f x = g x) : l.map f = l.map g := by
  have : f = g := funext h
  rw [this]

theorem zipWith_congr' {α β γ : Type} {f g : α → β → γ} (a : List α) (b : List β) (h : ∀ x y, f x y = g x y) :
    List.zipWith f a b = List.zipWith g a b := by
  have : f = g := funext fun x => funext (h x)
  rw [this]

theorem ipow_neg_one (c : Rat) : ipow c (-1) = c⁻¹ := by simp [ipow]
theorem ipow_neg_two (c : Rat) : ipow c (-2) = c⁻¹ * c⁻¹ := by
  simp [ipow]; grind

theorem gmap_mul_right (c : Rat) (g : List Rat) : g.map (· * c) = gscale c g := by
  unfold gscale; exact map_congr' g (fun x => by grind)
theorem gmap_div (c : Rat) (g : List Rat) : g.map (· / c) = gscale (1 / c) g := by
  unfold gscale; exact map_congr' g (fun x => by grind)
theorem gadd_gneg (g h : List Rat) : gadd g (gneg h) = gsub g h := by
  unfold gadd gneg gsub
  rw [List.zipWith_map_right]
  exact zipWith_congr' g h (fun x y => by grind)
theorem gscale_gscale (a b : Rat) (g : List Rat) : gscale a (gscale b g) = gscale (a * b) g := by
  unfold gscale; rw [List.map_map]; exact map_congr' g (fun x => by simp; grind)
theorem gscale_map_mul_right (b c : Rat) (g : List Rat) : (gscale b g).map (· * c) = gscale (b * c) g := by
  unfold gscale; rw [List.map_map]; exact map_congr' g (fun x => by simp; grind)

theorem any_not_powOk_neg_one (b : Ad) : b.any (fun u => !powOk u.v (-1 : Rat).num) = hasZero (vals b) := by
  unfold hasZero vals
  rw [List.any_map]
  congr 1
  funext u
  simp [powOk]



theorem num_neg_one_sub : ((-1 : Rat).num - 1) = -2 := by decide
theorem isInt_neg_one : isInt (-1) = true := by decide
theorem num_neg_one : (-1 : Rat).num = -1 := by decide
theorem ipow_num_neg_one (x : Rat) : ipow x (-1 : Rat).num = x⁻¹ := by
  rw [num_neg_one]; exact ipow_neg_one x
theorem ipow_num_neg_one_sub (x : Rat) : ipow x ((-1 : Rat).num - 1) = x⁻¹ * x⁻¹ := by
  rw [num_neg_one_sub]; exact ipow_neg_two x

/-- AdArray on the left: the methods of forward_mode.py are the closed-form rules -/
theorem pyAd_eq_directAd (a : Ad) (op : Op) (r : Value) : pyAd a op r = directAd a op r := by
  cases r with
  | scalar c =>
    cases op
    · rfl
    · simp only [pyAd, adSub, pyNeg, bind_ok, adAdd, directAd]
      congr 2
      exact map_congr' a (fun u => by simp only [dSubC]; congr 1; grind)
    · simp only [pyAd, adMul, directAd]
      congr 2
      exact map_congr' a (fun u => by simp only [dMulC, gmap_mul_right])
    · simp only [pyAd, adTruediv, directAd]
      split
      · rfl
      · congr 2
        exact map_congr' a (fun u => by simp only [dDivC, gmap_div])
    · rfl
    · rfl
  | vec v =>
    cases op
    · rfl
    · simp only [pyAd, adSub, pyNeg, bind_ok, adAdd, directAd, zipAV, List.length_map]
      split
      · rfl
      · congr 2
        rw [List.zipWith_map_right]
        exact zipWith_congr' a v (fun u c => by simp only [dSubC]; congr 1; grind)
    · rfl
    · simp only [pyAd, adTruediv, directAd, zipAV]
      split
      · rfl
      · split
        · rfl
        · congr 2
          exact zipWith_congr' a v (fun u c => by
            simp only [dDivC, ipow_neg_one]
            have : c⁻¹ = 1 / c := by grind
            rw [this]
            congr 1 <;> grind)
    · rfl
    · rfl
  | mat m => cases op <;> rfl
  | slicer s => cases op <;> rfl
  | slicers l => cases op <;> rfl
  | ad b =>
    cases op
    · rfl
    · simp only [pyAd, adSub, pyNeg, bind_ok, adAdd, directAd, zipAA, List.length_map]
      split
      · rfl
      · congr 2
        rw [List.zipWith_map_right]
        exact zipWith_congr' a b (fun u w => by
          simp only [dSub, dneg, gadd_gneg]; congr 1; grind)
    · rfl
    · simp only [pyAd, adTruediv, directAd, zipAA]
      split
      · rfl
      · rename_i h1
        simp only [adPow, isInt_neg_one, any_not_powOk_neg_one]
        simp only [Bool.not_true, Bool.false_eq_true, if_false]
        split
        · rfl
        · simp only [bind_ok, adMul, List.length_map, h1, if_false]
          congr 2
          rw [List.zipWith_map_right]
          exact zipWith_congr' a b (fun u w => by
            simp only [dDiv, ipow_num_neg_one, ipow_num_neg_one_sub, gscale_gscale]
            have e1 : w.v⁻¹ = 1 / w.v := by grind
            have e2 : u.v * (-1 * (w.v⁻¹ * w.v⁻¹)) = -u.v / (w.v * w.v) := by grind
            rw [e2, ← e1]
            congr 1 <;> grind)
    · rfl
    · rfl



/-- number on the left of an AdArray: the reverse methods are the closed-form rules -/
theorem pyScalar_ad_eq (c : Rat) (a : Ad) (op : Op) : pyScalar c op (.ad a) = directSA c a op := by
  cases op
  · simp only [pyScalar, adAdd, directSA]
    congr 2
    exact map_congr' a (fun u => by simp only [dCAdd]; congr 1; grind)
  · simp only [pyScalar, adRsub, adSub, pyNeg, bind_ok, adAdd, directSA, List.map_map]
    congr 2
    exact map_congr' a (fun u => by simp only [Function.comp, dneg, dCSub]; congr 1; grind)
  · simp only [pyScalar, adRmul, adMul, directSA]
    congr 2
    exact map_congr' a (fun u => by simp only [dCMul, gmap_mul_right]; congr 1; grind)
  · simp only [pyScalar, adRtruediv, adPow, isInt_neg_one, any_not_powOk_neg_one, directSA]
    simp only [Bool.not_true, Bool.false_eq_true, if_false]
    split
    · rfl
    · simp only [bind_ok, adMul, List.map_map]
      congr 2
      exact map_congr' a (fun u => by
        simp only [Function.comp, dCDiv, ipow_num_neg_one, ipow_num_neg_one_sub, gscale_map_mul_right]
        have e : -1 * (u.v⁻¹ * u.v⁻¹) * c = -c / (u.v * u.v) := by grind
        rw [e]
        congr 1 <;> grind)
  · rfl
  · rfl

/-- numpy array on the left of an AdArray: what the parser does instead of `ndarray ∘ AdArray` -/
theorem flip_add (N : Nat) (v : Vec) (a : Ad) : py N .add (.ad a) (.vec v) = directVA v a .add := by
  simp only [py, pyAd, adAdd, directVA, zipAV]
  split
  · rfl
  · congr 2
    exact zipWith_congr' a v (fun u c => by simp only [dCAdd]; congr 1; grind)

theorem flip_sub (N : Nat) (v : Vec) (a : Ad) :
    (py N .sub (.ad a) (.vec v) >>= pyNeg) = directVA v a .sub := by
  simp only [py, pyAd, adSub, pyNeg, bind_ok, adAdd, directVA, zipAV, List.length_map]
  split
  · rfl
  · simp only [bind_ok, pyNeg]
    congr 2
    rw [List.zipWith_map_right, List.map_zipWith]
    exact zipWith_congr' a v (fun u c => by simp only [dneg, dCSub]; congr 1; grind)

theorem flip_mul (N : Nat) (v : Vec) (a : Ad) : py N .mul (.ad a) (.vec v) = directVA v a .mul := by
  simp only [py, pyAd, adMul, directVA, zipAV]
  split
  · rfl
  · congr 2
    exact zipWith_congr' a v (fun u c => by simp only [dCMul]; congr 1; grind)

theorem flip_div (v : Vec) (a : Ad) : adRtruediv a (.vec v) = directVA v a .div := by
  simp only [adRtruediv, adPow, isInt_neg_one, any_not_powOk_neg_one, directVA, zipAV]
  simp only [Bool.not_true, Bool.false_eq_true, if_false]
  split
  · rfl
  · simp only [bind_ok, adMul, List.length_map]
    split
    · rfl
    · congr 2
      rw [List.zipWith_map_left]
      exact zipWith_congr' a v (fun u c => by
        simp only [dCDiv, ipow_num_neg_one, ipow_num_neg_one_sub, gscale_gscale]
        have e : c * (-1 * (u.v⁻¹ * u.v⁻¹)) = -c / (u.v * u.v) := by grind
        rw [e]
        congr 1 <;> grind)

theorem vec_scalar_add (v : Vec) (c : Rat) : v.map (c + ·) = v.map (· + c) :=
  map_congr' v (fun x => by grind)

theorem vec_scalar_sub (v : Vec) (c : Rat) : (v.map (c - ·)).map (- ·) = v.map (· - c) := by
  rw [List.map_map]; exact map_congr' v (fun x => by simp only [Function.comp]; grind)

theorem vecBin_add_comm (v w : Vec) : vecBin (· + ·) w v = vecBin (· + ·) v w := by
  unfold vecBin
  by_cases h : v.length = w.length
  · simp only [h, ne_eq, not_true_eq_false, if_false]
    rw [List.zipWith_comm]
    congr 2
    exact zipWith_congr' v w (fun x y => by grind)
  · have h' : ¬ w.length = v.length := fun e => h e.symm
    simp [h, h']

theorem vecBin_sub_flip (v w : Vec) : (vecBin (· - ·) w v >>= pyNeg) = vecBin (· - ·) v w := by
  unfold vecBin
  by_cases h : v.length = w.length
  · simp only [h, ne_eq, not_true_eq_false, if_false, bind_ok, pyNeg]
    rw [List.zipWith_comm, List.map_zipWith]
    congr 2
    exact zipWith_congr' v w (fun x y => by grind)
  · have h' : ¬ w.length = v.length := fun e => h e.symm
    simp [h, h']



theorem parseBin_eq_directBin' (N : Nat) (op : Op) (l r : Value) :
    parseBin N op l r = directBin N op l r := by
  cases l with
  | ad a =>
    have h : directBin N op (.ad a) r = directAd a op r := by simp only [directBin]
    rw [h, ← pyAd_eq_directAd]
    cases op <;> cases r <;> rfl
  | scalar c =>
    cases r with
    | ad a =>
      have h : directBin N op (.scalar c) (.ad a) = directSA c a op := by simp only [directBin]
      rw [h, ← pyScalar_ad_eq]
      cases op <;> rfl
    | _ => cases op <;> rfl
  | vec v =>
    cases r with
    | ad a =>
      have h : directBin N op (.vec v) (.ad a) = directVA v a op := by simp only [directBin]
      rw [h]
      cases op
      · exact flip_add N v a
      · exact flip_sub N v a
      · exact flip_mul N v a
      · exact flip_div v a
      · rfl
      · rfl
    | scalar c =>
      cases op
      · simp only [parseBin, py, pyScalar, directBin, vec_scalar_add]
      · simp only [parseBin, py, pyScalar, directBin, bind_ok, pyNeg, vec_scalar_sub]
      all_goals rfl
    | vec w =>
      cases op
      · simp only [parseBin, py, pyVec, directBin, vecBin_add_comm]
      · simp only [parseBin, py, pyVec, directBin, vecBin_sub_flip]
      all_goals rfl
    | mat m => cases op <;> rfl
    | slicer s => cases op <;> rfl
    | slicers ps => cases op <;> rfl
  | mat m =>
    cases r with
    | ad a => cases op <;> rfl
    | _ => cases op <;> rfl
  | slicer s => cases r <;> cases op <;> rfl
  | slicers ps => cases r <;> cases op <;> rfl



/-! ### leaves: previous md-variable -/

theorem stored_length {e : Env} (h : EnvWF e) {t i : Int} {st : Vec} (hs : stored e t i = .ok st) :
    st.length = e.N := by
  unfold stored at hs
  split at hs
  · split at hs
    · rename_i v hv
      cases hs
      exact h.1 _ (List.mem_of_getElem? hv)
    · cases hs
  · split at hs
    · rename_i v hv
      cases hs
      exact h.2 _ (List.mem_of_getElem? hv)
    · cases hs

/-- `acc` agrees with `st` on the index set `S` (and has its length) -/
def Agree (st : Vec) (S : Nat → Prop) (acc : Vec) : Prop :=
  acc.length = st.length ∧ ∀ d, S d → acc.getD d 0 = st.getD d 0

theorem agree_set (st : Vec) (S : Nat → Prop) (acc : Vec) (d0 : Nat) (h : Agree st S acc) :
    Agree st (fun d => S d ∨ d = d0) (acc.set d0 (st.getD d0 0)) := by
  refine ⟨by simp [h.1], ?_⟩
  intro d hd
  by_cases hdd : d = d0
  · subst hdd
    by_cases hl : d < acc.length
    · simp [List.getD_eq_getElem?_getD, hl]
    · have hl' : ¬ d < st.length := by rw [← h.1]; exact hl
      simp [List.getD_eq_getElem?_getD, hl, hl']
  · have hS : S d := by rcases hd with h1 | h1; exact h1; exact absurd h1 hdd
    have := h.2 d hS
    simp only [List.getD_eq_getElem?_getD] at this ⊢
    rw [List.getElem?_set_ne (fun e => hdd e.symm)]
    exact this

theorem agree_scatter (st : Vec) (sub : List Nat) : ∀ (S : Nat → Prop) (acc : Vec), Agree st S acc →
    Agree st (fun d => S d ∨ d ∈ sub)
      ((List.zip sub (gather st sub)).foldl (fun a p => a.set p.1 p.2) acc) := by
  induction sub with
  | nil => intro S acc h; exact ⟨h.1, fun d hd => h.2 d (by simpa using hd)⟩
  | cons d0 ds ih =>
    intro S acc h
    simp only [gather, List.map_cons, List.zip_cons_cons, List.foldl_cons]
    have h1 := agree_set st S acc d0 h
    have h2 := ih _ _ h1
    refine ⟨h2.1, fun d hd => h2.2 d ?_⟩
    rcases hd with hd | hd
    · exact Or.inl (Or.inl hd)
    · rcases List.mem_cons.mp hd with hd | hd
      · exact Or.inl (Or.inr hd)
      · exact Or.inr hd

theorem mdPrev_agree (e : Env) (t i : Int) (st : Vec) (hs : stored e t i = .ok st) :
    ∀ (subs : List (List Nat)) (S : Nat → Prop) (acc : Vec), Agree st S acc →
    ∃ filled, mdPrev e t i subs acc = .ok filled ∧ Agree st (fun d => S d ∨ d ∈ subs.flatten) filled := by
  intro subs
  induction subs with
  | nil => intro S acc h; exact ⟨acc, rfl, h.1, fun d hd => h.2 d (by simpa using hd)⟩
  | cons sub rest ih =>
    intro S acc h
    simp only [mdPrev, hs, bind_ok]
    obtain ⟨filled, hf, ha⟩ := ih _ _ (agree_scatter st sub S acc h)
    refine ⟨filled, hf, ha.1, fun d hd => ha.2 d ?_⟩
    rcases hd with hd | hd
    · exact Or.inl (Or.inl hd)
    · rw [List.flatten_cons] at hd
      rcases List.mem_append.mp hd with hd | hd
      · exact Or.inl (Or.inr hd)
      · exact Or.inr hd

theorem mdPrev_err (e : Env) (t i : Int) (err : Err) (hs : stored e t i = .error err)
    (sub : List Nat) (rest : List (List Nat)) (acc : Vec) : mdPrev e t i (sub :: rest) acc = .error err := by
  simp only [mdPrev, hs, bind_err]

theorem parseLeaf_eq_directLeaf (deriv : Bool) (e : Env) (hwf : EnvWF e) (l : Leaf) :
    parseLeaf deriv e l = directLeaf deriv e l := by
  cases l with
  | var subs md t i =>
    simp only [parseLeaf, directLeaf]
    split
    · cases md with
      | false => simp
      | true =>
        cases subs with
        | nil => simp [mdPrev, gather]
        | cons sub rest =>
          simp only [if_true, Bool.true_and, List.isEmpty_cons, Bool.false_eq_true, if_false]
          cases hs : stored e t i with
          | error err => simp only [mdPrev_err e t i err hs, bind_err]
          | ok st =>
            have hlen := stored_length hwf hs
            obtain ⟨filled, hf, ha⟩ := mdPrev_agree e t i st hs (sub :: rest) (fun _ => False) (zeros e.N)
              ⟨by simp [zeros, hlen], fun d hd => hd.elim⟩
            simp only [hf, bind_ok, pure_eq_ok]
            congr 2
            unfold gather
            exact List.map_congr_left (fun d hd => ha.2 d (Or.inr hd))
    · rfl
  | scalar c => rfl
  | dense v => rfl
  | sparse m => rfl
  | proj s => rfl
  | td id t => rfl

theorem parse_eq_direct' (deriv : Bool) (e : Env) (hwf : EnvWF e) (t : OpTree) :
    parse deriv e t = direct deriv e t := by
  induction t with
  | leaf l => exact parseLeaf_eq_directLeaf deriv e hwf l
  | projList ps => rfl
  | bin op a b iha ihb =>
    simp only [parse, direct, iha, ihb]
    congr 1; funext x; congr 1; funext y
    exact parseBin_eq_directBin' _ _ _ _
  | func1 f a iha => simp only [parse, direct, iha]
  | func2 f a b iha ihb => simp only [parse, direct, iha, ihb]


/-! ### values without AdArray operands stay without AdArray -/

/-- a result that, when it is a value, is not an AdArray -/
def okNoAd (r : R Value) : Prop := ∀ z, r = .ok z → z.isAd = false

theorem okNoAd_err (e : Err) : okNoAd (.error e) := fun _ h => by cases h
theorem okNoAd_ok (v : Value) (h : v.isAd = false) : okNoAd (.ok v) := fun _ hz => by cases hz; exact h
theorem okNoAd_ite (c : Prop) [Decidable c] (a b : R Value) (ha : okNoAd a) (hb : okNoAd b) :
    okNoAd (if c then a else b) := by split <;> assumption
theorem okNoAd_bind {α : Type} (x : R α) (f : α → R Value) (hf : ∀ v, okNoAd (f v)) : okNoAd (x >>= f) := by
  cases x with
  | error e => exact okNoAd_err e
  | ok v => exact hf v

macro "noad" : tactic =>
  `(tactic| repeat (first
      | exact okNoAd_err _
      | exact okNoAd_ok _ rfl
      | apply okNoAd_ite
      | (apply okNoAd_bind; intro _)
      | assumption))

theorem noAd_pyScalar (c : Rat) (op : Op) (r : Value) (hr : r.isAd = false) : okNoAd (pyScalar c op r) := by
  cases r <;> cases op <;> first | (simp only [pyScalar, matScale]; noad; done) | cases hr

theorem noAd_pyVec (v : Vec) (op : Op) (r : Value) (hr : r.isAd = false) : okNoAd (pyVec v op r) := by
  cases r <;> cases op <;> first | (simp only [pyVec, vecBin]; noad; done) | cases hr

theorem noAd_pyMat (N : Nat) (m : Mat) (op : Op) (r : Value) (hr : r.isAd = false) : okNoAd (pyMat N m op r) := by
  cases r <;> cases op <;> first | (simp only [pyMat, matScale, matVec, matMat, matAddSub]; noad; done) | cases hr

theorem noAd_slicerMatmul (N : Nat) (s : Slicer) (r : Value) (hr : r.isAd = false) : okNoAd (slicerMatmul N s r) := by
  cases r <;> first | (simp only [slicerMatmul, pure_eq_ok]; noad; done) | cases hr

theorem noAd_sumAdd (x y : Value) (hx : x.isAd = false) : okNoAd (sumAdd x y) := by
  cases x <;> cases y <;> first | (simp only [sumAdd, matAddSub]; noad; done) | cases hx

theorem noAd_foldlM (N : Nat) (x : Value) (rest : List Slicer) :
    ∀ acc : Value, acc.isAd = false →
      okNoAd (rest.foldlM (fun acc q => do let t ← slicerMatmul N q x; sumAdd acc t) acc) := by
  induction rest with
  | nil => intro acc h; exact okNoAd_ok _ h
  | cons q rest ih =>
    intro acc hacc
    simp only [List.foldlM_cons]
    intro z hz
    cases h1 : slicerMatmul N q x with
    | error e => simp [h1] at hz
    | ok t =>
      cases h2 : sumAdd acc t with
      | error e => simp [h1, h2] at hz
      | ok acc' =>
        simp only [h1, h2, bind_ok] at hz
        exact ih acc' (noAd_sumAdd acc t hacc _ h2) z hz

theorem noAd_sumSlicers (N : Nat) (ps : List Slicer) (x : Value) (hx : x.isAd = false) : okNoAd (sumSlicers N ps x) := by
  cases ps with
  | nil => exact okNoAd_ok _ rfl
  | cons p rest =>
    simp only [sumSlicers]
    intro z hz
    cases h1 : slicerMatmul N p x with
    | error e => simp [h1] at hz
    | ok first =>
      simp only [h1, bind_ok] at hz
      exact noAd_foldlM N x rest first (noAd_slicerMatmul N p x hx _ h1) z hz

theorem noAd_py (N : Nat) (op : Op) (l r : Value) (hl : l.isAd = false) (hr : r.isAd = false) :
    okNoAd (py N op l r) := by
  cases l with
  | scalar c => exact noAd_pyScalar c op r hr
  | vec v => exact noAd_pyVec v op r hr
  | mat m => exact noAd_pyMat N m op r hr
  | ad a => cases hl
  | slicer s => cases op <;> first | exact okNoAd_err _ | exact noAd_slicerMatmul N s r hr
  | slicers ps => exact okNoAd_err _

theorem noAd_directBin (N : Nat) (op : Op) (l r : Value) (hl : l.isAd = false) (hr : r.isAd = false) :
    okNoAd (directBin N op l r) := by
  cases l with
  | ad a => cases hl
  | slicers ps =>
    cases op <;> first | exact okNoAd_err _ | exact noAd_sumSlicers N ps r hr
  | scalar c => cases r <;> first | (simp only [directBin]; exact noAd_py N op _ _ rfl rfl) | cases hr
  | mat m => cases r <;> first | (simp only [directBin]; exact noAd_py N op _ _ rfl rfl) | cases hr
  | slicer s => cases r <;> first | (simp only [directBin]; exact noAd_py N op _ _ rfl rfl) | cases hr
  | vec v =>
    cases r with
    | ad a => cases hr
    | scalar c => cases op <;> first | exact okNoAd_ok _ rfl | (simp only [directBin]; exact noAd_py N _ (.vec v) (.scalar c) rfl rfl)
    | vec w => cases op <;> first | (simp only [directBin, vecBin]; noad; done) | (simp only [directBin]; exact noAd_py N _ (.vec v) (.vec w) rfl rfl)
    | mat m => cases op <;> first | exact okNoAd_err _ | (simp only [directBin]; exact noAd_py N _ (.vec v) (.mat m) rfl rfl)
    | slicer s => cases op <;> first | exact okNoAd_err _ | (simp only [directBin]; exact noAd_py N _ (.vec v) (.slicer s) rfl rfl)
    | slicers ps => exact okNoAd_err _



/-! ### derivative=True results map to derivative=False results -/

theorem strip_of_noAd (z : Value) (h : z.isAd = false) : strip z = z := by
  cases z <;> first | rfl | cases h

theorem mapM_ok {α β : Type} (f : α → R β) (g : α → β) (l : List α) (h : ∀ x ∈ l, f x = .ok (g x)) :
    l.mapM f = .ok (l.map g) := by
  induction l with
  | nil => rfl
  | cons x xs ih =>
    rw [List.mapM_cons, h x (List.mem_cons_self), bind_ok, ih (fun y hy => h y (List.mem_cons_of_mem _ hy))]
    rfl

theorem powEntry_ok (x c : Rat) (hc : isInt c = true) (h : powOk x c.num = true) : powEntry x c = .ok (ipow x c.num) := by
  unfold powEntry
  simp only [hc, Bool.not_true, Bool.false_eq_true, if_false]
  have : (x == 0 && decide (c.num < 0)) = false := by
    unfold powOk at h
    cases hx : (x == 0) <;> simp_all
  simp [this]

theorem hom_ad_scalar (N : Nat) (a : Ad) (c : Rat) (op : Op) (z : Value)
    (h : directAd a op (.scalar c) = .ok z) :
    directBin N op (.vec (vals a)) (.scalar c) = .ok (strip z) := by
  cases op
  · simp only [directAd] at h; cases h
    simp [directBin, strip, vals, List.map_map, dAddC, Function.comp_def]
  · simp only [directAd] at h; cases h
    simp [directBin, strip, vals, List.map_map, dSubC, Function.comp_def]
  · simp only [directAd] at h; cases h
    simp [directBin, py, pyVec, strip, vals, List.map_map, dMulC, Function.comp_def]
  · simp only [directAd] at h
    split at h
    · cases h
    · rename_i hc
      cases h
      simp [directBin, py, pyVec, hc, strip, vals, List.map_map, dDivC, Function.comp_def]
  · simp only [directAd, dPowS] at h
    split at h
    · cases h
    · split at h
      · cases h
      · rename_i hc hok
        cases h
        have hc' : isInt c = true := by simpa using hc
        have hall : ∀ x ∈ vals a, powEntry x c = .ok (ipow x c.num) := by
          intro x hx
          obtain ⟨u, hu, rfl⟩ := List.mem_map.mp hx
          apply powEntry_ok _ _ hc'
          have hok' : ∀ (x : Dual), x ∈ a → powOk x.v c.num = true := by simpa using hok
          exact hok' u hu
        simp only [directBin, py, pyVec, mapM_ok _ _ _ hall, bind_ok, pure_eq_ok, strip]
        simp [vals, List.map_map, dPowC, Function.comp_def]
  · simp only [directAd] at h; cases h



theorem powV_strip : ∀ (a : Ad) (w : Vec), a.length = w.length →
    (w.any fun c => !isInt c) = false →
    (List.zipWith (fun (u : Dual) (c : Rat) => !powOk u.v c.num) a w).any id = false →
    (List.zipWith (fun x c => (x, c)) (vals a) w).mapM (fun p => powEntry p.1 p.2)
      = .ok (vals (List.zipWith dPowC a w)) := by
  intro a
  induction a with
  | nil => intro w _ _ _; cases w <;> rfl
  | cons u us ih =>
    intro w hl hi hp
    cases w with
    | nil => simp at hl
    | cons c cs =>
      simp only [List.any_cons, Bool.or_eq_false_iff, List.zipWith_cons_cons, id] at hi hp
      have hc : isInt c = true := by simpa using hi.1
      have hu : powOk u.v c.num = true := by simpa using hp.1
      have := ih cs (by simpa using hl) hi.2 hp.2
      simp only [vals, List.map_cons, List.zipWith_cons_cons, List.mapM_cons, powEntry_ok _ _ hc hu, bind_ok] at this ⊢
      rw [this]
      rfl

theorem hom_ad_vec (N : Nat) (a : Ad) (w : Vec) (op : Op) (z : Value)
    (h : directAd a op (.vec w) = .ok z) :
    directBin N op (.vec (vals a)) (.vec w) = .ok (strip z) := by
  cases op
  · simp only [directAd, zipAV] at h
    split at h
    · cases h
    · rename_i hl; cases h
      simp [directBin, vecBin, hl, strip, vals, List.map_zipWith, List.zipWith_map_left, dAddC]
  · simp only [directAd, zipAV] at h
    split at h
    · cases h
    · rename_i hl; cases h
      simp [directBin, vecBin, hl, strip, vals, List.map_zipWith, List.zipWith_map_left, dSubC]
  · simp only [directAd, zipAV] at h
    split at h
    · cases h
    · rename_i hl; cases h
      simp [directBin, py, pyVec, vecBin, hl, strip, vals, List.map_zipWith, List.zipWith_map_left, dMulC]
  · simp only [directAd, zipAV] at h
    split at h
    · cases h
    · split at h
      · cases h
      · rename_i hl hz
        try simp only [hl, if_false] at h
        cases h
        simp [directBin, py, pyVec, hl, hz, strip, vals, List.map_zipWith, List.zipWith_map_left, dDivC]
  · simp only [directAd, dPowV] at h
    split at h
    · cases h
    · split at h
      · cases h
      · split at h
        · cases h
        · rename_i hl hi hp
          cases h
          have hl' : a.length = w.length := by simpa using hl
          have := powV_strip a w hl' (by simpa using hi) (by simpa using hp)
          simp only [directBin, py, pyVec, vals, List.length_map, hl, if_false] at this ⊢
          rw [this]
          rfl
  · simp only [directAd] at h; cases h

theorem hom_ad_ad (N : Nat) (a b : Ad) (op : Op) (z : Value)
    (h : directAd a op (.ad b) = .ok z) :
    directBin N op (.vec (vals a)) (.vec (vals b)) = .ok (strip z) := by
  cases op
  · simp only [directAd, zipAA] at h
    split at h
    · cases h
    · rename_i hl; cases h
      simp [directBin, vecBin, hl, strip, vals, List.map_zipWith, List.zipWith_map_left, List.zipWith_map_right, dAdd]
  · simp only [directAd, zipAA] at h
    split at h
    · cases h
    · rename_i hl; cases h
      simp [directBin, vecBin, hl, strip, vals, List.map_zipWith, List.zipWith_map_left, List.zipWith_map_right, dSub]
  · simp only [directAd, zipAA] at h
    split at h
    · cases h
    · rename_i hl; cases h
      simp [directBin, py, pyVec, vecBin, hl, strip, vals, List.map_zipWith, List.zipWith_map_left, List.zipWith_map_right, dMul]
  · simp only [directAd, zipAA] at h
    split at h
    · cases h
    · split at h
      · cases h
      · rename_i hl hz
        try simp only [hl, if_false] at h
        cases h
        have hz' : hasZero (List.map (fun x => x.v) b) = false := by simpa [vals] using hz
        simp [directBin, py, pyVec, hl, hz', strip, vals, List.map_zipWith, List.zipWith_map_left, List.zipWith_map_right, dDiv]
  · simp only [directAd] at h
    split at h <;> cases h
  · simp only [directAd] at h; cases h



theorem hom_scalar_ad (N : Nat) (c : Rat) (a : Ad) (op : Op) (z : Value)
    (h : directSA c a op = .ok z) :
    directBin N op (.scalar c) (.vec (vals a)) = .ok (strip z) := by
  cases op
  · simp only [directSA] at h; cases h
    simp [directBin, py, pyScalar, strip, vals, List.map_map, dCAdd, Function.comp_def]
  · simp only [directSA] at h; cases h
    simp [directBin, py, pyScalar, strip, vals, List.map_map, dCSub, Function.comp_def]
  · simp only [directSA] at h; cases h
    simp [directBin, py, pyScalar, strip, vals, List.map_map, dCMul, Function.comp_def]
  · simp only [directSA] at h
    split at h
    · cases h
    · rename_i hz; cases h
      have hz' : hasZero (List.map (fun x => x.v) a) = false := by simpa [vals] using hz
      simp [directBin, py, pyScalar, hz', strip, vals, List.map_map, dCDiv, Function.comp_def]
  · simp only [directSA] at h; cases h
  · simp only [directSA] at h; cases h

theorem zipWith_swap_vals (f : Rat → Rat → Rat) (a : Ad) (v : Vec) :
    List.zipWith (fun (u : Dual) (c : Rat) => f c u.v) a v = List.zipWith f v (vals a) := by
  unfold vals
  rw [List.zipWith_map_right, List.zipWith_comm]

theorem hom_vec_ad (N : Nat) (v : Vec) (a : Ad) (op : Op) (z : Value)
    (h : directVA v a op = .ok z) :
    directBin N op (.vec v) (.vec (vals a)) = .ok (strip z) := by
  cases op
  · simp only [directVA, zipAV] at h
    split at h
    · cases h
    · rename_i hl; cases h
      have hl' : v.length = (vals a).length := by simp [vals]; omega
      simp only [directBin, vecBin, hl', ne_eq, not_true_eq_false, if_false, strip, vals, List.map_zipWith, dCAdd]
      rw [zipWith_swap_vals (· + ·)]; rfl
  · simp only [directVA, zipAV] at h
    split at h
    · cases h
    · rename_i hl; cases h
      have hl' : v.length = (vals a).length := by simp [vals]; omega
      simp only [directBin, vecBin, hl', ne_eq, not_true_eq_false, if_false, strip, vals, List.map_zipWith, dCSub]
      rw [zipWith_swap_vals (· - ·)]; rfl
  · simp only [directVA, zipAV] at h
    split at h
    · cases h
    · rename_i hl; cases h
      have hl' : v.length = (vals a).length := by simp [vals]; omega
      simp only [directBin, py, pyVec, vecBin, hl', ne_eq, not_true_eq_false, if_false, strip, vals, List.map_zipWith, dCMul]
      rw [zipWith_swap_vals (· * ·)]; rfl
  · simp only [directVA, zipAV] at h
    split at h
    · cases h
    · split at h
      · cases h
      · rename_i hz hl; cases h
        have hl' : v.length = (vals a).length := by simp [vals]; omega
        have hz' : hasZero (vals a) = false := by simpa using hz
        simp only [directBin, py, pyVec, hl', hz', ne_eq, not_true_eq_false, if_false, Bool.false_eq_true, strip, dCDiv]
        rw [← zipWith_swap_vals (· / ·)]
        simp only [vals, List.map_zipWith]
  · simp only [directVA] at h; cases h
  · simp only [directVA] at h; cases h

theorem combo_v (N : Nat) (r : List Rat) (a : Ad) : (combo N r a).v = dot r (vals a) := by
  unfold combo dot vals
  suffices ∀ (acc : Dual) (s : Rat), acc.v = s →
      ((List.zipWith (fun (c : Rat) (u : Dual) => (c, u)) r a).foldl
        (fun acc p => (⟨acc.v + p.1 * p.2.v, gadd acc.g (gscale p.1 p.2.g)⟩ : Dual)) acc).v
      = (List.zipWith (· * ·) r (a.map (·.v))).foldl (· + ·) s from this _ _ rfl
  induction r generalizing a with
  | nil => intro acc s h; simpa using h
  | cons c cs ih =>
    intro acc s h
    cases a with
    | nil => simpa using h
    | cons u us =>
      simp only [List.zipWith_cons_cons, List.foldl_cons, List.map_cons]
      exact ih us _ _ (by simp [h])

theorem hom_mat_ad (N : Nat) (m : Mat) (a : Ad) (op : Op) (z : Value)
    (h : directBin N op (.mat m) (.ad a) = .ok z) :
    directBin N op (.mat m) (.vec (vals a)) = .ok (strip z) := by
  cases op
  all_goals try (simp only [directBin] at h; cases h)
  simp only [directBin, adRmatmul] at h
  split at h
  · cases h
  · rename_i hl; cases h
    have hl' : m.nc = (vals a).length := by simp [vals]; omega
    simp only [directBin, py, pyMat, matVec, hl', ne_eq, not_true_eq_false, if_false, strip, vals, List.map_map]
    congr 2
    exact map_congr' _ (fun r => (combo_v N r a).symm)



theorem scatterFrom_map {α β : Type} (f : α → β) (x : List α) :
    ∀ (d r : List Nat) (out : List α),
      scatterFrom (x.map f) d r (out.map f) = (scatterFrom x d r out).map (List.map f) := by
  intro d
  induction d with
  | nil =>
    intro r out
    cases r <;> rfl
  | cons d0 ds ih =>
    intro r out
    cases r with
    | nil => rfl
    | cons r0 rs =>
      simp only [scatterFrom, List.getElem?_map, List.length_map]
      cases hx : x[d0]? with
      | none => rfl
      | some e =>
        simp only [Option.map_some]
        split
        · rw [← ih rs (out.set r0 e), List.map_set]
        · rfl

theorem hom_slicerMatmul (N : Nat) (s : Slicer) (x t : Value) (h : slicerMatmul N s x = .ok t) :
    slicerMatmul N s (strip x) = .ok (strip t) := by
  cases x with
  | ad a =>
    simp only [slicerMatmul] at h
    cases ho : scatterFrom a s.dom s.rng (List.replicate s.rsize ⟨0, zeros N⟩) with
    | error e => simp [ho] at h
    | ok o =>
      simp only [ho, bind_ok, pure_eq_ok] at h
      cases h
      have := scatterFrom_map (fun u : Dual => u.v) a s.dom s.rng (List.replicate s.rsize ⟨0, zeros N⟩)
      simp only [List.map_replicate, ho] at this
      simp only [strip, slicerMatmul, vals, zeros, this]
      rfl
  | scalar c => rw [strip_of_noAd _ (noAd_slicerMatmul N s _ rfl t h)]; exact h
  | vec v => rw [strip_of_noAd _ (noAd_slicerMatmul N s _ rfl t h)]; exact h
  | mat m => rw [strip_of_noAd _ (noAd_slicerMatmul N s _ rfl t h)]; exact h
  | slicer s' => rw [strip_of_noAd _ (noAd_slicerMatmul N s _ rfl t h)]; exact h
  | slicers l => rw [strip_of_noAd _ (noAd_slicerMatmul N s _ rfl t h)]; exact h

theorem hom_sumAdd (p q z : Value) (h : sumAdd p q = .ok z) : sumAdd (strip p) (strip q) = .ok (strip z) := by
  cases p <;> cases q
  all_goals try (simp only [sumAdd] at h; cases h; done)
  · -- vec, vec
    rw [strip_of_noAd _ (noAd_sumAdd _ _ rfl z h)]; exact h
  · rw [strip_of_noAd _ (noAd_sumAdd _ _ rfl z h)]; exact h
  · -- ad, ad
    rename_i a b
    simp only [sumAdd, adAdd] at h
    split at h
    · cases h
    · rename_i hl; cases h
      simp [strip, sumAdd, vals, hl, List.map_zipWith, List.zipWith_map_left, List.zipWith_map_right]

theorem hom_foldlM (N : Nat) (x : Value) (rest : List Slicer) : ∀ (acc z : Value),
    rest.foldlM (fun acc q => do let t ← slicerMatmul N q x; sumAdd acc t) acc = .ok z →
    rest.foldlM (fun acc q => do let t ← slicerMatmul N q (strip x); sumAdd acc t) (strip acc) = .ok (strip z) := by
  induction rest with
  | nil => intro acc z h; simp only [List.foldlM_nil, pure_eq_ok] at h ⊢; cases h; rfl
  | cons q rest ih =>
    intro acc z h
    simp only [List.foldlM_cons] at h ⊢
    cases h1 : slicerMatmul N q x with
    | error e => simp [h1] at h
    | ok t =>
      cases h2 : sumAdd acc t with
      | error e => simp [h1, h2] at h
      | ok acc' =>
        simp only [h1, h2, bind_ok] at h
        simp only [hom_slicerMatmul N q x t h1, hom_sumAdd acc t acc' h2, bind_ok]
        exact ih acc' z h

theorem hom_sumSlicers (N : Nat) (ps : List Slicer) (x z : Value) (h : sumSlicers N ps x = .ok z) :
    sumSlicers N ps (strip x) = .ok (strip z) := by
  cases ps with
  | nil => simp only [sumSlicers] at h ⊢; cases h; rfl
  | cons p rest =>
    simp only [sumSlicers] at h ⊢
    cases h1 : slicerMatmul N p x with
    | error e => simp [h1] at h
    | ok first =>
      simp only [h1, bind_ok] at h
      simp only [hom_slicerMatmul N p x first h1, bind_ok]
      exact hom_foldlM N x rest first z h

/-- forgetting the Jacobians of the operands forgets the Jacobian of the result -/
theorem directBin_strip (N : Nat) (op : Op) (x y z : Value) (h : directBin N op x y = .ok z) :
    directBin N op (strip x) (strip y) = .ok (strip z) := by
  cases x with
  | ad a =>
    have h' : directAd a op y = .ok z := by simpa only [directBin] using h
    cases y with
    | scalar c => exact hom_ad_scalar N a c op z h'
    | vec w => exact hom_ad_vec N a w op z h'
    | ad b => exact hom_ad_ad N a b op z h'
    | mat m => simp only [directAd] at h'; cases h'
    | slicer s => cases op <;> (simp only [directAd] at h'; cases h')
    | slicers l => cases op <;> (simp only [directAd] at h'; cases h')
  | scalar c =>
    cases y with
    | ad a => exact hom_scalar_ad N c a op z (by simpa only [directBin] using h)
    | _ => rw [strip_of_noAd _ (noAd_directBin N op _ _ rfl rfl z h)]; exact h
  | vec v =>
    cases y with
    | ad a => exact hom_vec_ad N v a op z (by simpa only [directBin] using h)
    | _ => rw [strip_of_noAd _ (noAd_directBin N op _ _ rfl rfl z h)]; exact h
  | mat m =>
    cases y with
    | ad a => exact hom_mat_ad N m a op z h
    | _ => rw [strip_of_noAd _ (noAd_directBin N op _ _ rfl rfl z h)]; exact h
  | slicer s =>
    cases y with
    | ad a =>
      cases op
      all_goals try (simp only [directBin, py] at h; cases h; done)
      simp only [directBin, py] at h ⊢
      exact hom_slicerMatmul N s _ z h
    | _ => rw [strip_of_noAd _ (noAd_directBin N op _ _ rfl rfl z h)]; exact h
  | slicers ps =>
    cases op
    all_goals try (simp only [directBin] at h; cases h; done)
    simp only [directBin] at h
    have := hom_sumSlicers N ps y z h
    simpa only [directBin, strip] using this


/-! ### trees: derivative=True results map to derivative=False results -/

theorem strip_idem_scalar (c : Rat) : strip (.scalar c) = .scalar c := rfl

theorem hom_feval (N : Nat) (f : FExpr) : ∀ (x y z : Value), f.eval N x y = .ok z →
    f.eval N (strip x) (strip y) = .ok (strip z) := by
  induction f with
  | x => intro x y z h; simp only [FExpr.eval] at h ⊢; cases h; rfl
  | y => intro x y z h; simp only [FExpr.eval] at h ⊢; cases h; rfl
  | const c => intro x y z h; simp only [FExpr.eval] at h ⊢; cases h; rfl
  | add a b iha ihb =>
    intro x y z h
    simp only [FExpr.eval] at h ⊢
    cases h1 : a.eval N x y with
    | error e => simp [h1] at h
    | ok p =>
      cases h2 : b.eval N x y with
      | error e => simp [h1, h2] at h
      | ok q =>
        simp only [h1, h2, bind_ok] at h
        simp only [iha x y p h1, ihb x y q h2, bind_ok]
        exact directBin_strip N _ p q z h
  | sub a b iha ihb =>
    intro x y z h
    simp only [FExpr.eval] at h ⊢
    cases h1 : a.eval N x y with
    | error e => simp [h1] at h
    | ok p =>
      cases h2 : b.eval N x y with
      | error e => simp [h1, h2] at h
      | ok q =>
        simp only [h1, h2, bind_ok] at h
        simp only [iha x y p h1, ihb x y q h2, bind_ok]
        exact directBin_strip N _ p q z h
  | mul a b iha ihb =>
    intro x y z h
    simp only [FExpr.eval] at h ⊢
    cases h1 : a.eval N x y with
    | error e => simp [h1] at h
    | ok p =>
      cases h2 : b.eval N x y with
      | error e => simp [h1, h2] at h
      | ok q =>
        simp only [h1, h2, bind_ok] at h
        simp only [iha x y p h1, ihb x y q h2, bind_ok]
        exact directBin_strip N _ p q z h

theorem hom_applyFunc (N : Nat) (f : FExpr) (x y z : Value) (h : applyFunc N f x y = .ok z) :
    applyFunc N f (strip x) (strip y) = .ok (strip z) := by
  unfold applyFunc at h ⊢
  cases h1 : f.eval N x y with
  | error e => simp [h1] at h
  | ok v =>
    simp only [h1] at h
    obtain rfl : v = z := by simpa only [Except.ok.injEq] using h
    simp only [hom_feval N f x y v h1]

theorem vals_adRows (state : Vec) (idx : List Nat) : vals (adRows state idx) = gather state idx := by
  simp [vals, adRows, gather, List.map_map, Function.comp_def]

theorem hom_parseLeaf (e : Env) (l : Leaf) (z : Value) (h : parseLeaf true e l = .ok z) :
    parseLeaf false e l = .ok (strip z) := by
  cases l with
  | var subs md t i =>
    simp only [parseLeaf] at h ⊢
    split
    · rename_i hp
      simp only [hp, if_true] at h
      cases md with
      | true =>
        simp only [if_true] at h ⊢
        cases hm : mdPrev e t i subs (zeros e.N) with
        | error er => simp [hm] at h
        | ok filled => simp only [hm, bind_ok, pure_eq_ok] at h ⊢; cases h; rfl
      | false =>
        simp only [Bool.false_eq_true, if_false] at h ⊢
        cases hm : stored e t i with
        | error er => simp [hm] at h
        | ok st => simp only [hm, bind_ok, pure_eq_ok] at h ⊢; cases h; rfl
    · rename_i hp
      simp only [hp, if_false, if_true] at h
      cases h
      simp only [Bool.false_eq_true, if_false, strip, vals_adRows]
  | scalar c => simp only [parseLeaf] at h ⊢; cases h; rfl
  | dense v => simp only [parseLeaf] at h ⊢; cases h; rfl
  | sparse m => simp only [parseLeaf] at h ⊢; cases h; rfl
  | proj s => simp only [parseLeaf] at h ⊢; cases h; rfl
  | td id t =>
    simp only [parseLeaf] at h ⊢
    split <;> rename_i hp <;> simp only [hp, if_true, if_false] at h
    · split <;> rename_i hq <;> simp only [hq] at h
      · split <;> rename_i hr <;> simp only [hr] at h
        · cases h; rfl
        · cases h
      · cases h
    · split <;> rename_i hq <;> simp only [hq] at h
      · cases h; rfl
      · cases h


/-! ### helpers for the statements about previous values and reverse operations -/

theorem noAd_feval (N : Nat) (f : FExpr) (x y : Value) (hx : x.isAd = false) (hy : y.isAd = false) :
    okNoAd (f.eval N x y) := by
  induction f with
  | x => exact okNoAd_ok _ hx
  | y => exact okNoAd_ok _ hy
  | const c => exact okNoAd_ok _ rfl
  | add a b iha ihb =>
    intro z h
    simp only [FExpr.eval] at h
    cases h1 : a.eval N x y with
    | error er => simp [h1] at h
    | ok p =>
      cases h2 : b.eval N x y with
      | error er => simp [h1, h2] at h
      | ok q =>
        simp only [h1, h2, bind_ok] at h
        exact noAd_directBin N _ p q (iha p h1) (ihb q h2) z h
  | sub a b iha ihb =>
    intro z h
    simp only [FExpr.eval] at h
    cases h1 : a.eval N x y with
    | error er => simp [h1] at h
    | ok p =>
      cases h2 : b.eval N x y with
      | error er => simp [h1, h2] at h
      | ok q =>
        simp only [h1, h2, bind_ok] at h
        exact noAd_directBin N _ p q (iha p h1) (ihb q h2) z h
  | mul a b iha ihb =>
    intro z h
    simp only [FExpr.eval] at h
    cases h1 : a.eval N x y with
    | error er => simp [h1] at h
    | ok p =>
      cases h2 : b.eval N x y with
      | error er => simp [h1, h2] at h
      | ok q =>
        simp only [h1, h2, bind_ok] at h
        exact noAd_directBin N _ p q (iha p h1) (ihb q h2) z h

theorem noAd_applyFunc (N : Nat) (f : FExpr) (x y : Value) (hx : x.isAd = false) (hy : y.isAd = false) :
    okNoAd (applyFunc N f x y) := by
  intro z h
  unfold applyFunc at h
  cases h1 : f.eval N x y with
  | error er => simp [h1] at h
  | ok v =>
    simp only [h1] at h
    obtain rfl : v = z := by simpa only [Except.ok.injEq] using h
    exact noAd_feval N f x y hx hy v h1

theorem noAd_parseLeaf_false (e : Env) (l : Leaf) : okNoAd (parseLeaf false e l) := by
  cases l with
  | var subs md t i => simp only [parseLeaf, Bool.false_eq_true, if_false, pure_eq_ok]; noad
  | td id t =>
    simp only [parseLeaf]
    repeat (first | exact okNoAd_err _ | exact okNoAd_ok _ rfl | apply okNoAd_ite | split)
  | scalar c => exact okNoAd_ok _ rfl
  | dense v => exact okNoAd_ok _ rfl
  | sparse m => exact okNoAd_ok _ rfl
  | proj s => exact okNoAd_ok _ rfl

/-- Without derivatives no AdArray ever appears. -/
theorem noAd_parse_false (e : Env) (t : OpTree) : okNoAd (parse false e t) := by
  induction t with
  | leaf l => exact noAd_parseLeaf_false e l
  | projList ps => intro z h; simp only [parse] at h; cases h; rfl
  | bin op a b iha ihb =>
    intro z h
    simp only [parse] at h
    cases h1 : parse false e a with
    | error er => simp [h1] at h
    | ok x =>
      cases h2 : parse false e b with
      | error er => simp [h1, h2] at h
      | ok y =>
        simp only [h1, h2, bind_ok, parseBin_eq_directBin'] at h
        exact noAd_directBin e.N op x y (iha x h1) (ihb y h2) z h
  | func1 f a iha =>
    intro z h
    simp only [parse] at h
    cases h1 : parse false e a with
    | error er => simp [h1] at h
    | ok x =>
      simp only [h1, bind_ok] at h
      exact noAd_applyFunc e.N f x x (iha x h1) (iha x h1) z h
  | func2 f a b iha ihb =>
    intro z h
    simp only [parse] at h
    cases h1 : parse false e a with
    | error er => simp [h1] at h
    | ok x =>
      cases h2 : parse false e b with
      | error er => simp [h1, h2] at h
      | ok y =>
        simp only [h1, h2, bind_ok] at h
        exact noAd_applyFunc e.N f x y (iha x h1) (ihb y h2) z h

theorem jacRows_zipWith_left (f : Dual → Rat → Dual) (hf : ∀ u c, (f u c).g = u.g) :
    ∀ (a : Ad) (v : Vec), a.length = v.length → jacRows (List.zipWith f a v) = jacRows a := by
  intro a
  induction a with
  | nil => intro v _; rfl
  | cons u us ih =>
    intro v hl
    cases v with
    | nil => simp at hl
    | cons c cs =>
      simp only [jacRows, List.zipWith_cons_cons, List.map_cons, hf] at ih ⊢
      rw [ih cs (by simpa using hl)]

theorem gadd_comm (g h : List Rat) : gadd g h = gadd h g := by
  unfold gadd
  rw [List.zipWith_comm]
  exact zipWith_congr' h g (fun x y => by grind)

theorem matAdd_comm (m k : Mat) : matAddSub false m k = matAddSub false k m := by
  obtain ⟨mn, mr⟩ := m
  obtain ⟨kn, kr⟩ := k
  unfold matAddSub
  simp only
  by_cases h1 : mn = kn
  · subst h1
    by_cases h2 : mr.length = kr.length
    · simp only [ne_eq, not_true_eq_false, false_or, h2, Bool.false_eq_true, if_false]
      rw [List.zipWith_comm]
      congr 3
      exact zipWith_congr' kr mr (fun r s => gadd_comm s r)
    · have h2' : ¬ kr.length = mr.length := fun e => h2 e.symm
      simp [h2, h2']
  · have h1' : ¬ kn = mn := fun e => h1 e.symm
    simp [h1, h1']

theorem direct_wrap (deriv : Bool) (e : Env) (c : Raw) : direct deriv e c.wrap = .ok c.value := by
  cases c <;> rfl

end PorepyVerif.C02
