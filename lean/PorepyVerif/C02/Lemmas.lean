/-
C02 — helper lemmas: the parser's operand flips and AdArray's method decompositions agree with the
closed-form forward-mode rules (node level), previous md-variables (scatter / gather), and the
homomorphism from derivative=True results to derivative=False results.
-/
import PorepyVerif.C02.Model
namespace PorepyVerif.C02

variable {P : PowFns}

@[simp] theorem bind_ok {α β : Type} (x : α) (f : α → R β) : (Except.ok x >>= f) = f x := rfl
@[simp] theorem bind_err {α β : Type} (e : Err) (f : α → R β) : ((Except.error e : R α) >>= f) = Except.error e := rfl
@[simp] theorem pure_eq_ok {α : Type} (x : α) : (pure x : R α) = Except.ok x := rfl

theorem map_congr' {α β : Type} {f g : α → β} (l : List α) (h : ∀ x, f x = g x) : l.map f = l.map g := by
  have : f = g := funext h
  rw [this]

theorem zipWith_congr' {α β γ : Type} {f g : α → β → γ} (a : List α) (b : List β) (h : ∀ x y, f x y = g x y) :
    List.zipWith f a b = List.zipWith g a b := by
  have : f = g := funext fun x => funext (h x)
  rw [this]

theorem ipow_neg_one (c : Rat) : ipow c (-1) = c⁻¹ := by simp [ipow]
theorem ipow_neg_two (c : Rat) : ipow c (-2) = c⁻¹ * c⁻¹ := by
  simp [ipow]; grind

theorem gmap_mul_right (c : Rat) (g : List Rat) : g.map (· * c) = gscale c g := by
  unfold gscale; exact map_congr' g (fun x => by grind)
theorem gmap_div (c : Rat) (g : List Rat) : g.map (· / c) = gscale (1 / c) g := by
  unfold gscale; exact map_congr' g (fun x => by grind)
theorem gadd_gneg (g h : List Rat) : gadd g (gneg h) = gsub g h := by
  unfold gadd gneg gsub
  rw [List.zipWith_map_right]
  exact zipWith_congr' g h (fun x y => by grind)
theorem gscale_gscale (a b : Rat) (g : List Rat) : gscale a (gscale b g) = gscale (a * b) g := by
  unfold gscale; rw [List.map_map]; exact map_congr' g (fun x => by simp; grind)
theorem gscale_map_mul_right (b c : Rat) (g : List Rat) : (gscale b g).map (· * c) = gscale (b * c) g := by
  unfold gscale; rw [List.map_map]; exact map_congr' g (fun x => by simp; grind)

theorem num_neg_one_sub : ((-1 : Rat).num - 1) = -2 := by decide
theorem isInt_neg_one : isInt (-1) = true := by decide
theorem num_neg_one : (-1 : Rat).num = -1 := by decide

theorem any_not_powOk_neg_one (b : Ad) : b.any (fun u => !powOk P u.v (-1)) = hasZero (vals b) := by
  unfold hasZero vals
  rw [List.any_map]
  congr 1
  funext u
  simp [powOk, powEOk, powDOk, isInt_neg_one, num_neg_one]

theorem powErr_neg_one : powErr (-1) = .div0 := by simp [powErr, isInt_neg_one]

theorem expand_map (f : Rat → Rat) (n : Nat) (v : Vec) :
    expand n (v.map f) = (expand n v).map (List.map f) := by
  unfold expand
  simp only [List.length_map]
  split
  · rfl
  · cases v with
    | nil => rfl
    | cons c cs =>
      cases cs with
      | nil => simp
      | cons d ds => rfl



theorem ipow_num_neg_one (x : Rat) : powE P x (-1) = x⁻¹ := by
  simp only [powE, isInt_neg_one, if_true, num_neg_one]; exact ipow_neg_one x
theorem ipow_num_neg_one_sub (x : Rat) : powD P x (-1) = x⁻¹ * x⁻¹ := by
  simp only [powD, isInt_neg_one, if_true, num_neg_one_sub]; exact ipow_neg_two x

/-- AdArray on the left: the methods of forward_mode.py are the closed-form rules -/
theorem pyAd_eq_directAd (a : Ad) (op : Op) (r : Value) : pyAd P a op r = directAd P a op r := by
  cases r with
  | scalar c =>
    cases op
    · rfl
    · simp only [pyAd, adSub, pyNeg, bind_ok, adAdd, directAd]
      congr 2
      exact map_congr' a (fun u => by simp only [dSubC]; congr 1; grind)
    · simp only [pyAd, adMul, directAd]
      congr 2
      exact map_congr' a (fun u => by simp only [dMulC, gmap_mul_right])
    · simp only [pyAd, adTruediv, directAd]
      split
      · rfl
      · congr 2
        exact map_congr' a (fun u => by simp only [dDivC, gmap_div])
    · rfl
    · rfl
  | vec v =>
    cases op
    · rfl
    · simp only [pyAd, adSub, pyNeg, bind_ok, adAdd, directAd, bAV, expand_map]
      cases expand a.length v with
      | none => rfl
      | some w =>
        simp only [Option.map_some]
        congr 2
        rw [List.zipWith_map_right]
        exact zipWith_congr' a w (fun u c => by simp only [dSubC]; congr 1; grind)
    · rfl
    · simp only [pyAd, adTruediv, directAd, zipAV]
      split
      · rfl
      · split
        · rfl
        · congr 2
          exact zipWith_congr' a v (fun u c => by
            simp only [dDivC, ipow_neg_one]
            have : c⁻¹ = 1 / c := by grind
            rw [this]
            congr 1 <;> grind)
    · rfl
    · rfl
  | mat m => cases op <;> rfl
  | slicer s => cases op <;> rfl
  | slicers l => cases op <;> rfl
  | ad b =>
    cases op
    · rfl
    · simp only [pyAd, adSub, pyNeg, bind_ok, adAdd, directAd, zipAA, List.length_map]
      split
      · rfl
      · congr 2
        rw [List.zipWith_map_right]
        exact zipWith_congr' a b (fun u w => by
          simp only [dSub, dneg, gadd_gneg]; congr 1; grind)
    · rfl
    · simp only [pyAd, adTruediv, directAd, zipAA]
      split
      · rfl
      · rename_i h1
        simp only [adPow, any_not_powOk_neg_one, powErr_neg_one]
        split
        · rfl
        · simp only [bind_ok, adMul, List.length_map, h1, if_false]
          congr 2
          rw [List.zipWith_map_right]
          exact zipWith_congr' a b (fun u w => by
            simp only [dDiv, ipow_num_neg_one, ipow_num_neg_one_sub, gscale_gscale]
            have e1 : w.v⁻¹ = 1 / w.v := by grind
            have e2 : u.v * (-1 * (w.v⁻¹ * w.v⁻¹)) = -u.v / (w.v * w.v) := by grind
            rw [e2, ← e1]
            congr 1 <;> grind)
    · rfl
    · rfl



/-- number on the left of an AdArray: the reverse methods are the closed-form rules -/
theorem pyScalar_ad_eq (c : Rat) (a : Ad) (op : Op) : pyScalar P c op (.ad a) = directSA P c a op := by
  cases op
  · simp only [pyScalar, adAdd, directSA]
    congr 2
    exact map_congr' a (fun u => by simp only [dCAdd]; congr 1; grind)
  · simp only [pyScalar, adRsub, adSub, pyNeg, bind_ok, adAdd, directSA, List.map_map]
    congr 2
    exact map_congr' a (fun u => by simp only [Function.comp, dneg, dCSub]; congr 1; grind)
  · simp only [pyScalar, adRmul, adMul, directSA]
    congr 2
    exact map_congr' a (fun u => by simp only [dCMul, gmap_mul_right]; congr 1; grind)
  · simp only [pyScalar, adRtruediv, adPow, any_not_powOk_neg_one, powErr_neg_one, directSA]
    split
    · rfl
    · simp only [bind_ok, adMul, List.map_map]
      congr 2
      exact map_congr' a (fun u => by
        simp only [Function.comp, dCDiv, ipow_num_neg_one, ipow_num_neg_one_sub, gscale_map_mul_right]
        have e : -1 * (u.v⁻¹ * u.v⁻¹) * c = -c / (u.v * u.v) := by grind
        rw [e]
        congr 1 <;> grind)
  · rfl
  · rfl

/-- numpy array on the left of an AdArray: what the parser does instead of `ndarray ∘ AdArray` -/
theorem flip_add (N : Nat) (v : Vec) (a : Ad) : py P N .add (.ad a) (.vec v) = directVA P v a .add := by
  simp only [py, pyAd, adAdd, directVA, bAV]
  cases expand a.length v with
  | none => rfl
  | some w =>
    dsimp only
    congr 2
    exact zipWith_congr' a w (fun u c => by simp only [dCAdd]; congr 1; grind)

theorem flip_sub (N : Nat) (v : Vec) (a : Ad) :
    (py P N .sub (.ad a) (.vec v) >>= pyNeg) = directVA P v a .sub := by
  simp only [py, pyAd, adSub, pyNeg, bind_ok, adAdd, directVA, bAV, expand_map]
  cases expand a.length v with
  | none => rfl
  | some w =>
    simp only [Option.map_some, bind_ok, pyNeg]
    congr 2
    rw [List.zipWith_map_right, List.map_zipWith]
    exact zipWith_congr' a w (fun u c => by simp only [dneg, dCSub]; congr 1; grind)

theorem flip_mul (N : Nat) (v : Vec) (a : Ad) : py P N .mul (.ad a) (.vec v) = directVA P v a .mul := by
  simp only [py, pyAd, adMul, directVA, zipAV]
  split
  · rfl
  · congr 2
    exact zipWith_congr' a v (fun u c => by simp only [dCMul]; congr 1; grind)

theorem flip_div (v : Vec) (a : Ad) : adRtruediv P a (.vec v) = directVA P v a .div := by
  simp only [adRtruediv, adPow, any_not_powOk_neg_one, powErr_neg_one, directVA, zipAV]
  split
  · rfl
  · simp only [bind_ok, adMul, List.length_map]
    split
    · rfl
    · congr 2
      rw [List.zipWith_map_left]
      exact zipWith_congr' a v (fun u c => by
        simp only [dCDiv, ipow_num_neg_one, ipow_num_neg_one_sub, gscale_gscale]
        have e : c * (-1 * (u.v⁻¹ * u.v⁻¹)) = -c / (u.v * u.v) := by grind
        rw [e]
        congr 1 <;> grind)

theorem vec_scalar_add (v : Vec) (c : Rat) : v.map (c + ·) = v.map (· + c) :=
  map_congr' v (fun x => by grind)

theorem vec_scalar_sub (v : Vec) (c : Rat) : (v.map (c - ·)).map (- ·) = v.map (· - c) := by
  rw [List.map_map]; exact map_congr' v (fun x => by simp only [Function.comp]; grind)

theorem bvv_swap (v w : Vec) : bvv w v = (bvv v w).map Prod.swap := by
  rcases v with _ | ⟨c, _ | ⟨c2, cs⟩⟩ <;> rcases w with _ | ⟨d, _ | ⟨d2, ds⟩⟩ <;>
    simp [bvv, expand]
  by_cases h : cs.length = ds.length
  · have h' : ds.length = cs.length := h.symm
    simp [h]
  · have h' : ¬ ds.length = cs.length := fun e => h e.symm
    simp [h, h']

theorem vecBin_add_comm (v w : Vec) : vecBin (· + ·) w v = vecBin (· + ·) v w := by
  unfold vecBin
  rw [bvv_swap]
  cases bvv v w with
  | none => rfl
  | some p =>
    obtain ⟨x, y⟩ := p
    simp only [Option.map_some, Prod.swap]
    rw [List.zipWith_comm]
    congr 2
    exact zipWith_congr' x y (fun x y => by grind)

theorem vecBin_sub_flip (v w : Vec) : (vecBin (· - ·) w v >>= pyNeg) = vecBin (· - ·) v w := by
  unfold vecBin
  rw [bvv_swap]
  cases bvv v w with
  | none => rfl
  | some p =>
    obtain ⟨x, y⟩ := p
    simp only [Option.map_some, Prod.swap, bind_ok, pyNeg]
    rw [List.zipWith_comm, List.map_zipWith]
    congr 2
    exact zipWith_congr' x y (fun x y => by grind)

theorem parseBin_eq_directBin' (N : Nat) (op : Op) (l r : Value) :
    parseBin P N op l r = directBin P N op l r := by
  cases l with
  | ad a =>
    have h : directBin P N op (.ad a) r = directAd P a op r := by simp only [directBin]
    rw [h, ← pyAd_eq_directAd]
    cases op <;> cases r <;> rfl
  | scalar c =>
    cases r with
    | ad a =>
      have h : directBin P N op (.scalar c) (.ad a) = directSA P c a op := by simp only [directBin]
      rw [h, ← pyScalar_ad_eq]
      cases op <;> rfl
    | _ => cases op <;> rfl
  | vec v =>
    cases r with
    | ad a =>
      have h : directBin P N op (.vec v) (.ad a) = directVA P v a op := by simp only [directBin]
      rw [h]
      cases op
      · exact flip_add N v a
      · exact flip_sub N v a
      · exact flip_mul N v a
      · exact flip_div v a
      · rfl
      · rfl
    | scalar c =>
      cases op
      · simp only [parseBin, py, pyScalar, directBin, vec_scalar_add]
      · simp only [parseBin, py, pyScalar, directBin, bind_ok, pyNeg, vec_scalar_sub]
      all_goals rfl
    | vec w =>
      cases op
      · simp only [parseBin, py, pyVec, directBin, vecBin_add_comm]
      · simp only [parseBin, py, pyVec, directBin, vecBin_sub_flip]
      all_goals rfl
    | mat m => cases op <;> rfl
    | slicer s => cases op <;> rfl
    | slicers ps => cases op <;> rfl
  | mat m =>
    cases r with
    | ad a => cases op <;> rfl
    | _ => cases op <;> rfl
  | slicer s => cases r <;> cases op <;> rfl
  | slicers ps => cases r <;> cases op <;> rfl



/-! ### leaves: previous md-variable -/

theorem stored_length {e : Env} (h : EnvWF e) {t i : Int} {st : Vec} (hs : stored e t i = .ok st) :
    st.length = e.N := by
  unfold stored at hs
  split at hs
  · split at hs
    · rename_i v hv
      cases hs
      exact h.1 _ (List.mem_of_getElem? hv)
    · cases hs
  · split at hs
    · rename_i v hv
      cases hs
      exact h.2 _ (List.mem_of_getElem? hv)
    · cases hs

/-- `acc` agrees with `st` on the index set `S` (and has its length) -/
def Agree (st : Vec) (S : Nat → Prop) (acc : Vec) : Prop :=
  acc.length = st.length ∧ ∀ d, S d → acc.getD d 0 = st.getD d 0

theorem agree_set (st : Vec) (S : Nat → Prop) (acc : Vec) (d0 : Nat) (h : Agree st S acc) :
    Agree st (fun d => S d ∨ d = d0) (acc.set d0 (st.getD d0 0)) := by
  refine ⟨by simp [h.1], ?_⟩
  intro d hd
  by_cases hdd : d = d0
  · subst hdd
    by_cases hl : d < acc.length
    · simp [List.getD_eq_getElem?_getD, hl]
    · have hl' : ¬ d < st.length := by rw [← h.1]; exact hl
      simp [List.getD_eq_getElem?_getD, hl, hl']
  · have hS : S d := by rcases hd with h1 | h1; exact h1; exact absurd h1 hdd
    have := h.2 d hS
    simp only [List.getD_eq_getElem?_getD] at this ⊢
    rw [List.getElem?_set_ne (fun e => hdd e.symm)]
    exact this

theorem agree_scatter (st : Vec) (sub : List Nat) : ∀ (S : Nat → Prop) (acc : Vec), Agree st S acc →
    Agree st (fun d => S d ∨ d ∈ sub)
      ((List.zip sub (gather st sub)).foldl (fun a p => a.set p.1 p.2) acc) := by
  induction sub with
  | nil => intro S acc h; exact ⟨h.1, fun d hd => h.2 d (by simpa using hd)⟩
  | cons d0 ds ih =>
    intro S acc h
    simp only [gather, List.map_cons, List.zip_cons_cons, List.foldl_cons]
    have h1 := agree_set st S acc d0 h
    have h2 := ih _ _ h1
    refine ⟨h2.1, fun d hd => h2.2 d ?_⟩
    rcases hd with hd | hd
    · exact Or.inl (Or.inl hd)
    · rcases List.mem_cons.mp hd with hd | hd
      · exact Or.inl (Or.inr hd)
      · exact Or.inr hd

theorem mdPrev_agree (e : Env) (t i : Int) (st : Vec) (hs : stored e t i = .ok st) :
    ∀ (subs : List (List Nat)) (S : Nat → Prop) (acc : Vec), Agree st S acc →
    ∃ filled, mdPrev e t i subs acc = .ok filled ∧ Agree st (fun d => S d ∨ d ∈ subs.flatten) filled := by
  intro subs
  induction subs with
  | nil => intro S acc h; exact ⟨acc, rfl, h.1, fun d hd => h.2 d (by simpa using hd)⟩
  | cons sub rest ih =>
    intro S acc h
    simp only [mdPrev, hs, bind_ok]
    obtain ⟨filled, hf, ha⟩ := ih _ _ (agree_scatter st sub S acc h)
    refine ⟨filled, hf, ha.1, fun d hd => ha.2 d ?_⟩
    rcases hd with hd | hd
    · exact Or.inl (Or.inl hd)
    · rw [List.flatten_cons] at hd
      rcases List.mem_append.mp hd with hd | hd
      · exact Or.inl (Or.inr hd)
      · exact Or.inr hd

theorem mdPrev_err (e : Env) (t i : Int) (err : Err) (hs : stored e t i = .error err)
    (sub : List Nat) (rest : List (List Nat)) (acc : Vec) : mdPrev e t i (sub :: rest) acc = .error err := by
  simp only [mdPrev, hs, bind_err]

theorem parseLeaf_eq_directLeaf (deriv : Bool) (e : Env) (hwf : EnvWF e) (l : Leaf) :
    parseLeaf deriv e l = directLeaf deriv e l := by
  cases l with
  | var subs md t i =>
    simp only [parseLeaf, directLeaf]
    split
    · cases md with
      | false => simp
      | true =>
        cases subs with
        | nil => simp [mdPrev, gather]
        | cons sub rest =>
          simp only [if_true, Bool.true_and, List.isEmpty_cons, Bool.false_eq_true, if_false]
          cases hs : stored e t i with
          | error err => simp only [mdPrev_err e t i err hs, bind_err]
          | ok st =>
            have hlen := stored_length hwf hs
            obtain ⟨filled, hf, ha⟩ := mdPrev_agree e t i st hs (sub :: rest) (fun _ => False) (zeros e.N)
              ⟨by simp [zeros, hlen], fun d hd => hd.elim⟩
            simp only [hf, bind_ok, pure_eq_ok]
            congr 2
            unfold gather
            exact List.map_congr_left (fun d hd => ha.2 d (Or.inr hd))
    · rfl
  | scalar c => rfl
  | dense v => rfl
  | sparse m => rfl
  | proj s => rfl
  | td id t => rfl

theorem parse_eq_direct' (deriv : Bool) (e : Env) (hwf : EnvWF e) (t : OpTree) :
    parse deriv e t = direct deriv e t := by
  induction t with
  | leaf l => exact parseLeaf_eq_directLeaf deriv e hwf l
  | projList ps => rfl
  | bin op a b iha ihb =>
    simp only [parse, direct, iha, ihb]
    congr 1; funext x; congr 1; funext y
    exact parseBin_eq_directBin' _ _ _ _
  | func1 f a iha => simp only [parse, direct, iha]
  | func2 f a b iha ihb => simp only [parse, direct, iha, ihb]


/-! ### values without AdArray operands stay without AdArray -/

/-- a result that, when it is a value, is not an AdArray -/
def okNoAd (r : R Value) : Prop := ∀ z, r = .ok z → z.isAd = false

theorem okNoAd_err (e : Err) : okNoAd (.error e) := fun _ h => by cases h
theorem okNoAd_ok (v : Value) (h : v.isAd = false) : okNoAd (.ok v) := fun _ hz => by cases hz; exact h
theorem okNoAd_ite (c : Prop) [Decidable c] (a b : R Value) (ha : okNoAd a) (hb : okNoAd b) :
    okNoAd (if c then a else b) := by split <;> assumption
theorem okNoAd_bind {α : Type} (x : R α) (f : α → R Value) (hf : ∀ v, okNoAd (f v)) : okNoAd (x >>= f) := by
  cases x with
  | error e => exact okNoAd_err e
  | ok v => exact hf v

macro "noad" : tactic =>
  `(tactic| repeat (first
      | exact okNoAd_err _
      | exact okNoAd_ok _ rfl
      | apply okNoAd_ite
      | (apply okNoAd_bind; intro _)
      | assumption
      | split))

theorem noAd_pyScalar (c : Rat) (op : Op) (r : Value) (hr : r.isAd = false) : okNoAd (pyScalar P c op r) := by
  cases r <;> cases op <;> first | (simp only [pyScalar, matScale]; noad; done) | cases hr

theorem noAd_pyVec (v : Vec) (op : Op) (r : Value) (hr : r.isAd = false) : okNoAd (pyVec P v op r) := by
  cases r <;> cases op <;> first | (simp only [pyVec, vecBin]; noad; done) | cases hr

theorem noAd_pyMat (N : Nat) (m : Mat) (op : Op) (r : Value) (hr : r.isAd = false) : okNoAd (pyMat P N m op r) := by
  cases r <;> cases op <;> first | (simp only [pyMat, matScale, matVec, matMat, matAddSub]; noad; done) | cases hr

theorem noAd_slicerMatmul (N : Nat) (s : Slicer) (r : Value) (hr : r.isAd = false) : okNoAd (slicerMatmul N s r) := by
  cases r <;> first | (simp only [slicerMatmul, pure_eq_ok]; noad; done) | cases hr

theorem noAd_sumAdd (x y : Value) (hx : x.isAd = false) : okNoAd (sumAdd x y) := by
  cases x <;> cases y <;> first | (simp only [sumAdd, matAddSub]; noad; done) | cases hx

theorem noAd_foldlM (N : Nat) (x : Value) (rest : List Slicer) :
    ∀ acc : Value, acc.isAd = false →
      okNoAd (rest.foldlM (fun acc q => do let t ← slicerMatmul N q x; sumAdd acc t) acc) := by
  induction rest with
  | nil => intro acc h; exact okNoAd_ok _ h
  | cons q rest ih =>
    intro acc hacc
    simp only [List.foldlM_cons]
    intro z hz
    cases h1 : slicerMatmul N q x with
    | error e => simp [h1] at hz
    | ok t =>
      cases h2 : sumAdd acc t with
      | error e => simp [h1, h2] at hz
      | ok acc' =>
        simp only [h1, h2, bind_ok] at hz
        exact ih acc' (noAd_sumAdd acc t hacc _ h2) z hz

theorem noAd_sumSlicers (N : Nat) (ps : List Slicer) (x : Value) (hx : x.isAd = false) : okNoAd (sumSlicers N ps x) := by
  cases ps with
  | nil => exact okNoAd_ok _ rfl
  | cons p rest =>
    simp only [sumSlicers]
    intro z hz
    cases h1 : slicerMatmul N p x with
    | error e => simp [h1] at hz
    | ok first =>
      simp only [h1, bind_ok] at hz
      exact noAd_foldlM N x rest first (noAd_slicerMatmul N p x hx _ h1) z hz

theorem noAd_py (N : Nat) (op : Op) (l r : Value) (hl : l.isAd = false) (hr : r.isAd = false) :
    okNoAd (py P N op l r) := by
  cases l with
  | scalar c => exact noAd_pyScalar c op r hr
  | vec v => exact noAd_pyVec v op r hr
  | mat m => exact noAd_pyMat N m op r hr
  | ad a => cases hl
  | slicer s => cases op <;> first | exact okNoAd_err _ | exact noAd_slicerMatmul N s r hr
  | slicers ps => exact okNoAd_err _

theorem noAd_directBin (N : Nat) (op : Op) (l r : Value) (hl : l.isAd = false) (hr : r.isAd = false) :
    okNoAd (directBin P N op l r) := by
  cases l with
  | ad a => cases hl
  | slicers ps =>
    cases op <;> first | exact okNoAd_err _ | exact noAd_sumSlicers N ps r hr
  | scalar c => cases r <;> first | (simp only [directBin]; exact noAd_py N op _ _ rfl rfl) | cases hr
  | mat m => cases r <;> first | (simp only [directBin]; exact noAd_py N op _ _ rfl rfl) | cases hr
  | slicer s => cases r <;> first | (simp only [directBin]; exact noAd_py N op _ _ rfl rfl) | cases hr
  | vec v =>
    cases r with
    | ad a => cases hr
    | scalar c => cases op <;> first | exact okNoAd_ok _ rfl | (simp only [directBin]; exact noAd_py N _ (.vec v) (.scalar c) rfl rfl)
    | vec w => cases op <;> first | (simp only [directBin, vecBin]; noad; done) | (simp only [directBin]; exact noAd_py N _ (.vec v) (.vec w) rfl rfl)
    | mat m => cases op <;> first | exact okNoAd_err _ | (simp only [directBin]; exact noAd_py N _ (.vec v) (.mat m) rfl rfl)
    | slicer s => cases op <;> first | exact okNoAd_err _ | (simp only [directBin]; exact noAd_py N _ (.vec v) (.slicer s) rfl rfl)
    | slicers ps => exact okNoAd_err _



/-! ### derivative=True results map to derivative=False results -/

theorem strip_of_noAd (z : Value) (h : z.isAd = false) : strip z = z := by
  cases z <;> first | rfl | cases h

theorem mapM_ok {α β : Type} (f : α → R β) (g : α → β) (l : List α) (h : ∀ x ∈ l, f x = .ok (g x)) :
    l.mapM f = .ok (l.map g) := by
  induction l with
  | nil => rfl
  | cons x xs ih =>
    rw [List.mapM_cons, h x (List.mem_cons_self), bind_ok, ih (fun y hy => h y (List.mem_cons_of_mem _ hy))]
    rfl

theorem powEntry_ok (x c : Rat) (h : powEOk P x c = true) : powEntry P x c = .ok (powE P x c) := by
  simp only [powEntry, h, if_true]

theorem powEOk_of_powOk {x c : Rat} (h : powOk P x c = true) : powEOk P x c = true := by
  unfold powOk at h
  exact (Bool.and_eq_true_iff.mp h).1

theorem expand_length {n : Nat} {v w : Vec} (h : expand n v = some w) : w.length = n := by
  unfold expand at h
  split at h
  · rename_i hl; cases h; exact hl
  · split at h
    · cases h; simp
    · cases h

theorem expand_self (v : Vec) : expand v.length v = some v := by simp [expand]

theorem bvv_of_len {v w : Vec} (h : v.length = w.length) : bvv v w = some (v, w) := by
  simp [bvv, expand, h]

theorem bvv_of_expand_right {n : Nat} {x v w : Vec} (hx : x.length = n) (h : expand n v = some w) :
    bvv x v = some (x, w) := by
  simp [bvv, hx, h]

theorem bvv_of_expand_left {n : Nat} {y v w : Vec} (hy : y.length = n) (h : expand n v = some w) :
    bvv v y = some (w, y) := by
  by_cases hv : v.length = n
  · have : w = v := by
      unfold expand at h; simp only [hv, if_true] at h; cases h; rfl
    subst this
    exact bvv_of_len (by omega)
  · unfold expand at h
    simp only [hv, if_false] at h
    rcases v with _ | ⟨c, _ | ⟨c2, cs⟩⟩
    · cases h
    · simp only [Option.some.injEq] at h
      subst h
      rcases y with _ | ⟨d, _ | ⟨d2, ds⟩⟩
      · have hn : n = 0 := by simpa using hy.symm
        subst hn
        simp [bvv, expand]
      · simp at hy; subst hy; simp at hv
      · simp only [List.length_cons] at hy
        subst hy
        simp [bvv, expand]
    · cases h

theorem vecBin_of_len (f : Rat → Rat → Rat) {v w : Vec} (h : v.length = w.length) :
    vecBin f v w = .ok (.vec (List.zipWith f v w)) := by
  simp only [vecBin, bvv_of_len h]

theorem vals_zipWith_left (f : Dual → Rat → Dual) (g : Rat → Rat → Rat) (hf : ∀ u c, (f u c).v = g u.v c)
    (a : Ad) (w : Vec) : vals (List.zipWith f a w) = List.zipWith g (vals a) w := by
  simp only [vals, List.map_zipWith, List.zipWith_map_left, hf]

theorem vals_zipWith_swap (f : Dual → Rat → Dual) (g : Rat → Rat → Rat) (hf : ∀ u c, (f u c).v = g c u.v)
    (a : Ad) (w : Vec) : vals (List.zipWith f a w) = List.zipWith g w (vals a) := by
  simp only [vals, List.map_zipWith, hf]
  rw [List.zipWith_map_right, List.zipWith_comm]

theorem vals_zipWith_both (f : Dual → Dual → Dual) (g : Rat → Rat → Rat) (hf : ∀ u w, (f u w).v = g u.v w.v)
    (a b : Ad) : vals (List.zipWith f a b) = List.zipWith g (vals a) (vals b) := by
  simp only [vals, List.map_zipWith, List.zipWith_map_left, List.zipWith_map_right, hf]

theorem hom_ad_scalar (N : Nat) (a : Ad) (c : Rat) (op : Op) (z : Value)
    (h : directAd P a op (.scalar c) = .ok z) :
    directBin P N op (.vec (vals a)) (.scalar c) = .ok (strip z) := by
  cases op
  · simp only [directAd] at h; cases h
    simp [directBin, strip, vals, List.map_map, dAddC, Function.comp_def]
  · simp only [directAd] at h; cases h
    simp [directBin, strip, vals, List.map_map, dSubC, Function.comp_def]
  · simp only [directAd] at h; cases h
    simp [directBin, py, pyVec, strip, vals, List.map_map, dMulC, Function.comp_def]
  · simp only [directAd] at h
    split at h
    · cases h
    · rename_i hc
      cases h
      simp [directBin, py, pyVec, hc, strip, vals, List.map_map, dDivC, Function.comp_def]
  · simp only [directAd, dPowS] at h
    split at h
    · cases h
    · rename_i hok
      cases h
      have hok' : ∀ (x : Dual), x ∈ a → powOk P x.v c = true := by simpa using hok
      have hall : ∀ x ∈ vals a, powEntry P x c = .ok (powE P x c) := by
        intro x hx
        obtain ⟨u, hu, rfl⟩ := List.mem_map.mp hx
        exact powEntry_ok _ _ (powEOk_of_powOk (hok' u hu))
      simp only [directBin, py, pyVec, mapM_ok _ _ _ hall, bind_ok, pure_eq_ok, strip]
      simp [vals, List.map_map, dPowC, Function.comp_def]
  · simp only [directAd] at h; cases h

/-- entrywise powers of two equally long lists, when every entry is fine -/
theorem pow_pairs_ok : ∀ (x y : Vec), x.length = y.length →
    (List.zipWith (fun (p q : Rat) => !powEOk P p q) x y).any id = false →
    (List.zipWith (fun p q => (p, q)) x y).mapM (fun p => powEntry P p.1 p.2)
      = .ok (List.zipWith (powE P) x y) := by
  intro x
  induction x with
  | nil => intro y _ _; cases y <;> rfl
  | cons p ps ih =>
    intro y hl hp
    cases y with
    | nil => simp at hl
    | cons q qs =>
      simp only [List.any_cons, Bool.or_eq_false_iff, List.zipWith_cons_cons, id] at hp
      have hu : powEOk P p q = true := by simpa using hp.1
      have := ih qs (by simpa using hl) hp.2
      simp only [List.zipWith_cons_cons, List.mapM_cons, powEntry_ok _ _ hu, bind_ok, this]
      rfl

theorem any_zipWith_imp {α β : Type} (f g : α → β → Bool) (hfg : ∀ x y, g x y = true → f x y = true) :
    ∀ (a : List α) (b : List β), (List.zipWith f a b).any id = false → (List.zipWith g a b).any id = false := by
  intro a
  induction a with
  | nil => intro b _; rfl
  | cons x xs ih =>
    intro b h
    cases b with
    | nil => rfl
    | cons y ys =>
      simp only [List.zipWith_cons_cons, List.any_cons, Bool.or_eq_false_iff, id] at h ⊢
      refine ⟨?_, ih ys h.2⟩
      cases hg : g x y with
      | false => rfl
      | true => rw [hfg x y hg] at h; exact absurd h.1 (by simp)

theorem hom_ad_vec (N : Nat) (a : Ad) (w : Vec) (op : Op) (z : Value)
    (h : directAd P a op (.vec w) = .ok z) :
    directBin P N op (.vec (vals a)) (.vec w) = .ok (strip z) := by
  have hla : (vals a).length = a.length := by simp [vals]
  cases op
  · simp only [directAd, bAV] at h
    cases he : expand a.length w with
    | none => simp [he] at h
    | some w' =>
      simp only [he] at h; cases h
      simp only [directBin, vecBin, bvv_of_expand_right hla he, strip,
        vals_zipWith_left dAddC (· + ·) (fun _ _ => rfl)]
  · simp only [directAd, bAV] at h
    cases he : expand a.length w with
    | none => simp [he] at h
    | some w' =>
      simp only [he] at h; cases h
      simp only [directBin, vecBin, bvv_of_expand_right hla he, strip,
        vals_zipWith_left dSubC (· - ·) (fun _ _ => rfl)]
  · simp only [directAd, zipAV] at h
    split at h
    · cases h
    · rename_i hl; cases h
      have hl' : (vals a).length = w.length := by rw [hla]; simpa using hl
      simp only [directBin, py, pyVec, vecBin_of_len _ hl', strip,
        vals_zipWith_left dMulC (· * ·) (fun _ _ => rfl)]
  · simp only [directAd, zipAV] at h
    split at h
    · cases h
    · split at h
      · cases h
      · rename_i hl hz
        try simp only [hl, if_false] at h
        cases h
        have hl' : (vals a).length = w.length := by rw [hla]; simpa using hl
        simp only [directBin, py, pyVec, bvv_of_len hl', hz, Bool.false_eq_true, if_false, strip,
          vals_zipWith_left dDivC (· / ·) (fun _ _ => rfl)]
  · simp only [directAd, dPowV] at h
    cases he : expand a.length w with
    | none => simp [he] at h
    | some w' =>
      simp only [he] at h
      split at h
      · cases h
      · rename_i hp
        cases h
        have hl' : (vals a).length = w'.length := by rw [hla, expand_length he]
        have hp' : (List.zipWith (fun (p q : Rat) => !powEOk P p q) (vals a) w').any id = false := by
          have := any_zipWith_imp (fun (u : Dual) (c : Rat) => !powOk P u.v c) (fun (u : Dual) (c : Rat) => !powEOk P u.v c)
            (fun u c hg => by
              cases hk : powOk P u.v c with
              | false => rfl
              | true => rw [powEOk_of_powOk hk] at hg; simp at hg) a w' (by simpa using hp)
          simpa [vals, List.zipWith_map_left] using this
        simp only [directBin, py, pyVec, bvv_of_expand_right hla he, pow_pairs_ok _ _ hl' hp', bind_ok, pure_eq_ok, strip,
          vals_zipWith_left (dPowC P) (powE P) (fun _ _ => rfl)]
  · simp only [directAd] at h; cases h

theorem hom_ad_ad (N : Nat) (a b : Ad) (op : Op) (z : Value)
    (h : directAd P a op (.ad b) = .ok z) :
    directBin P N op (.vec (vals a)) (.vec (vals b)) = .ok (strip z) := by
  have hlen : ¬ a.length ≠ b.length → (vals a).length = (vals b).length := by
    intro hl; simp [vals]; omega
  cases op
  · simp only [directAd, zipAA] at h
    split at h
    · cases h
    · rename_i hl; cases h
      simp only [directBin, vecBin_of_len _ (hlen hl), strip, vals_zipWith_both dAdd (· + ·) (fun _ _ => rfl)]
  · simp only [directAd, zipAA] at h
    split at h
    · cases h
    · rename_i hl; cases h
      simp only [directBin, vecBin_of_len _ (hlen hl), strip, vals_zipWith_both dSub (· - ·) (fun _ _ => rfl)]
  · simp only [directAd, zipAA] at h
    split at h
    · cases h
    · rename_i hl; cases h
      simp only [directBin, py, pyVec, vecBin_of_len _ (hlen hl), strip, vals_zipWith_both dMul (· * ·) (fun _ _ => rfl)]
  · simp only [directAd, zipAA] at h
    split at h
    · cases h
    · split at h
      · cases h
      · rename_i hl hz
        try simp only [hl, if_false] at h
        cases h
        simp only [directBin, py, pyVec, bvv_of_len (hlen hl), hz, Bool.false_eq_true, if_false, strip,
          vals_zipWith_both dDiv (· / ·) (fun _ _ => rfl)]
  · simp only [directAd, dPowA] at h
    split at h
    · cases h
    · split at h
      · cases h
      · rename_i hl hp
        cases h
        have hp' : (List.zipWith (fun (p q : Rat) => !powEOk P p q) (vals a) (vals b)).any id = false := by
          have := any_zipWith_imp (fun (u w : Dual) => !(powOk P u.v w.v && P.logOk u.v)) (fun (u w : Dual) => !powEOk P u.v w.v)
            (fun u w hg => by
              cases hk : powOk P u.v w.v with
              | false => rfl
              | true => rw [powEOk_of_powOk hk] at hg; simp at hg) a b (by simpa using hp)
          simpa [vals, List.zipWith_map_left, List.zipWith_map_right] using this
        simp only [directBin, py, pyVec, bvv_of_len (hlen hl), pow_pairs_ok _ _ (hlen hl) hp', bind_ok, pure_eq_ok, strip,
          vals_zipWith_both (dPow P) (powE P) (fun _ _ => rfl)]
  · simp only [directAd] at h; cases h

theorem hom_scalar_ad (N : Nat) (c : Rat) (a : Ad) (op : Op) (z : Value)
    (h : directSA P c a op = .ok z) :
    directBin P N op (.scalar c) (.vec (vals a)) = .ok (strip z) := by
  cases op
  · simp only [directSA] at h; cases h
    simp [directBin, py, pyScalar, strip, vals, List.map_map, dCAdd, Function.comp_def]
  · simp only [directSA] at h; cases h
    simp [directBin, py, pyScalar, strip, vals, List.map_map, dCSub, Function.comp_def]
  · simp only [directSA] at h; cases h
    simp [directBin, py, pyScalar, strip, vals, List.map_map, dCMul, Function.comp_def]
  · simp only [directSA] at h
    split at h
    · cases h
    · rename_i hz; cases h
      have hz' : hasZero (List.map (fun x => x.v) a) = false := by simpa [vals] using hz
      simp [directBin, py, pyScalar, hz', strip, vals, List.map_map, dCDiv, Function.comp_def]
  · simp only [directSA, dCPowS] at h
    split at h
    · cases h
    · rename_i hok
      cases h
      have hok' : ∀ (x : Dual), x ∈ a → (powEOk P c x.v && P.logOk c) = true := by simpa using hok
      have hall : ∀ x ∈ vals a, powEntry P c x = .ok (powE P c x) := by
        intro x hx
        obtain ⟨u, hu, rfl⟩ := List.mem_map.mp hx
        exact powEntry_ok _ _ (Bool.and_eq_true_iff.mp (hok' u hu)).1
      simp only [directBin, py, pyScalar, mapM_ok _ _ _ hall, bind_ok, pure_eq_ok, strip]
      simp [vals, List.map_map, dCPow, Function.comp_def]
  · simp only [directSA] at h; cases h

theorem hom_vec_ad (N : Nat) (v : Vec) (a : Ad) (op : Op) (z : Value)
    (h : directVA P v a op = .ok z) :
    directBin P N op (.vec v) (.vec (vals a)) = .ok (strip z) := by
  have hla : (vals a).length = a.length := by simp [vals]
  cases op
  · simp only [directVA, bAV] at h
    cases he : expand a.length v with
    | none => simp [he] at h
    | some w' =>
      simp only [he] at h; cases h
      simp only [directBin, vecBin, bvv_of_expand_left hla he, strip,
        vals_zipWith_swap (fun u c => dCAdd c u) (· + ·) (fun _ _ => rfl)]
  · simp only [directVA, bAV] at h
    cases he : expand a.length v with
    | none => simp [he] at h
    | some w' =>
      simp only [he] at h; cases h
      simp only [directBin, vecBin, bvv_of_expand_left hla he, strip,
        vals_zipWith_swap (fun u c => dCSub c u) (· - ·) (fun _ _ => rfl)]
  · simp only [directVA, zipAV] at h
    split at h
    · cases h
    · rename_i hl; cases h
      have hl' : v.length = (vals a).length := by rw [hla]; omega
      simp only [directBin, py, pyVec, vecBin_of_len _ hl', strip,
        vals_zipWith_swap (fun u c => dCMul c u) (· * ·) (fun _ _ => rfl)]
  · simp only [directVA, zipAV] at h
    split at h
    · cases h
    · split at h
      · cases h
      · rename_i hz hl; cases h
        have hl' : v.length = (vals a).length := by rw [hla]; omega
        have hz' : hasZero (vals a) = false := by simpa using hz
        simp only [directBin, py, pyVec, bvv_of_len hl', hz', Bool.false_eq_true, if_false, strip,
          vals_zipWith_swap (fun u c => dCDiv c u) (· / ·) (fun _ _ => rfl)]
  · simp only [directVA, dCPowV] at h
    cases he : expand a.length v with
    | none => simp [he] at h
    | some w' =>
      simp only [he] at h
      split at h
      · cases h
      · rename_i hp
        cases h
        have hl' : w'.length = (vals a).length := by rw [hla, expand_length he]
        have hp' : (List.zipWith (fun (p q : Rat) => !powEOk P p q) w' (vals a)).any id = false := by
          have := any_zipWith_imp (fun (u : Dual) (c : Rat) => !(powEOk P c u.v && P.logOk c)) (fun (u : Dual) (c : Rat) => !powEOk P c u.v)
            (fun u c hg => by
              have hk : powEOk P c u.v = false := by simpa using hg
              simp [hk]) a w' (by simpa using hp)
          rw [List.zipWith_comm] at this
          simpa [vals, List.zipWith_map_right] using this
        simp only [directBin, py, pyVec, bvv_of_expand_left hla he, pow_pairs_ok _ _ hl' hp', bind_ok, pure_eq_ok, strip,
          vals_zipWith_swap (fun u c => dCPow P c u) (powE P) (fun _ _ => rfl)]
  · simp only [directVA] at h; cases h

theorem combo_v (N : Nat) (r : List Rat) (a : Ad) : (combo N r a).v = dot r (vals a) := by
  unfold combo dot vals
  suffices ∀ (acc : Dual) (s : Rat), acc.v = s →
      ((List.zipWith (fun (c : Rat) (u : Dual) => (c, u)) r a).foldl
        (fun acc p => (⟨acc.v + p.1 * p.2.v, gadd acc.g (gscale p.1 p.2.g)⟩ : Dual)) acc).v
      = (List.zipWith (· * ·) r (a.map (·.v))).foldl (· + ·) s from this _ _ rfl
  induction r generalizing a with
  | nil => intro acc s h; simpa using h
  | cons c cs ih =>
    intro acc s h
    cases a with
    | nil => simpa using h
    | cons u us =>
      simp only [List.zipWith_cons_cons, List.foldl_cons, List.map_cons]
      exact ih us _ _ (by simp [h])

theorem hom_mat_ad (N : Nat) (m : Mat) (a : Ad) (op : Op) (z : Value)
    (h : directBin P N op (.mat m) (.ad a) = .ok z) :
    directBin P N op (.mat m) (.vec (vals a)) = .ok (strip z) := by
  cases op
  all_goals try (simp only [directBin] at h; cases h)
  simp only [directBin, adRmatmul] at h
  split at h
  · cases h
  · rename_i hl; cases h
    have hl' : m.nc = (vals a).length := by simp [vals]; omega
    simp only [directBin, py, pyMat, matVec, hl', ne_eq, not_true_eq_false, if_false, strip, vals, List.map_map]
    congr 2
    exact map_congr' _ (fun r => (combo_v N r a).symm)



theorem scatterFrom_map {α β : Type} (f : α → β) (x : List α) :
    ∀ (d r : List Nat) (out : List α),
      scatterFrom (x.map f) d r (out.map f) = (scatterFrom x d r out).map (List.map f) := by
  intro d
  induction d with
  | nil =>
    intro r out
    cases r <;> rfl
  | cons d0 ds ih =>
    intro r out
    cases r with
    | nil => rfl
    | cons r0 rs =>
      simp only [scatterFrom, List.getElem?_map, List.length_map]
      cases hx : x[d0]? with
      | none => rfl
      | some e =>
        simp only [Option.map_some]
        split
        · rw [← ih rs (out.set r0 e), List.map_set]
        · rfl

theorem hom_slicerMatmul (N : Nat) (s : Slicer) (x t : Value) (h : slicerMatmul N s x = .ok t) :
    slicerMatmul N s (strip x) = .ok (strip t) := by
  cases x with
  | ad a =>
    simp only [slicerMatmul] at h
    cases ho : scatterFrom a s.dom s.rng (List.replicate s.rsize ⟨0, zeros N⟩) with
    | error e => simp [ho] at h
    | ok o =>
      simp only [ho, bind_ok, pure_eq_ok] at h
      cases h
      have := scatterFrom_map (fun u : Dual => u.v) a s.dom s.rng (List.replicate s.rsize ⟨0, zeros N⟩)
      simp only [List.map_replicate, ho] at this
      simp only [strip, slicerMatmul, vals, zeros, this]
      rfl
  | scalar c => rw [strip_of_noAd _ (noAd_slicerMatmul N s _ rfl t h)]; exact h
  | vec v => rw [strip_of_noAd _ (noAd_slicerMatmul N s _ rfl t h)]; exact h
  | mat m => rw [strip_of_noAd _ (noAd_slicerMatmul N s _ rfl t h)]; exact h
  | slicer s' => rw [strip_of_noAd _ (noAd_slicerMatmul N s _ rfl t h)]; exact h
  | slicers l => rw [strip_of_noAd _ (noAd_slicerMatmul N s _ rfl t h)]; exact h

theorem hom_sumAdd (p q z : Value) (h : sumAdd p q = .ok z) : sumAdd (strip p) (strip q) = .ok (strip z) := by
  cases p <;> cases q
  all_goals try (simp only [sumAdd] at h; cases h; done)
  · -- vec, vec
    rw [strip_of_noAd _ (noAd_sumAdd _ _ rfl z h)]; exact h
  · rw [strip_of_noAd _ (noAd_sumAdd _ _ rfl z h)]; exact h
  · -- ad, ad
    rename_i a b
    simp only [sumAdd, adAdd] at h
    split at h
    · cases h
    · rename_i hl; cases h
      simp [strip, sumAdd, vals, hl, List.map_zipWith, List.zipWith_map_left, List.zipWith_map_right]

theorem hom_foldlM (N : Nat) (x : Value) (rest : List Slicer) : ∀ (acc z : Value),
    rest.foldlM (fun acc q => do let t ← slicerMatmul N q x; sumAdd acc t) acc = .ok z →
    rest.foldlM (fun acc q => do let t ← slicerMatmul N q (strip x); sumAdd acc t) (strip acc) = .ok (strip z) := by
  induction rest with
  | nil => intro acc z h; simp only [List.foldlM_nil, pure_eq_ok] at h ⊢; cases h; rfl
  | cons q rest ih =>
    intro acc z h
    simp only [List.foldlM_cons] at h ⊢
    cases h1 : slicerMatmul N q x with
    | error e => simp [h1] at h
    | ok t =>
      cases h2 : sumAdd acc t with
      | error e => simp [h1, h2] at h
      | ok acc' =>
        simp only [h1, h2, bind_ok] at h
        simp only [hom_slicerMatmul N q x t h1, hom_sumAdd acc t acc' h2, bind_ok]
        exact ih acc' z h

theorem hom_sumSlicers (N : Nat) (ps : List Slicer) (x z : Value) (h : sumSlicers N ps x = .ok z) :
    sumSlicers N ps (strip x) = .ok (strip z) := by
  cases ps with
  | nil => simp only [sumSlicers] at h ⊢; cases h; rfl
  | cons p rest =>
    simp only [sumSlicers] at h ⊢
    cases h1 : slicerMatmul N p x with
    | error e => simp [h1] at h
    | ok first =>
      simp only [h1, bind_ok] at h
      simp only [hom_slicerMatmul N p x first h1, bind_ok]
      exact hom_foldlM N x rest first z h

/-- forgetting the Jacobians of the operands forgets the Jacobian of the result -/
theorem directBin_strip (N : Nat) (op : Op) (x y z : Value) (h : directBin P N op x y = .ok z) :
    directBin P N op (strip x) (strip y) = .ok (strip z) := by
  cases x with
  | ad a =>
    have h' : directAd P a op y = .ok z := by simpa only [directBin] using h
    cases y with
    | scalar c => exact hom_ad_scalar N a c op z h'
    | vec w => exact hom_ad_vec N a w op z h'
    | ad b => exact hom_ad_ad N a b op z h'
    | mat m => simp only [directAd] at h'; cases h'
    | slicer s => cases op <;> (simp only [directAd] at h'; cases h')
    | slicers l => cases op <;> (simp only [directAd] at h'; cases h')
  | scalar c =>
    cases y with
    | ad a => exact hom_scalar_ad N c a op z (by simpa only [directBin] using h)
    | _ => rw [strip_of_noAd _ (noAd_directBin N op _ _ rfl rfl z h)]; exact h
  | vec v =>
    cases y with
    | ad a => exact hom_vec_ad N v a op z (by simpa only [directBin] using h)
    | _ => rw [strip_of_noAd _ (noAd_directBin N op _ _ rfl rfl z h)]; exact h
  | mat m =>
    cases y with
    | ad a => exact hom_mat_ad N m a op z h
    | _ => rw [strip_of_noAd _ (noAd_directBin N op _ _ rfl rfl z h)]; exact h
  | slicer s =>
    cases y with
    | ad a =>
      cases op
      all_goals try (simp only [directBin, py] at h; cases h; done)
      simp only [directBin, py] at h ⊢
      exact hom_slicerMatmul N s _ z h
    | _ => rw [strip_of_noAd _ (noAd_directBin N op _ _ rfl rfl z h)]; exact h
  | slicers ps =>
    cases op
    all_goals try (simp only [directBin] at h; cases h; done)
    simp only [directBin] at h
    have := hom_sumSlicers N ps y z h
    simpa only [directBin, strip] using this


/-! ### trees: derivative=True results map to derivative=False results -/

theorem strip_idem_scalar (c : Rat) : strip (.scalar c) = .scalar c := rfl

theorem hom_feval (N : Nat) (f : FExpr) : ∀ (x y z : Value), f.eval P N x y = .ok z →
    f.eval P N (strip x) (strip y) = .ok (strip z) := by
  induction f with
  | x => intro x y z h; simp only [FExpr.eval] at h ⊢; cases h; rfl
  | y => intro x y z h; simp only [FExpr.eval] at h ⊢; cases h; rfl
  | const c => intro x y z h; simp only [FExpr.eval] at h ⊢; cases h; rfl
  | add a b iha ihb =>
    intro x y z h
    simp only [FExpr.eval] at h ⊢
    cases h1 : a.eval P N x y with
    | error e => simp [h1] at h
    | ok p =>
      cases h2 : b.eval P N x y with
      | error e => simp [h1, h2] at h
      | ok q =>
        simp only [h1, h2, bind_ok] at h
        simp only [iha x y p h1, ihb x y q h2, bind_ok]
        exact directBin_strip N _ p q z h
  | sub a b iha ihb =>
    intro x y z h
    simp only [FExpr.eval] at h ⊢
    cases h1 : a.eval P N x y with
    | error e => simp [h1] at h
    | ok p =>
      cases h2 : b.eval P N x y with
      | error e => simp [h1, h2] at h
      | ok q =>
        simp only [h1, h2, bind_ok] at h
        simp only [iha x y p h1, ihb x y q h2, bind_ok]
        exact directBin_strip N _ p q z h
  | mul a b iha ihb =>
    intro x y z h
    simp only [FExpr.eval] at h ⊢
    cases h1 : a.eval P N x y with
    | error e => simp [h1] at h
    | ok p =>
      cases h2 : b.eval P N x y with
      | error e => simp [h1, h2] at h
      | ok q =>
        simp only [h1, h2, bind_ok] at h
        simp only [iha x y p h1, ihb x y q h2, bind_ok]
        exact directBin_strip N _ p q z h

theorem vals_adRows (state : Vec) (idx : List Nat) : vals (adRows state idx) = gather state idx := by
  simp [vals, adRows, gather, List.map_map, Function.comp_def]

theorem hom_parseLeaf (e : Env) (l : Leaf) (z : Value) (h : parseLeaf true e l = .ok z) :
    parseLeaf false e l = .ok (strip z) := by
  cases l with
  | var subs md t i =>
    simp only [parseLeaf] at h ⊢
    split
    · rename_i hp
      simp only [hp, if_true] at h
      cases md with
      | true =>
        simp only [if_true] at h ⊢
        cases hm : mdPrev e t i subs (zeros e.N) with
        | error er => simp [hm] at h
        | ok filled => simp only [hm, bind_ok, pure_eq_ok] at h ⊢; cases h; rfl
      | false =>
        simp only [Bool.false_eq_true, if_false] at h ⊢
        cases hm : stored e t i with
        | error er => simp [hm] at h
        | ok st => simp only [hm, bind_ok, pure_eq_ok] at h ⊢; cases h; rfl
    · rename_i hp
      simp only [hp, if_false, if_true] at h
      cases h
      simp only [Bool.false_eq_true, if_false, strip, vals_adRows]
  | scalar c => simp only [parseLeaf] at h ⊢; cases h; rfl
  | dense v => simp only [parseLeaf] at h ⊢; cases h; rfl
  | sparse m => simp only [parseLeaf] at h ⊢; cases h; rfl
  | proj s => simp only [parseLeaf] at h ⊢; cases h; rfl
  | td id t =>
    simp only [parseLeaf] at h ⊢
    split <;> rename_i hp <;> simp only [hp, if_true, if_false] at h
    · split <;> rename_i hq <;> simp only [hq] at h
      · split <;> rename_i hr <;> simp only [hr] at h
        · cases h; rfl
        · cases h
      · cases h
    · split <;> rename_i hq <;> simp only [hq] at h
      · cases h; rfl
      · cases h


/-! ### helpers for the statements about previous values and reverse operations -/

theorem noAd_feval (N : Nat) (f : FExpr) (x y : Value) (hx : x.isAd = false) (hy : y.isAd = false) :
    okNoAd (f.eval P N x y) := by
  induction f with
  | x => exact okNoAd_ok _ hx
  | y => exact okNoAd_ok _ hy
  | const c => exact okNoAd_ok _ rfl
  | add a b iha ihb =>
    intro z h
    simp only [FExpr.eval] at h
    cases h1 : a.eval P N x y with
    | error er => simp [h1] at h
    | ok p =>
      cases h2 : b.eval P N x y with
      | error er => simp [h1, h2] at h
      | ok q =>
        simp only [h1, h2, bind_ok] at h
        exact noAd_directBin N _ p q (iha p h1) (ihb q h2) z h
  | sub a b iha ihb =>
    intro z h
    simp only [FExpr.eval] at h
    cases h1 : a.eval P N x y with
    | error er => simp [h1] at h
    | ok p =>
      cases h2 : b.eval P N x y with
      | error er => simp [h1, h2] at h
      | ok q =>
        simp only [h1, h2, bind_ok] at h
        exact noAd_directBin N _ p q (iha p h1) (ihb q h2) z h
  | mul a b iha ihb =>
    intro z h
    simp only [FExpr.eval] at h
    cases h1 : a.eval P N x y with
    | error er => simp [h1] at h
    | ok p =>
      cases h2 : b.eval P N x y with
      | error er => simp [h1, h2] at h
      | ok q =>
        simp only [h1, h2, bind_ok] at h
        exact noAd_directBin N _ p q (iha p h1) (ihb q h2) z h

theorem strip_isAd (x : Value) : (strip x).isAd = false := by cases x <;> rfl
theorem strip_strip (x : Value) : strip (strip x) = strip x := by cases x <;> rfl

theorem wrapErr_ok {r : R Value} {z : Value}
    (h : (match r with | .ok v => (.ok v : R Value) | .error e => .error (funcErr e)) = .ok z) : r = .ok z := by
  cases r with
  | error e => cases h
  | ok v => exact h

theorem vals_zipWith_mk : ∀ (w : Vec) (rows : List (List Rat)), w.length = rows.length →
    vals (List.zipWith (fun c g => (⟨c, g⟩ : Dual)) w rows) = w := by
  intro w
  induction w with
  | nil => intro rows _; rfl
  | cons c cs ih =>
    intro rows hl
    cases rows with
    | nil => simp at hl
    | cons g gs =>
      simp only [vals, List.zipWith_cons_cons, List.map_cons] at ih ⊢
      rw [ih gs (by simpa using hl)]

/-- a DiagonalJacobianFunction returns, up to the Jacobian, its values on the plain arguments -/
theorem applyDiag_spec (N : Nat) (f : FExpr) (m1 : Rat) (m2 : Option Rat) (x y z : Value)
    (h : applyDiag P N f m1 m2 x y = .ok z) :
    f.eval P N (strip x) (strip y) = .ok (strip z) ∧ (x.isAd = false → y.isAd = false → z.isAd = false) := by
  unfold applyDiag at h
  cases hv : f.eval P N (strip x) (strip y) with
  | error e => simp [hv] at h
  | ok v =>
    have hnv := noAd_feval N f (strip x) (strip y) (strip_isAd x) (strip_isAd y) v hv
    simp only [hv, bind_ok] at h
    split at h
    · simp only [pure_eq_ok] at h
      cases h
      exact ⟨by rw [strip_of_noAd _ hnv], fun _ _ => hnv⟩
    · rename_i hany
      cases hj : diagJac m1 m2 x y with
      | error e => simp [hj] at h
      | ok rows =>
        simp only [hj, bind_ok] at h
        refine ⟨?_, fun hx hy => by simp [hx, hy] at hany⟩
        cases v with
        | vec w =>
          simp only [mkDiag] at h
          split at h
          · cases h
          · rename_i hl
            cases h
            simp only [strip, vals_zipWith_mk w rows (by simpa using hl)]
        | scalar c => simp [mkDiag] at h
        | mat m => simp [mkDiag] at h
        | slicer sl => simp [mkDiag] at h
        | slicers l => simp [mkDiag] at h
        | ad a => simp [mkDiag] at h

theorem noAd_applyFunc (N : Nat) (F : Func) (x y : Value) (hx : x.isAd = false) (hy : y.isAd = false) :
    okNoAd (applyFunc P N F x y) := by
  intro z h
  unfold applyFunc at h
  have h' := wrapErr_ok h
  cases F with
  | poly f => exact noAd_feval N f x y hx hy z h'
  | diag f m1 m2 => exact (applyDiag_spec N f m1 m2 x y z h').2 hx hy

theorem hom_applyFunc (N : Nat) (F : Func) (x y z : Value) (h : applyFunc P N F x y = .ok z) :
    applyFunc P N F (strip x) (strip y) = .ok (strip z) := by
  unfold applyFunc at h ⊢
  have h' := wrapErr_ok h
  cases F with
  | poly f => simp only [hom_feval N f x y z h']
  | diag f m1 m2 =>
    have hs := (applyDiag_spec N f m1 m2 x y z h').1
    simp only [applyDiag, strip_strip, hs, bind_ok, strip_isAd, Bool.or_self, Bool.not_false, if_true, pure_eq_ok]

theorem noAd_parseLeaf_false (e : Env) (l : Leaf) : okNoAd (parseLeaf false e l) := by
  cases l with
  | var subs md t i => simp only [parseLeaf, Bool.false_eq_true, if_false, pure_eq_ok]; noad
  | td id t =>
    simp only [parseLeaf]
    repeat (first | exact okNoAd_err _ | exact okNoAd_ok _ rfl | apply okNoAd_ite | split)
  | scalar c => exact okNoAd_ok _ rfl
  | dense v => exact okNoAd_ok _ rfl
  | sparse m => exact okNoAd_ok _ rfl
  | proj s => exact okNoAd_ok _ rfl

/-- Without derivatives no AdArray ever appears. -/
theorem noAd_parse_false (e : Env) (t : OpTree) : okNoAd (parse false e t) := by
  induction t with
  | leaf l => exact noAd_parseLeaf_false e l
  | projList ps => intro z h; simp only [parse] at h; cases h; rfl
  | bin op a b iha ihb =>
    intro z h
    simp only [parse] at h
    cases h1 : parse false e a with
    | error er => simp [h1] at h
    | ok x =>
      cases h2 : parse false e b with
      | error er => simp [h1, h2] at h
      | ok y =>
        simp only [h1, h2, bind_ok, parseBin_eq_directBin'] at h
        exact noAd_directBin e.N op x y (iha x h1) (ihb y h2) z h
  | func1 f a iha =>
    intro z h
    simp only [parse] at h
    cases h1 : parse false e a with
    | error er => simp [h1] at h
    | ok x =>
      simp only [h1, bind_ok] at h
      exact noAd_applyFunc e.N f x x (iha x h1) (iha x h1) z h
  | func2 f a b iha ihb =>
    intro z h
    simp only [parse] at h
    cases h1 : parse false e a with
    | error er => simp [h1] at h
    | ok x =>
      cases h2 : parse false e b with
      | error er => simp [h1, h2] at h
      | ok y =>
        simp only [h1, h2, bind_ok] at h
        exact noAd_applyFunc e.N f x y (iha x h1) (ihb y h2) z h

theorem jacRows_zipWith_left (f : Dual → Rat → Dual) (hf : ∀ u c, (f u c).g = u.g) :
    ∀ (a : Ad) (v : Vec), a.length = v.length → jacRows (List.zipWith f a v) = jacRows a := by
  intro a
  induction a with
  | nil => intro v _; rfl
  | cons u us ih =>
    intro v hl
    cases v with
    | nil => simp at hl
    | cons c cs =>
      simp only [jacRows, List.zipWith_cons_cons, List.map_cons, hf] at ih ⊢
      rw [ih cs (by simpa using hl)]

theorem gadd_comm (g h : List Rat) : gadd g h = gadd h g := by
  unfold gadd
  rw [List.zipWith_comm]
  exact zipWith_congr' h g (fun x y => by grind)

theorem matAdd_comm (m k : Mat) : matAddSub false m k = matAddSub false k m := by
  obtain ⟨mn, mr⟩ := m
  obtain ⟨kn, kr⟩ := k
  unfold matAddSub
  simp only
  by_cases h1 : mn = kn
  · subst h1
    by_cases h2 : mr.length = kr.length
    · simp only [ne_eq, not_true_eq_false, false_or, h2, Bool.false_eq_true, if_false]
      rw [List.zipWith_comm]
      congr 3
      exact zipWith_congr' kr mr (fun r s => gadd_comm s r)
    · have h2' : ¬ kr.length = mr.length := fun e => h2 e.symm
      simp [h2, h2']
  · have h1' : ¬ kn = mn := fun e => h1 e.symm
    simp [h1, h1']

theorem direct_wrap (deriv : Bool) (e : Env) (c : Raw) : direct deriv e c.wrap = .ok c.value := by
  cases c <;> rfl


/-! ### the parser's cache, lists of operators -/

theorem cacheGet_mem {c : Cache} {l : Leaf} {v : Value} (h : cacheGet c l = some v) : (l, v) ∈ c := by
  induction c with
  | nil => cases h
  | cons p rest ih =>
    obtain ⟨k, w⟩ := p
    simp only [cacheGet] at h
    split at h
    · rename_i hk; cases h; subst hk; exact List.mem_cons_self
    · exact List.mem_cons_of_mem _ (ih h)

/-- the cache is transparent: with a sound cache, the cached parser returns what the plain parser
    returns (value or error) and leaves a sound cache -/
theorem parseC_spec (deriv : Bool) (e : Env) (t : OpTree) : ∀ c, CacheOk deriv e c →
    (∀ v, parse deriv e t = .ok v → ∃ c', parseC deriv e t c = .ok (v, c') ∧ CacheOk deriv e c') ∧
    (∀ er, parse deriv e t = .error er → parseC deriv e t c = .error er) := by
  induction t with
  | leaf l =>
    intro c hc
    simp only [parse, parseC]
    by_cases hl : l.cached = true
    · simp only [hl, if_true]
      cases hg : cacheGet c l with
      | some w =>
        have hw := hc _ (cacheGet_mem hg)
        simp only at hw
        constructor
        · intro v hv; rw [hw] at hv; cases hv; exact ⟨c, rfl, hc⟩
        · intro er her; rw [hw] at her; cases her
      | none =>
        constructor
        · intro v hv
          refine ⟨(l, v) :: c, by simp [hv], ?_⟩
          intro p hp
          rcases List.mem_cons.mp hp with rfl | hp
          · exact hv
          · exact hc p hp
        · intro er her; simp [her]
    · simp only [hl, Bool.false_eq_true, if_false]
      constructor
      · intro v hv; exact ⟨c, by simp [hv], hc⟩
      · intro er her; simp [her]
  | projList ps =>
    intro c hc
    constructor
    · intro v hv; simp only [parse] at hv; cases hv; exact ⟨c, rfl, hc⟩
    · intro er her; simp only [parse] at her; cases her
  | bin op a b iha ihb =>
    intro c hc
    simp only [parse, parseC]
    cases ha : parse deriv e a with
    | error ea =>
      simp only [(iha c hc).2 ea ha, bind_err]
      exact ⟨fun v hv => (by cases hv), fun er her => (by cases her; rfl)⟩
    | ok x =>
      obtain ⟨c1, h1, hc1⟩ := (iha c hc).1 x ha
      simp only [h1, bind_ok]
      cases hb : parse deriv e b with
      | error eb =>
        simp only [(ihb c1 hc1).2 eb hb, bind_err]
        exact ⟨fun v hv => (by cases hv), fun er her => (by cases her; rfl)⟩
      | ok y =>
        obtain ⟨c2, h2, hc2⟩ := (ihb c1 hc1).1 y hb
        simp only [h2, bind_ok]
        cases hz : parseBin e.P e.N op x y with
        | error ez => exact ⟨fun v hv => (by cases hv), fun er her => (by cases her; rfl)⟩
        | ok z => exact ⟨fun v hv => (by cases hv; exact ⟨c2, rfl, hc2⟩), fun er her => (by cases her)⟩
  | func1 f a iha =>
    intro c hc
    simp only [parse, parseC]
    cases ha : parse deriv e a with
    | error ea =>
      simp only [(iha c hc).2 ea ha, bind_err]
      exact ⟨fun v hv => (by cases hv), fun er her => (by cases her; rfl)⟩
    | ok x =>
      obtain ⟨c1, h1, hc1⟩ := (iha c hc).1 x ha
      simp only [h1, bind_ok]
      cases hz : applyFunc e.P e.N f x x with
      | error ez => exact ⟨fun v hv => (by cases hv), fun er her => (by cases her; rfl)⟩
      | ok z => exact ⟨fun v hv => (by cases hv; exact ⟨c1, rfl, hc1⟩), fun er her => (by cases her)⟩
  | func2 f a b iha ihb =>
    intro c hc
    simp only [parse, parseC]
    cases ha : parse deriv e a with
    | error ea =>
      simp only [(iha c hc).2 ea ha, bind_err]
      exact ⟨fun v hv => (by cases hv), fun er her => (by cases her; rfl)⟩
    | ok x =>
      obtain ⟨c1, h1, hc1⟩ := (iha c hc).1 x ha
      simp only [h1, bind_ok]
      cases hb : parse deriv e b with
      | error eb =>
        simp only [(ihb c1 hc1).2 eb hb, bind_err]
        exact ⟨fun v hv => (by cases hv), fun er her => (by cases her; rfl)⟩
      | ok y =>
        obtain ⟨c2, h2, hc2⟩ := (ihb c1 hc1).1 y hb
        simp only [h2, bind_ok]
        cases hz : applyFunc e.P e.N f x y with
        | error ez => exact ⟨fun v hv => (by cases hv), fun er her => (by cases her; rfl)⟩
        | ok z => exact ⟨fun v hv => (by cases hv; exact ⟨c2, rfl, hc2⟩), fun er her => (by cases her)⟩

theorem parseListC_eq (deriv : Bool) (e : Env) (ts : List OpTree) : ∀ c, CacheOk deriv e c →
    parseListC deriv e ts c = ts.mapM (parse deriv e) := by
  induction ts with
  | nil => intro c _; rfl
  | cons t ts ih =>
    intro c hc
    simp only [parseListC, List.mapM_cons]
    cases ht : parse deriv e t with
    | error er => simp only [(parseC_spec deriv e t c hc).2 er ht, bind_err]
    | ok v =>
      obtain ⟨c1, h1, hc1⟩ := (parseC_spec deriv e t c hc).1 v ht
      simp only [h1, bind_ok, ih c1 hc1]

/-- `mapM f` followed by `mapM g` succeeds exactly when `mapM (f then g)` does, with the same result -/
theorem mapM_comp_ok {α β γ : Type} (f : α → R β) (g : β → R γ) (ts : List α) : ∀ vs : List γ,
    ((ts.mapM f >>= fun xs => xs.mapM g) = .ok vs) ↔ (ts.mapM (fun t => f t >>= g) = .ok vs) := by
  induction ts with
  | nil => intro vs; simp [List.mapM_nil]
  | cons t ts ih =>
    intro vs
    simp only [List.mapM_cons]
    cases hf : f t with
    | error er => simp
    | ok x =>
      simp only [bind_ok]
      cases hm : ts.mapM f with
      | error er =>
        have hno : ∀ ws, ts.mapM (fun t => f t >>= g) ≠ .ok ws := by
          intro ws hws
          have := (ih ws).2 hws
          simp [hm] at this
        cases hg : g x with
        | error eg => simp
        | ok y =>
          simp only [bind_err, bind_ok]
          cases hr : ts.mapM (fun t => f t >>= g) with
          | error e2 => simp
          | ok ws => exact absurd hr (hno ws)
      | ok xs =>
        simp only [bind_ok, pure_eq_ok, List.mapM_cons]
        cases hg : g x with
        | error eg => simp
        | ok y =>
          simp only [bind_ok]
          have ih' := ih
          simp only [hm, bind_ok] at ih'
          cases hx : xs.mapM g with
          | error e1 =>
            cases hr : ts.mapM (fun t => f t >>= g) with
            | error e2 => simp
            | ok ws => have := (ih' ws).2 hr; simp [hx] at this
          | ok ys =>
            have := (ih' ys).1 hx
            simp [this]


/-! ### index invariants of built trees, decidable well-formedness, entry points -/

theorem envWFb_iff (e : Env) : envWFb e = true ↔ EnvWF e := by
  simp [envWFb, EnvWF, List.all_eq_true]

theorem shiftTime_indexOk (steps : Nat) (t : OpTree) : ∀ t', t.indexOk = true → shiftTime steps t = .ok t' →
    t'.indexOk = true := by
  induction t with
  | leaf l =>
    intro t' hok h
    cases l with
    | var subs md ti ii =>
      simp only [shiftTime] at h
      split at h
      · cases h
      · split at h
        · cases h
        · cases h
          simp only [OpTree.indexOk, Bool.and_eq_true, decide_eq_true_eq] at hok ⊢
          omega
    | scalar c => simp only [shiftTime] at h; cases h; rfl
    | dense v => simp only [shiftTime] at h; cases h; rfl
    | sparse m => simp only [shiftTime] at h; cases h; rfl
    | proj s => simp only [shiftTime] at h; cases h; rfl
    | td id tt => simp only [shiftTime] at h; split at h <;> cases h; rfl
  | projList ps => intro t' _ h; simp only [shiftTime] at h; cases h; rfl
  | bin op a b iha ihb =>
    intro t' hok h
    simp only [OpTree.indexOk, Bool.and_eq_true] at hok
    simp only [shiftTime] at h
    cases h1 : shiftTime steps a with
    | error er => simp [h1] at h
    | ok a' =>
      cases h2 : shiftTime steps b with
      | error er => simp [h1, h2] at h
      | ok b' =>
        simp only [h1, h2, bind_ok, pure_eq_ok] at h
        cases h
        simp only [OpTree.indexOk, iha a' hok.1 h1, ihb b' hok.2 h2, Bool.and_self]
  | func1 f a iha =>
    intro t' hok h
    simp only [OpTree.indexOk] at hok
    simp only [shiftTime] at h
    cases h1 : shiftTime steps a with
    | error er => simp [h1] at h
    | ok a' =>
      simp only [h1, bind_ok, pure_eq_ok] at h
      cases h
      simp only [OpTree.indexOk, iha a' hok h1]
  | func2 f a b iha ihb =>
    intro t' hok h
    simp only [OpTree.indexOk, Bool.and_eq_true] at hok
    simp only [shiftTime] at h
    cases h1 : shiftTime steps a with
    | error er => simp [h1] at h
    | ok a' =>
      cases h2 : shiftTime steps b with
      | error er => simp [h1, h2] at h
      | ok b' =>
        simp only [h1, h2, bind_ok, pure_eq_ok] at h
        cases h
        simp only [OpTree.indexOk, iha a' hok.1 h1, ihb b' hok.2 h2, Bool.and_self]

theorem shiftIter_indexOk (steps : Nat) (t : OpTree) : ∀ t', t.indexOk = true → shiftIter steps t = .ok t' →
    t'.indexOk = true := by
  induction t with
  | leaf l =>
    intro t' hok h
    cases l with
    | var subs md ti ii =>
      simp only [shiftIter] at h
      split at h
      · cases h
      · split at h
        · cases h
        · cases h
          simp only [OpTree.indexOk, Bool.and_eq_true, decide_eq_true_eq] at hok ⊢
          omega
    | scalar c => simp only [shiftIter] at h; cases h; rfl
    | dense v => simp only [shiftIter] at h; cases h; rfl
    | sparse m => simp only [shiftIter] at h; cases h; rfl
    | proj s => simp only [shiftIter] at h; cases h; rfl
    | td id tt => simp only [shiftIter] at h; cases h; rfl
  | projList ps => intro t' _ h; simp only [shiftIter] at h; cases h; rfl
  | bin op a b iha ihb =>
    intro t' hok h
    simp only [OpTree.indexOk, Bool.and_eq_true] at hok
    simp only [shiftIter] at h
    cases h1 : shiftIter steps a with
    | error er => simp [h1] at h
    | ok a' =>
      cases h2 : shiftIter steps b with
      | error er => simp [h1, h2] at h
      | ok b' =>
        simp only [h1, h2, bind_ok, pure_eq_ok] at h
        cases h
        simp only [OpTree.indexOk, iha a' hok.1 h1, ihb b' hok.2 h2, Bool.and_self]
  | func1 f a iha =>
    intro t' hok h
    simp only [OpTree.indexOk] at hok
    simp only [shiftIter] at h
    cases h1 : shiftIter steps a with
    | error er => simp [h1] at h
    | ok a' =>
      simp only [h1, bind_ok, pure_eq_ok] at h
      cases h
      simp only [OpTree.indexOk, iha a' hok h1]
  | func2 f a b iha ihb =>
    intro t' hok h
    simp only [OpTree.indexOk, Bool.and_eq_true] at hok
    simp only [shiftIter] at h
    cases h1 : shiftIter steps a with
    | error er => simp [h1] at h
    | ok a' =>
      cases h2 : shiftIter steps b with
      | error er => simp [h1, h2] at h
      | ok b' =>
        simp only [h1, h2, bind_ok, pure_eq_ok] at h
        cases h
        simp only [OpTree.indexOk, iha a' hok.1 h1, ihb b' hok.2 h2, Bool.and_self]

theorem wrap_indexOk (r : Raw) : r.wrap.indexOk = true := by cases r <;> rfl

theorem negTree_indexOk (t : OpTree) (h : t.indexOk = true) : (negTree t).indexOk = true := by
  unfold negTree
  split <;> first | rfl | simp [OpTree.indexOk, h]

theorem build_indexOk' (p : PyExpr) : ∀ b, p.leavesOk = true → build p = .ok b → b.indexOk = true := by
  induction p with
  | tree t => intro b h hb; simp only [build] at hb; cases hb; exact h
  | raw r => intro b _ hb; simp only [build] at hb; cases hb; rfl
  | bin op x y ihx ihy =>
    intro b h hb
    simp only [PyExpr.leavesOk, Bool.and_eq_true] at h
    simp only [build] at hb
    cases hx : build x with
    | error er => simp [hx] at hb
    | ok bx =>
      cases hy : build y with
      | error er => simp [hx, hy] at hb
      | ok by' =>
        have ox := ihx bx h.1 hx
        have oy := ihy by' h.2 hy
        simp only [hx, hy, bind_ok] at hb
        cases bx with
        | tree s =>
          cases by' with
          | tree t =>
            simp only [mkNode] at hb
            split at hb
            · cases hb
            · simp only [bind_ok, pure_eq_ok] at hb; cases hb
              simp only [Built.indexOk, OpTree.indexOk] at ox oy ⊢
              simp [ox, oy]
          | raw r =>
            simp only [pure_eq_ok] at hb; cases hb
            simp only [Built.indexOk, OpTree.indexOk] at ox ⊢
            simp [ox, wrap_indexOk]
        | raw r =>
          cases by' with
          | tree t =>
            simp only [Built.indexOk] at oy
            cases op <;> simp only [mkReverse] at hb
            all_goals first
              | (simp only [bind_ok, pure_eq_ok] at hb; cases hb; simp [Built.indexOk, OpTree.indexOk, oy, wrap_indexOk])
              | (cases r <;> simp only [bind_ok, bind_err, pure_eq_ok] at hb <;> first | (cases hb; done) | (cases hb; simp [Built.indexOk, OpTree.indexOk, oy, wrap_indexOk]))
          | raw r2 => cases hb
  | neg x ih =>
    intro b h hb
    simp only [build] at hb
    cases hx : build x with
    | error er => simp [hx] at hb
    | ok bx =>
      have ox := ih bx h hx
      simp only [hx, bind_ok] at hb
      cases bx with
      | tree t => simp only [pure_eq_ok] at hb; cases hb; exact negTree_indexOk t ox
      | raw r => cases hb
  | prevTime steps x ih =>
    intro b h hb
    simp only [build] at hb
    cases hx : build x with
    | error er => simp [hx] at hb
    | ok bx =>
      have ox := ih bx h hx
      simp only [hx, bind_ok] at hb
      cases bx with
      | tree t =>
        cases hs : shiftTime steps t with
        | error er => simp [hs] at hb
        | ok s => simp only [hs, bind_ok, pure_eq_ok] at hb; cases hb; exact shiftTime_indexOk steps t s ox hs
      | raw r => cases hb
  | prevIter steps x ih =>
    intro b h hb
    simp only [build] at hb
    cases hx : build x with
    | error er => simp [hx] at hb
    | ok bx =>
      have ox := ih bx h hx
      simp only [hx, bind_ok] at hb
      cases bx with
      | tree t =>
        cases hs : shiftIter steps t with
        | error er => simp [hs] at hb
        | ok s => simp only [hs, bind_ok, pure_eq_ok] at hb; cases hb; exact shiftIter_indexOk steps t s ox hs
      | raw r => cases hb
  | call1 f x ih =>
    intro b h hb
    simp only [build] at hb
    cases hx : build x with
    | error er => simp [hx] at hb
    | ok bx =>
      have ox := ih bx h hx
      simp only [hx, bind_ok] at hb
      cases bx with
      | tree t => simp only [pure_eq_ok] at hb; cases hb; exact ox
      | raw r => cases hb
  | call2 f x y ihx ihy =>
    intro b h hb
    simp only [PyExpr.leavesOk, Bool.and_eq_true] at h
    simp only [build] at hb
    cases hx : build x with
    | error er => simp [hx] at hb
    | ok bx =>
      cases hy : build y with
      | error er => simp [hx, hy] at hb
      | ok by' =>
        have ox := ihx bx h.1 hx
        have oy := ihy by' h.2 hy
        simp only [hx, hy, bind_ok] at hb
        cases bx <;> cases by' <;> simp only [pure_eq_ok] at hb <;> first | (cases hb; done) | skip
        cases hb
        simp only [Built.indexOk, OpTree.indexOk] at ox oy ⊢
        simp [ox, oy]

theorem finish_idem (N : Nat) (v w : Value) (h : finish N true v = .ok w) : finish N true w = .ok w := by
  cases v <;> simp only [finish, if_true] at h <;> first | (cases h; rfl) | cases h

end PorepyVerif.C02
