/-
C02 — helper lemmas: the parser's operand flips and AdArray's method decompositions agree with the
closed-form forward-mode rules (node level), previous md-variables (scatter / gather), and the
homomorphism from derivative=True results to derivative=False results.
-/
import PorepyVerif.C02.Model
namespace PorepyVerif.C02

@[simp] theorem bind_ok {α β : Type} (x : α) (f : α → R β) : (Except.ok x >>= f) = f x := rfl
@[simp] theorem bind_err {α β : Type} (e : Err) (f : α → R β) : ((Except.error e : R α) >>= f) = Except.error e := rfl
@[simp] theorem pure_eq_ok {α : Type} (x : α) : (pure x : R α) = Except.ok x := rfl

theorem map_congr' {α β : Type} {f g : α → β} (l : List α) (h : ∀ x, f x = g x) : l.map f = l.map g := by
  have : f = g := funext h
  rw [this]

theorem zipWith_congr' {α β γ : Type} {f g : α → β → γ} (a : List α) (b : List β) (h : ∀ x y, f x y = g x y) :
    List.zipWith f a b = List.zipWith g a b := by
  have : f = g := funext fun x => funext (h x)
  rw [this]

theorem ipow_neg_one (c : Rat) : ipow c (-1) = c⁻¹ := by simp [ipow]
theorem ipow_neg_two (c : Rat) : ipow c (-2) = c⁻¹ * c⁻¹ := by
  simp [ipow]; grind

theorem gmap_mul_right (c : Rat) (g : List Rat) : g.map (· * c) = gscale c g := by
  unfold gscale; exact map_congr' g (fun x => by grind)
theorem gmap_div (c : Rat) (g : List Rat) : g.map (· / c) = gscale (1 / c) g := by
  unfold gscale; exact map_congr' g (fun x => by grind)
theorem gadd_gneg (g h : List Rat) : gadd g (gneg h) = gsub g h := by
  unfold gadd gneg gsub
  rw [List.zipWith_map_right]
  exact zipWith_congr' g h (fun x y => by grind)
theorem gscale_gscale (a b : Rat) (g : List Rat) : gscale a (gscale b g) = gscale (a * b) g := by
  unfold gscale; rw [List.map_map]; exact map_congr' g (fun x => by simp; grind)
theorem gscale_map_mul_right (b c : Rat) (g : List Rat) : (gscale b g).map (· * c) = gscale (b * c) g := by
  unfold gscale; rw [List.map_map]; exact map_congr' g (fun x => by simp; grind)

theorem any_not_powOk_neg_one (b : Ad) : b.any (fun u => !powOk u.v (-1 : Rat).num) = hasZero (vals b) := by
  unfold hasZero vals
  rw [List.any_map]
  congr 1
  funext u
  simp [powOk]



theorem num_neg_one_sub : ((-1 : Rat).num - 1) = -2 := by decide
theorem isInt_neg_one : isInt (-1) = true := by decide
theorem num_neg_one : (-1 : Rat).num = -1 := by decide
theorem ipow_num_neg_one (x : Rat) : ipow x (-1 : Rat).num = x⁻¹ := by
  rw [num_neg_one]; exact ipow_neg_one x
theorem ipow_num_neg_one_sub (x : Rat) : ipow x ((-1 : Rat).num - 1) = x⁻¹ * x⁻¹ := by
  rw [num_neg_one_sub]; exact ipow_neg_two x

/-- AdArray on the left: the methods of forward_mode.py are the closed-form rules -/
theorem pyAd_eq_directAd (a : Ad) (op : Op) (r : Value) : pyAd a op r = directAd a op r := by
  cases r with
  | scalar c =>
    cases op
    · rfl
    · simp only [pyAd, adSub, pyNeg, bind_ok, adAdd, directAd]
      congr 2
      exact map_congr' a (fun u => by simp only [dSubC]; congr 1; grind)
    · simp only [pyAd, adMul, directAd]
      congr 2
      exact map_congr' a (fun u => by simp only [dMulC, gmap_mul_right])
    · simp only [pyAd, adTruediv, directAd]
      split
      · rfl
      · congr 2
        exact map_congr' a (fun u => by simp only [dDivC, gmap_div])
    · rfl
    · rfl
  | vec v =>
    cases op
    · rfl
    · simp only [pyAd, adSub, pyNeg, bind_ok, adAdd, directAd, zipAV, List.length_map]
      split
      · rfl
      · congr 2
        rw [List.zipWith_map_right]
        exact zipWith_congr' a v (fun u c => by simp only [dSubC]; congr 1; grind)
    · rfl
    · simp only [pyAd, adTruediv, directAd, zipAV]
      split
      · rfl
      · split
        · rfl
        · congr 2
          exact zipWith_congr' a v (fun u c => by
            simp only [dDivC, ipow_neg_one]
            have : c⁻¹ = 1 / c := by grind
            rw [this]
            congr 1 <;> grind)
    · rfl
    · rfl
  | mat m => cases op <;> rfl
  | slicer s => cases op <;> rfl
  | slicers l => cases op <;> rfl
  | ad b =>
    cases op
    · rfl
    · simp only [pyAd, adSub, pyNeg, bind_ok, adAdd, directAd, zipAA, List.length_map]
      split
      · rfl
      · congr 2
        rw [List.zipWith_map_right]
        exact zipWith_congr' a b (fun u w => by
          simp only [dSub, dneg, gadd_gneg]; congr 1; grind)
    · rfl
    · simp only [pyAd, adTruediv, directAd, zipAA]
      split
      · rfl
      · rename_i h1
        simp only [adPow, isInt_neg_one, any_not_powOk_neg_one]
        simp only [Bool.not_true, Bool.false_eq_true, if_false]
        split
        · rfl
        · simp only [bind_ok, adMul, List.length_map, h1, if_false]
          congr 2
          rw [List.zipWith_map_right]
          exact zipWith_congr' a b (fun u w => by
            simp only [dDiv, ipow_num_neg_one, ipow_num_neg_one_sub, gscale_gscale]
            have e1 : w.v⁻¹ = 1 / w.v := by grind
            have e2 : u.v * (-1 * (w.v⁻¹ * w.v⁻¹)) = -u.v / (w.v * w.v) := by grind
            rw [e2, ← e1]
            congr 1 <;> grind)
    · rfl
    · rfl



/-- number on the left of an AdArray: the reverse methods are the closed-form rules -/
theorem pyScalar_ad_eq (c : Rat) (a : Ad) (op : Op) : pyScalar c op (.ad a) = directSA c a op := by
  cases op
  · simp only [pyScalar, adAdd, directSA]
    congr 2
    exact map_congr' a (fun u => by simp only [dCAdd]; congr 1; grind)
  · simp only [pyScalar, adRsub, adSub, pyNeg, bind_ok, adAdd, directSA, List.map_map]
    congr 2
    exact map_congr' a (fun u => by simp only [Function.comp, dneg, dCSub]; congr 1; grind)
  · simp only [pyScalar, adRmul, adMul, directSA]
    congr 2
    exact map_congr' a (fun u => by simp only [dCMul, gmap_mul_right]; congr 1; grind)
  · simp only [pyScalar, adRtruediv, adPow, isInt_neg_one, any_not_powOk_neg_one, directSA]
    simp only [Bool.not_true, Bool.false_eq_true, if_false]
    split
    · rfl
    · simp only [bind_ok, adMul, List.map_map]
      congr 2
      exact map_congr' a (fun u => by
        simp only [Function.comp, dCDiv, ipow_num_neg_one, ipow_num_neg_one_sub, gscale_map_mul_right]
        have e : -1 * (u.v⁻¹ * u.v⁻¹) * c = -c / (u.v * u.v) := by grind
        rw [e]
        congr 1 <;> grind)
  · rfl
  · rfl

/-- numpy array on the left of an AdArray: what the parser does instead of `ndarray ∘ AdArray` -/
theorem flip_add (N : Nat) (v : Vec) (a : Ad) : py N .add (.ad a) (.vec v) = directVA v a .add := by
  simp only [py, pyAd, adAdd, directVA, zipAV]
  split
  · rfl
  · congr 2
    exact zipWith_congr' a v (fun u c => by simp only [dCAdd]; congr 1; grind)

theorem flip_sub (N : Nat) (v : Vec) (a : Ad) :
    (py N .sub (.ad a) (.vec v) >>= pyNeg) = directVA v a .sub := by
  simp only [py, pyAd, adSub, pyNeg, bind_ok, adAdd, directVA, zipAV, List.length_map]
  split
  · rfl
  · simp only [bind_ok, pyNeg]
    congr 2
    rw [List.zipWith_map_right, List.map_zipWith]
    exact zipWith_congr' a v (fun u c => by simp only [dneg, dCSub]; congr 1; grind)

theorem flip_mul (N : Nat) (v : Vec) (a : Ad) : py N .mul (.ad a) (.vec v) = directVA v a .mul := by
  simp only [py, pyAd, adMul, directVA, zipAV]
  split
  · rfl
  · congr 2
    exact zipWith_congr' a v (fun u c => by simp only [dCMul]; congr 1; grind)

theorem flip_div (v : Vec) (a : Ad) : adRtruediv a (.vec v) = directVA v a .div := by
  simp only [adRtruediv, adPow, isInt_neg_one, any_not_powOk_neg_one, directVA, zipAV]
  simp only [Bool.not_true, Bool.false_eq_true, if_false]
  split
  · rfl
  · simp only [bind_ok, adMul, List.length_map]
    split
    · rfl
    · congr 2
      rw [List.zipWith_map_left]
      exact zipWith_congr' a v (fun u c => by
        simp only [dCDiv, ipow_num_neg_one, ipow_num_neg_one_sub, gscale_gscale]
        have e : c * (-1 * (u.v⁻¹ * u.v⁻¹)) = -c / (u.v * u.v) := by grind
        rw [e]
        congr 1 <;> grind)

theorem vec_scalar_add (v : Vec) (c : Rat) : v.map (c + ·) = v.map (· + c) :=
  map_congr' v (fun x => by grind)

theorem vec_scalar_sub (v : Vec) (c : Rat) : (v.map (c - ·)).map (- ·) = v.map (· - c) := by
  rw [List.map_map]; exact map_congr' v (fun x => by simp only [Function.comp]; grind)

theorem vecBin_add_comm (v w : Vec) : vecBin (· + ·) w v = vecBin (· + ·) v w := by
  unfold vecBin
  by_cases h : v.length = w.length
  · simp only [h, ne_eq, not_true_eq_false, if_false]
    rw [List.zipWith_comm]
    congr 2
    exact zipWith_congr' v w (fun x y => by grind)
  · have h' : ¬ w.length = v.length := fun e => h e.symm
    simp [h, h']

theorem vecBin_sub_flip (v w : Vec) : (vecBin (· - ·) w v >>= pyNeg) = vecBin (· - ·) v w := by
  unfold vecBin
  by_cases h : v.length = w.length
  · simp only [h, ne_eq, not_true_eq_false, if_false, bind_ok, pyNeg]
    rw [List.zipWith_comm, List.map_zipWith]
    congr 2
    exact zipWith_congr' v w (fun x y => by grind)
  · have h' : ¬ w.length = v.length := fun e => h e.symm
    simp [h, h']



theorem parseBin_eq_directBin' (N : Nat) (op : Op) (l r : Value) :
    parseBin N op l r = directBin N op l r := by
  cases l with
  | ad a =>
    have h : directBin N op (.ad a) r = directAd a op r := by simp only [directBin]
    rw [h, ← pyAd_eq_directAd]
    cases op <;> cases r <;> rfl
  | scalar c =>
    cases r with
    | ad a =>
      have h : directBin N op (.scalar c) (.ad a) = directSA c a op := by simp only [directBin]
      rw [h, ← pyScalar_ad_eq]
      cases op <;> rfl
    | _ => cases op <;> rfl
  | vec v =>
    cases r with
    | ad a =>
      have h : directBin N op (.vec v) (.ad a) = directVA v a op := by simp only [directBin]
      rw [h]
      cases op
      · exact flip_add N v a
      · exact flip_sub N v a
      · exact flip_mul N v a
      · exact flip_div v a
      · rfl
      · rfl
    | scalar c =>
      cases op
      · simp only [parseBin, py, pyScalar, directBin, vec_scalar_add]
      · simp only [parseBin, py, pyScalar, directBin, bind_ok, pyNeg, vec_scalar_sub]
      all_goals rfl
    | vec w =>
      cases op
      · simp only [parseBin, py, pyVec, directBin, vecBin_add_comm]
      · simp only [parseBin, py, pyVec, directBin, vecBin_sub_flip]
      all_goals rfl
    | mat m => cases op <;> rfl
    | slicer s => cases op <;> rfl
    | slicers ps => cases op <;> rfl
  | mat m =>
    cases r with
    | ad a => cases op <;> rfl
    | _ => cases op <;> rfl
  | slicer s => cases r <;> cases op <;> rfl
  | slicers ps => cases r <;> cases op <;> rfl



/-! ### leaves: previous md-variable -/

/-- stored global vectors have the length of the state vector -/
def EnvWF (e : Env) : Prop :=
  (∀ v ∈ e.timeVals, v.length = e.N) ∧ (∀ v ∈ e.iterVals, v.length = e.N)

theorem stored_length {e : Env} (h : EnvWF e) {t i : Int} {st : Vec} (hs : stored e t i = .ok st) :
    st.length = e.N := by
  unfold stored at hs
  split at hs
  · split at hs
    · rename_i v hv
      cases hs
      exact h.1 _ (List.mem_of_getElem? hv)
    · cases hs
  · split at hs
    · rename_i v hv
      cases hs
      exact h.2 _ (List.mem_of_getElem? hv)
    · cases hs

/-- `acc` agrees with `st` on the index set `S` (and has its length) -/
def Agree (st : Vec) (S : Nat → Prop) (acc : Vec) : Prop :=
  acc.length = st.length ∧ ∀ d, S d → acc.getD d 0 = st.getD d 0

theorem agree_set (st : Vec) (S : Nat → Prop) (acc : Vec) (d0 : Nat) (h : Agree st S acc) :
    Agree st (fun d => S d ∨ d = d0) (acc.set d0 (st.getD d0 0)) := by
  refine ⟨by simp [h.1], ?_⟩
  intro d hd
  by_cases hdd : d = d0
  · subst hdd
    by_cases hl : d < acc.length
    · simp [List.getD_eq_getElem?_getD, hl]
    · have hl' : ¬ d < st.length := by rw [← h.1]; exact hl
      simp [List.getD_eq_getElem?_getD, hl, hl']
  · have hS : S d := by rcases hd with h1 | h1; exact h1; exact absurd h1 hdd
    have := h.2 d hS
    simp only [List.getD_eq_getElem?_getD] at this ⊢
    rw [List.getElem?_set_ne (fun e => hdd e.symm)]
    exact this

theorem agree_scatter (st : Vec) (sub : List Nat) : ∀ (S : Nat → Prop) (acc : Vec), Agree st S acc →
    Agree st (fun d => S d ∨ d ∈ sub)
      ((List.zip sub (gather st sub)).foldl (fun a p => a.set p.1 p.2) acc) := by
  induction sub with
  | nil => intro S acc h; exact ⟨h.1, fun d hd => h.2 d (by simpa using hd)⟩
  | cons d0 ds ih =>
    intro S acc h
    simp only [gather, List.map_cons, List.zip_cons_cons, List.foldl_cons]
    have h1 := agree_set st S acc d0 h
    have h2 := ih _ _ h1
    refine ⟨h2.1, fun d hd => h2.2 d ?_⟩
    rcases hd with hd | hd
    · exact Or.inl (Or.inl hd)
    · rcases List.mem_cons.mp hd with hd | hd
      · exact Or.inl (Or.inr hd)
      · exact Or.inr hd

theorem mdPrev_agree (e : Env) (t i : Int) (st : Vec) (hs : stored e t i = .ok st) :
    ∀ (subs : List (List Nat)) (S : Nat → Prop) (acc : Vec), Agree st S acc →
    ∃ filled, mdPrev e t i subs acc = .ok filled ∧ Agree st (fun d => S d ∨ d ∈ subs.flatten) filled := by
  intro subs
  induction subs with
  | nil => intro S acc h; exact ⟨acc, rfl, h.1, fun d hd => h.2 d (by simpa using hd)⟩
  | cons sub rest ih =>
    intro S acc h
    simp only [mdPrev, hs, bind_ok]
    obtain ⟨filled, hf, ha⟩ := ih _ _ (agree_scatter st sub S acc h)
    refine ⟨filled, hf, ha.1, fun d hd => ha.2 d ?_⟩
    rcases hd with hd | hd
    · exact Or.inl (Or.inl hd)
    · rw [List.flatten_cons] at hd
      rcases List.mem_append.mp hd with hd | hd
      · exact Or.inl (Or.inr hd)
      · exact Or.inr hd

theorem mdPrev_err (e : Env) (t i : Int) (err : Err) (hs : stored e t i = .error err)
    (sub : List Nat) (rest : List (List Nat)) (acc : Vec) : mdPrev e t i (sub :: rest) acc = .error err := by
  simp only [mdPrev, hs, bind_err]

theorem parseLeaf_eq_directLeaf (deriv : Bool) (e : Env) (hwf : EnvWF e) (l : Leaf) :
    parseLeaf deriv e l = directLeaf deriv e l := by
  cases l with
  | var subs md t i =>
    simp only [parseLeaf, directLeaf]
    split
    · cases md with
      | false => simp
      | true =>
        cases subs with
        | nil => simp [mdPrev, gather]
        | cons sub rest =>
          simp only [if_true, Bool.true_and, List.isEmpty_cons, Bool.false_eq_true, if_false]
          cases hs : stored e t i with
          | error err => simp only [mdPrev_err e t i err hs, bind_err]
          | ok st =>
            have hlen := stored_length hwf hs
            obtain ⟨filled, hf, ha⟩ := mdPrev_agree e t i st hs (sub :: rest) (fun _ => False) (zeros e.N)
              ⟨by simp [zeros, hlen], fun d hd => hd.elim⟩
            simp only [hf, bind_ok, pure_eq_ok]
            congr 2
            unfold gather
            exact List.map_congr_left (fun d hd => ha.2 d (Or.inr hd))
    · rfl
  | scalar c => rfl
  | dense v => rfl
  | sparse m => rfl
  | proj s => rfl
  | td id t => rfl

theorem parse_eq_direct' (deriv : Bool) (e : Env) (hwf : EnvWF e) (t : OpTree) :
    parse deriv e t = direct deriv e t := by
  induction t with
  | leaf l => exact parseLeaf_eq_directLeaf deriv e hwf l
  | projList ps => rfl
  | bin op a b iha ihb =>
    simp only [parse, direct, iha, ihb]
    congr 1; funext x; congr 1; funext y
    exact parseBin_eq_directBin' _ _ _ _
  | func1 f a iha => simp only [parse, direct, iha]
  | func2 f a b iha ihb => simp only [parse, direct, iha, ihb]

end PorepyVerif.C02
