/-
C02 — executable model of the AD operator-tree interpreter (core Lean only).

Modelled code (pmgbergen/porepy, `src/porepy/numerics/ad`):
* `_ad_parser.py`  `AdParser.evaluate` / `_evaluate_single`  →  `evaluate`, `parse`, `parseBin`
  (the operand flips for ndarray-left operands, the `ProjectionList` special case, the
  `evaluate` nodes, the final wrapping into an AdArray);
* `forward_mode.py` `AdArray.__add__ … __rmatmul__` → `adAdd … adRmatmul` (method by method, with the
  decompositions used there: `a-b = a+(-b)`, `b-a = -(a-b)`, `a/b = a*b**(-1)`, `c/a = a**(-1)*c`);
* python's dispatch of `l ∘ r` on the parsed values (float, 1-d ndarray, scipy sparse matrix,
  ArraySlicer, list of slicers, AdArray) → `py`;
* `operators.py`  the overloads `Operator.__add__ … __rmatmul__`, `_parse_other`, `__neg__`,
  `previous_timestep` / `previous_iteration` (`_get_previous_time_or_iterate`), function calls → `build`,
  `shiftTime`, `shiftIter`;
* leaves: `Variable`, `MixedDimensionalVariable` (current / previous time / previous iterate), `Scalar`,
  `DenseArray`, `SparseArray`, `Projection`, `ProjectionList`, `TimeDependentDenseArray`.

Specification: `direct` evaluates the same tree with the mathematical forward-mode rules in
mathematical operand order (`directBin`: closed formulas per row, e.g. quotient rule).

Numbers are rationals.  An AdArray is a list of rows `Dual = (value, gradient over the global dofs)`.
Powers are modelled for integer exponents of magnitude ≤ 64 only (everything else is `unsupported`, as are the
combinations whose numpy/scipy meaning is not elementwise arithmetic); numpy's inf/nan results of
divisions by zero are `div0`.
-/
namespace PorepyVerif.C02

abbrev Vec := List Rat

/-- one row of an AdArray: value and gradient (dense row of the Jacobian over the global dofs) -/
structure Dual where
  v : Rat
  g : List Rat
deriving DecidableEq, Repr

abbrev Ad := List Dual

/-- scipy sparse matrix, densely: `nc` columns, list of rows -/
structure Mat where
  nc : Nat
  rows : List (List Rat)
deriving DecidableEq, Repr

/-- `ArraySlicer(domain_indices, range_indices, range_size, domain_size)` without pending operation -/
structure Slicer where
  dom : List Nat
  rng : List Nat
  rsize : Nat
  dsize : Nat
deriving DecidableEq, Repr

inductive Err
  | valueError | indexError | keyError | typeError | notImplemented | assertionError
  | div0          -- numpy would produce inf/nan (or python ZeroDivisionError): outside the model
  | unsupported   -- combination outside the modelled arithmetic
deriving DecidableEq, Repr

inductive Value
  | scalar (c : Rat)
  | vec (v : Vec)
  | mat (m : Mat)
  | slicer (s : Slicer)
  | slicers (l : List Slicer)
  | ad (a : Ad)
deriving DecidableEq, Repr

inductive Op | add | sub | mul | div | pow | matmul
deriving DecidableEq, Repr

open Except in
abbrev R := Except Err

/-! ### gradients, vectors -/

def gscale (c : Rat) (g : List Rat) : List Rat := g.map (c * ·)
def gadd (g h : List Rat) : List Rat := List.zipWith (· + ·) g h
def gsub (g h : List Rat) : List Rat := List.zipWith (· - ·) g h
def gneg (g : List Rat) : List Rat := g.map (- ·)
def zeros (n : Nat) : List Rat := List.replicate n 0

def vals (a : Ad) : Vec := a.map (·.v)

/-- forget the Jacobian -/
def strip : Value → Value
  | .ad a => .vec (vals a)
  | v => v

def Value.isAd : Value → Bool
  | .ad _ => true
  | _ => false

/-- integer power, total: negative exponents through the inverse (`0⁻¹ = 0`, guarded by the callers) -/
def ipow (x : Rat) (n : Int) : Rat := if 0 ≤ n then x ^ n.toNat else (x⁻¹) ^ (-n).toNat

/-- integer exponent of moderate size (larger ones overflow binary64 anyway) -/
def isInt (c : Rat) : Bool := c.den == 1 && c.num.natAbs ≤ 64

def hasZero (v : Vec) : Bool := v.any (· == 0)

/-- Real powers and logarithms are PARAMETERS of the model: `pow x c` for a non-integer exponent,
    `log x`, and where they are finite real numbers.  The theorems hold for every interpretation;
    the driver uses `PowFns.none` (nothing defined: such operations answer `unsupported`). -/
structure PowFns where
  pow : Rat → Rat → Rat
  log : Rat → Rat
  powOk : Rat → Rat → Bool
  logOk : Rat → Bool

def PowFns.none : PowFns := ⟨fun _ _ => 0, fun _ => 0, fun _ _ => false, fun _ => false⟩

variable (P : PowFns)

/-- `x ** c`: exact for integer exponents, the parameter otherwise -/
def powE (x c : Rat) : Rat := if isInt c then ipow x c.num else P.pow x c
def powEOk (x c : Rat) : Bool := if isInt c then !(x == 0 && decide (c.num < 0)) else P.powOk x c
/-- `x ** (c-1)`, the factor in the derivative of `x ** c` -/
def powD (x c : Rat) : Rat := if isInt c then ipow x (c.num - 1) else P.pow x (c - 1)
def powDOk (x c : Rat) : Bool := if isInt c then !(x == 0 && decide (c.num - 1 < 0)) else P.powOk x (c - 1)
/-- `x ** c` and `c * x ** (c-1)` are finite -/
def powOk (x c : Rat) : Bool := powEOk P x c && powDOk P x c
/-- what the model answers when a power is not finite / not defined -/
def powErr (c : Rat) : Err := if isInt c then .div0 else .unsupported
def powErrV (v : Vec) : Err := if v.all isInt then .div0 else .unsupported

/-- numpy broadcasting of a 1-d array to length `n`: same length, or length 1 repeated -/
def expand (n : Nat) (v : Vec) : Option Vec :=
  if v.length = n then some v
  else match v with
    | [c] => some (List.replicate n c)
    | _ => none

/-- numpy broadcasting of two 1-d arrays against each other -/
def bvv (v w : Vec) : Option (Vec × Vec) :=
  match expand v.length w with
  | some w' => some (v, w')
  | none =>
    match expand w.length v with
    | some v' => some (v', w)
    | none => none

def dot (r v : List Rat) : Rat := (List.zipWith (· * ·) r v).foldl (· + ·) 0

/-! ### unary minus on values (`-x` in python) -/

def dneg (u : Dual) : Dual := ⟨-u.v, gneg u.g⟩

def pyNeg : Value → R Value
  | .scalar c => .ok (.scalar (-c))
  | .vec v => .ok (.vec (v.map (- ·)))
  | .mat m => .ok (.mat ⟨m.nc, m.rows.map gneg⟩)
  | .ad a => .ok (.ad (a.map dneg))
  | .slicer _ => .error .valueError      -- ArraySlicer.__neg__ raises
  | .slicers _ => .error .typeError      -- bad operand type for unary -: 'list'

/-! ### AdArray methods (forward_mode.py), method by method -/

/-- `AdArray.__add__` -/
def adAdd (a : Ad) : Value → R Value
  | .scalar c => .ok (.ad (a.map fun u => ⟨u.v + c, u.g⟩))
  | .vec v =>
      -- `self.val + other` broadcasts; the constructor then demands one Jacobian row per value
      match expand a.length v with
      | some w => .ok (.ad (List.zipWith (fun u c => ⟨u.v + c, u.g⟩) a w))
      | none => .error .valueError
  | .mat _ => .error .valueError
  | .ad b => if a.length ≠ b.length then .error .valueError
      else .ok (.ad (List.zipWith (fun u w => ⟨u.v + w.v, gadd u.g w.g⟩) a b))
  | .slicer _ => .error .valueError
  | .slicers _ => .error .valueError

/-- `AdArray.__sub__`: `self.__add__(-other)` -/
def adSub (a : Ad) (o : Value) : R Value := do
  let n ← pyNeg o
  adAdd a n

/-- `AdArray.__rsub__`: `-self.__sub__(other)` -/
def adRsub (a : Ad) (o : Value) : R Value := do
  let r ← adSub a o
  pyNeg r

/-- `AdArray.__mul__` -/
def adMul (a : Ad) : Value → R Value
  | .scalar c => .ok (.ad (a.map fun u => ⟨u.v * c, u.g.map (· * c)⟩))
  | .vec v => if a.length ≠ v.length then .error .valueError
      else .ok (.ad (List.zipWith (fun u c => ⟨u.v * c, gscale c u.g⟩) a v))
  | .mat _ => .error .valueError
  | .ad b => if a.length ≠ b.length then .error .valueError
      else .ok (.ad (List.zipWith (fun u w => ⟨u.v * w.v, gadd (gscale w.v u.g) (gscale u.v w.g)⟩) a b))
  | .slicer _ => .error .unsupported     -- ArraySlicer.__rmul__: slicer with a pending operand
  | .slicers _ => .error .valueError

/-- `AdArray.__rmul__` -/
def adRmul (a : Ad) : Value → R Value
  | .scalar c => adMul a (.scalar c)
  | .vec v => adMul a (.vec v)
  | .mat m => adMul a (.mat m)
  | .ad _ => .error .unsupported         -- RuntimeError branch, not reachable through python dispatch
  | .slicer _ => .error .valueError
  | .slicers _ => .error .valueError

/-- one row of `x ** c` with a constant exponent -/
def dPowC (u : Dual) (c : Rat) : Dual := ⟨powE P u.v c, gscale (c * powD P u.v c) u.g⟩
/-- one row of `x ** y`: `y x^(y-1) dx + x^y log x dy` -/
def dPow (u w : Dual) : Dual :=
  ⟨powE P u.v w.v, gadd (gscale (w.v * powD P u.v w.v) u.g) (gscale (powE P u.v w.v * P.log u.v) w.g)⟩
/-- one row of `c ** x`: `c^x log c dx` -/
def dCPow (c : Rat) (u : Dual) : Dual := ⟨powE P c u.v, gscale (powE P c u.v * P.log c) u.g⟩

/-- `AdArray.__pow__` -/
def adPow (a : Ad) : Value → R Value
  | .scalar c =>
      if a.any (fun u => !powOk P u.v c) then .error (powErr c)
      else .ok (.ad (a.map fun u => ⟨powE P u.v c, gscale (c * powD P u.v c) u.g⟩))
  | .vec v =>
      match expand a.length v with
      | none => .error .valueError
      | some w =>
        if (List.zipWith (fun (u : Dual) (c : Rat) => !powOk P u.v c) a w).any id then .error (powErrV v)
        else .ok (.ad (List.zipWith (fun u c => ⟨powE P u.v c, gscale (c * powD P u.v c) u.g⟩) a w))
  | .mat _ => .error .valueError
  | .ad b => if a.length ≠ b.length then .error .valueError
      else if (List.zipWith (fun (u w : Dual) => !(powOk P u.v w.v && P.logOk u.v)) a b).any id then .error .unsupported
      else .ok (.ad (List.zipWith (fun u w =>
        ⟨powE P u.v w.v, gadd (gscale (w.v * powD P u.v w.v) u.g) (gscale (powE P u.v w.v * P.log u.v) w.g)⟩) a b))
  | .slicer _ => .error .unsupported
  | .slicers _ => .error .valueError

/-- `AdArray.__rpow__`: `other ** self` -/
def adRpow (a : Ad) : Value → R Value
  | .scalar c =>
      if a.any (fun u => !(powEOk P c u.v && P.logOk c)) then .error .unsupported
      else .ok (.ad (a.map fun u => ⟨powE P c u.v, gscale (powE P c u.v * P.log c) u.g⟩))
  | .vec v =>
      match expand a.length v with
      | none => .error .valueError
      | some w =>
        if (List.zipWith (fun (u : Dual) (c : Rat) => !(powEOk P c u.v && P.logOk c)) a w).any id then .error .unsupported
        else .ok (.ad (List.zipWith (fun u c => ⟨powE P c u.v, gscale (powE P c u.v * P.log c) u.g⟩) a w))
  | .mat _ => .error .valueError
  | .ad b => if a.length ≠ b.length then .error .valueError else adPow P b (.ad a)   -- other.__pow__(self)
  | .slicer _ => .error .valueError
  | .slicers _ => .error .valueError

/-- `AdArray.__truediv__` -/
def adTruediv (a : Ad) : Value → R Value
  | .scalar c => if c == 0 then .error .div0
      else .ok (.ad (a.map fun u => ⟨u.v / c, u.g.map (· / c)⟩))
  | .vec v => if a.length ≠ v.length then .error .valueError
      else if hasZero v then .error .div0
      else .ok (.ad (List.zipWith (fun u c => ⟨u.v * ipow c (-1), gscale (ipow c (-1)) u.g⟩) a v))
  | .mat _ => .error .valueError
  | .ad b => if a.length ≠ b.length then .error .valueError
      else do
        let p ← adPow P b (.scalar (-1))   -- other.__pow__(-1.0)
        adMul a p
  | .slicer _ => .error .unsupported
  | .slicers _ => .error .valueError

/-- `AdArray.__rtruediv__` -/
def adRtruediv (a : Ad) : Value → R Value
  | .scalar c => do
      match ← adPow P a (.scalar (-1)) with
      | .ad p => adMul p (.scalar c)       -- self.__pow__(-1.0) * other
      | _ => .error .unsupported
  | .vec v => do
      match ← adPow P a (.scalar (-1)) with
      | .ad p => adMul p (.vec v)
      | _ => .error .unsupported
  | .mat _ => .error .valueError           -- `self.__pow__(-1.0) * other`: `__mul__` rejects sparse matrices
  | .ad b => if a.length ≠ b.length then .error .valueError
      else do
        let p ← adPow P a (.scalar (-1))
        adMul b p                           -- other.__mul__(self.__pow__(-1.0))
  | .slicer _ => .error .valueError
  | .slicers _ => .error .valueError

/-- one row of `M @ AdArray`: linear combination of the rows of the AdArray -/
def combo (N : Nat) (r : List Rat) (a : Ad) : Dual :=
  (List.zipWith (fun (c : Rat) (u : Dual) => (c, u)) r a).foldl
    (fun acc p => ⟨acc.v + p.1 * p.2.v, gadd acc.g (gscale p.1 p.2.g)⟩) ⟨0, zeros N⟩

/-- `AdArray.__rmatmul__` -/
def adRmatmul (N : Nat) (a : Ad) : Value → R Value
  | .mat m => if a.length ≠ m.nc then .error .valueError
      else .ok (.ad (m.rows.map fun r => combo N r a))
  | _ => .error .valueError

/-! ### scipy / numpy / ArraySlicer pieces -/

def matVec (m : Mat) (v : Vec) : R Value :=
  if m.nc ≠ v.length then .error .valueError else .ok (.vec (m.rows.map fun r => dot r v))

/-- row `r` of the left factor times the right factor -/
def rowMat (nc : Nat) (r : List Rat) (rows : List (List Rat)) : List Rat :=
  (List.zipWith (fun (c : Rat) (row : List Rat) => (c, row)) r rows).foldl
    (fun acc p => gadd acc (gscale p.1 p.2)) (zeros nc)

def matMat (m k : Mat) : R Value :=
  if m.nc ≠ k.rows.length then .error .valueError
  else .ok (.mat ⟨k.nc, m.rows.map fun r => rowMat k.nc r k.rows⟩)

def matAddSub (sub : Bool) (m k : Mat) : R Value :=
  if m.nc ≠ k.nc ∨ m.rows.length ≠ k.rows.length then .error .valueError
  else .ok (.mat ⟨m.nc, List.zipWith (fun r s => if sub then gsub r s else gadd r s) m.rows k.rows⟩)

def matScale (c : Rat) (m : Mat) : Value := .mat ⟨m.nc, m.rows.map (gscale c)⟩

/-- scatter `x[dom[k]]` to position `rng[k]` of `out`, in order (the last write wins) -/
def scatterFrom {α : Type} (x : List α) : List Nat → List Nat → List α → R (List α)
  | [], [], out => .ok out
  | d :: ds, r :: rs, out =>
      match x[d]? with
      | none => .error .indexError
      | some e => if r < out.length then scatterFrom x ds rs (out.set r e) else .error .indexError
  | _, _, _ => .error .valueError

/-- `ArraySlicer.__matmul__` without pending operation -/
def slicerMatmul (N : Nat) (s : Slicer) : Value → R Value
  | .scalar c => do
      let o ← scatterFrom (List.replicate s.dsize c) s.dom s.rng (zeros s.rsize)
      pure (.vec o)
  | .vec v => do
      let o ← scatterFrom v s.dom s.rng (zeros s.rsize)
      pure (.vec o)
  | .mat m => do
      let o ← scatterFrom m.rows s.dom s.rng (List.replicate s.rsize (zeros m.nc))
      pure (.mat ⟨m.nc, o⟩)
  | .ad a => do
      let o ← scatterFrom a s.dom s.rng (List.replicate s.rsize ⟨0, zeros N⟩)
      pure (.ad o)
  | .slicer _ => .error .unsupported      -- product of slicers: pending operand
  | .slicers _ => .error .valueError

/-- python's `+` between two results of the same kind, as used by `sum(...)` over a ProjectionList -/
def sumAdd : Value → Value → R Value
  | .vec v, .vec w => if v.length ≠ w.length then .error .valueError
      else .ok (.vec (List.zipWith (· + ·) v w))
  | .mat m, .mat k => matAddSub false m k
  | .ad a, .ad b => adAdd a (.ad b)
  | _, _ => .error .unsupported

/-- `sum([c @ x for c in slicers])`; the empty sum is python's int 0 -/
def sumSlicers (N : Nat) (ps : List Slicer) (x : Value) : R Value :=
  match ps with
  | [] => .ok (.scalar 0)
  | p :: rest => do
      let first ← slicerMatmul N p x
      rest.foldlM (fun acc q => do
        let t ← slicerMatmul N q x
        sumAdd acc t) first

/-! ### python dispatch of `l ∘ r` on parsed values -/

/-- elementwise numpy operation on two 1-d arrays, with broadcasting -/
def vecBin (f : Rat → Rat → Rat) (v w : Vec) : R Value :=
  match bvv v w with
  | some (v', w') => .ok (.vec (List.zipWith f v' w'))
  | none => .error .valueError

/-- scalar/vector power (numpy / python float) -/
def powEntry (x c : Rat) : R Rat :=
  if powEOk P x c then .ok (powE P x c) else .error (powErr c)

def pyScalar (c : Rat) (op : Op) : Value → R Value
  | .scalar d =>
      match op with
      | .add => .ok (.scalar (c + d))
      | .sub => .ok (.scalar (c - d))
      | .mul => .ok (.scalar (c * d))
      | .div => if d == 0 then .error .div0 else .ok (.scalar (c / d))
      | .pow => do let p ← powEntry P c d; pure (.scalar p)
      | .matmul => .error .typeError
  | .vec v =>
      match op with
      | .add => .ok (.vec (v.map (c + ·)))
      | .sub => .ok (.vec (v.map (c - ·)))
      | .mul => .ok (.vec (v.map (c * ·)))
      | .div => if hasZero v then .error .div0 else .ok (.vec (v.map (c / ·)))
      | .pow => do let p ← v.mapM (powEntry P c); pure (.vec p)
      | .matmul => .error .valueError
  | .mat m =>
      match op with
      | .add => if c == 0 then .ok (.mat m) else .error .notImplemented   -- scipy: only the scalar 0 can be added
      | .sub => if c == 0 then .ok (.mat ⟨m.nc, m.rows.map gneg⟩) else .error .notImplemented
      | .mul => .ok (matScale c m)
      | .div => .error .typeError
      | .pow => .error .typeError
      | .matmul => .error .valueError
  | .ad a =>
      match op with
      | .add => adAdd a (.scalar c)          -- __radd__
      | .sub => adRsub a (.scalar c)
      | .mul => adRmul a (.scalar c)
      | .div => adRtruediv P a (.scalar c)
      | .pow => adRpow P a (.scalar c)
      | .matmul => adRmatmul 0 a (.scalar c)
  | .slicer _ => .error .unsupported         -- reverse methods of ArraySlicer: pending operand
  | .slicers _ => .error .unsupported        -- TypeError for a float, list repetition for the int 0 of an empty sum

def pyVec (v : Vec) (op : Op) : Value → R Value
  | .scalar c =>
      match op with
      | .add => .ok (.vec (v.map (· + c)))
      | .sub => .ok (.vec (v.map (· - c)))
      | .mul => .ok (.vec (v.map (· * c)))
      | .div => if c == 0 then .error .div0 else .ok (.vec (v.map (· / c)))
      | .pow => do let p ← v.mapM (fun x => powEntry P x c); pure (.vec p)
      | .matmul => .error .valueError
  | .vec w =>
      match op with
      | .add => vecBin (· + ·) v w
      | .sub => vecBin (· - ·) v w
      | .mul => vecBin (· * ·) v w
      | .div =>
          match bvv v w with
          | none => .error .valueError
          | some (v', w') => if hasZero w then .error .div0 else .ok (.vec (List.zipWith (· / ·) v' w'))
      | .pow =>
          match bvv v w with
          | none => .error .valueError
          | some (v', w') => do
            let p ← (List.zipWith (fun x c => (x, c)) v' w').mapM (fun p => powEntry P p.1 p.2)
            pure (.vec p)
      | .matmul => .error .unsupported         -- dot product, a numpy scalar
  | .mat _ =>
      match op with
      | .div => .error .typeError
      | .pow => .error .typeError
      | _ => .error .unsupported               -- dense-matrix results / row-vector products
  | .ad _ => .error .unsupported               -- numpy broadcasts over the AdArray: object arrays (never used by the parser)
  | .slicer _ =>
      match op with
      | .matmul => .error .valueError
      | _ => .error .unsupported
  | .slicers _ => .error .unsupported

def pyMat (N : Nat) (m : Mat) (op : Op) : Value → R Value
  | .scalar c =>
      match op with
      | .add => if c == 0 then .ok (.mat m) else .error .notImplemented
      | .sub => if c == 0 then .ok (.mat m) else .error .notImplemented
      | .mul => .ok (matScale c m)
      | .div => if c == 0 then .error .div0 else .ok (.mat ⟨m.nc, m.rows.map fun r => r.map (· / c)⟩)
      | .pow => .error .unsupported
      | .matmul => .error .valueError
  | .vec v =>
      match op with
      | .matmul => matVec m v
      | _ => .error .unsupported
  | .mat k =>
      match op with
      | .add => matAddSub false m k
      | .sub => matAddSub true m k
      | .matmul => matMat m k
      | _ => .error .unsupported
  | .ad a =>
      match op with
      | .add => adAdd a (.mat m)               -- scipy returns NotImplemented, then AdArray.__radd__
      | .sub => adRsub a (.mat m)
      | .mul => adRmul a (.mat m)
      | .div => adRtruediv P a (.mat m)
      | .pow => .error .unsupported
      | .matmul => adRmatmul N a (.mat m)
  | .slicer _ => .error .unsupported
  | .slicers _ => .error .unsupported

def pyAd (a : Ad) (op : Op) (r : Value) : R Value :=
  match op with
  | .add => adAdd a r
  | .sub => adSub a r
  | .mul => adMul a r
  | .div => adTruediv P a r
  | .pow => adPow P a r
  | .matmul => .error .valueError              -- AdArray.__matmul__ always raises

def py (N : Nat) (op : Op) (l r : Value) : R Value :=
  match l with
  | .scalar c => pyScalar P c op r
  | .vec v => pyVec P v op r
  | .mat m => pyMat P N m op r
  | .ad a => pyAd P a op r
  | .slicer s =>
      match op with
      | .matmul => slicerMatmul N s r
      | _ => .error .valueError                -- ArraySlicer.__add__ etc. raise
  | .slicers _ => .error .unsupported

/-! ### the parser's combination of two parsed children (`_evaluate_single`, match on the operation) -/

def parseBin (N : Nat) (op : Op) (l r : Value) : R Value :=
  match op with
  | .add =>
      match l with
      | .vec _ => py P N .add r l                          -- flipped
      | _ => py P N .add l r
  | .sub =>
      match l with
      | .vec _ => do let res ← py P N .sub r l; pyNeg res  -- flipped, then negated
      | _ => py P N .sub l r
  | .mul =>
      match l, r with
      | .vec _, .ad _ => py P N .mul r l                   -- flipped
      | _, _ => py P N .mul l r
  | .div =>
      match l, r with
      | .vec _, .ad a => adRtruediv P a l
      | _, _ => py P N .div l r
  | .pow =>
      match l, r with
      | .vec _, .ad a => adRpow P a l
      | _, _ => py P N .pow l r
  | .matmul =>
      match l, r with
      | .slicers ps, _ => sumSlicers N ps r
      | .vec _, .ad a => adRmatmul N a l
      | _, _ => py P N .matmul l r

/-! ### specification: forward-mode rules in mathematical operand order, closed formulas per row -/

def dAddC (u : Dual) (c : Rat) : Dual := ⟨u.v + c, u.g⟩
def dCAdd (c : Rat) (u : Dual) : Dual := ⟨c + u.v, u.g⟩
def dAdd (u w : Dual) : Dual := ⟨u.v + w.v, gadd u.g w.g⟩
def dSubC (u : Dual) (c : Rat) : Dual := ⟨u.v - c, u.g⟩
def dCSub (c : Rat) (u : Dual) : Dual := ⟨c - u.v, gneg u.g⟩
def dSub (u w : Dual) : Dual := ⟨u.v - w.v, gsub u.g w.g⟩
def dMulC (u : Dual) (c : Rat) : Dual := ⟨u.v * c, gscale c u.g⟩
def dCMul (c : Rat) (u : Dual) : Dual := ⟨c * u.v, gscale c u.g⟩
def dMul (u w : Dual) : Dual := ⟨u.v * w.v, gadd (gscale w.v u.g) (gscale u.v w.g)⟩
def dDivC (u : Dual) (c : Rat) : Dual := ⟨u.v / c, gscale (1 / c) u.g⟩
/-- `c / u`: derivative `-c / u²` -/
def dCDiv (c : Rat) (u : Dual) : Dual := ⟨c / u.v, gscale (-c / (u.v * u.v)) u.g⟩
/-- quotient rule -/
def dDiv (u w : Dual) : Dual :=
  ⟨u.v / w.v, gadd (gscale (1 / w.v) u.g) (gscale (-u.v / (w.v * w.v)) w.g)⟩

/-- rows of `a` combined with the entries of `v` (`f row entry`), sizes must agree -/
def zipAV (f : Dual → Rat → Dual) (a : Ad) (v : Vec) : R Value :=
  if a.length ≠ v.length then .error .valueError else .ok (.ad (List.zipWith f a v))

def zipAA (f : Dual → Dual → Dual) (a b : Ad) : R Value :=
  if a.length ≠ b.length then .error .valueError else .ok (.ad (List.zipWith f a b))

/-- rows of `a` combined with the entries of `v` broadcast to the length of `a` -/
def bAV (f : Dual → Rat → Dual) (a : Ad) (v : Vec) : R Value :=
  match expand a.length v with
  | some w => .ok (.ad (List.zipWith f a w))
  | none => .error .valueError

/-- power rule `x ** c`, constant exponent -/
def dPowS (a : Ad) (c : Rat) : R Value :=
  if a.any (fun u => !powOk P u.v c) then .error (powErr c)
  else .ok (.ad (a.map fun u => dPowC P u c))

def dPowV (a : Ad) (v : Vec) : R Value :=
  match expand a.length v with
  | none => .error .valueError
  | some w =>
    if (List.zipWith (fun (u : Dual) (c : Rat) => !powOk P u.v c) a w).any id then .error (powErrV v)
    else .ok (.ad (List.zipWith (dPowC P) a w))

/-- `x ** y` with both depending on the variables -/
def dPowA (a b : Ad) : R Value :=
  if a.length ≠ b.length then .error .valueError
  else if (List.zipWith (fun (u w : Dual) => !(powOk P u.v w.v && P.logOk u.v)) a b).any id then .error .unsupported
  else .ok (.ad (List.zipWith (dPow P) a b))

/-- `c ** x` -/
def dCPowS (c : Rat) (a : Ad) : R Value :=
  if a.any (fun u => !(powEOk P c u.v && P.logOk c)) then .error .unsupported
  else .ok (.ad (a.map (dCPow P c)))

def dCPowV (v : Vec) (a : Ad) : R Value :=
  match expand a.length v with
  | none => .error .valueError
  | some w =>
    if (List.zipWith (fun (u : Dual) (c : Rat) => !(powEOk P c u.v && P.logOk c)) a w).any id then .error .unsupported
    else .ok (.ad (List.zipWith (fun u c => dCPow P c u) a w))

/-- AdArray on the left -/
def directAd (a : Ad) (op : Op) : Value → R Value
  | .scalar c =>
      match op with
      | .add => .ok (.ad (a.map (dAddC · c)))
      | .sub => .ok (.ad (a.map (dSubC · c)))
      | .mul => .ok (.ad (a.map (dMulC · c)))
      | .div => if c == 0 then .error .div0 else .ok (.ad (a.map (dDivC · c)))
      | .pow => dPowS P a c
      | .matmul => .error .valueError
  | .vec v =>
      match op with
      | .add => bAV dAddC a v
      | .sub => bAV dSubC a v
      | .mul => zipAV dMulC a v
      | .div => if a.length ≠ v.length then .error .valueError
          else if hasZero v then .error .div0 else zipAV dDivC a v
      | .pow => dPowV P a v
      | .matmul => .error .valueError
  | .mat _ => .error .valueError
  | .ad b =>
      match op with
      | .add => zipAA dAdd a b
      | .sub => zipAA dSub a b
      | .mul => zipAA dMul a b
      | .div => if a.length ≠ b.length then .error .valueError
          else if hasZero (vals b) then .error .div0 else zipAA dDiv a b
      | .pow => dPowA P a b
      | .matmul => .error .valueError
  | .slicer _ =>
      match op with
      | .add => .error .valueError
      | .sub => .error .valueError
      | .matmul => .error .valueError
      | _ => .error .unsupported
  | .slicers _ =>
      match op with
      | .sub => .error .typeError
      | _ => .error .valueError

/-- AdArray on the right, constant (scalar) on the left -/
def directSA (c : Rat) (a : Ad) : Op → R Value
  | .add => .ok (.ad (a.map (dCAdd c)))
  | .sub => .ok (.ad (a.map (dCSub c)))
  | .mul => .ok (.ad (a.map (dCMul c)))
  | .div => if hasZero (vals a) then .error .div0 else .ok (.ad (a.map (dCDiv c)))
  | .pow => dCPowS P c a
  | .matmul => .error .valueError

/-- AdArray on the right, vector on the left (row `i` is `rule v[i] a[i]`) -/
def directVA (v : Vec) (a : Ad) : Op → R Value
  | .add => bAV (fun u c => dCAdd c u) a v
  | .sub => bAV (fun u c => dCSub c u) a v
  | .mul => zipAV (fun u c => dCMul c u) a v
  | .div => if hasZero (vals a) then .error .div0 else zipAV (fun u c => dCDiv c u) a v
  | .pow => dCPowV P v a
  | .matmul => .error .valueError

def directBin (N : Nat) (op : Op) (l r : Value) : R Value :=
  match l, r with
  | .ad a, _ => directAd P a op r
  | .scalar c, .ad a => directSA P c a op
  | .vec v, .ad a => directVA P v a op
  | .mat m, .ad a =>
      match op with
      | .matmul => adRmatmul N a (.mat m)
      | .pow => .error .unsupported
      | _ => .error .valueError
  | .slicers ps, _ =>
      match op with
      | .matmul => sumSlicers N ps r
      | _ => .error .unsupported
  -- no AdArray involved, no ProjectionList on the left: plain numpy / scipy / slicer arithmetic
  | .vec v, .scalar c =>
      match op with
      | .add => .ok (.vec (v.map (· + c)))
      | .sub => .ok (.vec (v.map (· - c)))
      | _ => py P N op l r
  | .vec v, .vec w =>
      match op with
      | .add => vecBin (· + ·) v w
      | .sub => vecBin (· - ·) v w
      | _ => py P N op l r
  | .vec _, .mat _ =>
      match op with
      | .add => .error .unsupported
      | .sub => .error .unsupported
      | _ => py P N op l r
  | .vec _, .slicer _ =>
      match op with
      | .add => .error .valueError
      | .sub => .error .valueError
      | _ => py P N op l r
  | .vec _, .slicers _ => .error .unsupported
  | _, _ => py P N op l r

/-! ### operator trees -/

/-- body of a wrapped function (`pp.ad.Function`): polynomial in at most two arguments -/
inductive FExpr
  | x | y
  | const (c : Rat)
  | add (a b : FExpr) | sub (a b : FExpr) | mul (a b : FExpr)
deriving DecidableEq, Repr

/-- a wrapped function: `pp.ad.Function` with a polynomial body, or a `pp.ad.DiagonalJacobianFunction`
    (values from the body applied to the plain values, Jacobian `m1 * jac(arg1) [+ m2 * jac(arg2)]`; a
    one-argument function carries one multiplier) -/
inductive Func
  | poly (f : FExpr)
  | diag (f : FExpr) (m1 : Rat) (m2 : Option Rat)
deriving DecidableEq, Repr

inductive Leaf
  /-- (md-)variable: dof blocks of its atomic variables, `md` flag, private time-step and iterate
      index (`-1` = current) -/
  | var (subs : List (List Nat)) (md : Bool) (t : Int) (i : Int)
  | scalar (c : Rat)
  | dense (v : Vec)
  | sparse (m : Mat)
  | proj (s : Slicer)
  /-- TimeDependentDenseArray number `id`, private time-step index -/
  | td (id : Nat) (t : Int)
deriving DecidableEq, Repr

inductive OpTree
  | leaf (l : Leaf)
  | projList (ps : List Slicer)
  | bin (op : Op) (a b : OpTree)
  | func1 (f : Func) (a : OpTree)
  | func2 (f : Func) (a b : OpTree)
deriving DecidableEq, Repr

structure Env where
  state : Vec                   -- global dof vector the operator is evaluated at
  iterVals : List Vec           -- stored iterate solutions (global vectors), by iterate index
  timeVals : List Vec           -- stored time-step solutions, by time-step index
  tdIter : List Vec             -- time-dependent arrays: values at iterate index 0, by array id
  tdTime : List (List Vec)      -- time-dependent arrays: stored time-step values, by array id
  P : PowFns := PowFns.none     -- interpretation of real powers / logarithms

def Env.N (e : Env) : Nat := e.state.length

def gather (x : Vec) (idx : List Nat) : Vec := idx.map (fun d => x.getD d 0)

def unitRow (N d : Nat) : List Rat := (List.range N).map (fun j => if j = d then 1 else 0)

/-- `ad_base[dofs]` with `ad_base = initAdArrays([state])[0]` -/
def adRows (state : Vec) (idx : List Nat) : Ad :=
  idx.map (fun d => ⟨state.getD d 0, unitRow state.length d⟩)

/-- values stored for a variable at its (public) time-step / iterate index; a missing index is a KeyError -/
def stored (e : Env) (t i : Int) : R Vec :=
  if 0 ≤ t then
    match e.timeVals[t.toNat]? with
    | some v => .ok v
    | none => .error .keyError
  else
    match e.iterVals[i.toNat]? with
    | some v => .ok v
    | none => .error .keyError

/-- previous md-variable in the parser: `vals[sub_dofs] = sub_var.parse(mdg)` for every atomic
    variable into a vector shaped like the global one, then `vals[np.hstack(dofs)]` -/
def mdPrev (e : Env) (t i : Int) : List (List Nat) → Vec → R Vec
  | [], acc => .ok acc
  | sub :: rest, acc => do
      let st ← stored e t i
      mdPrev e t i rest (List.zip sub (gather st sub) |>.foldl (fun a p => a.set p.1 p.2) acc)

def parseLeaf (deriv : Bool) (e : Env) : Leaf → R Value
  | .var subs md t i =>
      if 0 ≤ t ∨ 0 ≤ i then
        if md then do
          let filled ← mdPrev e t i subs (zeros e.N)       -- np.empty_like(state)
          pure (.vec (gather filled subs.flatten))
        else do
          let st ← stored e t i
          pure (.vec (gather st subs.flatten))
      else if deriv then .ok (.ad (adRows e.state subs.flatten))
      else .ok (.vec (gather e.state subs.flatten))
  | .scalar c => .ok (.scalar c)
  | .dense v => .ok (.vec v)
  | .sparse m => .ok (.mat m)
  | .proj s => .ok (.slicer s)
  | .td id t =>
      if 0 ≤ t then
        match e.tdTime[id]? with
        | some l => match l[t.toNat]? with
          | some v => .ok (.vec v)
          | none => .error .keyError
        | none => .error .keyError
      else
        match e.tdIter[id]? with
        | some v => .ok (.vec v)
        | none => .error .keyError

/-- specification of the leaves: a previous (md-)variable is the stored values at its dofs -/
def directLeaf (deriv : Bool) (e : Env) : Leaf → R Value
  | .var subs md t i =>
      if 0 ≤ t ∨ 0 ≤ i then
        if md && subs.isEmpty then .ok (.vec [])
        else do
          let st ← stored e t i
          pure (.vec (gather st subs.flatten))
      else if deriv then .ok (.ad (adRows e.state subs.flatten))
      else .ok (.vec (gather e.state subs.flatten))
  | l => parseLeaf deriv e l

/-- an exception inside `op.func(*child_values)` is re-raised as ValueError -/
def funcErr : Err → Err
  | .unsupported => .unsupported
  | .div0 => .div0
  | _ => .valueError

def FExpr.eval (N : Nat) (x y : Value) : FExpr → R Value
  | .x => .ok x
  | .y => .ok y
  | .const c => .ok (.scalar c)
  | .add a b => do let p ← a.eval N x y; let q ← b.eval N x y; directBin P N .add p q
  | .sub a b => do let p ← a.eval N x y; let q ← b.eval N x y; directBin P N .sub p q
  | .mul a b => do let p ← a.eval N x y; let q ← b.eval N x y; directBin P N .mul p q

def scaleJac (m : Rat) (a : Ad) : List (List Rat) := a.map (fun u => gscale m u.g)

/-- `get_jacobian` of a DiagonalJacobianFunction: `sum(arg.jac * m …).tocsr()` over the AdArray arguments
    that have a multiplier -/
def diagJac (m1 : Rat) (m2 : Option Rat) (x y : Value) : R (List (List Rat)) :=
  let j1 : Option (List (List Rat)) := match x with
    | .ad a => some (scaleJac m1 a)
    | _ => none
  let j2 : Option (List (List Rat)) := match m2, y with
    | some m, .ad b => some (scaleJac m b)
    | _, _ => none
  match j1, j2 with
  | none, none => .error .valueError              -- sum([]) is the int 0: no `.tocsr()`
  | some j, none => .ok j
  | none, some k => .ok k
  | some j, some k => if j.length ≠ k.length then .error .valueError else .ok (List.zipWith gadd j k)

/-- `AdArray(values, jac)` for the values returned by `get_values` -/
def mkDiag (v : Value) (rows : List (List Rat)) : R Value :=
  match v with
  | .vec w => if w.length ≠ rows.length then .error .valueError
      else .ok (.ad (List.zipWith (fun c g => (⟨c, g⟩ : Dual)) w rows))
  | .scalar _ => .error .unsupported    -- a float value is promoted to a 1-vector only with derivatives
  | _ => .error .valueError

/-- `DiagonalJacobianFunction.func`: `get_values` on the plain values; with an AdArray among the arguments
    also `get_jacobian` and the AdArray constructor -/
def applyDiag (N : Nat) (f : FExpr) (m1 : Rat) (m2 : Option Rat) (x y : Value) : R Value := do
  let v ← f.eval P N (strip x) (strip y)
  if !(x.isAd || y.isAd) then pure v
  else do
    let rows ← diagJac m1 m2 x y
    mkDiag v rows

def applyFunc (N : Nat) (F : Func) (x y : Value) : R Value :=
  let r := match F with
    | .poly f => f.eval P N x y
    | .diag f m1 m2 => applyDiag P N f m1 m2 x y
  match r with
  | .ok v => .ok v
  | .error e => .error (funcErr e)

/-- `AdParser._evaluate_single` -/
def parse (deriv : Bool) (e : Env) : OpTree → R Value
  | .leaf l => parseLeaf deriv e l
  | .projList ps => .ok (.slicers ps)
  | .bin op a b => do
      let x ← parse deriv e a
      let y ← parse deriv e b
      parseBin e.P e.N op x y
  | .func1 f a => do
      let x ← parse deriv e a
      applyFunc e.P e.N f x x
  | .func2 f a b => do
      let x ← parse deriv e a
      let y ← parse deriv e b
      applyFunc e.P e.N f x y

/-- the same expression evaluated directly with the forward-mode rules -/
def direct (deriv : Bool) (e : Env) : OpTree → R Value
  | .leaf l => directLeaf deriv e l
  | .projList ps => .ok (.slicers ps)
  | .bin op a b => do
      let x ← direct deriv e a
      let y ← direct deriv e b
      directBin e.P e.N op x y
  | .func1 f a => do
      let x ← direct deriv e a
      applyFunc e.P e.N f x x
  | .func2 f a b => do
      let x ← direct deriv e a
      let y ← direct deriv e b
      applyFunc e.P e.N f x y

def zeroJac (N : Nat) (v : Vec) : Ad := v.map (fun c => ⟨c, zeros N⟩)

/-- the post-processing of `AdParser.evaluate` -/
def finish (N : Nat) (deriv : Bool) (v : Value) : R Value :=
  if deriv then
    match v with
    | .scalar c => .ok (.ad (zeroJac N [c]))
    | .vec w => .ok (.ad (zeroJac N w))
    | .mat _ => .error .notImplemented
    | x => .ok x
  else .ok v

/-- `EquationSystem.evaluate(op, derivative, state)` -/
def evaluate (deriv : Bool) (e : Env) (t : OpTree) : R Value := do
  let v ← parse deriv e t
  finish e.N deriv v

def evaluateDirect (deriv : Bool) (e : Env) (t : OpTree) : R Value := do
  let v ← direct deriv e t
  finish e.N deriv v

/-! ### several operators in one call, with the parser's cache of parsed leaves -/

/-- `AdParser._cache`: parsed non-variable leaves.  The real dictionary is keyed by operator identity; the
    model keys it by the leaf itself (two equal leaves parse to the same value anyway), which covers every
    real hit. -/
abbrev Cache := List (Leaf × Value)

def cacheGet : Cache → Leaf → Option Value
  | [], _ => none
  | (k, v) :: rest, l => if k = l then some v else cacheGet rest l

/-- variables are never cached -/
def Leaf.cached : Leaf → Bool
  | .var _ _ _ _ => false
  | _ => true

/-- `_evaluate_single` with the cache threaded through -/
def parseC (deriv : Bool) (e : Env) : OpTree → Cache → R (Value × Cache)
  | .leaf l, c =>
      if l.cached then
        match cacheGet c l with
        | some v => .ok (v, c)
        | none => do
            let v ← parseLeaf deriv e l
            pure (v, (l, v) :: c)
      else do
        let v ← parseLeaf deriv e l
        pure (v, c)
  | .projList ps, c => .ok (.slicers ps, c)
  | .bin op a b, c => do
      let r1 ← parseC deriv e a c
      let r2 ← parseC deriv e b r1.2
      let z ← parseBin e.P e.N op r1.1 r2.1
      pure (z, r2.2)
  | .func1 f a, c => do
      let r1 ← parseC deriv e a c
      let z ← applyFunc e.P e.N f r1.1 r1.1
      pure (z, r1.2)
  | .func2 f a b, c => do
      let r1 ← parseC deriv e a c
      let r2 ← parseC deriv e b r1.2
      let z ← applyFunc e.P e.N f r1.1 r2.1
      pure (z, r2.2)

def parseListC (deriv : Bool) (e : Env) : List OpTree → Cache → R (List Value)
  | [], _ => .ok []
  | t :: ts, c => do
      let r ← parseC deriv e t c
      let vs ← parseListC deriv e ts r.2
      pure (r.1 :: vs)

/-- `EquationSystem.evaluate([op_1, …, op_k], derivative, state)`: all operators are parsed first (one
    cache, cleared afterwards), then every result is post-processed -/
def evaluateList (deriv : Bool) (e : Env) (ts : List OpTree) : R (List Value) := do
  let vs ← parseListC deriv e ts []
  vs.mapM (finish e.N deriv)

/-- every cached entry is what its leaf parses to -/
def CacheOk (deriv : Bool) (e : Env) (c : Cache) : Prop :=
  ∀ p ∈ c, parseLeaf deriv e p.1 = .ok p.2

/-! ### building trees: python expressions over operators and raw numbers / arrays -/

/-- `_get_previous_time_or_iterate(op, prev_time=True, steps)` -/
def shiftTime (steps : Nat) : OpTree → R OpTree
  | .leaf (.var subs md t i) =>
      if 0 ≤ i then .error .valueError          -- already a previous iterate
      else if steps = 0 then .error .assertionError
      else .ok (.leaf (.var subs md (t + steps) i))
  | .leaf (.td id t) =>
      if steps = 0 then .error .assertionError else .ok (.leaf (.td id (t + steps)))
  | .leaf l => .ok (.leaf l)
  | .projList ps => .ok (.projList ps)
  | .bin op a b => do
      let a' ← shiftTime steps a
      let b' ← shiftTime steps b
      pure (.bin op a' b')
  | .func1 f a => do
      let a' ← shiftTime steps a
      pure (.func1 f a')
  | .func2 f a b => do
      let a' ← shiftTime steps a
      let b' ← shiftTime steps b
      pure (.func2 f a' b')

/-- `_get_previous_time_or_iterate(op, prev_time=False, steps)`; a TimeDependentDenseArray is not iterative -/
def shiftIter (steps : Nat) : OpTree → R OpTree
  | .leaf (.var subs md t i) =>
      if 0 ≤ t then .error .valueError          -- already a previous time step
      else if steps = 0 then .error .assertionError
      else .ok (.leaf (.var subs md t (i + steps)))
  | .leaf l => .ok (.leaf l)
  | .projList ps => .ok (.projList ps)
  | .bin op a b => do
      let a' ← shiftIter steps a
      let b' ← shiftIter steps b
      pure (.bin op a' b')
  | .func1 f a => do
      let a' ← shiftIter steps a
      pure (.func1 f a')
  | .func2 f a b => do
      let a' ← shiftIter steps a
      let b' ← shiftIter steps b
      pure (.func2 f a' b')

/-- a python number, numpy array or scipy matrix appearing in an expression -/
inductive Raw
  | num (c : Rat) | arr (v : Vec) | sp (m : Mat)
deriving DecidableEq, Repr

def Raw.value : Raw → Value
  | .num c => .scalar c
  | .arr v => .vec v
  | .sp m => .mat m

/-- `_parse_other`: wrap as Scalar / DenseArray / SparseArray -/
def Raw.wrap : Raw → OpTree
  | .num c => .leaf (.scalar c)
  | .arr v => .leaf (.dense v)
  | .sp m => .leaf (.sparse m)

/-- python expression as the user writes it -/
inductive PyExpr
  | tree (t : OpTree)                    -- an operator object
  | raw (r : Raw)
  | bin (op : Op) (a b : PyExpr)
  | neg (a : PyExpr)
  | prevTime (steps : Nat) (a : PyExpr)
  | prevIter (steps : Nat) (a : PyExpr)
  | call1 (f : Func) (a : PyExpr)
  | call2 (f : Func) (a b : PyExpr)
deriving Repr

/-- result of evaluating a python expression: still a raw value, or an operator tree -/
inductive Built
  | raw (r : Raw)
  | tree (t : OpTree)
deriving Repr

/-- `Operator.__pow__` rejects SparseArray ** Scalar / DenseArray at construction -/
def powRejected : OpTree → OpTree → Bool
  | .leaf (.sparse _), .leaf (.scalar _) => true
  | .leaf (.sparse _), .leaf (.dense _) => true
  | _, _ => false

/-- `Operator.__op__(self, other)`: children `[self, other]` -/
def mkNode (op : Op) (a b : OpTree) : R OpTree :=
  if op == .pow && powRejected a b then .error .valueError else .ok (.bin op a b)

/-- `Operator.__neg__` and its overrides in Scalar / DenseArray / SparseArray -/
def negTree : OpTree → OpTree
  | .leaf (.scalar c) => .leaf (.scalar (-c))
  | .leaf (.dense v) => .leaf (.dense (v.map (- ·)))
  | .leaf (.sparse m) => .leaf (.sparse ⟨m.nc, m.rows.map gneg⟩)
  | t => .bin .mul (.leaf (.scalar (-1))) t

/-- the reverse overloads: `raw ∘ operator`.  `__radd__` calls `__add__` (children `[self, other]`),
    the others build the node with the children in mathematical order `[other, self]`. -/
def mkReverse (op : Op) (r : Raw) (t : OpTree) : R OpTree :=
  match op with
  | .add => .ok (.bin .add t r.wrap)
  | .pow =>
      match r with
      | .sp _ => .error .unsupported          -- scipy's own `**` raises before python tries `__rpow__`
      | _ => .ok (.bin .pow r.wrap t)
  | o => .ok (.bin o r.wrap t)

def build : PyExpr → R Built
  | .tree t => .ok (.tree t)
  | .raw r => .ok (.raw r)
  | .bin op a b => do
      let x ← build a
      let y ← build b
      match x, y with
      | .tree s, .tree t => do let n ← mkNode op s t; pure (.tree n)
      | .tree s, .raw r => pure (.tree (.bin op s r.wrap))   -- the `__pow__` check looks for Scalar / DenseArray objects only
      | .raw r, .tree t => do let n ← mkReverse op r t; pure (.tree n)
      | .raw _, .raw _ => .error .unsupported      -- plain numpy arithmetic, no operator involved
  | .neg a => do
      match ← build a with
      | .tree t => pure (.tree (negTree t))
      | .raw _ => .error .unsupported
  | .prevTime steps a => do
      match ← build a with
      | .tree t => do let s ← shiftTime steps t; pure (.tree s)
      | .raw _ => .error .unsupported
  | .prevIter steps a => do
      match ← build a with
      | .tree t => do let s ← shiftIter steps t; pure (.tree s)
      | .raw _ => .error .unsupported
  | .call1 f a => do
      match ← build a with
      | .tree t => pure (.tree (.func1 f t))
      | .raw _ => .error .unsupported
  | .call2 f a b => do
      let x ← build a
      let y ← build b
      match x, y with
      | .tree s, .tree t => pure (.tree (.func2 f s t))
      | _, _ => .error .unsupported

/-! ### notions used in the statements -/

/-- number, vector, matrix or AdArray (not a slicer) -/
def Value.isData : Value → Bool
  | .slicer _ => false
  | .slicers _ => false
  | _ => true

/-- the values of a result as a vector (what `.val` of the AdArray returned with derivative=True holds) -/
def valOf : Value → Option Vec
  | .scalar c => some [c]
  | .vec v => some v
  | .ad a => some (vals a)
  | _ => none

/-- stored global vectors have the length of the state vector -/
def EnvWF (e : Env) : Prop :=
  (∀ v ∈ e.timeVals, v.length = e.N) ∧ (∀ v ∈ e.iterVals, v.length = e.N)

/-- every variable leaf is taken at a previous time step or a previous iterate -/
def OpTree.noCurrent : OpTree → Bool
  | .leaf (.var _ _ t i) => decide (0 ≤ t) || decide (0 ≤ i)
  | .leaf _ => true
  | .projList _ => true
  | .bin _ a b => a.noCurrent && b.noCurrent
  | .func1 _ a => a.noCurrent
  | .func2 _ a b => a.noCurrent && b.noCurrent

/-- no variable leaf is at a previous iterate (so that `previous_timestep` is defined on the tree) -/
def OpTree.noPrevIter : OpTree → Bool
  | .leaf (.var _ _ _ i) => decide (i < 0)
  | .leaf _ => true
  | .projList _ => true
  | .bin _ a b => a.noPrevIter && b.noPrevIter
  | .func1 _ a => a.noPrevIter
  | .func2 _ a b => a.noPrevIter && b.noPrevIter

/-- private indices are `-1` (current) or a stored index -/
def OpTree.indexOk : OpTree → Bool
  | .leaf (.var _ _ t i) => decide (-1 ≤ t) && decide (-1 ≤ i)
  | .leaf _ => true
  | .projList _ => true
  | .bin _ a b => a.indexOk && b.indexOk
  | .func1 _ a => a.indexOk
  | .func2 _ a b => a.indexOk && b.indexOk

/-- the Jacobian rows of an AdArray -/
def jacRows (a : Ad) : List (List Rat) := a.map (·.g)

/-- decidable form of `EnvWF` (checked by the driver on every case) -/
def envWFb (e : Env) : Bool :=
  e.timeVals.all (fun v => v.length == e.N) && e.iterVals.all (fun v => v.length == e.N)

/-- every operator object appearing in a python expression has private indices `-1` or stored ones
    (what the constructors of Variable / TimeDependentDenseArray produce: `-1`) -/
def PyExpr.leavesOk : PyExpr → Bool
  | .tree t => t.indexOk
  | .raw _ => true
  | .bin _ a b => a.leavesOk && b.leavesOk
  | .neg a => a.leavesOk
  | .prevTime _ a => a.leavesOk
  | .prevIter _ a => a.leavesOk
  | .call1 _ a => a.leavesOk
  | .call2 _ a b => a.leavesOk && b.leavesOk

def Built.indexOk : Built → Bool
  | .tree t => t.indexOk
  | .raw _ => true

/-- `AdParser.evaluate` with the option `state=None`: the values stored at iterate index 0 -/
def withState (e : Env) (state : Option Vec) : R Env :=
  match state with
  | some s => .ok { e with state := s }
  | none =>
    match e.iterVals[0]? with
    | some s => .ok { e with state := s }
    | none => .error .keyError

def evaluateOpt (deriv : Bool) (e : Env) (state : Option Vec) (t : OpTree) : R Value := do
  let e' ← withState e state
  evaluate deriv e' t

/-- the deprecated entry points `Operator.value_and_jacobian` / `Operator.value`: they call
    `EquationSystem.evaluate` and (the first) repeat the wrapping into an AdArray -/
def valueAndJacobian (e : Env) (state : Option Vec) (t : OpTree) : R Value := do
  let e' ← withState e state
  let v ← evaluate true e' t
  finish e'.N true v

def valueOnly (e : Env) (state : Option Vec) (t : OpTree) : R Value := evaluateOpt false e state t

end PorepyVerif.C02
