/-
C32 — helper lemmas: polynomial identities of 3-vectors / 3×3 matrices over `Rat`.
-/
import PorepyVerif.C32.Model
import Mathlib.Tactic.Ring
import Mathlib.Tactic.FieldSimp
import Mathlib.Tactic.LinearCombination
import Mathlib.Tactic.Linarith
import Mathlib.Tactic.Positivity
import Mathlib.Analysis.SpecialFunctions.Trigonometric.Inverse

namespace PorepyVerif.C32
open V3 M3

theorem V3.ext' {a b : V3} (hx : a.x = b.x) (hy : a.y = b.y) (hz : a.z = b.z) : a = b := by
  cases a; cases b; simp_all

theorem M3.ext' {A B : M3}
    (h11 : A.a11 = B.a11) (h12 : A.a12 = B.a12) (h13 : A.a13 = B.a13)
    (h21 : A.a21 = B.a21) (h22 : A.a22 = B.a22) (h23 : A.a23 = B.a23)
    (h31 : A.a31 = B.a31) (h32 : A.a32 = B.a32) (h33 : A.a33 = B.a33) : A = B := by
  cases A; cases B; simp_all

theorem M2.ext' {A B : M2} (h11 : A.a11 = B.a11) (h12 : A.a12 = B.a12)
    (h21 : A.a21 = B.a21) (h22 : A.a22 = B.a22) : A = B := by
  cases A; cases B; simp_all

theorem V2.ext' {a b : V2} (hx : a.x = b.x) (hy : a.y = b.y) : a = b := by
  cases a; cases b; simp_all

/-- the quadratic matrix polynomial in `W = skew v` that both `rotationMatrix` and `rodrigues` are -/
def quad (a b : Rat) (v : V3) : M3 :=
  M3.add (M3.add M3.id (M3.smul a (skew v))) (M3.smul b (M3.mul (skew v) (skew v)))

theorem rotationMatrix_eq_quad (s c : Rat) (w : V3) : rotationMatrix s c w = quad s (1 - c) w := rfl

theorem rodrigues_eq_quad (n r : V3) : rodrigues n r = quad 1 (1 / (1 + dot n r)) (cross n r) := by
  unfold rodrigues quad
  apply M3.ext' <;> simp [M3.add, M3.smul, M3.mul, M3.id, skew]

theorem quad_scale (a b k : Rat) (v : V3) :
    quad a b (V3.smul k v) = quad (a * k) (b * k * k) v := by
  apply M3.ext' <;> simp only [quad, M3.add, M3.smul, M3.mul, M3.id, skew, V3.smul] <;> ring

/-- `RᵀR = I + (2b − a² − b²|v|²) W²` for `R = I + aW + bW²` (uses `W³ = −|v|² W`). -/
theorem quad_orth (a b : Rat) (v : V3) :
    M3.mul (M3.transpose (quad a b v)) (quad a b v)
      = M3.add M3.id (M3.smul (2 * b - a * a - b * b * normSq v) (M3.mul (skew v) (skew v))) := by
  apply M3.ext' <;>
    simp only [quad, M3.add, M3.smul, M3.mul, M3.id, M3.transpose, skew, normSq, dot] <;> ring

/-- `det (I + aW + bW²) = (1 − b|v|²)² + a²|v|²`. -/
theorem quad_det (a b : Rat) (v : V3) :
    M3.det (quad a b v) = (1 - b * normSq v) ^ 2 + a * a * normSq v := by
  simp only [quad, M3.add, M3.smul, M3.mul, M3.id, M3.det, skew, normSq, dot]; ring

/-- the rotation axis is fixed -/
theorem quad_mulVec_axis (a b : Rat) (v : V3) : mulVec (quad a b v) v = v := by
  apply V3.ext' <;> simp only [quad, M3.add, M3.smul, M3.mul, M3.id, mulVec, skew] <;> ring

theorem normSq_nonneg (v : V3) : 0 ≤ normSq v := by
  have hx := mul_self_nonneg v.x
  have hy := mul_self_nonneg v.y
  have hz := mul_self_nonneg v.z
  simp only [normSq, dot]; linarith

/-- Lagrange identity `|n × r|² = |n|²|r|² − (n·r)²`. -/
theorem lagrange (n r : V3) : normSq (cross n r) = normSq n * normSq r - dot n r * dot n r := by
  simp only [normSq, dot, cross]; ring

/-- image of `n` under `I + W + kW²`, `W = skew (n × r)` (triple-product expansions). -/
theorem quad_mulVec_n (k : Rat) (n r : V3) :
    mulVec (quad 1 k (cross n r)) n
      = V3.add (V3.smul (1 - dot n r + k * (dot n r * dot n r - normSq n * normSq r)) n)
          (V3.smul (normSq n) r) := by
  apply V3.ext' <;>
    simp only [quad, M3.add, M3.smul, M3.mul, M3.id, mulVec, skew, cross, normSq, dot, V3.add, V3.smul] <;>
    ring

theorem mul_assoc3 (A B C : M3) : M3.mul (M3.mul A B) C = M3.mul A (M3.mul B C) := by
  apply M3.ext' <;> simp only [M3.mul] <;> ring

theorem det_mul (A B : M3) : M3.det (M3.mul A B) = M3.det A * M3.det B := by
  simp only [M3.det, M3.mul]; ring

theorem det_transpose (A : M3) : M3.det (M3.transpose A) = M3.det A := by
  simp only [M3.det, M3.transpose]; ring

theorem det_id : M3.det M3.id = 1 := by simp [M3.det, M3.id]

theorem mul_adj (A : M3) : M3.mul A (M3.adj A) = M3.smul (M3.det A) M3.id := by
  apply M3.ext' <;> simp only [M3.mul, M3.adj, M3.smul, M3.id, M3.det] <;> ring

theorem mul_id (A : M3) : M3.mul A M3.id = A := by
  apply M3.ext' <;> simp only [M3.mul, M3.id] <;> ring

theorem id_mul (A : M3) : M3.mul M3.id A = A := by
  apply M3.ext' <;> simp only [M3.mul, M3.id] <;> ring

theorem mul_smul (A B : M3) (k : Rat) : M3.mul A (M3.smul k B) = M3.smul k (M3.mul A B) := by
  apply M3.ext' <;> simp only [M3.mul, M3.smul] <;> ring

theorem smul_smul (A : M3) (k l : Rat) : M3.smul k (M3.smul l A) = M3.smul (k * l) A := by
  apply M3.ext' <;> simp only [M3.smul] <;> ring

theorem one_smul (A : M3) : M3.smul 1 A = A := by
  apply M3.ext' <;> simp only [M3.smul] <;> ring

theorem add_zero_smul (A B : M3) : M3.add A (M3.smul 0 B) = A := by
  apply M3.ext' <;> simp only [M3.smul, M3.add] <;> ring

/-- a left inverse is THE inverse computed by Cramer's rule -/
theorem inv_eq_of_mul_eq_id (B C : M3) (h : M3.mul C B = M3.id) : M3.inv B = C := by
  have hd : M3.det C * M3.det B = 1 := by rw [← det_mul, h, det_id]
  have hB : M3.det B ≠ 0 := by
    intro h0; rw [h0] at hd; simp at hd
  have h1 : M3.mul C (M3.mul B (M3.adj B)) = M3.adj B := by
    rw [← mul_assoc3, h, id_mul]
  rw [mul_adj, mul_smul, mul_id] at h1
  unfold M3.inv
  rw [← h1, smul_smul]
  have : 1 / M3.det B * M3.det B = 1 := by field_simp
  rw [this, one_smul]

/-- a left inverse of a 3×3 matrix is a right inverse -/
theorem mul_eq_id_comm (B C : M3) (h : M3.mul C B = M3.id) : M3.mul B C = M3.id := by
  have hinv := inv_eq_of_mul_eq_id B C h
  have hd : M3.det C * M3.det B = 1 := by rw [← det_mul, h, det_id]
  have hB : M3.det B ≠ 0 := by
    intro h0; rw [h0] at hd; simp at hd
  rw [← hinv]
  unfold M3.inv
  rw [mul_smul, mul_adj, smul_smul]
  have : 1 / M3.det B * M3.det B = 1 := by field_simp
  rw [this, one_smul]

/-- 2×2: a left inverse is THE inverse computed by `M2.inv` -/
theorem inv2_eq_of_mul_eq_id (B C : M2) (h : M2.mul C B = M2.id) : M2.inv B = C := by
  have h11 : C.a11 * B.a11 + C.a12 * B.a21 = 1 := congrArg M2.a11 h
  have h12 : C.a11 * B.a12 + C.a12 * B.a22 = 0 := congrArg M2.a12 h
  have h21 : C.a21 * B.a11 + C.a22 * B.a21 = 0 := congrArg M2.a21 h
  have h22 : C.a21 * B.a12 + C.a22 * B.a22 = 1 := congrArg M2.a22 h
  have hd : M2.det C * M2.det B = 1 := by
    have : M2.det (M2.mul C B) = M2.det C * M2.det B := by simp only [M2.det, M2.mul]; ring
    rw [← this, h]; simp [M2.det, M2.id]
  have hB : M2.det B ≠ 0 := by
    intro h0; rw [h0] at hd; simp at hd
  have e11 : C.a11 * M2.det B = B.a22 := by
    simp only [M2.det]; linear_combination B.a22 * h11 - B.a21 * h12
  have e12 : C.a12 * M2.det B = -B.a12 := by
    simp only [M2.det]; linear_combination B.a11 * h12 - B.a12 * h11
  have e21 : C.a21 * M2.det B = -B.a21 := by
    simp only [M2.det]; linear_combination B.a22 * h21 - B.a21 * h22
  have e22 : C.a22 * M2.det B = B.a11 := by
    simp only [M2.det]; linear_combination B.a11 * h22 - B.a12 * h21
  apply M2.ext' <;> simp only [M2.inv]
  · rw [← e11]; field_simp
  · rw [← e12]; field_simp
  · rw [← e21]; field_simp
  · rw [← e22]; field_simp

/-- `(A x)·(A y) = x·((AᵀA) y)` -/
theorem dot_mulVec (A : M3) (x y : V3) :
    dot (mulVec A x) (mulVec A y) = dot x (mulVec (M3.mul (M3.transpose A) A) y) := by
  simp only [dot, mulVec, M3.mul, M3.transpose]; ring

theorem mulVec_id (x : V3) : mulVec M3.id x = x := by
  apply V3.ext' <;> simp only [mulVec, M3.id] <;> ring

theorem mulVec_sub (A : M3) (x y : V3) : mulVec A (V3.sub x y) = V3.sub (mulVec A x) (mulVec A y) := by
  apply V3.ext' <;> simp only [mulVec, V3.sub] <;> ring

/-- an orthogonal matrix preserves inner products -/
theorem dot_mulVec_of_orth (A : M3) (h : M3.mul (M3.transpose A) A = M3.id) (x y : V3) :
    dot (mulVec A x) (mulVec A y) = dot x y := by
  rw [dot_mulVec, h, mulVec_id]

/-- under `|n| = |r| = 1`, `c ≠ −1`: the coefficient of `W²` in `RᵀR − I` vanishes -/
theorem rod_coeff (n r : V3) (hn : normSq n = 1) (hr : normSq r = 1) (hc : dot n r ≠ -1) :
    2 * (1 / (1 + dot n r)) - 1 * 1 - (1 / (1 + dot n r)) * (1 / (1 + dot n r)) * normSq (cross n r) = 0 := by
  have h1 : 1 + dot n r ≠ 0 := fun h => hc (by linarith)
  rw [lagrange, hn, hr]
  field_simp
  ring

/-! ### sums over point lists -/

theorem dot_sumV (m : V3) (pts : List V3) (d : Rat) (h : ∀ p ∈ pts, dot m p = d) :
    dot m (sumV pts) = (pts.length : Rat) * d := by
  induction pts with
  | nil => simp [sumV, V3.zero, dot]
  | cons p ps ih =>
    have hp := h p (List.mem_cons_self ..)
    have ih' := ih (fun q hq => h q (List.mem_cons_of_mem _ hq))
    have : dot m (V3.add p (sumV ps)) = dot m p + dot m (sumV ps) := by
      simp only [dot, V3.add]; ring
    simp only [sumV, this, hp, ih', List.length_cons, Nat.cast_add, Nat.cast_one]; ring

/-- the mean of points of the plane `m·p = d` lies in that plane -/
theorem dot_mean (m : V3) (pts : List V3) (d : Rat) (hne : pts ≠ []) (h : ∀ p ∈ pts, dot m p = d) :
    dot m (mean pts) = d := by
  have hl : (pts.length : Rat) ≠ 0 := by
    have : pts.length ≠ 0 := fun h0 => hne (List.eq_nil_of_length_eq_zero h0)
    exact_mod_cast this
  have : dot m (mean pts) = 1 / (pts.length : Rat) * dot m (sumV pts) := by
    simp only [mean, dot, V3.smul]; ring
  rw [this, dot_sumV m pts d h]
  field_simp

/-- every centred vector of a planar set is orthogonal to the plane normal -/
theorem dot_centered (m : V3) (pts : List V3) (d : Rat) (h : ∀ p ∈ pts, dot m p = d) :
    ∀ v ∈ centered pts, dot m v = 0 := by
  intro v hv
  unfold centered at hv
  obtain ⟨p, hp, rfl⟩ := List.mem_map.mp hv
  have hne : pts ≠ [] := fun h0 => by simp [h0] at hp
  have h1 : dot m (V3.sub p (mean pts)) = dot m p - dot m (mean pts) := by
    simp only [dot, V3.sub]; ring
  rw [h1, h p hp, dot_mean m pts d hne h]; ring

theorem maxBy_mem {α : Type} (f : α → Rat) (best : α) (l : List α) :
    maxBy f best l = best ∨ maxBy f best l ∈ l := by
  induction l generalizing best with
  | nil => left; rfl
  | cons a as ih =>
    simp only [maxBy]
    split
    · rcases ih a with h | h
      · right; rw [h]; exact List.mem_cons_self ..
      · right; exact List.mem_cons_of_mem _ h
    · rcases ih best with h | h
      · left; exact h
      · right; exact List.mem_cons_of_mem _ h

theorem maxBy_mem_cons {α : Type} (f : α → Rat) (best : α) (l : List α) :
    maxBy f best l ∈ best :: l := by
  rcases maxBy_mem f best l with h | h
  · rw [h]; exact List.mem_cons_self ..
  · exact List.mem_cons_of_mem _ h

/-- `a, b ⟂ m`, `w ⟂ m`, `m ≠ 0` ⇒ `(a × b) · w = 0` (all three lie in a 2-D subspace). -/
theorem cross_dot_of_perp (m a b w : V3) (hm : normSq m ≠ 0)
    (ha : dot m a = 0) (hb : dot m b = 0) (hw : dot m w = 0) : dot (cross a b) w = 0 := by
  -- |m|² (a×b)·w = (m·(a×b))(m·w) + ((a×b)×m)·(w×m)  and  (a×b)×m = b (a·m) − a (b·m)
  have key3 : normSq m * dot (cross a b) w - dot m (cross a b) * dot m w
           - dot m a * dot (cross b w) m - dot m b * dot (cross w a) m = 0 := by
    simp only [normSq, dot, cross]; ring
  have : normSq m * dot (cross a b) w = 0 := by
    linear_combination key3 + (dot m (cross a b)) * hw + (dot (cross b w) m) * ha
      + (dot (cross w a) m) * hb
  rcases mul_eq_zero.mp this with h | h
  · exact absurd h hm
  · exact h

/-! ### vectors and matrices over an arbitrary field (statements with square roots / trigonometry) -/

structure V3F (K : Type) where
  x : K
  y : K
  z : K

structure M3F (K : Type) where
  a11 : K
  a12 : K
  a13 : K
  a21 : K
  a22 : K
  a23 : K
  a31 : K
  a32 : K
  a33 : K

theorem V3F.ext' {K : Type} {a b : V3F K} (hx : a.x = b.x) (hy : a.y = b.y) (hz : a.z = b.z) : a = b := by
  cases a; cases b; simp_all

theorem M3F.ext' {K : Type} {A B : M3F K}
    (h11 : A.a11 = B.a11) (h12 : A.a12 = B.a12) (h13 : A.a13 = B.a13)
    (h21 : A.a21 = B.a21) (h22 : A.a22 = B.a22) (h23 : A.a23 = B.a23)
    (h31 : A.a31 = B.a31) (h32 : A.a32 = B.a32) (h33 : A.a33 = B.a33) : A = B := by
  cases A; cases B; simp_all

section field
variable {K : Type} [Field K]

namespace V3F
def smul (k : K) (a : V3F K) : V3F K := ⟨k * a.x, k * a.y, k * a.z⟩
def sub (a b : V3F K) : V3F K := ⟨a.x - b.x, a.y - b.y, a.z - b.z⟩
def add (a b : V3F K) : V3F K := ⟨a.x + b.x, a.y + b.y, a.z + b.z⟩
def dot (a b : V3F K) : K := a.x * b.x + a.y * b.y + a.z * b.z
def cross (a b : V3F K) : V3F K := ⟨a.y * b.z - a.z * b.y, a.z * b.x - a.x * b.z, a.x * b.y - a.y * b.x⟩
def normSq (a : V3F K) : K := dot a a
end V3F

namespace M3F
def id : M3F K := ⟨1, 0, 0, 0, 1, 0, 0, 0, 1⟩
def add (A B : M3F K) : M3F K :=
  ⟨A.a11 + B.a11, A.a12 + B.a12, A.a13 + B.a13,
   A.a21 + B.a21, A.a22 + B.a22, A.a23 + B.a23,
   A.a31 + B.a31, A.a32 + B.a32, A.a33 + B.a33⟩
def smul (k : K) (A : M3F K) : M3F K :=
  ⟨k * A.a11, k * A.a12, k * A.a13, k * A.a21, k * A.a22, k * A.a23, k * A.a31, k * A.a32, k * A.a33⟩
def mul (A B : M3F K) : M3F K :=
  ⟨A.a11 * B.a11 + A.a12 * B.a21 + A.a13 * B.a31,
   A.a11 * B.a12 + A.a12 * B.a22 + A.a13 * B.a32,
   A.a11 * B.a13 + A.a12 * B.a23 + A.a13 * B.a33,
   A.a21 * B.a11 + A.a22 * B.a21 + A.a23 * B.a31,
   A.a21 * B.a12 + A.a22 * B.a22 + A.a23 * B.a32,
   A.a21 * B.a13 + A.a22 * B.a23 + A.a23 * B.a33,
   A.a31 * B.a11 + A.a32 * B.a21 + A.a33 * B.a31,
   A.a31 * B.a12 + A.a32 * B.a22 + A.a33 * B.a32,
   A.a31 * B.a13 + A.a32 * B.a23 + A.a33 * B.a33⟩
def skew (v : V3F K) : M3F K := ⟨0, -v.z, v.y, v.z, 0, -v.x, -v.y, v.x, 0⟩
end M3F

/-- `I + a W + b W²`, `W = skew v`, with the products spelled out as `np.linalg.matrix_power(W, 2)` -/
def quadF (a b : K) (v : V3F K) : M3F K :=
  M3F.add (M3F.add M3F.id (M3F.smul a (M3F.skew v))) (M3F.smul b (M3F.mul (M3F.skew v) (M3F.skew v)))

theorem quadF_scale (a b k : K) (v : V3F K) :
    quadF a b (V3F.smul k v) = quadF (a * k) (b * k * k) v := by
  apply M3F.ext' <;> simp only [quadF, M3F.add, M3F.smul, M3F.mul, M3F.id, M3F.skew, V3F.smul] <;> ring

end field

/-- the rational model embedded in ℝ -/
def castV (v : V3) : V3F ℝ := ⟨(v.x : ℝ), (v.y : ℝ), (v.z : ℝ)⟩
def castM (A : M3) : M3F ℝ :=
  ⟨(A.a11 : ℝ), (A.a12 : ℝ), (A.a13 : ℝ), (A.a21 : ℝ), (A.a22 : ℝ), (A.a23 : ℝ),
   (A.a31 : ℝ), (A.a32 : ℝ), (A.a33 : ℝ)⟩

/-- `rotation_matrix(a, vect)` AS CODED, over ℝ (after its `allclose` test):
    `vect = vect / np.linalg.norm(vect)`, `W = [vect]×`, `I + sin a · W + (1 − cos a) · W²`. -/
noncomputable def rotationMatrixCoded (a : ℝ) (vect : V3F ℝ) : M3F ℝ :=
  let w := V3F.smul (1 / Real.sqrt (V3F.normSq vect)) vect
  M3F.add (M3F.add M3F.id (M3F.smul (Real.sin a) (M3F.skew w)))
    (M3F.smul (1 - Real.cos a) (M3F.mul (M3F.skew w) (M3F.skew w)))


/-! ### Gram–Schmidt of `_construct_local_basis` (3-D) over a field with a square root -/

section gs
variable {K : Type} [Field K]

/-- `sq` is a square root at `x` -/
def IsSqrtAt (sq : K → K) (x : K) : Prop := sq x * sq x = x

/-- `v / np.linalg.norm(v)` with `‖v‖ = sq (‖v‖²)` -/
def unitF (sq : K → K) (v : V3F K) : V3F K := V3F.smul (1 / sq (V3F.normSq v)) v

/-- first tangent before normalisation when the maximal direction of the normal is `i` and the
    normal is not aligned with that axis: `t[a] = −n[b]`, `t[b] = n[a]` for the other directions -/
def gsTangent1 (i : Fin 3) (n : V3F K) : V3F K :=
  match i with
  | 0 => ⟨0, -n.z, n.y⟩
  | 1 => ⟨-n.z, 0, n.x⟩
  | 2 => ⟨-n.y, n.x, 0⟩

def OrthonormalF (t1 t2 n : V3F K) : Prop :=
  V3F.normSq t1 = 1 ∧ V3F.normSq t2 = 1 ∧ V3F.normSq n = 1
    ∧ V3F.dot t1 t2 = 0 ∧ V3F.dot t1 n = 0 ∧ V3F.dot t2 n = 0

theorem unitF_normSq (sq : K → K) (v : V3F K) (h0 : V3F.normSq v ≠ 0)
    (hs : IsSqrtAt sq (V3F.normSq v)) : V3F.normSq (unitF sq v) = 1 := by
  have hs0 : sq (V3F.normSq v) ≠ 0 := by
    intro h; unfold IsSqrtAt at hs; rw [h] at hs; exact h0 (by rw [← hs]; ring)
  have e : V3F.normSq (unitF sq v)
      = (1 / sq (V3F.normSq v)) * (1 / sq (V3F.normSq v)) * V3F.normSq v := by
    simp only [unitF, V3F.normSq, V3F.dot, V3F.smul]; ring
  rw [e]
  have : (1 / sq (V3F.normSq v)) * (1 / sq (V3F.normSq v)) * (sq (V3F.normSq v) * sq (V3F.normSq v)) = 1 := by
    field_simp
  unfold IsSqrtAt at hs
  rw [hs] at this
  exact this

theorem dotF_smul_left (k : K) (a b : V3F K) : V3F.dot (V3F.smul k a) b = k * V3F.dot a b := by
  simp only [V3F.dot, V3F.smul]; ring

theorem dotF_comm (a b : V3F K) : V3F.dot a b = V3F.dot b a := by
  simp only [V3F.dot]; ring

theorem lagrangeF (a b : V3F K) :
    V3F.normSq (V3F.cross a b) = V3F.normSq a * V3F.normSq b - V3F.dot a b * V3F.dot a b := by
  simp only [V3F.normSq, V3F.dot, V3F.cross]; ring

theorem gsTangent1_perp (i : Fin 3) (n : V3F K) : V3F.dot (gsTangent1 i n) n = 0 := by
  match i with
  | 0 => simp only [gsTangent1, V3F.dot]; ring
  | 1 => simp only [gsTangent1, V3F.dot]; ring
  | 2 => simp only [gsTangent1, V3F.dot]; ring

end gs

end PorepyVerif.C32
