/-
C32 — executable model of the coordinate maps of `porepy.geometry.map_geometry`
(`rotation_matrix`, `project_plane_matrix`, `project_line_matrix`, `compute_normal`,
`compute_tangent`, `compute_normals_1d`, the point map of `map_grid`) and of the local bases of
`porepy.utils.tangential_normal_projection.TangentialNormalProjection` (core Lean only).

Everything is over `Rat`.  The code normalises vectors (`x / np.linalg.norm(x)`) and evaluates
`arccos`, `sin`, `cos`; none of that is rational.  The model therefore

* takes UNIT vectors where the code has just normalised one (the square root is outside), and
* uses the closed form of the Rodrigues matrix for the angle between two unit vectors
  (`rodrigues`), which is rational in the inputs; `rotationMatrix s c w` is the formula of
  `rotation_matrix(a, vect)` itself with `s = sin a`, `c = cos a`, `w = vect/|vect|` as parameters.
  `Props.rotationMatrix_eq_rodrigues` shows that the two coincide when `s = |n × ref|`,
  `c = n · ref` (what `sin (arccos c)`, `cos (arccos c)` are; that trigonometric step is outside).

Vectors of length 3 / 2 and 3×3 / 2×2 matrices are explicit tuples.
-/
namespace PorepyVerif.C32

/-- absolute value on `Rat` -/
def rabs (q : Rat) : Rat := if q < 0 then -q else q

structure V3 where
  x : Rat
  y : Rat
  z : Rat
deriving DecidableEq, Repr

structure M3 where
  a11 : Rat
  a12 : Rat
  a13 : Rat
  a21 : Rat
  a22 : Rat
  a23 : Rat
  a31 : Rat
  a32 : Rat
  a33 : Rat
deriving DecidableEq, Repr

namespace V3
def zero : V3 := ⟨0, 0, 0⟩
def ex : V3 := ⟨1, 0, 0⟩
def ey : V3 := ⟨0, 1, 0⟩
def ez : V3 := ⟨0, 0, 1⟩
def add (a b : V3) : V3 := ⟨a.x + b.x, a.y + b.y, a.z + b.z⟩
def sub (a b : V3) : V3 := ⟨a.x - b.x, a.y - b.y, a.z - b.z⟩
def neg (a : V3) : V3 := ⟨-a.x, -a.y, -a.z⟩
def smul (k : Rat) (a : V3) : V3 := ⟨k * a.x, k * a.y, k * a.z⟩
def dot (a b : V3) : Rat := a.x * b.x + a.y * b.y + a.z * b.z
/-- the cross product exactly as spelled out in `project_plane_matrix` / `compute_normal` -/
def cross (a b : V3) : V3 := ⟨a.y * b.z - a.z * b.y, a.z * b.x - a.x * b.z, a.x * b.y - a.y * b.x⟩
def normSq (a : V3) : Rat := dot a a
end V3

namespace M3
def id : M3 := ⟨1, 0, 0, 0, 1, 0, 0, 0, 1⟩
def add (A B : M3) : M3 :=
  ⟨A.a11 + B.a11, A.a12 + B.a12, A.a13 + B.a13,
   A.a21 + B.a21, A.a22 + B.a22, A.a23 + B.a23,
   A.a31 + B.a31, A.a32 + B.a32, A.a33 + B.a33⟩
def smul (k : Rat) (A : M3) : M3 :=
  ⟨k * A.a11, k * A.a12, k * A.a13, k * A.a21, k * A.a22, k * A.a23, k * A.a31, k * A.a32, k * A.a33⟩
def mul (A B : M3) : M3 :=
  ⟨A.a11 * B.a11 + A.a12 * B.a21 + A.a13 * B.a31,
   A.a11 * B.a12 + A.a12 * B.a22 + A.a13 * B.a32,
   A.a11 * B.a13 + A.a12 * B.a23 + A.a13 * B.a33,
   A.a21 * B.a11 + A.a22 * B.a21 + A.a23 * B.a31,
   A.a21 * B.a12 + A.a22 * B.a22 + A.a23 * B.a32,
   A.a21 * B.a13 + A.a22 * B.a23 + A.a23 * B.a33,
   A.a31 * B.a11 + A.a32 * B.a21 + A.a33 * B.a31,
   A.a31 * B.a12 + A.a32 * B.a22 + A.a33 * B.a32,
   A.a31 * B.a13 + A.a32 * B.a23 + A.a33 * B.a33⟩
def transpose (A : M3) : M3 := ⟨A.a11, A.a21, A.a31, A.a12, A.a22, A.a32, A.a13, A.a23, A.a33⟩
def det (A : M3) : Rat :=
  A.a11 * (A.a22 * A.a33 - A.a23 * A.a32) - A.a12 * (A.a21 * A.a33 - A.a23 * A.a31)
    + A.a13 * (A.a21 * A.a32 - A.a22 * A.a31)
def mulVec (A : M3) (v : V3) : V3 :=
  ⟨A.a11 * v.x + A.a12 * v.y + A.a13 * v.z,
   A.a21 * v.x + A.a22 * v.y + A.a23 * v.z,
   A.a31 * v.x + A.a32 * v.y + A.a33 * v.z⟩
/-- the matrix `W` of `rotation_matrix`: `W u = v × u` -/
def skew (v : V3) : M3 := ⟨0, -v.z, v.y, v.z, 0, -v.x, -v.y, v.x, 0⟩
def ofRows (r1 r2 r3 : V3) : M3 := ⟨r1.x, r1.y, r1.z, r2.x, r2.y, r2.z, r3.x, r3.y, r3.z⟩
def ofCols (c1 c2 c3 : V3) : M3 := ⟨c1.x, c2.x, c3.x, c1.y, c2.y, c3.y, c1.z, c2.z, c3.z⟩
/-- adjugate (transposed cofactor matrix) -/
def adj (A : M3) : M3 :=
  ⟨A.a22 * A.a33 - A.a23 * A.a32, A.a13 * A.a32 - A.a12 * A.a33, A.a12 * A.a23 - A.a13 * A.a22,
   A.a23 * A.a31 - A.a21 * A.a33, A.a11 * A.a33 - A.a13 * A.a31, A.a13 * A.a21 - A.a11 * A.a23,
   A.a21 * A.a32 - A.a22 * A.a31, A.a12 * A.a31 - A.a11 * A.a32, A.a11 * A.a22 - A.a12 * A.a21⟩
/-- `np.linalg.inv` of a 3×3 block (exact: Cramer's rule) -/
def inv (A : M3) : M3 := smul (1 / det A) (adj A)
end M3

open V3 M3

/-! ### `rotation_matrix`, `project_plane_matrix`, `project_line_matrix` -/

/-- `rotation_matrix(a, vect)` after its normalisation step: `I + sin a · W + (1 − cos a) · W²`
    with `s = sin a`, `c = cos a`, `W = skew w`, `w = vect / |vect|`. -/
def rotationMatrix (s c : Rat) (w : V3) : M3 :=
  M3.add (M3.add M3.id (M3.smul s (skew w))) (M3.smul (1 - c) (M3.mul (skew w) (skew w)))

/-- Rodrigues matrix of the rotation about `n × r` by the angle between the unit vectors `n`, `r`:
    `I + [v]× + [v]×² / (1 + c)`, `v = n × r`, `c = n · r`. -/
def rodrigues (n r : V3) : M3 :=
  let v := cross n r
  M3.add (M3.add M3.id (skew v)) (M3.smul (1 / (1 + dot n r)) (M3.mul (skew v) (skew v)))

/-- `np.allclose(vect, np.zeros(3))`: every `|vᵢ| ≤ atol + rtol·0`; `tol = 1e-8` in the code. -/
def isSmall (tol : Rat) (v : V3) : Bool :=
  decide (rabs v.x ≤ tol) && decide (rabs v.y ≤ tol) && decide (rabs v.z ≤ tol)

/-- `project_plane_matrix(_, normal, reference)` / `project_line_matrix(_, tangent, reference)` for
    a unit `n` (the code has just normalised it): `rotation_matrix(arccos (n·r), n × r)`, which
    returns the identity when `n × r` is (numerically) zero — also for `n = −r`. -/
def projectMatrix (tol : Rat) (n r : V3) : M3 :=
  if isSmall tol (cross n r) then M3.id else rodrigues n r

/-! ### point sets: `compute_normal`, `compute_tangent`, `compute_normals_1d`, `map_grid` -/

def sumV : List V3 → V3
  | [] => V3.zero
  | p :: ps => V3.add p (sumV ps)

/-- `pts.mean(axis=1)` -/
def mean (pts : List V3) : V3 := V3.smul (1 / (pts.length : Rat)) (sumV pts)

/-- `pts - center` -/
def centered (pts : List V3) : List V3 := pts.map (fun p => V3.sub p (mean pts))

/-- `np.argmax` picks the FIRST maximal entry: `best` is replaced only by a strictly larger one. -/
def maxBy {α : Type} (f : α → Rat) : α → List α → α
  | best, [] => best
  | best, a :: as => if f best < f a then maxBy f a as else maxBy f best as

/-- number of entries attaining the maximum (> 1: a tie that rounding may resolve either way) -/
def countMax {α : Type} (f : α → Rat) (l : List α) (m : Rat) : Nat := (l.filter (fun a => f a == m)).length

inductive NormalRes where
  | tooFew                       -- ValueError: fewer than three points
  | collinear                    -- RuntimeError: cross product (numerically) zero
  | ok (raw v1 vk : V3)          -- un-normalised normal `v1 × vk` and the two vectors used
deriving DecidableEq, Repr

/-- `compute_normal(pts, tol)` without its final normalisation.  `v1` = longest centred vector,
    `vk` = centred vector with the longest cross product with `v1`; the collinearity test
    `allclose(normal, 0, atol = tol·|v1|²)` is taken squared: every point is closer than
    `tol·|v1|` to the line through the centre along `v1` (scaling as repaired in /repo; the
    earlier `|v1|·|vk|` let collinear sets with a point at the centre through). -/
def computeNormal (tol : Rat) (pts : List V3) : NormalRes :=
  if pts.length ≤ 2 then .tooFew else
  match centered pts with
  | [] => .tooFew
  | v0 :: vs =>
    let v1 := maxBy normSq v0 vs
    let vk := maxBy (fun v => normSq (cross v1 v)) v0 vs
    let nrm := cross v1 vk
    let bound := tol * tol * (normSq v1 * normSq v1)
    if nrm.x * nrm.x ≤ bound ∧ nrm.y * nrm.y ≤ bound ∧ nrm.z * nrm.z ≤ bound then .collinear
    else .ok nrm v1 vk

/-- `points_are_planar(pts, normal, tol)` with the un-normalised normal `nrm`:
    `‖(n̂ · (pᵢ − centre))ᵢ‖ ≤ tol`, squared and multiplied by `|nrm|²`. -/
def planarOk (tol : Rat) (nrm : V3) (pts : List V3) : Bool :=
  decide (((centered pts).map (fun v => dot nrm v * dot nrm v)).foldr (· + ·) 0 ≤ tol * tol * normSq nrm)

/-- `compute_tangent(pts)` without normalisation: the centred point farthest from the mean;
    `none` = the assertion `not allclose(tangent, 0)` fails. -/
def computeTangent (tol : Rat) (pts : List V3) : Option V3 :=
  match centered pts with
  | [] => none
  | v0 :: vs =>
    let t := maxBy normSq v0 vs
    if isSmall tol t then none else some t

/-- `compute_normals_1d` for the tangent `t`, un-normalised: `n₁ = (t_y, −t_x, 0)` and
    `n₂ = rotation_matrix(π/2, t) n₁ = t × n₁` (for unit `t ⟂ n₁`); for a tangent along the
    z-axis (`t_x = t_y = 0`) the first normal is `e_x` (branch added by the repair in /repo). -/
def normals1d (t : V3) : V3 × V3 :=
  let n1 : V3 := if t.x = 0 ∧ t.y = 0 then V3.ex else ⟨t.y, -t.x, 0⟩
  (n1, cross t n1)

/-- `force_point_collinearity`: a point at relative distance `l = |p − p₀| / |p_end − p₀|` from the
    first point `p₀` is moved to `p₀ (1 − l) + p_end l` (the square roots in `l` are outside). -/
def fpcPoint (p0 pe : V3) (l : Rat) : V3 := V3.add (V3.smul (1 - l) p0) (V3.smul l pe)

/-- `end = np.argmax(dist)`: the (first) point farthest from the first point -/
def fpcEnd : List V3 → Option V3
  | [] => none
  | p0 :: ps => some (maxBy (fun p => normSq (V3.sub p p0)) p0 ps)

def forcePointCollinearity (p0 pe : V3) (lams : List Rat) : List V3 := lams.map (fpcPoint p0 pe)

/-- `np.dot(R, pts)` of `map_grid` -/
def mapPoints (R : M3) (pts : List V3) : List V3 := pts.map (mulVec R)

/-! ### `TangentialNormalProjection` -/

structure V2 where
  x : Rat
  y : Rat
deriving DecidableEq, Repr

structure M2 where
  a11 : Rat
  a12 : Rat
  a21 : Rat
  a22 : Rat
deriving DecidableEq, Repr

namespace M2
def det (A : M2) : Rat := A.a11 * A.a22 - A.a12 * A.a21
/-- `np.linalg.inv` of a 2×2 block -/
def inv (A : M2) : M2 :=
  ⟨1 / det A * A.a22, 1 / det A * (-A.a12), 1 / det A * (-A.a21), 1 / det A * A.a11⟩
def mul (A B : M2) : M2 :=
  ⟨A.a11 * B.a11 + A.a12 * B.a21, A.a11 * B.a12 + A.a12 * B.a22,
   A.a21 * B.a11 + A.a22 * B.a21, A.a21 * B.a12 + A.a22 * B.a22⟩
def transpose (A : M2) : M2 := ⟨A.a11, A.a21, A.a12, A.a22⟩
def id : M2 := ⟨1, 0, 0, 1⟩
def mulVec (A : M2) (v : V2) : V2 := ⟨A.a11 * v.x + A.a12 * v.y, A.a21 * v.x + A.a22 * v.y⟩
def ofCols (c1 c2 : V2) : M2 := ⟨c1.x, c2.x, c1.y, c2.y⟩
end M2

/-- 2-D tangent of `_construct_local_basis` for a unit normal: sign chosen so that the tangent
    points in the positive x-direction; `(0, 1)` when the normal is aligned with the x-axis. -/
def tn2Tangent (n : V2) : V2 :=
  if n.y < 0 then ⟨-n.y, n.x⟩ else if 0 < n.y then ⟨n.y, -n.x⟩ else ⟨0, 1⟩

/-- 2-D projection block: inverse of the basis `[tangent | normal]` (columns). -/
def tn2Projection (n : V2) : M2 := M2.inv (M2.ofCols (tn2Tangent n) n)

/-- determinant the 2-D block has by the sign convention above -/
def tn2Sign (n : V2) : Rat := if n.y < 0 then -1 else if 0 < n.y then 1 else -n.x

/-- `np.argmax(np.abs(normal))`: first index of the largest component in absolute value -/
def argmaxAbs (n : V3) : Nat :=
  if rabs n.x < rabs n.y then (if rabs n.y < rabs n.z then 2 else 1)
  else (if rabs n.x < rabs n.z then 2 else 0)

/-- first 3-D tangent of `_construct_local_basis`, before normalisation.  For the maximal
    direction `i` with the other directions `(a, b)`: `t[a] = −n[b]`, `t[b] = n[a]`; if
    `|(n[a], n[b])| < tol` (`tol = 1e-8`: normal aligned with an axis) then `t[a] = 1`. -/
def tn3Tangent1 (tol : Rat) (n : V3) : V3 :=
  match argmaxAbs n with
  | 0 => if n.y * n.y + n.z * n.z < tol * tol then ⟨0, 1, n.y⟩ else ⟨0, -n.z, n.y⟩
  | 1 => if n.x * n.x + n.z * n.z < tol * tol then ⟨1, 0, n.x⟩ else ⟨-n.z, 0, n.x⟩
  | _ => if n.x * n.x + n.y * n.y < tol * tol then ⟨1, n.x, 0⟩ else ⟨-n.y, n.x, 0⟩

/-- second tangent `np.cross(normal, tc1)` -/
def tn3Tangent2 (n t1 : V3) : V3 := cross n t1

/-- 3-D projection block: inverse of the basis `[t1 | t2 | normal]` (columns, all normalised). -/
def tn3Projection (t1 t2 n : V3) : M3 := M3.inv (M3.ofCols t1 t2 n)

/-! ### block-diagonal assembly (`project_tangential_normal`, `project_tangential`, `project_normal`) -/

/-- dense rows of the block-diagonal matrix with the given square blocks of size `d` -/
def blockDiagAux (d total : Nat) : Nat → List (List (List Rat)) → List (List Rat)
  | _, [] => []
  | k, b :: bs =>
    b.map (fun row => List.replicate (d * k) 0 ++ row ++ List.replicate (d * (total - k - 1)) 0)
      ++ blockDiagAux d total (k + 1) bs

def blockDiag (d : Nat) (blocks : List (List (List Rat))) : List (List Rat) :=
  blockDiagAux d blocks.length 0 blocks

/-- keep / drop the rows whose index is `d − 1 (mod d)` (the normal components) -/
def selectRows (d : Nat) (keepNormal : Bool) (rows : List (List Rat)) : List (List Rat) :=
  ((List.range rows.length).zip rows).filterMap
    (fun (i, r) => if decide (i % d = d - 1) == keepNormal then some r else none)

end PorepyVerif.C32
