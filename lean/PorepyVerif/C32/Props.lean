/-
C32 — property theorems (statements depend on Model.lean only; helper lemmas in Lemmas.lean).

Property: for any nonzero normal or tangent vectors and planar point sets, the plane, line and
rotation matrices and the tangential-normal projection blocks are orthogonal with unit
determinant, map the normal to the last local axis, and preserve distances; computed normals of
planar point sets are orthogonal to the set.

Normalisation (a square root) and `arccos / sin / cos` are outside the model: the theorems take the
unit vectors the code has just produced as hypotheses (`normSq n = 1`), and the sine / cosine of
the rotation angle as rational parameters with `s² + c² = 1`.
-/
import PorepyVerif.C32.Lemmas

namespace PorepyVerif.C32
open V3 M3

/-! ### the rotation matrices -/

/-- `rotation_matrix(a, vect)` as coded (`I + sin a · W + (1 − cos a) · W²`, `W = [vect/|vect|]×`)
    is orthogonal with determinant +1 and fixes its axis, for EVERY angle and axis. -/
theorem rotation_matrix_formula_orthogonal (s c : Rat) (w : V3)
    (hsc : s * s + c * c = 1) (hw : normSq w = 1) :
    M3.mul (M3.transpose (rotationMatrix s c w)) (rotationMatrix s c w) = M3.id
      ∧ M3.det (rotationMatrix s c w) = 1
      ∧ mulVec (rotationMatrix s c w) w = w := by
  rw [rotationMatrix_eq_quad]
  refine ⟨?_, ?_, quad_mulVec_axis _ _ _⟩
  · rw [quad_orth, hw]
    have : 2 * (1 - c) - s * s - (1 - c) * (1 - c) * 1 = 0 := by linear_combination (-1 : Rat) * hsc
    rw [this, add_zero_smul]
  · rw [quad_det, hw]
    linear_combination hsc

example : M3.det (rotationMatrix (3/5) (4/5) ⟨2/3, 1/3, 2/3⟩) = 1 := by decide +kernel

/-- The matrix of `project_plane_matrix` / `project_line_matrix` (non-degenerate branch) is what
    `rotation_matrix(arccos c, n × r)` computes: with `s = sin (arccos c) = |n × r|` and
    `c = cos (arccos c) = n · r` the coded formula equals the rational Rodrigues matrix. -/
theorem rotationMatrix_eq_rodrigues (n r : V3) (s : Rat)
    (hn : normSq n = 1) (hr : normSq r = 1)
    (hs : s * s = normSq (cross n r)) (hs0 : s ≠ 0) :
    rotationMatrix s (dot n r) (V3.smul (1 / s) (cross n r)) = rodrigues n r := by
  have hlag : s * s = 1 - dot n r * dot n r := by rw [hs, lagrange, hn, hr]; ring
  have h1 : 1 + dot n r ≠ 0 := by
    intro h
    have : dot n r = -1 := by linarith
    rw [this] at hlag
    have : s * s = 0 := by rw [hlag]; ring
    exact hs0 (mul_self_eq_zero.mp this)
  have hk : (1 - dot n r) * (1 / s) * (1 / s) = 1 / (1 + dot n r) := by
    field_simp
    linear_combination (-1 : Rat) * hlag
  have hs1 : s * (1 / s) = 1 := by field_simp
  rw [rotationMatrix_eq_quad, quad_scale, rodrigues_eq_quad, hs1, hk]

/-- Rodrigues matrix between unit vectors: `RᵀR = 1` and `det R = 1` (Lagrange identity). -/
theorem rotation_matrix_orthogonal (n r : V3)
    (hn : normSq n = 1) (hr : normSq r = 1) (hc : dot n r ≠ -1) :
    M3.mul (M3.transpose (rodrigues n r)) (rodrigues n r) = M3.id ∧ M3.det (rodrigues n r) = 1 := by
  have h1 : 1 + dot n r ≠ 0 := fun h => hc (by linarith)
  rw [rodrigues_eq_quad]
  constructor
  · rw [quad_orth, rod_coeff n r hn hr hc, add_zero_smul]
  · rw [quad_det, lagrange, hn, hr]
    field_simp
    ring

/-- … and it maps the (unit) normal / tangent `n` onto the reference axis `r`. -/
theorem rotation_maps_n_to_ref (n r : V3)
    (hn : normSq n = 1) (hr : normSq r = 1) (hc : dot n r ≠ -1) :
    mulVec (rodrigues n r) n = r := by
  have h1 : 1 + dot n r ≠ 0 := fun h => hc (by linarith)
  rw [rodrigues_eq_quad, quad_mulVec_n, hn, hr]
  have : 1 - dot n r + 1 / (1 + dot n r) * (dot n r * dot n r - 1 * 1) = 0 := by
    field_simp
    ring
  rw [this]
  apply V3.ext' <;> simp only [V3.add, V3.smul] <;> ring

example : mulVec (rodrigues ⟨2/3, 1/3, 2/3⟩ V3.ez) ⟨2/3, 1/3, 2/3⟩ = V3.ez := by decide +kernel
example : normSq (⟨2/3, 1/3, 2/3⟩ : V3) = 1 ∧ dot ⟨2/3, 1/3, 2/3⟩ V3.ez ≠ -1 := by decide +kernel

/-- Distances are preserved by every orthogonal matrix, in particular by the maps above. -/
theorem orthogonal_preserves_dist (R : M3) (h : M3.mul (M3.transpose R) R = M3.id) (p q : V3) :
    normSq (V3.sub (mulVec R p) (mulVec R q)) = normSq (V3.sub p q) := by
  rw [← mulVec_sub]
  exact dot_mulVec_of_orth R h _ _

theorem rotation_preserves_dist (n r : V3)
    (hn : normSq n = 1) (hr : normSq r = 1) (hc : dot n r ≠ -1) (p q : V3) :
    normSq (V3.sub (mulVec (rodrigues n r) p) (mulVec (rodrigues n r) q)) = normSq (V3.sub p q) :=
  orthogonal_preserves_dist _ (rotation_matrix_orthogonal n r hn hr hc).1 p q

/-- The coordinate along the reference axis of a mapped point is its coordinate along `n`. -/
theorem rotation_axis_coord (n r : V3)
    (hn : normSq n = 1) (hr : normSq r = 1) (hc : dot n r ≠ -1) (p : V3) :
    dot r (mulVec (rodrigues n r) p) = dot n p := by
  have h := dot_mulVec_of_orth _ (rotation_matrix_orthogonal n r hn hr hc).1 n p
  rwa [rotation_maps_n_to_ref n r hn hr hc] at h

/-- `project_plane_matrix` with the default reference `e_z`: all points of a plane with unit
    normal `n` get the same last coordinate (which is why `map_grid` can drop it). -/
theorem project_plane_third_coord_const (n : V3) (hn : normSq n = 1) (hc : dot n V3.ez ≠ -1)
    (d : Rat) (p q : V3) (hp : dot n p = d) (hq : dot n q = d) :
    (mulVec (rodrigues n V3.ez) p).z = (mulVec (rodrigues n V3.ez) q).z := by
  have hr : normSq V3.ez = 1 := by decide +kernel
  have e : ∀ x : V3, dot V3.ez x = x.z := fun x => by simp [dot, V3.ez]
  rw [← e, ← e, rotation_axis_coord n _ hn hr hc, rotation_axis_coord n _ hn hr hc, hp, hq]

example : (mulVec (rodrigues ⟨2/3, 1/3, 2/3⟩ V3.ez) ⟨1, 0, -1⟩).z
    = (mulVec (rodrigues ⟨2/3, 1/3, 2/3⟩ V3.ez) ⟨0, 2, -1⟩).z := by decide +kernel

/-! ### `project_plane_matrix` / `project_line_matrix` with the degenerate branch -/

theorem normSq_eq_zero {v : V3} (h : normSq v = 0) : v = V3.zero := by
  have hx := mul_self_nonneg v.x
  have hy := mul_self_nonneg v.y
  have hz := mul_self_nonneg v.z
  simp only [normSq, dot] at h
  apply V3.ext'
  · show v.x = 0; exact mul_self_eq_zero.mp (by linarith)
  · show v.y = 0; exact mul_self_eq_zero.mp (by linarith)
  · show v.z = 0; exact mul_self_eq_zero.mp (by linarith)

theorem isSmall_zero (tol : Rat) (htol : 0 ≤ tol) : isSmall tol V3.zero = true := by
  simp [isSmall, V3.zero, rabs, htol]

/-- Whatever branch is taken (`tol ≥ 0` is the `allclose` threshold), the matrix returned for unit
    `n`, `r` is orthogonal with determinant +1 and preserves distances — also for `n = −r`, where
    the Rodrigues formula would divide by zero and the code returns the identity. -/
theorem project_matrix_orthogonal (tol : Rat) (htol : 0 ≤ tol) (n r : V3)
    (hn : normSq n = 1) (hr : normSq r = 1) :
    M3.mul (M3.transpose (projectMatrix tol n r)) (projectMatrix tol n r) = M3.id
      ∧ M3.det (projectMatrix tol n r) = 1
      ∧ ∀ p q, normSq (V3.sub (mulVec (projectMatrix tol n r) p) (mulVec (projectMatrix tol n r) q))
                = normSq (V3.sub p q) := by
  have horth : M3.mul (M3.transpose (projectMatrix tol n r)) (projectMatrix tol n r) = M3.id
      ∧ M3.det (projectMatrix tol n r) = 1 := by
    unfold projectMatrix
    split
    · exact ⟨by decide +kernel, by decide +kernel⟩
    · rename_i hsm
      have hc : dot n r ≠ -1 := by
        intro hc
        have : normSq (cross n r) = 0 := by rw [lagrange, hn, hr, hc]; ring
        rw [normSq_eq_zero this] at hsm
        exact hsm (isSmall_zero tol htol)
      exact rotation_matrix_orthogonal n r hn hr hc
  exact ⟨horth.1, horth.2, orthogonal_preserves_dist _ horth.1⟩

/-- unit vectors with vanishing cross product are equal or opposite -/
theorem parallel_unit (n r : V3) (hn : normSq n = 1) (hr : normSq r = 1)
    (hv : cross n r = V3.zero) : n = r ∨ n = V3.neg r := by
  have hl := lagrange n r
  rw [hv, hn, hr] at hl
  have hcc : (dot n r - 1) * (dot n r + 1) = 0 := by
    have : normSq V3.zero = 0 := by decide +kernel
    rw [this] at hl; linear_combination hl
  rcases mul_eq_zero.mp hcc with h | h
  · left
    have hc : dot n r = 1 := by linarith
    have : normSq (V3.sub n r) = 0 := by
      have e : normSq (V3.sub n r) = normSq n - 2 * dot n r + normSq r := by
        simp only [normSq, dot, V3.sub]; ring
      rw [e, hn, hr, hc]; ring
    have h0 := normSq_eq_zero this
    have hx := congrArg V3.x h0; have hy := congrArg V3.y h0; have hz := congrArg V3.z h0
    simp only [V3.sub, V3.zero] at hx hy hz
    apply V3.ext' <;> linarith
  · right
    have hc : dot n r = -1 := by linarith
    have : normSq (V3.add n r) = 0 := by
      have e : normSq (V3.add n r) = normSq n + 2 * dot n r + normSq r := by
        simp only [normSq, dot, V3.add]; ring
      rw [e, hn, hr, hc]; ring
    have h0 := normSq_eq_zero this
    have hx := congrArg V3.x h0; have hy := congrArg V3.y h0; have hz := congrArg V3.z h0
    simp only [V3.add, V3.zero] at hx hy hz
    apply V3.ext' <;> simp only [V3.neg] <;> linarith

/-- "Maps the normal to the last local axis", read as `R n ∥ r` (DESIGN.md §6 C32): away from
    the knife edge (the degenerate branch is taken only for an exactly vanishing cross product),
    `R n = r`, or `R n = −r` in the anti-parallel case where the code returns the identity; and
    then the coordinate of any mapped point along the axis is `± n·p`: constant on planes ⟂ `n`. -/
theorem project_matrix_maps_normal_to_axis (tol : Rat) (htol : 0 ≤ tol) (n r : V3)
    (hn : normSq n = 1) (hr : normSq r = 1)
    (hknife : isSmall tol (cross n r) = true → cross n r = V3.zero) :
    ∃ sg : Rat, (sg = 1 ∨ sg = -1) ∧ mulVec (projectMatrix tol n r) n = V3.smul sg r
      ∧ ∀ p, dot r (mulVec (projectMatrix tol n r) p) = sg * dot n p := by
  unfold projectMatrix
  split
  · rename_i hsm
    rcases parallel_unit n r hn hr (hknife hsm) with h | h
    · refine ⟨1, Or.inl rfl, ?_, ?_⟩
      · rw [mulVec_id, h]; apply V3.ext' <;> simp [V3.smul]
      · intro p; rw [mulVec_id, h]; ring
    · refine ⟨-1, Or.inr rfl, ?_, ?_⟩
      · rw [mulVec_id, h]; apply V3.ext' <;> simp [V3.smul, V3.neg]
      · intro p; rw [mulVec_id, h]; simp only [dot, V3.neg]; ring
  · rename_i hsm
    have hc : dot n r ≠ -1 := by
      intro hc
      have : normSq (cross n r) = 0 := by rw [lagrange, hn, hr, hc]; ring
      rw [normSq_eq_zero this] at hsm
      exact hsm (isSmall_zero tol htol)
    refine ⟨1, Or.inl rfl, ?_, ?_⟩
    · rw [rotation_maps_n_to_ref n r hn hr hc]; apply V3.ext' <;> simp [V3.smul]
    · intro p; rw [rotation_axis_coord n r hn hr hc]; ring

/-! ### computed normals and tangents of point sets -/

/-- `compute_normal`: for a point set in a plane `m·p = d` (`m ≠ 0`), whenever a normal is
    returned it is a nonzero vector (so that its normalisation is defined) orthogonal to every
    difference of two points of the set — whichever vectors the two `argmax` picked. -/
theorem compute_normal_orthogonal (tol : Rat) (pts : List V3) (m : V3) (d : Rat)
    (hm : normSq m ≠ 0) (hpl : ∀ p ∈ pts, dot m p = d)
    (raw v1 vk : V3) (hres : computeNormal tol pts = .ok raw v1 vk) :
    raw ≠ V3.zero ∧ ∀ p ∈ pts, ∀ q ∈ pts, dot raw (V3.sub p q) = 0 := by
  unfold computeNormal at hres
  split at hres
  · cases hres
  · split at hres
    · cases hres
    · rename_i v0 vs hcent
      simp only at hres
      split at hres
      · cases hres
      · rename_i hnot
        injection hres with hraw h1 hk
        subst h1; subst hk; subst hraw
        have hmem1 : maxBy normSq v0 vs ∈ centered pts := by rw [hcent]; exact maxBy_mem_cons _ _ _
        have hmemk : maxBy (fun v => normSq (cross (maxBy normSq v0 vs) v)) v0 vs ∈ centered pts := by
          rw [hcent]; exact maxBy_mem_cons _ _ _
        generalize maxBy (fun v => normSq (cross (maxBy normSq v0 vs) v)) v0 vs = vk at *
        generalize maxBy normSq v0 vs = v1 at *
        have hc := dot_centered m pts d hpl
        constructor
        · intro h0
          apply hnot
          rw [h0]
          have hb : 0 ≤ tol * tol * (normSq v1 * normSq v1) := by
            apply mul_nonneg (mul_self_nonneg tol)
            exact mul_nonneg (normSq_nonneg v1) (normSq_nonneg v1)
          simp only [V3.zero]
          refine ⟨?_, ?_, ?_⟩ <;> simpa using hb
        · intro p hp q hq
          have hw : dot m (V3.sub p q) = 0 := by
            have : dot m (V3.sub p q) = dot m p - dot m q := by simp only [dot, V3.sub]; ring
            rw [this, hpl p hp, hpl q hq]; ring
          exact cross_dot_of_perp m v1 vk _ hm (hc v1 hmem1) (hc vk hmemk) hw

example : computeNormal (1/100000) [⟨0,0,1⟩, ⟨2,0,1⟩, ⟨0,3,1⟩, ⟨3,3,1⟩]
    = .ok ⟨0, 0, 9/2⟩ ⟨7/4, 3/2, 0⟩ ⟨-5/4, 3/2, 0⟩ := by decide +kernel

/-- `compute_tangent`: for points on the line cut out by two planes `m₁·p = d₁`, `m₂·p = d₂`, the
    returned (un-normalised) tangent is nonzero and orthogonal to both plane normals. -/
theorem compute_tangent_on_line (tol : Rat) (htol : 0 ≤ tol) (pts : List V3) (m1 m2 : V3) (d1 d2 : Rat)
    (h1 : ∀ p ∈ pts, dot m1 p = d1) (h2 : ∀ p ∈ pts, dot m2 p = d2)
    (t : V3) (hres : computeTangent tol pts = some t) :
    t ≠ V3.zero ∧ dot m1 t = 0 ∧ dot m2 t = 0 := by
  unfold computeTangent at hres
  split at hres
  · cases hres
  · rename_i v0 vs hcent
    simp only at hres
    split at hres
    · cases hres
    · rename_i hns
      injection hres with ht
      have hmem : t ∈ centered pts := by rw [hcent, ← ht]; exact maxBy_mem_cons _ _ _
      refine ⟨?_, dot_centered m1 pts d1 h1 t hmem, dot_centered m2 pts d2 h2 t hmem⟩
      intro h0
      rw [ht, h0] at hns
      exact hns (isSmall_zero tol htol)

example : computeTangent (1/100000000) [⟨0,0,1⟩, ⟨2,2,1⟩, ⟨5,5,1⟩] = some ⟨8/3, 8/3, 0⟩ := by
  decide +kernel

/-- `compute_normals_1d` (repaired for tangents along the z-axis): the two normals are orthogonal
    to the tangent and to each other, the first is nonzero and `|n₂|² = |t|²|n₁|²`, so for a unit
    tangent both normalise to an orthonormal pair. -/
theorem normals_1d_orthogonal (t : V3) :
    dot (normals1d t).1 t = 0 ∧ dot (normals1d t).2 t = 0 ∧ dot (normals1d t).1 (normals1d t).2 = 0
      ∧ (normals1d t).1 ≠ V3.zero
      ∧ normSq (normals1d t).2 = normSq t * normSq (normals1d t).1 := by
  unfold normals1d
  by_cases hz : t.x = 0 ∧ t.y = 0
  · simp only [hz, and_self, if_true]
    refine ⟨?_, ?_, ?_, ?_, ?_⟩
    · simp [dot, V3.ex, hz.1]
    · simp only [dot, cross, V3.ex]; ring
    · simp only [dot, cross, V3.ex]; ring
    · intro h; have := congrArg V3.x h; simp [V3.ex, V3.zero] at this
    · simp only [normSq, dot, cross, V3.ex, hz.1, hz.2]; ring
  · simp only [hz, if_false]
    refine ⟨?_, ?_, ?_, ?_, ?_⟩
    · simp only [dot]; ring
    · simp only [dot, cross]; ring
    · simp only [dot, cross]; ring
    · intro h
      have hx := congrArg V3.x h; have hy := congrArg V3.y h
      simp only [V3.zero] at hx hy
      exact hz ⟨by linarith, hx⟩
    · simp only [normSq, dot, cross]; ring

/-! ### tangential-normal projection blocks -/

/-- mutually orthogonal unit vectors -/
def Orthonormal3 (t1 t2 n : V3) : Prop :=
  normSq t1 = 1 ∧ normSq t2 = 1 ∧ normSq n = 1 ∧ dot t1 t2 = 0 ∧ dot t1 n = 0 ∧ dot t2 n = 0

/-- 3-D block of `TangentialNormalProjection`: the projection is built as `inv [t1 | t2 | n]`.
    For an orthonormal tangent basis and normal it is the matrix with ROWS `t1, t2, n`; it is
    orthogonal, maps the normal to the last local axis and the tangents to the first two. -/
theorem tn_projection_blocks_orthonormal (t1 t2 n : V3) (h : Orthonormal3 t1 t2 n) :
    tn3Projection t1 t2 n = M3.ofRows t1 t2 n
      ∧ M3.mul (tn3Projection t1 t2 n) (M3.transpose (tn3Projection t1 t2 n)) = M3.id
      ∧ M3.mul (M3.transpose (tn3Projection t1 t2 n)) (tn3Projection t1 t2 n) = M3.id
      ∧ mulVec (tn3Projection t1 t2 n) n = V3.ez
      ∧ mulVec (tn3Projection t1 t2 n) t1 = V3.ex
      ∧ mulVec (tn3Projection t1 t2 n) t2 = V3.ey := by
  obtain ⟨h11, h22, hnn, h12, h1n, h2n⟩ := h
  have hleft : M3.mul (M3.ofRows t1 t2 n) (M3.ofCols t1 t2 n) = M3.id := by
    simp only [normSq, dot] at h11 h22 hnn h12 h1n h2n
    apply M3.ext' <;> simp only [M3.mul, M3.ofRows, M3.ofCols, M3.id] <;> linarith
  have hP : tn3Projection t1 t2 n = M3.ofRows t1 t2 n := inv_eq_of_mul_eq_id _ _ hleft
  have hT : M3.transpose (M3.ofRows t1 t2 n) = M3.ofCols t1 t2 n := rfl
  have hright : M3.mul (M3.ofCols t1 t2 n) (M3.ofRows t1 t2 n) = M3.id :=
    mul_eq_id_comm _ _ hleft
  rw [hP, hT]
  refine ⟨rfl, hleft, hright, ?_, ?_, ?_⟩
  · simp only [normSq, dot] at hnn h1n h2n
    apply V3.ext' <;> simp only [mulVec, M3.ofRows, V3.ez] <;> linarith
  · simp only [normSq, dot] at h11 h12 h1n
    apply V3.ext' <;> simp only [mulVec, M3.ofRows, V3.ex] <;> linarith
  · simp only [normSq, dot] at h22 h12 h2n
    apply V3.ext' <;> simp only [mulVec, M3.ofRows, V3.ey] <;> linarith

/-- With the second tangent built as coded (`t2 = n × t1`) the block has determinant +1. -/
theorem tn_projection_det (t1 n : V3) (h1 : normSq t1 = 1) (hn : normSq n = 1) (h1n : dot t1 n = 0) :
    Orthonormal3 t1 (cross n t1) n ∧ M3.det (tn3Projection t1 (cross n t1) n) = 1 := by
  have ho : Orthonormal3 t1 (cross n t1) n := by
    refine ⟨h1, ?_, hn, ?_, h1n, ?_⟩
    · rw [lagrange, hn, h1]
      have : dot n t1 = dot t1 n := by simp only [dot]; ring
      rw [this, h1n]; ring
    · simp only [dot, cross]; ring
    · simp only [dot, cross]; ring
  refine ⟨ho, ?_⟩
  rw [(tn_projection_blocks_orthonormal _ _ _ ho).1]
  have : M3.det (M3.ofRows t1 (cross n t1) n)
      = normSq n * normSq t1 - dot t1 n * dot t1 n := by
    simp only [M3.det, M3.ofRows, cross, normSq, dot]; ring
  rw [this, hn, h1, h1n]; ring

example : Orthonormal3 ⟨-4/5, 3/5, 0⟩ (cross ⟨3/13, 4/13, 12/13⟩ ⟨-4/5, 3/5, 0⟩) ⟨3/13, 4/13, 12/13⟩ := by
  unfold Orthonormal3; decide +kernel

/-- the aligned-with-axis branch of the first tangent is taken only for an exactly aligned normal -/
def NoKnifeEdge (tol : Rat) (n : V3) : Prop :=
  (n.y * n.y + n.z * n.z < tol * tol → n.y = 0 ∧ n.z = 0)
  ∧ (n.x * n.x + n.z * n.z < tol * tol → n.x = 0 ∧ n.z = 0)
  ∧ (n.x * n.x + n.y * n.y < tol * tol → n.x = 0 ∧ n.y = 0)

/-- The un-normalised tangents the 3-D branch of `_construct_local_basis` builds from a normal:
    the first is nonzero and orthogonal to the normal, the second (`n × t1`) is orthogonal to
    both, and `|t2|² = |n|²|t1|²` — so after normalisation (outside) `t1, t2, n` are orthonormal. -/
theorem tn3_tangents_orthogonal (tol : Rat) (htol : 0 < tol) (n : V3) (hk : NoKnifeEdge tol n) :
    tn3Tangent1 tol n ≠ V3.zero
      ∧ dot (tn3Tangent1 tol n) n = 0
      ∧ dot (tn3Tangent2 n (tn3Tangent1 tol n)) n = 0
      ∧ dot (tn3Tangent2 n (tn3Tangent1 tol n)) (tn3Tangent1 tol n) = 0
      ∧ normSq (tn3Tangent2 n (tn3Tangent1 tol n)) = normSq n * normSq (tn3Tangent1 tol n) := by
  have hperp : dot (tn3Tangent1 tol n) n = 0 := by
    obtain ⟨k0, k1, k2⟩ := hk
    unfold tn3Tangent1
    split
    · split
      · rename_i h; obtain ⟨a, b⟩ := k0 h; simp [dot, a, b]
      · simp only [dot]; ring
    · split
      · rename_i h; obtain ⟨a, b⟩ := k1 h; simp [dot, a, b]
      · simp only [dot]; ring
    · split
      · rename_i h; obtain ⟨a, b⟩ := k2 h; simp [dot, a, b]
      · simp only [dot]; ring
  have hne : tn3Tangent1 tol n ≠ V3.zero := by
    have hpos : 0 < tol * tol := mul_pos htol htol
    unfold tn3Tangent1
    split
    · split
      · intro h; have := congrArg V3.y h; simp [V3.zero] at this
      · rename_i h
        intro h0
        have hy := congrArg V3.y h0; have hz := congrArg V3.z h0
        simp only [V3.zero] at hy hz
        apply h; rw [hz, show n.z = 0 by linarith]; simpa using hpos
    · split
      · intro h; have := congrArg V3.x h; simp [V3.zero] at this
      · rename_i h
        intro h0
        have hx := congrArg V3.x h0; have hz := congrArg V3.z h0
        simp only [V3.zero] at hx hz
        apply h; rw [hz, show n.z = 0 by linarith]; simpa using hpos
    · split
      · intro h; have := congrArg V3.x h; simp [V3.zero] at this
      · rename_i h
        intro h0
        have hx := congrArg V3.x h0; have hy := congrArg V3.y h0
        simp only [V3.zero] at hx hy
        apply h; rw [hy, show n.y = 0 by linarith]; simpa using hpos
  refine ⟨hne, hperp, ?_, ?_, ?_⟩
  · simp only [tn3Tangent2, dot, cross]; ring
  · simp only [tn3Tangent2, dot, cross]; ring
  · unfold tn3Tangent2
    rw [lagrange]
    have : dot n (tn3Tangent1 tol n) = dot (tn3Tangent1 tol n) n := by simp only [dot]; ring
    rw [this, hperp]; ring

/-- the 2-D tangent as coded is a unit vector orthogonal to the unit normal, points in the positive
    x-direction, and `det [t | n]` is the sign fixed by that convention -/
theorem tn2Tangent_spec (n : V2) (hn : n.x * n.x + n.y * n.y = 1) :
    (tn2Tangent n).x * (tn2Tangent n).x + (tn2Tangent n).y * (tn2Tangent n).y = 1
      ∧ (tn2Tangent n).x * n.x + (tn2Tangent n).y * n.y = 0
      ∧ 0 ≤ (tn2Tangent n).x
      ∧ (tn2Tangent n).x * n.y - (tn2Tangent n).y * n.x = tn2Sign n
      ∧ (tn2Sign n = 1 ∨ tn2Sign n = -1) := by
  unfold tn2Tangent tn2Sign
  split_ifs with h1 h2
  · exact ⟨by linarith, by ring, by linarith, by linarith, Or.inr rfl⟩
  · exact ⟨by linarith, by ring, by linarith, by linarith, Or.inl rfl⟩
  · have hy : n.y = 0 := by linarith
    have hx2 : n.x * n.x = 1 := by rw [hy] at hn; linarith
    have hx : n.x = 1 ∨ n.x = -1 := by
      have : (n.x - 1) * (n.x + 1) = 0 := by linear_combination hx2
      rcases mul_eq_zero.mp this with h | h
      · left; linarith
      · right; linarith
    refine ⟨by norm_num, by simp [hy], le_refl _, by ring, ?_⟩
    rcases hx with h | h
    · right; rw [h]
    · left; rw [h]; norm_num

/-- 2-D block: for a unit normal the projection `inv [t | n]` is the matrix with rows `t, n`; it is
    orthogonal, maps the normal to the last local axis and the tangent to the first, and its
    determinant is the sign fixed by the tangent convention (`tn2Sign n = ±1`: −1 when the normal
    points downwards, because the tangent is made to point in the positive x-direction). -/
theorem tn2_projection_orthonormal (n : V2) (hn : n.x * n.x + n.y * n.y = 1) :
    tn2Projection n = ⟨(tn2Tangent n).x, (tn2Tangent n).y, n.x, n.y⟩
      ∧ M2.mul (tn2Projection n) (M2.transpose (tn2Projection n)) = M2.id
      ∧ M2.mulVec (tn2Projection n) n = ⟨0, 1⟩
      ∧ M2.mulVec (tn2Projection n) (tn2Tangent n) = ⟨1, 0⟩
      ∧ M2.det (tn2Projection n) = tn2Sign n
      ∧ (tn2Sign n = 1 ∨ tn2Sign n = -1) := by
  obtain ⟨htt, htn, _, hdet, hsg⟩ := tn2Tangent_spec n hn
  have hP : tn2Projection n = ⟨(tn2Tangent n).x, (tn2Tangent n).y, n.x, n.y⟩ := by
    unfold tn2Projection
    apply inv2_eq_of_mul_eq_id
    apply M2.ext' <;> simp only [M2.mul, M2.ofCols, M2.id] <;> linarith
  rw [hP]
  refine ⟨rfl, ?_, ?_, ?_, ?_, hsg⟩
  · apply M2.ext' <;> simp only [M2.mul, M2.transpose, M2.id] <;> linarith
  · apply V2.ext' <;> simp only [M2.mulVec] <;> linarith
  · apply V2.ext' <;> simp only [M2.mulVec] <;> linarith
  · simp only [M2.det]; linarith

example : tn2Projection ⟨3/5, -4/5⟩ = ⟨4/5, 3/5, 3/5, -4/5⟩ := by decide +kernel

/-! ### further non-vacuity witnesses for the hypotheses above -/


example : rotationMatrix (3/5) (dot ⟨3/5, 0, 4/5⟩ V3.ez) (V3.smul (1 / (3/5)) (cross ⟨3/5, 0, 4/5⟩ V3.ez))
    = rodrigues ⟨3/5, 0, 4/5⟩ V3.ez := by decide +kernel
example : (3/5 : Rat) * (3/5) = normSq (cross ⟨3/5, 0, 4/5⟩ V3.ez) := by decide +kernel

-- anti-parallel: identity, R n = −r
example : projectMatrix (1/100000000) ⟨0, 0, -1⟩ V3.ez = M3.id
    ∧ (isSmall (1/100000000) (cross ⟨0, 0, -1⟩ V3.ez) = true → cross ⟨0, 0, -1⟩ V3.ez = V3.zero) := by
  decide +kernel
example : mulVec (projectMatrix (1/100000000) ⟨2/3, 1/3, 2/3⟩ V3.ez) ⟨2/3, 1/3, 2/3⟩ = V3.ez := by decide +kernel

example : NoKnifeEdge (1/100000000) ⟨3/13, 4/13, 12/13⟩ ∧ NoKnifeEdge (1/100000000) ⟨0, -1, 0⟩ := by
  unfold NoKnifeEdge; decide +kernel
example : tn3Tangent1 (1/100000000) ⟨3/13, 4/13, 12/13⟩ = ⟨-4/13, 3/13, 0⟩
    ∧ tn3Tangent1 (1/100000000) ⟨0, -1, 0⟩ = ⟨1, 0, 0⟩ := by decide +kernel
example : tn3Projection ⟨-4/5, 3/5, 0⟩ (cross ⟨3/13, 4/13, 12/13⟩ ⟨-4/5, 3/5, 0⟩) ⟨3/13, 4/13, 12/13⟩
    = M3.ofRows ⟨-4/5, 3/5, 0⟩ ⟨-36/65, -48/65, 5/13⟩ ⟨3/13, 4/13, 12/13⟩ := by decide +kernel
example : normals1d ⟨0, 0, -1⟩ = (⟨1, 0, 0⟩, ⟨0, -1, 0⟩) ∧ normals1d ⟨3/5, 4/5, 0⟩ = (⟨4/5, -3/5, 0⟩, ⟨0, 0, -1⟩) := by
  decide +kernel

/-! ### deepening: the real-number bridge, Gram–Schmidt with the square roots inside, `force_point_collinearity` -/

/-- the trigonometric step: `sin (arccos c) = √(1 − c²)` and `cos (arccos c) = c` for `|c| ≤ 1` -/
theorem sin_cos_arccos (c : ℝ) (h1 : -1 ≤ c) (h2 : c ≤ 1) :
    Real.sin (Real.arccos c) = Real.sqrt (1 - c ^ 2) ∧ Real.cos (Real.arccos c) = c :=
  ⟨Real.sin_arccos c, Real.cos_arccos h1 h2⟩

/-- `project_plane_matrix` / `project_line_matrix`, non-degenerate branch, with the REAL functions:
    for rational unit vectors `n`, `r` with `n × r ≠ 0`, `rotation_matrix(arccos (n·r), n × r)` as
    coded (real square root, arccos, sin, cos) IS the rational Rodrigues matrix of the model. -/
theorem rotation_matrix_real_eq_rodrigues (n r : V3) (hn : normSq n = 1) (hr : normSq r = 1)
    (hv : cross n r ≠ V3.zero) :
    rotationMatrixCoded (Real.arccos ((dot n r : ℚ) : ℝ)) (castV (cross n r)) = castM (rodrigues n r) := by
  set c : ℝ := ((dot n r : ℚ) : ℝ) with hc
  have hLq : normSq (cross n r) = 1 - dot n r * dot n r := by rw [lagrange, hn, hr]; ring
  have hL0 : normSq (cross n r) ≠ 0 := fun h => hv (normSq_eq_zero h)
  have hLposq : 0 < normSq (cross n r) := lt_of_le_of_ne (normSq_nonneg _) (Ne.symm hL0)
  have hcast : V3F.normSq (castV (cross n r)) = ((normSq (cross n r) : ℚ) : ℝ) := by
    simp only [V3F.normSq, V3F.dot, castV, normSq, dot]; push_cast; ring
  have hL : ((normSq (cross n r) : ℚ) : ℝ) = 1 - c ^ 2 := by
    rw [hLq, hc]; push_cast; ring
  have hLpos : (0 : ℝ) < 1 - c ^ 2 := by rw [← hL]; exact_mod_cast hLposq
  have hc1 : -1 ≤ c := by nlinarith
  have hc2 : c ≤ 1 := by nlinarith
  obtain ⟨hsin, hcos⟩ := sin_cos_arccos c hc1 hc2
  have hl : Real.sqrt (1 - c ^ 2) * Real.sqrt (1 - c ^ 2) = 1 - c ^ 2 := Real.mul_self_sqrt hLpos.le
  have hl0 : Real.sqrt (1 - c ^ 2) ≠ 0 := (Real.sqrt_pos.mpr hLpos).ne'
  have h1c : 1 + c ≠ 0 := by
    intro h
    have : 1 - c ^ 2 = (1 - c) * (1 + c) := by ring
    rw [this, h] at hLpos; simp at hLpos
  have hk : (1 - c) * (1 / Real.sqrt (1 - c ^ 2)) * (1 / Real.sqrt (1 - c ^ 2)) = 1 / (1 + c) := by
    field_simp
    nlinarith [hl]
  have hs1 : Real.sqrt (1 - c ^ 2) * (1 / Real.sqrt (1 - c ^ 2)) = 1 := by field_simp
  have hq : rotationMatrixCoded (Real.arccos c) (castV (cross n r))
      = quadF (Real.sin (Real.arccos c)) (1 - Real.cos (Real.arccos c))
          (V3F.smul (1 / Real.sqrt (V3F.normSq (castV (cross n r)))) (castV (cross n r))) := rfl
  rw [hq, quadF_scale, hcast, hL, hsin, hcos, hs1, hk]
  apply M3F.ext' <;>
    simp only [quadF, M3F.add, M3F.smul, M3F.mul, M3F.id, M3F.skew, castV, castM, rodrigues,
      M3.add, M3.smul, M3.mul, M3.id, skew, cross, dot, hc] <;>
    push_cast <;> ring

section gs
variable {K : Type} [Field K]

/-- Gram–Schmidt as coded in the 3-D branch of `_construct_local_basis`, with the normalisations
    INSIDE (`‖v‖ = sq (‖v‖²)`): for a normal with `‖n‖² ≠ 0` that is not aligned with the chosen
    axis `i` (the other two components of `n/‖n‖` do not both vanish: `‖t₁raw‖² ≠ 0`),
    `n̂ = n/‖n‖`, `t₁ = t₁raw/‖t₁raw‖`, `t₂ = (n̂ × t₁)/‖n̂ × t₁‖` are orthonormal. -/
theorem gram_schmidt_orthonormal (sq : K → K) (n : V3F K) (i : Fin 3)
    (hn0 : V3F.normSq n ≠ 0) (hsn : IsSqrtAt sq (V3F.normSq n))
    (ht0 : V3F.normSq (gsTangent1 i (unitF sq n)) ≠ 0)
    (hst : IsSqrtAt sq (V3F.normSq (gsTangent1 i (unitF sq n))))
    (hs1 : IsSqrtAt sq 1) :
    OrthonormalF (unitF sq (gsTangent1 i (unitF sq n)))
      (unitF sq (V3F.cross (unitF sq n) (unitF sq (gsTangent1 i (unitF sq n)))))
      (unitF sq n) := by
  have hN : V3F.normSq (unitF sq n) = 1 := unitF_normSq sq n hn0 hsn
  generalize unitF sq n = nh at *
  have hT : V3F.normSq (unitF sq (gsTangent1 i nh)) = 1 := unitF_normSq sq _ ht0 hst
  have hTn : V3F.dot (unitF sq (gsTangent1 i nh)) nh = 0 := by
    unfold unitF; rw [dotF_smul_left, gsTangent1_perp]; ring
  generalize unitF sq (gsTangent1 i nh) = t1 at *
  have hC : V3F.normSq (V3F.cross nh t1) = 1 := by
    rw [lagrangeF, hN, hT, dotF_comm, hTn]; ring
  have hCn : V3F.dot (V3F.cross nh t1) nh = 0 := by simp only [V3F.dot, V3F.cross]; ring
  have hCt : V3F.dot (V3F.cross nh t1) t1 = 0 := by simp only [V3F.dot, V3F.cross]; ring
  have hT2 : V3F.normSq (unitF sq (V3F.cross nh t1)) = 1 :=
    unitF_normSq sq _ (by rw [hC]; exact one_ne_zero) (by rw [hC]; exact hs1)
  refine ⟨hT, hT2, hN, ?_, hTn, ?_⟩
  · unfold unitF; rw [dotF_comm, dotF_smul_left, hCt]; ring
  · unfold unitF; rw [dotF_smul_left, hCn]; ring

end gs

/-- … in particular over ℝ with the real square root: any normal `n ≠ 0` whose normalisation is not
    aligned with the chosen axis. -/
theorem gram_schmidt_orthonormal_real (n : V3F ℝ) (i : Fin 3)
    (hn0 : V3F.normSq n ≠ 0) (ht0 : V3F.normSq (gsTangent1 i (unitF Real.sqrt n)) ≠ 0) :
    OrthonormalF (unitF Real.sqrt (gsTangent1 i (unitF Real.sqrt n)))
      (unitF Real.sqrt (V3F.cross (unitF Real.sqrt n) (unitF Real.sqrt (gsTangent1 i (unitF Real.sqrt n)))))
      (unitF Real.sqrt n) := by
  have nn : ∀ v : V3F ℝ, 0 ≤ V3F.normSq v := fun v => by
    simp only [V3F.normSq, V3F.dot]; nlinarith [mul_self_nonneg v.x, mul_self_nonneg v.y, mul_self_nonneg v.z]
  exact gram_schmidt_orthonormal Real.sqrt n i hn0 (Real.mul_self_sqrt (nn _)) ht0
    (Real.mul_self_sqrt (nn _)) (Real.mul_self_sqrt zero_le_one)

/-! ### `force_point_collinearity` -/

/-- every output point lies on the line through the first point and the end point; the first point
    (`l = 0`) and the end point (`l = 1`) stay; the squared distance to the first point is
    `l²·|p_end − p₀|²` — i.e. the original one when `l = |p − p₀| / |p_end − p₀|`; the position along
    the line is monotone in `l` (ordering preserved); points already on the line are not moved. -/
theorem force_point_collinearity_spec (p0 pe : V3) (l : Rat) :
    cross (V3.sub (fpcPoint p0 pe l) p0) (V3.sub pe p0) = V3.zero
      ∧ fpcPoint p0 pe 0 = p0 ∧ fpcPoint p0 pe 1 = pe
      ∧ normSq (V3.sub (fpcPoint p0 pe l) p0) = l * l * normSq (V3.sub pe p0)
      ∧ (∀ d : Rat, l * l * normSq (V3.sub pe p0) = d → normSq (V3.sub (fpcPoint p0 pe l) p0) = d)
      ∧ (∀ l' : Rat, l ≤ l' →
          dot (V3.sub (fpcPoint p0 pe l) p0) (V3.sub pe p0) ≤ dot (V3.sub (fpcPoint p0 pe l') p0) (V3.sub pe p0))
      ∧ fpcPoint p0 pe l = V3.add p0 (V3.smul l (V3.sub pe p0)) := by
  have hd : normSq (V3.sub (fpcPoint p0 pe l) p0) = l * l * normSq (V3.sub pe p0) := by
    simp only [fpcPoint, normSq, dot, V3.sub, V3.add, V3.smul]; ring
  refine ⟨?_, ?_, ?_, hd, fun d h => by rw [hd, h], ?_, ?_⟩
  · apply V3.ext' <;> simp only [fpcPoint, cross, V3.sub, V3.add, V3.smul, V3.zero] <;> ring
  · apply V3.ext' <;> simp only [fpcPoint, V3.add, V3.smul] <;> ring
  · apply V3.ext' <;> simp only [fpcPoint, V3.add, V3.smul] <;> ring
  · intro l' hl
    have e : ∀ m : Rat, dot (V3.sub (fpcPoint p0 pe m) p0) (V3.sub pe p0) = m * normSq (V3.sub pe p0) := by
      intro m; simp only [fpcPoint, normSq, dot, V3.sub, V3.add, V3.smul]; ring
    rw [e, e]
    exact mul_le_mul_of_nonneg_right hl (normSq_nonneg _)
  · apply V3.ext' <;> simp only [fpcPoint, V3.add, V3.smul, V3.sub] <;> ring

example : forcePointCollinearity ⟨0, 0, 0⟩ ⟨2, 2, 0⟩ [0, 1/2, 1] = [⟨0, 0, 0⟩, ⟨1, 1, 0⟩, ⟨2, 2, 0⟩] := by
  decide +kernel

/-- `force_point_collinearity` with the REAL square roots: a point `p` is moved to
    `p₀ (1 − l) + p_end l`, `l = √|p − p₀|² / √|p_end − p₀|²`; its distance to the first point is
    kept (so the order of the points by distance from the first point is kept), `l` is monotone in
    that distance, and a point already on the ray from `p₀` through `p_end` is not moved. -/
theorem force_point_collinearity_real (p0 pe p : V3F ℝ) (hD : V3F.normSq (V3F.sub pe p0) ≠ 0) :
    let l := fun q : V3F ℝ => Real.sqrt (V3F.normSq (V3F.sub q p0)) / Real.sqrt (V3F.normSq (V3F.sub pe p0))
    let f := fun q : V3F ℝ => V3F.add (V3F.smul (1 - l q) p0) (V3F.smul (l q) pe)
    V3F.normSq (V3F.sub (f p) p0) = V3F.normSq (V3F.sub p p0)
      ∧ V3F.cross (V3F.sub (f p) p0) (V3F.sub pe p0) = ⟨0, 0, 0⟩
      ∧ (∀ q : V3F ℝ, V3F.normSq (V3F.sub p p0) ≤ V3F.normSq (V3F.sub q p0) → l p ≤ l q)
      ∧ (∀ μ : ℝ, 0 ≤ μ → p = V3F.add p0 (V3F.smul μ (V3F.sub pe p0)) → f p = p) := by
  intro l f
  have nn : ∀ v : V3F ℝ, 0 ≤ V3F.normSq v := fun v => by
    simp only [V3F.normSq, V3F.dot]; nlinarith [mul_self_nonneg v.x, mul_self_nonneg v.y, mul_self_nonneg v.z]
  have hDpos : 0 < V3F.normSq (V3F.sub pe p0) := lt_of_le_of_ne (nn _) (Ne.symm hD)
  have hsD : Real.sqrt (V3F.normSq (V3F.sub pe p0)) ≠ 0 := (Real.sqrt_pos.mpr hDpos).ne'
  have hDD := Real.mul_self_sqrt hDpos.le
  have hll : l p * l p * V3F.normSq (V3F.sub pe p0) = V3F.normSq (V3F.sub p p0) := by
    have hdd := Real.mul_self_sqrt (nn (V3F.sub p p0))
    show Real.sqrt _ / Real.sqrt _ * (Real.sqrt _ / Real.sqrt _) * _ = _
    field_simp
    nlinarith [hdd, hDD]
  refine ⟨?_, ?_, ?_, ?_⟩
  · have e : V3F.normSq (V3F.sub (f p) p0) = l p * l p * V3F.normSq (V3F.sub pe p0) := by
      simp only [f, V3F.normSq, V3F.dot, V3F.sub, V3F.add, V3F.smul]; ring
    rw [e, hll]
  · simp only [f, V3F.cross, V3F.sub, V3F.add, V3F.smul]
    congr 1 <;> ring
  · intro q hq
    exact div_le_div_of_nonneg_right (Real.sqrt_le_sqrt hq) (Real.sqrt_nonneg _)
  · intro μ hμ hp
    have hd : V3F.normSq (V3F.sub p p0) = μ * μ * V3F.normSq (V3F.sub pe p0) := by
      rw [hp]; simp only [V3F.normSq, V3F.dot, V3F.sub, V3F.add, V3F.smul]; ring
    have hl : l p = μ := by
      show Real.sqrt _ / Real.sqrt _ = μ
      rw [hd, show μ * μ * V3F.normSq (V3F.sub pe p0) = (μ * μ) * V3F.normSq (V3F.sub pe p0) by ring,
        Real.sqrt_mul (mul_self_nonneg μ), Real.sqrt_mul_self hμ]
      field_simp
    show V3F.add (V3F.smul (1 - l p) p0) (V3F.smul (l p) pe) = p
    rw [hl, hp]
    apply V3F.ext' <;> simp only [V3F.add, V3F.smul, V3F.sub] <;> ring

/-- hypotheses of `gram_schmidt_orthonormal` are satisfiable (ℚ with a partial square root) -/
example :
    let sq : ℚ → ℚ := fun x => if x = 169 then 13 else if x = 25 / 169 then 5 / 13 else 1
    let n : V3F ℚ := ⟨3, 4, 12⟩
    V3F.normSq n ≠ 0 ∧ IsSqrtAt sq (V3F.normSq n)
      ∧ V3F.normSq (gsTangent1 2 (unitF sq n)) ≠ 0 ∧ IsSqrtAt sq (V3F.normSq (gsTangent1 2 (unitF sq n)))
      ∧ IsSqrtAt sq 1 := by
  intro sq n
  have h1 : V3F.normSq n = 169 := by norm_num [n, V3F.normSq, V3F.dot]
  have h2 : V3F.normSq (gsTangent1 2 (unitF sq n)) = 25 / 169 := by
    norm_num [n, sq, unitF, gsTangent1, V3F.normSq, V3F.dot, V3F.smul]
  refine ⟨by rw [h1]; norm_num, by rw [h1]; norm_num [IsSqrtAt, sq], by rw [h2]; norm_num,
    by rw [h2]; norm_num [IsSqrtAt, sq], by norm_num [IsSqrtAt, sq]⟩

end PorepyVerif.C32
