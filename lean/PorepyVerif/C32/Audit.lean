import PorepyVerif.C32.Props
#print axioms PorepyVerif.C32.rotation_matrix_formula_orthogonal
#print axioms PorepyVerif.C32.rotationMatrix_eq_rodrigues
#print axioms PorepyVerif.C32.rotation_matrix_orthogonal
#print axioms PorepyVerif.C32.rotation_maps_n_to_ref
#print axioms PorepyVerif.C32.rotation_preserves_dist
#print axioms PorepyVerif.C32.project_plane_third_coord_const
#print axioms PorepyVerif.C32.project_matrix_orthogonal
#print axioms PorepyVerif.C32.project_matrix_maps_normal_to_axis
#print axioms PorepyVerif.C32.compute_normal_orthogonal
#print axioms PorepyVerif.C32.compute_tangent_on_line
#print axioms PorepyVerif.C32.normals_1d_orthogonal
#print axioms PorepyVerif.C32.tn_projection_blocks_orthonormal
#print axioms PorepyVerif.C32.tn_projection_det
#print axioms PorepyVerif.C32.tn3_tangents_orthogonal
#print axioms PorepyVerif.C32.tn2_projection_orthonormal
