/- C32 line-protocol driver: `lake env lean --run PorepyVerif/C32/Driver.lean`

Glue that is NOT part of the verified model: `x / |x|` is done here with a rational square root
accurate to 30 digits (exact when `|x|²` is a rational square), and answers are rounded to 25
decimals to keep the lines short.  Everything else is `Model.lean`. -/
import PorepyVerif.Common.Wire
import PorepyVerif.C32.Model
open Lean PV PorepyVerif.C32

def scaleS : Nat := 10 ^ 30

/-- rational approximation of `√q` (`q ≥ 0`), relative error ≤ 1e-30; exact for rational squares -/
def sqrtApprox (q : Rat) : Rat :=
  if q ≤ 0 then 0 else
  let n := q.num.toNat * q.den
  -- exact when num·den is a perfect square
  let r := Nat.sqrt n
  if r * r == n then (r : Rat) / (q.den : Rat)
  else ((Nat.sqrt (n * scaleS * scaleS) : Nat) : Rat) / ((q.den * scaleS : Nat) : Rat)

def normalize (v : V3) : V3 := V3.smul (1 / sqrtApprox (V3.normSq v)) v

def normalize2 (v : V2) : V2 :=
  let l := sqrtApprox (v.x * v.x + v.y * v.y)
  ⟨v.x / l, v.y / l⟩

def rnd (q : Rat) : Rat := ((q * (10 ^ 25 : Nat)).floor : Rat) / ((10 ^ 25 : Nat) : Rat)

def ofV (v : V3) : Json := ofRats [rnd v.x, rnd v.y, rnd v.z]
def ofM (A : M3) : Json :=
  ofList ofRats [[rnd A.a11, rnd A.a12, rnd A.a13], [rnd A.a21, rnd A.a22, rnd A.a23], [rnd A.a31, rnd A.a32, rnd A.a33]]

def toV (l : List Rat) : R V3 :=
  match l with
  | [x, y, z] => pure ⟨x, y, z⟩
  | _ => throw "vector of length 3 expected"

def toV2 (l : List Rat) : R V2 :=
  match l with
  | [x, y] => pure ⟨x, y⟩
  | _ => throw "vector of length 2 expected"

def fV (j : Json) (k : String) : R V3 := fRats j k >>= toV
/-- the reference axis: a unit vector up to binary64 rounding (assumption of the property); the
    closed form `rodrigues` is exact for unit vectors only, so the rounding is removed here -/
def fRef (j : Json) : R V3 := do pure (normalize (← fV j "ref"))
def fPts (j : Json) (k : String) : R (List V3) := do (← fRatss j k).mapM toV

def tol8 : Rat := 1 / 100000000

/-- more than one entry within relative 1e-9 of the maximum: rounding may resolve `argmax` either way -/
def nearTie {α : Type} (f : α → Rat) (l : List α) (m : Rat) : Bool :=
  (l.filter (fun a => decide (m * (1 - 1 / 1000000000) ≤ f a))).length > 1

def rows3 (A : M3) : List (List Rat) :=
  [[A.a11, A.a12, A.a13], [A.a21, A.a22, A.a23], [A.a31, A.a32, A.a33]]
def rows2 (A : M2) : List (List Rat) := [[A.a11, A.a12], [A.a21, A.a22]]

def ofRows (rows : List (List Rat)) : Json := ofList ofRats (rows.map (·.map rnd))

def step (j : Json) : R Json := do
  let op ← fStr j "op"
  match op with
  | "rot" =>
    -- rotation_matrix(a, vect) with s = sin a, c = cos a
    let s ← fRat j "s"
    let c ← fRat j "c"
    let v ← fV j "vect"
    if isSmall tol8 v then pure (obj [("R", ofM M3.id)])
    else pure (obj [("R", ofM (rotationMatrix s c (normalize v)))])
  | "dir" =>
    -- project_plane_matrix(_, normal, reference) / project_line_matrix(_, tangent, reference)
    let n ← fV j "n"
    let r ← fRef j
    let nh := normalize n
    pure (obj [("R", ofM (projectMatrix tol8 nh r)), ("n", ofV nh)])
  | "plane" =>
    -- compute_normal(pts, tol) and project_plane_matrix(pts, tol=tol, reference, check_planar)
    let pts ← fPts j "pts"
    let tol ← fRat j "tol"
    let r ← fRef j
    let chk ← fBool j "check_planar"
    match computeNormal tol pts with
    | .tooFew => pure (err "ValueError")
    | .collinear => pure (err "RuntimeError")
    | .ok raw v1 _ =>
      let cs := centered pts
      let tied := nearTie V3.normSq cs (V3.normSq v1)
        || nearTie (fun v => V3.normSq (V3.cross v1 v)) cs (V3.normSq raw)
      let nh := normalize raw
      if chk && !planarOk tol raw pts then
        pure (obj [("normal", ofV nh), ("tied", Json.bool tied), ("R", err "AssertionError")])
      else
        let R := projectMatrix tol8 nh r
        let Rf := projectMatrix tol8 (V3.neg nh) r
        pure (obj [("normal", ofV nh), ("tied", Json.bool tied), ("R", ofM R), ("R_flipped", ofM Rf),
                   ("mapped", ofList ofV (mapPoints R pts)), ("mapped_flipped", ofList ofV (mapPoints Rf pts))])
  | "line" =>
    -- compute_tangent(pts), project_line_matrix(pts, reference), compute_normals_1d(pts)
    let pts ← fPts j "pts"
    let r ← fRef j
    match computeTangent tol8 pts with
    | none => pure (err "AssertionError")
    | some t =>
      let tied := nearTie V3.normSq (centered pts) (V3.normSq t)
      let th := normalize t
      let R := projectMatrix tol8 th r
      let Rf := projectMatrix tol8 (V3.neg th) r
      let nn := normals1d th
      pure (obj [("tangent", ofV th), ("tied", Json.bool tied), ("R", ofM R), ("R_flipped", ofM Rf),
                 ("mapped", ofList ofV (mapPoints R pts)), ("mapped_flipped", ofList ofV (mapPoints Rf pts)),
                 ("normals", ofList ofV [normalize nn.1, normalize nn.2])])
  | "fpc" =>
    -- force_point_collinearity(pts): l_j = |p_j - p_0| / |p_end - p_0| (square roots: driver glue)
    let pts ← fPts j "pts"
    match pts, fpcEnd pts with
    | p0 :: _, some pe =>
      let D := sqrtApprox (V3.normSq (V3.sub pe p0))
      let lams := pts.map (fun p => sqrtApprox (V3.normSq (V3.sub p p0)) / D)
      let f := fun p => V3.normSq (V3.sub p p0)
      pure (obj [("out", ofList ofV (forcePointCollinearity p0 pe lams)),
                 ("tied", Json.bool (nearTie f (pts.eraseDups) (f pe)))])
    | _, _ => pure (err "AssertionError")
  | "tn" =>
    -- TangentialNormalProjection(normals): project_tangential_normal / _tangential / _normal
    let dim ← fNat j "dim"
    let ns ← fRatss j "normals"
    let num ← fNat j "num"          -- 0 = None
    let blocks ← (if dim == 2 then
        ns.mapM (fun l => do
          let n ← toV2 l
          pure (rows2 (tn2Projection (normalize2 n))))
      else
        ns.mapM (fun l => do
          let n ← toV l
          let nh := normalize n
          let t1 := normalize (tn3Tangent1 tol8 nh)
          let t2 := normalize (tn3Tangent2 nh t1)
          pure (rows3 (tn3Projection t1 t2 nh))) : R (List (List (List Rat))))
    let blocks := if num == 0 then blocks else List.replicate num (blocks.headD [])
    let full := blockDiag dim blocks
    pure (obj [("full", ofRows full), ("tangential", ofRows (selectRows dim false full)),
               ("normal", ofRows (selectRows dim true full))])
  | _ => throw s!"unknown op {op}"

def main : IO Unit := runPure step
