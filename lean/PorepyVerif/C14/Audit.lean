import PorepyVerif.C14.Props
#print axioms PorepyVerif.C14.glue_entry
#print axioms PorepyVerif.C14.glue_eq_whole
#print axioms PorepyVerif.C14.glue_eq_whole_vec
#print axioms PorepyVerif.C14.glue_unowned_zero
#print axioms PorepyVerif.C14.glueNoScale_eq_whole
#print axioms PorepyVerif.C14.partial_fresh_rows
#print axioms PorepyVerif.C14.partial_update_rows
#print axioms PorepyVerif.C14.partial_update_eq_whole
#print axioms PorepyVerif.C14.partial_update_eq_whole_specified
#print axioms PorepyVerif.C14.l2g_maps_inverse
#print axioms PorepyVerif.C14.mapAll_entry_of_inj
#print axioms PorepyVerif.C14.glueAsCoded_eq_glue
#print axioms PorepyVerif.C14.glueAsCoded_eq_whole
#print axioms PorepyVerif.C14.regions_inside_of_contains_neighbours
#print axioms PorepyVerif.C14.own_face_regions_inside
#print axioms PorepyVerif.C14.own_cell_regions_inside
#print axioms PorepyVerif.C14.affected_face_regions_inside
