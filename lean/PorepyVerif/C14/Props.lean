/-
C14 — property theorems: the glued FV discretisation does not depend on the split.

Property: for MPFA, MPSA and Biot the discretisation matrices are identical whether the grid is
discretised in one piece, split into any number of subproblems, or rediscretised only on specified
cells/faces/nodes (on the rows those updates target).

What is proved here is the BOOKKEEPING (any number of subproblems, any overlaps, any block sizes):
given the locality hypothesis "every subproblem reproduces the whole-grid rows of the row entities it
owns" (a statement about the MPxA stencil and the overlap, which the harness checks on the real code
for every generated case), the assembled matrix equals the one-piece matrix entry by entry.
-/
import PorepyVerif.C14.Lemmas

namespace PorepyVerif.C14

/-- Entry formula of the glued matrix: the owned rows of all subproblems are summed and divided by
    `bincount(concatenate(faces_in_subgrid_accum))`. -/
theorem glue_entry (ndr ndc : Nat) (hnd : 0 < ndr) (subs : List Sub) (i j : Nat) :
    entry (glue ndr ndc subs) i j
      = sumOver subs (fun s => if i / ndr ∈ s.own then entry (mapAll ndr ndc s) i j else 0)
          / (count subs (i / ndr) : Rat) := by
  unfold glue
  rw [entry_scale, entry_accumulate]
  congr 1
  unfold sumOver
  congr 1
  apply List.map_congr_left
  intro s _
  exact entry_toGlobal ndr ndc hnd s i j

/-- HEADLINE. If every face (row entity) `f < nf` is owned by at least one subproblem, no
    `faces_in_subgrid` list repeats an id, and each subproblem's local matrix, written in global
    numbering, agrees with the whole-grid matrix `W` on the rows of the entities it owns (locality),
    then the glued matrix equals `W` on all rows — for any number of subproblems, any overlaps
    (any repetition counts), any block sizes `ndr`, `ndc`. -/
theorem glue_eq_whole (ndr ndc nf : Nat) (hnd : 0 < ndr) (subs : List Sub) (W : COO)
    (hnodup : ∀ s ∈ subs, s.own.Nodup)
    (hcover : ∀ f, f < nf → ∃ s ∈ subs, f ∈ s.own)
    (hloc : ∀ s ∈ subs, ∀ i j, i / ndr ∈ s.own → entry (mapAll ndr ndc s) i j = entry W i j)
    (i j : Nat) (hi : i < nf * ndr) :
    entry (glue ndr ndc subs) i j = entry W i j := by
  have hf : i / ndr < nf := (Nat.div_lt_iff_lt_mul hnd).mpr hi
  have hpos : 0 < count subs (i / ndr) := count_pos_of_mem subs _ (hcover _ hf)
  rw [glue_entry ndr ndc hnd]
  have hcongr : sumOver subs (fun s => if i / ndr ∈ s.own then entry (mapAll ndr ndc s) i j else 0)
      = sumOver subs (fun s => if i / ndr ∈ s.own then entry W i j else 0) := by
    unfold sumOver
    congr 1
    apply List.map_congr_left
    intro s hs
    by_cases h : i / ndr ∈ s.own
    · simp only [h, if_true]; exact hloc s hs i j h
    · simp [h]
  rw [hcongr, sumOver_ite_count subs hnodup]
  have : (count subs (i / ndr) : Rat) ≠ 0 := by exact_mod_cast (Nat.pos_iff_ne_zero.mp hpos)
  field_simp

/-- Rows of entities that no subproblem owns are zero in the glued matrix (nothing leaks out of
    the overlap: `remove_nonlocal_contribution`). -/
theorem glue_unowned_zero (ndr ndc : Nat) (hnd : 0 < ndr) (subs : List Sub)
    (i j : Nat) (h : ∀ s ∈ subs, i / ndr ∉ s.own) : entry (glue ndr ndc subs) i j = 0 := by
  rw [glue_entry ndr ndc hnd]
  have : sumOver subs (fun s => if i / ndr ∈ s.own then entry (mapAll ndr ndc s) i j else 0) = 0 := by
    unfold sumOver
    have : subs.map (fun s => if i / ndr ∈ s.own then entry (mapAll ndr ndc s) i j else 0)
        = subs.map (fun _ => (0 : Rat)) := by
      apply List.map_congr_left; intro s hs; simp [h s hs]
    rw [this]; simp
  rw [this]; simp

/-- The cell-row terms of Biot (`displacement_divergence`, `bound_displacement_divergence`,
    `consistency`) are glued WITHOUT scaling; this is right because `cells_in_subgrid` is a partition:
    every cell is owned exactly once. -/
theorem glueNoScale_eq_whole (ndr ndc nc : Nat) (hnd : 0 < ndr) (subs : List Sub) (W : COO)
    (hnodup : ∀ s ∈ subs, s.own.Nodup)
    (honce : ∀ c, c < nc → count subs c = 1)
    (hloc : ∀ s ∈ subs, ∀ i j, i / ndr ∈ s.own → entry (mapAll ndr ndc s) i j = entry W i j)
    (i j : Nat) (hi : i < nc * ndr) :
    entry (glueNoScale ndr ndc subs) i j = entry W i j := by
  have hc : i / ndr < nc := (Nat.div_lt_iff_lt_mul hnd).mpr hi
  have h1 := honce _ hc
  have hcover : ∀ f, f < nc → ∃ s ∈ subs, f ∈ s.own := by
    intro f hf
    by_contra hne
    have hz : count subs f = 0 := count_eq_zero_of_not_mem subs f (fun s hs hm => hne ⟨s, hs, hm⟩)
    have := honce f hf
    omega
  have hg := glue_eq_whole ndr ndc nc hnd subs W hnodup hcover hloc i j hi
  unfold glue at hg
  rw [entry_scale, h1] at hg
  simpa [glueNoScale] using hg

/-- A fresh partial discretisation (parameters `specified_cells/faces/nodes`): the rows of the active
    faces are the local rows of the active grid in global numbering, every other row is zero. -/
theorem partial_fresh_rows (ndr ndc : Nat) (hnd : 0 < ndr) (s : Sub) (i j : Nat) :
    entry (partialFresh ndr ndc s) i j
      = if i / ndr ∈ s.own then entry (mapAll ndr ndc s) i j else 0 :=
  entry_toGlobal ndr ndc hnd s i j

/-- After a partial update the targeted rows equal the fresh rows and all other rows are untouched. -/
theorem partial_update_rows (ndr : Nat) (active : List Nat) (old fresh : COO) (i j : Nat) :
    (i / ndr ∈ active → entry (updateRows ndr active old fresh) i j = entry fresh i j) ∧
    (i / ndr ∉ active → entry (updateRows ndr active old fresh) i j = entry old i j) := by
  rw [entry_updateRows]
  constructor <;> intro h <;> simp [h]

/-- Partial rediscretisation gives the one-piece matrix of the NEW parameters: if the old matrix agrees
    with the new whole-grid matrix `Wnew` outside the active faces (the change does not reach those
    rows) and the active grid reproduces `Wnew` on the active faces, the updated matrix is `Wnew`. -/
theorem partial_update_eq_whole (ndr ndc : Nat) (hnd : 0 < ndr) (s : Sub) (old Wnew : COO)
    (hold : ∀ i j, i / ndr ∉ s.own → entry old i j = entry Wnew i j)
    (hloc : ∀ i j, i / ndr ∈ s.own → entry (mapAll ndr ndc s) i j = entry Wnew i j)
    (i j : Nat) :
    entry (updateRows ndr s.own old (partialFresh ndr ndc s)) i j = entry Wnew i j := by
  rw [entry_updateRows, partial_fresh_rows ndr ndc hnd]
  by_cases h : i / ndr ∈ s.own
  · simp only [h, if_true]; exact hloc i j h
  · simp only [h, if_false]; exact hold i j h

/-- The local↔global index maps of a subgrid (`l2g_faces`, `l2g_cells`, expanded to `nd` components
    per entity as in `subgrid_to_grid_mapping(is_vector=True)`) are mutually inverse. -/
theorem l2g_maps_inverse (l2g : List Nat) (nd : Nat) (hnd : 0 < nd) (hinj : l2g.Nodup) :
    (∀ i, i < l2g.length * nd → lidx l2g nd (gidx l2g nd i) = i) ∧
    (∀ I, I / nd ∈ l2g → gidx l2g nd (lidx l2g nd I) = I) :=
  ⟨fun i hi => lidx_gidx l2g hnd hinj i hi, fun I hI => gidx_lidx l2g hnd I hI⟩

/-- … hence mapping a local matrix to the global numbering loses nothing: the global entry at the
    image of `(r, c)` is the local entry `(r, c)` (`face_mapᵀ · (face_map · L · cell_map) · cell_mapᵀ = L`). -/
theorem mapAll_entry_of_inj (ndr ndc : Nat) (hr : 0 < ndr) (hc : 0 < ndc) (s : Sub)
    (hR : s.l2gR.Nodup) (hC : s.l2gC.Nodup) (hin : inRange ndr ndc s)
    (r c : Nat) (hrr : r < s.l2gR.length * ndr) (hcc : c < s.l2gC.length * ndc) :
    entry (mapAll ndr ndc s) (gidx s.l2gR ndr r) (gidx s.l2gC ndc c) = entry s.loc r c := by
  unfold mapAll mapCOO inRange at *
  generalize s.loc = M at hin ⊢
  induction M with
  | nil => rfl
  | cons t M ih =>
    have ht := hin t List.mem_cons_self
    simp only [List.map_cons, entry_cons]
    rw [ih (fun u hu => hin u (List.mem_cons_of_mem _ hu))]
    congr 1
    have e1 : gidx s.l2gR ndr t.1 = gidx s.l2gR ndr r ↔ t.1 = r :=
      ⟨fun h => gidx_inj _ hr hR ht.1 hrr h, fun h => by rw [h]⟩
    have e2 : gidx s.l2gC ndc t.2.1 = gidx s.l2gC ndc c ↔ t.2.1 = c :=
      ⟨fun h => gidx_inj _ hc hC ht.2 hcc h, fun h => by rw [h]⟩
    simp only [e1, e2]

/-- The accumulation coded in `Mpfa.discretize` today coincides with the plain sum when the
    "all faces in this subgrid" shortcut is never taken … -/
theorem glueAsCoded_eq_glue_of_no_shortcut (nf ndr ndc : Nat) (subs : List Sub)
    (h : ∀ s ∈ subs, s.own.length ≠ nf) : glueAsCoded nf ndr ndc subs = glue ndr ndc subs := by
  unfold glueAsCoded glue
  rw [accumulateAsCoded_no_shortcut nf ndr ndc subs h]
  simp

/-- … and when there is a single subproblem with identity maps (what `subproblems` yields for
    `num_part == 1`). -/
theorem glueAsCoded_single_identity (nf ndr ndc nR nC : Nat) (s : Sub)
    (hR : s.l2gR = List.range nR) (hC : s.l2gC = List.range nC) (hin : inRange ndr ndc s)
    (hr : 0 < ndr) (hc : 0 < ndc) :
    glueAsCoded nf ndr ndc [s] = glue ndr ndc [s] := by
  have hid : ∀ (n nd : Nat), 0 < nd → ∀ i, i < n * nd → gidx (List.range n) nd i = i := by
    intro n nd hnd i hi
    have hlt : i / nd < n := (Nat.div_lt_iff_lt_mul hnd).mpr hi
    unfold gidx
    rw [getD_eq_getElem' _ _ (by simpa using hlt)]
    simp only [List.getElem_range]
    rw [Nat.mul_comm]; exact Nat.div_add_mod i nd
  have hmap : toGlobal ndr ndc s = zeroed ndr s := by
    unfold toGlobal mapCOO
    conv_rhs => rw [← List.map_id (zeroed ndr s)]
    apply List.map_congr_left
    intro t ht
    have htl : t ∈ s.loc := (List.mem_filter.mp ht).1
    have hb := hin t htl
    rw [hR, hC] at hb ⊢
    simp only [List.length_range] at hb
    rw [hid nR ndr hr _ hb.1, hid nC ndc hc _ hb.2]
    rfl
  unfold glueAsCoded glue
  simp only [accumulateAsCoded, accumulate, hmap, List.nil_append, List.append_nil]
  split <;> rfl

/-! ### non-vacuity: concrete data -/

/-- three faces, two cells; face 1 lies on the interface and is owned by both subproblems -/
def exW : COO := [(0, 0, 4), (1, 0, -3), (1, 1, 3), (2, 1, 5)]
def exS1 : Sub := { own := [0, 1], l2gR := [0, 1, 2], l2gC := [0, 1],
                    loc := [(0, 0, 4), (1, 0, -3), (1, 1, 3), (2, 1, 77)] }   -- row 2 is "wrong" (overlap)
def exS2 : Sub := { own := [1, 2], l2gR := [1, 2], l2gC := [1, 0],
                    loc := [(0, 1, -3), (0, 0, 3), (1, 0, 5)] }                -- permuted local cells

example : (List.range 3).map (fun i => (List.range 2).map (fun j => entry (glue 1 1 [exS1, exS2]) i j))
    = (List.range 3).map (fun i => (List.range 2).map (fun j => entry exW i j)) := by decide +kernel

example : count [exS1, exS2] 1 = 2 ∧ count [exS1, exS2] 0 = 1 := by decide

/-- the hypotheses of `glue_eq_whole` are satisfiable by this data (so the theorem applies to it) -/
example (i j : Nat) (hi : i < 3 * 1) : entry (glue 1 1 [exS1, exS2]) i j = entry exW i j := by
  apply glue_eq_whole 1 1 3 (by decide) [exS1, exS2] exW
  · intro s hs; simp at hs; rcases hs with rfl | rfl <;> decide
  · intro f hf
    have : f = 0 ∨ f = 1 ∨ f = 2 := by omega
    rcases this with rfl | rfl | rfl
    · exact ⟨exS1, by simp, by decide⟩
    · exact ⟨exS1, by simp, by decide⟩
    · exact ⟨exS2, by simp, by decide⟩
  · intro s hs i j hown
    simp at hs
    rcases hs with rfl | rfl
    · have : i = 0 ∨ i = 1 := by simpa [exS1] using hown
      rcases this with rfl | rfl <;>
        simp [mapAll, mapCOO, gidx, exS1, exW, entry]
    · have : i = 1 ∨ i = 2 := by simpa [exS2] using hown
      rcases this with rfl | rfl <;>
        simp [mapAll, mapCOO, gidx, exS2, exW, entry]
  · exact hi

/-- DEFECT at model level (finding `mpfa-split-late-full-cover`): a later subproblem that owns all
    faces overwrites the accumulator, the repetition count still includes the earlier one, so the
    as-coded result is half the whole-grid row, while the plain sum is right. -/
def exT1 : Sub := { own := [0], l2gR := [0], l2gC := [0], loc := [(0, 0, 1)] }
def exT2 : Sub := { own := [0, 1], l2gR := [0, 1], l2gC := [0], loc := [(0, 0, 1), (1, 0, 2)] }

example : entry (glueAsCoded 2 1 1 [exT1, exT2]) 0 0 = 1 / 2 ∧ entry (glue 1 1 [exT1, exT2]) 0 0 = 1
    ∧ entry (glueAsCoded 2 1 1 [exT2, exT1]) 0 0 = 1 := by decide +kernel

/-- partial update on concrete data: row 1 replaced, rows 0 and 2 kept (vector rows: `ndr = 2`) -/
example : (List.range 6).map (fun i => entry (updateRows 2 [1] [(0, 0, 1), (2, 0, 2), (3, 0, 3), (5, 0, 4)]
    [(2, 0, 9), (3, 1, 8)]) i 0) = [1, 0, 9, 0, 0, 4] := by decide +kernel

example : lidx [4, 7, 9] 2 (gidx [4, 7, 9] 2 3) = 3 ∧ gidx [4, 7, 9] 2 3 = 15
    ∧ gidx [4, 7, 9] 2 (lidx [4, 7, 9] 2 19) = 19 := by decide

end PorepyVerif.C14
