/-
C14 — property theorems: the glued FV discretisation does not depend on the split.

Property: for MPFA, MPSA and Biot the discretisation matrices are identical whether the grid is
discretised in one piece, split into any number of subproblems, or rediscretised only on specified
cells/faces/nodes (on the rows those updates target).

What is proved here is the BOOKKEEPING (any number of subproblems, any overlaps, any block sizes):
given the locality hypothesis "every subproblem reproduces the whole-grid rows of the row entities it
owns" (a statement about the MPxA stencil and the overlap, which the harness checks on the real code
for every generated case), the assembled matrix equals the one-piece matrix entry by entry.
-/
import PorepyVerif.C14.Lemmas

namespace PorepyVerif.C14

/-- Entry formula of the glued matrix: the owned rows of all subproblems are summed and divided by
    `bincount(concatenate(faces_in_subgrid_accum))`. -/
theorem glue_entry (ndr ndc : Nat) (hnd : 0 < ndr) (subs : List Sub) (i j : Nat) :
    entry (glue ndr ndc subs) i j
      = sumOver subs (fun s => if i / ndr ∈ s.own then entry (mapAll ndr ndc s) i j else 0)
          / (count subs (i / ndr) : Rat) := by
  unfold glue
  rw [entry_scale, entry_accumulate]
  congr 1
  unfold sumOver
  congr 1
  apply List.map_congr_left
  intro s _
  exact entry_toGlobal ndr ndc hnd s i j

/-- HEADLINE. If every face (row entity) `f < nf` is owned by at least one subproblem, no
    `faces_in_subgrid` list repeats an id, and each subproblem's local matrix, written in global
    numbering, agrees with the whole-grid matrix `W` on the rows of the entities it owns (locality),
    then the glued matrix equals `W` on all rows — for any number of subproblems, any overlaps
    (any repetition counts), any block sizes `ndr`, `ndc`. -/
theorem glue_eq_whole (ndr ndc nf : Nat) (hnd : 0 < ndr) (subs : List Sub) (W : COO)
    (hnodup : ∀ s ∈ subs, s.own.Nodup)
    (hcover : ∀ f, f < nf → ∃ s ∈ subs, f ∈ s.own)
    (hloc : ∀ s ∈ subs, ∀ i j, i / ndr ∈ s.own → entry (mapAll ndr ndc s) i j = entry W i j)
    (i j : Nat) (hi : i < nf * ndr) :
    entry (glue ndr ndc subs) i j = entry W i j := by
  have hf : i / ndr < nf := (Nat.div_lt_iff_lt_mul hnd).mpr hi
  have hpos : 0 < count subs (i / ndr) := count_pos_of_mem subs _ (hcover _ hf)
  rw [glue_entry ndr ndc hnd]
  have hcongr : sumOver subs (fun s => if i / ndr ∈ s.own then entry (mapAll ndr ndc s) i j else 0)
      = sumOver subs (fun s => if i / ndr ∈ s.own then entry W i j else 0) := by
    unfold sumOver
    congr 1
    apply List.map_congr_left
    intro s hs
    by_cases h : i / ndr ∈ s.own
    · simp only [h, if_true]; exact hloc s hs i j h
    · simp [h]
  rw [hcongr, sumOver_ite_count subs hnodup]
  have : (count subs (i / ndr) : Rat) ≠ 0 := by exact_mod_cast (Nat.pos_iff_ne_zero.mp hpos)
  field_simp

/-- Rows of entities that no subproblem owns are zero in the glued matrix (nothing leaks out of
    the overlap: `remove_nonlocal_contribution`). -/
theorem glue_unowned_zero (ndr ndc : Nat) (hnd : 0 < ndr) (subs : List Sub)
    (i j : Nat) (h : ∀ s ∈ subs, i / ndr ∉ s.own) : entry (glue ndr ndc subs) i j = 0 := by
  rw [glue_entry ndr ndc hnd]
  have : sumOver subs (fun s => if i / ndr ∈ s.own then entry (mapAll ndr ndc s) i j else 0) = 0 := by
    unfold sumOver
    have : subs.map (fun s => if i / ndr ∈ s.own then entry (mapAll ndr ndc s) i j else 0)
        = subs.map (fun _ => (0 : Rat)) := by
      apply List.map_congr_left; intro s hs; simp [h s hs]
    rw [this]; simp
  rw [this]; simp

/-- The cell-row terms of Biot (`displacement_divergence`, `bound_displacement_divergence`,
    `consistency`) are glued WITHOUT scaling; this is right because `cells_in_subgrid` is a partition:
    every cell is owned exactly once. -/
theorem glueNoScale_eq_whole (ndr ndc nc : Nat) (hnd : 0 < ndr) (subs : List Sub) (W : COO)
    (hnodup : ∀ s ∈ subs, s.own.Nodup)
    (honce : ∀ c, c < nc → count subs c = 1)
    (hloc : ∀ s ∈ subs, ∀ i j, i / ndr ∈ s.own → entry (mapAll ndr ndc s) i j = entry W i j)
    (i j : Nat) (hi : i < nc * ndr) :
    entry (glueNoScale ndr ndc subs) i j = entry W i j := by
  have hc : i / ndr < nc := (Nat.div_lt_iff_lt_mul hnd).mpr hi
  have h1 := honce _ hc
  have hcover : ∀ f, f < nc → ∃ s ∈ subs, f ∈ s.own := by
    intro f hf
    by_contra hne
    have hz : count subs f = 0 := count_eq_zero_of_not_mem subs f (fun s hs hm => hne ⟨s, hs, hm⟩)
    have := honce f hf
    omega
  have hg := glue_eq_whole ndr ndc nc hnd subs W hnodup hcover hloc i j hi
  unfold glue at hg
  rw [entry_scale, h1] at hg
  simpa [glueNoScale] using hg

/-- A fresh partial discretisation (parameters `specified_cells/faces/nodes`): the rows of the active
    faces are the local rows of the active grid in global numbering, every other row is zero. -/
theorem partial_fresh_rows (ndr ndc : Nat) (hnd : 0 < ndr) (s : Sub) (i j : Nat) :
    entry (partialFresh ndr ndc s) i j
      = if i / ndr ∈ s.own then entry (mapAll ndr ndc s) i j else 0 :=
  entry_toGlobal ndr ndc hnd s i j

/-- After a partial update the targeted rows equal the fresh rows and all other rows are untouched. -/
theorem partial_update_rows (ndr : Nat) (active : List Nat) (old fresh : COO) (i j : Nat) :
    (i / ndr ∈ active → entry (updateRows ndr active old fresh) i j = entry fresh i j) ∧
    (i / ndr ∉ active → entry (updateRows ndr active old fresh) i j = entry old i j) := by
  rw [entry_updateRows]
  constructor <;> intro h <;> simp [h]

/-- Partial rediscretisation gives the one-piece matrix of the NEW parameters: if the old matrix agrees
    with the new whole-grid matrix `Wnew` outside the active faces (the change does not reach those
    rows) and the active grid reproduces `Wnew` on the active faces, the updated matrix is `Wnew`. -/
theorem partial_update_eq_whole (ndr ndc : Nat) (hnd : 0 < ndr) (s : Sub) (old Wnew : COO)
    (hold : ∀ i j, i / ndr ∉ s.own → entry old i j = entry Wnew i j)
    (hloc : ∀ i j, i / ndr ∈ s.own → entry (mapAll ndr ndc s) i j = entry Wnew i j)
    (i j : Nat) :
    entry (updateRows ndr s.own old (partialFresh ndr ndc s)) i j = entry Wnew i j := by
  rw [entry_updateRows, partial_fresh_rows ndr ndc hnd]
  by_cases h : i / ndr ∈ s.own
  · simp only [h, if_true]; exact hloc i j h
  · simp only [h, if_false]; exact hold i j h

/-- The local↔global index maps of a subgrid (`l2g_faces`, `l2g_cells`, expanded to `nd` components
    per entity as in `subgrid_to_grid_mapping(is_vector=True)`) are mutually inverse. -/
theorem l2g_maps_inverse (l2g : List Nat) (nd : Nat) (hnd : 0 < nd) (hinj : l2g.Nodup) :
    (∀ i, i < l2g.length * nd → lidx l2g nd (gidx l2g nd i) = i) ∧
    (∀ I, I / nd ∈ l2g → gidx l2g nd (lidx l2g nd I) = I) :=
  ⟨fun i hi => lidx_gidx l2g hnd hinj i hi, fun I hI => gidx_lidx l2g hnd I hI⟩

/-- … hence mapping a local matrix to the global numbering loses nothing: the global entry at the
    image of `(r, c)` is the local entry `(r, c)` (`face_mapᵀ · (face_map · L · cell_map) · cell_mapᵀ = L`). -/
theorem mapAll_entry_of_inj (ndr ndc : Nat) (hr : 0 < ndr) (hc : 0 < ndc) (s : Sub)
    (hR : s.l2gR.Nodup) (hC : s.l2gC.Nodup) (hin : inRange ndr ndc s)
    (r c : Nat) (hrr : r < s.l2gR.length * ndr) (hcc : c < s.l2gC.length * ndc) :
    entry (mapAll ndr ndc s) (gidx s.l2gR ndr r) (gidx s.l2gC ndc c) = entry s.loc r c := by
  unfold mapAll mapCOO inRange at *
  generalize s.loc = M at hin ⊢
  induction M with
  | nil => rfl
  | cons t M ih =>
    have ht := hin t List.mem_cons_self
    simp only [List.map_cons, entry_cons]
    rw [ih (fun u hu => hin u (List.mem_cons_of_mem _ hu))]
    congr 1
    have e1 : gidx s.l2gR ndr t.1 = gidx s.l2gR ndr r ↔ t.1 = r :=
      ⟨fun h => gidx_inj _ hr hR ht.1 hrr h, fun h => by rw [h]⟩
    have e2 : gidx s.l2gC ndc t.2.1 = gidx s.l2gC ndc c ↔ t.2.1 = c :=
      ⟨fun h => gidx_inj _ hc hC ht.2 hcc h, fun h => by rw [h]⟩
    simp only [e1, e2]

/-- Vector form (Mpsa / Biot: `nd` rows per face, `expand_indices_nd`): the statement of `glue_eq_whole`
    per face `f` and component `k`, with the locality hypothesis phrased per owned face. -/
theorem glue_eq_whole_vec (nd ndc nf : Nat) (subs : List Sub) (W : COO)
    (hnodup : ∀ s ∈ subs, s.own.Nodup)
    (hcover : ∀ f, f < nf → ∃ s ∈ subs, f ∈ s.own)
    (hloc : ∀ s ∈ subs, ∀ f ∈ s.own, ∀ k, k < nd → ∀ j,
      entry (mapAll nd ndc s) (f * nd + k) j = entry W (f * nd + k) j)
    (f k j : Nat) (hf : f < nf) (hk : k < nd) :
    entry (glue nd ndc subs) (f * nd + k) j = entry W (f * nd + k) j := by
  have hnd : 0 < nd := Nat.lt_of_le_of_lt (Nat.zero_le k) hk
  apply glue_eq_whole nd ndc nf hnd subs W hnodup hcover
  · intro s hs i j hi
    have h := hloc s hs (i / nd) hi (i % nd) (Nat.mod_lt _ hnd) j
    rwa [Nat.mul_comm, Nat.div_add_mod] at h
  · calc f * nd + k < f * nd + nd := Nat.add_lt_add_left hk _
      _ = (f + 1) * nd := by rw [Nat.add_mul, Nat.one_mul]
      _ ≤ nf * nd := Nat.mul_le_mul_right _ hf

/-- The accumulation coded in `Mpfa.discretize` NOW equals the plain sum whenever every subproblem that takes
    the "all faces in this subgrid" shortcut has identity maps (a subgrid containing all faces contains all
    cells and keeps the numbering; the oracle checks this on every real decomposition) — in any position of
    the subproblem list, with any number of other subproblems. -/
theorem glueAsCoded_eq_glue (nf ndr ndc : Nat) (hr : 0 < ndr) (hc : 0 < ndc) (subs : List Sub)
    (h : ∀ s ∈ subs, s.own.length = nf → idMaps ndr ndc s) :
    glueAsCoded nf ndr ndc subs = glue ndr ndc subs := by
  unfold glueAsCoded glue
  rw [accumulateAsCoded_eq nf ndr ndc subs
    (fun s hs hfull => toGlobal_eq_zeroed_of_idMaps ndr ndc hr hc s (h s hs hfull)) true [] (fun _ => rfl)]
  simp

/-- … hence `glue_eq_whole` holds for the code as it is. -/
theorem glueAsCoded_eq_whole (ndr ndc nf : Nat) (hr : 0 < ndr) (hc : 0 < ndc) (subs : List Sub) (W : COO)
    (hid : ∀ s ∈ subs, s.own.length = nf → idMaps ndr ndc s)
    (hnodup : ∀ s ∈ subs, s.own.Nodup)
    (hcover : ∀ f, f < nf → ∃ s ∈ subs, f ∈ s.own)
    (hloc : ∀ s ∈ subs, ∀ i j, i / ndr ∈ s.own → entry (mapAll ndr ndc s) i j = entry W i j)
    (i j : Nat) (hi : i < nf * ndr) :
    entry (glueAsCoded nf ndr ndc subs) i j = entry W i j := by
  rw [glueAsCoded_eq_glue nf ndr ndc hr hc subs hid]
  exact glue_eq_whole ndr ndc nf hr subs W hnodup hcover hloc i j hi

/-- Split partial discretisation: the repetition scaling acts in the numbering of the ACTIVE grid, before the
    lift; after the lift the rows of the active faces are exactly the lifted rows of the glued active-grid
    matrix and every other row is zero (so `partial_update_eq_whole` applies with `loc :=` the glued matrix). -/
theorem partialFreshSplit_rows (nrowA ndr ndc : Nat) (hnd : 0 < ndr) (subs : List Sub) (outer : Sub) (i j : Nat) :
    entry (partialFreshSplit nrowA ndr ndc false true subs outer) i j
      = if i / ndr ∈ outer.own
        then entry (mapCOO ndr ndc outer (glue ndr ndc subs)) i j else 0 := by
  unfold partialFreshSplit
  simp only [Bool.false_eq_true, if_false, if_true]
  exact entry_toGlobal ndr ndc hnd { outer with loc := glue ndr ndc subs } i j

/-- … and with the Mpfa accumulation as coded the same matrix results (full-cover subproblems of the active
    grid have identity maps). -/
theorem partialFreshSplit_coded (nrowA ndr ndc : Nat) (hr : 0 < ndr) (hc : 0 < ndc) (subs : List Sub) (outer : Sub)
    (h : ∀ s ∈ subs, s.own.length = nrowA → idMaps ndr ndc s) :
    partialFreshSplit nrowA ndr ndc true true subs outer = partialFreshSplit nrowA ndr ndc false true subs outer := by
  unfold partialFreshSplit
  simp only [if_true, Bool.false_eq_true, if_false]
  rw [glueAsCoded_eq_glue nrowA ndr ndc hr hc subs h]

/-! ### locality at the level of index sets: the overlap contains every interaction region of an own face -/

/-- Abstract form: if the cell set of a subproblem contains, for each of its own faces, all cells sharing a
    node with that face (what one layer of node overlap guarantees), then for every node of an own face the
    whole interaction region of that node (all cells around the node) lies inside the subgrid. -/
theorem regions_inside_of_contains_neighbours (cn fn : Conn) (own cells : List Nat)
    (H : ∀ f ∈ own, ∀ c, c < cn.length → (∃ v ∈ fn.getD f [], v ∈ cn.getD c []) → c ∈ cells)
    (f : Nat) (hf : f ∈ own) (v : Nat) (hv : v ∈ fn.getD f [])
    (c : Nat) (hc : c < cn.length) (hvc : v ∈ cn.getD c []) : c ∈ cells :=
  H f hf c hc ⟨v, hv, hvc⟩

/-- `_fvutils.subproblems` as coded: `faces_in_subgrid` are the faces all of whose nodes are nodes of the
    partition, the subgrid consists of all cells sharing a node with the partition; hence every interaction
    region of every own face is inside the subgrid. -/
theorem own_face_regions_inside (cn fn : Conn) (P : List Nat)
    (f : Nat) (hf : f ∈ subOwnFaces cn fn P) (v : Nat) (hv : v ∈ fn.getD f [])
    (c : Nat) (hc : c < cn.length) (hvc : v ∈ cn.getD c []) : c ∈ subCells cn P := by
  unfold subOwnFaces at hf
  unfold subCells
  rw [mem_maskToList] at hf ⊢
  refine ⟨hc, ?_⟩
  rw [hasNodeIn_iff]
  exact ⟨v, hvc, (allNodesIn_iff _ _).mp hf.2 v hv⟩

/-- … and the same for the cell-row terms of Biot: every interaction region of every node of a cell of the
    partition (`cells_in_subgrid`) is inside the subgrid. -/
theorem own_cell_regions_inside (cn : Conn) (P : List Nat)
    (p : Nat) (hp : p ∈ P) (v : Nat) (hv : v ∈ cn.getD p [])
    (c : Nat) (hc : c < cn.length) (hvc : v ∈ cn.getD c []) : c ∈ subCells cn P := by
  unfold subCells
  rw [mem_maskToList]
  refine ⟨hc, ?_⟩
  rw [hasNodeIn_iff]
  exact ⟨v, hvc, (nodesOf_iff cn P v).mpr ⟨p, hp, hv⟩⟩

/-- `cell_ind_for_partial_update` as coded, for ANY combination of specified cells / faces / nodes: every
    interaction region of every affected ("active") face lies in the returned cell set. -/
theorem affected_face_regions_inside (cn fn : Conn) (cells faces nodes : Option (List Nat))
    (f : Nat) (hf : f ∈ (cellInd cn fn cells faces nodes).2) (v : Nat) (hv : v ∈ fn.getD f [])
    (c : Nat) (hc : c < cn.length) (hvc : v ∈ cn.getD c []) :
    c ∈ (cellInd cn fn cells faces nodes).1 := by
  have hinv : RegionsInside cn fn (cellIndState cn fn cells faces nodes) := by
    unfold cellIndState
    apply regionsInside_optStep cn fn _ (regionsInside_stepNodes cn fn)
    apply regionsInside_optStep cn fn _ (regionsInside_stepFaces cn fn)
    apply regionsInside_optStep cn fn _ (regionsInside_stepCells cn fn)
    exact regionsInside_init cn fn
  unfold cellInd at hf ⊢
  simp only [mem_maskToList] at hf ⊢
  exact ⟨hc, hinv f v c hf.1 hf.2 hv hc hvc⟩

/-- Partial rediscretisation specified by cells, faces or nodes (any combination): with the affected faces
    and the active grid exactly as `cell_ind_for_partial_update` computes them, (1) the updated matrix is the
    one-piece matrix of the new parameters under the two locality hypotheses, and (2) the index-level part of
    the second hypothesis holds: the active grid contains all interaction regions of all affected faces. -/
theorem partial_update_eq_whole_specified (cn fn : Conn) (cells faces nodes : Option (List Nat))
    (ndr ndc : Nat) (hnd : 0 < ndr) (s : Sub) (old Wnew : COO)
    (hown : s.own = (cellInd cn fn cells faces nodes).2)
    (hold : ∀ i j, i / ndr ∉ s.own → entry old i j = entry Wnew i j)
    (hloc : ∀ i j, i / ndr ∈ s.own → entry (mapAll ndr ndc s) i j = entry Wnew i j) :
    (∀ i j, entry (updateRows ndr s.own old (partialFresh ndr ndc s)) i j = entry Wnew i j) ∧
    (∀ f ∈ s.own, ∀ v ∈ fn.getD f [], ∀ c, c < cn.length → v ∈ cn.getD c [] →
        c ∈ (cellInd cn fn cells faces nodes).1) := by
  refine ⟨fun i j => partial_update_eq_whole ndr ndc hnd s old Wnew hold hloc i j, ?_⟩
  intro f hf v hv c hc hvc
  rw [hown] at hf
  exact affected_face_regions_inside cn fn cells faces nodes f hf v hv c hc hvc

/-! ### non-vacuity: concrete data -/

/-- three faces, two cells; face 1 lies on the interface and is owned by both subproblems -/
def exW : COO := [(0, 0, 4), (1, 0, -3), (1, 1, 3), (2, 1, 5)]
def exS1 : Sub := { own := [0, 1], l2gR := [0, 1, 2], l2gC := [0, 1],
                    loc := [(0, 0, 4), (1, 0, -3), (1, 1, 3), (2, 1, 77)] }   -- row 2 is "wrong" (overlap)
def exS2 : Sub := { own := [1, 2], l2gR := [1, 2], l2gC := [1, 0],
                    loc := [(0, 1, -3), (0, 0, 3), (1, 0, 5)] }                -- permuted local cells

example : (List.range 3).map (fun i => (List.range 2).map (fun j => entry (glue 1 1 [exS1, exS2]) i j))
    = (List.range 3).map (fun i => (List.range 2).map (fun j => entry exW i j)) := by decide +kernel

example : count [exS1, exS2] 1 = 2 ∧ count [exS1, exS2] 0 = 1 := by decide

/-- the hypotheses of `glue_eq_whole` are satisfiable by this data (so the theorem applies to it) -/
example (i j : Nat) (hi : i < 3 * 1) : entry (glue 1 1 [exS1, exS2]) i j = entry exW i j := by
  apply glue_eq_whole 1 1 3 (by decide) [exS1, exS2] exW
  · intro s hs; simp at hs; rcases hs with rfl | rfl <;> decide
  · intro f hf
    have : f = 0 ∨ f = 1 ∨ f = 2 := by omega
    rcases this with rfl | rfl | rfl
    · exact ⟨exS1, by simp, by decide⟩
    · exact ⟨exS1, by simp, by decide⟩
    · exact ⟨exS2, by simp, by decide⟩
  · intro s hs i j hown
    simp at hs
    rcases hs with rfl | rfl
    · have : i = 0 ∨ i = 1 := by simpa [exS1] using hown
      rcases this with rfl | rfl <;>
        simp [mapAll, mapCOO, gidx, exS1, exW, entry]
    · have : i = 1 ∨ i = 2 := by simpa [exS2] using hown
      rcases this with rfl | rfl <;>
        simp [mapAll, mapCOO, gidx, exS2, exW, entry]
  · exact hi

/-- Finding `mpfa:split:late-full-cover-subproblem` (repaired in /repo, commit a590fa5c2) at model level: BEFORE
    the repair a later subproblem owning all faces overwrote the accumulator while the repetition count still
    included the earlier one, giving half the whole-grid row; the code as it is NOW gives the right value in
    either order. -/
def exT1 : Sub := { own := [0], l2gR := [0], l2gC := [0], loc := [(0, 0, 1)] }
def exT2 : Sub := { own := [0, 1], l2gR := [0, 1], l2gC := [0], loc := [(0, 0, 1), (1, 0, 2)] }

example : entry (glueBeforeFix 2 1 1 [exT1, exT2]) 0 0 = 1 / 2 ∧ entry (glue 1 1 [exT1, exT2]) 0 0 = 1
    ∧ entry (glueAsCoded 2 1 1 [exT1, exT2]) 0 0 = 1 ∧ entry (glueAsCoded 2 1 1 [exT2, exT1]) 0 0 = 1
    ∧ entry (glueAsCoded 2 1 1 [exT2]) 1 0 = 2 := by decide +kernel

/-- vector rows (`nd = 2`, two faces, one cell): face 0 is owned by three subproblems with different local
    numberings; every component row comes out right. -/
def exV (own l2g : List Nat) (loc : COO) : Sub := { own := own, l2gR := l2g, l2gC := [0], loc := loc }
def exVW : COO := [(0, 0, 1), (1, 1, 2), (2, 0, 3), (3, 1, 4)]

example : (List.range 4).map (fun i => (List.range 2).map (fun j => entry (glue 2 2
      [exV [0] [0] [(0, 0, 1), (1, 1, 2)],
       exV [0, 1] [1, 0] [(0, 0, 3), (1, 1, 4), (2, 0, 1), (3, 1, 2)],
       exV [0] [0, 1] [(0, 0, 1), (1, 1, 2), (2, 0, 99)]]) i j))
    = (List.range 4).map (fun i => (List.range 2).map (fun j => entry exVW i j)) := by decide +kernel

/-- index sets on a chain of 6 cells (cell `i` has nodes `i, i+1`; face `i` is node `i`): partition `[2, 3]`
    gives the subgrid `[1, 2, 3, 4]` and owns the faces `[2, 3, 4]`. -/
def chainCN : Conn := [[0, 1], [1, 2], [2, 3], [3, 4], [4, 5], [5, 6]]
def chainFN : Conn := [[0], [1], [2], [3], [4], [5], [6]]

example : subCells chainCN [2, 3] = [1, 2, 3, 4] ∧ subOwnFaces chainCN chainFN [2, 3] = [2, 3, 4] := by
  decide +kernel

example : cellInd chainCN chainFN none (some [3]) none = ([1, 2, 3, 4], [3])
    ∧ cellInd chainCN chainFN none none (some [2, 3]) = ([1, 2, 3], [2, 3])
    ∧ cellInd chainCN chainFN (some [0]) none none = ([0, 1], [0, 1]) := by decide +kernel

/-- OBSERVATION (real code agrees, see the harness): passing an EMPTY face array instead of `None` is not
    neutral. The branch `if faces is not None` re-reads the shared `active_faces` array, so the faces activated
    by the cells branch are treated like specified faces and two more rings of cells are returned
    (cell 2 here). `partial_update_discretization` used to do exactly this and discarded the cell list. -/
example : cellInd chainCN chainFN (some [0]) none none = ([0, 1], [0, 1])
    ∧ cellInd chainCN chainFN (some [0]) (some []) none = ([0, 1, 2], [0, 1]) := by decide +kernel

/-- split partial update on concrete data: active grid = faces [2,3,4] / cells [1,2] of a 5-face grid, split in two
    subproblems sharing active face 1 (= full face 3); the count 2 is applied in ACTIVE numbering (face 1), not to
    full face 1. -/
example : (List.range 5).map (fun i => entry (partialFreshSplit 3 1 1 false true
      [{ own := [0, 1], l2gR := [0, 1], l2gC := [0], loc := [(0, 0, 5), (1, 0, 7)] },
       { own := [1, 2], l2gR := [1, 2], l2gC := [0, 1], loc := [(0, 0, 7), (1, 1, 9)] }]
      { own := [2, 3, 4], l2gR := [2, 3, 4], l2gC := [1, 2], loc := [] }) i 1) = [0, 0, 5, 7, 0] := by
  decide +kernel

/-- partial update on concrete data: row 1 replaced, rows 0 and 2 kept (vector rows: `ndr = 2`) -/
example : (List.range 6).map (fun i => entry (updateRows 2 [1] [(0, 0, 1), (2, 0, 2), (3, 0, 3), (5, 0, 4)]
    [(2, 0, 9), (3, 1, 8)]) i 0) = [1, 0, 9, 0, 0, 4] := by decide +kernel

example : lidx [4, 7, 9] 2 (gidx [4, 7, 9] 2 3) = 3 ∧ gidx [4, 7, 9] 2 3 = 15
    ∧ gidx [4, 7, 9] 2 (lidx [4, 7, 9] 2 19) = 19 := by decide

end PorepyVerif.C14
