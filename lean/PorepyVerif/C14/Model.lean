/-
C14 — executable model of the GLUING bookkeeping of `Mpfa.discretize`, `Mpsa.discretize`,
`Biot.discretize` (core Lean only).

A sparse matrix is a list of COO triplets `(row, col, value)`; duplicates are summed (the scipy
convention), so "matrix addition" is list concatenation and `entry` is the observable.

One subproblem (one tuple yielded by `_fvutils.subproblems`, or the "active grid" of a partial
discretisation) is

* `own`   global ids of the row entities this subproblem is responsible for
          (`faces_in_subgrid`; for the cell-row Biot terms `cells_in_subgrid`),
* `l2gR`  local → global map of the row entities (`l2g_faces`, resp. `l2g_cells`),
* `l2gC`  local → global map of the column entities (`l2g_cells` or `l2g_faces`),
* `loc`   the local discretisation matrix.

Rows and columns come in blocks of `ndr` / `ndc` per entity
(`pp.array_operations.expand_indices_nd`, `subgrid_to_grid_mapping(is_vector=True)`).

Steps as coded:
  1. `remove_nonlocal_contribution(where(~isin(l2g_faces, faces_in_subgrid)), nd, …)`   →  `zeroed`
  2. `face_map * loc * cell_map`                                                        →  `toGlobal`
  3. `active += …` over all subproblems                                                 →  `accumulate`
  4. `np.bincount(np.concatenate(faces_in_subgrid_accum))`, `dia(1/count) @ active`      →  `count`, `scale`
  5. partial update `M[active_rows] = fresh[active_rows]`                               →  `updateRows`
-/
namespace PorepyVerif.C14

abbrev Trip := Nat × Nat × Rat
abbrev COO := List Trip

/-- entry `(i, j)` of a COO matrix: duplicates are summed. -/
def entry : COO → Nat → Nat → Rat
  | [], _, _ => 0
  | t :: M, i, j => (if t.1 = i ∧ t.2.1 = j then t.2.2 else 0) + entry M i j

structure Sub where
  own : List Nat
  l2gR : List Nat
  l2gC : List Nat
  loc : COO

/-- `expand_indices_nd` composed with a local→global entity map: local index `i` of a quantity
    with `nd` components per entity ↦ global index. -/
def gidx (l2g : List Nat) (nd : Nat) (i : Nat) : Nat := l2g.getD (i / nd) 0 * nd + i % nd

/-- global index ↦ local index (inverse of `gidx` on its range) -/
def lidx (l2g : List Nat) (nd : Nat) (I : Nat) : Nat := l2g.idxOf (I / nd) * nd + I % nd

/-- step 1: rows of local row entities whose global id is not owned are zeroed (dropped). -/
def zeroed (ndr : Nat) (s : Sub) : COO :=
  s.loc.filter (fun t => decide (s.l2gR.getD (t.1 / ndr) 0 ∈ s.own))

/-- `face_map * M * cell_map` for any local matrix `M` of subproblem `s` -/
def mapCOO (ndr ndc : Nat) (s : Sub) (M : COO) : COO :=
  M.map (fun t => (gidx s.l2gR ndr t.1, gidx s.l2gC ndc t.2.1, t.2.2))

/-- the local matrix in global numbering, nothing removed (used to state locality) -/
def mapAll (ndr ndc : Nat) (s : Sub) : COO := mapCOO ndr ndc s s.loc

/-- steps 1+2: contribution of one subproblem to the active matrix -/
def toGlobal (ndr ndc : Nat) (s : Sub) : COO := mapCOO ndr ndc s (zeroed ndr s)

/-- step 3 (as in Mpsa / Biot, and in Mpfa after the repair): sum of all contributions -/
def accumulate (ndr ndc : Nat) : List Sub → COO
  | [] => []
  | s :: subs => toGlobal ndr ndc s ++ accumulate ndr ndc subs

/-- step 4a: `np.bincount(np.concatenate(faces_in_subgrid_accum))[f]` -/
def count : List Sub → Nat → Nat
  | [], _ => 0
  | s :: subs, f => s.own.count f + count subs f

/-- step 4b: row `i` is divided by the repetition count of its entity `i / ndr` -/
def scale (ndr : Nat) (cnt : Nat → Nat) (M : COO) : COO :=
  M.map (fun t => (t.1, t.2.1, t.2.2 / (cnt (t.1 / ndr) : Rat)))

/-- the glued matrix of the face-row terms -/
def glue (ndr ndc : Nat) (subs : List Sub) : COO :=
  scale ndr (count subs) (accumulate ndr ndc subs)

/-- the glued matrix of the cell-row Biot terms (`displacement_divergence`, `consistency`,
    `bound_displacement_divergence`): no scaling (see the IMPLEMENTATION NOTE in biot.py) -/
def glueNoScale (ndr ndc : Nat) (subs : List Sub) : COO := accumulate ndr ndc subs

/-- Step 3 exactly as coded in `Mpfa.discretize` NOW (after the repair `a590fa5c2`): a subproblem whose
    `faces_in_subgrid` has as many elements as the grid has faces skips the mapping; its unmapped local matrix is
    ASSIGNED if it is the first subproblem (`len(faces_in_subgrid_accum) == 1`) and ADDED otherwise. -/
def accumulateAsCoded (nf ndr ndc : Nat) : Bool → COO → List Sub → COO
  | _, acc, [] => acc
  | first, acc, s :: subs =>
    accumulateAsCoded nf ndr ndc false
      (if s.own.length = nf then (if first then zeroed ndr s else acc ++ zeroed ndr s)
       else acc ++ toGlobal ndr ndc s) subs

def glueAsCoded (nf ndr ndc : Nat) (subs : List Sub) : COO :=
  scale ndr (count subs) (accumulateAsCoded nf ndr ndc true [] subs)

/-- Step 3 as it was coded BEFORE the repair (finding `mpfa:split:late-full-cover-subproblem`, fixed):
    the full-cover subproblem always overwrote the accumulator. Kept for the documented counterexample. -/
def accumulateBeforeFix (nf ndr ndc : Nat) : COO → List Sub → COO
  | acc, [] => acc
  | acc, s :: subs =>
    accumulateBeforeFix nf ndr ndc
      (if s.own.length = nf then zeroed ndr s else acc ++ toGlobal ndr ndc s) subs

def glueBeforeFix (nf ndr ndc : Nat) (subs : List Sub) : COO :=
  scale ndr (count subs) (accumulateBeforeFix nf ndr ndc [] subs)

/-- the local→global maps of a subproblem are the identity (`np.arange`) -/
def idMaps (ndr ndc : Nat) (s : Sub) : Prop :=
  (∃ nR, s.l2gR = List.range nR) ∧ (∃ nC, s.l2gC = List.range nC) ∧
  ∀ t ∈ s.loc, t.1 < s.l2gR.length * ndr ∧ t.2.1 < s.l2gC.length * ndc

/-- step 5: rows of the active entities are taken from `fresh`, all other rows from `old`.
    Models both `M[active_rows] = fresh[active_rows]` (parameter `update_discretization`) and
    `remove_nonlocal_contribution(active, old) + fresh` of `partial_update_discretization`
    (there `fresh` already has zero rows outside `active`). -/
def updateRows (ndr : Nat) (active : List Nat) (old fresh : COO) : COO :=
  old.filter (fun t => !decide (t.1 / ndr ∈ active)) ++
  fresh.filter (fun t => decide (t.1 / ndr ∈ active))

/-- a fresh partial discretisation: one subproblem (the active grid), rows of non-active
    faces removed, mapped to the full grid, no scaling (`faces_in_subgrid` has no repetitions). -/
def partialFresh (ndr ndc : Nat) (s : Sub) : COO := toGlobal ndr ndc s

/-- a partial discretisation whose active grid is itself split into subproblems (parameters
    `specified_*` together with `partition_arguments`): the subproblems `subs` (in the numbering of the ACTIVE
    grid) are glued and scaled on the active grid FIRST, then the result is lifted to the full grid through
    the maps of `outer` (`extracted_faces`, `active_cells`) and the rows of non-active faces are removed.
    `coded = true` uses the Mpfa accumulation with its shortcut, `nrowA` = number of faces of the active grid. -/
def partialFreshSplit (nrowA ndr ndc : Nat) (coded divide : Bool) (subs : List Sub) (outer : Sub) : COO :=
  let inner := if coded then glueAsCoded nrowA ndr ndc subs
               else if divide then glue ndr ndc subs else glueNoScale ndr ndc subs
  toGlobal ndr ndc { outer with loc := inner }

/-- all triplets of a local matrix address existing local rows / columns -/
def inRange (ndr ndc : Nat) (s : Sub) : Prop :=
  ∀ t ∈ s.loc, t.1 < s.l2gR.length * ndr ∧ t.2.1 < s.l2gC.length * ndc

/-! ### index sets of the stencils (which cells / faces a subproblem or a partial update works on)

`Conn` is a connectivity table entity ↦ its nodes: `cn` = `sd.cell_nodes()` (per cell), `fn` = `sd.face_nodes`
(per face). The interaction region of a node `v` is the set of cells `c` with `v ∈ cn[c]`; the MPxA rows of a
face depend on the interaction regions of the nodes of that face only. -/

abbrev Conn := List (List Nat)

def hasNodeIn (row : List Nat) (N : Nat → Bool) : Bool := row.any N
def allNodesIn (row : List Nat) (N : Nat → Bool) : Bool := row.all N

/-- nodes of a list of entities (`cn * cells_boolean > 0`) -/
def nodesOf (conn : Conn) (ents : List Nat) : Nat → Bool :=
  fun v => ents.any (fun e => (conn.getD e []).contains v)

/-- nodes of the entities selected by a mask (`face_nodes * active_faces > 0`) -/
def nodesOfMask (conn : Conn) (mask : Nat → Bool) : Nat → Bool :=
  fun v => (List.range conn.length).any (fun e => mask e && (conn.getD e []).contains v)

def maskToList (n : Nat) (mask : Nat → Bool) : List Nat := (List.range n).filter mask

/-- `_fvutils.subproblems`, cells of the subgrid with overlap: all cells sharing a node with the partition `P` -/
def subCells (cn : Conn) (P : List Nat) : List Nat :=
  maskToList cn.length (fun c => hasNodeIn (cn.getD c []) (nodesOf cn P))

/-- `_fvutils.subproblems`, `faces_in_subgrid`: faces all of whose nodes are nodes of the partition -/
def subOwnFaces (cn fn : Conn) (P : List Nat) : List Nat :=
  maskToList fn.length (fun f => allNodesIn (fn.getD f []) (nodesOf cn P))

/-- state of `cell_ind_for_partial_update`: mask of the cells collected so far, and the (shared!)
    boolean array `active_faces` -/
structure St where
  cp : Nat → Bool
  fp : Nat → Bool

/-- branch `if cells is not None` -/
def stepCells (cn fn : Conn) (C : List Nat) (st : St) : St :=
  let V0 := nodesOf cn C
  let fp1 : Nat → Bool := fun f => st.fp f || hasNodeIn (fn.getD f []) V0
  let V1 : Nat → Bool := fun v => V0 v || nodesOfMask fn fp1 v
  { cp := fun c => st.cp c || hasNodeIn (cn.getD c []) V1, fp := fp1 }

/-- branch `if faces is not None`; note that `active_nodes` is taken from ALL faces active so far -/
def stepFaces (cn fn : Conn) (S : List Nat) (st : St) : St :=
  let Vp := nodesOf fn S
  let fp2 : Nat → Bool := fun f => st.fp f || hasNodeIn (fn.getD f []) Vp
  let An := nodesOfMask fn fp2
  let prim : Nat → Bool := fun c => hasNodeIn (cn.getD c []) An
  let An2 : Nat → Bool := fun v => An v || nodesOfMask cn prim v
  { cp := fun c => st.cp c || hasNodeIn (cn.getD c []) An2, fp := fp2 }

/-- branch `if nodes is not None` -/
def stepNodes (cn fn : Conn) (Nn : List Nat) (st : St) : St :=
  let Vn : Nat → Bool := fun v => Nn.contains v
  { cp := fun c => st.cp c || hasNodeIn (cn.getD c []) Vn,
    fp := fun f => st.fp f || allNodesIn (fn.getD f []) Vn }

def optStep (f : List Nat → St → St) : Option (List Nat) → St → St
  | none, st => st
  | some l, st => f l st

/-- `cell_ind_for_partial_update(sd, cells, faces, nodes)` as coded (the cell list without the repetitions
    that `np.hstack` leaves in it) -/
def cellIndState (cn fn : Conn) (cells faces nodes : Option (List Nat)) : St :=
  optStep (stepNodes cn fn) nodes
    (optStep (stepFaces cn fn) faces
      (optStep (stepCells cn fn) cells { cp := fun _ => false, fp := fun _ => false }))

def cellInd (cn fn : Conn) (cells faces nodes : Option (List Nat)) : List Nat × List Nat :=
  let st := cellIndState cn fn cells faces nodes
  (maskToList cn.length st.cp, maskToList fn.length st.fp)

end PorepyVerif.C14
