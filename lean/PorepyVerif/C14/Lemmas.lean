/-
C14 — helper lemmas about COO matrices and the gluing steps.
-/
import PorepyVerif.C14.Model
import Mathlib.Tactic.Ring
import Mathlib.Tactic.FieldSimp
import Mathlib.Algebra.Order.Field.Rat
import Mathlib.Data.List.Nodup

namespace PorepyVerif.C14

/-! ### entries of COO matrices -/

@[simp] theorem entry_nil (i j : Nat) : entry [] i j = 0 := rfl

theorem entry_cons (t : Trip) (M : COO) (i j : Nat) :
    entry (t :: M) i j = (if t.1 = i ∧ t.2.1 = j then t.2.2 else 0) + entry M i j := rfl

theorem entry_append (A B : COO) (i j : Nat) : entry (A ++ B) i j = entry A i j + entry B i j := by
  induction A with
  | nil => simp
  | cons t A ih => simp only [List.cons_append, entry_cons, ih]; ring

/-- keeping only the rows selected by `p` -/
theorem entry_filter_row (p : Nat → Bool) (A : COO) (i j : Nat) :
    entry (A.filter (fun t => p t.1)) i j = if p i then entry A i j else 0 := by
  induction A with
  | nil => simp
  | cons t A ih =>
    by_cases ht : p t.1
    · rw [List.filter_cons_of_pos (by simpa using ht), entry_cons, entry_cons, ih]
      by_cases hp : p i
      · simp [hp]
      · have : ¬ (t.1 = i ∧ t.2.1 = j) := fun h => hp (h.1 ▸ ht)
        simp [hp, this]
    · rw [List.filter_cons_of_neg (by simpa using ht), entry_cons, ih]
      by_cases hp : p i
      · have : ¬ (t.1 = i ∧ t.2.1 = j) := fun h => ht (h.1 ▸ hp)
        simp [hp, this]
      · simp [hp]

/-! ### index expansion -/

theorem getD_eq_getElem' (l : List Nat) (i : Nat) (h : i < l.length) : l.getD i 0 = l[i] := by
  simp [List.getD, h]

theorem gidx_div (l2g : List Nat) {nd : Nat} (hnd : 0 < nd) (r : Nat) :
    gidx l2g nd r / nd = l2g.getD (r / nd) 0 := by
  unfold gidx
  rw [Nat.add_comm, Nat.add_mul_div_right _ _ hnd, Nat.div_eq_of_lt (Nat.mod_lt _ hnd), Nat.zero_add]

theorem gidx_mod (l2g : List Nat) (nd : Nat) (r : Nat) :
    gidx l2g nd r % nd = r % nd := by
  unfold gidx
  rw [Nat.add_comm, Nat.add_mul_mod_self_right, Nat.mod_mod]

/-- global → local → global is the identity on the range of the map -/
theorem gidx_lidx (l2g : List Nat) {nd : Nat} (hnd : 0 < nd) (I : Nat) (hI : I / nd ∈ l2g) :
    gidx l2g nd (lidx l2g nd I) = I := by
  have hlt : l2g.idxOf (I / nd) < l2g.length := List.idxOf_lt_length_iff.mpr hI
  unfold gidx lidx
  have h1 : (l2g.idxOf (I / nd) * nd + I % nd) / nd = l2g.idxOf (I / nd) := by
    rw [Nat.add_comm, Nat.add_mul_div_right _ _ hnd, Nat.div_eq_of_lt (Nat.mod_lt _ hnd), Nat.zero_add]
  have h2 : (l2g.idxOf (I / nd) * nd + I % nd) % nd = I % nd := by
    rw [Nat.add_comm, Nat.add_mul_mod_self_right, Nat.mod_mod]
  rw [h1, h2, getD_eq_getElem' _ _ hlt, List.getElem_idxOf hlt]
  rw [Nat.mul_comm]; exact Nat.div_add_mod I nd

/-- local → global → local is the identity when the map has no repetitions -/
theorem lidx_gidx (l2g : List Nat) {nd : Nat} (hnd : 0 < nd) (hinj : l2g.Nodup) (i : Nat)
    (hi : i < l2g.length * nd) : lidx l2g nd (gidx l2g nd i) = i := by
  have hlt : i / nd < l2g.length := (Nat.div_lt_iff_lt_mul hnd).mpr hi
  unfold lidx
  rw [gidx_div l2g hnd, gidx_mod l2g nd, getD_eq_getElem' _ _ hlt,
    List.Nodup.idxOf_getElem hinj _ hlt]
  rw [Nat.mul_comm]; exact Nat.div_add_mod i nd

theorem gidx_inj (l2g : List Nat) {nd : Nat} (hnd : 0 < nd) (hinj : l2g.Nodup) {a b : Nat}
    (ha : a < l2g.length * nd) (hb : b < l2g.length * nd)
    (h : gidx l2g nd a = gidx l2g nd b) : a = b := by
  rw [← lidx_gidx l2g hnd hinj a ha, ← lidx_gidx l2g hnd hinj b hb, h]

/-! ### the gluing steps, entry by entry -/

theorem entry_mapCOO_filter (ndr ndc : Nat) (hnd : 0 < ndr) (s : Sub) (M : COO) (i j : Nat) :
    entry (mapCOO ndr ndc s (M.filter (fun t => decide (s.l2gR.getD (t.1 / ndr) 0 ∈ s.own)))) i j
      = if i / ndr ∈ s.own then entry (mapCOO ndr ndc s M) i j else 0 := by
  induction M with
  | nil => simp [mapCOO]
  | cons t M ih =>
    have hrow : gidx s.l2gR ndr t.1 / ndr = s.l2gR.getD (t.1 / ndr) 0 := gidx_div _ hnd _
    by_cases ht : s.l2gR.getD (t.1 / ndr) 0 ∈ s.own
    · rw [List.filter_cons_of_pos (by simpa using ht)]
      simp only [mapCOO, List.map_cons, entry_cons] at ih ⊢
      rw [ih]
      by_cases hi : i / ndr ∈ s.own
      · simp [hi]
      · have : ¬ (gidx s.l2gR ndr t.1 = i ∧ gidx s.l2gC ndc t.2.1 = j) := by
          rintro ⟨h, -⟩; apply hi; rw [← h, hrow]; exact ht
        simp [hi, this]
    · rw [List.filter_cons_of_neg (by simpa using ht)]
      simp only [mapCOO, List.map_cons, entry_cons] at ih ⊢
      rw [ih]
      by_cases hi : i / ndr ∈ s.own
      · have : ¬ (gidx s.l2gR ndr t.1 = i ∧ gidx s.l2gC ndc t.2.1 = j) := by
          rintro ⟨h, -⟩; apply ht; rw [← hrow, h]; exact hi
        simp [hi, this]
      · simp [hi]

/-- steps 1+2: a subproblem contributes its (mapped) local rows for owned entities and nothing else -/
theorem entry_toGlobal (ndr ndc : Nat) (hnd : 0 < ndr) (s : Sub) (i j : Nat) :
    entry (toGlobal ndr ndc s) i j = if i / ndr ∈ s.own then entry (mapAll ndr ndc s) i j else 0 :=
  entry_mapCOO_filter ndr ndc hnd s s.loc i j

theorem entry_scale (ndr : Nat) (cnt : Nat → Nat) (M : COO) (i j : Nat) :
    entry (scale ndr cnt M) i j = entry M i j / (cnt (i / ndr) : Rat) := by
  induction M with
  | nil => simp [scale]
  | cons t M ih =>
    simp only [scale, List.map_cons, entry_cons] at ih ⊢
    rw [ih, add_div]
    by_cases h : t.1 = i ∧ t.2.1 = j
    · simp [h]
    · simp [h]

/-- sum over the subproblems -/
def sumOver (subs : List Sub) (f : Sub → Rat) : Rat := (subs.map f).sum

@[simp] theorem sumOver_nil (f : Sub → Rat) : sumOver [] f = 0 := rfl
@[simp] theorem sumOver_cons (s : Sub) (subs : List Sub) (f : Sub → Rat) :
    sumOver (s :: subs) f = f s + sumOver subs f := by simp [sumOver]

theorem entry_accumulate (ndr ndc : Nat) (subs : List Sub) (i j : Nat) :
    entry (accumulate ndr ndc subs) i j = sumOver subs (fun s => entry (toGlobal ndr ndc s) i j) := by
  induction subs with
  | nil => simp [accumulate]
  | cons s subs ih => simp [accumulate, entry_append, ih]

/-- `bincount(concatenate(...))[f]` counts the subproblems owning `f` when no list repeats an id -/
theorem sumOver_ite_count (subs : List Sub) (hnodup : ∀ s ∈ subs, s.own.Nodup) (f : Nat) (x : Rat) :
    sumOver subs (fun s => if f ∈ s.own then x else 0) = (count subs f : Rat) * x := by
  induction subs with
  | nil => simp [count]
  | cons s subs ih =>
    have hs := hnodup s (List.mem_cons_self)
    rw [sumOver_cons, ih (fun t ht => hnodup t (List.mem_cons_of_mem _ ht))]
    simp only [count]
    by_cases hf : f ∈ s.own
    · rw [List.count_eq_one_of_mem hs hf]; simp [hf]; ring
    · rw [List.count_eq_zero_of_not_mem hf]; simp [hf]

theorem count_pos_of_mem (subs : List Sub) (f : Nat) (h : ∃ s ∈ subs, f ∈ s.own) : 0 < count subs f := by
  induction subs with
  | nil => obtain ⟨s, hs, -⟩ := h; cases hs
  | cons t subs ih =>
    obtain ⟨s, hs, hf⟩ := h
    simp only [count]
    rcases List.mem_cons.mp hs with rfl | hs'
    · have := List.count_pos_iff.mpr hf; omega
    · have := ih ⟨s, hs', hf⟩; omega

theorem count_eq_zero_of_not_mem (subs : List Sub) (f : Nat) (h : ∀ s ∈ subs, f ∉ s.own) :
    count subs f = 0 := by
  induction subs with
  | nil => rfl
  | cons t subs ih =>
    simp only [count]
    rw [List.count_eq_zero_of_not_mem (h t List.mem_cons_self),
      ih (fun s hs => h s (List.mem_cons_of_mem _ hs))]

theorem entry_updateRows (ndr : Nat) (active : List Nat) (old fresh : COO) (i j : Nat) :
    entry (updateRows ndr active old fresh) i j
      = if i / ndr ∈ active then entry fresh i j else entry old i j := by
  unfold updateRows
  rw [entry_append, entry_filter_row (fun r => !decide (r / ndr ∈ active)),
    entry_filter_row (fun r => decide (r / ndr ∈ active))]
  by_cases h : i / ndr ∈ active <;> simp [h]

/-! ### the accumulation as coded in Mpfa (now, and before the repair) -/

theorem gidx_range (n nd : Nat) (hnd : 0 < nd) (i : Nat) (hi : i < n * nd) :
    gidx (List.range n) nd i = i := by
  have hlt : i / nd < n := (Nat.div_lt_iff_lt_mul hnd).mpr hi
  unfold gidx
  rw [getD_eq_getElem' _ _ (by simpa using hlt)]
  simp only [List.getElem_range]
  rw [Nat.mul_comm]; exact Nat.div_add_mod i nd

/-- with identity maps the mapping to global numbering does nothing -/
theorem toGlobal_eq_zeroed_of_idMaps (ndr ndc : Nat) (hr : 0 < ndr) (hc : 0 < ndc) (s : Sub)
    (hid : idMaps ndr ndc s) : toGlobal ndr ndc s = zeroed ndr s := by
  obtain ⟨⟨nR, hR⟩, ⟨nC, hC⟩, hin⟩ := hid
  unfold toGlobal mapCOO
  conv_rhs => rw [← List.map_id (zeroed ndr s)]
  apply List.map_congr_left
  intro t ht
  have htl : t ∈ s.loc := (List.mem_filter.mp ht).1
  have hb := hin t htl
  rw [hR, hC] at hb ⊢
  simp only [List.length_range] at hb
  rw [gidx_range nR ndr hr _ hb.1, gidx_range nC ndc hc _ hb.2]
  rfl

theorem accumulateAsCoded_eq (nf ndr ndc : Nat) (subs : List Sub)
    (h : ∀ s ∈ subs, s.own.length = nf → toGlobal ndr ndc s = zeroed ndr s)
    (first : Bool) (acc : COO) (hfirst : first = true → acc = []) :
    accumulateAsCoded nf ndr ndc first acc subs = acc ++ accumulate ndr ndc subs := by
  induction subs generalizing first acc with
  | nil => simp [accumulateAsCoded, accumulate]
  | cons s subs ih =>
    simp only [accumulateAsCoded, accumulate]
    have hrest := fun t ht => h t (List.mem_cons_of_mem _ ht)
    by_cases hs : s.own.length = nf
    · have e := h s List.mem_cons_self hs
      rw [if_pos hs]
      cases first with
      | true =>
        have : acc = [] := hfirst rfl
        subst this
        simp only [if_true]
        rw [ih hrest false _ (by intro h; cases h), e]; simp
      | false =>
        simp only [Bool.false_eq_true, if_false]
        rw [ih hrest false _ (by intro h; cases h), e]; simp
    · rw [if_neg hs, ih hrest false _ (by intro h; cases h)]; simp

theorem accumulateBeforeFix_no_shortcut (nf ndr ndc : Nat) (subs : List Sub)
    (h : ∀ s ∈ subs, s.own.length ≠ nf) (acc : COO) :
    accumulateBeforeFix nf ndr ndc acc subs = acc ++ accumulate ndr ndc subs := by
  induction subs generalizing acc with
  | nil => simp [accumulateBeforeFix, accumulate]
  | cons s subs ih =>
    simp only [accumulateBeforeFix, accumulate]
    rw [if_neg (h s List.mem_cons_self), ih (fun t ht => h t (List.mem_cons_of_mem _ ht))]
    simp

/-! ### stencil index sets -/

theorem hasNodeIn_iff (row : List Nat) (N : Nat → Bool) :
    hasNodeIn row N = true ↔ ∃ v ∈ row, N v = true := by
  unfold hasNodeIn; exact List.any_eq_true

theorem allNodesIn_iff (row : List Nat) (N : Nat → Bool) :
    allNodesIn row N = true ↔ ∀ v ∈ row, N v = true := by
  unfold allNodesIn; exact List.all_eq_true

theorem nodesOf_iff (conn : Conn) (ents : List Nat) (v : Nat) :
    nodesOf conn ents v = true ↔ ∃ e ∈ ents, v ∈ conn.getD e [] := by
  unfold nodesOf
  simp [List.any_eq_true]

theorem nodesOfMask_iff (conn : Conn) (mask : Nat → Bool) (v : Nat) :
    nodesOfMask conn mask v = true ↔ ∃ e, e < conn.length ∧ mask e = true ∧ v ∈ conn.getD e [] := by
  unfold nodesOfMask
  simp [List.any_eq_true]

theorem mem_maskToList (n : Nat) (mask : Nat → Bool) (e : Nat) :
    e ∈ maskToList n mask ↔ e < n ∧ mask e = true := by
  unfold maskToList; simp [List.mem_filter]

/-- invariant of `cell_ind_for_partial_update`: every interaction region of every active face lies in the
    collected cell set -/
def RegionsInside (cn fn : Conn) (st : St) : Prop :=
  ∀ f v c, f < fn.length → st.fp f = true → v ∈ fn.getD f [] → c < cn.length → v ∈ cn.getD c [] →
    st.cp c = true

theorem regionsInside_init (cn fn : Conn) :
    RegionsInside cn fn { cp := fun _ => false, fp := fun _ => false } := by
  intro f v c _ hfp; simp at hfp

theorem regionsInside_stepCells (cn fn : Conn) (C : List Nat) (st : St) (_h : RegionsInside cn fn st) :
    RegionsInside cn fn (stepCells cn fn C st) := by
  intro f v c hf hfp hv hc hvc
  simp only [stepCells] at hfp ⊢
  rw [Bool.or_eq_true]
  right
  rw [hasNodeIn_iff]
  refine ⟨v, hvc, ?_⟩
  rw [Bool.or_eq_true]
  right
  rw [nodesOfMask_iff]
  exact ⟨f, hf, hfp, hv⟩

theorem regionsInside_stepFaces (cn fn : Conn) (S : List Nat) (st : St) (_h : RegionsInside cn fn st) :
    RegionsInside cn fn (stepFaces cn fn S st) := by
  intro f v c hf hfp hv hc hvc
  simp only [stepFaces] at hfp ⊢
  rw [Bool.or_eq_true]
  right
  rw [hasNodeIn_iff]
  refine ⟨v, hvc, ?_⟩
  rw [Bool.or_eq_true]
  left
  rw [nodesOfMask_iff]
  exact ⟨f, hf, hfp, hv⟩

theorem regionsInside_stepNodes (cn fn : Conn) (Nn : List Nat) (st : St) (h : RegionsInside cn fn st) :
    RegionsInside cn fn (stepNodes cn fn Nn st) := by
  intro f v c hf hfp hv hc hvc
  simp only [stepNodes] at hfp ⊢
  rw [Bool.or_eq_true] at hfp ⊢
  rcases hfp with hold | hnew
  · left; exact h f v c hf hold hv hc hvc
  · right
    rw [hasNodeIn_iff]
    exact ⟨v, hvc, (allNodesIn_iff _ _).mp hnew v hv⟩

theorem regionsInside_optStep (cn fn : Conn) (g : List Nat → St → St)
    (hg : ∀ l st, RegionsInside cn fn st → RegionsInside cn fn (g l st))
    (o : Option (List Nat)) (st : St) (h : RegionsInside cn fn st) :
    RegionsInside cn fn (optStep g o st) := by
  cases o with
  | none => exact h
  | some l => exact hg l st h

end PorepyVerif.C14
