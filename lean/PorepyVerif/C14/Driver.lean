/- C14 line-protocol driver: `lake env lean --run PorepyVerif/C14/Driver.lean`

ops (stateless):
  {"op":"glue","ndr":k,"ndc":k,"divide":bool,"subs":[{"own":[..],"l2gR":[..],"l2gC":[..],"rows":[..],"cols":[..],"vals":["n/d",..]},..]}
      -> {"rows":[..],"cols":[..],"vals":[..],"counts":[..]}   glued COO triplets (duplicates NOT merged) or {"err":"Uncovered"}
         "nrow": number of row entities, used for the coverage check and the counts vector
  {"op":"update","ndr":k,"active":[..],"old":coo[,"fresh":coo]} -> coo   (fresh defaults to the matrix of the last glue op with "store":true)
  {"op":"gluecoded","ndr","ndc","nrow","subs"} -> coo   glue with the Mpfa shortcut as coded now
  {"op":"fresh2","ndr","ndc","divide","coded","nrow","subs":[..active-grid numbering..],"outer":{"own","l2gR","l2gC"}} -> coo (stored)
  {"op":"subgrid","cn":[[..]],"fn":[[..]],"parts":[[..]]} -> {"cells":[[..]],"faces":[[..]]}   subproblems(): subgrid cells / faces_in_subgrid per partition
  {"op":"cellind","cn","fn","cells":null|[..],"faces":null|[..],"nodes":null|[..]} -> {"cells":[..],"faces":[..]}   cell_ind_for_partial_update
  {"op":"maps","l2g":[..],"nd":k,"probe":[..]} -> {"gidx":[..],"back":[..],"lidx":[..]}
-/
import PorepyVerif.Common.Wire
import PorepyVerif.C14.Model
open Lean PV PorepyVerif.C14

def zip3 : List Nat → List Nat → List Rat → COO
  | r :: rs, c :: cs, v :: vs => (r, c, v) :: zip3 rs cs vs
  | _, _, _ => []

def getCOO (j : Json) : R COO := do
  let rows ← fNats j "rows"
  let cols ← fNats j "cols"
  let vals ← fRats j "vals"
  if rows.length != cols.length || rows.length != vals.length then throw "coo length mismatch" else
  pure (zip3 rows cols vals)

def putCOO (M : COO) (extra : List (String × Json) := []) : Json :=
  obj ([("rows", ofNats (M.map (·.1))), ("cols", ofNats (M.map (·.2.1))),
        ("vals", ofRats (M.map (·.2.2)))] ++ extra)

def getSub (j : Json) : R Sub := do
  let own ← fNats j "own"
  let l2gR ← fNats j "l2gR"
  let l2gC ← fNats j "l2gC"
  let loc ← getCOO j
  pure { own := own, l2gR := l2gR, l2gC := l2gC, loc := loc }

/-- state: the last glued matrix that was asked to be stored (the fresh partial matrix) -/
def step (st : COO) (j : Json) : R (COO × Json) := do
  let op ← fStr j "op"
  match op with
  | "glue" =>
    let ndr ← fNat j "ndr"
    let ndc ← fNat j "ndc"
    let divide ← fBool j "divide"
    let nrow ← fNat j "nrow"
    let subs ← (field j "subs" >>= jList getSub)
    let counts := (List.range nrow).map (count subs)
    if divide && counts.any (· == 0) then pure (st, err "Uncovered") else
    let M := if divide then glue ndr ndc subs else glueNoScale ndr ndc subs
    let store := (fieldD j "store" (Json.bool false)) == Json.bool true
    pure (if store then M else st, putCOO M [("counts", ofNats counts)])
  | "update" =>
    let ndr ← fNat j "ndr"
    let active ← fNats j "active"
    let old ← (field j "old" >>= getCOO)
    let fresh ← (match j.getObjVal? "fresh" with
      | .ok f => getCOO f
      | .error _ => pure st)
    pure (st, putCOO (updateRows ndr active old fresh))
  | "gluecoded" =>
    -- the accumulation exactly as coded in Mpfa.discretize now (shortcut for a subproblem owning all faces)
    let ndr ← fNat j "ndr"
    let ndc ← fNat j "ndc"
    let nrow ← fNat j "nrow"
    let subs ← (field j "subs" >>= jList getSub)
    let counts := (List.range nrow).map (count subs)
    if counts.any (· == 0) then pure (st, err "Uncovered") else
    pure (st, putCOO (glueAsCoded nrow ndr ndc subs) [("counts", ofNats counts)])
  | "fresh2" =>
    -- split partial discretisation: glue on the active grid, then lift (stored as the fresh matrix)
    let ndr ← fNat j "ndr"
    let ndc ← fNat j "ndc"
    let divide ← fBool j "divide"
    let coded ← fBool j "coded"
    let nrow ← fNat j "nrow"
    let subs ← (field j "subs" >>= jList getSub)
    let o ← field j "outer"
    let outer : Sub := { own := (← fNats o "own"), l2gR := (← fNats o "l2gR"), l2gC := (← fNats o "l2gC"), loc := [] }
    let counts := (List.range nrow).map (count subs)
    if divide && counts.any (· == 0) then pure (st, err "Uncovered") else
    let M := partialFreshSplit nrow ndr ndc coded divide subs outer
    pure (M, putCOO M [("counts", ofNats counts)])
  | "subgrid" =>
    let cn ← fNatss j "cn"
    let fn ← fNatss j "fn"
    let parts ← fNatss j "parts"
    pure (st, obj [("cells", ofList ofNats (parts.map (subCells cn))),
                   ("faces", ofList ofNats (parts.map (subOwnFaces cn fn)))])
  | "cellind" =>
    let cn ← fNatss j "cn"
    let fn ← fNatss j "fn"
    let cells ← (field j "cells" >>= jOpt (jList jNat))
    let faces ← (field j "faces" >>= jOpt (jList jNat))
    let nodes ← (field j "nodes" >>= jOpt (jList jNat))
    let r := cellInd cn fn cells faces nodes
    pure (st, obj [("cells", ofNats r.1), ("faces", ofNats r.2)])
  | "maps" =>
    let l2g ← fNats j "l2g"
    let nd ← fNat j "nd"
    let probe ← fNats j "probe"
    let g := (List.range (l2g.length * nd)).map (gidx l2g nd)
    pure (st, obj [("gidx", ofNats g), ("back", ofNats (g.map (lidx l2g nd))),
                   ("lidx", ofNats (probe.map (lidx l2g nd)))])
  | _ => throw s!"unknown op {op}"

def main : IO Unit := runDriver ([] : COO) step
