/-
C31 — property theorems (statements only depend on Model.lean; helper lemmas in Lemmas.lean).

Property: point-in-polygon, point-in-polyhedron, half-space, counter-clockwise, planarity and
collinearity predicates return the same answer as exact arithmetic for inputs away from the
tolerance band, and point-sorting helpers return chains or orderings that are valid for their input.

Proved here, for ALL inputs satisfying the stated hypotheses:
  ccw_eq_exact_outside_band, ccw_int_exact, ccw_in_band_default   is_ccw_polyline
  ccw_polygon_iff_area_pos                                        is_ccw_polygon = sign of the shoelace area
  point_in_polygon_kernel_inside / _separated_outside /
  point_in_convex_polygon_outside / _spec                         point_in_polygon (winding test), convex case
  point_in_polygon_eq_signed_crossings / _crossing_odd /
  point_in_polygon_crossing_parity_spec, pip_proved_answer_sound  any polygon, generic position: winding sum =
                                                                  signed crossing number of the upward ray; = even-odd
                                                                  rule when the vertical line meets <= 2 edges
  collinear_spec, planar_exact, planar_spec                       integer inputs: coded True ⇔ exact zero
  collinear_proved_answer_sound / planar_proved_answer_sound      the same with the hypotheses as decidable input
                                                                  conditions evaluated by the driver per case
  half_space_spec                                                 the counting loop = ∀ planes
  sort_point_pairs_chain                                          whatever is returned is a valid chain
  sort_point_pairs_cycle_complete / _chain_complete               simple cycles / simple open chains are never rejected
  sort_points_on_line_perm / _monotone                            permutation; monotone in the line parameter
  sort_point_plane_xy_perm / _sorted, ang_sorted_clockwise        planes z = const: permutation, ordered by the exact
                                                                  arctan2 comparison = clockwise about the centre

Not proved (correspondence + exact rational oracle only): that a SIMPLE polygon has signed crossing
number in {-1, 0, 1} (needed for point_in_polygon when the vertical line meets >= 4 edges) and the
non-generic positions (vertex exactly above/below the point); point_in_cell; point_in_polyhedron /
PointInPolyhedron (solid angles: arctan2); half_space_interior_point (LP); sort_point_plane in planes other than z = const
(rotation by an irrational matrix before arctan2); sort_triangle_edges; sort_multiple_point_pairs; the rotation
inside sort_points_on_line (modelled as the dot product with the tangent it aligns with e_z).
-/
import PorepyVerif.C31.Lemmas

namespace PorepyVerif.C31

/-! ### is_ccw_polyline -/

/-- Outside the tolerance band the coded answer is the exact orientation (for every `default`). -/
theorem ccw_eq_exact_outside_band (p1 p2 p3 : P2) (tol : Rat) (d : Bool)
    (htol : 0 ≤ tol) (hband : tol < absR (det3 p1 p2 p3)) :
    isCcwPolyline p1 p2 p3 tol d = decide (0 < det3 p1 p2 p3) := by
  unfold isCcwPolyline
  simp only
  generalize det3 p1 p2 p3 = c at *
  unfold absR at *
  split at hband <;> grind

/-- Inside the band (`|det| ≤ tol`) the answer is `default`. -/
theorem ccw_in_band_default (p1 p2 p3 : P2) (tol : Rat) (d : Bool)
    (hband : absR (det3 p1 p2 p3) ≤ tol) : isCcwPolyline p1 p2 p3 tol d = d := by
  unfold isCcwPolyline
  simp only
  generalize det3 p1 p2 p3 = c at *
  unfold absR at *
  split at hband <;> grind

/-- Integer coordinates: a non-zero determinant has modulus ≥ 1, so every tolerance below 1 is
    outside the band and the coded answer is the exact orientation. -/
theorem ccw_int_exact (p1 p2 p3 : P2) (tol : Rat) (d : Bool)
    (h1 : IsInt2 p1) (h2 : IsInt2 p2) (h3 : IsInt2 p3)
    (htol : 0 ≤ tol) (htol1 : tol < 1) (hne : det3 p1 p2 p3 ≠ 0) :
    isCcwPolyline p1 p2 p3 tol d = decide (0 < det3 p1 p2 p3) := by
  apply ccw_eq_exact_outside_band _ _ _ _ _ htol
  have hint : IsInt (det3 p1 p2 p3) :=
    ((h2.1.sub h1.1).mul (h3.2.sub h1.2)).sub ((h2.2.sub h1.2).mul (h3.1.sub h1.1))
  have := absR_ge_one_of_int hint hne
  linarith

example : isCcwPolyline (0, 0) (1, 1) (1, 3) (1 / 2) false = true := by decide +kernel
example : isCcwPolyline (0, 0) (1, 1) (2, 2) (1 / 2) false = false ∧
    isCcwPolyline (0, 0) (1, 1) (2, 2) (1 / 2) true = true := by decide +kernel

/-! ### is_ccw_polygon -/

/-- The trapezoid sum of the code is minus twice the shoelace area: the answer is the sign of the
    signed area. -/
theorem ccw_polygon_iff_area_pos (poly : List P2) : isCcwPolygon poly = decide (0 < area2 poly) := by
  unfold isCcwPolygon
  rw [polyValue_eq_neg_area2]
  by_cases h : 0 < area2 poly
  · have : -area2 poly < 0 := by linarith
    simp [h, this]
  · have : ¬ (-area2 poly < 0) := by intro h'; apply h; linarith
    simp [h, this]

example : isCcwPolygon [(0, 0), (2, 0), (2, 1), (1, 1), (1, 2), (0, 2)] = true ∧
    isCcwPolygon [(0, 2), (1, 2), (1, 1), (2, 1), (2, 0), (0, 0)] = false := by decide +kernel

/-! ### point_in_polygon -/

/-- Kernel points: if every edge is seen counter-clockwise from `p` (`s = 1`; `s = -1`: every edge
    clockwise, polygon given clockwise), the winding test answers True.  For a convex polygon these
    are exactly its interior points. -/
theorem point_in_polygon_kernel_inside (poly : List P2) (p : P2) (d : Bool) (hne : poly ≠ [])
    (s : Rat) (hs : s = 1 ∨ s = -1)
    (h : ∀ e ∈ cycPairs poly, 0 < s * cross2 (sub2 e.1 p) (sub2 e.2 p)) :
    pointInPolygon poly p d = true := by
  unfold pointInPolygon
  apply pip_core_inside _ (by simpa using hne) s hs
  rw [cycPairs_map]
  intro e he
  obtain ⟨e', he', rfl⟩ := List.mem_map.mp he
  exact h e' he'

/-- Separated points: if some line through `p` has the whole polygon strictly on one side, the
    winding test answers False (any polygon, convex or not, any `default`). -/
theorem point_in_polygon_separated_outside (poly : List P2) (p n : P2) (d : Bool)
    (h : ∀ v ∈ poly, 0 < dot2 n (sub2 v p)) : pointInPolygon poly p d = false := by
  unfold pointInPolygon
  apply pip_core_outside _ n
  intro v hv
  obtain ⟨v', hv', rfl⟩ := List.mem_map.mp hv
  exact h v' hv'

/-- Convex counter-clockwise polygon (every vertex on the closed left of every edge line): a point
    strictly on the right of SOME edge line is reported outside — also when it lies on the
    extension of another edge. -/
theorem point_in_convex_polygon_outside (poly : List P2) (p : P2) (d : Bool)
    (hconv : ∀ e ∈ cycPairs poly, ∀ v ∈ poly, 0 ≤ cross2 (sub2 e.2 e.1) (sub2 v e.1))
    (e : P2 × P2) (he : e ∈ cycPairs poly) (hneg : cross2 (sub2 e.1 p) (sub2 e.2 p) < 0) :
    pointInPolygon poly p d = false := by
  -- the polygon is strictly on the left of the line through p parallel to the edge e
  apply point_in_polygon_separated_outside poly p (-(e.2.2 - e.1.2), e.2.1 - e.1.1) d
  intro v hv
  have hc := hconv e he v hv
  simp only [dot2, cross2, sub2] at hc hneg ⊢
  nlinarith

/-- Convex counter-clockwise polygon, `p` on no edge line: the coded answer is the exact one,
    "strictly left of every edge". -/
theorem point_in_convex_polygon_spec (poly : List P2) (p : P2) (d : Bool) (hne : poly ≠ [])
    (hconv : ∀ e ∈ cycPairs poly, ∀ v ∈ poly, 0 ≤ cross2 (sub2 e.2 e.1) (sub2 v e.1))
    (hoff : ∀ e ∈ cycPairs poly, cross2 (sub2 e.1 p) (sub2 e.2 p) ≠ 0) :
    pointInPolygon poly p d = decide (∀ e ∈ cycPairs poly, 0 < cross2 (sub2 e.1 p) (sub2 e.2 p)) := by
  by_cases hall : ∀ e ∈ cycPairs poly, 0 < cross2 (sub2 e.1 p) (sub2 e.2 p)
  · rw [point_in_polygon_kernel_inside poly p d hne 1 (Or.inl rfl) (by simpa using hall),
      decide_eq_true hall]
  · obtain ⟨e, he, hlt⟩ : ∃ e ∈ cycPairs poly, ¬ 0 < cross2 (sub2 e.1 p) (sub2 e.2 p) := by
      by_contra hc
      apply hall
      intro e he
      by_contra h'
      exact hc ⟨e, he, h'⟩
    have hneg : cross2 (sub2 e.1 p) (sub2 e.2 p) < 0 :=
      lt_of_le_of_ne (not_lt.mp hlt) (hoff e he)
    rw [point_in_convex_polygon_outside poly p d hconv e he hneg, decide_eq_false hall]

example : pointInPolygon [(0, 0), (4, 0), (4, 3), (0, 3)] (1, 1) false = true ∧
    pointInPolygon [(0, 0), (4, 0), (4, 3), (0, 3)] (5, 1) true = false ∧
    pointInPolygon [(0, 0), (4, 0), (4, 3), (0, 3)] (4, 1) true = true := by decide +kernel

/-- the regression case of the repaired defect: inside the L, on the extension of an edge -/
example : pointInPolygon [(0, 0), (2, 0), (2, 1), (1, 1), (1, 2), (0, 2)] (1 / 2, 1) false = true := by
  decide +kernel

/-! #### general polygons: winding number = signed crossing number of the upward ray -/

/-- Generic position (no vertex on the vertical line through `p`, `p` on no edge that meets this
    line): for EVERY closed polygon — convex or not, simple or not — the coded answer is
    "the signed number of crossings of the upward vertical ray from `p` (right-to-left minus
    left-to-right) is not zero", i.e. the winding-number sum of the code is the classical signed
    crossing number. -/
theorem point_in_polygon_eq_signed_crossings (poly : List P2) (p : P2) (d : Bool)
    (hgen : ∀ v ∈ poly, v.1 ≠ p.1)
    (hoff : ∀ e ∈ edgesFrom poly p, (isLR e || isRL e) = true → cross2 e.1 e.2 ≠ 0) :
    pointInPolygon poly p d = decide (upRL (edgesFrom poly p) ≠ upLR (edgesFrom poly p)) := by
  unfold pointInPolygon edgesFrom at *
  apply pip_core_generic _ d _ hoff
  intro v hv
  obtain ⟨v', hv', rfl⟩ := List.mem_map.mp hv
  simp only [sub2]
  exact sub_ne_zero.mpr (hgen v' hv')

/-- … hence an ODD crossing number of the upward ray (the exact even–odd rule) implies True. -/
theorem point_in_polygon_crossing_odd (poly : List P2) (p : P2) (d : Bool)
    (hgen : ∀ v ∈ poly, v.1 ≠ p.1)
    (hoff : ∀ e ∈ edgesFrom poly p, (isLR e || isRL e) = true → cross2 e.1 e.2 ≠ 0)
    (hodd : (upLR (edgesFrom poly p) + upRL (edgesFrom poly p)) % 2 = 1) :
    pointInPolygon poly p d = true := by
  rw [point_in_polygon_eq_signed_crossings poly p d hgen hoff]
  have : upRL (edgesFrom poly p) ≠ upLR (edgesFrom poly p) := by intro h; rw [h] at hodd; omega
  simp [this]

/-- … and when the vertical line through `p` meets at most two edges (every `p` for an x-monotone
    polygon, in particular a convex one; many `p` for other polygons) the coded answer IS the exact
    even–odd rule: True iff the upward ray crosses the boundary an odd number of times. -/
theorem point_in_polygon_crossing_parity_spec (poly : List P2) (p : P2) (d : Bool)
    (hgen : ∀ v ∈ poly, v.1 ≠ p.1)
    (hoff : ∀ e ∈ edgesFrom poly p, (isLR e || isRL e) = true → cross2 e.1 e.2 ≠ 0)
    (htwo : straddleCount (edgesFrom poly p) ≤ 2) :
    pointInPolygon poly p d = decide ((upLR (edgesFrom poly p) + upRL (edgesFrom poly p)) % 2 = 1) := by
  rw [point_in_polygon_eq_signed_crossings poly p d hgen hoff]
  have hgen' : ∀ v ∈ poly.map (fun v => sub2 v p), v.1 ≠ 0 := by
    intro v hv
    obtain ⟨v', hv', rfl⟩ := List.mem_map.mp hv
    simp only [sub2]
    exact sub_ne_zero.mpr (hgen v' hv')
  obtain ⟨_, h2, h3, n1, n2, n3, n4⟩ := wind2_crossings (poly.map (fun v => sub2 v p)) hgen' hoff
  unfold edgesFrom at htwo ⊢
  congr 1
  apply propext
  constructor <;> intro h <;> omega

/-- L-shaped polygon, `p = (1/2, 1)` on the extension of an edge: 2 edges met, one crossing above -/
example : straddleCount (edgesFrom [(0, 0), (2, 0), (2, 1), (1, 1), (1, 2), (0, 2)] (1 / 2, 1)) = 2 ∧
    upLR (edgesFrom [(0, 0), (2, 0), (2, 1), (1, 1), (1, 2), (0, 2)] (1 / 2, 1))
      + upRL (edgesFrom [(0, 0), (2, 0), (2, 1), (1, 1), (1, 2), (0, 2)] (1 / 2, 1)) = 1 := by decide +kernel

/-- C-shaped polygon, `p = (1, 1/2)` inside the lower arm: 4 edges met (not covered by the parity
    theorem), 3 crossings above: covered by `point_in_polygon_crossing_odd` -/
example : straddleCount (edgesFrom [(0, 0), (4, 0), (4, 4), (0, 4), (0, 3), (3, 3), (3, 1), (0, 1)] (1, 1 / 2)) = 4 ∧
    upLR (edgesFrom [(0, 0), (4, 0), (4, 4), (0, 4), (0, 3), (3, 3), (3, 1), (0, 1)] (1, 1 / 2))
      + upRL (edgesFrom [(0, 0), (4, 0), (4, 4), (0, 4), (0, 3), (3, 3), (3, 1), (0, 1)] (1, 1 / 2)) = 3 := by
  decide +kernel

/-
What remains for general simple polygons: that the signed crossing number of a SIMPLE closed
polygon is -1, 0 or 1 (a discrete Jordan curve theorem), which turns
`point_in_polygon_eq_signed_crossings` into the even–odd rule when the vertical line meets four
or more edges; and the non-generic positions (a vertex exactly above or below `p`), where the
code's half-plane tie-break `vertexSgn` (sign of y when x = 0) plays the role of a symbolic
perturbation.  Both are covered by the correspondence check and the exact oracle only.
-/

/-- Soundness of the driver's theorem-backed answer: whenever `pipProvedAnswer` (a decidable
    function of the input, evaluated by the driver on every case) returns `some b`, the coded
    `point_in_polygon` returns `b`, for every `default`.  The hypotheses of the point_in_polygon
    theorems above thereby become input conditions that are checked, not assumed. -/
theorem pip_proved_answer_sound (poly : List P2) (p : P2) (d b : Bool)
    (h : pipProvedAnswer poly p = some b) : pointInPolygon poly p d = b := by
  unfold pipProvedAnswer at h
  split at h
  · cases h
  · rename_i hne
    have hne' : poly ≠ [] := by intro e; apply hne; simp [e]
    split at h
    · rename_i hk
      cases h
      simp only [Bool.or_eq_true, pipKernel, decide_eq_true_eq] at hk
      rcases hk with hk | hk
      · exact point_in_polygon_kernel_inside poly p d hne' 1 (Or.inl rfl) hk
      · exact point_in_polygon_kernel_inside poly p d hne' (-1) (Or.inr rfl) hk
    · split at h
      · rename_i hg
        cases h
        simp only [Bool.and_eq_true, pipGeneric, decide_eq_true_eq] at hg
        exact point_in_polygon_crossing_parity_spec poly p d hg.1.1 hg.1.2 hg.2
      · split at h
        · rename_i hg
          cases h
          simp only [Bool.and_eq_true, pipGeneric, evenOddUp, decide_eq_true_eq] at hg
          exact point_in_polygon_crossing_odd poly p d hg.1.1 hg.1.2 hg.2
        · split at h
          · rename_i hg
            cases h
            simp only [Bool.and_eq_true, isConvexCcw, decide_eq_true_eq, List.any_eq_true] at hg
            obtain ⟨hconv, e, he, hneg⟩ := hg
            exact point_in_convex_polygon_outside poly p d hconv e he hneg
          · cases h

example : pipProvedAnswer [(0, 0), (2, 0), (2, 1), (1, 1), (1, 2), (0, 2)] (1 / 2, 1) = some true ∧
    pipProvedAnswer [(0, 0), (2, 0), (2, 1), (1, 1), (1, 2), (0, 2)] (3 / 2, 3 / 2) = some false ∧
    pipProvedAnswer [(0, 0), (2, 0), (2, 1), (1, 1), (1, 2), (0, 2)] (1, 3 / 2) = none := by decide +kernel


/-! ### points_are_collinear -/

/-- Integer points, tolerance below the reciprocal of the largest distance (`tol²·dist² < 1`, so that a
    non-zero integer cross product exceeds the band): the coded answer is True exactly if all
    points are on one line (all difference vectors from the first point are pairwise parallel). -/
theorem collinear_spec (p0 : P3) (rest : List P3) (tol : Rat)
    (hint : ∀ p ∈ p0 :: rest, IsInt3 p) (htol : 0 ≤ tol)
    (hband : tol * tol * maxPairSq (p0 :: rest) 1 < 1) :
    pointsAreCollinear (p0 :: rest) tol = true
      ↔ ∀ p ∈ p0 :: rest, ∀ q ∈ p0 :: rest, cross3 (sub3 p p0) (sub3 q p0) = (0, 0, 0) := by
  match rest, hint, hband with
  | [], _, _ =>
    simp only [pointsAreCollinear, List.mem_singleton, forall_eq, true_iff]
    exact cross3_sub_self_left _ _
  | [p1], _, _ =>
    simp only [pointsAreCollinear, List.mem_cons, List.not_mem_nil, or_false, forall_eq_or_imp, forall_eq,
      true_iff]
    exact ⟨⟨cross3_sub_self_left _ _, cross3_sub_self_left _ _⟩, cross3_sub_self_right _ _, cross3_self _⟩
  | p1 :: p2 :: t, hint, hband =>
    obtain ⟨pts, hpts⟩ : ∃ pts, pts = p0 :: p1 :: p2 :: t := ⟨_, rfl⟩
    rw [← hpts] at hint hband ⊢
    have hp0 : p0 ∈ pts := by simp [hpts]
    obtain ⟨pm, hpm⟩ := argmaxFirst_isSome (fun q => nsq3 (sub3 q p0)) pts (by simp [hpts])
    have hpm_mem := argmaxFirst_mem _ _ _ hpm
    have hpm_max := argmaxFirst_ge _ _ _ hpm
    have hD : (1 : Rat) ≤ maxPairSq pts 1 := maxPairSq_ge _ _
    have hbound : 0 ≤ tol * tol * maxPairSq pts 1 :=
      mul_nonneg (mul_self_nonneg tol) (by linarith)
    have hmodel : pointsAreCollinear pts tol = true ↔
        ∀ p ∈ pts, nsq3 (cross3 (sub3 p p0) (sub3 pm p0)) ≤ tol * tol * maxPairSq pts 1 := by
      have : pointsAreCollinear pts tol = (decide (0 ≤ tol) &&
          pts.all (fun p => decide (nsq3 (cross3 (sub3 p p0)
            (sub3 ((argmaxFirst (fun q => nsq3 (sub3 q p0)) pts).getD p0) p0)) ≤ tol * tol * maxPairSq pts 1))) := by
        rw [hpts]; rfl
      rw [this, hpm]
      simp only [Option.getD_some, Bool.and_eq_true, decide_eq_true_eq, List.all_eq_true, htol, true_and]
    rw [hmodel]
    constructor
    · intro h
      -- every cross product with the direction p0 → pm is an integer vector of norm² < 1, hence zero
      have hz : ∀ p ∈ pts, cross3 (sub3 p p0) (sub3 pm p0) = (0, 0, 0) := by
        intro p hp
        apply nsq3_eq_zero
        have hi : IsInt (nsq3 (cross3 (sub3 p p0) (sub3 pm p0))) :=
          IsInt3.dot (IsInt3.cross ((hint p hp).sub (hint p0 hp0))
            ((hint pm hpm_mem).sub (hint p0 hp0)))
            (IsInt3.cross ((hint p hp).sub (hint p0 hp0))
            ((hint pm hpm_mem).sub (hint p0 hp0)))
        exact hi.eq_zero_of_lt_one (nsq3_nonneg _) (lt_of_le_of_lt (h p hp) hband)
      intro p hp q hq
      by_cases hd : sub3 pm p0 = (0, 0, 0)
      · -- the farthest point coincides with p0: all points coincide with p0
        have hall : ∀ r ∈ pts, sub3 r p0 = (0, 0, 0) := by
          intro r hr
          apply nsq3_eq_zero
          have h1 := hpm_max r hr
          simp only [hd] at h1
          have h2 : nsq3 ((0, 0, 0) : P3) = 0 := by simp [nsq3, dot3]
          have := nsq3_nonneg (sub3 r p0)
          linarith
        rw [hall p hp]; simp [cross3]
      · exact cross3_zero_of_parallel _ _ _ hd (hz p hp) (hz q hq)
    · intro h p hp
      rw [h p hp pm hpm_mem]
      simpa [nsq3, dot3] using hbound

example : pointsAreCollinear [(0, 0, 0), (1, 2, 3), (3, 6, 9), (-2, -4, -6)] (1 / 100000) = true ∧
    pointsAreCollinear [(0, 0, 0), (1, 2, 3), (3, 6, 9), (-2, -4, -5)] (1 / 100000) = false ∧
    pointsAreCollinear [(0, 0, 0), (0, 0, 0), (1, 0, 0), (0, 1, 0)] (1 / 100000) = false := by decide +kernel

example : (1 / 100000 : Rat) * (1 / 100000) * maxPairSq [(0, 0, 0), (1, 2, 3), (3, 6, 9), (-2, -4, -5)] 1 < 1 := by
  decide +kernel

/-! ### points_are_planar -/

/-- Exactly planar points (w.r.t. the given normal `N ≠ 0`) are accepted for every `tol ≥ 0`. -/
theorem planar_exact (N p0 : P3) (rest : List P3) (tol : Rat) (hN : N ≠ (0, 0, 0)) (htol : 0 ≤ tol)
    (h : ∀ p ∈ p0 :: rest, dot3 N (sub3 p p0) = 0) : planarWithNormal N (p0 :: rest) tol = true := by
  have hN0 : nsq3 N ≠ 0 := fun h0 => hN (nsq3_eq_zero h0)
  set pts := p0 :: rest with hpts
  have hl : pts ≠ [] := by simp [hpts]
  have hn : (pts.length : Rat) ≠ 0 := by simp [hpts]; positivity
  have hconst : ∀ p ∈ pts, dot3 N p = dot3 N p0 := by
    intro p hp; have := h p hp; rw [dot3_sub3] at this; linarith
  have hsum : dot3 N (sum3 pts) = (pts.length : Rat) * dot3 N p0 := by
    rw [dot3_sum3]; exact rsum_const _ _ _ hconst
  have hzero : ∀ p ∈ pts, dot3 N (sub3 p (mean3 pts)) = 0 := by
    intro p hp
    have := dot3_sub_mean N p pts hl
    rw [hsum, hconst p hp, sub_self] at this
    exact (mul_eq_zero.mp this).resolve_left hn
  have hoff : offPlaneSq N pts = 0 := by
    unfold offPlaneSq
    exact rsum_zero _ _ (fun p hp => by rw [hzero p hp]; ring)
  unfold planarWithNormal
  simp only [hN0, if_false, hoff, Bool.and_eq_true, decide_eq_true_eq]
  exact ⟨htol, mul_nonneg (mul_self_nonneg tol) (nsq3_nonneg N)⟩

/-- Integer normal and integer points, `tol²·n²·|N|² < 1` (`n` = number of points): the coded answer
    is True exactly if every point is in the plane through the first point with normal `N`. -/
theorem planar_spec (N p0 : P3) (rest : List P3) (tol : Rat) (hNint : IsInt3 N) (hN : N ≠ (0, 0, 0))
    (hint : ∀ p ∈ p0 :: rest, IsInt3 p) (htol : 0 ≤ tol)
    (hband : tol * tol * (((p0 :: rest).length : Rat) * ((p0 :: rest).length : Rat)) * nsq3 N < 1) :
    planarWithNormal N (p0 :: rest) tol = true ↔ ∀ p ∈ p0 :: rest, dot3 N (sub3 p p0) = 0 := by
  refine ⟨fun h => ?_, planar_exact N p0 rest tol hN htol⟩
  have hN0 : nsq3 N ≠ 0 := fun h0 => hN (nsq3_eq_zero h0)
  set pts := p0 :: rest with hpts
  have hl : pts ≠ [] := by simp [hpts]
  have hnpos : (0 : Rat) < (pts.length : Rat) := by simp [hpts]; positivity
  unfold planarWithNormal at h
  simp only [hN0, if_false, Bool.and_eq_true, decide_eq_true_eq] at h
  have hoff := h.2
  -- every signed distance from the centroid vanishes
  have hzero : ∀ p ∈ pts, dot3 N (sub3 p (mean3 pts)) = 0 := by
    intro p hp
    by_contra hne
    set δ := dot3 N (sub3 p (mean3 pts)) with hδ
    have hnd : IsInt ((pts.length : Rat) * δ) := by
      rw [hδ, dot3_sub_mean N p pts hl]
      exact ((IsInt.natCast _).mul (hNint.dot (hint p hp))).sub (hNint.dot (IsInt3_sum3 pts hint))
    have hnd0 : (pts.length : Rat) * δ ≠ 0 := mul_ne_zero (ne_of_gt hnpos) hne
    have h1 := hnd.one_le_sq hnd0
    have hterm : δ * δ ≤ offPlaneSq N pts := by
      unfold offPlaneSq
      exact rsum_ge_term (fun q => dot3 N (sub3 q (mean3 pts)) * dot3 N (sub3 q (mean3 pts))) pts
        (fun q _ => mul_self_nonneg _) p hp
    have h2 : δ * δ ≤ tol * tol * nsq3 N := le_trans hterm hoff
    have h3 : (pts.length : Rat) * δ * ((pts.length : Rat) * δ)
        ≤ tol * tol * ((pts.length : Rat) * (pts.length : Rat)) * nsq3 N := by
      have := mul_le_mul_of_nonneg_left h2 (mul_self_nonneg (pts.length : Rat))
      nlinarith
    linarith
  intro p hp
  have a := hzero p hp
  have b := hzero p0 (by simp [hpts])
  rw [dot3_sub3] at a b ⊢
  linarith

example : planarWithNormal (0, 0, 2) [(0, 0, 1), (3, 1, 1), (-2, 5, 1), (7, 7, 1)] (1 / 100000) = true ∧
    planarWithNormal (0, 0, 2) [(0, 0, 1), (3, 1, 1), (-2, 5, 2), (7, 7, 1)] (1 / 100000) = false := by
  decide +kernel

example : (1 / 100000 : Rat) * (1 / 100000) * ((4 : Rat) * 4) * nsq3 (0, 0, 2) < 1 := by decide +kernel

/-! ### collinear / planar: hypotheses as checked input conditions -/

/-- `collinear_spec` with its hypotheses as a decidable input condition evaluated by the driver:
    whenever `collinearProvedAnswer` returns `some b`, the coded `points_are_collinear` returns `b`. -/
theorem collinear_proved_answer_sound (pts : List P3) (tol : Rat) (b : Bool)
    (h : collinearProvedAnswer pts tol = some b) : pointsAreCollinear pts tol = b := by
  cases pts with
  | nil => simp [collinearProvedAnswer] at h
  | cons p0 rest =>
    simp only [collinearProvedAnswer] at h
    split at h
    · rename_i hc
      simp only [Bool.and_eq_true, List.all_eq_true, decide_eq_true_eq] at hc
      have hspec := collinear_spec p0 rest tol (fun p hp => isInt3B_sound (hc.1.1 p hp)) hc.1.2 hc.2
      cases h
      rw [Bool.eq_iff_iff, hspec]
      simp
    · cases h

/-- `planar_spec` with its hypotheses as a decidable input condition evaluated by the driver. -/
theorem planar_proved_answer_sound (N : P3) (pts : List P3) (tol : Rat) (b : Bool)
    (h : planarProvedAnswer N pts tol = some b) : planarWithNormal N pts tol = b := by
  cases pts with
  | nil => simp [planarProvedAnswer] at h
  | cons p0 rest =>
    simp only [planarProvedAnswer] at h
    split at h
    · rename_i hc
      simp only [Bool.and_eq_true, List.all_eq_true, decide_eq_true_eq] at hc
      have hspec := planar_spec N p0 rest tol (isInt3B_sound hc.1.1.1.1) hc.1.1.1.2
        (fun p hp => isInt3B_sound (hc.1.1.2 p hp)) hc.1.2 hc.2
      cases h
      rw [Bool.eq_iff_iff, hspec]
      simp
    · cases h

example : collinearProvedAnswer [(0, 0, 0), (1, 2, 3), (3, 6, 9), (-2, -4, -5)] (1 / 100000) = some false ∧
    collinearProvedAnswer [(0, 0, 0), (1, 2, 3), (3, 6, 9)] (1 / 100000) = some true ∧
    collinearProvedAnswer [(0, 0, 0), (1 / 2, 2, 3), (3, 6, 9)] (1 / 100000) = none := by decide +kernel
example : planarProvedAnswer (0, 0, 2) [(0, 0, 1), (3, 1, 1), (-2, 5, 2), (7, 7, 1)] (1 / 100000) = some false := by
  decide +kernel


/-! ### point_inside_half_space_intersection -/

/-- The counting loop answers True exactly if the point satisfies every inequality `n·(p - x0) ≤ 0`
    (boundary included; no planes: True). -/
theorem half_space_spec (planes : List (P3 × P3)) (p : P3) :
    insideHalfSpaces planes p = true ↔ ∀ pl ∈ planes, dot3 (sub3 p pl.2) pl.1 ≤ 0 := by
  unfold insideHalfSpaces
  rw [beq_iff_eq]
  exact insideCount_eq_iff p planes

example : insideHalfSpaces [((0, 1, 0), (0, 0, 0)), ((1, 0, 0), (-1, 0, 0))] (-1, -2, 0) = true ∧
    insideHalfSpaces [((0, 1, 0), (0, 0, 0)), ((1, 0, 0), (-1, 0, 0))] (4, -2, 0) = false := by decide +kernel

/-! ### sort_point_pairs -/

/-- Soundness, for EVERY input and both modes: whenever `sort_point_pairs` returns (no assertion
    fails), `sort_ind` is a permutation of the columns, every output column is the input column it
    names (flipped or not), consecutive columns share a node, and with `check_circular` the chain closes. -/
theorem sort_point_pairs_chain (lines : List Line) (check circ : Bool) (out : List Placed)
    (h : sortPointPairs lines check circ = .ok out) :
    (out.map (·.idx)).Perm (List.range lines.length)
      ∧ (∀ r ∈ out, r.FromInput lines)
      ∧ Chained (out.map (·.line))
      ∧ (circ = true → check = true → ∀ f ∈ out.head?, ∀ z ∈ out.getLast?, f.line.1 = z.line.2) := by
  cases lines with
  | nil => simp [sortPointPairs] at h
  | cons l0 t =>
    set lines := l0 :: t with hlines
    have hixmem : ∀ j l, (j, l) ∈ enumFrom' 0 lines → lines[j]? = some l := by
      intro j l hm
      have := (mem_enumFrom' 0 lines j l).mp hm
      simpa using this.2
    have hixkeys : (enumFrom' 0 lines).map (·.1) = List.range lines.length := by
      rw [map_fst_enumFrom', List.range_eq_range']
    -- the start: first placed line, remaining candidates, whether the closing check is active
    have key : ∀ (first : Placed) (rem : List (Nat × Line)) (chk : Bool),
        first.FromInput lines → (enumFrom' 0 lines).Perm ((first.idx, l0) :: rem) ∨
          (∃ l, (enumFrom' 0 lines).Perm ((first.idx, l) :: rem)) →
        (match walk rem.length first.line.2 rem with
          | none => (Except.error Err.assertion : Except Err (List Placed))
          | some o => if chk && (first.line.1 != lastEnd first o) then .error .assertion
              else .ok (first :: o)) = .ok out →
        (out.map (·.idx)).Perm (List.range lines.length)
          ∧ (∀ r ∈ out, r.FromInput lines) ∧ Chained (out.map (·.line))
          ∧ (chk = true → ∀ f ∈ out.head?, ∀ z ∈ out.getLast?, f.line.1 = z.line.2) := by
      intro first rem chk hfirst hperm hres
      have hperm' : ∃ l, (enumFrom' 0 lines).Perm ((first.idx, l) :: rem) := by
        rcases hperm with h1 | h1
        · exact ⟨l0, h1⟩
        · exact h1
      obtain ⟨lf, hperm'⟩ := hperm'
      cases hw : walk rem.length first.line.2 rem with
      | none => simp [hw] at hres
      | some o =>
        simp only [hw] at hres
        split at hres
        · cases hres
        · rename_i hchk
          cases hres
          obtain ⟨b1, b2, b3⟩ := walk_spec _ _ _ _ hw
          refine ⟨?_, ?_, ?_, ?_⟩
          · rw [← hixkeys]
            have := hperm'.map (·.1)
            simp only [List.map_cons] at this ⊢
            exact (List.Perm.cons _ b3).trans this.symm
          · intro r hr
            rcases List.mem_cons.mp hr with rfl | hr
            · exact hfirst
            · obtain ⟨l, hm, hl⟩ := b2 r hr
              exact ⟨l, hixmem _ _ (hperm'.mem_iff.mpr (List.mem_cons_of_mem _ hm)), hl⟩
          · simpa [Chained] using b1
          · intro hc f hf z hz
            simp only [List.head?_cons, Option.mem_def, Option.some.injEq] at hf
            subst hf
            rw [List.getLast?_cons] at hz
            simp only [Option.mem_def, Option.some.injEq] at hz
            subst hz
            simp only [hc, Bool.true_and, bne_iff_ne, ne_eq, not_not] at hchk
            simpa [lastEnd] using hchk
    rw [hlines] at h
    unfold sortPointPairs at h
    simp only [← hlines] at h
    by_cases hc : circ = true
    · subst hc
      simp only [if_true] at h
      have hdrop : (enumFrom' 0 lines).drop 1 = enumFrom' 1 t := by simp [hlines, enumFrom']
      have hperm : (enumFrom' 0 lines).Perm ((0, l0) :: (enumFrom' 0 lines).drop 1) := by
        rw [hdrop]; simp [hlines, enumFrom']
      have := key ⟨0, l0, false⟩ ((enumFrom' 0 lines).drop 1) check
        ⟨l0, by simp [hlines], by simp⟩ (Or.inl hperm) h
      exact ⟨this.1, this.2.1, this.2.2.1, fun _ hck => this.2.2.2 hck⟩
    · have hc' : circ = false := by simpa using hc
      subst hc'
      simp only [Bool.false_eq_true, if_false] at h
      cases hf : findEndLine lines (enumFrom' 0 lines) with
      | none => simp [hf] at h
      | some jl =>
        obtain ⟨j, l⟩ := jl
        simp only [hf] at h
        have hm := findEndLine_mem _ _ _ _ hf
        have hnd : ((enumFrom' 0 lines).map (·.1)).Nodup := by rw [hixkeys]; exact List.nodup_range
        have hperm := removeIdx_perm j l _ hm hnd
        by_cases hcnt : nodeCount l.1 lines > 1
        · simp only [hcnt, if_true] at h
          have := key ⟨j, flipL l, true⟩ (removeIdx j (enumFrom' 0 lines)) false
            ⟨l, hixmem _ _ hm, by simp⟩ (Or.inr ⟨l, hperm⟩) h
          exact ⟨this.1, this.2.1, this.2.2.1, fun hcc => by cases hcc⟩
        · simp only [hcnt, if_false] at h
          have := key ⟨j, l, false⟩ (removeIdx j (enumFrom' 0 lines)) false
            ⟨l, hixmem _ _ hm, by simp⟩ (Or.inr ⟨l, hperm⟩) h
          exact ⟨this.1, this.2.1, this.2.2.1, fun hcc => by cases hcc⟩

example : sortPointPairs [(1, 3), (1, 2), (2, 3)] true true
    = .ok [⟨0, (1, 3), false⟩, ⟨2, (3, 2), true⟩, ⟨1, (2, 1), true⟩] := by decide +kernel
example : sortPointPairs [(1, 2), (0, 1), (2, 3)] true false
    = .ok [⟨1, (0, 1), false⟩, ⟨0, (1, 2), false⟩, ⟨2, (2, 3), false⟩] := by decide +kernel
example : sortPointPairs [(1, 2), (3, 4)] true true = .error .assertion := by decide +kernel


/-- Completeness for simple cycles (circular mode, with or without the closing check): let the
    first column be `(a₀, a₁)` and let the remaining columns be, in any order and with any flips,
    the lines of the path `a₁ → … → a_k → a₀` through pairwise distinct nodes.  Then no assertion
    fails and the output is the cycle walked from `a₀` through `a₁`. -/
theorem sort_point_pairs_cycle_complete (a0 a1 : Int) (mid : List Int) (tl : List Line) (check : Bool)
    (hnd : (a1 :: (mid ++ [a0])).Nodup)
    (hperm : (tl.map normL).Perm ((pathLines (a1 :: (mid ++ [a0]))).map normL)) :
    ∃ out, sortPointPairs ((a0, a1) :: tl) check true = .ok out
      ∧ out.map (·.line) = (a0, a1) :: pathLines (a1 :: (mid ++ [a0])) := by
  have hrem : ((enumFrom' 1 tl).map (fun jl => normL jl.2)).Perm
      ((pathLines (a1 :: (mid ++ [a0]))).map normL) := by
    have : (enumFrom' 1 tl).map (fun jl => normL jl.2) = tl.map normL := by
      conv => rhs; rw [← map_snd_enumFrom' 1 tl]
      rw [List.map_map]; rfl
    rw [this]; exact hperm
  obtain ⟨out, hw, hout⟩ := walk_path (mid ++ [a0]) a1 (enumFrom' 1 tl) (enumFrom' 1 tl).length
    hnd (le_refl _) hrem
  obtain ⟨z, hz1, hz2⟩ := pathLines_getLast a1 (mid ++ [a0]) (by simp)
  have hlast : lastEnd ⟨0, (a0, a1), false⟩ out = a0 := by
    unfold lastEnd
    have h1 : (out.map (·.line)).getLast? = some z := by rw [hout]; exact hz1
    rw [List.getLast?_map] at h1
    cases hg : out.getLast? with
    | none => simp [hg] at h1
    | some r =>
      simp only [hg, Option.map_some, Option.some.injEq] at h1
      simp only [Option.getD_some, h1]
      have : some z.2 = some a0 := by rw [hz2]; simp
      exact Option.some.inj this
  refine ⟨⟨0, (a0, a1), false⟩ :: out, ?_, by simp [hout]⟩
  unfold sortPointPairs
  simp only [if_true, enumFrom', List.drop_succ_cons, List.drop_zero]
  simp only [Nat.zero_add, hw, hlast]
  simp

/-- instance of the hypotheses: the cycle 1 → 3 → 2 → 1 given as (1,3), (1,2), (2,3) -/
example : ([3, 2, 1] : List Int).Nodup ∧
    (([(1, 2), (2, 3)] : List Line).map normL).Perm ((pathLines [3, 2, 1]).map normL) := by decide +kernel

/-- Completeness for open chains (`is_circular = False`): if the columns are, in any order and with
    any flips, the lines of a path through pairwise distinct nodes (at least one line), no assertion
    or index error occurs and the output is the path walked from one of its two end points. -/
theorem sort_point_pairs_chain_complete (nodes : List Int) (lines : List Line) (check : Bool)
    (hnd : nodes.Nodup) (hlen : 2 ≤ nodes.length)
    (hperm : (lines.map normL).Perm ((pathLines nodes).map normL)) :
    ∃ out, sortPointPairs lines check false = .ok out
      ∧ (out.map (·.line) = pathLines nodes ∨ out.map (·.line) = pathLines nodes.reverse) := by
  obtain ⟨a0, a1, t, rfl⟩ : ∃ a0 a1 t, nodes = a0 :: a1 :: t := by
    match nodes, hlen with
    | a :: b :: t, _ => exact ⟨a, b, t, rfl⟩
  have hcount : ∀ v, nodeCount v lines = nodeCount v (pathLines (a0 :: a1 :: t)) := by
    intro v
    rw [← nodeCount_normL v lines, ← nodeCount_normL v (pathLines _)]
    exact nodeCount_perm v _ _ hperm
  have ha0 : a0 ∉ a1 :: t := (List.nodup_cons.mp hnd).1
  -- some column holds the end node a0
  have hex : ∃ jl ∈ enumFrom' 0 lines, nodeCount jl.2.1 lines = 1 ∨ nodeCount jl.2.2 lines = 1 := by
    have : normL (a0, a1) ∈ lines.map normL := hperm.mem_iff.mpr (by simp [pathLines])
    obtain ⟨l, hl, hne⟩ := List.mem_map.mp this
    obtain ⟨i, hi⟩ := List.getElem?_of_mem hl
    have hc0 : nodeCount a0 lines = 1 := by
      rw [hcount]
      have hne' : a1 ≠ a0 := fun e => ha0 (by simp [e])
      simp only [pathLines, nodeCount, if_true, hne', if_false]
      rw [nodeCount_zero_of_not_mem a0 (a1 :: t) ha0]
    refine ⟨(i, l), (mem_enumFrom' 0 lines i l).mpr ⟨Nat.zero_le _, by simpa using hi⟩, ?_⟩
    rcases normL_eq _ _ hne with h | h
    · left; rw [h]; exact hc0
    · right; rw [h]; simpa [flipL] using hc0
  obtain ⟨j, l, hf⟩ := findEndLine_isSome lines _ hex
  have hspec := findEndLine_spec _ _ _ _ hf
  have hl : l ∈ lines := by
    have := (mem_enumFrom' 0 lines j l).mp (findEndLine_mem _ _ _ _ hf)
    exact List.mem_of_getElem? this.2
  -- the oriented first column starts at a node that occurs once, i.e. at an end of the path
  have hend : nodeCount (if nodeCount l.1 lines > 1 then flipL l else l).1 lines = 1 := by
    by_cases hc : nodeCount l.1 lines > 1
    · simp only [hc, if_true, flipL]
      rcases hspec with h | h
      · omega
      · exact h
    · simp only [hc, if_false]
      have := (nodeCount_pos_of_mem l lines hl).1
      omega
  rw [hcount] at hend
  rcases nodeCount_path_eq_one _ _ hend with hh | hh
  · simp only [List.head?_cons, Option.some.injEq] at hh
    obtain ⟨out, h1, h2⟩ := sort_chain_from a0 a1 t lines check hnd hperm j l hf hh.symm
    exact ⟨out, h1, Or.inl h2⟩
  · -- the start is the last node: the same argument for the reversed path
    obtain ⟨b0, b1, t', hrev⟩ : ∃ b0 b1 t', (a0 :: a1 :: t).reverse = b0 :: b1 :: t' := by
      have hl2 : 2 ≤ (a0 :: a1 :: t).reverse.length := by simp
      match (a0 :: a1 :: t).reverse, hl2 with
      | a :: b :: t, _ => exact ⟨a, b, t, rfl⟩
    have hb0 : (if nodeCount l.1 lines > 1 then flipL l else l).1 = b0 := by
      have : (a0 :: a1 :: t).reverse.head? = (a0 :: a1 :: t).getLast? := List.head?_reverse
      rw [hrev, hh] at this
      simpa using this.symm
    have hnd' : (b0 :: b1 :: t').Nodup := by rw [← hrev]; exact (List.reverse_perm _).nodup_iff.mpr hnd
    have hperm' : (lines.map normL).Perm ((pathLines (b0 :: b1 :: t')).map normL) := by
      rw [← hrev]; exact hperm.trans (pathLines_reverse_norm _).symm
    obtain ⟨out, h1, h2⟩ := sort_chain_from b0 b1 t' lines check hnd' hperm' j l hf hb0
    exact ⟨out, h1, Or.inr (by rw [hrev]; exact h2)⟩

example : ([7, 1, 2, 3] : List Int).Nodup ∧
    (([(1, 2), (1, 7), (3, 2)] : List Line).map normL).Perm ((pathLines [7, 1, 2, 3]).map normL) := by
  decide +kernel
example : sortPointPairs [(1, 2), (1, 7), (3, 2)] true false
    = .ok [⟨1, (7, 1), true⟩, ⟨0, (1, 2), false⟩, ⟨2, (2, 3), true⟩] := by decide +kernel


/-! ### sort_points_on_line -/

/-- Whenever `sort_points_on_line` returns, the result is a permutation of the point indices. -/
theorem sort_points_on_line_perm (pts : List P3) (tol : Rat) (out : List Nat)
    (h : sortPointsOnLine pts tol = .ok out) : out.Perm (List.range pts.length) := by
  match pts, h with
  | [], h => simp [sortPointsOnLine] at h
  | [a], h =>
    simp only [sortPointsOnLine, Except.ok.injEq] at h
    subst h; simp [List.range_succ]
  | a :: b :: t, h =>
    obtain ⟨keys, T, hk, _, rfl⟩ := sortPointsOnLine_ok a b t tol out h
    have hlen : keys.length = (a :: b :: t).length := by
      rw [(lineKeys_spec _ _ _ hk).2]; simp
    rw [← hlen]
    exact argsort_perm keys

/-- Points on a parametrised line `o + tᵢ d`: whenever `sort_points_on_line` returns, the
    parameters of the returned order are monotone (increasing or decreasing) — the order is the
    order along the line. -/
theorem sort_points_on_line_monotone (o d : P3) (ts : List Rat) (tol : Rat) (out : List Nat)
    (h : sortPointsOnLine (ts.map (fun t => add3 o (scale3 t d))) tol = .ok out) :
    (out.map (fun i => ts.getD i 0)).Pairwise (· ≤ ·) ∨ (out.map (fun i => ts.getD i 0)).Pairwise (· ≥ ·) := by
  match ts, h with
  | [], h => simp [sortPointsOnLine] at h
  | [t], h =>
    simp only [List.map_cons, List.map_nil, sortPointsOnLine, Except.ok.injEq] at h
    subst h; left; simp
  | t1 :: t2 :: tl, h =>
    set ts := t1 :: t2 :: tl with hts
    have hne : ts ≠ [] := by simp [hts]
    simp only [hts, List.map_cons] at h
    obtain ⟨keys, T, hk, hT, rfl⟩ := sortPointsOnLine_ok _ _ _ tol out h
    have hk' : lineKeys (ts.map (fun t => add3 o (scale3 t d))) = some (keys, T) := by
      simpa [hts] using hk
    obtain ⟨hTmem, hkeys⟩ := lineKeys_spec _ _ _ hk'
    set tm := rsum ts / (ts.length : Rat) with htm
    -- centred points are (t - tm) d
    have hv : (ts.map (fun t => add3 o (scale3 t d))).map
        (fun p => sub3 p (mean3 (ts.map (fun t => add3 o (scale3 t d)))))
        = ts.map (fun t => scale3 (t - tm) d) := by
      rw [List.map_map]
      apply List.map_congr_left
      intro t _
      simp only [Function.comp]
      exact sub_mean_line o d ts hne t
    rw [hv] at hTmem hkeys
    obtain ⟨tf, _, hTf⟩ := List.mem_map.mp hTmem
    -- the keys are κ t + β
    set κ := sigmaT T * ((tf - tm) * nsq3 d) with hκ
    have hkeys' : keys = ts.map (fun t => κ * t + (-(κ * tm))) := by
      rw [hkeys, List.map_map]
      apply List.map_congr_left
      intro t _
      simp only [Function.comp, ← hTf, dot3_scale, hκ]
      ring
    have hκ0 : κ ≠ 0 := by
      have h1 : tf - tm ≠ 0 ∧ d ≠ (0, 0, 0) := by
        constructor
        · intro h0; apply hT; rw [← hTf, h0]; simp [scale3]
        · intro h0; apply hT; rw [← hTf, h0]; simp [scale3]
      have h2 : nsq3 d ≠ 0 := fun h0 => h1.2 (nsq3_eq_zero h0)
      have h3 : sigmaT T ≠ 0 := by rcases sigmaT_cases T with h | h <;> rw [h] <;> norm_num
      exact mul_ne_zero h3 (mul_ne_zero h1.1 h2)
    have := argsort_affine ts κ (-(κ * tm))
    simp only at this
    rw [← hkeys'] at this
    rcases lt_or_gt_of_ne hκ0 with hneg | hpos
    · exact Or.inr (this.2 hneg)
    · exact Or.inl (this.1 hpos)

example : sortPointsOnLine ([0, 3, 1, -2].map (fun t => add3 (1, 2, 3) (scale3 t (1, 1, -1)))) (1 / 100000)
    = .ok [3, 0, 2, 1] := by decide +kernel



/-! ### sort_point_plane (planes z = const) -/

/-- The result is a permutation of the point indices. -/
theorem sort_point_plane_xy_perm (pts : List P2) (c : P2) :
    (sortPointPlaneXY pts c).Perm (List.range pts.length) := by
  unfold sortPointPlaneXY
  have := (sortByAngle_perm (enumFrom' 0 (pts.map (fun p => sub2 p c)))).map (·.1)
  rw [map_fst_enumFrom', ← List.range_eq_range', List.length_map] at this
  exact this

/-- The result is ordered by `arctan2(x - c.x, y - c.y)` (decided exactly by `angLt`): no later
    point has a strictly smaller angle than an earlier one. -/
theorem sort_point_plane_xy_sorted (pts : List P2) (c : P2) :
    ((sortPointPlaneXY pts c).map (fun i => sub2 (pts.getD i (0, 0)) c)).Pairwise
      (fun a b => angLt b a = false) := by
  unfold sortPointPlaneXY
  set l := pts.map (fun p => sub2 p c) with hl
  have hmem : ∀ x ∈ sortByAngle (enumFrom' 0 l), sub2 (pts.getD x.1 (0, 0)) c = x.2 := by
    intro x hx
    have hx' := (sortByAngle_perm _).mem_iff.mp hx
    have := (mem_enumFrom' 0 l x.1 x.2).mp hx'
    simp only [Nat.sub_zero, hl, List.getElem?_map] at this
    cases hg : pts[x.1]? with
    | none => simp [hg] at this
    | some q =>
      simp only [hg, Option.map_some, Option.some.injEq] at this
      simp [List.getD, hg, this.2]
  rw [List.map_map, List.pairwise_map]
  refine List.Pairwise.imp_of_mem ?_ (sortByAngle_sorted (enumFrom' 0 l))
  intro a b ha hb hab
  simp only [Function.comp]
  rw [hmem a ha, hmem b hb]
  exact hab

/-- Meaning of the order inside an open half plane: a later point is reached from an earlier one by
    a clockwise turn about the centre (`arctan2(x, y)` grows clockwise). -/
theorem ang_sorted_clockwise (a b : P2) (h : angLt b a = false)
    (hside : (0 < a.1 ∧ 0 < b.1) ∨ (a.1 < 0 ∧ b.1 < 0)) : cross2 a b ≤ 0 := by
  have hn : ¬ (angLt b a = true) := by simp [h]
  rw [angLt_iff] at hn
  simp only [not_or, not_and, not_lt] at hn
  have hreg : angRegion a = angRegion b ∧ (angRegion b = 0 ∨ angRegion b = 2) := by
    rcases hside with ⟨ha, hb⟩ | ⟨ha, hb⟩
    · have h1 : ¬ a.1 < 0 := by linarith
      have h2 : ¬ b.1 < 0 := by linarith
      simp [angRegion, ha, hb, h1, h2]
    · simp [angRegion, ha, hb]
  have := hn.2 hreg.1.symm hreg.2
  rw [cross2_antisymm] at this
  linarith

example : sortPointPlaneXY [(1, 0), (0, 1), (-1, -1), (0, -2), (2, 2)] (0, 0) = [2, 1, 4, 0, 3] := by
  decide +kernel


end PorepyVerif.C31
