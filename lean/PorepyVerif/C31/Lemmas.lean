/-
C31 — helper lemmas (may use Mathlib tactics).  Part 1: lists, telescoping; part 2: the winding-number
test of point_in_polygon; part 3: integer-valued rationals, collinear / planar / half spaces;
part 4: the chain sorting.
-/
import PorepyVerif.C31.Model
import Mathlib.Tactic.Ring
import Mathlib.Tactic.Linarith
import Mathlib.Tactic.NormNum
import Mathlib.Tactic.LinearCombination
import Mathlib.Tactic.FieldSimp

namespace PorepyVerif.C31

/-! ## Part 1: consecutive pairs -/

theorem mem_pairsFrom {α : Type} (prev : α) (l : List α) (e : α × α) (h : e ∈ pairsFrom prev l) :
    e.1 ∈ prev :: l ∧ e.2 ∈ l := by
  induction l generalizing prev with
  | nil => simp [pairsFrom] at h
  | cons a t ih =>
    simp only [pairsFrom, List.mem_cons] at h
    rcases h with rfl | h
    · simp
    · have := ih a h
      simp only [List.mem_cons] at this ⊢
      exact ⟨Or.inr this.1, Or.inr this.2⟩

theorem mem_cycPairs {α : Type} (l : List α) (e : α × α) (h : e ∈ cycPairs l) : e.1 ∈ l ∧ e.2 ∈ l := by
  unfold cycPairs at h
  cases hz : l.getLast? with
  | none => simp [hz] at h
  | some z =>
    simp only [hz] at h
    have hzl : z ∈ l := List.mem_of_getLast? hz
    have := mem_pairsFrom z l e h
    simp only [List.mem_cons] at this
    exact ⟨this.1.elim (fun h => h ▸ hzl) id, this.2⟩

theorem pairsFrom_map {α β : Type} (f : α → β) (prev : α) (l : List α) :
    pairsFrom (f prev) (l.map f) = (pairsFrom prev l).map (fun e => (f e.1, f e.2)) := by
  induction l generalizing prev with
  | nil => rfl
  | cons a t ih => simp [pairsFrom, ih]

theorem cycPairs_map {α β : Type} (f : α → β) (l : List α) :
    cycPairs (l.map f) = (cycPairs l).map (fun e => (f e.1, f e.2)) := by
  unfold cycPairs
  rw [List.getLast?_map]
  cases l.getLast? with
  | none => rfl
  | some z => simp [pairsFrom_map]

theorem cycPairs_ne_nil {α : Type} (l : List α) (hl : l ≠ []) : cycPairs l ≠ [] := by
  unfold cycPairs
  cases l with
  | nil => exact absurd rfl hl
  | cons a t =>
    rw [List.getLast?_cons]
    simp [pairsFrom]

/-- telescoping sum over consecutive pairs (rationals) -/
theorem rsum_tele {α : Type} (g : α → Rat) (prev : α) (l : List α) :
    rsum ((pairsFrom prev l).map (fun e => g e.2 - g e.1)) = g (l.getLast?.getD prev) - g prev := by
  induction l generalizing prev with
  | nil => simp [pairsFrom, rsum]
  | cons a t ih =>
    simp only [pairsFrom, List.map_cons, rsum, ih, List.getLast?_cons]
    simp

/-- telescoping sum over consecutive pairs (integers) -/
theorem isum_tele {α : Type} (g : α → Int) (prev : α) (l : List α) :
    isum ((pairsFrom prev l).map (fun e => g e.2 - g e.1)) = g (l.getLast?.getD prev) - g prev := by
  induction l generalizing prev with
  | nil => simp [pairsFrom, isum]
  | cons a t ih =>
    simp only [pairsFrom, List.map_cons, isum, ih, List.getLast?_cons]
    simp

theorem rsum_tele_cyc {α : Type} (g : α → Rat) (l : List α) :
    rsum ((cycPairs l).map (fun e => g e.2 - g e.1)) = 0 := by
  unfold cycPairs
  cases hz : l.getLast? with
  | none => simp [rsum]
  | some z => simp only [rsum_tele, hz]; simp

theorem isum_tele_cyc {α : Type} (g : α → Int) (l : List α) :
    isum ((cycPairs l).map (fun e => g e.2 - g e.1)) = 0 := by
  unfold cycPairs
  cases hz : l.getLast? with
  | none => simp [isum]
  | some z => simp only [isum_tele, hz]; simp

theorem rsum_map_add {α : Type} (f g : α → Rat) (l : List α) :
    rsum (l.map (fun e => f e + g e)) = rsum (l.map f) + rsum (l.map g) := by
  induction l with
  | nil => simp [rsum]
  | cons a t ih => simp only [List.map_cons, rsum, ih]; ring

theorem rsum_map_congr {α : Type} (f g : α → Rat) (l : List α) (h : ∀ e ∈ l, f e = g e) :
    rsum (l.map f) = rsum (l.map g) := by
  induction l with
  | nil => rfl
  | cons a t ih =>
    simp only [List.map_cons, rsum]
    rw [h a (by simp), ih (fun e he => h e (by simp [he]))]

theorem isum_map_congr {α : Type} (f g : α → Int) (l : List α) (h : ∀ e ∈ l, f e = g e) :
    isum (l.map f) = isum (l.map g) := by
  induction l with
  | nil => rfl
  | cons a t ih =>
    simp only [List.map_cons, isum]
    rw [h a (by simp), ih (fun e he => h e (by simp [he]))]

theorem isum_map_mul {α : Type} (k : Int) (f : α → Int) (l : List α) :
    isum (l.map (fun e => k * f e)) = k * isum (l.map f) := by
  induction l with
  | nil => simp [isum]
  | cons a t ih => simp only [List.map_cons, isum, ih]; ring

/-- a relation that is transitive on a set propagates along consecutive pairs -/
theorem pairsFrom_trans {α : Type} (R : α → α → Prop) (S : α → Prop)
    (htrans : ∀ a b c, S a → S b → S c → R a b → R b c → R a c)
    (prev : α) (l : List α) (hl : l ≠ []) (hSp : S prev) (hS : ∀ a ∈ l, S a)
    (hR : ∀ e ∈ pairsFrom prev l, R e.1 e.2) : R prev (l.getLast?.getD prev) := by
  induction l generalizing prev with
  | nil => exact absurd rfl hl
  | cons a t ih =>
    have hpa : R prev a := hR (prev, a) (by simp [pairsFrom])
    cases t with
    | nil => simpa using hpa
    | cons b t' =>
      have := ih a (by simp) (hS a (by simp)) (fun x hx => hS x (by simp [hx]))
        (fun e he => hR e (by simp only [pairsFrom, List.mem_cons]; exact Or.inr (by simpa [pairsFrom] using he)))
      rw [List.getLast?_cons]
      simp only [Option.getD_some]
      have hlast : S ((b :: t').getLast?.getD a) := by
        have hm : (b :: t').getLast?.getD a ∈ b :: t' := by
          cases hq : (b :: t').getLast? with
          | none => simp at hq
          | some q => simpa using List.mem_of_getLast? hq
        exact hS _ (by simp only [List.mem_cons] at hm ⊢; exact Or.inr hm)
      exact htrans prev a _ hSp (hS a (by simp)) hlast hpa this

/-- a function that does not change along consecutive pairs is constant -/
theorem pairsFrom_const {α β : Type} (f : α → β) (prev : α) (l : List α)
    (h : ∀ e ∈ pairsFrom prev l, f e.2 = f e.1) : ∀ a ∈ l, f a = f prev := by
  induction l generalizing prev with
  | nil => intro a ha; cases ha
  | cons x t ih =>
    intro a ha
    have hx : f x = f prev := h (prev, x) (by simp [pairsFrom])
    rcases List.mem_cons.mp ha with rfl | ha
    · exact hx
    · rw [← hx]
      exact ih x (fun e he => h e (by simp only [pairsFrom, List.mem_cons]; exact Or.inr he)) a ha

/-! ## Part 2: point_in_polygon -/

/-- the half plane `x > 0`, completed by the positive `y`-axis (the `+1` side of `vertexSgn`) -/
def inH (v : P2) : Prop := 0 < v.1 ∨ (v.1 = 0 ∧ 0 < v.2)
def neg2 (v : P2) : P2 := (-v.1, -v.2)


theorem cross_trans_H (u v w : P2) (hu : inH u) (hv : inH v) (hw : inH w) (s : Rat)
    (h1 : 0 < s * cross2 u v) (h2 : 0 < s * cross2 v w) : 0 < s * cross2 u w := by
  obtain ⟨u1, u2⟩ := u; obtain ⟨v1, v2⟩ := v; obtain ⟨w1, w2⟩ := w
  simp only [inH, cross2] at *
  have e1 : (s * (u1 * w2 - u2 * w1)) * v1 = (s * (v1 * w2 - v2 * w1)) * u1 + (s * (u1 * v2 - u2 * v1)) * w1 := by ring
  have e2 : (s * (u1 * w2 - u2 * w1)) * v2 = (s * (v1 * w2 - v2 * w1)) * u2 + (s * (u1 * v2 - u2 * v1)) * w2 := by ring
  have hu1 : 0 ≤ u1 := by
    rcases hu with h | h
    · exact le_of_lt h
    · exact le_of_eq h.1.symm
  have hw1 : 0 ≤ w1 := by
    rcases hw with h | h
    · exact le_of_lt h
    · exact le_of_eq h.1.symm
  rcases hv with hv | ⟨hv1, hv2⟩
  · by_contra hC
    have hC : s * (u1 * w2 - u2 * w1) ≤ 0 := not_lt.mp hC
    have hle : (s * (u1 * w2 - u2 * w1)) * v1 ≤ 0 := mul_nonpos_of_nonpos_of_nonneg hC hv.le
    have p1 := mul_nonneg h2.le hu1
    have p2 := mul_nonneg h1.le hw1
    have z1 : (s * (v1 * w2 - v2 * w1)) * u1 = 0 := by linarith
    have z2 : (s * (u1 * v2 - u2 * v1)) * w1 = 0 := by linarith
    have hu0 : u1 = 0 := by
      rcases mul_eq_zero.mp z1 with h | h
      · linarith
      · exact h
    have hw0 : w1 = 0 := by
      rcases mul_eq_zero.mp z2 with h | h
      · linarith
      · exact h
    have hu2 : 0 < u2 := by rcases hu with h | h; linarith; exact h.2
    have hw2 : 0 < w2 := by rcases hw with h | h; linarith; exact h.2
    subst hu0; subst hw0
    have a1 : 0 < s * (-(u2 * v1)) := by have := h1; ring_nf at this ⊢; linarith
    have a2 : 0 < s * (v1 * w2) := by have := h2; ring_nf at this ⊢; linarith
    have : 0 < u2 * v1 := mul_pos hu2 hv
    have : 0 < v1 * w2 := mul_pos hv hw2
    nlinarith
  · subst hv1
    have p1 := mul_nonneg h2.le hu1
    have p2 := mul_nonneg h1.le hw1
    have z : (s * (0 * w2 - v2 * w1)) * u1 + (s * (u1 * v2 - u2 * 0)) * w1 = 0 := by linarith
    have z1 : (s * (0 * w2 - v2 * w1)) * u1 = 0 := by linarith
    have hu0 : u1 = 0 := by
      rcases mul_eq_zero.mp z1 with h | h
      · linarith
      · exact h
    subst hu0
    simp at h1

/-- a in -H, b in H, both strictly on the positive side of `n`: the sign of `a × b` is fixed by `n.2`. -/
theorem sep_cross_sign (n a b : P2) (ha : 0 < dot2 n a) (hb : 0 < dot2 n b)
    (haH : inH (neg2 a)) (hbH : inH b) :
    (0 < n.2 → cross2 a b < 0) ∧ (n.2 < 0 → 0 < cross2 a b) ∧ n.2 ≠ 0 := by
  obtain ⟨n1, n2⟩ := n; obtain ⟨a1, a2⟩ := a; obtain ⟨b1, b2⟩ := b
  simp only [inH, neg2, dot2, cross2] at *
  have key : n2 * (a2 * b1 - b2 * a1) = (n1 * b1 + n2 * b2) * (-a1) + (n1 * a1 + n2 * a2) * b1 := by ring
  have ha1 : a1 ≤ 0 := by
    rcases haH with h | h
    · linarith
    · linarith [h.1]
  have hb1 : 0 ≤ b1 := by
    rcases hbH with h | h
    · linarith
    · linarith [h.1]
  have hk : 0 ≤ n2 * (a2 * b1 - b2 * a1) := by
    rw [key]
    have := mul_nonneg hb.le (neg_nonneg.mpr ha1)
    have := mul_nonneg ha.le hb1
    linarith
  refine ⟨fun hn => ?_, fun hn => ?_, fun hn => ?_⟩
  · -- n2 > 0
    rcases haH with h | ⟨h1, h2⟩
    · have ha1' : a1 < 0 := by linarith
      rcases hbH with hb' | ⟨hb1', hb2'⟩
      · have : 0 < n2 * (a2 * b1 - b2 * a1) := by
          rw [key]
          have := mul_pos hb (neg_pos.mpr ha1')
          have := mul_pos ha hb'
          linarith
        have : 0 < a2 * b1 - b2 * a1 := by
          by_contra hc
          have := mul_nonpos_of_nonneg_of_nonpos hn.le (not_lt.mp hc)
          linarith
        linarith
      · subst hb1'
        have := mul_pos (neg_pos.mpr ha1') hb2'
        linarith
    · have ha10 : a1 = 0 := by linarith
      subst ha10
      have ha2 : a2 < 0 := by linarith
      have := mul_pos hn (neg_pos.mpr ha2)
      linarith
  · -- n2 < 0
    rcases hbH with hb' | ⟨hb1', hb2'⟩
    · rcases haH with h | ⟨h1, h2⟩
      · have ha1' : a1 < 0 := by linarith
        have : 0 < n2 * (a2 * b1 - b2 * a1) := by
          rw [key]
          have := mul_pos hb (neg_pos.mpr ha1')
          have := mul_pos ha hb'
          linarith
        have : a2 * b1 - b2 * a1 < 0 := by
          by_contra hc
          have := mul_nonpos_of_nonpos_of_nonneg hn.le (not_lt.mp hc)
          linarith
        linarith
      · have ha10 : a1 = 0 := by linarith
        subst ha10
        have ha2 : a2 < 0 := by linarith
        have := mul_pos (neg_pos.mpr ha2) hb'
        linarith
    · subst hb1'
      have := mul_pos (neg_pos.mpr hn) hb2'
      linarith
  · -- n2 = 0
    subst hn
    simp only [zero_mul, add_zero] at ha hb
    rcases hbH with hb' | ⟨hb1', hb2'⟩
    · have hn1 : 0 < n1 := by
        by_contra hc
        have := mul_nonpos_of_nonpos_of_nonneg (not_lt.mp hc) hb'.le
        linarith
      have := mul_nonpos_of_nonneg_of_nonpos hn1.le ha1
      linarith
    · subst hb1'
      simp at hb


theorem vertexSgn_cases (v : P2) :
    (v.1 = 0 ∧ v.2 = 0 ∧ vertexSgn v = 0) ∨ (inH v ∧ vertexSgn v = 1) ∨ (inH (neg2 v) ∧ vertexSgn v = -1) := by
  obtain ⟨x, y⟩ := v
  simp only [vertexSgn, sgn, inH, neg2]
  rcases lt_trichotomy x 0 with hx | hx | hx
  · right; right
    refine ⟨Or.inl (by linarith), ?_⟩
    simp [hx]
  · subst hx
    rcases lt_trichotomy y 0 with hy | hy | hy
    · right; right
      refine ⟨Or.inr ⟨by simp, by linarith⟩, ?_⟩
      simp [hy]
    · subst hy; left; simp
    · right; left
      refine ⟨Or.inr ⟨rfl, hy⟩, ?_⟩
      have : ¬ y < 0 := by linarith
      have : y ≠ 0 := by intro h; linarith
      simp [*]
  · right; left
    refine ⟨Or.inl hx, ?_⟩
    have : ¬ x < 0 := by linarith
    have : x ≠ 0 := by intro h; linarith
    simp [*]

theorem inH_not_neg (v : P2) (h : inH v) (h' : inH (neg2 v)) : False := by
  obtain ⟨x, y⟩ := v
  simp only [inH, neg2] at h h'
  rcases h with h | ⟨h1, h2⟩ <;> rcases h' with g | ⟨g1, g2⟩ <;> linarith

theorem isOrigin_iff (v : P2) : isOrigin v = true ↔ (v.1 = 0 ∧ v.2 = 0) := by
  simp [isOrigin]

theorem cross2_neg (u v : P2) : cross2 (neg2 u) (neg2 v) = cross2 u v := by
  simp only [cross2, neg2]; ring

theorem sgn_pos {x : Rat} (h : 0 < x) : sgn x = 1 := by
  have : ¬ x < 0 := by linarith
  have : x ≠ 0 := by intro h; linarith
  simp [sgn, *]

theorem sgn_neg {x : Rat} (h : x < 0) : sgn x = -1 := by simp [sgn, h]

theorem sgn_eq_zero_iff {x : Rat} : sgn x = 0 ↔ x = 0 := by
  unfold sgn
  rcases lt_trichotomy x 0 with h | h | h
  · have : x ≠ 0 := by intro h; linarith
    simp [h, this]
  · simp [h]
  · have : ¬ x < 0 := by linarith
    have : x ≠ 0 := by intro h; linarith
    simp [*]

/-- reduction of the two `continue` branches -/
theorem pipEdges_reduce (es : List (P2 × P2)) (d : Bool)
    (h0 : ∀ e ∈ es, ¬ (e.1.1 = 0 ∧ e.1.2 = 0) ∧ ¬ (e.2.1 = 0 ∧ e.2.2 = 0))
    (h1 : ∀ e ∈ es, active e = true → edgeSgn e ≠ 0) :
    pipEdges es d = (wind2 es != 0) := by
  unfold pipEdges
  have a0 : es.any (fun e => isOrigin e.1 || isOrigin e.2) = false := by
    rw [List.any_eq_false]
    intro e he
    have := h0 e he
    simp only [Bool.or_eq_true, isOrigin_iff]
    tauto
  have a1 : es.any (fun e => active e && (edgeSgn e == 0)) = false := by
    rw [List.any_eq_false]
    intro e he
    have := h1 e he
    simp only [Bool.and_eq_true, beq_iff_eq]
    tauto
  simp [a0, a1]

theorem wind2_const (es : List (P2 × P2)) (σ : Int)
    (h : ∀ e ∈ es, edgeSgn e = σ) : wind2 es = σ * (es.countP active : Nat) := by
  induction es with
  | nil => simp [wind2, isum]
  | cons a t ih =>
    have := ih (fun e he => h e (by simp [he]))
    simp only [wind2, List.map_cons, isum] at this ⊢
    rw [this, List.countP_cons]
    simp only [contrib, h a (by simp)]
    by_cases ha : active a = true
    · simp [ha]; ring
    · simp [ha]



theorem mem_snd_pairsFrom {α : Type} (prev : α) (l : List α) (a : α) (ha : a ∈ l) :
    ∃ e ∈ pairsFrom prev l, e.2 = a := by
  induction l generalizing prev with
  | nil => cases ha
  | cons x t ih =>
    rcases List.mem_cons.mp ha with rfl | h
    · exact ⟨(prev, a), by simp [pairsFrom], rfl⟩
    · obtain ⟨e, he, h2⟩ := ih x h
      exact ⟨e, by simp only [pairsFrom, List.mem_cons]; exact Or.inr he, h2⟩

theorem cross2_self (v : P2) : cross2 v v = 0 := by simp only [cross2]; ring

theorem active_false_iff (e : P2 × P2) : active e = false ↔ vertexSgn e.2 = vertexSgn e.1 := by
  simp only [active, bne_eq_false_iff_eq]
  omega

/-- Claim A: every edge is seen counter-clockwise (s = 1) or every edge clockwise (s = -1) from the
    origin ⇒ the winding test answers True. -/
theorem pip_core_inside (l : List P2) (hl : l ≠ []) (s : Rat) (hs : s = 1 ∨ s = -1)
    (h : ∀ e ∈ cycPairs l, 0 < s * cross2 e.1 e.2) (d : Bool) : pipEdges (cycPairs l) d = true := by
  -- no edge has the origin as an end point, no edge is seen edge-on
  have h0 : ∀ e ∈ cycPairs l, ¬ (e.1.1 = 0 ∧ e.1.2 = 0) ∧ ¬ (e.2.1 = 0 ∧ e.2.2 = 0) := by
    intro e he
    have := h e he
    constructor
    · rintro ⟨a, b⟩; simp [cross2, a, b] at this
    · rintro ⟨a, b⟩; simp [cross2, a, b] at this
  let σ : Int := if s = 1 then 1 else -1
  have hσ : ∀ e ∈ cycPairs l, edgeSgn e = σ := by
    intro e he
    have := h e he
    rcases hs with rfl | rfl
    · simp only [one_mul] at this
      simp [edgeSgn, sgn_pos this, σ]
    · have hneg : cross2 e.1 e.2 < 0 := by linarith
      have : ¬ ((-1 : Rat) = 1) := by norm_num
      simp [edgeSgn, sgn_neg hneg, σ, this]
  have hσ0 : σ ≠ 0 := by
    simp only [σ]; split <;> decide
  rw [pipEdges_reduce _ _ h0 (fun e he _ => by rw [hσ e he]; exact hσ0), wind2_const _ σ hσ]
  -- it remains to find one active edge
  suffices hact : ∃ e ∈ cycPairs l, active e = true by
    obtain ⟨e, he, ha⟩ := hact
    have : 0 < (cycPairs l).countP active := List.countP_pos_iff.mpr ⟨e, he, ha⟩
    have hc : ((cycPairs l).countP active : Int) ≠ 0 := by omega
    simp only [bne_iff_ne, ne_eq, mul_eq_zero, not_or]
    exact ⟨hσ0, hc⟩
  by_contra hno
  have hina : ∀ e ∈ cycPairs l, vertexSgn e.2 = vertexSgn e.1 := by
    intro e he
    rw [← active_false_iff]
    by_contra hc
    exact hno ⟨e, he, by simpa using hc⟩
  -- unfold the cyclic pairs
  unfold cycPairs at h hina h0
  cases hz : l.getLast? with
  | none => simp [List.getLast?_eq_none_iff] at hz; exact hl hz
  | some z =>
    simp only [hz] at h hina h0
    have hzl : z ∈ l := List.mem_of_getLast? hz
    have hconst := pairsFrom_const vertexSgn z l hina
    have hnz : ∀ a ∈ l, ¬ (a.1 = 0 ∧ a.2 = 0) := by
      intro a ha
      obtain ⟨e, he, h2⟩ := mem_snd_pairsFrom z l a ha
      exact h2 ▸ (h0 e he).2
    have hR : ∀ e ∈ pairsFrom z l, 0 < s * cross2 e.1 e.2 := h
    rcases vertexSgn_cases z with ⟨z1, z2, _⟩ | ⟨hzH, hz1⟩ | ⟨hzH, hz1⟩
    · exact hnz z hzl ⟨z1, z2⟩
    · have hS : ∀ a ∈ l, inH a := by
        intro a ha
        have hva : vertexSgn a = 1 := by rw [hconst a ha, hz1]
        rcases vertexSgn_cases a with ⟨_, _, h3⟩ | ⟨h1, _⟩ | ⟨_, h3⟩
        · rw [hva] at h3; cases h3
        · exact h1
        · rw [hva] at h3; cases h3
      have := pairsFrom_trans (fun a b => 0 < s * cross2 a b) inH
        (fun a b c ha hb hc => cross_trans_H a b c ha hb hc s) z l hl hzH hS hR
      simp only [hz, Option.getD_some, cross2_self, mul_zero, lt_self_iff_false] at this
    · have hS : ∀ a ∈ l, inH (neg2 a) := by
        intro a ha
        have hva : vertexSgn a = -1 := by rw [hconst a ha, hz1]
        rcases vertexSgn_cases a with ⟨_, _, h3⟩ | ⟨_, h3⟩ | ⟨h1, _⟩
        · rw [hva] at h3; cases h3
        · rw [hva] at h3; cases h3
        · exact h1
      have := pairsFrom_trans (fun a b => 0 < s * cross2 a b) (fun v => inH (neg2 v))
        (fun a b c ha hb hc h1 h2 => by
          have := cross_trans_H (neg2 a) (neg2 b) (neg2 c) ha hb hc s
            (by rw [cross2_neg]; exact h1) (by rw [cross2_neg]; exact h2)
          rwa [cross2_neg] at this) z l hl hzH hS hR
      simp only [hz, Option.getD_some, cross2_self, mul_zero, lt_self_iff_false] at this


theorem dot2_zero_of_origin (n v : P2) (h : v.1 = 0 ∧ v.2 = 0) : dot2 n v = 0 := by
  simp [dot2, h.1, h.2]

/-- per edge: with both end points strictly on the positive side of `n`, the contribution to the
    winding sum is `-(k/2)·(vertexSgn b - vertexSgn a)`, `k = sign n.2`; an active edge is not seen edge-on -/
theorem contrib_sep (n : P2) (e : P2 × P2) (ha : 0 < dot2 n e.1) (hb : 0 < dot2 n e.2) :
    2 * contrib e = -(sgn n.2) * (vertexSgn e.2 - vertexSgn e.1) ∧ (active e = true → edgeSgn e ≠ 0) := by
  obtain ⟨a, b⟩ := e
  simp only at ha hb ⊢
  by_cases hact : active (a, b) = true
  · have hne : vertexSgn b ≠ vertexSgn a := by
      intro h
      have := (active_false_iff (a, b)).mpr h
      rw [hact] at this; cases this
    simp only [contrib, hact, if_true]
    rcases vertexSgn_cases a with ⟨a1, a2, _⟩ | ⟨haH, hva⟩ | ⟨haH, hva⟩
    · rw [dot2_zero_of_origin n a ⟨a1, a2⟩] at ha; exact absurd ha (lt_irrefl _)
    · rcases vertexSgn_cases b with ⟨b1, b2, _⟩ | ⟨hbH, hvb⟩ | ⟨hbH, hvb⟩
      · rw [dot2_zero_of_origin n b ⟨b1, b2⟩] at hb; exact absurd hb (lt_irrefl _)
      · exact absurd (hvb.trans hva.symm) hne
      · -- a in H, b in -H : use the lemma with the roles exchanged
        obtain ⟨h1, h2, h3⟩ := sep_cross_sign n b a hb ha hbH haH
        have hc : cross2 a b = -cross2 b a := by simp only [cross2]; ring
        rcases lt_trichotomy n.2 0 with hn | hn | hn
        · have := h2 hn
          have hab : cross2 a b < 0 := by linarith
          simp [edgeSgn, sgn_neg hab, sgn_neg hn, hva, hvb]
        · exact absurd hn h3
        · have := h1 hn
          have hab : 0 < cross2 a b := by linarith
          simp [edgeSgn, sgn_pos hab, sgn_pos hn, hva, hvb]
    · rcases vertexSgn_cases b with ⟨b1, b2, _⟩ | ⟨hbH, hvb⟩ | ⟨hbH, hvb⟩
      · rw [dot2_zero_of_origin n b ⟨b1, b2⟩] at hb; exact absurd hb (lt_irrefl _)
      · obtain ⟨h1, h2, h3⟩ := sep_cross_sign n a b ha hb haH hbH
        rcases lt_trichotomy n.2 0 with hn | hn | hn
        · have hab := h2 hn
          simp [edgeSgn, sgn_pos hab, sgn_neg hn, hva, hvb]
        · exact absurd hn h3
        · have hab := h1 hn
          simp [edgeSgn, sgn_neg hab, sgn_pos hn, hva, hvb]
      · exact absurd (hvb.trans hva.symm) hne
  · have hf : active (a, b) = false := by simpa using hact
    have := (active_false_iff (a, b)).mp hf
    simp only at this
    simp [contrib, hf, this]

theorem isum_scale {α : Type} (a b : Int) (f g : α → Int) (l : List α)
    (h : ∀ e ∈ l, a * f e = b * g e) : a * isum (l.map f) = b * isum (l.map g) := by
  induction l with
  | nil => simp [isum]
  | cons x t ih =>
    simp only [List.map_cons, isum, Int.mul_add]
    rw [h x (by simp), ih (fun e he => h e (by simp [he]))]

def vsDiff (e : P2 × P2) : Int := vertexSgn e.2 - vertexSgn e.1

theorem wind2_sep (l : List P2) (n : P2) (hpos : ∀ e ∈ cycPairs l, 0 < dot2 n e.1 ∧ 0 < dot2 n e.2) :
    wind2 (cycPairs l) = 0 := by
  have e1 : 2 * isum ((cycPairs l).map contrib) = -(sgn n.2) * isum ((cycPairs l).map vsDiff) :=
    isum_scale 2 (-(sgn n.2)) contrib vsDiff (cycPairs l)
      (fun e he => (contrib_sep n e (hpos e he).1 (hpos e he).2).1)
  have e4 : isum ((cycPairs l).map vsDiff) = 0 := isum_tele_cyc vertexSgn l
  rw [e4, Int.mul_zero] at e1
  unfold wind2
  generalize isum ((cycPairs l).map contrib) = w at e1
  omega

/-- Claim B: the polygon lies strictly on one side of a line through the origin ⇒ False. -/
theorem pip_core_outside (l : List P2) (n : P2) (h : ∀ v ∈ l, 0 < dot2 n v) (d : Bool) :
    pipEdges (cycPairs l) d = false := by
  have hpos : ∀ e ∈ cycPairs l, 0 < dot2 n e.1 ∧ 0 < dot2 n e.2 := fun e he =>
    ⟨h _ (mem_cycPairs l e he).1, h _ (mem_cycPairs l e he).2⟩
  have h0 : ∀ e ∈ cycPairs l, ¬ (e.1.1 = 0 ∧ e.1.2 = 0) ∧ ¬ (e.2.1 = 0 ∧ e.2.2 = 0) := by
    intro e he
    constructor
    · intro hz; have := (hpos e he).1; rw [dot2_zero_of_origin n _ hz] at this; exact lt_irrefl _ this
    · intro hz; have := (hpos e he).2; rw [dot2_zero_of_origin n _ hz] at this; exact lt_irrefl _ this
  rw [pipEdges_reduce _ _ h0 (fun e he => (contrib_sep n e (hpos e he).1 (hpos e he).2).2),
    wind2_sep l n hpos]
  rfl


/-! ## Part 3: integer-valued rationals; collinear, planar, half spaces -/


theorem IsInt.add {x y : Rat} (hx : IsInt x) (hy : IsInt y) : IsInt (x + y) := by
  obtain ⟨a, rfl⟩ := hx; obtain ⟨b, rfl⟩ := hy; exact ⟨a + b, by push_cast; ring⟩
theorem IsInt.sub {x y : Rat} (hx : IsInt x) (hy : IsInt y) : IsInt (x - y) := by
  obtain ⟨a, rfl⟩ := hx; obtain ⟨b, rfl⟩ := hy; exact ⟨a - b, by push_cast; ring⟩
theorem IsInt.mul {x y : Rat} (hx : IsInt x) (hy : IsInt y) : IsInt (x * y) := by
  obtain ⟨a, rfl⟩ := hx; obtain ⟨b, rfl⟩ := hy; exact ⟨a * b, by push_cast; ring⟩
theorem IsInt.natCast (n : Nat) : IsInt (n : Rat) := ⟨(n : Int), by push_cast; rfl⟩
theorem IsInt.zero : IsInt 0 := ⟨0, by simp⟩

/-- a non-negative integer below one is zero -/
theorem IsInt.eq_zero_of_lt_one {x : Rat} (hx : IsInt x) (h0 : 0 ≤ x) (h1 : x < 1) : x = 0 := by
  obtain ⟨z, rfl⟩ := hx
  have a : (0 : Int) ≤ z := by exact_mod_cast h0
  have b : z < 1 := by exact_mod_cast h1
  have : z = 0 := by omega
  simp [this]

/-- a non-zero integer has square at least one -/
theorem IsInt.one_le_sq {x : Rat} (hx : IsInt x) (h : x ≠ 0) : 1 ≤ x * x := by
  obtain ⟨z, rfl⟩ := hx
  have hz : z ≠ 0 := by intro h'; apply h; simp [h']
  have : 1 ≤ z * z := by
    rcases Int.lt_or_gt_of_ne hz with h' | h'
    · nlinarith
    · nlinarith
  exact_mod_cast this

theorem IsInt3.sub {a b : P3} (ha : IsInt3 a) (hb : IsInt3 b) : IsInt3 (sub3 a b) :=
  ⟨ha.1.sub hb.1, ha.2.1.sub hb.2.1, ha.2.2.sub hb.2.2⟩
theorem IsInt3.cross {a b : P3} (ha : IsInt3 a) (hb : IsInt3 b) : IsInt3 (cross3 a b) :=
  ⟨(ha.2.1.mul hb.2.2).sub (ha.2.2.mul hb.2.1), (ha.2.2.mul hb.1).sub (ha.1.mul hb.2.2),
    (ha.1.mul hb.2.1).sub (ha.2.1.mul hb.1)⟩
theorem IsInt3.dot {a b : P3} (ha : IsInt3 a) (hb : IsInt3 b) : IsInt (dot3 a b) :=
  ((ha.1.mul hb.1).add (ha.2.1.mul hb.2.1)).add (ha.2.2.mul hb.2.2)

theorem nsq3_nonneg (a : P3) : 0 ≤ nsq3 a := by
  simp only [nsq3, dot3]
  nlinarith [mul_self_nonneg a.1, mul_self_nonneg a.2.1, mul_self_nonneg a.2.2]

theorem nsq3_eq_zero {a : P3} (h : nsq3 a = 0) : a = (0, 0, 0) := by
  obtain ⟨x, y, z⟩ := a
  simp only [nsq3, dot3] at h
  have hx : x = 0 := by nlinarith [mul_self_nonneg x, mul_self_nonneg y, mul_self_nonneg z]
  have hy : y = 0 := by nlinarith [mul_self_nonneg x, mul_self_nonneg y, mul_self_nonneg z]
  have hz : z = 0 := by nlinarith [mul_self_nonneg x, mul_self_nonneg y, mul_self_nonneg z]
  simp [hx, hy, hz]

/-- two vectors parallel to the same non-zero vector are parallel -/
theorem cross3_zero_of_parallel (a b d : P3) (hd : d ≠ (0, 0, 0))
    (ha : cross3 a d = (0, 0, 0)) (hb : cross3 b d = (0, 0, 0)) : cross3 a b = (0, 0, 0) := by
  obtain ⟨a1, a2, a3⟩ := a; obtain ⟨b1, b2, b3⟩ := b; obtain ⟨d1, d2, d3⟩ := d
  simp only [cross3, Prod.mk.injEq] at ha hb ⊢
  obtain ⟨ha1, ha2, ha3⟩ := ha
  obtain ⟨hb1, hb2, hb3⟩ := hb
  have k11 : d1 * (a2 * b3 - a3 * b2) = 0 := by linear_combination (-b3) * ha3 + (-b2) * ha2 + (-a1) * hb1
  have k12 : d1 * (a3 * b1 - a1 * b3) = 0 := by linear_combination b1 * ha2 - a1 * hb2
  have k13 : d1 * (a1 * b2 - a2 * b1) = 0 := by linear_combination b1 * ha3 - a1 * hb3
  have k21 : d2 * (a2 * b3 - a3 * b2) = 0 := by linear_combination b2 * ha1 - a2 * hb1
  have k22 : d2 * (a3 * b1 - a1 * b3) = 0 := by linear_combination (-b1) * ha1 + (-b3) * ha3 + (-a2) * hb2
  have k23 : d2 * (a1 * b2 - a2 * b1) = 0 := by linear_combination b2 * ha3 - a2 * hb3
  have k31 : d3 * (a2 * b3 - a3 * b2) = 0 := by linear_combination b3 * ha1 - a3 * hb1
  have k32 : d3 * (a3 * b1 - a1 * b3) = 0 := by linear_combination b3 * ha2 - a3 * hb2
  have k33 : d3 * (a1 * b2 - a2 * b1) = 0 := by linear_combination (-b2) * ha2 + (-b1) * ha1 + (-a3) * hb3
  have hdc : d1 ≠ 0 ∨ d2 ≠ 0 ∨ d3 ≠ 0 := by
    by_contra hc
    simp only [not_or, not_not] at hc
    exact hd (by simp [hc.1, hc.2.1, hc.2.2])
  rcases hdc with h | h | h
  · exact ⟨(mul_eq_zero.mp k11).resolve_left h, (mul_eq_zero.mp k12).resolve_left h, (mul_eq_zero.mp k13).resolve_left h⟩
  · exact ⟨(mul_eq_zero.mp k21).resolve_left h, (mul_eq_zero.mp k22).resolve_left h, (mul_eq_zero.mp k23).resolve_left h⟩
  · exact ⟨(mul_eq_zero.mp k31).resolve_left h, (mul_eq_zero.mp k32).resolve_left h, (mul_eq_zero.mp k33).resolve_left h⟩



theorem argmaxFirst_mem {α : Type} (f : α → Rat) (l : List α) (a : α) (h : argmaxFirst f l = some a) : a ∈ l := by
  induction l generalizing a with
  | nil => simp [argmaxFirst] at h
  | cons x t ih =>
    simp only [argmaxFirst] at h
    cases hb : argmaxFirst f t with
    | none => simp [hb] at h; simp [h]
    | some b =>
      simp only [hb] at h
      split at h
      · have hm := ih b hb
        cases h; exact List.mem_cons_of_mem _ hm
      · cases h; simp

theorem argmaxFirst_ge {α : Type} (f : α → Rat) (l : List α) (a : α) (h : argmaxFirst f l = some a) :
    ∀ q ∈ l, f q ≤ f a := by
  induction l generalizing a with
  | nil => simp [argmaxFirst] at h
  | cons x t ih =>
    simp only [argmaxFirst] at h
    cases hb : argmaxFirst f t with
    | none =>
      simp [hb] at h
      subst h
      have : t = [] := by
        cases t with
        | nil => rfl
        | cons y t' =>
          simp only [argmaxFirst] at hb
          cases h' : argmaxFirst f t' <;> simp [h'] at hb <;> split at hb <;> cases hb
      subst this
      intro q hq; simp at hq; subst hq; exact le_refl _
    | some b =>
      simp only [hb] at h
      have ihb := ih b hb
      split at h
      · cases h
        intro q hq
        rcases List.mem_cons.mp hq with rfl | hq
        · linarith
        · exact ihb q hq
      · cases h
        rename_i hlt
        intro q hq
        rcases List.mem_cons.mp hq with rfl | hq
        · exact le_refl _
        · have := ihb q hq; linarith [not_lt.mp hlt]

theorem argmaxFirst_isSome {α : Type} (f : α → Rat) (l : List α) (hl : l ≠ []) : ∃ a, argmaxFirst f l = some a := by
  cases l with
  | nil => exact absurd rfl hl
  | cons x t =>
    simp only [argmaxFirst]
    cases argmaxFirst f t with
    | none => exact ⟨x, rfl⟩
    | some b => by_cases h : f x < f b <;> simp [h]

theorem le_maxR_left (a b : Rat) : a ≤ maxR a b := by unfold maxR; split <;> linarith
theorem maxDistTo_ge (p : P3) (l : List P3) (m : Rat) : m ≤ maxDistTo p l m := by
  induction l generalizing m with
  | nil => exact le_refl _
  | cons q t ih => exact le_trans (le_maxR_left _ _) (ih _)
theorem maxPairSq_ge (l : List P3) (m : Rat) : m ≤ maxPairSq l m := by
  induction l generalizing m with
  | nil => exact le_refl _
  | cons q t ih => exact le_trans (maxDistTo_ge _ _ _) (ih _)



/-! ### sums -/

theorem rsum_nonneg {α : Type} (f : α → Rat) (l : List α) (h : ∀ x ∈ l, 0 ≤ f x) : 0 ≤ rsum (l.map f) := by
  induction l with
  | nil => simp [rsum]
  | cons a t ih =>
    simp only [List.map_cons, rsum]
    have := h a (by simp)
    have := ih (fun x hx => h x (by simp [hx]))
    linarith

theorem rsum_ge_term {α : Type} (f : α → Rat) (l : List α) (h : ∀ x ∈ l, 0 ≤ f x) (a : α) (ha : a ∈ l) :
    f a ≤ rsum (l.map f) := by
  induction l with
  | nil => cases ha
  | cons x t ih =>
    simp only [List.map_cons, rsum]
    have hx := h x (by simp)
    have ht := rsum_nonneg f t (fun y hy => h y (by simp [hy]))
    rcases List.mem_cons.mp ha with rfl | ha
    · linarith
    · have := ih (fun y hy => h y (by simp [hy])) ha
      linarith

theorem rsum_zero {α : Type} (f : α → Rat) (l : List α) (h : ∀ x ∈ l, f x = 0) : rsum (l.map f) = 0 := by
  induction l with
  | nil => simp [rsum]
  | cons a t ih =>
    simp only [List.map_cons, rsum]
    rw [h a (by simp), ih (fun x hx => h x (by simp [hx]))]; simp

theorem rsum_const {α : Type} (f : α → Rat) (c : Rat) (l : List α) (h : ∀ x ∈ l, f x = c) :
    rsum (l.map f) = (l.length : Rat) * c := by
  induction l with
  | nil => simp [rsum]
  | cons a t ih =>
    simp only [List.map_cons, rsum, List.length_cons]
    rw [h a (by simp), ih (fun x hx => h x (by simp [hx]))]
    push_cast; ring

theorem dot3_sum3 (N : P3) (l : List P3) : dot3 N (sum3 l) = rsum (l.map (fun p => dot3 N p)) := by
  induction l with
  | nil => simp [sum3, dot3, rsum]
  | cons a t ih =>
    simp only [List.map_cons, rsum, ← ih]
    simp only [sum3, dot3]; ring

theorem IsInt3_sum3 (l : List P3) (h : ∀ p ∈ l, IsInt3 p) : IsInt3 (sum3 l) := by
  induction l with
  | nil => exact ⟨IsInt.zero, IsInt.zero, IsInt.zero⟩
  | cons a t ih =>
    have ha := h a (by simp)
    have ht := ih (fun p hp => h p (by simp [hp]))
    exact ⟨ha.1.add ht.1, ha.2.1.add ht.2.1, ha.2.2.add ht.2.2⟩

/-- `N · (p - mean)` in terms of the sum -/
theorem dot3_sub_mean (N p : P3) (l : List P3) (hl : l ≠ []) :
    (l.length : Rat) * dot3 N (sub3 p (mean3 l)) = (l.length : Rat) * dot3 N p - dot3 N (sum3 l) := by
  have hn : (l.length : Rat) ≠ 0 := by
    have : l.length ≠ 0 := by simpa using hl
    exact_mod_cast this
  simp only [mean3, dot3, sub3]
  field_simp
  ring

theorem dot3_sub3 (N p q : P3) : dot3 N (sub3 p q) = dot3 N p - dot3 N q := by
  simp only [dot3, sub3]; ring

/-! ### half spaces -/

theorem insideCount_le (p : P3) (l : List (P3 × P3)) : insideCount p l ≤ l.length := by
  induction l with
  | nil => simp [insideCount]
  | cons a t ih =>
    obtain ⟨n, x0⟩ := a
    simp only [insideCount, List.length_cons]
    split <;> omega

theorem insideCount_eq_iff (p : P3) (l : List (P3 × P3)) :
    insideCount p l = l.length ↔ ∀ pl ∈ l, dot3 (sub3 p pl.2) pl.1 ≤ 0 := by
  induction l with
  | nil => simp [insideCount]
  | cons a t ih =>
    obtain ⟨n, x0⟩ := a
    have hle := insideCount_le p t
    simp only [insideCount, List.length_cons, List.mem_cons, forall_eq_or_imp]
    by_cases h : dot3 (sub3 p x0) n ≤ 0
    · simp only [h, if_true, true_and]
      rw [← ih]; omega
    · simp only [h, if_false, false_and, iff_false]
      omega

/-! ### is_ccw_polygon -/

theorem polyValue_eq_neg_area2 (poly : List P2) : polyValue poly = - area2 poly := by
  unfold polyValue area2
  have h := rsum_tele_cyc (fun v : P2 => v.1 * v.2) poly
  have hsplit : ∀ e ∈ cycPairs poly, (e.2.2 + e.1.2) * (e.2.1 - e.1.1)
      = (e.2.1 * e.2.2 - e.1.1 * e.1.2) + (-1) * cross2 e.1 e.2 := by
    intro e _; simp only [cross2]; ring
  rw [rsum_map_congr _ _ _ hsplit, rsum_map_add, h]
  have : rsum ((cycPairs poly).map (fun e => (-1 : Rat) * cross2 e.1 e.2))
      = (-1) * rsum ((cycPairs poly).map (fun e => cross2 e.1 e.2)) := by
    generalize cycPairs poly = es
    induction es with
    | nil => simp [rsum]
    | cons a t ih => simp only [List.map_cons, rsum, ih]; ring
  rw [this]; ring

theorem absR_ge_one_of_int {x : Rat} (hx : IsInt x) (h : x ≠ 0) : 1 ≤ absR x := by
  obtain ⟨z, rfl⟩ := hx
  have hz : z ≠ 0 := by intro h'; apply h; simp [h']
  unfold absR
  split
  · rename_i hneg
    have : z < 0 := by exact_mod_cast hneg
    have : (1 : Int) ≤ -z := by omega
    exact_mod_cast this
  · rename_i hneg
    have : ¬ z < 0 := by intro h'; apply hneg; exact_mod_cast h'
    have : (1 : Int) ≤ z := by omega
    exact_mod_cast this



/-! ## Part 4: sort_point_pairs -/

/-- what `pick` returns: the placed line starts at `prev`, is one of the candidates (flipped or not),
    and the remaining candidates are the others -/
theorem pick_spec (prev : Int) (rem : List (Nat × Line)) (r : Placed) (rest : List (Nat × Line))
    (h : pick prev rem = some (r, rest)) :
    r.line.1 = prev ∧ (∃ l, (r.idx, l) ∈ rem ∧ r.line = (if r.flipped then flipL l else l))
      ∧ rem.Perm ((r.idx, if r.flipped then flipL r.line else r.line) :: rest) := by
  induction rem generalizing rest with
  | nil => simp [pick] at h
  | cons a t ih =>
    obtain ⟨j, l⟩ := a
    simp only [pick] at h
    split at h
    · rename_i h1
      cases h
      exact ⟨h1, ⟨l, by simp, by simp⟩, by simp⟩
    · split at h
      · rename_i h1 h2
        cases h
        refine ⟨h2, ⟨l, by simp, by simp⟩, ?_⟩
        simp [flipL]
      · cases hp : pick prev t with
        | none => simp [hp] at h
        | some q =>
          obtain ⟨r', rest'⟩ := q
          simp only [hp, Option.some.injEq, Prod.mk.injEq] at h
          obtain ⟨rfl, rfl⟩ := h
          obtain ⟨a1, ⟨l', hm, hl'⟩, a3⟩ := ih rest' hp
          refine ⟨a1, ⟨l', by simp [hm], hl'⟩, ?_⟩
          exact (List.Perm.cons _ a3).trans (List.Perm.swap _ _ _)

theorem pick_length (prev : Int) (rem : List (Nat × Line)) (r : Placed) (rest : List (Nat × Line))
    (h : pick prev rem = some (r, rest)) : rem.length = rest.length + 1 := by
  have := (pick_spec prev rem r rest h).2.2.length_eq
  simpa using this

/-- what `walk` returns -/
theorem walk_spec (n : Nat) (prev : Int) (rem : List (Nat × Line)) (out : List Placed)
    (h : walk n prev rem = some out) :
    ChainedFrom prev (out.map (·.line))
      ∧ (∀ r ∈ out, ∃ l, (r.idx, l) ∈ rem ∧ r.line = (if r.flipped then flipL l else l))
      ∧ (out.map (·.idx)).Perm (rem.map (·.1)) := by
  induction n generalizing prev rem out with
  | zero =>
    cases rem with
    | nil => simp [walk] at h; subst h; simp [ChainedFrom]
    | cons a t => simp [walk] at h
  | succ n ih =>
    cases rem with
    | nil => simp [walk] at h; subst h; simp [ChainedFrom]
    | cons a t =>
      simp only [walk] at h
      cases hp : pick prev (a :: t) with
      | none => simp [hp] at h
      | some q =>
        obtain ⟨r, rest⟩ := q
        simp only [hp] at h
        cases hw : walk n r.line.2 rest with
        | none => simp [hw] at h
        | some out' =>
          simp only [hw, Option.some.injEq] at h
          subst h
          obtain ⟨b1, b2, b3⟩ := ih r.line.2 rest out' hw
          obtain ⟨a1, ⟨l, hm, hl⟩, a3⟩ := pick_spec prev (a :: t) r rest hp
          refine ⟨?_, ?_, ?_⟩
          · simp only [List.map_cons, ChainedFrom]; exact ⟨a1, b1⟩
          · intro r' hr'
            rcases List.mem_cons.mp hr' with rfl | hr'
            · exact ⟨l, hm, hl⟩
            · obtain ⟨l', hm', hl'⟩ := b2 r' hr'
              refine ⟨l', ?_, hl'⟩
              have : (r'.idx, l') ∈ (r.idx, if r.flipped then flipL r.line else r.line) :: rest :=
                List.mem_cons_of_mem _ hm'
              exact a3.mem_iff.mpr this
          · have := (a3.map (·.1))
            simp only [List.map_cons] at this ⊢
            exact (List.Perm.cons _ b3).trans this.symm

theorem mem_enumFrom' {α : Type} (i : Nat) (l : List α) (j : Nat) (a : α) :
    (j, a) ∈ enumFrom' i l ↔ i ≤ j ∧ l[j - i]? = some a := by
  induction l generalizing i with
  | nil => simp [enumFrom']
  | cons x t ih =>
    simp only [enumFrom', List.mem_cons, Prod.mk.injEq, ih]
    constructor
    · rintro (⟨rfl, rfl⟩ | ⟨h1, h2⟩)
      · simp
      · refine ⟨by omega, ?_⟩
        have : j - i = (j - (i + 1)) + 1 := by omega
        rw [this]; simpa using h2
    · rintro ⟨h1, h2⟩
      by_cases hji : j = i
      · subst hji; simp at h2; exact Or.inl ⟨rfl, h2.symm⟩
      · right
        refine ⟨by omega, ?_⟩
        have : j - i = (j - (i + 1)) + 1 := by omega
        rw [this] at h2; simpa using h2

theorem map_fst_enumFrom' {α : Type} (i : Nat) (l : List α) :
    (enumFrom' i l).map (·.1) = List.range' i l.length := by
  induction l generalizing i with
  | nil => simp [enumFrom']
  | cons x t ih => simp [enumFrom', ih, List.range'_succ]

theorem findEndLine_mem (all : List Line) (ix : List (Nat × Line)) (j : Nat) (l : Line)
    (h : findEndLine all ix = some (j, l)) : (j, l) ∈ ix := by
  induction ix with
  | nil => simp [findEndLine] at h
  | cons a t ih =>
    obtain ⟨k, m⟩ := a
    simp only [findEndLine] at h
    split at h
    · cases h; simp
    · exact List.mem_cons_of_mem _ (ih h)

theorem removeIdx_perm (j : Nat) (l : Line) (ix : List (Nat × Line)) (hm : (j, l) ∈ ix)
    (hnd : (ix.map (·.1)).Nodup) : ix.Perm ((j, l) :: removeIdx j ix) := by
  induction ix with
  | nil => cases hm
  | cons a t ih =>
    obtain ⟨k, m⟩ := a
    simp only [List.map_cons, List.nodup_cons] at hnd
    simp only [removeIdx]
    by_cases hk : k = j
    · subst hk
      simp only [if_true]
      rcases List.mem_cons.mp hm with h | h
      · cases h; exact List.Perm.refl _
      · exact absurd (List.mem_map.mpr ⟨(k, l), h, rfl⟩) hnd.1
    · simp only [hk, if_false]
      rcases List.mem_cons.mp hm with h | h
      · cases h; exact absurd rfl hk
      · exact (List.Perm.cons _ (ih h hnd.2)).trans (List.Perm.swap _ _ _)


theorem cross3_sub_self_left (p q : P3) : cross3 (sub3 p p) q = (0, 0, 0) := by
  simp [cross3, sub3]

theorem cross3_sub_self_right (p q : P3) : cross3 q (sub3 p p) = (0, 0, 0) := by
  simp [cross3, sub3]

theorem cross3_self (a : P3) : cross3 a a = (0, 0, 0) := by
  simp only [cross3, Prod.mk.injEq]; refine ⟨by ring, by ring, by ring⟩



theorem normL_flip (l : Line) : normL (flipL l) = normL l := by
  obtain ⟨x, y⟩ := l
  simp only [normL, flipL]
  by_cases h1 : x ≤ y <;> by_cases h2 : y ≤ x <;> simp [h1, h2] <;> omega

theorem normL_eq (l l' : Line) (h : normL l = normL l') : l = l' ∨ l = flipL l' := by
  obtain ⟨x, y⟩ := l; obtain ⟨x', y'⟩ := l'
  simp only [normL, flipL] at h ⊢
  by_cases h1 : x ≤ y <;> by_cases h2 : x' ≤ y' <;> simp [h1, h2] at h <;> simp [h.1, h.2]

theorem mem_pathLines (ns : List Int) (e : Line) (h : e ∈ pathLines ns) : e.1 ∈ ns ∧ e.2 ∈ ns := by
  induction ns with
  | nil => simp [pathLines] at h
  | cons a t ih =>
    cases t with
    | nil => simp [pathLines] at h
    | cons b t' =>
      simp only [pathLines, List.mem_cons] at h
      rcases h with rfl | h
      · simp
      · have := ih h
        exact ⟨List.mem_cons_of_mem _ this.1, List.mem_cons_of_mem _ this.2⟩

/-- if all candidates touching `prev` are copies of the unordered pair `k` and there is one, `pick`
    finds it, oriented away from `prev`, and removes exactly one copy of `k` -/
theorem pick_of_unique (prev : Int) (k : Line) (rem : List (Nat × Line))
    (hall : ∀ jl ∈ rem, (jl.2.1 = prev ∨ jl.2.2 = prev) → normL jl.2 = k)
    (hex : ∃ jl ∈ rem, jl.2.1 = prev ∨ jl.2.2 = prev) :
    ∃ r rest, pick prev rem = some (r, rest) ∧ r.line.1 = prev ∧ normL r.line = k
      ∧ (rem.map (fun jl => normL jl.2)).Perm (k :: rest.map (fun jl => normL jl.2)) := by
  induction rem with
  | nil => obtain ⟨jl, hm, _⟩ := hex; cases hm
  | cons a t ih =>
    obtain ⟨j, l⟩ := a
    simp only [pick]
    by_cases h1 : l.1 = prev
    · refine ⟨⟨j, l, false⟩, t, by simp [h1], h1, hall (j, l) (by simp) (Or.inl h1), ?_⟩
      simp only [List.map_cons]
      rw [hall (j, l) (by simp) (Or.inl h1)]
    · by_cases h2 : l.2 = prev
      · refine ⟨⟨j, flipL l, true⟩, t, by simp [h1, h2], by simp [flipL, h2], ?_, ?_⟩
        · rw [normL_flip]; exact hall (j, l) (by simp) (Or.inr h2)
        · simp only [List.map_cons]
          rw [hall (j, l) (by simp) (Or.inr h2)]
      · have hex' : ∃ jl ∈ t, jl.2.1 = prev ∨ jl.2.2 = prev := by
          obtain ⟨jl, hm, hc⟩ := hex
          rcases List.mem_cons.mp hm with rfl | hm
          · simp only at hc; tauto
          · exact ⟨jl, hm, hc⟩
        obtain ⟨r, rest, hp, hr1, hr2, hperm⟩ := ih (fun jl hm => hall jl (List.mem_cons_of_mem _ hm)) hex'
        refine ⟨r, (j, l) :: rest, by simp [h1, h2, hp], hr1, hr2, ?_⟩
        simp only [List.map_cons]
        exact (List.Perm.cons _ hperm).trans (List.Perm.swap _ _ _)

/-- one step along a path with distinct nodes -/
theorem pick_path (a b : Int) (t : List Int) (rem : List (Nat × Line)) (hab : a ≠ b) (ha : a ∉ b :: t)
    (hperm : (rem.map (fun jl => normL jl.2)).Perm ((pathLines (a :: b :: t)).map normL)) :
    ∃ r rest, pick a rem = some (r, rest) ∧ r.line = (a, b)
      ∧ (rest.map (fun jl => normL jl.2)).Perm ((pathLines (b :: t)).map normL) := by
  have hall : ∀ jl ∈ rem, (jl.2.1 = a ∨ jl.2.2 = a) → normL jl.2 = normL (a, b) := by
    intro jl hm hc
    have : normL jl.2 ∈ (pathLines (a :: b :: t)).map normL :=
      hperm.mem_iff.mp (List.mem_map.mpr ⟨jl, hm, rfl⟩)
    obtain ⟨e, he, hne⟩ := List.mem_map.mp this
    simp only [pathLines, List.mem_cons] at he
    rcases he with rfl | he
    · exact hne.symm
    · exfalso
      have hmem := mem_pathLines _ _ he
      rcases normL_eq _ _ hne.symm with h | h
      · rw [h] at hc
        rcases hc with hc | hc
        · exact ha (hc ▸ hmem.1)
        · exact ha (hc ▸ hmem.2)
      · rw [h] at hc
        simp only [flipL] at hc
        rcases hc with hc | hc
        · exact ha (hc ▸ hmem.2)
        · exact ha (hc ▸ hmem.1)
  have hex : ∃ jl ∈ rem, jl.2.1 = a ∨ jl.2.2 = a := by
    have : normL (a, b) ∈ rem.map (fun jl => normL jl.2) :=
      hperm.mem_iff.mpr (by simp [pathLines])
    obtain ⟨jl, hm, hne⟩ := List.mem_map.mp this
    refine ⟨jl, hm, ?_⟩
    rcases normL_eq _ _ hne with h | h
    · left; rw [h]
    · right; rw [h]; simp [flipL]
  obtain ⟨r, rest, hp, hr1, hr2, hperm'⟩ := pick_of_unique a (normL (a, b)) rem hall hex
  refine ⟨r, rest, hp, ?_, ?_⟩
  · rcases normL_eq _ _ hr2 with h | h
    · exact h
    · rw [h] at hr1; simp only [flipL] at hr1; exact absurd hr1.symm hab
  · have h2 := hperm.symm.trans hperm'
    simp only [pathLines, List.map_cons] at h2
    exact (List.Perm.cons_inv h2).symm

/-- `walk` follows a path with distinct nodes to its end -/
theorem walk_path (nodes : List Int) (a : Int) (rem : List (Nat × Line)) (n : Nat)
    (hnd : (a :: nodes).Nodup) (hn : rem.length ≤ n)
    (hperm : (rem.map (fun jl => normL jl.2)).Perm ((pathLines (a :: nodes)).map normL)) :
    ∃ out, walk n a rem = some out ∧ out.map (·.line) = pathLines (a :: nodes) := by
  induction nodes generalizing a rem n with
  | nil =>
    simp only [pathLines, List.map_nil, List.perm_nil, List.map_eq_nil_iff] at hperm
    subst hperm
    exact ⟨[], by cases n <;> simp [walk], by simp [pathLines]⟩
  | cons b t ih =>
    have hab : a ≠ b := by
      intro h; subst h; simp at hnd
    have ha : a ∉ b :: t := (List.nodup_cons.mp hnd).1
    obtain ⟨r, rest, hp, hr, hperm'⟩ := pick_path a b t rem hab ha hperm
    have hlen := pick_length _ _ _ _ hp
    cases n with
    | zero => omega
    | succ n' =>
      obtain ⟨out', hw, hout'⟩ := ih b rest n' (List.nodup_cons.mp hnd).2 (by omega) hperm'
      have hrem : rem ≠ [] := by intro h; subst h; simp at hlen
      cases rem with
      | nil => exact absurd rfl hrem
      | cons x xs =>
        refine ⟨r :: out', ?_, ?_⟩
        · simp only [walk, hp]
          rw [hr]
          simp only [hw]
        · simp [hout', hr, pathLines]

theorem map_snd_enumFrom' {α : Type} (i : Nat) (l : List α) : (enumFrom' i l).map (·.2) = l := by
  induction l generalizing i with
  | nil => rfl
  | cons x t ih => simp [enumFrom', ih]

theorem pathLines_getLast (a : Int) (nodes : List Int) (hne : nodes ≠ []) :
    ∃ z, (pathLines (a :: nodes)).getLast? = some z ∧ some z.2 = nodes.getLast? := by
  induction nodes generalizing a with
  | nil => exact absurd rfl hne
  | cons b t ih =>
    cases t with
    | nil => exact ⟨(a, b), by simp [pathLines], by simp⟩
    | cons c t' =>
      obtain ⟨z, hz1, hz2⟩ := ih b (by simp)
      refine ⟨z, ?_, ?_⟩
      · simp only [pathLines] at hz1 ⊢
        rw [List.getLast?_cons_cons]; exact hz1
      · rw [hz2]; simp [List.getLast?_cons_cons]



/-! ### non-circular start selection -/

theorem nodeCount_normL (v : Int) (l : List Line) : nodeCount v (l.map normL) = nodeCount v l := by
  induction l with
  | nil => rfl
  | cons a t ih =>
    obtain ⟨x, y⟩ := a
    simp only [List.map_cons, nodeCount, ih, normL]
    by_cases h : x ≤ y <;> simp [h] <;> omega

theorem nodeCount_perm (v : Int) (l l' : List Line) (h : l.Perm l') : nodeCount v l = nodeCount v l' := by
  induction h with
  | nil => rfl
  | cons x _ ih => simp only [nodeCount, ih]
  | swap x y l => simp only [nodeCount]; omega
  | trans _ _ ih1 ih2 => exact ih1.trans ih2

theorem nodeCount_pos_of_mem (l : Line) (ls : List Line) (h : l ∈ ls) :
    1 ≤ nodeCount l.1 ls ∧ 1 ≤ nodeCount l.2 ls := by
  induction ls with
  | nil => cases h
  | cons a t ih =>
    simp only [nodeCount]
    rcases List.mem_cons.mp h with rfl | h
    · simp; constructor <;> omega
    · have := ih h; constructor <;> omega

/-- a node occurring once in a path is one of its two ends -/
theorem nodeCount_path_eq_one (v : Int) (nodes : List Int) (h : nodeCount v (pathLines nodes) = 1) :
    nodes.head? = some v ∨ nodes.getLast? = some v := by
  induction nodes with
  | nil => simp [pathLines, nodeCount] at h
  | cons a t ih =>
    cases t with
    | nil => simp [pathLines, nodeCount] at h
    | cons b t' =>
      simp only [pathLines, nodeCount] at h
      by_cases hva : a = v
      · left; simp [hva]
      · right
        simp only [hva, if_false, Nat.zero_add] at h
        cases t' with
        | nil =>
          simp only [pathLines, nodeCount, Nat.add_zero] at h
          by_cases hvb : b = v
          · simp [hvb]
          · simp [hvb] at h
        | cons c t'' =>
          by_cases hvb : b = v
          · exfalso
            simp only [hvb, if_true, pathLines, nodeCount] at h
            omega
          · simp only [hvb, if_false, Nat.zero_add] at h
            rcases ih h with h' | h'
            · simp at h'; exact absurd h' hvb
            · rw [List.getLast?_cons_cons]; exact h'

theorem pathLines_append_singleton (l : List Int) (a b : Int) :
    pathLines (l ++ [a, b]) = pathLines (l ++ [a]) ++ [(a, b)] := by
  induction l with
  | nil => simp [pathLines]
  | cons x t ih =>
    cases t with
    | nil => simp [pathLines]
    | cons y t' =>
      have := ih
      simp only [List.cons_append, pathLines] at this ⊢
      rw [this]

theorem pathLines_reverse (l : List Int) :
    pathLines l.reverse = ((pathLines l).map flipL).reverse := by
  induction l with
  | nil => simp [pathLines]
  | cons a t ih =>
    cases t with
    | nil => simp [pathLines]
    | cons b t' =>
      simp only [List.reverse_cons, List.append_assoc, List.singleton_append] at ih ⊢
      rw [pathLines_append_singleton, ih]
      simp [pathLines, flipL]

theorem pathLines_reverse_norm (l : List Int) :
    ((pathLines l.reverse).map normL).Perm ((pathLines l).map normL) := by
  rw [pathLines_reverse, List.map_reverse, List.map_map]
  have : (normL ∘ flipL) = normL := by funext x; exact normL_flip x
  rw [this]
  exact List.reverse_perm _



theorem findEndLine_spec (all : List Line) (ix : List (Nat × Line)) (j : Nat) (l : Line)
    (h : findEndLine all ix = some (j, l)) : nodeCount l.1 all = 1 ∨ nodeCount l.2 all = 1 := by
  induction ix with
  | nil => simp [findEndLine] at h
  | cons a t ih =>
    obtain ⟨k, m⟩ := a
    simp only [findEndLine] at h
    split at h
    · rename_i hc; cases h; exact hc
    · exact ih h

theorem findEndLine_isSome (all : List Line) (ix : List (Nat × Line))
    (h : ∃ jl ∈ ix, nodeCount jl.2.1 all = 1 ∨ nodeCount jl.2.2 all = 1) :
    ∃ j l, findEndLine all ix = some (j, l) := by
  induction ix with
  | nil => obtain ⟨jl, hm, _⟩ := h; cases hm
  | cons a t ih =>
    obtain ⟨k, m⟩ := a
    simp only [findEndLine]
    by_cases hc : nodeCount m.1 all = 1 ∨ nodeCount m.2 all = 1
    · exact ⟨k, m, by simp [hc]⟩
    · simp only [hc, if_false]
      apply ih
      obtain ⟨jl, hm, hcc⟩ := h
      rcases List.mem_cons.mp hm with rfl | hm
      · exact absurd hcc hc
      · exact ⟨jl, hm, hcc⟩

theorem nodeCount_zero_of_not_mem (v : Int) (nodes : List Int) (h : v ∉ nodes) :
    nodeCount v (pathLines nodes) = 0 := by
  induction nodes with
  | nil => rfl
  | cons a t ih =>
    cases t with
    | nil => rfl
    | cons b t' =>
      have hva : a ≠ v := fun e => h (by simp [e])
      have hvb : b ≠ v := fun e => h (by simp [e])
      simp only [pathLines, nodeCount, hva, hvb, if_false]
      have := ih (fun hm => h (List.mem_cons_of_mem _ hm))
      omega

theorem map_normL_snd_enumFrom' (i : Nat) (l : List Line) :
    (enumFrom' i l).map (fun jl => normL jl.2) = l.map normL := by
  conv => rhs; rw [← map_snd_enumFrom' i l]
  rw [List.map_map]; rfl

/-- oriented completeness: the selected first column, oriented as coded, starts at the head of the path -/
theorem sort_chain_from (a0 a1 : Int) (t : List Int) (lines : List Line) (check : Bool)
    (hnd : (a0 :: a1 :: t).Nodup)
    (hperm : (lines.map normL).Perm ((pathLines (a0 :: a1 :: t)).map normL))
    (j : Nat) (l : Line) (hf : findEndLine lines (enumFrom' 0 lines) = some (j, l))
    (hstart : (if nodeCount l.1 lines > 1 then flipL l else l).1 = a0) :
    ∃ out, sortPointPairs lines check false = .ok out
      ∧ out.map (·.line) = pathLines (a0 :: a1 :: t) := by
  have ha0 : a0 ∉ a1 :: t := (List.nodup_cons.mp hnd).1
  have hab : a0 ≠ a1 := fun e => ha0 (by simp [e])
  have hm := findEndLine_mem _ _ _ _ hf
  have hl : l ∈ lines := by
    have := (mem_enumFrom' 0 lines j l).mp hm
    exact List.mem_of_getElem? this.2
  -- the oriented first line is (a0, a1)
  obtain ⟨f, hfdef⟩ : ∃ f, f = (if nodeCount l.1 lines > 1 then flipL l else l) := ⟨_, rfl⟩
  have hfl : normL f = normL l := by
    rw [hfdef]; split
    · exact normL_flip l
    · rfl
  have hf1 : f.1 = a0 := by rw [hfdef]; exact hstart
  have hfe : f = (a0, a1) := by
    have : normL l ∈ (pathLines (a0 :: a1 :: t)).map normL :=
      hperm.mem_iff.mp (List.mem_map.mpr ⟨l, hl, rfl⟩)
    obtain ⟨e, he, hne⟩ := List.mem_map.mp this
    have hcases := normL_eq f e (by rw [hfl, hne])
    simp only [pathLines, List.mem_cons] at he
    rcases he with rfl | he
    · rcases hcases with h | h
      · exact h
      · rw [h] at hf1; simp only [flipL] at hf1; exact absurd hf1.symm hab
    · exfalso
      have hmem := mem_pathLines _ _ he
      rcases hcases with h | h
      · rw [h] at hf1; exact ha0 (hf1 ▸ hmem.1)
      · rw [h] at hf1; simp only [flipL] at hf1; exact ha0 (hf1 ▸ hmem.2)
  -- the remaining columns are the rest of the path
  have hnd' : ((enumFrom' 0 lines).map (·.1)).Nodup := by
    rw [map_fst_enumFrom']; exact List.nodup_range'
  have hperm2 := (removeIdx_perm j l _ hm hnd').map (fun jl => normL jl.2)
  rw [map_normL_snd_enumFrom'] at hperm2
  simp only [List.map_cons] at hperm2
  have hrem : ((removeIdx j (enumFrom' 0 lines)).map (fun jl => normL jl.2)).Perm
      ((pathLines (a1 :: t)).map normL) := by
    have h3 := hperm2.symm.trans hperm
    simp only [pathLines, List.map_cons] at h3
    rw [← hfl, hfe] at h3
    exact List.Perm.cons_inv h3
  obtain ⟨out, hw, hout⟩ := walk_path t a1 (removeIdx j (enumFrom' 0 lines))
    (removeIdx j (enumFrom' 0 lines)).length (List.nodup_cons.mp hnd).2 (le_refl _) hrem
  cases lines with
  | nil => cases hl
  | cons l0 tl =>
    by_cases hcnt : nodeCount l.1 (l0 :: tl) > 1
    · simp only [hcnt, if_true] at hfdef
      refine ⟨⟨j, flipL l, true⟩ :: out, ?_, ?_⟩
      · unfold sortPointPairs
        simp only [Bool.false_eq_true, if_false, hf, hcnt, if_true]
        rw [← hfdef, hfe]
        simp only [hw]
        simp
      · simp [hout, ← hfdef, hfe, pathLines]
    · simp only [hcnt, if_false] at hfdef
      refine ⟨⟨j, l, false⟩ :: out, ?_, ?_⟩
      · unfold sortPointPairs
        simp only [Bool.false_eq_true, if_false, hf, hcnt]
        rw [← hfdef, hfe]
        simp only [hw]
        simp
      · simp [hout, ← hfdef, hfe, pathLines]



def dnLR1 (e : P2 × P2) : Int := if isLR e && decide (0 < cross2 e.1 e.2) then 1 else 0
def dnRL1 (e : P2 × P2) : Int := if isRL e && decide (cross2 e.1 e.2 < 0) then 1 else 0

theorem vertexSgn_of_x_ne {v : P2} (h : v.1 ≠ 0) : vertexSgn v = sgn v.1 := by
  have : sgn v.1 ≠ 0 := fun h' => h (sgn_eq_zero_iff.mp h')
  simp [vertexSgn, this]

/-- per edge, in generic position (no end point on the vertical line, not seen edge-on when it
    meets the line): the coded contribution and the half-plane jump in terms of the four kinds of
    crossings -/
theorem edge_generic (e : P2 × P2) (h1 : e.1.1 ≠ 0) (h2 : e.2.1 ≠ 0)
    (hoff : (isLR e || isRL e) = true → cross2 e.1 e.2 ≠ 0) :
    contrib e = -upLR1 e + upRL1 e + dnLR1 e - dnRL1 e
    ∧ vsDiff e = 2 * upLR1 e - 2 * upRL1 e + 2 * dnLR1 e - 2 * dnRL1 e
    ∧ straddle1 e = upLR1 e + upRL1 e + dnLR1 e + dnRL1 e
    ∧ 0 ≤ upLR1 e ∧ 0 ≤ upRL1 e ∧ 0 ≤ dnLR1 e ∧ 0 ≤ dnRL1 e
    ∧ (active e = true → edgeSgn e ≠ 0) := by
  obtain ⟨a, b⟩ := e
  simp only at h1 h2 hoff
  simp only [contrib, active, vsDiff, edgeSgn, vertexSgn_of_x_ne h1, vertexSgn_of_x_ne h2,
    upLR1, upRL1, dnLR1, dnRL1, straddle1, isLR, isRL] at hoff ⊢
  rcases lt_or_gt_of_ne h1 with ha | ha <;> rcases lt_or_gt_of_ne h2 with hb | hb
  · -- both left
    have na : ¬ 0 < a.1 := by linarith
    have nb : ¬ 0 < b.1 := by linarith
    simp [sgn_neg ha, sgn_neg hb, ha, hb, na, nb]
  · -- left to right
    have na : ¬ 0 < a.1 := by linarith
    have nb : ¬ b.1 < 0 := by linarith
    have hc := hoff (by simp [ha, hb])
    rcases lt_or_gt_of_ne hc with hcr | hcr
    · have : ¬ 0 < cross2 a b := by linarith
      simp [sgn_neg ha, sgn_pos hb, ha, hb, na, nb, hcr, this, sgn_neg hcr]
    · have : ¬ cross2 a b < 0 := by linarith
      simp [sgn_neg ha, sgn_pos hb, ha, hb, na, nb, hcr, this, sgn_pos hcr]
  · -- right to left
    have na : ¬ a.1 < 0 := by linarith
    have nb : ¬ 0 < b.1 := by linarith
    have hc := hoff (by simp [ha, hb])
    rcases lt_or_gt_of_ne hc with hcr | hcr
    · have : ¬ 0 < cross2 a b := by linarith
      simp [sgn_pos ha, sgn_neg hb, ha, hb, na, nb, hcr, this, sgn_neg hcr]
    · have : ¬ cross2 a b < 0 := by linarith
      simp [sgn_pos ha, sgn_neg hb, ha, hb, na, nb, hcr, this, sgn_pos hcr]
  · -- both right
    have na : ¬ a.1 < 0 := by linarith
    have nb : ¬ b.1 < 0 := by linarith
    simp [sgn_pos ha, sgn_pos hb, ha, hb, na, nb]

theorem isum_lin4 {α : Type} (c1 c2 c3 c4 : Int) (f g1 g2 g3 g4 : α → Int) (l : List α)
    (h : ∀ e ∈ l, f e = c1 * g1 e + c2 * g2 e + c3 * g3 e + c4 * g4 e) :
    isum (l.map f) = c1 * isum (l.map g1) + c2 * isum (l.map g2) + c3 * isum (l.map g3) + c4 * isum (l.map g4) := by
  induction l with
  | nil => simp [isum]
  | cons a t ih =>
    simp only [List.map_cons, isum]
    rw [h a (by simp), ih (fun e he => h e (by simp [he]))]
    ring

theorem isum_nonneg' {α : Type} (f : α → Int) (l : List α) (h : ∀ e ∈ l, 0 ≤ f e) : 0 ≤ isum (l.map f) := by
  induction l with
  | nil => simp [isum]
  | cons a t ih =>
    simp only [List.map_cons, isum]
    have := h a (by simp)
    have := ih (fun e he => h e (by simp [he]))
    omega

/-- the classical identity: twice the winding number = twice the signed number of crossings of the
    upward ray, and the line through the origin is crossed equally often in both directions -/
theorem wind2_crossings (l : List P2) (hgen : ∀ v ∈ l, v.1 ≠ 0)
    (hoff : ∀ e ∈ cycPairs l, (isLR e || isRL e) = true → cross2 e.1 e.2 ≠ 0) :
    wind2 (cycPairs l) = 2 * (upRL (cycPairs l) - upLR (cycPairs l))
    ∧ straddleCount (cycPairs l) = 2 * (upLR (cycPairs l) + isum ((cycPairs l).map dnLR1))
    ∧ straddleCount (cycPairs l) = upLR (cycPairs l) + upRL (cycPairs l)
        + isum ((cycPairs l).map dnLR1) + isum ((cycPairs l).map dnRL1)
    ∧ 0 ≤ upLR (cycPairs l) ∧ 0 ≤ upRL (cycPairs l)
    ∧ 0 ≤ isum ((cycPairs l).map dnLR1) ∧ 0 ≤ isum ((cycPairs l).map dnRL1) := by
  have hg : ∀ e ∈ cycPairs l, _ := fun e he =>
    edge_generic e (hgen _ (mem_cycPairs l e he).1) (hgen _ (mem_cycPairs l e he).2) (hoff e he)
  have s1 : wind2 (cycPairs l) = (-1) * upLR (cycPairs l) + 1 * upRL (cycPairs l)
      + 1 * isum ((cycPairs l).map dnLR1) + (-1) * isum ((cycPairs l).map dnRL1) :=
    isum_lin4 (-1) 1 1 (-1) contrib upLR1 upRL1 dnLR1 dnRL1 (cycPairs l)
      (fun e he => by rw [(hg e he).1]; ring)
  have s2 : isum ((cycPairs l).map vsDiff) = 2 * upLR (cycPairs l) + (-2) * upRL (cycPairs l)
      + 2 * isum ((cycPairs l).map dnLR1) + (-2) * isum ((cycPairs l).map dnRL1) :=
    isum_lin4 2 (-2) 2 (-2) vsDiff upLR1 upRL1 dnLR1 dnRL1 (cycPairs l)
      (fun e he => by rw [(hg e he).2.1]; ring)
  have s3 : straddleCount (cycPairs l) = 1 * upLR (cycPairs l) + 1 * upRL (cycPairs l)
      + 1 * isum ((cycPairs l).map dnLR1) + 1 * isum ((cycPairs l).map dnRL1) :=
    isum_lin4 1 1 1 1 straddle1 upLR1 upRL1 dnLR1 dnRL1 (cycPairs l)
      (fun e he => by rw [(hg e he).2.2.1]; ring)
  have e4 : isum ((cycPairs l).map vsDiff) = 0 := isum_tele_cyc vertexSgn l
  have n1 := isum_nonneg' upLR1 (cycPairs l) (fun e he => (hg e he).2.2.2.1)
  have n2 := isum_nonneg' upRL1 (cycPairs l) (fun e he => (hg e he).2.2.2.2.1)
  have n3 := isum_nonneg' dnLR1 (cycPairs l) (fun e he => (hg e he).2.2.2.2.2.1)
  have n4 := isum_nonneg' dnRL1 (cycPairs l) (fun e he => (hg e he).2.2.2.2.2.2.1)
  rw [e4] at s2
  refine ⟨by omega, by omega, by omega, n1, n2, n3, n4⟩

/-- the coded answer in generic position: "signed crossing number of the upward ray ≠ 0" -/
theorem pip_core_generic (l : List P2) (d : Bool) (hgen : ∀ v ∈ l, v.1 ≠ 0)
    (hoff : ∀ e ∈ cycPairs l, (isLR e || isRL e) = true → cross2 e.1 e.2 ≠ 0) :
    pipEdges (cycPairs l) d = decide (upRL (cycPairs l) ≠ upLR (cycPairs l)) := by
  have h0 : ∀ e ∈ cycPairs l, ¬ (e.1.1 = 0 ∧ e.1.2 = 0) ∧ ¬ (e.2.1 = 0 ∧ e.2.2 = 0) := fun e he =>
    ⟨fun hz => hgen _ (mem_cycPairs l e he).1 hz.1, fun hz => hgen _ (mem_cycPairs l e he).2 hz.1⟩
  have h1 : ∀ e ∈ cycPairs l, active e = true → edgeSgn e ≠ 0 := fun e he =>
    (edge_generic e (hgen _ (mem_cycPairs l e he).1) (hgen _ (mem_cycPairs l e he).2) (hoff e he)).2.2.2.2.2.2.2
  rw [pipEdges_reduce _ _ h0 h1]
  have hw := (wind2_crossings l hgen hoff).1
  by_cases hc : upRL (cycPairs l) = upLR (cycPairs l)
  · have : wind2 (cycPairs l) = 0 := by omega
    simp [this, hc]
  · have : wind2 (cycPairs l) ≠ 0 := by omega
    simp [this, hc]

/-- crossing height of a left-to-right edge -/
theorem intercept_pos_iff (a b : P2) (ha : a.1 < 0) (hb : 0 < b.1) :
    0 < a.2 + (0 - a.1) * (b.2 - a.2) / (b.1 - a.1) ↔ cross2 a b < 0 := by
  have hd : 0 < b.1 - a.1 := by linarith
  have : a.2 + (0 - a.1) * (b.2 - a.2) / (b.1 - a.1) = (-(cross2 a b)) / (b.1 - a.1) := by
    simp only [cross2]; field_simp; ring
  rw [this]
  constructor
  · intro h
    have h2 := mul_pos h hd
    rw [div_mul_cancel₀ _ (ne_of_gt hd)] at h2
    linarith
  · intro h
    exact div_pos (by linarith) hd



/-! ## Part 5: sort_points_on_line -/

theorem insertByKey_perm (x : Nat × Rat) (l : List (Nat × Rat)) : (insertByKey x l).Perm (x :: l) := by
  induction l with
  | nil => simp [insertByKey]
  | cons y t ih =>
    simp only [insertByKey]
    split
    · exact List.Perm.refl _
    · exact (List.Perm.cons y ih).trans (List.Perm.swap x y t)

theorem sortByKey_perm (l : List (Nat × Rat)) : (sortByKey l).Perm l := by
  induction l with
  | nil => simp [sortByKey]
  | cons x t ih => exact (insertByKey_perm x _).trans (List.Perm.cons x ih)

theorem insertByKey_sorted (x : Nat × Rat) (l : List (Nat × Rat))
    (h : l.Pairwise (fun a b => a.2 ≤ b.2)) : (insertByKey x l).Pairwise (fun a b => a.2 ≤ b.2) := by
  induction l with
  | nil => simp [insertByKey]
  | cons y t ih =>
    simp only [insertByKey]
    have hy := List.pairwise_cons.mp h
    split
    · rename_i hxy
      refine List.pairwise_cons.mpr ⟨?_, h⟩
      intro b hb
      rcases List.mem_cons.mp hb with rfl | hb
      · exact hxy
      · exact le_trans hxy (hy.1 b hb)
    · rename_i hxy
      refine List.pairwise_cons.mpr ⟨?_, ih hy.2⟩
      intro b hb
      have := (insertByKey_perm x t).mem_iff.mp hb
      rcases List.mem_cons.mp this with rfl | hb'
      · exact le_of_lt (not_le.mp hxy)
      · exact hy.1 b hb'

theorem sortByKey_sorted (l : List (Nat × Rat)) : (sortByKey l).Pairwise (fun a b => a.2 ≤ b.2) := by
  induction l with
  | nil => simp [sortByKey]
  | cons x t ih => exact insertByKey_sorted x _ ih

/-- the returned indices are a permutation of `0 … n-1` -/
theorem argsort_perm (keys : List Rat) :
    ((sortByKey (enumFrom' 0 keys)).map (·.1)).Perm (List.range keys.length) := by
  have := (sortByKey_perm (enumFrom' 0 keys)).map (·.1)
  rw [map_fst_enumFrom', ← List.range_eq_range'] at this
  exact this

/-- keys that are an affine function `κ t + β` of parameters `t`: the argsort orders the parameters
    increasingly (κ > 0) or decreasingly (κ < 0) -/
theorem argsort_affine (ts : List Rat) (κ β : Rat) :
    let out := (sortByKey (enumFrom' 0 (ts.map (fun t => κ * t + β)))).map (·.1)
    (0 < κ → (out.map (fun i => ts.getD i 0)).Pairwise (· ≤ ·))
    ∧ (κ < 0 → (out.map (fun i => ts.getD i 0)).Pairwise (· ≥ ·)) := by
  intro out
  have hs := sortByKey_sorted (enumFrom' 0 (ts.map (fun t => κ * t + β)))
  have hmem : ∀ x ∈ sortByKey (enumFrom' 0 (ts.map (fun t => κ * t + β))), x.2 = κ * ts.getD x.1 0 + β := by
    intro x hx
    have hx' := (sortByKey_perm _).mem_iff.mp hx
    have := (mem_enumFrom' 0 _ x.1 x.2).mp hx'
    simp only [Nat.sub_zero, List.getElem?_map] at this
    cases hg : ts[x.1]? with
    | none => simp [hg] at this
    | some t =>
      simp only [hg, Option.map_some, Option.some.injEq] at this
      simp [List.getD, hg, ← this.2]
  simp only [out, List.map_map]
  constructor
  · intro hk
    rw [List.pairwise_map]
    refine List.Pairwise.imp_of_mem ?_ hs
    intro a b ha hb hab
    rw [hmem a ha, hmem b hb] at hab
    simp only [Function.comp]
    by_contra hc
    have := mul_lt_mul_of_pos_left (not_le.mp hc) hk
    linarith
  · intro hk
    rw [List.pairwise_map]
    refine List.Pairwise.imp_of_mem ?_ hs
    intro a b ha hb hab
    rw [hmem a ha, hmem b hb] at hab
    simp only [Function.comp, ge_iff_le]
    by_contra hc
    have := mul_lt_mul_of_neg_left (not_le.mp hc) hk
    linarith



def sigmaT (T : P3) : Rat := if T.1 = 0 ∧ T.2.1 = 0 ∧ T.2.2 < 0 then -1 else 1

theorem sigmaT_cases (T : P3) : sigmaT T = 1 ∨ sigmaT T = -1 := by
  unfold sigmaT; split <;> simp

theorem lineKeys_spec (pts : List P3) (keys : List Rat) (T : P3) (h : lineKeys pts = some (keys, T)) :
    T ∈ pts.map (fun p => sub3 p (mean3 pts))
    ∧ keys = (pts.map (fun p => sub3 p (mean3 pts))).map (fun w => sigmaT T * dot3 w T) := by
  unfold lineKeys at h
  simp only at h
  cases ha : argmaxFirst nsq3 (pts.map (fun p => sub3 p (mean3 pts))) with
  | none => simp [ha] at h
  | some T' =>
    simp only [ha, Option.some.injEq, Prod.mk.injEq] at h
    obtain ⟨h1, h2⟩ := h
    subst h2
    exact ⟨argmaxFirst_mem _ _ _ ha, by rw [← h1]; rfl⟩

theorem sum3_line (o d : P3) (ts : List Rat) :
    sum3 (ts.map (fun t => add3 o (scale3 t d)))
      = add3 (scale3 (ts.length : Rat) o) (scale3 (rsum ts) d) := by
  induction ts with
  | nil => simp [sum3, add3, scale3, rsum]
  | cons t l ih =>
    simp only [List.map_cons, sum3, ih, rsum, List.length_cons]
    simp only [add3, scale3, Prod.mk.injEq]
    push_cast
    refine ⟨by ring, by ring, by ring⟩

/-- centred points of a parametrised line: `(t - t̄) d` -/
theorem sub_mean_line (o d : P3) (ts : List Rat) (hne : ts ≠ []) (t : Rat) :
    sub3 (add3 o (scale3 t d)) (mean3 (ts.map (fun t => add3 o (scale3 t d))))
      = scale3 (t - rsum ts / (ts.length : Rat)) d := by
  have hn : (ts.length : Rat) ≠ 0 := by
    have : ts.length ≠ 0 := by simpa using hne
    exact_mod_cast this
  simp only [mean3, sum3_line, List.length_map]
  simp only [add3, scale3, sub3, Prod.mk.injEq]
  refine ⟨by field_simp; ring, by field_simp; ring, by field_simp; ring⟩

theorem dot3_scale (a b : Rat) (d : P3) : dot3 (scale3 a d) (scale3 b d) = a * b * nsq3 d := by
  simp only [dot3, scale3, nsq3]; ring

theorem scale3_eq_zero (a : Rat) (d : P3) (h : scale3 a d = (0, 0, 0)) : a = 0 ∨ d = (0, 0, 0) := by
  by_cases ha : a = 0
  · exact Or.inl ha
  · right
    simp only [scale3, Prod.mk.injEq] at h
    obtain ⟨h1, h2, h3⟩ := h
    have e1 := (mul_eq_zero.mp h1).resolve_left ha
    have e2 := (mul_eq_zero.mp h2).resolve_left ha
    have e3 := (mul_eq_zero.mp h3).resolve_left ha
    exact Prod.ext e1 (Prod.ext e2 e3)




/-- what the general branch returns -/
theorem sortPointsOnLine_ok (a b : P3) (t : List P3) (tol : Rat) (out : List Nat)
    (h : sortPointsOnLine (a :: b :: t) tol = .ok out) :
    ∃ keys T, lineKeys (a :: b :: t) = some (keys, T) ∧ T ≠ (0, 0, 0)
      ∧ out = (sortByKey (enumFrom' 0 keys)).map (·.1) := by
  unfold sortPointsOnLine at h
  simp only at h
  split at h
  · cases h
  · cases hk : lineKeys (a :: b :: t) with
    | none => simp [hk] at h
    | some kt =>
      obtain ⟨keys, T⟩ := kt
      simp only [hk] at h
      split at h
      · cases h
      · rename_i hT
        split at h
        · cases h
        · cases h
          exact ⟨keys, T, rfl, hT, rfl⟩



/-! ## Part 6: sort_point_plane in a plane z = const -/

theorem angRegion_cases (u : P2) :
    (angRegion u = 0 ∧ u.1 < 0) ∨ (angRegion u = 2 ∧ 0 < u.1) ∨ (angRegion u = 1 ∧ u.1 = 0) ∨ (angRegion u = 3 ∧ u.1 = 0) := by
  unfold angRegion
  rcases lt_trichotomy u.1 0 with h | h | h
  · left; simp [h]
  · right; right
    have h1 : ¬ u.1 < 0 := by linarith
    have h2 : ¬ 0 < u.1 := by linarith
    by_cases h3 : u.2 < 0 <;> simp [h1, h2, h3, h]
  · right; left
    have h1 : ¬ u.1 < 0 := by linarith
    simp [h1, h]

theorem angLt_iff (u w : P2) : angLt u w = true ↔
    angRegion u < angRegion w ∨ (angRegion u = angRegion w ∧ (angRegion u = 0 ∨ angRegion u = 2) ∧ cross2 u w < 0) := by
  simp [angLt, and_assoc]

theorem cross2_antisymm (u w : P2) : cross2 w u = -cross2 u w := by simp only [cross2]; ring

theorem angLt_asymm (u w : P2) (h : angLt u w = true) : angLt w u = false := by
  rw [Bool.eq_false_iff]
  intro h'
  rw [angLt_iff] at h h'
  rcases h with h | ⟨h1, _, h3⟩ <;> rcases h' with g | ⟨g1, _, g3⟩
  · omega
  · omega
  · omega
  · rw [cross2_antisymm] at g3; linarith

theorem region0_x {u : P2} (h : angRegion u = 0) : u.1 < 0 := by
  rcases angRegion_cases u with a | a | a | a
  · exact a.2
  all_goals (have := a.1; omega)

theorem region2_x {u : P2} (h : angRegion u = 2) : 0 < u.1 := by
  rcases angRegion_cases u with a | a | a | a
  · have := a.1; omega
  · exact a.2
  all_goals (have := a.1; omega)

/-- negative transitivity: the order by `arctan2` is a weak order -/
theorem angLt_negtrans (z y x : P2) (h : angLt z x = true) : angLt y x = true ∨ angLt z y = true := by
  rw [angLt_iff] at h
  simp only [angLt_iff]
  rcases h with h | ⟨h1, h2, h3⟩
  · by_cases hy : angRegion y < angRegion x
    · exact Or.inl (Or.inl hy)
    · exact Or.inr (Or.inl (by omega))
  · rcases lt_trichotomy (angRegion y) (angRegion x) with hy | hy | hy
    · exact Or.inl (Or.inl hy)
    · -- all three in the same open half plane
      have hyz : angRegion z = angRegion y := by omega
      have hyr : angRegion y = 0 ∨ angRegion y = 2 := by omega
      by_contra hc
      simp only [not_or, not_and, not_lt] at hc
      have c1 : 0 ≤ cross2 y x := hc.1.2 hy hyr
      have c2 : 0 ≤ cross2 z y := hc.2.2 hyz h2
      have key : cross2 z x * y.1 = cross2 y x * z.1 + cross2 z y * x.1 := by simp only [cross2]; ring
      rcases h2 with h0 | h0
      · have zx := region0_x h0
        have yx := region0_x (u := y) (by omega)
        have xx := region0_x (u := x) (by omega)
        have p1 : cross2 y x * z.1 ≤ 0 := mul_nonpos_of_nonneg_of_nonpos c1 zx.le
        have p2 : cross2 z y * x.1 ≤ 0 := mul_nonpos_of_nonneg_of_nonpos c2 xx.le
        have p3 : 0 < cross2 z x * y.1 := mul_pos_of_neg_of_neg h3 yx
        linarith
      · have zx := region2_x h0
        have yx := region2_x (u := y) (by omega)
        have xx := region2_x (u := x) (by omega)
        have p1 : 0 ≤ cross2 y x * z.1 := mul_nonneg c1 zx.le
        have p2 : 0 ≤ cross2 z y * x.1 := mul_nonneg c2 xx.le
        have p3 : cross2 z x * y.1 < 0 := mul_neg_of_neg_of_pos h3 yx
        linarith
    · exact Or.inr (Or.inl (by omega))

theorem insertByAngle_perm (x : Nat × P2) (l : List (Nat × P2)) : (insertByAngle x l).Perm (x :: l) := by
  induction l with
  | nil => simp [insertByAngle]
  | cons y t ih =>
    simp only [insertByAngle]
    split
    · exact (List.Perm.cons y ih).trans (List.Perm.swap x y t)
    · exact List.Perm.refl _

theorem sortByAngle_perm (l : List (Nat × P2)) : (sortByAngle l).Perm l := by
  induction l with
  | nil => simp [sortByAngle]
  | cons x t ih => exact (insertByAngle_perm x _).trans (List.Perm.cons x ih)

theorem insertByAngle_sorted (x : Nat × P2) (l : List (Nat × P2))
    (h : l.Pairwise (fun a b => angLt b.2 a.2 = false)) :
    (insertByAngle x l).Pairwise (fun a b => angLt b.2 a.2 = false) := by
  induction l with
  | nil => simp [insertByAngle]
  | cons y t ih =>
    simp only [insertByAngle]
    have hy := List.pairwise_cons.mp h
    split
    · rename_i hyx
      refine List.pairwise_cons.mpr ⟨?_, ih hy.2⟩
      intro b hb
      have := (insertByAngle_perm x t).mem_iff.mp hb
      rcases List.mem_cons.mp this with rfl | hb'
      · exact angLt_asymm _ _ hyx
      · exact hy.1 b hb'
    · rename_i hyx
      have hyx' : angLt y.2 x.2 = false := by simpa using hyx
      refine List.pairwise_cons.mpr ⟨?_, h⟩
      intro b hb
      rcases List.mem_cons.mp hb with rfl | hb
      · exact hyx'
      · -- x ≤ y ≤ b
        have hyb := hy.1 b hb
        rw [Bool.eq_false_iff]
        intro hbx
        rcases angLt_negtrans b.2 y.2 x.2 hbx with h1 | h1
        · rw [hyx'] at h1; cases h1
        · rw [hyb] at h1; cases h1

theorem sortByAngle_sorted (l : List (Nat × P2)) :
    (sortByAngle l).Pairwise (fun a b => angLt b.2 a.2 = false) := by
  induction l with
  | nil => simp [sortByAngle]
  | cons x t ih => exact insertByAngle_sorted x _ ih



theorem isInt3B_sound {p : P3} (h : isInt3B p = true) : IsInt3 p := by
  simp only [isInt3B, isIntB, Bool.and_eq_true, beq_iff_eq] at h
  exact ⟨⟨p.1.num, ((Rat.den_eq_one_iff _).mp h.1.1).symm⟩, ⟨p.2.1.num, ((Rat.den_eq_one_iff _).mp h.1.2).symm⟩,
    ⟨p.2.2.num, ((Rat.den_eq_one_iff _).mp h.2).symm⟩⟩


end PorepyVerif.C31
