import PorepyVerif.C31.Props
#print axioms PorepyVerif.C31.ccw_eq_exact_outside_band
#print axioms PorepyVerif.C31.ccw_in_band_default
#print axioms PorepyVerif.C31.ccw_int_exact
#print axioms PorepyVerif.C31.ccw_polygon_iff_area_pos
#print axioms PorepyVerif.C31.point_in_polygon_kernel_inside
#print axioms PorepyVerif.C31.point_in_polygon_separated_outside
#print axioms PorepyVerif.C31.point_in_convex_polygon_outside
#print axioms PorepyVerif.C31.point_in_convex_polygon_spec
#print axioms PorepyVerif.C31.collinear_spec
#print axioms PorepyVerif.C31.planar_exact
#print axioms PorepyVerif.C31.planar_spec
#print axioms PorepyVerif.C31.half_space_spec
#print axioms PorepyVerif.C31.sort_point_pairs_chain
#print axioms PorepyVerif.C31.sort_point_pairs_cycle_complete
