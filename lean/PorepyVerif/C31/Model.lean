/-
C31 — executable models of the geometric predicates and point orderings of
`porepy.geometry.geometry_property_checks`, `half_space` and `sort_points` (core Lean only).

Numbers are rationals (every binary64 is one).  Wherever the code compares a Euclidean norm with a
tolerance the model compares the SQUARES (equivalent for `tol ≥ 0`), so no square root occurs.

Modelled functions (branch for branch where the property depends on it):
  `isCcwPolyline`        is_ccw_polyline, one test point: the three masked assignments in code order
  `isCcwPolygon`         is_ccw_polygon: sign of Σ (y_{i+1}+y_i)(x_{i+1}-x_i)
  `pointInPolygon`       point_in_polygon, one test point: vertex test, half-plane signs, active
                         edges, on-edge test (active edges only — the code as repaired), winding sum
  `pointInCell`          point_in_cell without the projection: crossing-parity loop
  `pointsAreCollinear`   points_are_collinear (squared form)
  `computeNormal`, `planarWithNormal`, `pointsArePlanar`   points_are_planar / compute_normal
  `insideHalfSpaces`     point_inside_half_space_intersection, one test point: the counting loop
  `hangingNodes`         polygon_hanging_nodes (squared form of `cos > 1 - tol`)
  `sortPointPairs`       sort_point_pairs: start selection, the double loop as a scan over the
                         not-yet-found lines in input order (fuel = number of positions), both asserts
  `sortMultiChain`       sort_multiple_point_pairs, one chain (no assert: unfilled positions stay 0)
  `sortPointPlaneXY`     sort_point_plane restricted to planes z = const (identity rotation): exact
                         comparison of arctan2 values by region and cross product
  `sortPointsOnLine`     sort_points_on_line: asserts, tangent of compute_tangent, argsort of the
                         coordinate along the tangent (the rotation is replaced by the dot product)

The model follows the PROPERTY where the code deviates from it (known_findings.d/C31.json,
fixes/C31-*.diff): `pointsAreCollinear` tests EVERY point against the line through the first point
and the point farthest from it (the code skips the last point and uses the second point, which may
coincide with the first); `sortPointPairs` counts node occurrences in the two node rows only.
-/
namespace PorepyVerif.C31

abbrev P2 := Rat × Rat
abbrev P3 := Rat × Rat × Rat

/-! ### small helpers -/

def absR (x : Rat) : Rat := if x < 0 then -x else x

def rsum : List Rat → Rat
  | [] => 0
  | x :: l => x + rsum l

def isum : List Int → Int
  | [] => 0
  | x :: l => x + isum l

def sub2 (a b : P2) : P2 := (a.1 - b.1, a.2 - b.2)
def cross2 (a b : P2) : Rat := a.1 * b.2 - a.2 * b.1

def sub3 (a b : P3) : P3 := (a.1 - b.1, a.2.1 - b.2.1, a.2.2 - b.2.2)
def dot3 (a b : P3) : Rat := a.1 * b.1 + a.2.1 * b.2.1 + a.2.2 * b.2.2
def cross3 (a b : P3) : P3 :=
  (a.2.1 * b.2.2 - a.2.2 * b.2.1, a.2.2 * b.1 - a.1 * b.2.2, a.1 * b.2.1 - a.2.1 * b.1)
def nsq3 (a : P3) : Rat := dot3 a a

/-- `(prev, a₀), (a₀, a₁), …` : consecutive pairs of `prev :: l`. -/
def pairsFrom {α : Type} (prev : α) : List α → List (α × α)
  | [] => []
  | a :: t => (prev, a) :: pairsFrom a t

/-- The edges of the closed polygon `l`, starting with the closing edge `(last, first)`.
    (`zip poly (roll poly -1)` of the code, rotated by one — every use below is order independent.) -/
def cycPairs {α : Type} (l : List α) : List (α × α) :=
  match l.getLast? with
  | none => []
  | some z => pairsFrom z l

/-! ### is_ccw_polyline -/

/-- the cross product `(p2 - p1) × (p3 - p1)` -/
def det3 (p1 p2 p3 : P2) : Rat :=
  (p2.1 - p1.1) * (p3.2 - p1.2) - (p2.2 - p1.2) * (p3.1 - p1.1)

/-- `is_ccw = ones; is_ccw[|c| <= tol] = default; is_ccw[c < -tol] = False; is_ccw[c > tol] = True` -/
def isCcwPolyline (p1 p2 p3 : P2) (tol : Rat) (default : Bool) : Bool :=
  let c := det3 p1 p2 p3
  let r₁ := if absR c ≤ tol then default else true
  let r₂ := if c < -tol then false else r₁
  if c > tol then true else r₂

/-! ### is_ccw_polygon -/

/-- `Σ (y_{i+1} + y_i) (x_{i+1} - x_i)` over the closed polygon -/
def polyValue (poly : List P2) : Rat :=
  rsum ((cycPairs poly).map (fun e => (e.2.2 + e.1.2) * (e.2.1 - e.1.1)))

def isCcwPolygon (poly : List P2) : Bool := decide (polyValue poly < 0)

/-- twice the signed area (shoelace formula) -/
def area2 (poly : List P2) : Rat := rsum ((cycPairs poly).map (fun e => cross2 e.1 e.2))

/-! ### point_in_polygon -/

def sgn (x : Rat) : Int := if x < 0 then -1 else if x = 0 then 0 else 1

/-- `np.sign(x)`, entries with `x == 0` replaced by `np.sign(y)` -/
def vertexSgn (v : P2) : Int := if sgn v.1 = 0 then sgn v.2 else sgn v.1

/-- `edge_boundary != 0` -/
def active (e : P2 × P2) : Bool := vertexSgn e.2 - vertexSgn e.1 != 0

def edgeSgn (e : P2 × P2) : Int := sgn (cross2 e.1 e.2)

/-- entry of `contrib` -/
def contrib (e : P2 × P2) : Int := if active e then edgeSgn e else 0

/-- `Σ contrib` = twice the winding number -/
def wind2 (es : List (P2 × P2)) : Int := isum (es.map contrib)

def isOrigin (v : P2) : Bool := decide (v.1 = 0) && decide (v.2 = 0)

/-- point_in_polygon for one test point; `es` = edges of the polygon translated by `-p`. -/
def pipEdges (es : List (P2 × P2)) (default : Bool) : Bool :=
  if es.any (fun e => isOrigin e.1 || isOrigin e.2) then default
  else if es.any (fun e => active e && (edgeSgn e == 0)) then default
  else wind2 es != 0

def pointInPolygon (poly : List P2) (p : P2) (default : Bool) : Bool :=
  pipEdges (cycPairs (poly.map (fun v => sub2 v p))) default

/-! ### point_in_cell (if_make_planar = False) -/

/-- one pass of the loop body for the pair `(j, i) = (e.1, e.2)` -/
def cellToggle (p : P2) (e : P2 × P2) : Bool :=
  let pj := e.1
  let pi := e.2
  if (pi.2 < p.2 ∧ pj.2 ≥ p.2) ∨ (pj.2 < p.2 ∧ pi.2 ≥ p.2) then
    decide (pi.1 + (p.2 - pi.2) / (pj.2 - pi.2) * (pj.1 - pi.1) < p.1)
  else false

def pointInCell (poly : List P2) (p : P2) : Bool :=
  (cycPairs poly).foldl (fun odd e => if cellToggle p e then !odd else odd) false

/-! ### points_are_collinear -/

def maxR (a b : Rat) : Rat := if a < b then b else a

/-- `max(m, max_j |p - q_j|²)` -/
def maxDistTo (p : P3) : List P3 → Rat → Rat
  | [], m => m
  | q :: l, m => maxDistTo p l (maxR m (nsq3 (sub3 p q)))

/-- `dist²` of the code: `max(1, max_{i<j} |p_i - p_j|²)` -/
def maxPairSq : List P3 → Rat → Rat
  | [], m => m
  | p :: l, m => maxPairSq l (maxDistTo p l m)

/-- first element maximising `f` (np.argmax) -/
def argmaxFirst {α : Type} (f : α → Rat) : List α → Option α
  | [] => none
  | a :: l =>
    match argmaxFirst f l with
    | none => some a
    | some b => if f a < f b then some b else some a

def pointsAreCollinear (pts : List P3) (tol : Rat) : Bool :=
  match pts with
  | [] => true
  | [_] => true
  | [_, _] => true
  | p0 :: rest =>
    let d2 := maxPairSq pts 1
    let p1 := (argmaxFirst (fun q => nsq3 (sub3 q p0)) pts).getD p0
    decide (0 ≤ tol) &&
      (p0 :: rest).all (fun p => decide (nsq3 (cross3 (sub3 p p0) (sub3 p1 p0)) ≤ tol * tol * d2))

/-! ### compute_normal / points_are_planar -/

def sum3 : List P3 → P3
  | [] => (0, 0, 0)
  | p :: l => let s := sum3 l; (p.1 + s.1, p.2.1 + s.2.1, p.2.2 + s.2.2)

def mean3 (pts : List P3) : P3 :=
  let s := sum3 pts
  let n : Rat := pts.length
  (s.1 / n, s.2.1 / n, s.2.2 / n)

inductive Err where
  | value | runtime | index | assertion
  deriving DecidableEq, Repr

/-- `compute_normal` without the final normalisation: `v1 × v_k` (longest centred vector, longest
    cross product); `RuntimeError` if every component is within `tol·|v1|²` of zero (the scaling
    of the code as repaired in /repo: `nrm_scaling = nrm[v1_ind] ** 2`). -/
def computeNormal (pts : List P3) (tol : Rat) : Except Err P3 :=
  if pts.length ≤ 2 then .error .value else
  let c := mean3 pts
  let v := pts.map (fun p => sub3 p c)
  match argmaxFirst nsq3 v with
  | none => .error .value
  | some v1 =>
    match argmaxFirst (fun w => nsq3 (cross3 v1 w)) v with
    | none => .error .value
    | some vk =>
      let nrm := cross3 v1 vk
      let bound := tol * tol * nsq3 v1 * nsq3 v1
      if decide (0 ≤ tol) && decide (nrm.1 * nrm.1 ≤ bound) && decide (nrm.2.1 * nrm.2.1 ≤ bound)
          && decide (nrm.2.2 * nrm.2.2 ≤ bound) then .error .runtime
      else .ok nrm

/-- Σ (N · (p - centre))² -/
def offPlaneSq (N : P3) (pts : List P3) : Rat :=
  let cp := mean3 pts
  rsum (pts.map (fun p => dot3 N (sub3 p cp) * dot3 N (sub3 p cp)))

/-- `isclose(‖(N/|N|) · (pts - cp)‖, 0, atol = tol, rtol = 0)`; a zero normal gives nan, i.e. False -/
def planarWithNormal (N : P3) (pts : List P3) (tol : Rat) : Bool :=
  if nsq3 N = 0 then false
  else decide (0 ≤ tol) && decide (offPlaneSq N pts ≤ tol * tol * nsq3 N)

/-- points_are_planar; `normal = none` calls compute_normal with ITS default tolerance `ntol` -/
def pointsArePlanar (pts : List P3) (normal : Option P3) (tol ntol : Rat) : Except Err Bool :=
  match normal with
  | some N => .ok (planarWithNormal N pts tol)
  | none =>
    match computeNormal pts ntol with
    | .error e => .error e
    | .ok N => .ok (planarWithNormal N pts tol)

/-! ### point_inside_half_space_intersection -/

/-- the counting loop `in_hull += ((p - x0_i) · n_i <= 0)` -/
def insideCount (p : P3) : List (P3 × P3) → Nat
  | [] => 0
  | (n, x0) :: l => (if dot3 (sub3 p x0) n ≤ 0 then 1 else 0) + insideCount p l

def insideHalfSpaces (planes : List (P3 × P3)) (p : P3) : Bool :=
  insideCount p planes == planes.length

/-! ### polygon_hanging_nodes -/

/-- `(a/|a|)·(b/|b|) > 1 - tol` in squared form; zero-length edges give nan, i.e. False -/
def sameDirection (a b : P3) (tol : Rat) : Bool :=
  let c := 1 - tol
  let d := dot3 a b
  let ab := nsq3 a * nsq3 b
  if ab = 0 then false
  else if 0 < c then decide (0 < d) && decide (c * c * ab < d * d)
  else decide (0 < d) || decide (d * d < c * c * ab)

def hangingFrom (tol : Rat) (i : Nat) : List (P3 × P3) → List Nat
  | [] => []
  | (a, b) :: l => if sameDirection a b tol then i :: hangingFrom tol (i + 1) l else hangingFrom tol (i + 1) l

/-- `vs` = the edge vectors `p[e₁] - p[e₀]` in edge order -/
def hangingNodes (vs : List P3) (tol : Rat) : List Nat :=
  match vs with
  | [] => []
  | v0 :: _ => hangingFrom tol 0 (pairsFrom v0 (vs.drop 1 ++ [v0]))

/-! ### sort_point_pairs -/

abbrev Line := Int × Int

/-- a line of the output: input column, the (possibly flipped) pair, flipped? -/
structure Placed where
  idx : Nat
  line : Line
  flipped : Bool
  deriving DecidableEq, Repr

def flipL (l : Line) : Line := (l.2, l.1)

/-- The inner loop over `j`: first not-yet-found line (input order) with `lines[0,j] == prev`
    (taken as is) or `lines[1,j] == prev` (flipped).  Returns it and the remaining candidates. -/
def pick (prev : Int) : List (Nat × Line) → Option (Placed × List (Nat × Line))
  | [] => none
  | (j, l) :: rest =>
    if l.1 = prev then some (⟨j, l, false⟩, rest)
    else if l.2 = prev then some (⟨j, flipL l, true⟩, rest)
    else match pick prev rest with
      | none => none
      | some (r, rest') => some (r, (j, l) :: rest')

/-- The outer loop over the positions; `none` = some line was never placed (`assert np.all(found)`). -/
def walk : Nat → Int → List (Nat × Line) → Option (List Placed)
  | _, _, [] => some []
  | 0, _, _ :: _ => none
  | n + 1, prev, rem =>
    match pick prev rem with
    | none => none
    | some (r, rest) =>
      match walk n r.line.2 rest with
      | none => none
      | some out => some (r :: out)

def enumFrom' {α : Type} (i : Nat) : List α → List (Nat × α)
  | [] => []
  | a :: l => (i, a) :: enumFrom' (i + 1) l

/-- number of occurrences of node `v` in the two node rows -/
def nodeCount (v : Int) : List Line → Nat
  | [] => 0
  | l :: ls => (if l.1 = v then 1 else 0) + (if l.2 = v then 1 else 0) + nodeCount v ls

/-- first column holding a node that occurs exactly once -/
def findEndLine (all : List Line) : List (Nat × Line) → Option (Nat × Line)
  | [] => none
  | (j, l) :: rest =>
    if nodeCount l.1 all = 1 ∨ nodeCount l.2 all = 1 then some (j, l) else findEndLine all rest

def removeIdx (j : Nat) : List (Nat × Line) → List (Nat × Line)
  | [] => []
  | (k, l) :: rest => if k = j then rest else (k, l) :: removeIdx j rest

/-- `sorted_lines[1, -1]` -/
def lastEnd (first : Placed) (out : List Placed) : Int := (out.getLast?.getD first).line.2

def sortPointPairs (lines : List Line) (checkCircular isCircular : Bool) : Except Err (List Placed) :=
  match lines with
  | [] => .error .index
  | l0 :: _ =>
    let ix := enumFrom' 0 lines
    let start : Except Err (Placed × List (Nat × Line) × Bool) :=
      if isCircular then .ok (⟨0, l0, false⟩, ix.drop 1, checkCircular)
      else match findEndLine lines ix with
        | none => .error .index
        | some (j, l) =>
          if nodeCount l.1 lines > 1 then .ok (⟨j, flipL l, true⟩, removeIdx j ix, false)
          else .ok (⟨j, l, false⟩, removeIdx j ix, false)
    match start with
    | .error e => .error e
    | .ok (first, rem, check) =>
      match walk rem.length first.line.2 rem with
      | none => .error .assertion
      | some out =>
        if check && (first.line.1 != lastEnd first out) then .error .assertion
        else .ok (first :: out)

/-! ### sort_multiple_point_pairs (one chain) -/

/-- as `walk`, but a position for which no line fits keeps its initial value `(0, 0)` -/
def walkZ : Nat → Int → List (Nat × Line) → List Line
  | 0, _, _ => []
  | n + 1, prev, rem =>
    match pick prev rem with
    | none => (0, 0) :: walkZ n prev rem
    | some (r, rest) => r.line :: walkZ n r.line.2 rest

def sortMultiChain (lines : List Line) : List Line :=
  match lines with
  | [] => []
  | l0 :: rest => l0 :: walkZ rest.length l0.2 (enumFrom' 1 rest)

/-! ### sort_points_on_line -/

def add3 (a b : P3) : P3 := (a.1 + b.1, a.2.1 + b.2.1, a.2.2 + b.2.2)
def scale3 (k : Rat) (a : P3) : P3 := (k * a.1, k * a.2.1, k * a.2.2)

/-- stable insertion sort of (index, key) pairs by key (`np.argsort` on distinct keys) -/
def insertByKey (x : Nat × Rat) : List (Nat × Rat) → List (Nat × Rat)
  | [] => [x]
  | y :: l => if x.2 ≤ y.2 then x :: y :: l else y :: insertByKey x l

def sortByKey : List (Nat × Rat) → List (Nat × Rat)
  | [] => []
  | x :: l => insertByKey x (sortByKey l)

def maxL : List Rat → Rat
  | [] => 0
  | [x] => x
  | x :: l => maxR x (maxL l)

def minL : List Rat → Rat
  | [] => 0
  | [x] => x
  | x :: l => let m := minL l; if x < m then x else m

/-- the coordinate that survives `project_line_matrix`, up to the positive factor `|T|`:
    `σ (p - mean)·T`, `T` = centred vector of the point farthest from the mean (`compute_tangent`),
    `σ = -1` exactly if `T` points along `-e_z` (then the rotation degenerates to the identity and
    the active coordinate is `z = -(p - mean)·T/|T|`) -/
def lineKeys (pts : List P3) : Option (List Rat × P3) :=
  let c := mean3 pts
  let v := pts.map (fun p => sub3 p c)
  match argmaxFirst nsq3 v with
  | none => none
  | some T =>
    let σ : Rat := if T.1 = 0 ∧ T.2.1 = 0 ∧ T.2.2 < 0 then -1 else 1
    some (v.map (fun w => σ * dot3 w T), T)

/-- sort_points_on_line: one point → `[0]`; `assert points_are_collinear`; the tangent must not
    vanish (`compute_tangent` asserts); exactly one active dimension (`dx > tol`), i.e. the extent
    along the line exceeds `tol`; then `argsort` of the active coordinate. -/
def sortPointsOnLine (pts : List P3) (tol : Rat) : Except Err (List Nat) :=
  match pts with
  | [] => .error .index
  | [_] => .ok [0]
  | _ =>
    if !pointsAreCollinear pts tol then .error .assertion else
    match lineKeys pts with
    | none => .error .assertion
    | some (keys, T) =>
      if T = (0, 0, 0) then .error .assertion else
      let ext := maxL keys - minL keys
      if ext * ext ≤ tol * tol * nsq3 T then .error .assertion else
      .ok ((sortByKey (enumFrom' 0 keys)).map (·.1))

/-! ### sort_point_plane, points in a plane z = const -/

/-- where `θ = arctan2(x, y) ∈ (-π, π]` lies: 0: `(-π, 0)` (x < 0); 1: `θ = 0` (x = 0, y ≥ 0);
    2: `(0, π)` (x > 0); 3: `θ = π` (x = 0, y < 0) -/
def angRegion (u : P2) : Nat :=
  if u.1 < 0 then 0 else if 0 < u.1 then 2 else if u.2 < 0 then 3 else 1

/-- `arctan2(u.x, u.y) < arctan2(w.x, w.y)`, decided exactly: by region, and inside an open half
    plane by the sign of the cross product (θ grows clockwise) -/
def angLt (u w : P2) : Bool :=
  decide (angRegion u < angRegion w)
    || (angRegion u == angRegion w && (angRegion u == 0 || angRegion u == 2) && decide (cross2 u w < 0))

def insertByAngle (x : Nat × P2) : List (Nat × P2) → List (Nat × P2)
  | [] => [x]
  | y :: l => if angLt y.2 x.2 then y :: insertByAngle x l else x :: y :: l

def sortByAngle : List (Nat × P2) → List (Nat × P2)
  | [] => []
  | x :: l => insertByAngle x (sortByAngle l)

/-- sort_point_plane for points and centre in a plane `z = const` (normal `± e_z`, so that
    `project_plane_matrix` is the identity and the active coordinates are x, y):
    `argsort(arctan2(x - c.x, y - c.y))` -/
def sortPointPlaneXY (pts : List P2) (c : P2) : List Nat :=
  (sortByAngle (enumFrom' 0 (pts.map (fun p => sub2 p c)))).map (·.1)

/-! ### specification vocabulary (used in the statements of Props.lean) -/

def dot2 (a b : P2) : Rat := a.1 * b.1 + a.2 * b.2

/-- the rational is an integer (integer-coordinate inputs of the property) -/
def IsInt (x : Rat) : Prop := ∃ z : Int, x = (z : Rat)
def IsInt2 (p : P2) : Prop := IsInt p.1 ∧ IsInt p.2
def IsInt3 (p : P3) : Prop := IsInt p.1 ∧ IsInt p.2.1 ∧ IsInt p.2.2

/-- every line starts where the previous one ended, the first one at `prev` -/
def ChainedFrom (prev : Int) : List Line → Prop
  | [] => True
  | a :: t => a.1 = prev ∧ ChainedFrom a.2 t

/-- consecutive lines share a node -/
def Chained : List Line → Prop
  | [] => True
  | a :: t => ChainedFrom a.2 t

/-- the placed line is input column `idx`, flipped or not as recorded -/
def Placed.FromInput (lines : List Line) (r : Placed) : Prop :=
  ∃ l, lines[r.idx]? = some l ∧ r.line = (if r.flipped then flipL l else l)

/-- the nodes `a₀ a₁ … a_k` as the path of lines `(a₀,a₁), (a₁,a₂), …` -/
def pathLines : List Int → List Line
  | [] => []
  | [_] => []
  | a :: b :: t => (a, b) :: pathLines (b :: t)

/-- a line as an unordered pair -/
def normL (l : Line) : Line := if l.1 ≤ l.2 then l else (l.2, l.1)

/-! #### crossing numbers of the upward vertical ray (edges translated by `-p`) -/

/-- the edge crosses the vertical line through the origin from left to right / right to left -/
def isLR (e : P2 × P2) : Bool := decide (e.1.1 < 0) && decide (0 < e.2.1)
def isRL (e : P2 × P2) : Bool := decide (e.2.1 < 0) && decide (0 < e.1.1)

/-- … and does so ABOVE the origin.  For a left-to-right edge `a → b` the crossing height is
    `a.y + (0 - a.x)(b.y - a.y)/(b.x - a.x) = -(a × b)/(b.x - a.x)`, positive iff `a × b < 0`
    (`intercept_pos_iff` in Lemmas.lean); for a right-to-left edge iff `a × b > 0`. -/
def upLR1 (e : P2 × P2) : Int := if isLR e && decide (cross2 e.1 e.2 < 0) then 1 else 0
def upRL1 (e : P2 × P2) : Int := if isRL e && decide (0 < cross2 e.1 e.2) then 1 else 0
def straddle1 (e : P2 × P2) : Int := if isLR e || isRL e then 1 else 0

/-- number of left-to-right / right-to-left crossings of the open upward ray; their sum is the
    crossing number of the ray, their difference its signed crossing number -/
def upLR (es : List (P2 × P2)) : Int := isum (es.map upLR1)
def upRL (es : List (P2 × P2)) : Int := isum (es.map upRL1)
/-- number of edges met by the vertical line through the origin -/
def straddleCount (es : List (P2 × P2)) : Int := isum (es.map straddle1)

/-- the edges of `poly` seen from `p` -/
def edgesFrom (poly : List P2) (p : P2) : List (P2 × P2) := cycPairs (poly.map (fun v => sub2 v p))

/-! #### decidable input conditions of the point_in_polygon theorems (evaluated by the driver on every case) -/

/-- generic position w.r.t. the vertical line through `p`, `p` on no edge meeting it, at most two edges met -/
def pipGeneric (poly : List P2) (p : P2) : Bool :=
  decide (∀ v ∈ poly, v.1 ≠ p.1)
    && decide (∀ e ∈ edgesFrom poly p, (isLR e || isRL e) = true → cross2 e.1 e.2 ≠ 0)

def pipKernel (poly : List P2) (p : P2) (s : Rat) : Bool :=
  decide (∀ e ∈ cycPairs poly, 0 < s * cross2 (sub2 e.1 p) (sub2 e.2 p))

def isConvexCcw (poly : List P2) : Bool :=
  decide (∀ e ∈ cycPairs poly, ∀ v ∈ poly, 0 ≤ cross2 (sub2 e.2 e.1) (sub2 v e.1))

def evenOddUp (poly : List P2) (p : P2) : Bool :=
  decide ((upLR (edgesFrom poly p) + upRL (edgesFrom poly p)) % 2 = 1)

/-- the answer that the theorems of Props.lean PROVE for this input (`none`: not covered by a theorem,
    the case is tied by correspondence and oracle only) -/
def pipProvedAnswer (poly : List P2) (p : P2) : Option Bool :=
  if poly.isEmpty then none
  else if pipKernel poly p 1 || pipKernel poly p (-1) then some true
  else if pipGeneric poly p && decide (straddleCount (edgesFrom poly p) ≤ 2) then some (evenOddUp poly p)
  else if pipGeneric poly p && evenOddUp poly p then some true
  else if isConvexCcw poly && (cycPairs poly).any (fun e => decide (cross2 (sub2 e.1 p) (sub2 e.2 p) < 0))
    then some false
  else none

/-! #### decidable input conditions of collinear_spec / planar_spec -/

def isIntB (x : Rat) : Bool := x.den == 1
def isInt3B (p : P3) : Bool := isIntB p.1 && isIntB p.2.1 && isIntB p.2.2

/-- the answer PROVED by `collinear_spec` (integer points, tolerance below the band bound) -/
def collinearProvedAnswer (pts : List P3) (tol : Rat) : Option Bool :=
  match pts with
  | [] => none
  | p0 :: _ =>
    if pts.all isInt3B && decide (0 ≤ tol) && decide (tol * tol * maxPairSq pts 1 < 1) then
      some (decide (∀ p ∈ pts, ∀ q ∈ pts, cross3 (sub3 p p0) (sub3 q p0) = (0, 0, 0)))
    else none

/-- the answer PROVED by `planar_spec` (integer normal and points, tolerance below the band bound) -/
def planarProvedAnswer (N : P3) (pts : List P3) (tol : Rat) : Option Bool :=
  match pts with
  | [] => none
  | p0 :: _ =>
    if isInt3B N && decide (N ≠ (0, 0, 0)) && pts.all isInt3B && decide (0 ≤ tol)
        && decide (tol * tol * ((pts.length : Rat) * (pts.length : Rat)) * nsq3 N < 1) then
      some (decide (∀ p ∈ pts, dot3 N (sub3 p p0) = 0))
    else none

end PorepyVerif.C31
