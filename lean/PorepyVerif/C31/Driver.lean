/- C31 line-protocol driver: `lake env lean --run PorepyVerif/C31/Driver.lean` -/
import PorepyVerif.Common.Wire
import PorepyVerif.C31.Model
open Lean PV PorepyVerif.C31

def toP2 (l : List Rat) : R P2 :=
  match l with
  | [a, b] => pure (a, b)
  | _ => throw "point is not 2-d"

def toP3 (l : List Rat) : R P3 :=
  match l with
  | [a, b, c] => pure (a, b, c)
  | _ => throw "point is not 3-d"

def toLine (l : List Int) : R Line :=
  match l with
  | [a, b] => pure (a, b)
  | _ => throw "line is not a pair"

def fP2s (j : Json) (k : String) : R (List P2) := do (← fRatss j k).mapM toP2
def fP3s (j : Json) (k : String) : R (List P3) := do (← fRatss j k).mapM toP3

def errJson : Err → Json
  | .value => err "ValueError"
  | .runtime => err "RuntimeError"
  | .index => err "IndexError"
  | .assertion => err "AssertionError"

def ofBools (l : List Bool) : Json := ofList Json.bool l
def ofLine (l : Line) : Json := ofInts [l.1, l.2]

def step (j : Json) : R Json := do
  let op ← fStr j "op"
  match op with
  | "skip" => pure (Json.str "oracle-only")
  | "ccw_polyline" =>
    let p1 ← toP2 (← fRats j "p1")
    let p2 ← toP2 (← fRats j "p2")
    let p3 ← fP2s j "p3"
    let tol ← fRat j "tol"
    let d ← fBool j "default"
    pure (obj [("r", ofBools (p3.map (fun q => isCcwPolyline p1 p2 q tol d)))])
  | "ccw_polygon" =>
    let poly ← fP2s j "poly"
    pure (obj [("r", Json.bool (isCcwPolygon poly))])
  | "pip" =>
    let poly ← fP2s j "poly"
    let pts ← fP2s j "pts"
    let d ← fBool j "default"
    pure (obj [("r", ofBools (pts.map (fun q => pointInPolygon poly q d))),
               ("proved", ofList (ofOpt Json.bool) (pts.map (fun q => pipProvedAnswer poly q)))])
  | "cell" =>
    let poly ← fP2s j "poly"
    let pts ← fP2s j "pts"
    pure (obj [("r", ofBools (pts.map (fun q => pointInCell poly q)))])
  | "collinear" =>
    let pts ← fP3s j "pts"
    let tol ← fRat j "tol"
    pure (obj [("r", Json.bool (pointsAreCollinear pts tol)), ("proved", ofOpt Json.bool (collinearProvedAnswer pts tol))])
  | "planar" =>
    let pts ← fP3s j "pts"
    let tol ← fRat j "tol"
    let ntol ← fRat j "ntol"
    let nj ← field j "normal"
    let normal ← match nj with
      | .null => pure none
      | _ => do pure (some (← toP3 (← jList jRat nj)))
    match pointsArePlanar pts normal tol ntol with
    | .error e => pure (errJson e)
    | .ok b =>
      let proved := match normal with
        | some N => planarProvedAnswer N pts tol
        | none => none
      pure (obj [("r", Json.bool b), ("proved", ofOpt Json.bool proved)])
  | "half_space" =>
    let rows ← fNats j "rows"
    let n ← fRatss j "n"
    let x0 ← fRatss j "x0"
    let pts ← fRatss j "pts"
    if rows.any (· != 3) then pure (err "ValueError") else
    if n.length != x0.length then pure (err "ValueError") else
    let n ← n.mapM toP3
    let x0 ← x0.mapM toP3
    let pts ← pts.mapM toP3
    pure (obj [("r", ofBools (pts.map (fun q => insideHalfSpaces (n.zip x0) q)))])
  | "hanging" =>
    let p ← fP3s j "p"
    let edges ← fNatss j "edges"
    let tol ← fRat j "tol"
    let vs ← edges.mapM (fun e => match e with
      | [a, b] => match p[a]?, p[b]? with
        | some pa, some pb => pure (sub3 pb pa)
        | _, _ => throw "edge index out of range"
      | _ => throw "edge is not a pair")
    pure (obj [("r", ofNats (hangingNodes vs tol))])
  | "sort_pairs" =>
    let lines ← (← fIntss j "lines").mapM toLine
    let check ← fBool j "check"
    let circ ← fBool j "circular"
    match sortPointPairs lines check circ with
    | .error e => pure (errJson e)
    | .ok out => pure (obj [("lines", ofList ofLine (out.map (·.line))), ("ind", ofNats (out.map (·.idx)))])
  | "sort_line" =>
    let pts ← fP3s j "pts"
    let tol ← fRat j "tol"
    match sortPointsOnLine pts tol with
    | .error e => pure (errJson e)
    | .ok out => pure (obj [("r", ofNats out)])
  | "sort_plane_xy" =>
    let pts ← fP2s j "pts"
    let c ← toP2 (← fRats j "centre")
    pure (obj [("r", ofNats (sortPointPlaneXY pts c))])
  | "sort_multi" =>
    let chains ← field j "chains" >>= jList (jList (jList jInt))
    let chains ← chains.mapM (fun c => c.mapM toLine)
    pure (obj [("chains", ofList (ofList ofLine) (chains.map sortMultiChain))])
  | _ => throw s!"unknown op {op}"

def main : IO Unit := runPure step
