/-
C24 — executable model of `porepy.grids.md_grid.MixedDimensionalGrid` as a container
(core Lean only).

Objects are abstracted to their creation ids.  A `Universe` fixes, for every id, the
attributes the container reads: the dimension of the grid with that id, and the dimension /
codimension attribute of the mortar grid with that id (`Grid.id`, `MortarGrid.id`,
`BoundaryGrid.id` are class-level creation counters; object identity = id).

State = the dictionaries of the class, as association lists in *dict insertion order*:

* `sds`    keys of `_subdomain_data`
* `pairs`  `_interface_to_subdomains` (interface ↦ stored pair).  `_interface_data` has the same
           keys in the same order in every state the repaired code reaches, so it is stored once.
* `bgs`    `_subdomain_to_boundary_grid` (subdomain ↦ boundary-grid id); `_boundary_grid_data`
           has the boundary grids of these entries as keys, in the same order.
* `nextBg` boundary grids are created *inside* the container, so their creation counter is state.

The model follows the property, i.e. the code with the four small repairs proposed in
/verif/fixes/C24-*.diff (validation before mutation in `add_interface`, duplicate check inside
one `add_subdomains` call, `remove_subdomain` / `replace…` on a subdomain that carries an
interface to itself).  Everything else is branch for branch what md_grid.py does.
-/
namespace PorepyVerif.C24

structure Universe where
  sdDim : Nat → Nat
  ifDim : Nat → Nat
  ifCodim : Nat → Nat

inductive Err where
  | valueError | keyError | assertionError | indexError
  deriving DecidableEq, Repr

/-- stored interface entry: (interface, first, second) -/
abbrev Entry := Nat × Nat × Nat

structure State where
  sds : List Nat
  pairs : List Entry
  bgs : List (Nat × Nat)
  nextBg : Nat
  deriving DecidableEq, Repr

def State.empty : State := ⟨[], [], [], 0⟩

/-- keys of `_interface_data` -/
def State.intfs (s : State) : List Nat := s.pairs.map (·.1)

/-! ### `argsort_grids` -/

def insertById {α : Type} (idOf : α → Nat) (x : α) : List α → List α
  | [] => [x]
  | y :: l => if idOf x ≤ idOf y then x :: y :: l else y :: insertById idOf x l

/-- `np.argsort(ids_dim)` applied to the grids of one dimension (insertion sort: structural) -/
def sortById {α : Type} (idOf : α → Nat) : List α → List α
  | [] => []
  | x :: l => insertById idOf x (sortById idOf l)

/-- the loop `for dim in np.arange(self.dim_max(), -1, -1)`: grids of dimension `d`, sorted by id,
    then the lower dimensions.  Grids of dimension above `d` are silently dropped (as in the code). -/
def argsortFrom {α : Type} (dimOf idOf : α → Nat) : Nat → List α → List α
  | 0, xs => sortById idOf (xs.filter (fun x => dimOf x == 0))
  | d + 1, xs => sortById idOf (xs.filter (fun x => dimOf x == d + 1)) ++ argsortFrom dimOf idOf d xs

/-- `dim_max()` (0 for the empty list, where the code raises; callers test emptiness first) -/
def dimMax (U : Universe) : List Nat → Nat
  | [] => 0
  | g :: l => max (U.sdDim g) (dimMax U l)

/-- `argsort_grids` followed by `[grids[i] for i in inds]`.  With no subdomains the code asserts
    that the list to be sorted is empty. -/
def sortGrids {α : Type} (U : Universe) (s : State) (dimOf idOf : α → Nat) (xs : List α) :
    Except Err (List α) :=
  match s.sds with
  | [] => if xs.isEmpty then .ok [] else .error .assertionError
  | _ :: _ => .ok (argsortFrom dimOf idOf (dimMax U s.sds) xs)

def optMatch (o : Option Nat) (v : Nat) : Bool :=
  match o with
  | none => true
  | some d => d == v

/-! ### queries -/

/-- `subdomains(dim=…)` -/
def listSubdomains (U : Universe) (s : State) (dim : Option Nat) : Except Err (List Nat) :=
  sortGrids U s U.sdDim id (s.sds.filter (fun g => optMatch dim (U.sdDim g)))

/-- `interfaces(dim=…, codim=…)` -/
def listInterfaces (U : Universe) (s : State) (dim codim : Option Nat) : Except Err (List Nat) :=
  sortGrids U s U.ifDim id
    (s.intfs.filter (fun i => optMatch dim (U.ifDim i) && optMatch codim (U.ifCodim i)))

/-- dimension of the boundary grid of subdomain `b.1` -/
def bgDim (U : Universe) (b : Nat × Nat) : Nat := U.sdDim b.1 - 1

/-- `boundaries(dim=…)`: entries (parent subdomain, boundary-grid id) -/
def listBoundaries (U : Universe) (s : State) (dim : Option Nat) : Except Err (List (Nat × Nat)) :=
  if !s.sds.isEmpty && s.bgs.isEmpty then .error .valueError
  else sortGrids U s (bgDim U) (·.2) (s.bgs.filter (fun b => optMatch dim (bgDim U b)))

def lookup {β : Type} (k : Nat) : List (Nat × β) → Option β
  | [] => none
  | p :: l => if p.1 == k then some p.2 else lookup k l

/-- `sort_subdomain_tuple`: `inds = argsort_grids(pair); (pair[inds[0]], pair[inds[1]])` -/
def sortPair (U : Universe) (s : State) (a b : Nat) : Except Err (Nat × Nat) :=
  match sortGrids U s U.sdDim id [a, b] with
  | .error e => .error e
  | .ok [x, y] => .ok (x, y)
  | .ok _ => .error .indexError

/-- `interface_to_subdomain_pair` -/
def pairOf (U : Universe) (s : State) (i : Nat) : Except Err (Nat × Nat) :=
  match lookup i s.pairs with
  | none => .error .keyError
  | some (a, b) => sortPair U s a b

/-- `{v: k for k, v in _interface_to_subdomains.items()}[(a, b)]`: the last entry wins -/
def revLookup (a b : Nat) : List Entry → Option Nat
  | [] => none
  | p :: l =>
    match revLookup a b l with
    | some i => some i
    | none => if p.2.1 == a && p.2.2 == b then some p.1 else none

/-- `subdomain_pair_to_interface` -/
def intfOfPair (s : State) (a b : Nat) : Except Err Nat :=
  match revLookup a b s.pairs with
  | some i => .ok i
  | none =>
    match revLookup b a s.pairs with
    | some i => .ok i
    | none => .error .keyError

def touches (g : Nat) (p : Entry) : Bool := p.2.1 == g || p.2.2 == g

/-- `subdomain_to_interfaces` -/
def intfsOfSd (U : Universe) (s : State) (g : Nat) : Except Err (List Nat) :=
  sortGrids U s U.ifDim id ((s.pairs.filter (touches g)).map (·.1))

def otherEnd (g : Nat) (p : Entry) : Option Nat :=
  if p.2.1 == g then some p.2.2 else if p.2.2 == g then some p.2.1 else none

/-- `neighboring_subdomains` -/
def neighbours (U : Universe) (s : State) (g : Nat) (onlyHigher onlyLower : Bool) :
    Except Err (List Nat) :=
  let neigh := s.pairs.filterMap (otherEnd g)
  if onlyHigher && onlyLower then .error .valueError
  else
    let neigh :=
      if onlyHigher then neigh.filter (fun h => U.sdDim g < U.sdDim h)
      else if onlyLower then neigh.filter (fun h => U.sdDim h < U.sdDim g)
      else neigh
    sortGrids U s U.sdDim id neigh

/-- `subdomain_to_boundary_grid` -/
def bgOfSd (s : State) (g : Nat) : Option Nat := lookup g s.bgs

/-! ### mutators -/

/-- one iteration of the two loops of `add_subdomains` (they touch disjoint dictionaries) -/
def addOne (U : Universe) (s : State) (g : Nat) : State :=
  if 0 < U.sdDim g then
    { s with sds := s.sds ++ [g], bgs := s.bgs ++ [(g, s.nextBg)], nextBg := s.nextBg + 1 }
  else { s with sds := s.sds ++ [g] }

def hasDup : List Nat → Bool
  | [] => false
  | x :: l => l.contains x || hasDup l

/-- `add_subdomains` (repaired: a grid listed twice in one call is rejected like a present one) -/
def addSubdomains (U : Universe) (s : State) (gs : List Nat) : Except Err State :=
  if gs.any (fun g => s.sds.contains g) then .error .valueError
  else if hasDup gs then .error .valueError
  else .ok (gs.foldl (addOne U) s)

/-- `add_interface` (repaired: nothing is stored before all checks have passed) -/
def addInterface (U : Universe) (s : State) (i : Nat) (pair : List Nat) : Except Err State :=
  match pair with
  | [a, b] =>
    if s.intfs.contains i then .error .valueError
    else if 3 ≤ (U.sdDim a - U.sdDim b) + (U.sdDim b - U.sdDim a) then .error .valueError
    else
      match sortPair U s a b with
      | .error e => .error e
      | .ok (x, y) => .ok { s with pairs := s.pairs ++ [(i, x, y)] }
  | _ => .error .valueError

/-- `remove_subdomain` (repaired: the interfaces to delete are found from the stored pairs, not
    from the sorted listing computed after the subdomain has gone) -/
def removeSubdomain (s : State) (g : Nat) : Except Err State :=
  if !s.sds.contains g then .error .keyError
  else .ok { s with
    sds := s.sds.filter (· != g)
    pairs := s.pairs.filter (fun p => !touches g p)
    bgs := s.bgs.filter (fun b => b.1 != g) }

/-- (higher, lower) ordering of two subdomains that `argsort_grids` produces -/
def sort2 (U : Universe) (a b : Nat) : Nat × Nat :=
  if U.sdDim a < U.sdDim b then (b, a)
  else if U.sdDim b < U.sdDim a then (a, b)
  else if a ≤ b then (a, b) else (b, a)

def sub (old new x : Nat) : Nat := if x == old then new else x

/-- loop body of `replace_subdomains_and_interfaces` for one interface: the *sorted* pair with
    `old` replaced is stored (repaired: in both positions for an interface from `old` to itself) -/
def replaceEntry (U : Universe) (old new : Nat) (p : Entry) : Entry :=
  if touches old p then
    let q := sort2 U p.2.1 p.2.2
    (p.1, sub old new q.1, sub old new q.2)
  else p

/-- calls into the mortar grids made by `replace…` (their effect is outside the container) -/
inductive Call where
  | mortar (i : Nat)
  | primary (i new old : Nat)
  | secondary (i new : Nat)
  deriving DecidableEq, Repr

def callsFor (U : Universe) (s : State) (old new : Nat) (i : Nat) : List Call :=
  match lookup i s.pairs with
  | none => []
  | some (a, b) =>
    let q := sort2 U a b
    (if q.1 == old then [Call.primary i new old] else []) ++
    (if q.2 == old then [Call.secondary i new] else [])

/-- one `sd_old ↦ sd_new` item of `replace_subdomains_and_interfaces`.
    Pairs are re-sorted with `sort2`; in the code this is `interface_to_subdomain_pair`, which
    cannot fail when both stored subdomains are present (lemma `sortPair_eq_sort2`). -/
def replace1 (U : Universe) (s : State) (old new : Nat) : Except Err (State × List Call) :=
  if !s.sds.contains old then .error .keyError
  else
    let sds1 := if s.sds.contains new then s.sds else s.sds ++ [new]
    let order := argsortFrom U.ifDim id (dimMax U sds1) ((s.pairs.filter (touches old)).map (·.1))
    let calls := order.flatMap (callsFor U s old new)
    let pairs' := s.pairs.map (replaceEntry U old new)
    let sds' := sds1.filter (· != old)
    if s.bgs.any (fun b => b.1 == old) then
      .ok ({ sds := sds', pairs := pairs',
             bgs := (s.bgs ++ [(new, s.nextBg)]).filter (fun b => b.1 != old),
             nextBg := s.nextBg + 1 }, calls)
    else .ok ({ s with sds := sds', pairs := pairs' }, calls)

/-- the `sd_map` loop: items are applied one after the other; the first failing item stops the
    call and leaves the earlier items applied (as in the code) -/
def replaceMany (U : Universe) (s : State) : List (Nat × Nat) → State × Option Err × List Call
  | [] => (s, none, [])
  | (old, new) :: rest =>
    match replace1 U s old new with
    | .error e => (s, some e, [])
    | .ok (s', c) =>
      let r := replaceMany U s' rest
      (r.1, r.2.1, c ++ r.2.2)

inductive Op where
  | addSubdomains (gs : List Nat)
  | addInterface (i : Nat) (pair : List Nat)
  | removeSubdomain (g : Nat)
  /-- `interface_map` keys (mortar grids updated in place) and the `sd_map` items -/
  | replace (intfMap : List Nat) (sdMap : List (Nat × Nat))
  deriving Repr

structure Result where
  state : State
  err : Option Err
  calls : List Call

def step (U : Universe) (s : State) : Op → Result
  | .addSubdomains gs =>
    match addSubdomains U s gs with
    | .ok s' => ⟨s', none, []⟩
    | .error e => ⟨s, some e, []⟩
  | .addInterface i pair =>
    match addInterface U s i pair with
    | .ok s' => ⟨s', none, []⟩
    | .error e => ⟨s, some e, []⟩
  | .removeSubdomain g =>
    match removeSubdomain s g with
    | .ok s' => ⟨s', none, []⟩
    | .error e => ⟨s, some e, []⟩
  | .replace im sm =>
    let r := replaceMany U s sm
    ⟨r.1, r.2.1, im.map Call.mortar ++ r.2.2⟩

def run (U : Universe) (s : State) : List Op → State
  | [] => s
  | op :: ops => run U (step U s op).state ops

/-! ### well-formed use (explicit, decidable preconditions of the property theorems) -/

/-- items of one `sd_map`: the new grid is a fresh object of the same dimension as the old one -/
def wfReplace (U : Universe) (s : State) : List (Nat × Nat) → Bool
  | [] => true
  | (old, new) :: rest =>
    match replace1 U s old new with
    | .error _ => true
    | .ok (s', _) => !s.sds.contains new && U.sdDim new == U.sdDim old && wfReplace U s' rest

/-- An interface is added between two *present* subdomains and its mortar grid is not of higher
    dimension than either of them; replacement grids are fresh and keep the dimension.  Nothing is
    required of calls the container rejects, nor of `add_subdomains` / `remove_subdomain`. -/
def wfOp (U : Universe) (s : State) : Op → Bool
  | .addSubdomains _ => true
  | .addInterface i [a, b] =>
    match addInterface U s i [a, b] with
    | .error _ => true
    | .ok _ =>
      s.sds.contains a && s.sds.contains b && decide (U.ifDim i ≤ U.sdDim a) &&
        decide (U.ifDim i ≤ U.sdDim b)
  | .addInterface _ _ => true
  | .removeSubdomain _ => true
  | .replace _ sm => wfReplace U s sm

def wfHist (U : Universe) (s : State) : List Op → Bool
  | [] => true
  | op :: ops => wfOp U s op && wfHist U (step U s op).state ops

end PorepyVerif.C24
