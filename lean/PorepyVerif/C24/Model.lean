/-
C24 — executable model of `porepy.grids.md_grid.MixedDimensionalGrid` as a container
(core Lean only).

Objects are abstracted to their creation ids.  A `Universe` fixes, for every id, the
attributes the container reads: the dimension of the grid with that id, and the dimension /
codimension attribute of the mortar grid with that id (`Grid.id`, `MortarGrid.id`,
`BoundaryGrid.id` are class-level creation counters; object identity = id).

State = the dictionaries of the class, as association lists in *dict insertion order*:

* `sds`    keys of `_subdomain_data`
* `pairs`  `_interface_to_subdomains` (interface ↦ stored pair).  `_interface_data` has the same
           keys in the same order in every state the repaired code reaches, so it is stored once.
* `bgs`    `_subdomain_to_boundary_grid` (subdomain ↦ boundary-grid id); `_boundary_grid_data`
           has the boundary grids of these entries as keys, in the same order.
* `nextBg` boundary grids are created *inside* the container, so their creation counter is state.

The model is branch for branch what md_grid.py does NOW (after the `fix:` commits: validation
before mutation in `add_interface`, duplicate check inside one `add_subdomains` call,
`remove_subdomain` / `replace…` on a subdomain that carries an interface to itself), with one
repair still open (fixes/C24-replace-exception-safe.diff): an `sd_map` item whose mortar update
raises leaves the container as it was (the code as it stands leaves it half-updated).

Layers: `State` (graph), `DState` (graph + identity of the data dictionaries), `World`
(several containers produced by `copy()`, sharing objects and the class-level id counters).
-/
namespace PorepyVerif.C24

structure Universe where
  sdDim : Nat → Nat
  ifDim : Nat → Nat
  ifCodim : Nat → Nat

inductive Err where
  | valueError | keyError | assertionError | indexError | notImplementedError
  deriving DecidableEq, Repr

/-- stored interface entry: (interface, first, second) -/
abbrev Entry := Nat × Nat × Nat

structure State where
  sds : List Nat
  pairs : List Entry
  bgs : List (Nat × Nat)
  nextBg : Nat
  deriving DecidableEq, Repr

def State.empty : State := ⟨[], [], [], 0⟩

/-- keys of `_interface_data` -/
def State.intfs (s : State) : List Nat := s.pairs.map (·.1)

/-! ### `argsort_grids` -/

def insertById {α : Type} (idOf : α → Nat) (x : α) : List α → List α
  | [] => [x]
  | y :: l => if idOf x ≤ idOf y then x :: y :: l else y :: insertById idOf x l

/-- `np.argsort(ids_dim)` applied to the grids of one dimension (insertion sort: structural) -/
def sortById {α : Type} (idOf : α → Nat) : List α → List α
  | [] => []
  | x :: l => insertById idOf x (sortById idOf l)

/-- the loop `for dim in np.arange(self.dim_max(), -1, -1)`: grids of dimension `d`, sorted by id,
    then the lower dimensions.  Grids of dimension above `d` are silently dropped (as in the code). -/
def argsortFrom {α : Type} (dimOf idOf : α → Nat) : Nat → List α → List α
  | 0, xs => sortById idOf (xs.filter (fun x => dimOf x == 0))
  | d + 1, xs => sortById idOf (xs.filter (fun x => dimOf x == d + 1)) ++ argsortFrom dimOf idOf d xs

/-- `dim_max()` (0 for the empty list, where the code raises; callers test emptiness first) -/
def dimMax (U : Universe) : List Nat → Nat
  | [] => 0
  | g :: l => max (U.sdDim g) (dimMax U l)

/-- `argsort_grids` followed by `[grids[i] for i in inds]`.  With no subdomains the code asserts
    that the list to be sorted is empty. -/
def sortGrids {α : Type} (U : Universe) (s : State) (dimOf idOf : α → Nat) (xs : List α) :
    Except Err (List α) :=
  match s.sds with
  | [] => if xs.isEmpty then .ok [] else .error .assertionError
  | _ :: _ => .ok (argsortFrom dimOf idOf (dimMax U s.sds) xs)

def optMatch (o : Option Nat) (v : Nat) : Bool :=
  match o with
  | none => true
  | some d => d == v

/-! ### queries -/

/-- `subdomains(dim=…)` -/
def listSubdomains (U : Universe) (s : State) (dim : Option Nat) : Except Err (List Nat) :=
  sortGrids U s U.sdDim id (s.sds.filter (fun g => optMatch dim (U.sdDim g)))

/-- `interfaces(dim=…, codim=…)` -/
def listInterfaces (U : Universe) (s : State) (dim codim : Option Nat) : Except Err (List Nat) :=
  sortGrids U s U.ifDim id
    (s.intfs.filter (fun i => optMatch dim (U.ifDim i) && optMatch codim (U.ifCodim i)))

/-- dimension of the boundary grid of subdomain `b.1` -/
def bgDim (U : Universe) (b : Nat × Nat) : Nat := U.sdDim b.1 - 1

/-- `boundaries(dim=…)`: entries (parent subdomain, boundary-grid id) -/
def listBoundaries (U : Universe) (s : State) (dim : Option Nat) : Except Err (List (Nat × Nat)) :=
  if !s.sds.isEmpty && s.bgs.isEmpty then .error .valueError
  else sortGrids U s (bgDim U) (·.2) (s.bgs.filter (fun b => optMatch dim (bgDim U b)))

def lookup {β : Type} (k : Nat) : List (Nat × β) → Option β
  | [] => none
  | p :: l => if p.1 == k then some p.2 else lookup k l

/-- `sort_subdomain_tuple`: `inds = argsort_grids(pair); (pair[inds[0]], pair[inds[1]])` -/
def sortPair (U : Universe) (s : State) (a b : Nat) : Except Err (Nat × Nat) :=
  match sortGrids U s U.sdDim id [a, b] with
  | .error e => .error e
  | .ok [x, y] => .ok (x, y)
  | .ok _ => .error .indexError

/-- `interface_to_subdomain_pair` -/
def pairOf (U : Universe) (s : State) (i : Nat) : Except Err (Nat × Nat) :=
  match lookup i s.pairs with
  | none => .error .keyError
  | some (a, b) => sortPair U s a b

/-- `{v: k for k, v in _interface_to_subdomains.items()}[(a, b)]`: the last entry wins -/
def revLookup (a b : Nat) : List Entry → Option Nat
  | [] => none
  | p :: l =>
    match revLookup a b l with
    | some i => some i
    | none => if p.2.1 == a && p.2.2 == b then some p.1 else none

/-- `subdomain_pair_to_interface` -/
def intfOfPair (s : State) (a b : Nat) : Except Err Nat :=
  match revLookup a b s.pairs with
  | some i => .ok i
  | none =>
    match revLookup b a s.pairs with
    | some i => .ok i
    | none => .error .keyError

def touches (g : Nat) (p : Entry) : Bool := p.2.1 == g || p.2.2 == g

/-- `subdomain_to_interfaces` -/
def intfsOfSd (U : Universe) (s : State) (g : Nat) : Except Err (List Nat) :=
  sortGrids U s U.ifDim id ((s.pairs.filter (touches g)).map (·.1))

def otherEnd (g : Nat) (p : Entry) : Option Nat :=
  if p.2.1 == g then some p.2.2 else if p.2.2 == g then some p.2.1 else none

/-- `neighboring_subdomains` -/
def neighbours (U : Universe) (s : State) (g : Nat) (onlyHigher onlyLower : Bool) :
    Except Err (List Nat) :=
  let neigh := s.pairs.filterMap (otherEnd g)
  if onlyHigher && onlyLower then .error .valueError
  else
    let neigh :=
      if onlyHigher then neigh.filter (fun h => U.sdDim g < U.sdDim h)
      else if onlyLower then neigh.filter (fun h => U.sdDim h < U.sdDim g)
      else neigh
    sortGrids U s U.sdDim id neigh

/-- `subdomain_to_boundary_grid` -/
def bgOfSd (s : State) (g : Nat) : Option Nat := lookup g s.bgs

/-! ### mutators -/

/-- one iteration of the two loops of `add_subdomains` (they touch disjoint dictionaries) -/
def addOne (U : Universe) (s : State) (g : Nat) : State :=
  if 0 < U.sdDim g then
    { s with sds := s.sds ++ [g], bgs := s.bgs ++ [(g, s.nextBg)], nextBg := s.nextBg + 1 }
  else { s with sds := s.sds ++ [g] }

def hasDup : List Nat → Bool
  | [] => false
  | x :: l => l.contains x || hasDup l

/-- `add_subdomains` (a grid listed twice in one call is rejected like a present one) -/
def addSubdomains (U : Universe) (s : State) (gs : List Nat) : Except Err State :=
  if gs.any (fun g => s.sds.contains g) then .error .valueError
  else if hasDup gs then .error .valueError
  else .ok (gs.foldl (addOne U) s)

/-- `add_interface` (nothing is stored before all checks have passed) -/
def addInterface (U : Universe) (s : State) (i : Nat) (pair : List Nat) : Except Err State :=
  match pair with
  | [a, b] =>
    if s.intfs.contains i then .error .valueError
    else if 3 ≤ (U.sdDim a - U.sdDim b) + (U.sdDim b - U.sdDim a) then .error .valueError
    else
      match sortPair U s a b with
      | .error e => .error e
      | .ok (x, y) => .ok { s with pairs := s.pairs ++ [(i, x, y)] }
  | _ => .error .valueError

/-- `remove_subdomain` (the interfaces to delete are found from the stored pairs) -/
def removeSubdomain (s : State) (g : Nat) : Except Err State :=
  if !s.sds.contains g then .error .keyError
  else .ok { s with
    sds := s.sds.filter (· != g)
    pairs := s.pairs.filter (fun p => !touches g p)
    bgs := s.bgs.filter (fun b => b.1 != g) }

/-- (higher, lower) ordering of two subdomains that `argsort_grids` produces -/
def sort2 (U : Universe) (a b : Nat) : Nat × Nat :=
  if U.sdDim a < U.sdDim b then (b, a)
  else if U.sdDim b < U.sdDim a then (a, b)
  else if a ≤ b then (a, b) else (b, a)

def sub (old new x : Nat) : Nat := if x == old then new else x

/-- loop body of `replace_subdomains_and_interfaces` for one interface: the *sorted* pair with
    `old` replaced is stored (in both positions for an interface from `old` to itself) -/
def replaceEntry (U : Universe) (old new : Nat) (p : Entry) : Entry :=
  if touches old p then
    let q := sort2 U p.2.1 p.2.2
    (p.1, sub old new q.1, sub old new q.2)
  else p

/-- calls into the mortar grids made by `replace…` (their effect is outside the container) -/
inductive Call where
  | mortar (i : Nat)
  | primary (i new old : Nat)
  | secondary (i new : Nat)
  deriving DecidableEq, Repr

def callsFor (U : Universe) (s : State) (old new : Nat) (i : Nat) : List Call :=
  match lookup i s.pairs with
  | none => []
  | some (a, b) =>
    let q := sort2 U a b
    (if q.1 == old then [Call.primary i new old] else []) ++
    (if q.2 == old then [Call.secondary i new] else [])

/-- the dimension guards of `MortarGrid.update_primary` (implemented for mortar grids of dimension
    0 and 1 only) and `update_secondary` (the new grid must have the dimension of the mortar grid):
    these calls raise `NotImplementedError` whatever the geometry.  Failures that depend on the
    geometry (non-matching grids) are outside the model. -/
def callFails (U : Universe) : Call → Bool
  | .mortar _ => false
  | .primary i _ _ => decide (2 ≤ U.ifDim i)
  | .secondary i new => U.ifDim i != U.sdDim new

/-- the calls actually made: up to and including the first one that raises -/
def madeCalls (U : Universe) : List Call → List Call
  | [] => []
  | c :: l => if callFails U c then [c] else c :: madeCalls U l

/-- the mortar updates one `sd_old ↦ sd_new` item will attempt, in the order of the sorted list
    `subdomain_to_interfaces(sd_old)` -/
def plannedCalls (U : Universe) (s : State) (old new : Nat) : List Call :=
  (argsortFrom U.ifDim id (dimMax U s.sds) ((s.pairs.filter (touches old)).map (·.1))).flatMap
    (callsFor U s old new)

/-- the state after a completed item -/
def replaceState (U : Universe) (s : State) (old new : Nat) : State :=
  let sds' := (if s.sds.contains new then s.sds else s.sds ++ [new]).filter (· != old)
  let pairs' := s.pairs.map (replaceEntry U old new)
  if s.bgs.any (fun b => b.1 == old) then
    { sds := sds', pairs := pairs',
      bgs := (s.bgs ++ [(new, s.nextBg)]).filter (fun b => b.1 != old), nextBg := s.nextBg + 1 }
  else { s with sds := sds', pairs := pairs' }

/-- one `sd_old ↦ sd_new` item of `replace_subdomains_and_interfaces` (two stages: first the
    mortar updates and the new boundary grid, which may raise; then the dictionaries).
    Pairs are re-sorted with `sort2`; in the code this is `interface_to_subdomain_pair`, which
    cannot fail when both stored subdomains are present (lemma `sortPair_eq_sort2`).
    The error carries the mortar calls made before (and including) the one that raised. -/
def replace1 (U : Universe) (s : State) (old new : Nat) :
    Except (Err × List Call) (State × List Call) :=
  if !s.sds.contains old then .error (.keyError, [])
  else if (plannedCalls U s old new).any (callFails U) then
    .error (.notImplementedError, madeCalls U (plannedCalls U s old new))
  else .ok (replaceState U s old new, plannedCalls U s old new)

/-- the `sd_map` loop: items are applied one after the other; the first failing item stops the
    call and leaves the earlier items applied (as in the code) -/
def replaceMany (U : Universe) (s : State) : List (Nat × Nat) → State × Option Err × List Call
  | [] => (s, none, [])
  | (old, new) :: rest =>
    match replace1 U s old new with
    | .error (e, c) => (s, some e, c)
    | .ok (s', c) =>
      let r := replaceMany U s' rest
      (r.1, r.2.1, c ++ r.2.2)

inductive Op where
  | addSubdomains (gs : List Nat)
  | addInterface (i : Nat) (pair : List Nat)
  | removeSubdomain (g : Nat)
  /-- `interface_map` keys (mortar grids updated in place) and the `sd_map` items -/
  | replace (intfMap : List Nat) (sdMap : List (Nat × Nat))
  deriving Repr

structure Result where
  state : State
  err : Option Err
  calls : List Call

def step (U : Universe) (s : State) : Op → Result
  | .addSubdomains gs =>
    match addSubdomains U s gs with
    | .ok s' => ⟨s', none, []⟩
    | .error e => ⟨s, some e, []⟩
  | .addInterface i pair =>
    match addInterface U s i pair with
    | .ok s' => ⟨s', none, []⟩
    | .error e => ⟨s, some e, []⟩
  | .removeSubdomain g =>
    match removeSubdomain s g with
    | .ok s' => ⟨s', none, []⟩
    | .error e => ⟨s, some e, []⟩
  | .replace im sm =>
    let r := replaceMany U s sm
    ⟨r.1, r.2.1, im.map Call.mortar ++ r.2.2⟩

def run (U : Universe) (s : State) : List Op → State
  | [] => s
  | op :: ops => run U (step U s op).state ops

/-! ### well-formed use (explicit, decidable preconditions of the property theorems) -/

/-- items of one `sd_map`: the new grid is a fresh object of the same dimension as the old one -/
def wfReplace (U : Universe) (s : State) : List (Nat × Nat) → Bool
  | [] => true
  | (old, new) :: rest =>
    match replace1 U s old new with
    | .error _ => true
    | .ok (s', _) => !s.sds.contains new && U.sdDim new == U.sdDim old && wfReplace U s' rest

/-- An interface is added between two *present* subdomains and its mortar grid is not of higher
    dimension than either of them; replacement grids are fresh and keep the dimension.  Nothing is
    required of calls the container rejects, nor of `add_subdomains` / `remove_subdomain`. -/
def wfOp (U : Universe) (s : State) : Op → Bool
  | .addSubdomains _ => true
  | .addInterface i [a, b] =>
    match addInterface U s i [a, b] with
    | .error _ => true
    | .ok _ =>
      s.sds.contains a && s.sds.contains b && decide (U.ifDim i ≤ U.sdDim a) &&
        decide (U.ifDim i ≤ U.sdDim b)
  | .addInterface _ _ => true
  | .removeSubdomain _ => true
  | .replace _ sm => wfReplace U s sm

def wfHist (U : Universe) (s : State) : List Op → Bool
  | [] => true
  | op :: ops => wfOp U s op && wfHist U (step U s op).state ops


/-! ### data dictionaries

Every subdomain, interface and boundary grid of the container owns a data dictionary
(`_subdomain_data[sd]`, `_interface_data[intf]`, `_boundary_grid_data[bg]`).  What matters for
the container is the *identity* of these dictionaries: a fresh one is created by `add_…`,
`replace…` hands the old grid's dictionary (and its boundary grid's) over to the new grid,
`copy()` shares them.  Identity is modelled by a token from a creation counter. -/

structure DState where
  core : State
  /-- subdomain ↦ token of `_subdomain_data[sd]` (same key order as `core.sds`) -/
  sdData : List (Nat × Nat)
  /-- interface ↦ token of `_interface_data[intf]` -/
  ifData : List (Nat × Nat)
  /-- boundary-grid id ↦ token of `_boundary_grid_data[bg]` -/
  bgData : List (Nat × Nat)
  nextTok : Nat
  deriving DecidableEq, Repr

def DState.empty : DState := ⟨State.empty, [], [], [], 0⟩

/-- `subdomain_data(sd)`: which dictionary (`none` = KeyError) -/
def dataOfSd (d : DState) (g : Nat) : Option Nat := lookup g d.sdData
/-- `interface_data(intf)` -/
def dataOfIf (d : DState) (i : Nat) : Option Nat := lookup i d.ifData
/-- `boundary_grid_data(bg)` -/
def dataOfBg (d : DState) (b : Nat) : Option Nat := lookup b d.bgData

/-- fresh dictionaries for the given keys -/
def freshFor : List Nat → Nat → List (Nat × Nat)
  | [], _ => []
  | k :: ks, t => (k, t) :: freshFor ks (t + 1)

def dAddSubdomains (U : Universe) (d : DState) (gs : List Nat) : Except Err DState :=
  match addSubdomains U d.core gs with
  | .error e => .error e
  | .ok s' =>
    let newBg := (s'.bgs.drop d.core.bgs.length).map (·.2)
    .ok { core := s'
          sdData := d.sdData ++ freshFor gs d.nextTok
          ifData := d.ifData
          bgData := d.bgData ++ freshFor newBg (d.nextTok + gs.length)
          nextTok := d.nextTok + gs.length + newBg.length }

def dAddInterface (U : Universe) (d : DState) (i : Nat) (pair : List Nat) : Except Err DState :=
  match addInterface U d.core i pair with
  | .error e => .error e
  | .ok s' => .ok { d with core := s', ifData := d.ifData ++ [(i, d.nextTok)], nextTok := d.nextTok + 1 }

def dRemoveSubdomain (d : DState) (g : Nat) : Except Err DState :=
  match removeSubdomain d.core g with
  | .error e => .error e
  | .ok s' =>
    .ok { d with
      core := s'
      sdData := d.sdData.filter (fun e => e.1 != g)
      ifData := d.ifData.filter (fun e => s'.intfs.contains e.1)
      bgData := d.bgData.filter (fun e => (s'.bgs.map (·.2)).contains e.1) }

/-- hand the dictionary stored under `old` over to `new` -/
def moveKey (old new : Nat) (l : List (Nat × Nat)) : List (Nat × Nat) :=
  match lookup old l with
  | some t => (l ++ [(new, t)]).filter (fun e => e.1 != old)
  | none => l

def dReplace1 (U : Universe) (d : DState) (old new : Nat) :
    Except (Err × List Call) (DState × List Call) :=
  match replace1 U d.core old new with
  | .error e => .error e
  | .ok (s', c) =>
    .ok ({ d with
      core := s'
      sdData := moveKey old new d.sdData
      bgData := match lookup old d.core.bgs with
        | some bOld => moveKey bOld d.core.nextBg d.bgData
        | none => d.bgData }, c)

def dReplaceMany (U : Universe) (d : DState) : List (Nat × Nat) → DState × Option Err × List Call
  | [] => (d, none, [])
  | (old, new) :: rest =>
    match dReplace1 U d old new with
    | .error (e, c) => (d, some e, c)
    | .ok (d', c) =>
      let r := dReplaceMany U d' rest
      (r.1, r.2.1, c ++ r.2.2)

structure DResult where
  state : DState
  err : Option Err
  calls : List Call

def dstep (U : Universe) (d : DState) : Op → DResult
  | .addSubdomains gs =>
    match dAddSubdomains U d gs with
    | .ok d' => ⟨d', none, []⟩
    | .error e => ⟨d, some e, []⟩
  | .addInterface i pair =>
    match dAddInterface U d i pair with
    | .ok d' => ⟨d', none, []⟩
    | .error e => ⟨d, some e, []⟩
  | .removeSubdomain g =>
    match dRemoveSubdomain d g with
    | .ok d' => ⟨d', none, []⟩
    | .error e => ⟨d, some e, []⟩
  | .replace im sm =>
    let r := dReplaceMany U d sm
    ⟨r.1, r.2.1, im.map Call.mortar ++ r.2.2⟩

/-! ### several containers: `copy()`

`copy()` makes a new container whose five dictionaries are shallow copies: the same grid objects,
the same data dictionaries, the same boundary grids.  `BoundaryGrid.id` and the dictionary tokens
are class-level / global counters, shared by all containers. -/

structure World where
  conts : List DState
  nextBg : Nat
  nextTok : Nat
  deriving Repr

def World.init : World := ⟨[DState.empty], 0, 0⟩

inductive WOp where
  /-- call `op` on container `k` -/
  | on (k : Nat) (op : Op)
  /-- `conts[k].copy()`, appended as a new container -/
  | copy (k : Nat)

/-- bring the global counters into a container before a call -/
def DState.withCounters (d : DState) (nextBg nextTok : Nat) : DState :=
  { d with core := { d.core with nextBg := nextBg }, nextTok := nextTok }

def wstep (U : Universe) (w : World) : WOp → World
  | .copy k =>
    match w.conts[k]? with
    | some d => { w with conts := w.conts ++ [d] }
    | none => w
  | .on k op =>
    match w.conts[k]? with
    | none => w
    | some d =>
      let d' := (dstep U (d.withCounters w.nextBg w.nextTok) op).state
      { conts := w.conts.set k d', nextBg := d'.core.nextBg, nextTok := d'.nextTok }

def wrun (U : Universe) (w : World) : List WOp → World
  | [] => w
  | o :: os => wrun U (wstep U w o) os

/-- well-formed world history: every call is well-formed for the container it is made on -/
def wfWorld (U : Universe) (w : World) : List WOp → Bool
  | [] => true
  | .copy k :: os => wfWorld U (wstep U w (.copy k)) os
  | .on k op :: os =>
    (match w.conts[k]? with
     | some d => wfOp U (d.withCounters w.nextBg w.nextTok).core op
     | none => true) && wfWorld U (wstep U w (.on k op)) os

end PorepyVerif.C24
