/-
C24 — property theorems: the mixed-dimensional grid container stays consistent under ANY
well-formed history of add_subdomains / add_interface / remove_subdomain / replace.

`Reachable U s` : `s` is the container state after some history `ops` from the empty container in
which every accepted call is well-formed (`wfHist`, a decidable check defined in Model.lean:
interfaces are added between present subdomains with a mortar grid of dimension ≤ both;
replacement grids are fresh objects of the same dimension).  Rejected calls may be anything.
-/
import PorepyVerif.C24.Lemmas

namespace PorepyVerif.C24
open List

def Reachable (U : Universe) (s : State) : Prop :=
  ∃ ops, wfHist U State.empty ops = true ∧ s = run U State.empty ops

/-- Main induction: every reachable state satisfies the consistency invariant `Inv`
    (no subdomain / interface twice; interfaces join present subdomains and are not of higher
    dimension than them; boundary grids = positive-dimensional subdomains, one each, in the same
    order, with distinct fresh ids). -/
theorem reachable_inv (U : Universe) (ops : List Op) (h : wfHist U State.empty ops = true) :
    Inv U (run U State.empty ops) :=
  inv_run ops (inv_empty U) h

theorem Reachable.inv {U : Universe} {s : State} (h : Reachable U s) : Inv U s := by
  obtain ⟨ops, hw, rfl⟩ := h
  exact reachable_inv U ops hw

/-- a reachable state stays reachable under any further well-formed call -/
theorem Reachable.step {U : Universe} {s : State} (h : Reachable U s) (op : Op)
    (hw : wfOp U s op = true) : Reachable U (step U s op).state := by
  obtain ⟨ops, hws, rfl⟩ := h
  refine ⟨ops ++ [op], ?_, ?_⟩
  · have key : ∀ (l : List Op) (t : State), wfHist U t l = true → wfOp U (run U t l) op = true →
        wfHist U t (l ++ [op]) = true := by
      intro l
      induction l with
      | nil => intro t _ h2; simpa [wfHist, run] using h2
      | cons o l ih =>
        intro t h1 h2
        simp only [wfHist, Bool.and_eq_true, cons_append] at h1 ⊢
        exact ⟨h1.1, ih _ h1.2 h2⟩
    exact key ops _ hws hw
  · have key : ∀ (l : List Op) (t : State), run U t (l ++ [op]) = (C24.step U (run U t l) op).state := by
      intro l
      induction l with
      | nil => intro t; rfl
      | cons o l ih => intro t; simp only [cons_append, run]; exact ih _
    exact (key ops _).symm

/-! ### listing -/

/-- PROPERTY (listing): `subdomains()`, `interfaces()` and `boundaries()` — with any `dim` /
    `codim` filter — succeed and return each present (matching) object exactly once, strictly
    sorted by decreasing dimension, then increasing creation id.
    (`boundaries()` raises by design when there are subdomains but none of positive dimension.) -/
theorem listing_sorted_nodup (U : Universe) (s : State) (h : Reachable U s) (dim codim : Option Nat) :
    (∃ l, listSubdomains U s dim = .ok l ∧
        l ~ s.sds.filter (fun g => optMatch dim (U.sdDim g)) ∧ l.Nodup ∧
        l.Pairwise (keyLt U.sdDim id)) ∧
    (∃ l, listInterfaces U s dim codim = .ok l ∧
        l ~ s.intfs.filter (fun i => optMatch dim (U.ifDim i) && optMatch codim (U.ifCodim i)) ∧
        l.Nodup ∧ l.Pairwise (keyLt U.ifDim id)) ∧
    ((s.bgs ≠ [] ∨ s.sds = []) →
      ∃ l, listBoundaries U s dim = .ok l ∧
        l ~ s.bgs.filter (fun b => optMatch dim (bgDim U b)) ∧ l.Nodup ∧
        l.Pairwise (keyLt (bgDim U) (·.2))) := by
  have hi := h.inv
  refine ⟨?_, ?_, ?_⟩
  · apply sortGrids_spec
    · intro he; rw [he]; rfl
    · intro x hx; exact le_dimMax U (mem_filter.1 hx).1
    · rw [map_id]; exact hi.sdsNodup.sublist filter_sublist
  · apply sortGrids_spec
    · intro he
      have : s.intfs = [] := by unfold State.intfs; rw [pairs_nil_of_sds_nil hi he]; rfl
      rw [this]; rfl
    · intro x hx; exact ifDim_le_dimMax hi (mem_filter.1 hx).1
    · rw [map_id]; exact hi.intfNodup.sublist filter_sublist
  · intro hb
    unfold listBoundaries
    have hc : (!s.sds.isEmpty && s.bgs.isEmpty) = false := by
      rcases hb with hb | hb
      · cases hbg : s.bgs with
        | nil => exact absurd hbg hb
        | cons b l => simp
      · rw [hb]; rfl
    rw [hc]
    simp only [Bool.false_eq_true, if_false]
    apply sortGrids_spec
    · intro he; rw [bgs_nil_of_sds_nil hi he]; rfl
    · intro x hx
      have := bg_parent_mem hi (mem_filter.1 hx).1
      exact Nat.le_trans (Nat.sub_le _ _) (le_dimMax U this.1)
    · exact hi.bgNodup.sublist (filter_sublist.map _)

/-- unfiltered form: exactly the present subdomains / interfaces -/
theorem listing_all (U : Universe) (s : State) (h : Reachable U s) :
    (∃ l, listSubdomains U s none = .ok l ∧ l ~ s.sds ∧ l.Nodup ∧ l.Pairwise (keyLt U.sdDim id)) ∧
    (∃ l, listInterfaces U s none none = .ok l ∧ l ~ s.intfs ∧ l.Nodup ∧
        l.Pairwise (keyLt U.ifDim id)) := by
  have := listing_sorted_nodup U s h none none
  have ft : ∀ (l : List Nat), l.filter (fun _ => true) = l := fun l => filter_eq_self.2 (by simp)
  simpa [optMatch, ft] using And.intro this.1 this.2.1

/-! ### interface ↔ subdomain pair -/

/-- PROPERTY (pair map): a stored interface `i ↦ (a, b)` is reported by
    `interface_to_subdomain_pair` as its two subdomains, both present, ordered (higher dimension
    first; equal dimension: smaller id first); `subdomain_pair_to_interface` applied to that pair
    in either order leads back to an interface with the same pair, and to `i` itself whenever no
    other interface joins the same two subdomains. -/
theorem interface_pair_roundtrip (U : Universe) (s : State) (h : Reachable U s) {i a b : Nat}
    (hp : (i, a, b) ∈ s.pairs) :
    pairOf U s i = .ok (sort2 U a b) ∧
    (sort2 U a b = (a, b) ∨ sort2 U a b = (b, a)) ∧
    (sort2 U a b).1 ∈ s.sds ∧ (sort2 U a b).2 ∈ s.sds ∧
    keyLe U.sdDim id (sort2 U a b).1 (sort2 U a b).2 ∧
    (∀ x y, (x, y) = sort2 U a b ∨ (y, x) = sort2 U a b →
      ∃ j, intfOfPair s x y = .ok j ∧ pairOf U s j = .ok (sort2 U a b) ∧
        ((∀ j' a' b', (j', a', b') ∈ s.pairs → sort2 U a' b' = sort2 U a b → j' = i) → j = i)) := by
  have hi := h.inv
  have hm := hi.pairMem _ hp
  refine ⟨pairOf_of_mem hi hp, sort2_cases U a b, ?_, ?_, sort2_sorted U a b, ?_⟩
  · rcases sort2_cases U a b with e | e <;> rw [e]
    · exact hm.1
    · exact hm.2
  · rcases sort2_cases U a b with e | e <;> rw [e]
    · exact hm.2
    · exact hm.1
  · intro x y hxy
    have hex : ∃ i, (i, x, y) ∈ s.pairs ∨ (i, y, x) ∈ s.pairs := by
      refine ⟨i, ?_⟩
      rcases sort2_cases U a b with e | e <;> rw [e] at hxy <;> rcases hxy with hxy | hxy <;>
        cases hxy
      · exact Or.inl hp
      · exact Or.inr hp
      · exact Or.inr hp
      · exact Or.inl hp
    have hs : sort2 U x y = sort2 U a b := by
      rcases hxy with hxy | hxy
      · have : sort2 U x y = sort2 U (sort2 U a b).1 (sort2 U a b).2 := by rw [← hxy]
        rw [this, sort2_idem]
      · have : sort2 U y x = sort2 U (sort2 U a b).1 (sort2 U a b).2 := by rw [← hxy]
        rw [sort2_comm, this, sort2_idem]
    obtain ⟨j, hj, hjm⟩ := intfOfPair_spec hex
    refine ⟨j, hj, ?_, ?_⟩
    · rcases hjm with hjm | hjm
      · rw [pairOf_of_mem hi hjm, hs]
      · rw [pairOf_of_mem hi hjm, sort2_comm, hs]
    · intro huniq
      rcases hjm with hjm | hjm
      · exact huniq j x y hjm hs
      · exact huniq j y x hjm (by rw [sort2_comm, hs])

/-! ### removal -/

/-- PROPERTY (removal): `remove_subdomain(g)` of a present subdomain succeeds and deletes exactly
    `g`, the interfaces that have `g` as one of their subdomains, and `g`'s boundary grid;
    every other subdomain, interface (with its pair) and boundary grid stays, and the listings
    after the call are the listings before with exactly those objects deleted. -/
theorem remove_exact (U : Universe) (s : State) (h : Reachable U s) {g : Nat} (hg : g ∈ s.sds) :
    ∃ s', removeSubdomain s g = .ok s' ∧ Reachable U s' ∧
      (∀ x, x ∈ s'.sds ↔ x ∈ s.sds ∧ x ≠ g) ∧
      (∀ p, p ∈ s'.pairs ↔ p ∈ s.pairs ∧ p.2.1 ≠ g ∧ p.2.2 ≠ g) ∧
      (∀ b, b ∈ s'.bgs ↔ b ∈ s.bgs ∧ b.1 ≠ g) ∧
      (∀ l, listSubdomains U s none = .ok l →
        listSubdomains U s' none = .ok (l.filter (· != g))) ∧
      (∀ l, listInterfaces U s none none = .ok l →
        listInterfaces U s' none none = .ok (l.filter (fun i => !touchesI s g i))) ∧
      (∀ i ∈ s'.intfs, pairOf U s' i = pairOf U s i) ∧
      bgOfSd s' g = none ∧ (∀ x, x ≠ g → bgOfSd s' x = bgOfSd s x) := by
  have hi := h.inv
  have hrm := removeSubdomain_eq hg
  have hr : Reachable U (removeState s g) := by
    have := h.step (.removeSubdomain g) rfl
    simpa [C24.step, hrm] using this
  refine ⟨_, hrm, hr, ?_, ?_, ?_, ?_, ?_, ?_, ?_, ?_⟩
  · intro x; simp [removeState]
  · intro p; simp [removeState, touches]
  · intro b; simp [removeState]
  · intro l hl
    obtain ⟨l0, hl0, hp0, _, hs0⟩ := (listing_all U s h).1
    obtain ⟨l1, hl1, hp1, _, hs1⟩ := (listing_all U _ hr).1
    rw [hl0] at hl; cases hl
    rw [hl1]
    congr 1
    exact eq_of_perm_of_strict U.sdDim id hs1 (hs0.filter _) (hp1.trans (hp0.filter _).symm)
  · intro l hl
    obtain ⟨l0, hl0, hp0, _, hs0⟩ := (listing_all U s h).2
    obtain ⟨l1, hl1, hp1, _, hs1⟩ := (listing_all U _ hr).2
    rw [hl0] at hl; cases hl
    rw [hl1]
    congr 1
    refine eq_of_perm_of_strict U.ifDim id hs1 (hs0.filter _) (hp1.trans ?_)
    rw [removeState_intfs hi g]
    exact (hp0.filter _).symm
  · intro i hi'
    simp only [State.intfs] at hi'
    rcases mem_map.1 hi' with ⟨p, hp, rfl⟩
    obtain ⟨i, a, b⟩ := p
    have hp0 : (i, a, b) ∈ s.pairs := (mem_filter.1 hp).1
    rw [pairOf_of_mem hr.inv hp, pairOf_of_mem hi hp0]
  · exact lookup_filter_self g s.bgs
  · intro x hx
    exact lookup_filter_ne s.bgs hx

/-! ### boundary grids -/

/-- PROPERTY (boundary grids): every present subdomain of positive dimension has exactly one
    boundary grid (the one `subdomain_to_boundary_grid` returns), a 0-d subdomain has none, there
    are no boundary grids of absent subdomains, and distinct subdomains have distinct ones. -/
theorem one_boundary_grid_per_positive_dim (U : Universe) (s : State) (h : Reachable U s) :
    (∀ g ∈ s.sds, 0 < U.sdDim g →
      ∃ b, bgOfSd s g = some b ∧ s.bgs.filter (fun e => e.1 == g) = [(g, b)]) ∧
    (∀ g ∈ s.sds, U.sdDim g = 0 → bgOfSd s g = none ∧ s.bgs.filter (fun e => e.1 == g) = []) ∧
    (∀ e ∈ s.bgs, e.1 ∈ s.sds ∧ 0 < U.sdDim e.1) ∧
    (s.bgs.map (·.2)).Nodup := by
  have hi := h.inv
  have hkn : (s.bgs.map (·.1)).Nodup := by
    rw [hi.bgKeys]; exact hi.sdsNodup.sublist filter_sublist
  refine ⟨?_, ?_, fun e he => bg_parent_mem hi he, hi.bgNodup⟩
  · intro g hg hd
    have : g ∈ s.bgs.map (·.1) := by rw [hi.bgKeys]; simp [hg, hd]
    rcases mem_map.1 this with ⟨⟨g', b⟩, hb, rfl⟩
    exact ⟨b, lookup_eq_some_of_mem hkn hb, filter_key_eq_singleton hkn hb⟩
  · intro g _ hd
    have hnot : g ∉ s.bgs.map (·.1) := by rw [hi.bgKeys]; simp [hd]
    refine ⟨lookup_eq_none_iff.2 hnot, ?_⟩
    rw [filter_eq_nil_iff]
    intro e he hbe
    simp only [beq_iff_eq] at hbe
    exact hnot (hbe ▸ mem_map.2 ⟨e, he, rfl⟩)

/-! ### replacement -/

/-- PROPERTY (replacement): replacing a present subdomain `old` by a fresh grid `new` of the same
    dimension succeeds; `new` takes the place of `old` among the subdomains; the interfaces are
    the same objects and each reports its former pair with `old` replaced by `new`; `old`'s
    boundary grid is gone, `new` has a freshly created one iff its dimension is positive, and all
    other boundary grids are untouched. -/
theorem replace_exact (U : Universe) (s : State) (h : Reachable U s) {old new : Nat}
    (ho : old ∈ s.sds) (hn : new ∉ s.sds) (hd : U.sdDim new = U.sdDim old) :
    ∃ s' c, replace1 U s old new = .ok (s', c) ∧ Reachable U s' ∧
      (∀ x, x ∈ s'.sds ↔ (x ∈ s.sds ∨ x = new) ∧ x ≠ old) ∧
      s'.intfs = s.intfs ∧
      (∀ i a b, (i, a, b) ∈ s.pairs →
        pairOf U s' i = .ok (sort2 U (sub old new a) (sub old new b))) ∧
      bgOfSd s' old = none ∧
      bgOfSd s' new = (if 0 < U.sdDim new then some s.nextBg else none) ∧
      (∀ x, x ≠ old → x ≠ new → bgOfSd s' x = bgOfSd s x) := by
  have hi := h.inv
  have hc : s.sds.contains old = true := by simpa using ho
  have hne : new ≠ old := fun e => hn (e ▸ ho)
  obtain ⟨s', c, hr⟩ : ∃ s' c, replace1 U s old new = .ok (s', c) := by
    cases hr : replace1 U s old new with
    | error e => exact absurd ho (replace1_error hr).1
    | ok r => exact ⟨r.1, r.2, rfl⟩
  obtain ⟨_, hs'⟩ := replace1_ok hr
  have hreach : Reachable U s' := by
    have hw : wfOp U s (.replace [] [(old, new)]) = true := by
      simp [wfOp, wfReplace, hr, hn, hd]
    have := h.step (.replace [] [(old, new)]) hw
    simpa [C24.step, replaceMany, hr] using this
  have hi' := hreach.inv
  have hnk : new ∉ s.bgs.map (·.1) := by
    rw [hi.bgKeys]; intro hm; exact hn (mem_filter.1 hm).1
  refine ⟨s', c, hr, hreach, ?_, ?_, ?_, ?_, ?_, ?_⟩
  · intro x; rw [hs']; exact mem_replaceState_sds hn
  · rw [hs']; exact replaceState_intfs U s old new
  · intro i a b hp
    have hp' : replaceEntry U old new (i, a, b) ∈ s'.pairs := by
      rw [hs', replaceState_pairs]; exact mem_map.2 ⟨_, hp, rfl⟩
    have hm := hi.pairMem _ hp
    unfold replaceEntry at hp'
    split at hp'
    · simp only [] at hp'
      rw [pairOf_of_mem hi' hp']
      rcases sort2_cases U a b with e | e
      · simp only [e]
      · simp only [e]; rw [sort2_comm]
    · rename_i ht
      simp only [touches, Bool.or_eq_true, beq_iff_eq, not_or] at ht
      rw [pairOf_of_mem hi' hp']
      have ha : sub old new a = a := by simp [sub, ht.1]
      have hb : sub old new b = b := by simp [sub, ht.2]
      rw [ha, hb]
  · rw [hs']; unfold replaceState bgOfSd
    simp only []
    split
    · exact lookup_filter_self old _
    · rename_i hany
      rw [lookup_eq_none_iff]
      intro hm
      apply hany
      rcases mem_map.1 hm with ⟨b, hb, hbe⟩
      exact any_eq_true.2 ⟨b, hb, by simp [hbe]⟩
  · rw [hs']; unfold replaceState bgOfSd
    simp only []
    split
    · rename_i hany
      have hpos : 0 < U.sdDim new := by rw [hd]; exact (bgs_any_iff hi ho).1 hany
      rw [lookup_filter_ne _ hne, lookup_append, lookup_eq_none_iff.2 hnk, if_pos hpos]
      simp [lookup]
    · rename_i hany
      have hz : ¬ 0 < U.sdDim new := by
        rw [hd]; exact fun hp => hany ((bgs_any_iff hi ho).2 hp)
      rw [if_neg hz]
      exact lookup_eq_none_iff.2 hnk
  · intro x hxo hxn
    rw [hs']; unfold replaceState bgOfSd
    simp only []
    split
    · rw [lookup_filter_ne _ hxo, lookup_append]
      have : lookup x [(new, s.nextBg)] = none := by
        simp [lookup]; exact fun e => hxn e.symm
      rw [this]; simp
    · rfl

/-- Fidelity of the replacement loop: in a reachable state the sorted list
    `subdomain_to_interfaces(old)` that the code iterates over (computed after the new grid has
    been inserted) contains every interface of `old` exactly once — `argsort_grids` drops nothing —
    and `interface_to_subdomain_pair` succeeds on each of them with the `sort2` ordering.  So the
    model's "rewrite every entry that touches `old`" is what the loop does. -/
theorem replace_loop_visits_all (U : Universe) (s : State) (h : Reachable U s) {old : Nat}
    (new : Nat) :
    argsortFrom U.ifDim id (dimMax U (if s.sds.contains new then s.sds else s.sds ++ [new]))
        ((s.pairs.filter (touches old)).map (·.1)) ~ (s.pairs.filter (touches old)).map (·.1) ∧
    (∀ p ∈ s.pairs, pairOf U s p.1 = .ok (sort2 U p.2.1 p.2.2)) := by
  have hi := h.inv
  refine ⟨?_, fun p hp => pairOf_of_mem hi hp⟩
  have hf : ((s.pairs.filter (touches old)).map (·.1)).filter
      (fun x => decide (U.ifDim x ≤ dimMax U (if s.sds.contains new then s.sds else s.sds ++ [new])))
      = (s.pairs.filter (touches old)).map (·.1) := by
    rw [filter_eq_self]
    intro i hmem
    rcases mem_map.1 hmem with ⟨p, hpf, rfl⟩
    have hp0 := (mem_filter.1 hpf).1
    have hm : p.2.1 ∈ (if s.sds.contains new then s.sds else s.sds ++ [new]) := by
      split
      · exact (hi.pairMem p hp0).1
      · exact mem_append_left _ (hi.pairMem p hp0).1
    simpa using Nat.le_trans (hi.pairDim p hp0).1 (le_dimMax U hm)
  have hp := argsortFrom_perm U.ifDim id
    (dimMax U (if s.sds.contains new then s.sds else s.sds ++ [new]))
    ((s.pairs.filter (touches old)).map (·.1))
  rw [hf] at hp
  exact hp

/-! ### rejected calls -/

/-- PROPERTY (rejections): the calls the container must refuse are refused with the documented
    error, and a refused call leaves the container exactly as it was (for an `sd_map` with
    several items: as it was after the items before the failing one). -/
theorem rejections (U : Universe) (s : State) :
    (∀ gs g, g ∈ gs → g ∈ s.sds → addSubdomains U s gs = .error .valueError) ∧
    (∀ gs, ¬ gs.Nodup → addSubdomains U s gs = .error .valueError) ∧
    (∀ i pair, pair.length ≠ 2 → addInterface U s i pair = .error .valueError) ∧
    (∀ i a b, i ∈ s.intfs → addInterface U s i [a, b] = .error .valueError) ∧
    (∀ i a b, U.sdDim a + 3 ≤ U.sdDim b ∨ U.sdDim b + 3 ≤ U.sdDim a →
      addInterface U s i [a, b] = .error .valueError) ∧
    (∀ i a b, s.sds = [] → ∃ e, addInterface U s i [a, b] = .error e) ∧
    (∀ g, g ∉ s.sds → removeSubdomain s g = .error .keyError) ∧
    (∀ old new, old ∉ s.sds → replace1 U s old new = .error .keyError) ∧
    (∀ op, (step U s op).err ≠ none → (∀ im sm, op = .replace im sm → sm.length ≤ 1) →
      (step U s op).state = s) := by
  refine ⟨?_, ?_, ?_, ?_, ?_, ?_, ?_, ?_, ?_⟩
  · intro gs g hg hs
    unfold addSubdomains
    have : gs.any (fun g => s.sds.contains g) = true := any_eq_true.2 ⟨g, hg, by simpa using hs⟩
    rw [if_pos this]
  · intro gs hn
    unfold addSubdomains
    split
    · rfl
    · have : hasDup gs = true := by
        cases hd : hasDup gs with
        | true => rfl
        | false => exact absurd (hasDup_eq_false.1 hd) hn
      simp [this]
  · intro i pair hl
    unfold addInterface
    split
    · simp at hl
    · rfl
  · intro i a b hi
    have : s.intfs.contains i = true := by simpa using hi
    simp only [addInterface, this, if_true]
  · intro i a b hd
    unfold addInterface
    simp only []
    split
    · rfl
    · split
      · rfl
      · rename_i hc; omega
  · intro i a b he
    unfold addInterface
    simp only []
    split
    · exact ⟨_, rfl⟩
    · split
      · exact ⟨_, rfl⟩
      · rw [sortPair_empty U s a b he]; exact ⟨_, rfl⟩
  · intro g hg
    simp [removeSubdomain, hg]
  · intro old new ho
    simp [replace1, ho]
  · intro op he hop
    cases op with
    | addSubdomains gs =>
      simp only [step] at he ⊢
      cases h : addSubdomains U s gs with
      | error e => rfl
      | ok s' => rw [h] at he; exact absurd rfl he
    | addInterface i pair =>
      simp only [step] at he ⊢
      cases h : addInterface U s i pair with
      | error e => rfl
      | ok s' => rw [h] at he; exact absurd rfl he
    | removeSubdomain g =>
      simp only [step] at he ⊢
      cases h : removeSubdomain s g with
      | error e => rfl
      | ok s' => rw [h] at he; exact absurd rfl he
    | replace im sm =>
      have hl := hop im sm rfl
      match sm, hl with
      | [], _ => rfl
      | [(old, new)], _ =>
        simp only [step, replaceMany] at he ⊢
        cases h : replace1 U s old new with
        | error e => rfl
        | ok r => rw [h] at he; exact absurd rfl he

/-- PROPERTY (acceptance): in any state every call that names present / fresh objects as required is
    accepted (so the rejections above are the only ones). -/
theorem valid_calls_accepted (U : Universe) (s : State) :
    (∀ gs, gs.Nodup → (∀ g ∈ gs, g ∉ s.sds) → ∃ s', addSubdomains U s gs = .ok s') ∧
    (∀ i a b, i ∉ s.intfs → a ∈ s.sds → b ∈ s.sds → U.sdDim a < U.sdDim b + 3 →
      U.sdDim b < U.sdDim a + 3 →
      addInterface U s i [a, b] = .ok { s with pairs := s.pairs ++ [(i, (sort2 U a b).1, (sort2 U a b).2)] }) ∧
    (∀ g, g ∈ s.sds → ∃ s', removeSubdomain s g = .ok s') ∧
    (∀ old new, old ∈ s.sds → ∃ r, replace1 U s old new = .ok r) := by
  refine ⟨?_, ?_, ?_, ?_⟩
  · intro gs hn hd
    unfold addSubdomains
    have h1 : gs.any (fun g => s.sds.contains g) = false := by
      rw [any_eq_false]
      intro g hg
      simpa using hd g hg
    have h2 : hasDup gs = false := hasDup_eq_false.2 hn
    rw [if_neg (by rw [h1]; exact Bool.false_ne_true), if_neg (by rw [h2]; exact Bool.false_ne_true)]
    exact ⟨_, rfl⟩
  · intro i a b hi ha hb h1 h2
    have hc : s.intfs.contains i = false := by simpa using hi
    have hcd : ¬ 3 ≤ (U.sdDim a - U.sdDim b) + (U.sdDim b - U.sdDim a) := by omega
    simp only [addInterface]
    rw [if_neg (by rw [hc]; exact Bool.false_ne_true), if_neg hcd, sortPair_eq_sort2 U s ha hb]
  · intro g hg
    exact ⟨_, removeSubdomain_eq hg⟩
  · intro old new ho
    cases hr : replace1 U s old new with
    | error e => exact absurd ho (replace1_error hr).1
    | ok r => exact ⟨r, rfl⟩

/-! ### non-vacuity: a concrete history (3-d, 2-d, two 1-d, one 0-d grid) -/

/-- grids 0..6 of dimension 3,2,1,1,0,1,2; mortar grids 0..3 of dimension 2,1,1,0 -/
def exU : Universe :=
  ⟨fun k => [3, 2, 1, 1, 0, 1, 2].getD k 0, fun k => [2, 1, 1, 0].getD k 0, fun _ => 1⟩

def exOps : List Op :=
  [.addSubdomains [2, 0], .addSubdomains [1, 4, 3],
   .addInterface 0 [1, 0], .addInterface 1 [2, 1], .addInterface 2 [1, 3], .addInterface 3 [4, 3],
   .addSubdomains [2],                      -- rejected: present
   .addInterface 3 [2, 4],                  -- rejected: existing interface
   .replace [1] [(3, 5)],                   -- refine the second 1-d grid
   .removeSubdomain 2,
   .replace [] [(1, 6)],
   .removeSubdomain 9]                      -- rejected: absent

example : wfHist exU State.empty exOps = true := by decide
example : Reachable exU (run exU State.empty exOps) := ⟨exOps, by decide, rfl⟩
example : run exU State.empty exOps =
    ⟨[0, 4, 5, 6], [(0, 0, 6), (2, 6, 5), (3, 5, 4)], [(0, 1), (5, 4), (6, 5)], 6⟩ := by decide
example : (listSubdomains exU (run exU State.empty exOps) none).toOption = some [0, 6, 5, 4] := by decide
example : (listInterfaces exU (run exU State.empty exOps) none none).toOption = some [0, 2, 3] := by decide
example : (listBoundaries exU (run exU State.empty exOps) none).toOption = some [(0, 1), (6, 5), (5, 4)] := by decide
example : (pairOf exU (run exU State.empty exOps) 2).toOption = some (6, 5) := by decide
example : (intfOfPair (run exU State.empty exOps) 5 6).toOption = some 2 := by decide
example : (step exU (run exU State.empty exOps) (.addInterface 1 [0, 4])).err = some .valueError := by
  decide
example : (step exU (run exU State.empty exOps) (.removeSubdomain 6)).state =
    ⟨[0, 4, 5], [(3, 5, 4)], [(0, 1), (5, 4)], 6⟩ := by decide

end PorepyVerif.C24
