/-
C24 — property theorems: the mixed-dimensional grid container stays consistent under ANY
well-formed history of add_subdomains / add_interface / remove_subdomain / replace.

`Reachable U s` : `s` is the container state after some history `ops` from the empty container in
which every accepted call is well-formed (`wfHist`, a decidable check defined in Model.lean:
interfaces are added between present subdomains with a mortar grid of dimension ≤ both;
replacement grids are fresh objects of the same dimension).  Rejected calls may be anything.

Structure: `reachable_inv` (one container) and `world_inv` (any number of containers produced by
`copy()`) show by induction over ALL well-formed histories that every container satisfies the
explicit consistency predicate `Inv` (`DInv` with the data dictionaries).  The property theorems
below are stated for every state satisfying `Inv`, hence for every state of every such history.
-/
import PorepyVerif.C24.Lemmas

namespace PorepyVerif.C24
open List

def Reachable (U : Universe) (s : State) : Prop :=
  ∃ ops, wfHist U State.empty ops = true ∧ s = run U State.empty ops

/-- Main induction: every reachable state satisfies the consistency invariant `Inv`
    (no subdomain / interface twice; interfaces join present subdomains and are not of higher
    dimension than them; boundary grids = positive-dimensional subdomains, one each, in the same
    order, with distinct fresh ids). -/
theorem reachable_inv (U : Universe) (ops : List Op) (h : wfHist U State.empty ops = true) :
    Inv U (run U State.empty ops) :=
  inv_run ops (inv_empty U) h

theorem Reachable.inv {U : Universe} {s : State} (h : Reachable U s) : Inv U s := by
  obtain ⟨ops, hw, rfl⟩ := h
  exact reachable_inv U ops hw

/-- a reachable state stays reachable under any further well-formed call -/
theorem Reachable.step {U : Universe} {s : State} (h : Reachable U s) (op : Op)
    (hw : wfOp U s op = true) : Reachable U (step U s op).state := by
  obtain ⟨ops, hws, rfl⟩ := h
  refine ⟨ops ++ [op], ?_, ?_⟩
  · have key : ∀ (l : List Op) (t : State), wfHist U t l = true → wfOp U (run U t l) op = true →
        wfHist U t (l ++ [op]) = true := by
      intro l
      induction l with
      | nil => intro t _ h2; simpa [wfHist, run] using h2
      | cons o l ih =>
        intro t h1 h2
        simp only [wfHist, Bool.and_eq_true, cons_append] at h1 ⊢
        exact ⟨h1.1, ih _ h1.2 h2⟩
    exact key ops _ hws hw
  · have key : ∀ (l : List Op) (t : State), run U t (l ++ [op]) = (C24.step U (run U t l) op).state := by
      intro l
      induction l with
      | nil => intro t; rfl
      | cons o l ih => intro t; simp only [cons_append, run]; exact ih _
    exact (key ops _).symm

/-! ### listing -/

/-- PROPERTY (listing): `subdomains()`, `interfaces()` and `boundaries()` — with any `dim` /
    `codim` filter — succeed and return each present (matching) object exactly once, strictly
    sorted by decreasing dimension, then increasing creation id.
    (`boundaries()` raises by design when there are subdomains but none of positive dimension.) -/
theorem listing_sorted_nodup (U : Universe) (s : State) (hi : Inv U s) (dim codim : Option Nat) :
    (∃ l, listSubdomains U s dim = .ok l ∧
        l ~ s.sds.filter (fun g => optMatch dim (U.sdDim g)) ∧ l.Nodup ∧
        l.Pairwise (keyLt U.sdDim id)) ∧
    (∃ l, listInterfaces U s dim codim = .ok l ∧
        l ~ s.intfs.filter (fun i => optMatch dim (U.ifDim i) && optMatch codim (U.ifCodim i)) ∧
        l.Nodup ∧ l.Pairwise (keyLt U.ifDim id)) ∧
    ((s.bgs ≠ [] ∨ s.sds = []) →
      ∃ l, listBoundaries U s dim = .ok l ∧
        l ~ s.bgs.filter (fun b => optMatch dim (bgDim U b)) ∧ l.Nodup ∧
        l.Pairwise (keyLt (bgDim U) (·.2))) := by
  refine ⟨?_, ?_, ?_⟩
  · apply sortGrids_spec
    · intro he; rw [he]; rfl
    · intro x hx; exact le_dimMax U (mem_filter.1 hx).1
    · rw [map_id]; exact hi.sdsNodup.sublist filter_sublist
  · apply sortGrids_spec
    · intro he
      have : s.intfs = [] := by unfold State.intfs; rw [pairs_nil_of_sds_nil hi he]; rfl
      rw [this]; rfl
    · intro x hx; exact ifDim_le_dimMax hi (mem_filter.1 hx).1
    · rw [map_id]; exact hi.intfNodup.sublist filter_sublist
  · intro hb
    unfold listBoundaries
    have hc : (!s.sds.isEmpty && s.bgs.isEmpty) = false := by
      rcases hb with hb | hb
      · cases hbg : s.bgs with
        | nil => exact absurd hbg hb
        | cons b l => simp
      · rw [hb]; rfl
    rw [hc]
    simp only [Bool.false_eq_true, if_false]
    apply sortGrids_spec
    · intro he; rw [bgs_nil_of_sds_nil hi he]; rfl
    · intro x hx
      have := bg_parent_mem hi (mem_filter.1 hx).1
      exact Nat.le_trans (Nat.sub_le _ _) (le_dimMax U this.1)
    · exact hi.bgNodup.sublist (filter_sublist.map _)

/-- unfiltered form: exactly the present subdomains / interfaces -/
theorem listing_all (U : Universe) (s : State) (hi : Inv U s) :
    (∃ l, listSubdomains U s none = .ok l ∧ l ~ s.sds ∧ l.Nodup ∧ l.Pairwise (keyLt U.sdDim id)) ∧
    (∃ l, listInterfaces U s none none = .ok l ∧ l ~ s.intfs ∧ l.Nodup ∧
        l.Pairwise (keyLt U.ifDim id)) := by
  have := listing_sorted_nodup U s hi none none
  have ft : ∀ (l : List Nat), l.filter (fun _ => true) = l := fun l => filter_eq_self.2 (by simp)
  simpa [optMatch, ft] using And.intro this.1 this.2.1

/-! ### interface ↔ subdomain pair -/

/-- PROPERTY (pair map): a stored interface `i ↦ (a, b)` is reported by
    `interface_to_subdomain_pair` as its two subdomains, both present, ordered (higher dimension
    first; equal dimension: smaller id first); `subdomain_pair_to_interface` applied to that pair
    in either order leads back to an interface with the same pair, and to `i` itself whenever no
    other interface joins the same two subdomains. -/
theorem interface_pair_roundtrip (U : Universe) (s : State) (hi : Inv U s) {i a b : Nat}
    (hp : (i, a, b) ∈ s.pairs) :
    pairOf U s i = .ok (sort2 U a b) ∧
    (sort2 U a b = (a, b) ∨ sort2 U a b = (b, a)) ∧
    (sort2 U a b).1 ∈ s.sds ∧ (sort2 U a b).2 ∈ s.sds ∧
    keyLe U.sdDim id (sort2 U a b).1 (sort2 U a b).2 ∧
    (∀ x y, (x, y) = sort2 U a b ∨ (y, x) = sort2 U a b →
      ∃ j, intfOfPair s x y = .ok j ∧ pairOf U s j = .ok (sort2 U a b) ∧
        ((∀ j' a' b', (j', a', b') ∈ s.pairs → sort2 U a' b' = sort2 U a b → j' = i) → j = i)) := by
  have hm := hi.pairMem _ hp
  refine ⟨pairOf_of_mem hi hp, sort2_cases U a b, ?_, ?_, sort2_sorted U a b, ?_⟩
  · rcases sort2_cases U a b with e | e <;> rw [e]
    · exact hm.1
    · exact hm.2
  · rcases sort2_cases U a b with e | e <;> rw [e]
    · exact hm.2
    · exact hm.1
  · intro x y hxy
    have hex : ∃ i, (i, x, y) ∈ s.pairs ∨ (i, y, x) ∈ s.pairs := by
      refine ⟨i, ?_⟩
      rcases sort2_cases U a b with e | e <;> rw [e] at hxy <;> rcases hxy with hxy | hxy <;>
        cases hxy
      · exact Or.inl hp
      · exact Or.inr hp
      · exact Or.inr hp
      · exact Or.inl hp
    have hs : sort2 U x y = sort2 U a b := by
      rcases hxy with hxy | hxy
      · have : sort2 U x y = sort2 U (sort2 U a b).1 (sort2 U a b).2 := by rw [← hxy]
        rw [this, sort2_idem]
      · have : sort2 U y x = sort2 U (sort2 U a b).1 (sort2 U a b).2 := by rw [← hxy]
        rw [sort2_comm, this, sort2_idem]
    obtain ⟨j, hj, hjm⟩ := intfOfPair_spec hex
    refine ⟨j, hj, ?_, ?_⟩
    · rcases hjm with hjm | hjm
      · rw [pairOf_of_mem hi hjm, hs]
      · rw [pairOf_of_mem hi hjm, sort2_comm, hs]
    · intro huniq
      rcases hjm with hjm | hjm
      · exact huniq j x y hjm hs
      · exact huniq j y x hjm (by rw [sort2_comm, hs])

/-! ### per-subdomain queries -/

/-- PROPERTY (`subdomain_to_interfaces`): for any grid `g` the call succeeds and returns exactly
    the interfaces whose stored pair contains `g`, each once, strictly sorted (dimension
    descending, id ascending); for a grid that is not in the container the list is empty. -/
theorem subdomain_to_interfaces_spec (U : Universe) (s : State) (hi : Inv U s) (g : Nat) :
    ∃ l, intfsOfSd U s g = .ok l ∧ l ~ s.intfs.filter (touchesI s g) ∧ l.Nodup ∧
      l.Pairwise (keyLt U.ifDim id) ∧ (g ∉ s.sds → l = []) := by
  have heq : (s.pairs.filter (touches g)).map (·.1) = s.intfs.filter (touchesI s g) := by
    unfold State.intfs
    rw [filter_map]
    congr 1
    apply filter_congr
    intro p hp
    obtain ⟨i, a, b⟩ := p
    simp only [Function.comp, touchesI, lookup_eq_some_of_mem hi.intfNodup hp, touches]
  obtain ⟨l, hl, hp, hn, hs⟩ := sortGrids_spec U s U.ifDim id ((s.pairs.filter (touches g)).map (·.1))
    (by intro he; rw [pairs_nil_of_sds_nil hi he]; rfl)
    (by
      intro x hx
      rw [heq] at hx
      exact ifDim_le_dimMax hi (mem_filter.1 hx).1)
    (by rw [map_id, heq]; exact hi.intfNodup.sublist filter_sublist)
  refine ⟨l, hl, heq ▸ hp, hn, hs, ?_⟩
  intro hg
  have : s.pairs.filter (touches g) = [] := by
    rw [filter_eq_nil_iff]
    intro p hp ht
    have hm := hi.pairMem p hp
    simp only [touches, Bool.or_eq_true, beq_iff_eq] at ht
    rcases ht with e | e
    · exact hg (e ▸ hm.1)
    · exact hg (e ▸ hm.2)
  rw [this] at hp
  simpa using hp

/-- PROPERTY (`neighboring_subdomains`): asking for only higher and only lower neighbours at once
    is refused; otherwise the call returns, sorted (dimension descending, id ascending), the other
    ends of all interfaces of `g` (one entry per interface; `g` itself for an interface from `g` to
    itself), restricted to strictly higher / strictly lower dimension when asked; every neighbour
    is a present subdomain. -/
theorem neighboring_subdomains_spec (U : Universe) (s : State) (hi : Inv U s) (g : Nat) :
    neighbours U s g true true = .error .valueError ∧
    (∃ l, neighbours U s g false false = .ok l ∧ l ~ s.pairs.filterMap (otherEnd g) ∧
      l.Pairwise (keyLe U.sdDim id) ∧ ∀ x ∈ l, x ∈ s.sds) ∧
    (∃ l, neighbours U s g true false = .ok l ∧
      l ~ (s.pairs.filterMap (otherEnd g)).filter (fun x => decide (U.sdDim g < U.sdDim x)) ∧
      l.Pairwise (keyLe U.sdDim id) ∧ ∀ x ∈ l, x ∈ s.sds ∧ U.sdDim g < U.sdDim x) ∧
    (∃ l, neighbours U s g false true = .ok l ∧
      l ~ (s.pairs.filterMap (otherEnd g)).filter (fun x => decide (U.sdDim x < U.sdDim g)) ∧
      l.Pairwise (keyLe U.sdDim id) ∧ ∀ x ∈ l, x ∈ s.sds ∧ U.sdDim x < U.sdDim g) ∧
    (∀ x, x ∈ s.pairs.filterMap (otherEnd g) ↔
      ∃ p ∈ s.pairs, (p.2.1 = g ∧ p.2.2 = x) ∨ (p.2.1 ≠ g ∧ p.2.2 = g ∧ p.2.1 = x)) := by
  have hmem : ∀ x ∈ s.pairs.filterMap (otherEnd g), x ∈ s.sds := by
    intro x hx
    obtain ⟨p, hp, hc⟩ := mem_filterMap_otherEnd.1 hx
    have hm := hi.pairMem p hp
    rcases hc with ⟨_, e⟩ | ⟨_, _, e⟩
    · exact e ▸ hm.2
    · exact e ▸ hm.1
  have hempty : s.sds = [] → s.pairs.filterMap (otherEnd g) = [] := by
    intro he; rw [pairs_nil_of_sds_nil hi he]; rfl
  refine ⟨rfl, ?_, ?_, ?_, fun x => mem_filterMap_otherEnd⟩
  · obtain ⟨l, hl, hp, hs⟩ := sortGrids_spec_le U s U.sdDim id (s.pairs.filterMap (otherEnd g))
      hempty (fun x hx => le_dimMax U (hmem x hx))
    refine ⟨l, ?_, hp, hs, fun x hx => hmem x (hp.mem_iff.1 hx)⟩
    simpa [neighbours] using hl
  · obtain ⟨l, hl, hp, hs⟩ := sortGrids_spec_le U s U.sdDim id
      ((s.pairs.filterMap (otherEnd g)).filter (fun x => decide (U.sdDim g < U.sdDim x)))
      (by intro he; rw [hempty he]; rfl)
      (fun x hx => le_dimMax U (hmem x (mem_filter.1 hx).1))
    refine ⟨l, ?_, hp, hs, ?_⟩
    · simpa [neighbours] using hl
    · intro x hx
      have := mem_filter.1 (hp.mem_iff.1 hx)
      exact ⟨hmem x this.1, by simpa using this.2⟩
  · obtain ⟨l, hl, hp, hs⟩ := sortGrids_spec_le U s U.sdDim id
      ((s.pairs.filterMap (otherEnd g)).filter (fun x => decide (U.sdDim x < U.sdDim g)))
      (by intro he; rw [hempty he]; rfl)
      (fun x hx => le_dimMax U (hmem x (mem_filter.1 hx).1))
    refine ⟨l, ?_, hp, hs, ?_⟩
    · simpa [neighbours] using hl
    · intro x hx
      have := mem_filter.1 (hp.mem_iff.1 hx)
      exact ⟨hmem x this.1, by simpa using this.2⟩

/-! ### removal -/

/-- PROPERTY (removal): `remove_subdomain(g)` of a present subdomain succeeds and deletes exactly
    `g`, the interfaces that have `g` as one of their subdomains, and `g`'s boundary grid;
    every other subdomain, interface (with its pair) and boundary grid stays, and the listings
    after the call are the listings before with exactly those objects deleted. -/
theorem remove_exact (U : Universe) (s : State) (hi : Inv U s) {g : Nat} (hg : g ∈ s.sds) :
    ∃ s', removeSubdomain s g = .ok s' ∧ Inv U s' ∧
      (∀ x, x ∈ s'.sds ↔ x ∈ s.sds ∧ x ≠ g) ∧
      (∀ p, p ∈ s'.pairs ↔ p ∈ s.pairs ∧ p.2.1 ≠ g ∧ p.2.2 ≠ g) ∧
      (∀ b, b ∈ s'.bgs ↔ b ∈ s.bgs ∧ b.1 ≠ g) ∧
      (∀ l, listSubdomains U s none = .ok l →
        listSubdomains U s' none = .ok (l.filter (· != g))) ∧
      (∀ l, listInterfaces U s none none = .ok l →
        listInterfaces U s' none none = .ok (l.filter (fun i => !touchesI s g i))) ∧
      (∀ i ∈ s'.intfs, pairOf U s' i = pairOf U s i) ∧
      bgOfSd s' g = none ∧ (∀ x, x ≠ g → bgOfSd s' x = bgOfSd s x) := by
  have hrm := removeSubdomain_eq hg
  have hr : Inv U (removeState s g) := inv_removeSubdomain hi hrm
  refine ⟨_, hrm, hr, ?_, ?_, ?_, ?_, ?_, ?_, ?_, ?_⟩
  · intro x; simp [removeState]
  · intro p; simp [removeState, touches]
  · intro b; simp [removeState]
  · intro l hl
    obtain ⟨l0, hl0, hp0, _, hs0⟩ := (listing_all U s hi).1
    obtain ⟨l1, hl1, hp1, _, hs1⟩ := (listing_all U _ hr).1
    rw [hl0] at hl; cases hl
    rw [hl1]
    congr 1
    exact eq_of_perm_of_strict U.sdDim id hs1 (hs0.filter _) (hp1.trans (hp0.filter _).symm)
  · intro l hl
    obtain ⟨l0, hl0, hp0, _, hs0⟩ := (listing_all U s hi).2
    obtain ⟨l1, hl1, hp1, _, hs1⟩ := (listing_all U _ hr).2
    rw [hl0] at hl; cases hl
    rw [hl1]
    congr 1
    refine eq_of_perm_of_strict U.ifDim id hs1 (hs0.filter _) (hp1.trans ?_)
    rw [removeState_intfs hi g]
    exact (hp0.filter _).symm
  · intro i hi'
    simp only [State.intfs] at hi'
    rcases mem_map.1 hi' with ⟨p, hp, rfl⟩
    obtain ⟨i, a, b⟩ := p
    have hp0 : (i, a, b) ∈ s.pairs := (mem_filter.1 hp).1
    rw [pairOf_of_mem hr hp, pairOf_of_mem hi hp0]
  · exact lookup_filter_self g s.bgs
  · intro x hx
    exact lookup_filter_ne s.bgs hx

/-! ### boundary grids -/

/-- PROPERTY (boundary grids): every present subdomain of positive dimension has exactly one
    boundary grid (the one `subdomain_to_boundary_grid` returns), a 0-d subdomain has none, there
    are no boundary grids of absent subdomains, and distinct subdomains have distinct ones. -/
theorem one_boundary_grid_per_positive_dim (U : Universe) (s : State) (hi : Inv U s) :
    (∀ g ∈ s.sds, 0 < U.sdDim g →
      ∃ b, bgOfSd s g = some b ∧ s.bgs.filter (fun e => e.1 == g) = [(g, b)]) ∧
    (∀ g ∈ s.sds, U.sdDim g = 0 → bgOfSd s g = none ∧ s.bgs.filter (fun e => e.1 == g) = []) ∧
    (∀ e ∈ s.bgs, e.1 ∈ s.sds ∧ 0 < U.sdDim e.1) ∧
    (s.bgs.map (·.2)).Nodup := by
  have hkn : (s.bgs.map (·.1)).Nodup := by
    rw [hi.bgKeys]; exact hi.sdsNodup.sublist filter_sublist
  refine ⟨?_, ?_, fun e he => bg_parent_mem hi he, hi.bgNodup⟩
  · intro g hg hd
    have : g ∈ s.bgs.map (·.1) := by rw [hi.bgKeys]; simp [hg, hd]
    rcases mem_map.1 this with ⟨⟨g', b⟩, hb, rfl⟩
    exact ⟨b, lookup_eq_some_of_mem hkn hb, filter_key_eq_singleton hkn hb⟩
  · intro g _ hd
    have hnot : g ∉ s.bgs.map (·.1) := by rw [hi.bgKeys]; simp [hd]
    refine ⟨lookup_eq_none_iff.2 hnot, ?_⟩
    rw [filter_eq_nil_iff]
    intro e he hbe
    simp only [beq_iff_eq] at hbe
    exact hnot (hbe ▸ mem_map.2 ⟨e, he, rfl⟩)

/-! ### replacement -/

/-- PROPERTY (replacement): replacing a present subdomain `old` by a fresh grid `new` of the same
    dimension succeeds; `new` takes the place of `old` among the subdomains; the interfaces are
    the same objects and each reports its former pair with `old` replaced by `new`; `old`'s
    boundary grid is gone, `new` has a freshly created one iff its dimension is positive, and all
    other boundary grids are untouched.  (`hsup`: none of the mortar updates the call makes is
    one of the dimension combinations `MortarGrid` does not implement.) -/
theorem replace_exact (U : Universe) (s : State) (hi : Inv U s) {old new : Nat}
    (ho : old ∈ s.sds) (hn : new ∉ s.sds) (hd : U.sdDim new = U.sdDim old)
    (hsup : (plannedCalls U s old new).any (callFails U) = false) :
    ∃ s' c, replace1 U s old new = .ok (s', c) ∧ Inv U s' ∧
      (∀ x, x ∈ s'.sds ↔ (x ∈ s.sds ∨ x = new) ∧ x ≠ old) ∧
      s'.intfs = s.intfs ∧
      (∀ i a b, (i, a, b) ∈ s.pairs →
        pairOf U s' i = .ok (sort2 U (sub old new a) (sub old new b))) ∧
      bgOfSd s' old = none ∧
      bgOfSd s' new = (if 0 < U.sdDim new then some s.nextBg else none) ∧
      (∀ x, x ≠ old → x ≠ new → bgOfSd s' x = bgOfSd s x) := by
  have hc : s.sds.contains old = true := by simpa using ho
  have hne : new ≠ old := fun e => hn (e ▸ ho)
  obtain ⟨s', c, hr⟩ : ∃ s' c, replace1 U s old new = .ok (s', c) :=
    ⟨_, _, replace1_eq_ok ho hsup⟩
  obtain ⟨_, hs', _, _⟩ := replace1_ok hr
  have hi' : Inv U s' := hs' ▸ inv_replaceState hi ho hn hd
  have hnk : new ∉ s.bgs.map (·.1) := by
    rw [hi.bgKeys]; intro hm; exact hn (mem_filter.1 hm).1
  refine ⟨s', c, hr, hi', ?_, ?_, ?_, ?_, ?_, ?_⟩
  · intro x; rw [hs']; exact mem_replaceState_sds hn
  · rw [hs']; exact replaceState_intfs U s old new
  · intro i a b hp
    have hp' : replaceEntry U old new (i, a, b) ∈ s'.pairs := by
      rw [hs', replaceState_pairs]; exact mem_map.2 ⟨_, hp, rfl⟩
    have hm := hi.pairMem _ hp
    unfold replaceEntry at hp'
    split at hp'
    · simp only [] at hp'
      rw [pairOf_of_mem hi' hp']
      rcases sort2_cases U a b with e | e
      · simp only [e]
      · simp only [e]; rw [sort2_comm]
    · rename_i ht
      simp only [touches, Bool.or_eq_true, beq_iff_eq, not_or] at ht
      rw [pairOf_of_mem hi' hp']
      have ha : sub old new a = a := by simp [sub, ht.1]
      have hb : sub old new b = b := by simp [sub, ht.2]
      rw [ha, hb]
  · rw [hs']; unfold replaceState bgOfSd
    simp only []
    split
    · exact lookup_filter_self old _
    · rename_i hany
      rw [lookup_eq_none_iff]
      intro hm
      apply hany
      rcases mem_map.1 hm with ⟨b, hb, hbe⟩
      exact any_eq_true.2 ⟨b, hb, by simp [hbe]⟩
  · rw [hs']; unfold replaceState bgOfSd
    simp only []
    split
    · rename_i hany
      have hpos : 0 < U.sdDim new := by rw [hd]; exact (bgs_any_iff hi ho).1 hany
      rw [lookup_filter_ne _ hne, lookup_append, lookup_eq_none_iff.2 hnk, if_pos hpos]
      simp [lookup]
    · rename_i hany
      have hz : ¬ 0 < U.sdDim new := by
        rw [hd]; exact fun hp => hany ((bgs_any_iff hi ho).2 hp)
      rw [if_neg hz]
      exact lookup_eq_none_iff.2 hnk
  · intro x hxo hxn
    rw [hs']; unfold replaceState bgOfSd
    simp only []
    split
    · rw [lookup_filter_ne _ hxo, lookup_append]
      have : lookup x [(new, s.nextBg)] = none := by
        simp [lookup]; exact fun e => hxn e.symm
      rw [this]; simp
    · rfl

/-- Fidelity of the replacement loop: in a reachable state the sorted list
    `subdomain_to_interfaces(old)` that the code iterates over contains every interface of `old`
    exactly once — `argsort_grids` drops nothing — and `interface_to_subdomain_pair` succeeds on
    each of them with the `sort2` ordering.  So the model's "rewrite every entry that touches
    `old`" is what the loop does. -/
theorem replace_loop_visits_all (U : Universe) (s : State) (hi : Inv U s) (old : Nat) :
    argsortFrom U.ifDim id (dimMax U s.sds) ((s.pairs.filter (touches old)).map (·.1))
        ~ (s.pairs.filter (touches old)).map (·.1) ∧
    (∀ p ∈ s.pairs, pairOf U s p.1 = .ok (sort2 U p.2.1 p.2.2)) := by
  refine ⟨?_, fun p hp => pairOf_of_mem hi hp⟩
  have hf : ((s.pairs.filter (touches old)).map (·.1)).filter
      (fun x => decide (U.ifDim x ≤ dimMax U s.sds)) = (s.pairs.filter (touches old)).map (·.1) := by
    rw [filter_eq_self]
    intro i hmem
    rcases mem_map.1 hmem with ⟨p, hpf, rfl⟩
    have hp0 := (mem_filter.1 hpf).1
    simpa using Nat.le_trans (hi.pairDim p hp0).1 (le_dimMax U (hi.pairMem p hp0).1)
  have hp := argsortFrom_perm U.ifDim id (dimMax U s.sds) ((s.pairs.filter (touches old)).map (·.1))
  rw [hf] at hp
  exact hp

/-- PROPERTY (failed replacement is atomic): an `sd_map` item fails only because the old grid is
    absent (KeyError, no mortar grid touched) or because one of its mortar updates is not
    implemented for the dimensions involved (NotImplementedError); in both cases the container is
    exactly as before the item, and a whole `replace…` call ends in the state reached by the items
    before the failing one, which is again consistent. -/
theorem replace_failure_atomic (U : Universe) (s : State) :
    (∀ old new e c, replace1 U s old new = .error (e, c) →
      ((old ∉ s.sds ∧ e = .keyError ∧ c = []) ∨
       (old ∈ s.sds ∧ e = .notImplementedError ∧
          (plannedCalls U s old new).any (callFails U) = true)) ∧
      (replaceMany U s [(old, new)]).1 = s) ∧
    (∀ im sm, Inv U s → wfReplace U s sm = true →
      Inv U (step U s (.replace im sm)).state) := by
  refine ⟨?_, ?_⟩
  · intro old new e c h
    refine ⟨replace1_error h, ?_⟩
    simp [replaceMany, h]
  · intro im sm hr hw
    exact inv_step (.replace im sm) hr hw

/-! ### rejected calls -/

/-- PROPERTY (rejections): the calls the container must refuse are refused with the documented
    error, and a refused call leaves the container exactly as it was (for an `sd_map` with
    several items: as it was after the items before the failing one). -/
theorem rejections (U : Universe) (s : State) :
    (∀ gs g, g ∈ gs → g ∈ s.sds → addSubdomains U s gs = .error .valueError) ∧
    (∀ gs, ¬ gs.Nodup → addSubdomains U s gs = .error .valueError) ∧
    (∀ i pair, pair.length ≠ 2 → addInterface U s i pair = .error .valueError) ∧
    (∀ i a b, i ∈ s.intfs → addInterface U s i [a, b] = .error .valueError) ∧
    (∀ i a b, U.sdDim a + 3 ≤ U.sdDim b ∨ U.sdDim b + 3 ≤ U.sdDim a →
      addInterface U s i [a, b] = .error .valueError) ∧
    (∀ i a b, s.sds = [] → ∃ e, addInterface U s i [a, b] = .error e) ∧
    (∀ g, g ∉ s.sds → removeSubdomain s g = .error .keyError) ∧
    (∀ old new, old ∉ s.sds → replace1 U s old new = .error (.keyError, [])) ∧
    (∀ op, (step U s op).err ≠ none → (∀ im sm, op = .replace im sm → sm.length ≤ 1) →
      (step U s op).state = s) := by
  refine ⟨?_, ?_, ?_, ?_, ?_, ?_, ?_, ?_, ?_⟩
  · intro gs g hg hs
    unfold addSubdomains
    have : gs.any (fun g => s.sds.contains g) = true := any_eq_true.2 ⟨g, hg, by simpa using hs⟩
    rw [if_pos this]
  · intro gs hn
    unfold addSubdomains
    split
    · rfl
    · have : hasDup gs = true := by
        cases hd : hasDup gs with
        | true => rfl
        | false => exact absurd (hasDup_eq_false.1 hd) hn
      simp [this]
  · intro i pair hl
    unfold addInterface
    split
    · simp at hl
    · rfl
  · intro i a b hi
    have : s.intfs.contains i = true := by simpa using hi
    simp only [addInterface, this, if_true]
  · intro i a b hd
    unfold addInterface
    simp only []
    split
    · rfl
    · split
      · rfl
      · rename_i hc; omega
  · intro i a b he
    unfold addInterface
    simp only []
    split
    · exact ⟨_, rfl⟩
    · split
      · exact ⟨_, rfl⟩
      · rw [sortPair_empty U s a b he]; exact ⟨_, rfl⟩
  · intro g hg
    simp [removeSubdomain, hg]
  · intro old new ho
    simp [replace1, ho]
  · intro op he hop
    cases op with
    | addSubdomains gs =>
      simp only [step] at he ⊢
      cases h : addSubdomains U s gs with
      | error e => rfl
      | ok s' => rw [h] at he; exact absurd rfl he
    | addInterface i pair =>
      simp only [step] at he ⊢
      cases h : addInterface U s i pair with
      | error e => rfl
      | ok s' => rw [h] at he; exact absurd rfl he
    | removeSubdomain g =>
      simp only [step] at he ⊢
      cases h : removeSubdomain s g with
      | error e => rfl
      | ok s' => rw [h] at he; exact absurd rfl he
    | replace im sm =>
      have hl := hop im sm rfl
      match sm, hl with
      | [], _ => rfl
      | [(old, new)], _ =>
        simp only [step, replaceMany] at he ⊢
        cases h : replace1 U s old new with
        | error e => rfl
        | ok r => rw [h] at he; exact absurd rfl he

/-- PROPERTY (acceptance): in any state every call that names present / fresh objects as required is
    accepted (so the rejections above are the only ones). -/
theorem valid_calls_accepted (U : Universe) (s : State) :
    (∀ gs, gs.Nodup → (∀ g ∈ gs, g ∉ s.sds) → ∃ s', addSubdomains U s gs = .ok s') ∧
    (∀ i a b, i ∉ s.intfs → a ∈ s.sds → b ∈ s.sds → U.sdDim a < U.sdDim b + 3 →
      U.sdDim b < U.sdDim a + 3 →
      addInterface U s i [a, b] = .ok { s with pairs := s.pairs ++ [(i, (sort2 U a b).1, (sort2 U a b).2)] }) ∧
    (∀ g, g ∈ s.sds → ∃ s', removeSubdomain s g = .ok s') ∧
    (∀ old new, old ∈ s.sds → (plannedCalls U s old new).any (callFails U) = false →
      ∃ r, replace1 U s old new = .ok r) := by
  refine ⟨?_, ?_, ?_, ?_⟩
  · intro gs hn hd
    unfold addSubdomains
    have h1 : gs.any (fun g => s.sds.contains g) = false := by
      rw [any_eq_false]
      intro g hg
      simpa using hd g hg
    have h2 : hasDup gs = false := hasDup_eq_false.2 hn
    rw [if_neg (by rw [h1]; exact Bool.false_ne_true), if_neg (by rw [h2]; exact Bool.false_ne_true)]
    exact ⟨_, rfl⟩
  · intro i a b hi ha hb h1 h2
    have hc : s.intfs.contains i = false := by simpa using hi
    have hcd : ¬ 3 ≤ (U.sdDim a - U.sdDim b) + (U.sdDim b - U.sdDim a) := by omega
    simp only [addInterface]
    rw [if_neg (by rw [hc]; exact Bool.false_ne_true), if_neg hcd, sortPair_eq_sort2 U s ha hb]
  · intro g hg
    exact ⟨_, removeSubdomain_eq hg⟩
  · intro old new ho hs
    exact ⟨_, replace1_eq_ok ho hs⟩

/-! ### data dictionaries -/

/-- PROPERTY (data dictionaries): in a consistent container every present subdomain, interface and
    boundary grid has its data dictionary and absent ones have none (the getters raise KeyError);
    no dictionary is shared between two keys of any kind. -/
theorem data_dictionaries_consistent (U : Universe) (d : DState) (hi : DInv U d) :
    (∀ g, (g ∈ d.core.sds → ∃ t, dataOfSd d g = some t) ∧ (g ∉ d.core.sds → dataOfSd d g = none)) ∧
    (∀ i, (i ∈ d.core.intfs → ∃ t, dataOfIf d i = some t) ∧ (i ∉ d.core.intfs → dataOfIf d i = none)) ∧
    (∀ b, (b ∈ d.core.bgs.map (·.2) → ∃ t, dataOfBg d b = some t) ∧
          (b ∉ d.core.bgs.map (·.2) → dataOfBg d b = none)) ∧
    (allToks d).Nodup ∧
    (∀ g g' t, dataOfSd d g = some t → dataOfSd d g' = some t → g = g') := by
  refine ⟨?_, ?_, ?_, hi.tokNodup, ?_⟩
  · intro g
    exact ⟨fun h => lookup_of_key_mem (by rw [hi.sdKeys]; exact h),
      fun h => lookup_eq_none_iff.2 (by rw [hi.sdKeys]; exact h)⟩
  · intro i
    exact ⟨fun h => lookup_of_key_mem (by rw [hi.ifKeys]; exact h),
      fun h => lookup_eq_none_iff.2 (by rw [hi.ifKeys]; exact h)⟩
  · intro b
    exact ⟨fun h => lookup_of_key_mem (by rw [hi.bgKeys]; exact h),
      fun h => lookup_eq_none_iff.2 (by rw [hi.bgKeys]; exact h)⟩
  · intro g g' t h h'
    have hn : (d.sdData.map (·.2)).Nodup := by
      have := hi.tokNodup
      simp only [allToks, append_assoc] at this
      exact (nodup_append.1 this).1
    exact eq_of_lookup_eq_some hn h h'

/-- PROPERTY (data travels with replacement): replacing `old` by a fresh `new` of the same
    dimension hands `old`'s data dictionary over to `new` and the dictionary of `old`'s boundary
    grid over to `new`'s freshly created boundary grid; the dictionaries of all interfaces and of
    all other subdomains and boundary grids stay where they were. -/
theorem replace_data_travels (U : Universe) (d : DState) (hi : DInv U d) {old new : Nat}
    (ho : old ∈ d.core.sds) (hn : new ∉ d.core.sds) (hd : U.sdDim new = U.sdDim old)
    (hsup : (plannedCalls U d.core old new).any (callFails U) = false) :
    ∃ d' c, dReplace1 U d old new = .ok (d', c) ∧ DInv U d' ∧
      dataOfSd d' new = dataOfSd d old ∧ dataOfSd d' old = none ∧
      (∀ x, x ≠ old → x ≠ new → dataOfSd d' x = dataOfSd d x) ∧
      (∀ i, dataOfIf d' i = dataOfIf d i) ∧
      (∀ bOld, bgOfSd d.core old = some bOld →
        bgOfSd d'.core new = some d.core.nextBg ∧
        dataOfBg d' d.core.nextBg = dataOfBg d bOld ∧ dataOfBg d' bOld = none ∧
        ∀ b, b ≠ bOld → b ≠ d.core.nextBg → dataOfBg d' b = dataOfBg d b) ∧
      (bgOfSd d.core old = none → ∀ b, dataOfBg d' b = dataOfBg d b) := by
  have hne : new ≠ old := fun e => hn (e ▸ ho)
  have hr := replace1_eq_ok ho hsup
  obtain ⟨d', c, hd'⟩ : ∃ d' c, dReplace1 U d old new = .ok (d', c) := by
    unfold dReplace1; rw [hr]; exact ⟨_, _, rfl⟩
  obtain ⟨hr', hsd, hif, hbg, _⟩ := dReplace1_ok hd'
  obtain ⟨t, ht⟩ := lookup_of_key_mem (l := d.sdData) (k := old) (by rw [hi.sdKeys]; exact ho)
  have hnk : new ∉ d.sdData.map (·.1) := by rw [hi.sdKeys]; exact hn
  refine ⟨d', c, hd', dinv_replace1 hi hn hd hd', ?_, ?_, ?_, ?_, ?_, ?_⟩
  · unfold dataOfSd; rw [hsd, moveKey_lookup_new ht hne hnk, ht]
  · unfold dataOfSd; rw [hsd, moveKey_eq ht hne, lookup_append, lookup_filter_self]
    simp [lookup, hne]
  · intro x hxo hxn
    unfold dataOfSd; rw [hsd, moveKey_lookup_other ht hne hxo hxn]
  · intro i; unfold dataOfIf; rw [hif]
  · intro bOld hb
    unfold bgOfSd at hb
    have hmem := mem_of_lookup_eq_some hb
    have hfresh : d.core.nextBg ≠ bOld := by
      have := hi.core.bgFresh _ hmem
      simp only [] at this
      omega
    obtain ⟨tb, htb⟩ := lookup_of_key_mem (l := d.bgData) (k := bOld)
      (by rw [hi.bgKeys]; exact mem_map.2 ⟨_, hmem, rfl⟩)
    have hfk : d.core.nextBg ∉ d.bgData.map (·.1) := by
      rw [hi.bgKeys]
      intro hm
      rcases mem_map.1 hm with ⟨b, hbm, hbe⟩
      have := hi.core.bgFresh b hbm
      omega
    rw [hb] at hbg
    simp only [] at hbg
    have hcore : d'.core = replaceState U d.core old new := (replace1_ok hr').2.1
    have hany : d.core.bgs.any (fun b => b.1 == old) = true := any_eq_true.2 ⟨_, hmem, by simp⟩
    have hnkb : new ∉ d.core.bgs.map (·.1) := by
      rw [hi.core.bgKeys]; intro hm; exact hn (mem_filter.1 hm).1
    refine ⟨?_, ?_, ?_, ?_⟩
    · rw [hcore]; unfold replaceState bgOfSd
      simp only [if_pos hany]
      rw [lookup_filter_ne _ hne, lookup_append, lookup_eq_none_iff.2 hnkb]
      simp [lookup]
    · unfold dataOfBg; rw [hbg, moveKey_lookup_new htb hfresh hfk, htb]
    · unfold dataOfBg; rw [hbg, moveKey_eq htb hfresh, lookup_append, lookup_filter_self]
      simp [lookup, hfresh]
    · intro b hb1 hb2
      unfold dataOfBg; rw [hbg, moveKey_lookup_other htb hfresh hb1 hb2]
  · intro hb b
    unfold bgOfSd at hb
    rw [hb] at hbg
    unfold dataOfBg; rw [hbg]

/-- PROPERTY (data frame of the other calls): `add_subdomains` / `add_interface` leave every
    existing dictionary where it is; `remove_subdomain(g)` drops `g`'s dictionary and keeps those of
    all other subdomains and of all surviving interfaces and boundary grids. -/
theorem data_frame (U : Universe) (d : DState) :
    (∀ gs d', dAddSubdomains U d gs = .ok d' →
      (∀ x t, dataOfSd d x = some t → dataOfSd d' x = some t) ∧
      (∀ i, dataOfIf d' i = dataOfIf d i) ∧
      (∀ b t, dataOfBg d b = some t → dataOfBg d' b = some t)) ∧
    (∀ i pair d', dAddInterface U d i pair = .ok d' →
      (∀ x, dataOfSd d' x = dataOfSd d x) ∧ (∀ b, dataOfBg d' b = dataOfBg d b) ∧
      (∀ j t, dataOfIf d j = some t → dataOfIf d' j = some t)) ∧
    (∀ g d', dRemoveSubdomain d g = .ok d' →
      dataOfSd d' g = none ∧ (∀ x, x ≠ g → dataOfSd d' x = dataOfSd d x) ∧
      (∀ i, i ∈ d'.core.intfs → dataOfIf d' i = dataOfIf d i) ∧
      (∀ b, b ∈ d'.core.bgs.map (·.2) → dataOfBg d' b = dataOfBg d b)) := by
  refine ⟨?_, ?_, ?_⟩
  · intro gs d' h
    unfold dAddSubdomains at h
    cases ha : addSubdomains U d.core gs with
    | error e => rw [ha] at h; cases h
    | ok s' =>
      rw [ha] at h; simp only [] at h; cases h
      exact ⟨fun x t hx => lookup_append_of_some hx, fun i => rfl,
        fun b t hb => lookup_append_of_some hb⟩
  · intro i pair d' h
    unfold dAddInterface at h
    cases ha : addInterface U d.core i pair with
    | error e => rw [ha] at h; cases h
    | ok s' =>
      rw [ha] at h; simp only [] at h; cases h
      exact ⟨fun x => rfl, fun b => rfl, fun j t hj => lookup_append_of_some hj⟩
  · intro g d' h
    unfold dRemoveSubdomain at h
    cases hr : removeSubdomain d.core g with
    | error e => rw [hr] at h; cases h
    | ok s' =>
      rw [hr] at h; simp only [] at h; cases h
      refine ⟨lookup_filter_self g _, fun x hx => lookup_filter_ne _ hx, ?_, ?_⟩
      · intro i hi'
        exact lookup_filter_key (fun k => s'.intfs.contains k) d.ifData (by simpa using hi')
      · intro b hb
        exact lookup_filter_key (fun k => (s'.bgs.map (·.2)).contains k) d.bgData (by simpa using hb)

/-! ### `copy()` -/

def WReachable (U : Universe) (w : World) : Prop :=
  ∃ os, wfWorld U World.init os = true ∧ w = wrun U World.init os

/-- Main induction for several containers: whatever well-formed calls are made, in whatever
    interleaving, on a container and on its (copies of) copies, every container stays consistent
    (`DInv`, which contains `Inv`), so every property theorem of this file holds for each of them. -/
theorem world_inv (U : Universe) (w : World) (h : WReachable U w) :
    ∀ d ∈ w.conts, DInv U d ∧ Inv U d.core := by
  obtain ⟨os, hw, rfl⟩ := h
  intro d hd
  have := winv_run os (winv_init U) hw d hd
  exact ⟨this.1, this.1.core⟩

/-- PROPERTY (`copy()`): the copy is a new container with exactly the content of the original —
    the same grid, mortar-grid and boundary-grid objects and the very same data dictionaries —
    and making it changes no existing container; afterwards a call on one container changes no
    other container, so a copy and its original evolve independently (while sharing objects). -/
theorem copy_shares_and_is_independent (U : Universe) (w : World) :
    (∀ k d, w.conts[k]? = some d →
      (wstep U w (.copy k)).conts = w.conts ++ [d] ∧
      (wstep U w (.copy k)).conts[w.conts.length]? = some d ∧
      ∀ j, j < w.conts.length → (wstep U w (.copy k)).conts[j]? = w.conts[j]?) ∧
    (∀ k op j, j ≠ k → (wstep U w (.on k op)).conts[j]? = w.conts[j]?) ∧
    (∀ k op, (wstep U w (.on k op)).conts.length = w.conts.length) := by
  refine ⟨?_, ?_, ?_⟩
  · intro k d hk
    have hstep : wstep U w (.copy k) = { w with conts := w.conts ++ [d] } := by
      simp [wstep, hk]
    rw [hstep]
    refine ⟨rfl, getElem?_concat_length, ?_⟩
    intro j hj
    exact getElem?_append_left hj
  · intro k op j hj
    simp only [wstep]
    cases hk : w.conts[k]? with
    | none => rfl
    | some d => simp only []; exact getElem?_set_ne (Ne.symm hj)
  · intro k op
    simp only [wstep]
    cases hk : w.conts[k]? with
    | none => rfl
    | some d => simp

/-- a whole history of calls on other containers (and further copies) leaves container `k` as it is -/
theorem other_containers_histories (U : Universe) (k : Nat) (os : List WOp) (w : World)
    (hk : k < w.conts.length)
    (hos : ∀ o ∈ os, match o with | .on m _ => m ≠ k | .copy _ => True) :
    (wrun U w os).conts[k]? = w.conts[k]? := by
  induction os generalizing w with
  | nil => rfl
  | cons o os ih =>
    simp only [wrun]
    have ho := hos o mem_cons_self
    have hrest : ∀ o' ∈ os, match o' with | .on m _ => m ≠ k | .copy _ => True :=
      fun o' h' => hos o' (mem_cons_of_mem _ h')
    cases o with
    | on m op =>
      simp only [] at ho
      have hlen := (copy_shares_and_is_independent U w).2.2 m op
      rw [ih _ (by rw [hlen]; exact hk) hrest]
      exact (copy_shares_and_is_independent U w).2.1 m op k (Ne.symm ho)
    | copy m =>
      cases hm : w.conts[m]? with
      | none =>
        have : wstep U w (.copy m) = w := by simp [wstep, hm]
        rw [this]; exact ih w hk hrest
      | some d =>
        obtain ⟨hc, _, hj⟩ := (copy_shares_and_is_independent U w).1 m d hm
        rw [ih _ (by rw [hc]; simp; omega) hrest]
        exact hj k hk

/-! ### non-vacuity: a concrete history (3-d, 2-d, two 1-d, one 0-d grid) -/

/-- grids 0..6 of dimension 3,2,1,1,0,1,2; mortar grids 0..3 of dimension 2,1,1,0 -/
def exU : Universe :=
  ⟨fun k => [3, 2, 1, 1, 0, 1, 2].getD k 0, fun k => [2, 1, 1, 0].getD k 0, fun _ => 1⟩

def exOps : List Op :=
  [.addSubdomains [2, 0], .addSubdomains [1, 4, 3],
   .addInterface 0 [1, 0], .addInterface 1 [2, 1], .addInterface 2 [1, 3], .addInterface 3 [4, 3],
   .addSubdomains [2],                      -- rejected: present
   .addInterface 3 [2, 4],                  -- rejected: existing interface
   .replace [1] [(3, 5)],                   -- refine the second 1-d grid
   .removeSubdomain 2,
   .replace [] [(1, 6)],
   .removeSubdomain 9]                      -- rejected: absent

example : wfHist exU State.empty exOps = true := by decide
example : Reachable exU (run exU State.empty exOps) := ⟨exOps, by decide, rfl⟩
example : run exU State.empty exOps =
    ⟨[0, 4, 5, 6], [(0, 0, 6), (2, 6, 5), (3, 5, 4)], [(0, 1), (5, 4), (6, 5)], 6⟩ := by decide
example : (listSubdomains exU (run exU State.empty exOps) none).toOption = some [0, 6, 5, 4] := by decide
example : (listInterfaces exU (run exU State.empty exOps) none none).toOption = some [0, 2, 3] := by decide
example : (listBoundaries exU (run exU State.empty exOps) none).toOption = some [(0, 1), (6, 5), (5, 4)] := by decide
example : (pairOf exU (run exU State.empty exOps) 2).toOption = some (6, 5) := by decide
example : (intfOfPair (run exU State.empty exOps) 5 6).toOption = some 2 := by decide
example : (step exU (run exU State.empty exOps) (.addInterface 1 [0, 4])).err = some .valueError := by
  decide
example : (step exU (run exU State.empty exOps) (.removeSubdomain 6)).state =
    ⟨[0, 4, 5], [(3, 5, 4)], [(0, 1), (5, 4)], 6⟩ := by decide


/-- replacing the 3-d grid 0 while it is the primary side of the 2-d mortar grid 0 is not
    implemented: the call fails and changes nothing -/
example : (step exU ⟨[0, 1], [(0, 0, 1)], [(0, 0), (1, 1)], 2⟩ (.replace [] [(0, 6)])).err
    = some .notImplementedError := by decide
example : (step exU ⟨[0, 1], [(0, 0, 1)], [(0, 0), (1, 1)], 2⟩ (.replace [] [(0, 6)])).state
    = ⟨[0, 1], [(0, 0, 1)], [(0, 0), (1, 1)], 2⟩ := by decide

/-- two containers: fill, copy, then replace grid 2 by 5 in the copy and remove grid 1 in the original -/
def exW : List WOp :=
  [.on 0 (.addSubdomains [2, 0]), .on 0 (.addSubdomains [1, 4, 3]), .on 0 (.addInterface 1 [2, 1]),
   .copy 0, .on 1 (.replace [] [(2, 5)]), .on 0 (.removeSubdomain 1), .on 1 (.addSubdomains [6])]

example : wfWorld exU World.init exW = true := by decide
example : WReachable exU (wrun exU World.init exW) := ⟨exW, by decide, rfl⟩
example : (wrun exU World.init exW).conts.map (fun d => (d.core.sds, d.core.pairs)) =
    [([2, 0, 4, 3], []), ([0, 1, 4, 3, 5, 6], [(1, 1, 5)])] := by decide
/-- grid 5 of the copy holds the dictionary grid 2 has in the original; so do their boundary grids -/
example : dataOfSd ((wrun exU World.init exW).conts.getD 1 DState.empty) 5
    = dataOfSd ((wrun exU World.init exW).conts.getD 0 DState.empty) 2 := by decide
example : dataOfBg ((wrun exU World.init exW).conts.getD 1 DState.empty) 4
    = dataOfBg ((wrun exU World.init exW).conts.getD 0 DState.empty) 0 := by decide

end PorepyVerif.C24
