/-
C24 — helper lemmas: the sorting of `argsort_grids`, and the invariant of the container.
-/
import PorepyVerif.C24.Model

namespace PorepyVerif.C24
open List

/-! ### sorting -/

section Sorting
variable {α : Type} (dimOf idOf : α → Nat)

/-- "decreasing dimension, then increasing id" (non-strict) -/
def keyLe (a b : α) : Prop := dimOf b < dimOf a ∨ (dimOf a = dimOf b ∧ idOf a ≤ idOf b)

/-- "decreasing dimension, then increasing id" (strict) -/
def keyLt (a b : α) : Prop := dimOf b < dimOf a ∨ (dimOf a = dimOf b ∧ idOf a < idOf b)

theorem insertById_perm (x : α) (l : List α) : insertById idOf x l ~ x :: l := by
  induction l with
  | nil => exact Perm.refl _
  | cons y l ih =>
    simp only [insertById]
    split
    · exact Perm.refl _
    · exact (Perm.cons y ih).trans (Perm.swap x y l)

theorem sortById_perm (l : List α) : sortById idOf l ~ l := by
  induction l with
  | nil => exact Perm.refl _
  | cons x l ih => exact (insertById_perm idOf x _).trans (Perm.cons x ih)

theorem insertById_sorted (x : α) (l : List α) (h : l.Pairwise (fun a b => idOf a ≤ idOf b)) :
    (insertById idOf x l).Pairwise (fun a b => idOf a ≤ idOf b) := by
  induction l with
  | nil => simp [insertById]
  | cons y l ih =>
    simp only [insertById]
    rw [pairwise_cons] at h
    split
    · rename_i hxy
      rw [pairwise_cons]
      refine ⟨?_, pairwise_cons.2 h⟩
      intro a ha
      rcases mem_cons.1 ha with rfl | ha
      · exact hxy
      · exact Nat.le_trans hxy (h.1 a ha)
    · rename_i hxy
      rw [pairwise_cons]
      refine ⟨?_, ih h.2⟩
      intro a ha
      have := (insertById_perm idOf x l).mem_iff.1 ha
      rcases mem_cons.1 this with rfl | ha
      · omega
      · exact h.1 a ha

theorem sortById_sorted (l : List α) : (sortById idOf l).Pairwise (fun a b => idOf a ≤ idOf b) := by
  induction l with
  | nil => simp [sortById]
  | cons x l ih => exact insertById_sorted idOf x _ ih

theorem filter_split (d : Nat) (l : List α) :
    l.filter (fun x => decide (dimOf x ≤ d + 1)) ~
      l.filter (fun x => dimOf x == d + 1) ++ l.filter (fun x => decide (dimOf x ≤ d)) := by
  induction l with
  | nil => exact Perm.refl _
  | cons x l ih =>
    by_cases h1 : dimOf x = d + 1
    · have h2 : ¬ dimOf x ≤ d := by omega
      simp only [filter_cons, h1, Nat.le_refl, decide_true, if_true, beq_self_eq_true, cons_append]
      have h3 : decide (d + 1 ≤ d) = false := by simp
      simp only [h3]
      exact Perm.cons x ih
    · by_cases h2 : dimOf x ≤ d
      · have h3 : dimOf x ≤ d + 1 := by omega
        have h4 : (dimOf x == d + 1) = false := by simp [h1]
        simp only [filter_cons, h2, h3, h4, decide_true, if_true]
        exact (Perm.cons x ih).trans perm_middle.symm
      · have h3 : ¬ dimOf x ≤ d + 1 := by omega
        have h4 : (dimOf x == d + 1) = false := by simp [h1]
        simp only [filter_cons, h2, h3, h4, decide_false]
        exact ih

theorem argsortFrom_perm (d : Nat) (xs : List α) :
    argsortFrom dimOf idOf d xs ~ xs.filter (fun x => decide (dimOf x ≤ d)) := by
  induction d with
  | zero =>
    simp only [argsortFrom]
    have : (fun x => decide (dimOf x ≤ 0)) = (fun x => dimOf x == 0) := by
      funext x; by_cases h : dimOf x = 0 <;> simp [h]
    rw [this]
    exact sortById_perm idOf _
  | succ d ih =>
    simp only [argsortFrom]
    exact ((sortById_perm idOf _).append ih).trans (filter_split dimOf d xs).symm

theorem mem_argsortFrom {d : Nat} {xs : List α} {x : α} :
    x ∈ argsortFrom dimOf idOf d xs ↔ x ∈ xs ∧ dimOf x ≤ d := by
  rw [(argsortFrom_perm dimOf idOf d xs).mem_iff]
  simp

theorem argsortFrom_sorted (d : Nat) (xs : List α) :
    (argsortFrom dimOf idOf d xs).Pairwise (keyLe dimOf idOf) := by
  induction d with
  | zero =>
    simp only [argsortFrom]
    refine (sortById_sorted idOf _).imp_of_mem ?_
    intro a b ha hb hab
    have ha' := (sortById_perm idOf _).mem_iff.1 ha
    have hb' := (sortById_perm idOf _).mem_iff.1 hb
    simp only [mem_filter, beq_iff_eq] at ha' hb'
    exact Or.inr ⟨by omega, hab⟩
  | succ d ih =>
    simp only [argsortFrom]
    rw [pairwise_append]
    refine ⟨?_, ih, ?_⟩
    · refine (sortById_sorted idOf _).imp_of_mem ?_
      intro a b ha hb hab
      have ha' := (sortById_perm idOf _).mem_iff.1 ha
      have hb' := (sortById_perm idOf _).mem_iff.1 hb
      simp only [mem_filter, beq_iff_eq] at ha' hb'
      exact Or.inr ⟨by omega, hab⟩
    · intro a ha b hb
      have ha' := (sortById_perm idOf _).mem_iff.1 ha
      simp only [mem_filter, beq_iff_eq] at ha'
      have hb' := (mem_argsortFrom dimOf idOf).1 hb
      exact Or.inl (by omega)

theorem argsortFrom_strict (d : Nat) (xs : List α) (hn : (xs.map idOf).Nodup) :
    (argsortFrom dimOf idOf d xs).Pairwise (keyLt dimOf idOf) := by
  have hp := argsortFrom_perm dimOf idOf d xs
  have hn' : ((argsortFrom dimOf idOf d xs).map idOf).Nodup :=
    ((hp.map idOf).nodup_iff).2 (hn.sublist (filter_sublist.map idOf))
  have hne : (argsortFrom dimOf idOf d xs).Pairwise (fun a b => idOf a ≠ idOf b) := by
    simpa [Nodup, pairwise_map] using hn'
  refine ((argsortFrom_sorted dimOf idOf d xs).and hne).imp ?_
  intro a b h
  rcases h.1 with h1 | h1
  · exact Or.inl h1
  · exact Or.inr ⟨h1.1, Nat.lt_of_le_of_ne h1.2 h.2⟩

theorem keyLt_irrefl_pairwise_nodup {l : List α} (h : l.Pairwise (keyLt dimOf idOf)) : l.Nodup := by
  refine h.imp ?_
  intro a b hab heq
  subst heq
  rcases hab with h | h
  · exact Nat.lt_irrefl _ h
  · exact Nat.lt_irrefl _ h.2

end Sorting

/-! ### small list facts -/

theorem hasDup_eq_false {l : List Nat} : hasDup l = false ↔ l.Nodup := by
  induction l with
  | nil => simp [hasDup]
  | cons x l ih => simp [hasDup, nodup_cons, ih]

theorem le_dimMax (U : Universe) {g : Nat} {l : List Nat} (h : g ∈ l) : U.sdDim g ≤ dimMax U l := by
  induction l with
  | nil => cases h
  | cons x l ih =>
    simp only [dimMax]
    rcases mem_cons.1 h with rfl | h
    · exact Nat.le_max_left _ _
    · exact Nat.le_trans (ih h) (Nat.le_max_right _ _)

theorem lookup_eq_some_of_mem {β : Type} {k : Nat} {v : β} {l : List (Nat × β)}
    (hn : (l.map (·.1)).Nodup) (h : (k, v) ∈ l) : lookup k l = some v := by
  induction l with
  | nil => cases h
  | cons p l ih =>
    simp only [map_cons, nodup_cons] at hn
    simp only [lookup]
    rcases mem_cons.1 h with rfl | h
    · simp
    · have : p.1 ≠ k := by
        intro hpk
        exact hn.1 (hpk ▸ mem_map.2 ⟨(k, v), h, rfl⟩)
      simp [this, ih hn.2 h]

theorem mem_of_lookup_eq_some {β : Type} {k : Nat} {v : β} {l : List (Nat × β)}
    (h : lookup k l = some v) : (k, v) ∈ l := by
  induction l with
  | nil => simp [lookup] at h
  | cons p l ih =>
    simp only [lookup] at h
    split at h
    · rename_i hpk
      simp only [beq_iff_eq] at hpk
      cases h
      rw [← hpk]
      exact mem_cons_self
    · exact mem_cons_of_mem _ (ih h)

theorem lookup_eq_none_iff {β : Type} {k : Nat} {l : List (Nat × β)} :
    lookup k l = none ↔ k ∉ l.map (·.1) := by
  induction l with
  | nil => simp [lookup]
  | cons p l ih =>
    simp only [lookup, map_cons, mem_cons, not_or]
    split
    · rename_i hpk
      simp only [beq_iff_eq] at hpk
      simp [hpk]
    · rename_i hpk
      simp only [beq_iff_eq] at hpk
      rw [ih]
      constructor
      · intro h; exact ⟨fun e => hpk e.symm, h⟩
      · intro h; exact h.2

/-! ### `sort2` and `sortPair` -/

theorem sort2_cases (U : Universe) (a b : Nat) :
    sort2 U a b = (a, b) ∨ sort2 U a b = (b, a) := by
  unfold sort2; split
  · exact Or.inr rfl
  · split
    · exact Or.inl rfl
    · split
      · exact Or.inl rfl
      · exact Or.inr rfl

theorem sort2_sorted (U : Universe) (a b : Nat) :
    keyLe U.sdDim id (sort2 U a b).1 (sort2 U a b).2 := by
  unfold sort2 keyLe; split
  · exact Or.inl (by assumption)
  · split
    · exact Or.inl (by assumption)
    · split
      · exact Or.inr ⟨by simp only []; omega, by assumption⟩
      · exact Or.inr ⟨by simp only []; omega, by simp only [id]; omega⟩

theorem sort2_comm (U : Universe) (a b : Nat) : sort2 U a b = sort2 U b a := by
  unfold sort2
  by_cases h1 : U.sdDim a < U.sdDim b
  · have h2 : ¬ U.sdDim b < U.sdDim a := by omega
    simp [h1, h2]
  · by_cases h2 : U.sdDim b < U.sdDim a
    · simp [h1, h2]
    · by_cases h3 : a ≤ b
      · by_cases h4 : b ≤ a
        · have : a = b := by omega
          subst this; simp
        · simp [h1, h2, h3, h4]
      · have h4 : b ≤ a := by omega
        simp [h1, h2, h3, h4]

theorem sort2_idem (U : Universe) (a b : Nat) :
    sort2 U (sort2 U a b).1 (sort2 U a b).2 = sort2 U a b := by
  rcases sort2_cases U a b with h | h
  · rw [h]; exact h
  · rw [h]; show sort2 U b a = (b, a); rw [sort2_comm, h]

theorem keyLe_antisymm (U : Universe) {a b : Nat} (h1 : keyLe U.sdDim id a b)
    (h2 : keyLe U.sdDim id b a) : a = b := by
  unfold keyLe at h1 h2
  simp only [id] at h1 h2
  omega

theorem sortPair_eq_sort2' (U : Universe) (s : State) (a b : Nat) (hne : s.sds ≠ [])
    (ha : U.sdDim a ≤ dimMax U s.sds) (hb : U.sdDim b ≤ dimMax U s.sds) :
    sortPair U s a b = .ok (sort2 U a b) := by
  have hl : argsortFrom U.sdDim id (dimMax U s.sds) [a, b] = [(sort2 U a b).1, (sort2 U a b).2] := by
    have hp := argsortFrom_perm U.sdDim id (dimMax U s.sds) [a, b]
    have hf : [a, b].filter (fun x => decide (U.sdDim x ≤ dimMax U s.sds)) = [a, b] := by
      simp [ha, hb]
    rw [hf] at hp
    have hs := argsortFrom_sorted U.sdDim id (dimMax U s.sds) [a, b]
    have hp2 : [(sort2 U a b).1, (sort2 U a b).2] ~ [a, b] := by
      rcases sort2_cases U a b with h | h
      · rw [h]
      · rw [h]; exact Perm.swap _ _ _
    have hs2 : [(sort2 U a b).1, (sort2 U a b).2].Pairwise (keyLe U.sdDim id) := by
      simp [sort2_sorted]
    exact Perm.eq_of_pairwise (fun x y _ _ h1 h2 => keyLe_antisymm U h1 h2) hs hs2 (hp.trans hp2.symm)
  unfold sortPair sortGrids
  cases hsd : s.sds with
  | nil => exact absurd hsd hne
  | cons g l =>
    simp only []
    rw [hsd] at hl
    rw [hl]

theorem sortPair_eq_sort2 (U : Universe) (s : State) {a b : Nat} (ha : a ∈ s.sds) (hb : b ∈ s.sds) :
    sortPair U s a b = .ok (sort2 U a b) :=
  sortPair_eq_sort2' U s a b (ne_nil_of_mem ha) (le_dimMax U ha) (le_dimMax U hb)

theorem sortPair_empty (U : Universe) (s : State) (a b : Nat) (h : s.sds = []) :
    sortPair U s a b = .error .assertionError := by
  unfold sortPair sortGrids
  rw [h]; simp

theorem sortPair_index (U : Universe) (s : State) (a b : Nat) (hne : s.sds ≠ [])
    (h : ¬ (U.sdDim a ≤ dimMax U s.sds ∧ U.sdDim b ≤ dimMax U s.sds)) :
    sortPair U s a b = .error .indexError := by
  have hlen : (argsortFrom U.sdDim id (dimMax U s.sds) [a, b]).length < 2 := by
    rw [(argsortFrom_perm U.sdDim id (dimMax U s.sds) [a, b]).length_eq]
    by_cases ha : U.sdDim a ≤ dimMax U s.sds
    · have hb : ¬ U.sdDim b ≤ dimMax U s.sds := fun hb => h ⟨ha, hb⟩
      simp [ha, hb]
    · by_cases hb : U.sdDim b ≤ dimMax U s.sds
      · simp [ha, hb]
      · simp [ha, hb]
  unfold sortPair sortGrids
  cases hsd : s.sds with
  | nil => exact absurd hsd hne
  | cons g l =>
    simp only []
    rw [hsd] at hlen
    match hm : argsortFrom U.sdDim id (dimMax U (g :: l)) [a, b], hlen with
    | [], _ => rfl
    | [_], _ => rfl
    | _ :: _ :: _, hlen => simp at hlen; omega

/-! ### the invariant -/

/-- Consistency of the container (what the property says about every reachable state). -/
structure Inv (U : Universe) (s : State) : Prop where
  sdsNodup : s.sds.Nodup
  intfNodup : s.intfs.Nodup
  pairMem : ∀ p ∈ s.pairs, p.2.1 ∈ s.sds ∧ p.2.2 ∈ s.sds
  pairDim : ∀ p ∈ s.pairs, U.ifDim p.1 ≤ U.sdDim p.2.1 ∧ U.ifDim p.1 ≤ U.sdDim p.2.2
  bgKeys : s.bgs.map (·.1) = s.sds.filter (fun g => decide (0 < U.sdDim g))
  bgFresh : ∀ b ∈ s.bgs, b.2 < s.nextBg
  bgNodup : (s.bgs.map (·.2)).Nodup

theorem inv_empty (U : Universe) : Inv U State.empty := by
  constructor <;> simp [State.empty, State.intfs]


/-! ### preservation of the invariant -/

theorem nodup_snoc {α : Type} {l : List α} {a : α} : (l ++ [a]).Nodup ↔ a ∉ l ∧ l.Nodup := by
  rw [(perm_append_singleton a l).nodup_iff, nodup_cons]

theorem addOne_sds (U : Universe) (s : State) (g : Nat) : (addOne U s g).sds = s.sds ++ [g] := by
  unfold addOne; split <;> rfl

theorem addOne_pairs (U : Universe) (s : State) (g : Nat) : (addOne U s g).pairs = s.pairs := by
  unfold addOne; split <;> rfl

theorem inv_addOne {U : Universe} {s : State} {g : Nat} (h : Inv U s) (hg : g ∉ s.sds) :
    Inv U (addOne U s g) := by
  have hsds := addOne_sds U s g
  have hpairs := addOne_pairs U s g
  refine ⟨?_, ?_, ?_, ?_, ?_, ?_, ?_⟩
  · rw [hsds]; exact nodup_snoc.2 ⟨hg, h.sdsNodup⟩
  · unfold State.intfs; rw [hpairs]; exact h.intfNodup
  · intro p hp
    rw [hpairs] at hp; rw [hsds]
    exact ⟨mem_append_left _ (h.pairMem p hp).1, mem_append_left _ (h.pairMem p hp).2⟩
  · intro p hp
    rw [hpairs] at hp
    exact h.pairDim p hp
  · unfold addOne
    split
    · rename_i hd
      simp [h.bgKeys, hd]
    · rename_i hd
      simp [h.bgKeys, hd]
  · unfold addOne
    split
    · intro b hb
      simp only [mem_append, mem_singleton] at hb
      rcases hb with hb | rfl
      · exact Nat.lt_succ_of_lt (h.bgFresh b hb)
      · exact Nat.lt_succ_self _
    · exact h.bgFresh
  · unfold addOne
    split
    · simp only [map_append, map_cons, map_nil]
      refine nodup_snoc.2 ⟨?_, h.bgNodup⟩
      intro hm
      rcases mem_map.1 hm with ⟨b, hb, hbe⟩
      have := h.bgFresh b hb
      omega
    · exact h.bgNodup

theorem foldl_addOne_sds (U : Universe) (gs : List Nat) (s : State) :
    (gs.foldl (addOne U) s).sds = s.sds ++ gs := by
  induction gs generalizing s with
  | nil => simp
  | cons g gs ih => simp [foldl_cons, ih, addOne_sds]

theorem foldl_addOne_pairs (U : Universe) (gs : List Nat) (s : State) :
    (gs.foldl (addOne U) s).pairs = s.pairs := by
  induction gs generalizing s with
  | nil => simp
  | cons g gs ih => simp [foldl_cons, ih, addOne_pairs]

theorem inv_foldl_addOne {U : Universe} (gs : List Nat) {s : State} (h : Inv U s)
    (hn : gs.Nodup) (hd : ∀ g ∈ gs, g ∉ s.sds) : Inv U (gs.foldl (addOne U) s) := by
  induction gs generalizing s with
  | nil => exact h
  | cons g gs ih =>
    rw [nodup_cons] at hn
    simp only [foldl_cons]
    refine ih (inv_addOne h (hd g mem_cons_self)) hn.2 ?_
    intro g' hg'
    rw [addOne_sds]
    simp only [mem_append, mem_singleton, not_or]
    refine ⟨hd g' (mem_cons_of_mem _ hg'), ?_⟩
    rintro rfl
    exact hn.1 hg'

theorem addSubdomains_ok {U : Universe} {s s' : State} {gs : List Nat}
    (h : addSubdomains U s gs = .ok s') :
    gs.Nodup ∧ (∀ g ∈ gs, g ∉ s.sds) ∧ s' = gs.foldl (addOne U) s := by
  unfold addSubdomains at h
  split at h
  · cases h
  · rename_i h1
    split at h
    · cases h
    · rename_i h2
      refine ⟨hasDup_eq_false.1 (by simpa using h2), ?_, ?_⟩
      · intro g hg hgs
        apply h1
        simp only [any_eq_true]
        exact ⟨g, hg, by simpa using hgs⟩
      · cases h; rfl

theorem inv_addSubdomains {U : Universe} {s s' : State} {gs : List Nat} (hi : Inv U s)
    (h : addSubdomains U s gs = .ok s') : Inv U s' := by
  obtain ⟨h1, h2, rfl⟩ := addSubdomains_ok h
  exact inv_foldl_addOne gs hi h1 h2

/-- what an accepted `add_interface` did -/
theorem addInterface_ok {U : Universe} {s s' : State} {i : Nat} {pair : List Nat}
    (h : addInterface U s i pair = .ok s') :
    ∃ a b x y, pair = [a, b] ∧ i ∉ s.intfs ∧ sortPair U s a b = .ok (x, y) ∧
      s' = { s with pairs := s.pairs ++ [(i, x, y)] } := by
  unfold addInterface at h
  split at h
  · rename_i a b
    split at h
    · cases h
    · rename_i h1
      split at h
      · cases h
      · split at h
        · cases h
        · rename_i x y hsp
          cases h
          exact ⟨a, b, x, y, rfl, by simpa using h1, hsp, rfl⟩
  · cases h

theorem inv_addInterface {U : Universe} {s s' : State} {i a b : Nat} (hi : Inv U s)
    (ha : a ∈ s.sds) (hb : b ∈ s.sds) (hda : U.ifDim i ≤ U.sdDim a) (hdb : U.ifDim i ≤ U.sdDim b)
    (h : addInterface U s i [a, b] = .ok s') : Inv U s' := by
  obtain ⟨a', b', x, y, hp, hni, hsp, rfl⟩ := addInterface_ok h
  simp only [cons.injEq, and_true] at hp
  obtain ⟨rfl, rfl⟩ := hp
  rw [sortPair_eq_sort2 U s ha hb] at hsp
  have hxy : sort2 U a b = (x, y) := Except.ok.inj hsp
  have hcases : (x = a ∧ y = b) ∨ (x = b ∧ y = a) := by
    rcases sort2_cases U a b with h | h
    · rw [h] at hxy; cases hxy; exact Or.inl ⟨rfl, rfl⟩
    · rw [h] at hxy; cases hxy; exact Or.inr ⟨rfl, rfl⟩
  refine ⟨hi.sdsNodup, ?_, ?_, ?_, hi.bgKeys, hi.bgFresh, hi.bgNodup⟩
  · simp only [State.intfs, map_append, map_cons, map_nil]
    exact nodup_snoc.2 ⟨hni, hi.intfNodup⟩
  · intro p hp
    simp only [mem_append, mem_singleton] at hp
    rcases hp with hp | rfl
    · exact hi.pairMem p hp
    · rcases hcases with ⟨rfl, rfl⟩ | ⟨rfl, rfl⟩
      · exact ⟨ha, hb⟩
      · exact ⟨hb, ha⟩
  · intro p hp
    simp only [mem_append, mem_singleton] at hp
    rcases hp with hp | rfl
    · exact hi.pairDim p hp
    · rcases hcases with ⟨rfl, rfl⟩ | ⟨rfl, rfl⟩
      · exact ⟨hda, hdb⟩
      · exact ⟨hdb, hda⟩

theorem removeSubdomain_ok {s s' : State} {g : Nat} (h : removeSubdomain s g = .ok s') :
    g ∈ s.sds ∧ s' = { s with
      sds := s.sds.filter (· != g)
      pairs := s.pairs.filter (fun p => !touches g p)
      bgs := s.bgs.filter (fun b => b.1 != g) } := by
  unfold removeSubdomain at h
  split at h
  · cases h
  · rename_i h1
    cases h
    exact ⟨by simpa using h1, rfl⟩

theorem inv_removeSubdomain {U : Universe} {s s' : State} {g : Nat} (hi : Inv U s)
    (h : removeSubdomain s g = .ok s') : Inv U s' := by
  obtain ⟨_, rfl⟩ := removeSubdomain_ok h
  refine ⟨hi.sdsNodup.sublist filter_sublist, ?_, ?_, ?_, ?_, ?_, ?_⟩
  · exact hi.intfNodup.sublist (filter_sublist.map _)
  · intro p hp
    simp only [mem_filter, touches, Bool.not_eq_true', Bool.or_eq_false_iff, beq_eq_false_iff_ne] at hp
    have := hi.pairMem p hp.1
    simp only [mem_filter, bne_iff_ne]
    exact ⟨⟨this.1, hp.2.1⟩, ⟨this.2, hp.2.2⟩⟩
  · intro p hp
    exact hi.pairDim p (mem_filter.1 hp).1
  · simp only []
    have : (s.bgs.filter (fun b => b.1 != g)).map (·.1) = (s.bgs.map (·.1)).filter (· != g) := by
      rw [filter_map]; rfl
    rw [this, hi.bgKeys, filter_filter, filter_filter]
    congr 1
    funext x
    exact Bool.and_comm _ _
  · intro b hb
    exact hi.bgFresh b (mem_filter.1 hb).1
  · exact hi.bgNodup.sublist (filter_sublist.map _)


theorem replace1_ok {U : Universe} {s s' : State} {old new : Nat} {c : List Call}
    (h : replace1 U s old new = .ok (s', c)) :
    old ∈ s.sds ∧ s' = replaceState U s old new ∧ c = plannedCalls U s old new ∧
      (plannedCalls U s old new).any (callFails U) = false := by
  unfold replace1 at h
  split at h
  · cases h
  · rename_i h1
    split at h
    · cases h
    · rename_i h2
      cases h
      exact ⟨by simpa using h1, rfl, rfl, by simpa using h2⟩

theorem replace1_error {U : Universe} {s : State} {old new : Nat} {e : Err} {c : List Call}
    (h : replace1 U s old new = .error (e, c)) :
    (old ∉ s.sds ∧ e = .keyError ∧ c = []) ∨
    (old ∈ s.sds ∧ e = .notImplementedError ∧ (plannedCalls U s old new).any (callFails U) = true) := by
  unfold replace1 at h
  split at h
  · rename_i h1
    cases h
    exact Or.inl ⟨by simpa using h1, rfl, rfl⟩
  · rename_i h1
    split at h
    · rename_i h2
      cases h
      exact Or.inr ⟨by simpa using h1, rfl, h2⟩
    · cases h

theorem replace1_eq_ok {U : Universe} {s : State} {old new : Nat} (ho : old ∈ s.sds)
    (hs : (plannedCalls U s old new).any (callFails U) = false) :
    replace1 U s old new = .ok (replaceState U s old new, plannedCalls U s old new) := by
  unfold replace1
  have : s.sds.contains old = true := by simpa using ho
  rw [this, hs]; rfl

theorem replaceEntry_fst (U : Universe) (old new : Nat) (p : Entry) :
    (replaceEntry U old new p).1 = p.1 := by
  unfold replaceEntry; split <;> rfl

theorem replaceState_sds (U : Universe) (s : State) (old new : Nat) :
    (replaceState U s old new).sds =
      (if s.sds.contains new then s.sds else s.sds ++ [new]).filter (· != old) := by
  unfold replaceState; simp only []; split <;> rfl

theorem replaceState_pairs (U : Universe) (s : State) (old new : Nat) :
    (replaceState U s old new).pairs = s.pairs.map (replaceEntry U old new) := by
  unfold replaceState; simp only []; split <;> rfl

theorem replaceState_intfs (U : Universe) (s : State) (old new : Nat) :
    (replaceState U s old new).intfs = s.intfs := by
  unfold State.intfs
  rw [replaceState_pairs, map_map]
  congr 1
  funext p
  exact replaceEntry_fst U old new p

theorem mem_replaceState_sds {U : Universe} {s : State} {old new x : Nat} (hn : new ∉ s.sds) :
    x ∈ (replaceState U s old new).sds ↔ (x ∈ s.sds ∨ x = new) ∧ x ≠ old := by
  rw [replaceState_sds]
  simp only [contains_eq_mem, hn, decide_false, Bool.false_eq_true, if_false, mem_filter,
    mem_append, mem_singleton, bne_iff_ne, ne_eq]

theorem sub_mem {U : Universe} {s : State} {old new x : Nat} (hn : new ∉ s.sds) (ho : old ∈ s.sds)
    (hx : x ∈ s.sds) : sub old new x ∈ (replaceState U s old new).sds := by
  rw [mem_replaceState_sds hn]
  by_cases h : x = old
  · have : sub old new x = new := by simp [sub, h]
    rw [this]; exact ⟨Or.inr rfl, fun e => hn (e ▸ ho)⟩
  · have : sub old new x = x := by simp [sub, h]
    rw [this]; exact ⟨Or.inl hx, h⟩

theorem sub_dim {U : Universe} {old new x : Nat} (hd : U.sdDim new = U.sdDim old) :
    U.sdDim (sub old new x) = U.sdDim x := by
  unfold sub
  by_cases h : x = old
  · subst h; simp [hd]
  · have : (x == old) = false := by simpa using h
    simp [this]

theorem bgs_any_iff {U : Universe} {s : State} {g : Nat} (hi : Inv U s) (hg : g ∈ s.sds) :
    s.bgs.any (fun b => b.1 == g) = true ↔ 0 < U.sdDim g := by
  have : s.bgs.any (fun b => b.1 == g) = true ↔ g ∈ s.bgs.map (·.1) := by
    simp only [any_eq_true, mem_map, beq_iff_eq]
  rw [this, hi.bgKeys]
  simp [hg]

theorem inv_replaceState {U : Universe} {s : State} {old new : Nat} (hi : Inv U s)
    (ho : old ∈ s.sds) (hn : new ∉ s.sds) (hd : U.sdDim new = U.sdDim old) :
    Inv U (replaceState U s old new) := by
  have hc : s.sds.contains new = false := by simpa using hn
  have hne : new ≠ old := fun e => hn (e ▸ ho)
  have hsds : (replaceState U s old new).sds = (s.sds ++ [new]).filter (· != old) := by
    rw [replaceState_sds]; simp [hn]
  have hbgany := bgs_any_iff hi ho
  refine ⟨?_, ?_, ?_, ?_, ?_, ?_, ?_⟩
  · rw [hsds]
    exact (nodup_snoc.2 ⟨hn, hi.sdsNodup⟩).sublist filter_sublist
  · rw [replaceState_intfs]; exact hi.intfNodup
  · intro p' hp'
    rw [replaceState_pairs] at hp'
    rcases mem_map.1 hp' with ⟨p, hp, rfl⟩
    have hm := hi.pairMem p hp
    unfold replaceEntry
    split
    · simp only []
      rcases sort2_cases U p.2.1 p.2.2 with h | h <;> rw [h]
      · exact ⟨sub_mem hn ho hm.1, sub_mem hn ho hm.2⟩
      · exact ⟨sub_mem hn ho hm.2, sub_mem hn ho hm.1⟩
    · rename_i ht
      simp only [touches, Bool.or_eq_true, beq_iff_eq, not_or] at ht
      rw [mem_replaceState_sds hn, mem_replaceState_sds hn]
      exact ⟨⟨Or.inl hm.1, ht.1⟩, ⟨Or.inl hm.2, ht.2⟩⟩
  · intro p' hp'
    rw [replaceState_pairs] at hp'
    rcases mem_map.1 hp' with ⟨p, hp, rfl⟩
    have hm := hi.pairDim p hp
    unfold replaceEntry
    split
    · simp only []
      rw [sub_dim hd, sub_dim hd]
      rcases sort2_cases U p.2.1 p.2.2 with h | h <;> rw [h]
      · exact hm
      · exact ⟨hm.2, hm.1⟩
    · exact hm
  · rw [hsds]
    unfold replaceState
    simp only []
    split
    · rename_i hany
      have hpos : 0 < U.sdDim new := by rw [hd]; exact hbgany.1 hany
      simp only []
      have : ((s.bgs ++ [(new, s.nextBg)]).filter (fun b => b.1 != old)).map (·.1)
          = ((s.bgs ++ [(new, s.nextBg)]).map (·.1)).filter (· != old) := by
        rw [filter_map]; rfl
      rw [this, map_append, hi.bgKeys, filter_filter, filter_append]
      simp only [map_cons, map_nil, filter_append, filter_filter]
      congr 1
      · congr 1; funext x; exact Bool.and_comm _ _
      · simp [hpos, hne]
    · rename_i hany
      have hz : ¬ 0 < U.sdDim old := fun h => hany (hbgany.2 h)
      have hzn : ¬ 0 < U.sdDim new := by rw [hd]; exact hz
      simp only []
      rw [hi.bgKeys, filter_filter, filter_append]
      have h1 : [new].filter (fun a => decide (0 < U.sdDim a) && (a != old)) = [] := by
        simp [hzn]
      rw [h1, append_nil]
      apply filter_congr
      intro x hx
      by_cases hxo : x = old
      · subst hxo; simp [hz]
      · simp [hxo]
  · unfold replaceState
    simp only []
    split
    · intro b hb
      simp only [mem_filter, mem_append, mem_singleton] at hb
      rcases hb.1 with hb' | rfl
      · exact Nat.lt_succ_of_lt (hi.bgFresh b hb')
      · exact Nat.lt_succ_self _
    · exact hi.bgFresh
  · unfold replaceState
    simp only []
    split
    · refine Nodup.sublist (l₂ := (s.bgs ++ [(new, s.nextBg)]).map (·.2)) (filter_sublist.map _) ?_
      simp only [map_append, map_cons, map_nil]
      refine nodup_snoc.2 ⟨?_, hi.bgNodup⟩
      intro hm
      rcases mem_map.1 hm with ⟨b, hb, hbe⟩
      have := hi.bgFresh b hb
      omega
    · exact hi.bgNodup

theorem inv_replaceMany {U : Universe} (sm : List (Nat × Nat)) {s : State} (hi : Inv U s)
    (hw : wfReplace U s sm = true) : Inv U (replaceMany U s sm).1 := by
  induction sm generalizing s with
  | nil => exact hi
  | cons p sm ih =>
    obtain ⟨old, new⟩ := p
    simp only [replaceMany, wfReplace] at hw ⊢
    cases hr : replace1 U s old new with
    | error e => exact hi
    | ok r =>
      obtain ⟨s', c⟩ := r
      simp only [hr] at hw ⊢
      simp only [Bool.and_eq_true, Bool.not_eq_true', beq_iff_eq] at hw
      obtain ⟨ho, rfl, _, _⟩ := replace1_ok hr
      exact ih (inv_replaceState hi ho (by simpa using hw.1.1) hw.1.2) hw.2

theorem inv_step {U : Universe} {s : State} (op : Op) (hi : Inv U s) (hw : wfOp U s op = true) :
    Inv U (step U s op).state := by
  cases op with
  | addSubdomains gs =>
    simp only [step]
    cases h : addSubdomains U s gs with
    | error e => exact hi
    | ok s' => exact inv_addSubdomains hi h
  | addInterface i pair =>
    simp only [step]
    cases h : addInterface U s i pair with
    | error e => exact hi
    | ok s' =>
      obtain ⟨a, b, x, y, rfl, _, _, _⟩ := addInterface_ok h
      simp only [wfOp, h, Bool.and_eq_true, decide_eq_true_eq] at hw
      exact inv_addInterface hi (by simpa using hw.1.1.1) (by simpa using hw.1.1.2) hw.1.2 hw.2 h
  | removeSubdomain g =>
    simp only [step]
    cases h : removeSubdomain s g with
    | error e => exact hi
    | ok s' => exact inv_removeSubdomain hi h
  | replace im sm =>
    simp only [step]
    exact inv_replaceMany sm hi hw

theorem inv_run {U : Universe} (ops : List Op) {s : State} (hi : Inv U s)
    (hw : wfHist U s ops = true) : Inv U (run U s ops) := by
  induction ops generalizing s with
  | nil => exact hi
  | cons op ops ih =>
    simp only [wfHist, Bool.and_eq_true] at hw
    simp only [run]
    exact ih (inv_step op hi hw.1) hw.2


/-! ### listings -/

theorem keyLt_asymm {α : Type} (dimOf idOf : α → Nat) {a b : α} (h1 : keyLt dimOf idOf a b)
    (h2 : keyLt dimOf idOf b a) : False := by
  unfold keyLt at h1 h2; omega

/-- two strictly sorted lists with the same elements are equal -/
theorem eq_of_perm_of_strict {α : Type} (dimOf idOf : α → Nat) {l₁ l₂ : List α}
    (h1 : l₁.Pairwise (keyLt dimOf idOf)) (h2 : l₂.Pairwise (keyLt dimOf idOf)) (hp : l₁ ~ l₂) :
    l₁ = l₂ :=
  Perm.eq_of_pairwise (fun _ _ _ _ hab hba => (keyLt_asymm dimOf idOf hab hba).elim) h1 h2 hp

/-- `argsort_grids` on a list of distinct objects none of which is above the maximal subdomain
    dimension: every object exactly once, strictly sorted. -/
theorem sortGrids_spec {α : Type} (U : Universe) (s : State) (dimOf idOf : α → Nat) (xs : List α)
    (he : s.sds = [] → xs = []) (hd : ∀ x ∈ xs, dimOf x ≤ dimMax U s.sds)
    (hn : (xs.map idOf).Nodup) :
    ∃ l, sortGrids U s dimOf idOf xs = .ok l ∧ l ~ xs ∧ l.Nodup ∧ l.Pairwise (keyLt dimOf idOf) := by
  unfold sortGrids
  cases hs : s.sds with
  | nil =>
    have := he hs
    subst this
    exact ⟨[], by simp, Perm.refl _, nodup_nil, Pairwise.nil⟩
  | cons g r =>
    simp only []
    rw [← hs]
    refine ⟨_, rfl, ?_, ?_, argsortFrom_strict dimOf idOf _ xs hn⟩
    · have := argsortFrom_perm dimOf idOf (dimMax U s.sds) xs
      rwa [filter_eq_self.2 (by intro x hx; simpa using hd x hx)] at this
    · exact keyLt_irrefl_pairwise_nodup dimOf idOf (argsortFrom_strict dimOf idOf _ xs hn)

theorem pairs_nil_of_sds_nil {U : Universe} {s : State} (hi : Inv U s) (h : s.sds = []) :
    s.pairs = [] := by
  cases hp : s.pairs with
  | nil => rfl
  | cons p l =>
    have := (hi.pairMem p (by rw [hp]; exact mem_cons_self)).1
    rw [h] at this; cases this

theorem bgs_nil_of_sds_nil {U : Universe} {s : State} (hi : Inv U s) (h : s.sds = []) :
    s.bgs = [] := by
  have := hi.bgKeys
  rw [h] at this
  simpa using this

theorem ifDim_le_dimMax {U : Universe} {s : State} (hi : Inv U s) {i : Nat} (h : i ∈ s.intfs) :
    U.ifDim i ≤ dimMax U s.sds := by
  rcases mem_map.1 h with ⟨p, hp, rfl⟩
  exact Nat.le_trans (hi.pairDim p hp).1 (le_dimMax U (hi.pairMem p hp).1)

theorem bg_parent_mem {U : Universe} {s : State} (hi : Inv U s) {b : Nat × Nat} (h : b ∈ s.bgs) :
    b.1 ∈ s.sds ∧ 0 < U.sdDim b.1 := by
  have : b.1 ∈ s.bgs.map (·.1) := mem_map.2 ⟨b, h, rfl⟩
  rw [hi.bgKeys] at this
  simpa using this

/-! ### pair maps -/

theorem revLookup_some {a b j : Nat} {l : List Entry} (h : revLookup a b l = some j) :
    (j, a, b) ∈ l := by
  induction l with
  | nil => simp [revLookup] at h
  | cons p l ih =>
    simp only [revLookup] at h
    split at h
    · rename_i i hi
      cases h
      exact mem_cons_of_mem _ (ih hi)
    · split at h
      · rename_i hc
        simp only [Bool.and_eq_true, beq_iff_eq] at hc
        cases h
        obtain ⟨p1, p2, p3⟩ := p
        simp only [] at hc
        rw [← hc.1, ← hc.2]
        exact mem_cons_self
      · cases h

theorem revLookup_none {a b : Nat} {l : List Entry} (h : revLookup a b l = none) :
    ∀ p ∈ l, ¬ (p.2.1 = a ∧ p.2.2 = b) := by
  induction l with
  | nil => intro p hp; cases hp
  | cons q l ih =>
    simp only [revLookup] at h
    split at h
    · cases h
    · rename_i hn
      split at h
      · cases h
      · rename_i hc
        intro p hp
        rcases mem_cons.1 hp with rfl | hp
        · simpa using hc
        · exact ih hn p hp

theorem intfOfPair_spec {s : State} {x y : Nat}
    (h : ∃ i, (i, x, y) ∈ s.pairs ∨ (i, y, x) ∈ s.pairs) :
    ∃ j, intfOfPair s x y = .ok j ∧ ((j, x, y) ∈ s.pairs ∨ (j, y, x) ∈ s.pairs) := by
  unfold intfOfPair
  cases h1 : revLookup x y s.pairs with
  | some j => exact ⟨j, rfl, Or.inl (revLookup_some h1)⟩
  | none =>
    cases h2 : revLookup y x s.pairs with
    | some j => exact ⟨j, rfl, Or.inr (revLookup_some h2)⟩
    | none =>
      obtain ⟨i, hi | hi⟩ := h
      · exact absurd ⟨rfl, rfl⟩ (revLookup_none h1 _ hi)
      · exact absurd ⟨rfl, rfl⟩ (revLookup_none h2 _ hi)

theorem pairOf_of_mem {U : Universe} {s : State} (hi : Inv U s) {i a b : Nat}
    (h : (i, a, b) ∈ s.pairs) : pairOf U s i = .ok (sort2 U a b) := by
  unfold pairOf
  rw [lookup_eq_some_of_mem hi.intfNodup h]
  have := hi.pairMem _ h
  exact sortPair_eq_sort2 U s this.1 this.2

theorem lookup_map_entry {f : Entry → Entry} (hf : ∀ p, (f p).1 = p.1) (i : Nat) (l : List Entry) :
    lookup i (l.map f) = (lookup i l).map (fun v => (f (i, v)).2) := by
  induction l with
  | nil => rfl
  | cons p l ih =>
    simp only [map_cons, lookup, hf]
    split
    · rename_i hpi
      simp only [beq_iff_eq] at hpi
      obtain ⟨p1, p2⟩ := p
      simp only [] at hpi
      subst hpi
      rfl
    · exact ih

/-! ### boundary-grid map -/

theorem lookup_filter_ne {β : Type} {x g : Nat} (l : List (Nat × β)) (h : x ≠ g) :
    lookup x (l.filter (fun b => b.1 != g)) = lookup x l := by
  induction l with
  | nil => rfl
  | cons p l ih =>
    by_cases hp : p.1 = g
    · have : (p.1 != g) = false := by simp [hp]
      have hx : (p.1 == x) = false := by simp [hp]; exact fun e => h e.symm
      simp [this, lookup, hx, ih]
    · have : (p.1 != g) = true := by simp [hp]
      simp only [filter_cons, this, if_true, lookup, ih]

theorem lookup_filter_self {β : Type} (g : Nat) (l : List (Nat × β)) :
    lookup g (l.filter (fun b => b.1 != g)) = none := by
  rw [lookup_eq_none_iff]
  intro h
  rcases mem_map.1 h with ⟨b, hb, hbe⟩
  have := (mem_filter.1 hb).2
  simp [hbe] at this

theorem lookup_append {β : Type} (x : Nat) (l l' : List (Nat × β)) :
    lookup x (l ++ l') = (lookup x l).or (lookup x l') := by
  induction l with
  | nil => simp [lookup]
  | cons p l ih =>
    simp only [cons_append, lookup]
    split
    · rfl
    · exact ih

theorem filter_key_eq_singleton {β : Type} {g : Nat} {v : β} {l : List (Nat × β)}
    (hn : (l.map (·.1)).Nodup) (h : (g, v) ∈ l) : l.filter (fun b => b.1 == g) = [(g, v)] := by
  induction l with
  | nil => cases h
  | cons p l ih =>
    simp only [map_cons, nodup_cons] at hn
    rcases mem_cons.1 h with rfl | h
    · have : l.filter (fun b => b.1 == g) = [] := by
        rw [filter_eq_nil_iff]
        intro b hb hbe
        simp only [beq_iff_eq] at hbe
        exact hn.1 (hbe ▸ mem_map.2 ⟨b, hb, rfl⟩)
      simp [this]
    · have hp : (p.1 == g) = false := by
        simp only [beq_eq_false_iff_ne]
        intro e
        exact hn.1 (e ▸ mem_map.2 ⟨(g, v), h, rfl⟩)
      simp only [filter_cons, hp]
      exact ih hn.2 h


/-! ### removal, named -/

/-- the state an accepted `remove_subdomain(g)` produces -/
def removeState (s : State) (g : Nat) : State :=
  { s with
    sds := s.sds.filter (· != g)
    pairs := s.pairs.filter (fun p => !touches g p)
    bgs := s.bgs.filter (fun b => b.1 != g) }

theorem removeSubdomain_eq {s : State} {g : Nat} (hg : g ∈ s.sds) :
    removeSubdomain s g = .ok (removeState s g) := by
  unfold removeSubdomain removeState
  have : s.sds.contains g = true := by simpa using hg
  rw [this]; rfl

/-- does interface `i` touch subdomain `g` (by its stored pair)? -/
def touchesI (s : State) (g i : Nat) : Bool :=
  match lookup i s.pairs with
  | some (a, b) => a == g || b == g
  | none => false

theorem removeState_intfs {U : Universe} {s : State} (hi : Inv U s) (g : Nat) :
    (removeState s g).intfs = s.intfs.filter (fun i => !touchesI s g i) := by
  unfold State.intfs removeState
  simp only []
  rw [filter_map]
  congr 1
  apply filter_congr
  intro p hp
  obtain ⟨i, a, b⟩ := p
  simp only [Function.comp, touchesI, lookup_eq_some_of_mem hi.intfNodup hp, touches]


/-- `argsort_grids` on a list that may contain an object several times: a sorted rearrangement -/
theorem sortGrids_spec_le {α : Type} (U : Universe) (s : State) (dimOf idOf : α → Nat) (xs : List α)
    (he : s.sds = [] → xs = []) (hd : ∀ x ∈ xs, dimOf x ≤ dimMax U s.sds) :
    ∃ l, sortGrids U s dimOf idOf xs = .ok l ∧ l ~ xs ∧ l.Pairwise (keyLe dimOf idOf) := by
  unfold sortGrids
  cases hs : s.sds with
  | nil =>
    have := he hs
    subst this
    exact ⟨[], by simp, Perm.refl _, Pairwise.nil⟩
  | cons g r =>
    simp only []
    rw [← hs]
    refine ⟨_, rfl, ?_, argsortFrom_sorted dimOf idOf _ xs⟩
    have := argsortFrom_perm dimOf idOf (dimMax U s.sds) xs
    rwa [filter_eq_self.2 (by intro x hx; simpa using hd x hx)] at this

theorem mem_filterMap_otherEnd {g h : Nat} {l : List Entry} :
    h ∈ l.filterMap (otherEnd g) ↔
      ∃ p ∈ l, (p.2.1 = g ∧ p.2.2 = h) ∨ (p.2.1 ≠ g ∧ p.2.2 = g ∧ p.2.1 = h) := by
  simp only [mem_filterMap, otherEnd]
  constructor
  · rintro ⟨p, hp, hh⟩
    refine ⟨p, hp, ?_⟩
    by_cases h1 : p.2.1 = g
    · simp [h1] at hh; exact Or.inl ⟨h1, hh⟩
    · by_cases h2 : p.2.2 = g
      · simp [h1, h2] at hh; exact Or.inr ⟨h1, h2, hh⟩
      · simp [h1, h2] at hh
  · rintro ⟨p, hp, hh⟩
    refine ⟨p, hp, ?_⟩
    rcases hh with ⟨h1, h2⟩ | ⟨h1, h2, h3⟩
    · simp [h1, h2]
    · have e1 : (p.2.1 == g) = false := by simpa using h1
      have e2 : (p.2.2 == g) = true := by simpa using h2
      rw [e1, e2]; simp [h3]


/-! ### the data layer -/

/-- all dictionary tokens of a container -/
def allToks (d : DState) : List Nat :=
  d.sdData.map (·.2) ++ d.ifData.map (·.2) ++ d.bgData.map (·.2)

/-- consistency of a container including its data dictionaries: every subdomain / interface /
    boundary grid has exactly one dictionary (same keys, same order), and no dictionary is
    stored under two keys. -/
structure DInv (U : Universe) (d : DState) : Prop where
  core : Inv U d.core
  sdKeys : d.sdData.map (·.1) = d.core.sds
  ifKeys : d.ifData.map (·.1) = d.core.intfs
  bgKeys : d.bgData.map (·.1) = d.core.bgs.map (·.2)
  tokNodup : (allToks d).Nodup
  tokFresh : ∀ t ∈ allToks d, t < d.nextTok

theorem dinv_empty (U : Universe) : DInv U DState.empty := by
  refine ⟨inv_empty U, rfl, rfl, rfl, ?_, ?_⟩ <;> simp [allToks, DState.empty]

theorem freshFor_fst (ks : List Nat) (t : Nat) : (freshFor ks t).map (·.1) = ks := by
  induction ks generalizing t with
  | nil => rfl
  | cons k ks ih => simp [freshFor, ih]

theorem freshFor_snd (ks : List Nat) (t : Nat) :
    (freshFor ks t).map (·.2) = List.range' t ks.length := by
  induction ks generalizing t with
  | nil => rfl
  | cons k ks ih => simp [freshFor, ih, List.range'_succ]

theorem foldl_addOne_bgs (U : Universe) (gs : List Nat) (s : State) :
    ∃ extra, (gs.foldl (addOne U) s).bgs = s.bgs ++ extra := by
  induction gs generalizing s with
  | nil => exact ⟨[], by simp⟩
  | cons g gs ih =>
    obtain ⟨e, he⟩ := ih (addOne U s g)
    simp only [foldl_cons]
    unfold addOne at he ⊢
    split at he
    · exact ⟨(g, s.nextBg) :: e, by simp [*]⟩
    · exact ⟨e, by simp [*]⟩

theorem nodup_fresh3 {A B C : List Nat} {t n m : Nat} (hn : (A ++ B ++ C).Nodup)
    (hf : ∀ x ∈ A ++ B ++ C, x < t) :
    ((A ++ List.range' t n) ++ B ++ (C ++ List.range' (t + n) m)).Nodup ∧
    ∀ x ∈ (A ++ List.range' t n) ++ B ++ (C ++ List.range' (t + n) m), x < t + n + m := by
  have hperm : (A ++ List.range' t n) ++ B ++ (C ++ List.range' (t + n) m)
      ~ (A ++ B ++ C) ++ List.range' t (n + m) := by
    rw [← List.range'_append_1, perm_iff_count]
    intro a
    simp only [count_append]
    omega
  refine ⟨(hperm.nodup_iff).2 ?_, ?_⟩
  · rw [nodup_append]
    refine ⟨hn, List.nodup_range', ?_⟩
    intro a ha b hb
    have := hf a ha
    rw [List.mem_range'_1] at hb
    omega
  · intro x hx
    rcases mem_append.1 (hperm.mem_iff.1 hx) with hx | hx
    · have := hf x hx; omega
    · rw [List.mem_range'_1] at hx; omega

theorem nodup_fresh1 {A B C : List Nat} {t : Nat} (hn : (A ++ B ++ C).Nodup)
    (hf : ∀ x ∈ A ++ B ++ C, x < t) :
    (A ++ (B ++ [t]) ++ C).Nodup ∧ ∀ x ∈ A ++ (B ++ [t]) ++ C, x < t + 1 := by
  have hperm : A ++ (B ++ [t]) ++ C ~ t :: (A ++ B ++ C) := by
    rw [perm_iff_count]
    intro a
    simp only [count_append, count_cons, count_nil]
    omega
  refine ⟨(hperm.nodup_iff).2 (nodup_cons.2 ⟨fun h => Nat.lt_irrefl _ (hf t h), hn⟩), ?_⟩
  intro x hx
  rcases mem_cons.1 (hperm.mem_iff.1 hx) with rfl | hx
  · exact Nat.lt_succ_self _
  · exact Nat.lt_succ_of_lt (hf x hx)

theorem dinv_addSubdomains {U : Universe} {d d' : DState} {gs : List Nat} (hi : DInv U d)
    (h : dAddSubdomains U d gs = .ok d') : DInv U d' := by
  unfold dAddSubdomains at h
  cases ha : addSubdomains U d.core gs with
  | error e => rw [ha] at h; cases h
  | ok s' =>
    rw [ha] at h
    simp only [] at h
    cases h
    obtain ⟨_, _, hs'⟩ := addSubdomains_ok ha
    obtain ⟨extra, hex⟩ := foldl_addOne_bgs U gs d.core
    have hbgs : s'.bgs = d.core.bgs ++ extra := by rw [hs', hex]
    have hdrop : s'.bgs.drop d.core.bgs.length = extra := by rw [hbgs]; exact drop_left
    have htok := nodup_fresh3 (n := gs.length) (m := (extra.map (·.2)).length)
      (by simpa [allToks] using hi.tokNodup) (by simpa [allToks] using hi.tokFresh)
    refine ⟨inv_addSubdomains hi.core ha, ?_, ?_, ?_, ?_, ?_⟩
    · simp only [map_append, freshFor_fst, hi.sdKeys]
      rw [hs', foldl_addOne_sds]
    · simp only [hi.ifKeys, State.intfs]
      rw [hs', foldl_addOne_pairs]
    · simp only [map_append, freshFor_fst, hi.bgKeys, hdrop]
      rw [hbgs, map_append]
    · simp only [allToks, map_append, freshFor_snd, hdrop]
      exact htok.1
    · simp only [allToks, map_append, freshFor_snd, hdrop]
      exact htok.2

theorem dinv_addInterface {U : Universe} {d d' : DState} {i a b : Nat} (hi : DInv U d)
    (ha : a ∈ d.core.sds) (hb : b ∈ d.core.sds) (hda : U.ifDim i ≤ U.sdDim a)
    (hdb : U.ifDim i ≤ U.sdDim b) (h : dAddInterface U d i [a, b] = .ok d') : DInv U d' := by
  unfold dAddInterface at h
  cases hadd : addInterface U d.core i [a, b] with
  | error e => rw [hadd] at h; cases h
  | ok s' =>
    rw [hadd] at h
    simp only [] at h
    cases h
    obtain ⟨a', b', x, y, _, _, _, hs'⟩ := addInterface_ok hadd
    have htok := nodup_fresh1 (t := d.nextTok)
      (by simpa [allToks] using hi.tokNodup) (by simpa [allToks] using hi.tokFresh)
    refine ⟨inv_addInterface hi.core ha hb hda hdb hadd, ?_, ?_, ?_, ?_, ?_⟩
    · simp only [hi.sdKeys]; rw [hs']
    · simp only [map_append, map_cons, map_nil, hi.ifKeys]
      rw [hs']; simp [State.intfs]
    · simp only [hi.bgKeys]; rw [hs']
    · simp only [allToks, map_append, map_cons, map_nil]
      exact htok.1
    · simp only [allToks, map_append, map_cons, map_nil]
      exact htok.2

/-- a duplicate-free list filtered by membership in one of its sublists is that sublist -/
theorem filter_mem_of_sublist {K L : List Nat} (hs : K <+ L) (hn : L.Nodup) :
    L.filter (fun x => K.contains x) = K := by
  induction hs with
  | slnil => rfl
  | cons a hs ih =>
    rename_i K' L'
    rw [nodup_cons] at hn
    have : K'.contains a = false := by
      simp only [contains_eq_mem, decide_eq_false_iff_not]
      exact fun h => hn.1 (hs.subset h)
    simp only [filter_cons, this]
    exact ih hn.2
  | cons_cons a hs ih =>
    rename_i K' L'
    rw [nodup_cons] at hn
    have h1 : (a :: K').contains a = true := by simp
    simp only [filter_cons, h1, if_true]
    congr 1
    refine Eq.trans ?_ (ih hn.2)
    apply filter_congr
    intro x hx
    have : x ≠ a := fun e => hn.1 (e ▸ hx)
    simp [this]

theorem filter_keys_sublist {l : List (Nat × Nat)} {K : List Nat} (hs : K <+ l.map (·.1))
    (hn : (l.map (·.1)).Nodup) : (l.filter (fun e => K.contains e.1)).map (·.1) = K := by
  have : (l.filter (fun e => K.contains e.1)).map (·.1) = (l.map (·.1)).filter (fun x => K.contains x) := by
    rw [filter_map]; rfl
  rw [this]
  exact filter_mem_of_sublist hs hn

theorem dinv_removeSubdomain {U : Universe} {d d' : DState} {g : Nat} (hi : DInv U d)
    (h : dRemoveSubdomain d g = .ok d') : DInv U d' := by
  unfold dRemoveSubdomain at h
  cases hr : removeSubdomain d.core g with
  | error e => rw [hr] at h; cases h
  | ok s' =>
    rw [hr] at h
    simp only [] at h
    cases h
    obtain ⟨hg, hs'⟩ := removeSubdomain_ok hr
    refine ⟨inv_removeSubdomain hi.core hr, ?_, ?_, ?_, ?_, ?_⟩
    · simp only []
      have : (d.sdData.filter (fun e => e.1 != g)).map (·.1) = (d.sdData.map (·.1)).filter (· != g) := by
        rw [filter_map]; rfl
      rw [this, hi.sdKeys, hs']
    · simp only []
      apply filter_keys_sublist
      · rw [hi.ifKeys, hs']; exact filter_sublist.map _
      · rw [hi.ifKeys]; exact hi.core.intfNodup
    · simp only []
      apply filter_keys_sublist
      · rw [hi.bgKeys, hs']; exact filter_sublist.map _
      · rw [hi.bgKeys]; exact hi.core.bgNodup
    · exact hi.tokNodup.sublist
        (((filter_sublist.map _).append (filter_sublist.map _)).append (filter_sublist.map _))
    · intro t ht
      refine hi.tokFresh t (Sublist.subset ?_ ht)
      exact ((filter_sublist.map _).append (filter_sublist.map _)).append (filter_sublist.map _)


/-! #### handing a dictionary over to a new key -/

theorem moveKey_eq {old new t : Nat} {l : List (Nat × Nat)} (h : lookup old l = some t)
    (hne : new ≠ old) : moveKey old new l = l.filter (fun e => e.1 != old) ++ [(new, t)] := by
  unfold moveKey
  rw [h]
  simp [filter_append, hne]

theorem filter_ne_snd_perm {old t : Nat} {l : List (Nat × Nat)} (hn : (l.map (·.1)).Nodup)
    (h : lookup old l = some t) :
    (l.filter (fun e => e.1 != old)).map (·.2) ++ [t] ~ l.map (·.2) := by
  induction l with
  | nil => simp [lookup] at h
  | cons p l ih =>
    simp only [map_cons, nodup_cons] at hn
    simp only [lookup] at h
    by_cases hp : p.1 = old
    · have hpb : (p.1 == old) = true := by simpa using hp
      rw [hpb] at h
      simp only [if_true, Option.some.injEq] at h
      have hfil : l.filter (fun e => e.1 != old) = l := by
        rw [filter_eq_self]
        intro e he
        simp only [bne_iff_ne, ne_eq]
        intro heq
        exact hn.1 (hp ▸ heq ▸ mem_map.2 ⟨e, he, rfl⟩)
      have hpn : (p.1 != old) = false := by simp [hp]
      simp only [filter_cons, hpn, hfil, map_cons, ← h]
      exact perm_append_singleton _ _
    · have hpb : (p.1 == old) = false := by simpa using hp
      rw [hpb] at h
      have hpn : (p.1 != old) = true := by simp [hp]
      simp only [filter_cons, hpn, if_true, map_cons, cons_append]
      exact Perm.cons _ (ih hn.2 h)

theorem moveKey_fst {old new t : Nat} {l : List (Nat × Nat)} (h : lookup old l = some t)
    (hne : new ≠ old) :
    (moveKey old new l).map (·.1) = (l.map (·.1) ++ [new]).filter (· != old) := by
  rw [moveKey_eq h hne]
  have : (l.filter (fun e => e.1 != old)).map (·.1) = (l.map (·.1)).filter (· != old) := by
    rw [filter_map]; rfl
  simp [filter_append, this, hne]

theorem moveKey_snd_perm {old new t : Nat} {l : List (Nat × Nat)} (hn : (l.map (·.1)).Nodup)
    (h : lookup old l = some t) (hne : new ≠ old) : (moveKey old new l).map (·.2) ~ l.map (·.2) := by
  rw [moveKey_eq h hne]
  simpa using filter_ne_snd_perm hn h

theorem lookup_of_key_mem {β : Type} {k : Nat} {l : List (Nat × β)} (h : k ∈ l.map (·.1)) :
    ∃ v, lookup k l = some v := by
  cases hl : lookup k l with
  | some v => exact ⟨v, rfl⟩
  | none => exact absurd h (lookup_eq_none_iff.1 hl)

theorem moveKey_lookup_new {old new t : Nat} {l : List (Nat × Nat)} (h : lookup old l = some t)
    (hne : new ≠ old) (hnk : new ∉ l.map (·.1)) : lookup new (moveKey old new l) = some t := by
  rw [moveKey_eq h hne, lookup_append]
  have : lookup new (l.filter (fun e => e.1 != old)) = none := by
    rw [lookup_filter_ne _ hne]; exact lookup_eq_none_iff.2 hnk
  rw [this]; simp [lookup]

theorem moveKey_lookup_other {old new t x : Nat} {l : List (Nat × Nat)} (h : lookup old l = some t)
    (hne : new ≠ old) (hxo : x ≠ old) (hxn : x ≠ new) : lookup x (moveKey old new l) = lookup x l := by
  rw [moveKey_eq h hne, lookup_append, lookup_filter_ne _ hxo]
  have : lookup x [(new, t)] = none := by
    simp [lookup]; exact fun e => hxn e.symm
  rw [this]; simp

theorem eq_of_nodup_map {α β : Type} {f : α → β} {l : List α} (h : (l.map f).Nodup) {a b : α}
    (ha : a ∈ l) (hb : b ∈ l) (e : f a = f b) : a = b := by
  induction l with
  | nil => cases ha
  | cons x l ih =>
    simp only [map_cons, nodup_cons] at h
    rcases mem_cons.1 ha with rfl | ha' <;> rcases mem_cons.1 hb with rfl | hb'
    · rfl
    · exact absurd (mem_map.2 ⟨b, hb', e.symm⟩) h.1
    · exact absurd (mem_map.2 ⟨a, ha', e⟩) h.1
    · exact ih h.2 ha' hb'

/-- what `dReplace1` does when it succeeds -/
theorem dReplace1_ok {U : Universe} {d d' : DState} {old new : Nat} {c : List Call}
    (h : dReplace1 U d old new = .ok (d', c)) :
    replace1 U d.core old new = .ok (d'.core, c) ∧
    d'.sdData = moveKey old new d.sdData ∧ d'.ifData = d.ifData ∧
    d'.bgData = (match lookup old d.core.bgs with
      | some bOld => moveKey bOld d.core.nextBg d.bgData
      | none => d.bgData) ∧ d'.nextTok = d.nextTok := by
  unfold dReplace1 at h
  cases hr : replace1 U d.core old new with
  | error e => rw [hr] at h; cases h
  | ok r =>
    obtain ⟨s', c'⟩ := r
    rw [hr] at h
    simp only [] at h
    cases h
    exact ⟨rfl, rfl, rfl, rfl, rfl⟩

theorem dinv_replace1 {U : Universe} {d d' : DState} {old new : Nat} {c : List Call}
    (hi : DInv U d) (hn : new ∉ d.core.sds) (hd : U.sdDim new = U.sdDim old)
    (h : dReplace1 U d old new = .ok (d', c)) : DInv U d' := by
  obtain ⟨hr, hsd, hif, hbg, htk⟩ := dReplace1_ok h
  obtain ⟨ho, hs', _, _⟩ := replace1_ok hr
  have hne : new ≠ old := fun e => hn (e ▸ ho)
  have hcore := inv_replaceState hi.core ho hn hd
  obtain ⟨t, ht⟩ := lookup_of_key_mem (l := d.sdData) (k := old) (by rw [hi.sdKeys]; exact ho)
  have hsdn : (d.sdData.map (·.1)).Nodup := by rw [hi.sdKeys]; exact hi.core.sdsNodup
  have hbgn : (d.bgData.map (·.1)).Nodup := by rw [hi.bgKeys]; exact hi.core.bgNodup
  have hkn : (d.core.bgs.map (·.1)).Nodup := by
    rw [hi.core.bgKeys]; exact hi.core.sdsNodup.sublist filter_sublist
  -- the boundary-grid part, in both cases
  have hbgpart : d'.bgData.map (·.1) = d'.core.bgs.map (·.2) ∧ d'.bgData.map (·.2) ~ d.bgData.map (·.2) := by
    rw [hbg, hs']
    cases hl : lookup old d.core.bgs with
    | none =>
      have hany : ¬ d.core.bgs.any (fun b => b.1 == old) = true := by
        intro ha
        rcases any_eq_true.1 ha with ⟨b, hb, hbe⟩
        simp only [beq_iff_eq] at hbe
        exact lookup_eq_none_iff.1 hl (hbe ▸ mem_map.2 ⟨b, hb, rfl⟩)
      simp only []
      unfold replaceState
      simp only [if_neg hany]
      exact ⟨hi.bgKeys, Perm.refl _⟩
    | some bOld =>
      have hmem := mem_of_lookup_eq_some hl
      have hany : d.core.bgs.any (fun b => b.1 == old) = true :=
        any_eq_true.2 ⟨_, hmem, by simp⟩
      have hbm : bOld ∈ d.bgData.map (·.1) := by
        rw [hi.bgKeys]; exact mem_map.2 ⟨_, hmem, rfl⟩
      obtain ⟨tb, htb⟩ := lookup_of_key_mem hbm
      have hfresh : d.core.nextBg ≠ bOld := by
        have := hi.core.bgFresh _ hmem
        simp only [] at this
        omega
      simp only []
      unfold replaceState
      simp only [if_pos hany]
      refine ⟨?_, moveKey_snd_perm hbgn htb hfresh⟩
      rw [moveKey_fst htb hfresh, hi.bgKeys]
      have : ((d.core.bgs ++ [(new, d.core.nextBg)]).filter (fun b => b.1 != old)).map (·.2)
          = ((d.core.bgs ++ [(new, d.core.nextBg)]).map (·.2)).filter (· != bOld) := by
        rw [filter_map]
        congr 1
        apply filter_congr
        intro e he
        simp only [Function.comp, mem_append, mem_singleton] at he ⊢
        rcases he with he | rfl
        · by_cases h1 : e.1 = old
          · have : e = (old, bOld) := by
              have h2 := lookup_eq_some_of_mem hkn (show (e.1, e.2) ∈ d.core.bgs from he)
              rw [h1, hl] at h2
              cases h2
              exact Prod.ext h1 rfl
            simp [this]
          · have h2 : e.2 ≠ bOld := by
              intro h2
              apply h1
              -- two entries with the same boundary-grid id are the same entry
              exact congrArg Prod.fst (eq_of_nodup_map hi.core.bgNodup he hmem h2)
            have e1 : (e.1 != old) = true := by simpa using h1
            have e2 : (e.2 != bOld) = true := by simpa using h2
            rw [e1, e2]
        · have e1 : (new != old) = true := by simpa using hne
          have e2 : (d.core.nextBg != bOld) = true := by simpa using hfresh
          rw [e1, e2]
      rw [this, map_append]
      rfl
  refine ⟨hs' ▸ hcore, ?_, ?_, hbgpart.1, ?_, ?_⟩
  · rw [hsd, moveKey_fst ht hne, hi.sdKeys, hs', replaceState_sds]
    simp [hn, filter_append]
  · rw [hif, hi.ifKeys, hs', replaceState_intfs]
  · have hperm : allToks d' ~ allToks d := by
      simp only [allToks, hif]
      exact ((hsd ▸ moveKey_snd_perm hsdn ht hne).append_right _).append hbgpart.2
    exact (hperm.nodup_iff).2 hi.tokNodup
  · have hperm : allToks d' ~ allToks d := by
      simp only [allToks, hif]
      exact ((hsd ▸ moveKey_snd_perm hsdn ht hne).append_right _).append hbgpart.2
    intro x hx
    rw [htk]
    exact hi.tokFresh x (hperm.mem_iff.1 hx)


/-! #### the data layer refines the graph layer -/

theorem dReplaceMany_core (U : Universe) (sm : List (Nat × Nat)) (d : DState) :
    (dReplaceMany U d sm).1.core = (replaceMany U d.core sm).1 ∧
    (dReplaceMany U d sm).2 = (replaceMany U d.core sm).2 := by
  induction sm generalizing d with
  | nil => exact ⟨rfl, rfl⟩
  | cons p sm ih =>
    obtain ⟨old, new⟩ := p
    simp only [dReplaceMany, replaceMany]
    cases hr : replace1 U d.core old new with
    | error e =>
      obtain ⟨e, c⟩ := e
      have : dReplace1 U d old new = .error (e, c) := by unfold dReplace1; rw [hr]
      rw [this]
      exact ⟨rfl, rfl⟩
    | ok r =>
      obtain ⟨s', c⟩ := r
      cases hd : dReplace1 U d old new with
      | error e =>
        unfold dReplace1 at hd; rw [hr] at hd; cases hd
      | ok r' =>
        obtain ⟨d', c'⟩ := r'
        have h1 := (dReplace1_ok hd).1
        rw [hr] at h1
        cases h1
        simp only []
        obtain ⟨i1, i2⟩ := ih d'
        refine ⟨i1, ?_⟩
        rw [i2]

theorem dstep_core (U : Universe) (d : DState) (op : Op) :
    (dstep U d op).state.core = (step U d.core op).state ∧
    (dstep U d op).err = (step U d.core op).err ∧ (dstep U d op).calls = (step U d.core op).calls := by
  cases op with
  | addSubdomains gs =>
    simp only [dstep, step, dAddSubdomains]
    cases addSubdomains U d.core gs <;> exact ⟨rfl, rfl, rfl⟩
  | addInterface i pair =>
    simp only [dstep, step, dAddInterface]
    cases addInterface U d.core i pair <;> exact ⟨rfl, rfl, rfl⟩
  | removeSubdomain g =>
    simp only [dstep, step, dRemoveSubdomain]
    cases removeSubdomain d.core g <;> exact ⟨rfl, rfl, rfl⟩
  | replace im sm =>
    simp only [dstep, step]
    obtain ⟨h1, h2⟩ := dReplaceMany_core U sm d
    refine ⟨h1, ?_, ?_⟩
    · rw [h2]
    · rw [h2]

theorem dinv_replaceMany {U : Universe} (sm : List (Nat × Nat)) {d : DState} (hi : DInv U d)
    (hw : wfReplace U d.core sm = true) : DInv U (dReplaceMany U d sm).1 := by
  induction sm generalizing d with
  | nil => exact hi
  | cons p sm ih =>
    obtain ⟨old, new⟩ := p
    simp only [dReplaceMany]
    cases hd : dReplace1 U d old new with
    | error e => exact hi
    | ok r =>
      obtain ⟨d', c⟩ := r
      have h1 := (dReplace1_ok hd).1
      simp only [wfReplace, h1, Bool.and_eq_true, Bool.not_eq_true', beq_iff_eq] at hw
      simp only []
      exact ih (dinv_replace1 hi (by simpa using hw.1.1) hw.1.2 hd) hw.2

theorem dinv_step {U : Universe} {d : DState} (op : Op) (hi : DInv U d)
    (hw : wfOp U d.core op = true) : DInv U (dstep U d op).state := by
  cases op with
  | addSubdomains gs =>
    simp only [dstep]
    cases h : dAddSubdomains U d gs with
    | error e => exact hi
    | ok d' => exact dinv_addSubdomains hi h
  | addInterface i pair =>
    simp only [dstep]
    cases h : dAddInterface U d i pair with
    | error e => exact hi
    | ok d' =>
      have hc : addInterface U d.core i pair = .ok d'.core := by
        unfold dAddInterface at h
        cases ha : addInterface U d.core i pair with
        | error e => rw [ha] at h; cases h
        | ok s' => rw [ha] at h; cases h; rfl
      obtain ⟨a, b, x, y, rfl, _, _, _⟩ := addInterface_ok hc
      simp only [wfOp, hc, Bool.and_eq_true, decide_eq_true_eq] at hw
      exact dinv_addInterface hi (by simpa using hw.1.1.1) (by simpa using hw.1.1.2) hw.1.2 hw.2 h
  | removeSubdomain g =>
    simp only [dstep]
    cases h : dRemoveSubdomain d g with
    | error e => exact hi
    | ok d' => exact dinv_removeSubdomain hi h
  | replace im sm =>
    simp only [dstep]
    exact dinv_replaceMany sm hi hw

/-! #### counters only grow; raising them keeps the invariant -/

theorem foldl_addOne_nextBg (U : Universe) (gs : List Nat) (s : State) :
    s.nextBg ≤ (gs.foldl (addOne U) s).nextBg := by
  induction gs generalizing s with
  | nil => exact Nat.le_refl _
  | cons g gs ih =>
    simp only [foldl_cons]
    refine Nat.le_trans ?_ (ih _)
    unfold addOne; split
    · exact Nat.le_succ _
    · exact Nat.le_refl _

theorem replaceMany_nextBg (U : Universe) (sm : List (Nat × Nat)) (s : State) :
    s.nextBg ≤ (replaceMany U s sm).1.nextBg := by
  induction sm generalizing s with
  | nil => exact Nat.le_refl _
  | cons p sm ih =>
    obtain ⟨old, new⟩ := p
    simp only [replaceMany]
    cases hr : replace1 U s old new with
    | error e => exact Nat.le_refl _
    | ok r =>
      obtain ⟨s', c⟩ := r
      simp only []
      refine Nat.le_trans ?_ (ih s')
      rw [(replace1_ok hr).2.1]
      unfold replaceState
      simp only []
      split
      · exact Nat.le_succ _
      · exact Nat.le_refl _

theorem step_nextBg_le (U : Universe) (s : State) (op : Op) :
    s.nextBg ≤ (step U s op).state.nextBg := by
  cases op with
  | addSubdomains gs =>
    simp only [step]
    cases h : addSubdomains U s gs with
    | error e => exact Nat.le_refl _
    | ok s' => rw [(addSubdomains_ok h).2.2]; exact foldl_addOne_nextBg U gs s
  | addInterface i pair =>
    simp only [step]
    cases h : addInterface U s i pair with
    | error e => exact Nat.le_refl _
    | ok s' =>
      obtain ⟨_, _, _, _, _, _, _, rfl⟩ := addInterface_ok h
      exact Nat.le_refl _
  | removeSubdomain g =>
    simp only [step]
    cases h : removeSubdomain s g with
    | error e => exact Nat.le_refl _
    | ok s' => rw [(removeSubdomain_ok h).2]; exact Nat.le_refl _
  | replace im sm => exact replaceMany_nextBg U sm s

theorem dReplaceMany_nextTok (U : Universe) (sm : List (Nat × Nat)) (d : DState) :
    (dReplaceMany U d sm).1.nextTok = d.nextTok := by
  induction sm generalizing d with
  | nil => rfl
  | cons p sm ih =>
    obtain ⟨old, new⟩ := p
    simp only [dReplaceMany]
    cases hd : dReplace1 U d old new with
    | error e => rfl
    | ok r =>
      obtain ⟨d', c⟩ := r
      simp only []
      rw [ih d', (dReplace1_ok hd).2.2.2.2]

theorem dstep_nextTok_le (U : Universe) (d : DState) (op : Op) :
    d.nextTok ≤ (dstep U d op).state.nextTok := by
  cases op with
  | addSubdomains gs =>
    simp only [dstep, dAddSubdomains]
    cases addSubdomains U d.core gs with
    | error e => exact Nat.le_refl _
    | ok s' => simp only []; omega
  | addInterface i pair =>
    simp only [dstep, dAddInterface]
    cases addInterface U d.core i pair with
    | error e => exact Nat.le_refl _
    | ok s' => simp only []; omega
  | removeSubdomain g =>
    simp only [dstep, dRemoveSubdomain]
    cases removeSubdomain d.core g with
    | error e => exact Nat.le_refl _
    | ok s' => exact Nat.le_refl _
  | replace im sm =>
    simp only [dstep]
    rw [dReplaceMany_nextTok]
    exact Nat.le_refl _

theorem dinv_withCounters {U : Universe} {d : DState} (hi : DInv U d) {nb nt : Nat}
    (hb : d.core.nextBg ≤ nb) (ht : d.nextTok ≤ nt) : DInv U (d.withCounters nb nt) := by
  refine ⟨⟨hi.core.sdsNodup, hi.core.intfNodup, hi.core.pairMem, hi.core.pairDim, hi.core.bgKeys,
    ?_, hi.core.bgNodup⟩, hi.sdKeys, hi.ifKeys, hi.bgKeys, hi.tokNodup, ?_⟩
  · intro b hb'
    exact Nat.lt_of_lt_of_le (hi.core.bgFresh b hb') hb
  · intro t ht'
    exact Nat.lt_of_lt_of_le (hi.tokFresh t ht') ht

/-- invariant of a family of containers produced by `copy()` -/
def WInv (U : Universe) (w : World) : Prop :=
  ∀ d ∈ w.conts, DInv U d ∧ d.core.nextBg ≤ w.nextBg ∧ d.nextTok ≤ w.nextTok

theorem winv_init (U : Universe) : WInv U World.init := by
  intro d hd
  simp only [World.init, mem_singleton] at hd
  subst hd
  exact ⟨dinv_empty U, Nat.le_refl _, Nat.le_refl _⟩

theorem winv_step {U : Universe} {w : World} (o : WOp) (hi : WInv U w)
    (hw : wfWorld U w [o] = true) : WInv U (wstep U w o) := by
  cases o with
  | copy k =>
    simp only [wstep]
    cases hk : w.conts[k]? with
    | none => exact hi
    | some d =>
      intro d' hd'
      simp only [mem_append, mem_singleton] at hd'
      rcases hd' with hd' | rfl
      · exact hi d' hd'
      · exact hi _ (mem_of_getElem? hk)
  | on k op =>
    simp only [wstep]
    cases hk : w.conts[k]? with
    | none => exact hi
    | some d =>
      simp only [wfWorld, hk, Bool.and_true] at hw
      have hd := hi d (mem_of_getElem? hk)
      have hbump := dinv_withCounters hd.1 hd.2.1 hd.2.2
      have hnew := dinv_step op hbump hw
      have hbg : w.nextBg ≤ (dstep U (d.withCounters w.nextBg w.nextTok) op).state.core.nextBg := by
        rw [(dstep_core U _ op).1]
        exact step_nextBg_le U (d.withCounters w.nextBg w.nextTok).core op
      have htk : w.nextTok ≤ (dstep U (d.withCounters w.nextBg w.nextTok) op).state.nextTok :=
        dstep_nextTok_le U (d.withCounters w.nextBg w.nextTok) op
      intro d' hd'
      simp only [] at hd' ⊢
      rcases mem_or_eq_of_mem_set hd' with hd' | rfl
      · have := hi d' hd'
        exact ⟨this.1, Nat.le_trans this.2.1 hbg, Nat.le_trans this.2.2 htk⟩
      · exact ⟨hnew, Nat.le_refl _, Nat.le_refl _⟩

theorem winv_run {U : Universe} (os : List WOp) {w : World} (hi : WInv U w)
    (hw : wfWorld U w os = true) : WInv U (wrun U w os) := by
  induction os generalizing w with
  | nil => exact hi
  | cons o os ih =>
    simp only [wrun]
    have h1 : wfWorld U w [o] = true ∧ wfWorld U (wstep U w o) os = true := by
      cases o with
      | copy k => simpa [wfWorld] using hw
      | on k op =>
        simp only [wfWorld, Bool.and_eq_true] at hw ⊢
        exact ⟨⟨hw.1, trivial⟩, hw.2⟩
    exact ih (winv_step o hi h1.1) h1.2


theorem lookup_filter_key {β : Type} {k : Nat} (p : Nat → Bool) (l : List (Nat × β)) (h : p k = true) :
    lookup k (l.filter (fun e => p e.1)) = lookup k l := by
  induction l with
  | nil => rfl
  | cons q l ih =>
    rw [filter_cons]
    by_cases hp : p q.1 = true
    · rw [if_pos hp]
      simp only [lookup]
      split
      · rfl
      · exact ih
    · rw [if_neg hp]
      have hq : (q.1 == k) = false := by
        simp only [beq_eq_false_iff_ne]; intro e; exact hp (e ▸ h)
      simp only [lookup, hq, Bool.false_eq_true, if_false]
      exact ih

theorem lookup_append_of_some {β : Type} {k : Nat} {v : β} {l l' : List (Nat × β)}
    (h : lookup k l = some v) : lookup k (l ++ l') = some v := by
  rw [lookup_append, h]; rfl

theorem eq_of_lookup_eq_some {l : List (Nat × Nat)} (hn : (l.map (·.2)).Nodup) {k k' t : Nat}
    (h : lookup k l = some t) (h' : lookup k' l = some t) : k = k' := by
  have := eq_of_nodup_map hn (mem_of_lookup_eq_some h) (mem_of_lookup_eq_some h') rfl
  exact congrArg Prod.fst this

end PorepyVerif.C24
