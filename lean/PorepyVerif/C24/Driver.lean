/- C24 line-protocol driver: `lake env lean --run PorepyVerif/C24/Driver.lean` -/
import PorepyVerif.Common.Wire
import PorepyVerif.C24.Model
open Lean PV PorepyVerif.C24

structure St where
  sdDims : List Nat
  ifDims : List Nat
  ifCodims : List Nat
  w : World

def St.U (st : St) : Universe :=
  ⟨fun k => st.sdDims.getD k 0, fun k => st.ifDims.getD k 0, fun k => st.ifCodims.getD k 0⟩

def errName : Err → String
  | .valueError => "ValueError"
  | .keyError => "KeyError"
  | .assertionError => "AssertionError"
  | .indexError => "IndexError"
  | .notImplementedError => "NotImplementedError"

def exJ {α : Type} (f : α → Json) : Except Err α → Json
  | .ok a => f a
  | .error e => err (errName e)

def pairJ (p : Nat × Nat) : Json := ofNats [p.1, p.2]

def callJ : Call → Json
  | .mortar i => Json.arr #[Json.str "mortar", ofNat i]
  | .primary i n o => Json.arr #[Json.str "primary", ofNat i, ofNat n, ofNat o]
  | .secondary i n => Json.arr #[Json.str "secondary", ofNat i, ofNat n]

def perSd (U : Universe) (s : State) (g : Nat) : Json :=
  obj [("g", ofNat g),
       ("intfs", exJ ofNats (intfsOfSd U s g)),
       ("neigh", exJ ofNats (neighbours U s g false false)),
       ("neigh_hi", exJ ofNats (neighbours U s g true false)),
       ("neigh_lo", exJ ofNats (neighbours U s g false true)),
       ("bg", ofOpt ofNat (bgOfSd s g))]

/-- everything observable about the container (raw dictionaries in insertion order + all queries) -/
def observe (U : Universe) (s : State) : Json :=
  let bgIds := fun (l : List (Nat × Nat)) => ofNats (l.map (·.2))
  obj [
    ("sds", ofNats s.sds),
    ("intf_data", ofNats s.intfs),
    ("pairs", ofList (fun (p : Entry) => ofNats [p.1, p.2.1, p.2.2]) s.pairs),
    ("bg_of", ofList (fun (b : Nat × Nat) => ofNats [b.1, b.2]) s.bgs),
    ("bg_data", ofList (fun (b : Nat × Nat) => ofNats [b.2, b.1]) s.bgs),
    ("list_sd", exJ ofNats (listSubdomains U s none)),
    ("list_sd_dim", ofList (fun d => exJ ofNats (listSubdomains U s (some d))) [0, 1, 2, 3]),
    ("list_if", exJ ofNats (listInterfaces U s none none)),
    ("list_if_dim", ofList (fun d => exJ ofNats (listInterfaces U s (some d) none)) [0, 1, 2, 3]),
    ("list_if_codim", ofList (fun c => exJ ofNats (listInterfaces U s none (some c))) [0, 1, 2]),
    ("list_if_dim_codim1", ofList (fun d => exJ ofNats (listInterfaces U s (some d) (some 1))) [0, 1, 2]),
    ("list_bg", exJ bgIds (listBoundaries U s none)),
    ("list_bg_dim", ofList (fun d => exJ bgIds (listBoundaries U s (some d))) [0, 1, 2]),
    ("pair_of", ofList (fun i => Json.arr #[ofNat i, exJ pairJ (pairOf U s i)]) s.intfs),
    ("back", ofList (fun (p : Entry) =>
        Json.arr #[ofNat p.1, exJ ofNat (intfOfPair s p.2.1 p.2.2), exJ ofNat (intfOfPair s p.2.2 p.2.1)]) s.pairs),
    ("per_sd", ofList (perSd U s) s.sds),
    ("num", ofNats [s.sds.length, s.pairs.length]),
    ("dim_max", if s.sds.isEmpty then err "ValueError" else ofNat (dimMax U s.sds)),
    ("dim_min", if s.sds.isEmpty then err "ValueError"
                else ofNat (s.sds.foldl (fun m g => min m (U.sdDim g)) (U.sdDim (s.sds.headD 0))))]

def pairsJ (l : List (Nat × Nat)) : Json := ofList (fun (b : Nat × Nat) => ofNats [b.1, b.2]) l

/-- raw dictionaries of one container, data-dictionary tokens included -/
def rawJ (d : DState) : Json :=
  obj [("sds", ofNats d.core.sds),
       ("pairs", ofList (fun (p : Entry) => ofNats [p.1, p.2.1, p.2.2]) d.core.pairs),
       ("bg_of", pairsJ d.core.bgs),
       ("sd_tok", pairsJ d.sdData), ("if_tok", pairsJ d.ifData), ("bg_tok", pairsJ d.bgData)]

def answer (U : Universe) (w : World) (k : Nat) (e : Option Err) (calls : List Call) (wf : Bool) : Json :=
  let d := w.conts.getD k DState.empty
  obj [("res", match e with | none => Json.str "ok" | some e => err (errName e)),
       ("calls", ofList callJ calls),
       ("wf", Json.bool wf),
       ("obs", observe U d.core),
       ("all", ofList rawJ w.conts)]

def jPair (j : Json) : R (Nat × Nat) := do
  match (← jList jNat j) with
  | [a, b] => pure (a, b)
  | _ => throw "pair expected"

def onOf (j : Json) : R Nat :=
  match j.getObjVal? "on" with
  | .ok v => jNat v
  | .error _ => pure 0

def doOp (st : St) (k : Nat) (op : Op) : R (St × Json) := do
  let U := st.U
  match st.w.conts[k]? with
  | none => throw "no such container"
  | some d =>
    let d0 := d.withCounters st.w.nextBg st.w.nextTok
    let r := dstep U d0 op
    let w' := wstep U st.w (.on k op)
    pure ({ st with w := w' }, answer U w' k r.err r.calls (wfOp U d0.core op))

def stepD (st : St) (j : Json) : R (St × Json) := do
  let op ← fStr j "op"
  let U := st.U
  let k ← onOf j
  let s := (st.w.conts.getD k DState.empty).core
  match op with
  | "init" =>
    let a ← fNats j "sd_dims"
    let b ← fNats j "if_dims"
    let c ← fNats j "if_codims"
    pure (⟨a, b, c, World.init⟩, Json.str "ok")
  | "add_subdomains" => doOp st k (.addSubdomains (← fNats j "gs"))
  | "add_interface" => doOp st k (.addInterface (← fNat j "i") (← fNats j "pair"))
  | "remove_subdomain" => doOp st k (.removeSubdomain (← fNat j "g"))
  | "replace" =>
    let im ← fNats j "intf_map"
    let sm ← field j "sd_map" >>= jList jPair
    doOp st k (.replace im sm)
  | "fork" =>
    if k ≥ st.w.conts.length then throw "no such container" else
    let w' := wstep U st.w (.copy k)
    pure ({ st with w := w' },
      obj [("res", Json.str "ok"), ("obs", observe U (w'.conts.getD (w'.conts.length - 1) DState.empty).core),
           ("all", ofList rawJ w'.conts)])
  | "q_pair" => pure (st, obj [("res", exJ pairJ (pairOf U s (← fNat j "i")))])
  | "q_back" =>
    let p ← field j "pair" >>= jPair
    pure (st, obj [("res", exJ ofNat (intfOfPair s p.1 p.2))])
  | "q_sd" => pure (st, obj [("res", perSd U s (← fNat j "g"))])
  | "q_neigh_both" => pure (st, obj [("res", exJ ofNats (neighbours U s (← fNat j "g") true true))])
  | _ => throw s!"unknown op {op}"

def main : IO Unit := runDriver (⟨[], [], [], World.init⟩ : St) stepD
