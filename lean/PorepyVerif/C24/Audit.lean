import PorepyVerif.C24.Props
#print axioms PorepyVerif.C24.reachable_inv
#print axioms PorepyVerif.C24.listing_sorted_nodup
#print axioms PorepyVerif.C24.listing_all
#print axioms PorepyVerif.C24.interface_pair_roundtrip
#print axioms PorepyVerif.C24.remove_exact
#print axioms PorepyVerif.C24.one_boundary_grid_per_positive_dim
#print axioms PorepyVerif.C24.replace_exact
#print axioms PorepyVerif.C24.rejections
#print axioms PorepyVerif.C24.valid_calls_accepted
#print axioms PorepyVerif.C24.replace_loop_visits_all
