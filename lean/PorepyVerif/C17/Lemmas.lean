/-
C17 — helper lemmas: finite sums, `cell_faces_as_dense` versus the incidence list, the sign of the
divergence, Kronecker expansion of triplet lists.
-/
import Mathlib.Algebra.Order.Field.Rat
import Mathlib.Tactic.Ring
import Mathlib.Tactic.Linarith
import Mathlib.Tactic.Positivity
import PorepyVerif.C17.Model

namespace PorepyVerif.C17

/-! ### sums -/

@[simp] theorem sumOver_nil (g : α → Rat) : sumOver [] g = 0 := rfl
@[simp] theorem sumOver_cons (a : α) (l : List α) (g : α → Rat) :
    sumOver (a :: l) g = g a + sumOver l g := rfl
@[simp] theorem sumTo_zero (g : Nat → Rat) : sumTo 0 g = 0 := rfl
@[simp] theorem sumTo_succ (n : Nat) (g : Nat → Rat) : sumTo (n + 1) g = sumTo n g + g n := rfl

theorem sumOver_append (l₁ l₂ : List α) (g : α → Rat) :
    sumOver (l₁ ++ l₂) g = sumOver l₁ g + sumOver l₂ g := by
  induction l₁ with
  | nil => simp
  | cons a l ih => simp [ih, add_assoc]

theorem sumOver_add (l : List α) (g h : α → Rat) :
    sumOver l (fun a => g a + h a) = sumOver l g + sumOver l h := by
  induction l with
  | nil => simp
  | cons a l ih => simp only [sumOver_cons, ih]; ring

theorem sumOver_sub (l : List α) (g h : α → Rat) :
    sumOver l (fun a => g a - h a) = sumOver l g - sumOver l h := by
  induction l with
  | nil => simp
  | cons a l ih => simp only [sumOver_cons, ih]; ring

theorem sumOver_mul_right (l : List α) (g : α → Rat) (k : Rat) :
    sumOver l (fun a => g a * k) = sumOver l g * k := by
  induction l with
  | nil => simp
  | cons a l ih => simp only [sumOver_cons, ih]; ring

theorem sumOver_congr (l : List α) (g h : α → Rat) (H : ∀ a ∈ l, g a = h a) :
    sumOver l g = sumOver l h := by
  induction l with
  | nil => rfl
  | cons a l ih =>
    simp only [sumOver_cons]
    rw [H a List.mem_cons_self, ih (fun b hb => H b (List.mem_cons_of_mem _ hb))]

theorem sumOver_le (l : List α) (g h : α → Rat) (H : ∀ a ∈ l, g a ≤ h a) :
    sumOver l g ≤ sumOver l h := by
  induction l with
  | nil => simp
  | cons a l ih =>
    simp only [sumOver_cons]
    exact add_le_add (H a List.mem_cons_self) (ih (fun b hb => H b (List.mem_cons_of_mem _ hb)))

theorem sumOver_eq_zero (l : List α) (g : α → Rat) (H : ∀ a ∈ l, g a = 0) : sumOver l g = 0 := by
  induction l with
  | nil => rfl
  | cons a l ih =>
    simp only [sumOver_cons]
    rw [H a List.mem_cons_self, ih (fun b hb => H b (List.mem_cons_of_mem _ hb))]; simp

theorem sumOver_nonneg (l : List α) (g : α → Rat) (H : ∀ a ∈ l, 0 ≤ g a) : 0 ≤ sumOver l g := by
  induction l with
  | nil => simp
  | cons a l ih =>
    simp only [sumOver_cons]
    exact add_nonneg (H a List.mem_cons_self) (ih (fun b hb => H b (List.mem_cons_of_mem _ hb)))

theorem sumTo_congr (n : Nat) (g h : Nat → Rat) (H : ∀ i, i < n → g i = h i) : sumTo n g = sumTo n h := by
  induction n with
  | zero => rfl
  | succ n ih =>
    simp only [sumTo_succ]
    rw [ih (fun i hi => H i (Nat.lt_succ_of_lt hi)), H n (Nat.lt_succ_self n)]

theorem sumTo_add (n : Nat) (g h : Nat → Rat) :
    sumTo n (fun i => g i + h i) = sumTo n g + sumTo n h := by
  induction n with
  | zero => simp
  | succ n ih => simp only [sumTo_succ, ih]; ring

theorem sumTo_sub (n : Nat) (g h : Nat → Rat) :
    sumTo n (fun i => g i - h i) = sumTo n g - sumTo n h := by
  induction n with
  | zero => simp
  | succ n ih => simp only [sumTo_succ, ih]; ring

theorem sumTo_mul_left (n : Nat) (g : Nat → Rat) (k : Rat) :
    sumTo n (fun i => k * g i) = k * sumTo n g := by
  induction n with
  | zero => simp
  | succ n ih => simp only [sumTo_succ, ih]; ring

theorem sumTo_eq_zero (n : Nat) (g : Nat → Rat) (H : ∀ i, i < n → g i = 0) : sumTo n g = 0 := by
  induction n with
  | zero => rfl
  | succ n ih =>
    simp only [sumTo_succ]
    rw [ih (fun i hi => H i (Nat.lt_succ_of_lt hi)), H n (Nat.lt_succ_self n)]; simp

/-- a sum that picks one index -/
theorem sumTo_ite_eq (a n : Nat) (h : Nat → Rat) :
    sumTo n (fun i => if a = i then h i else 0) = if a < n then h a else 0 := by
  induction n with
  | zero => simp
  | succ n ih =>
    simp only [sumTo_succ, ih]
    by_cases h1 : a < n
    · have h2 : a ≠ n := Nat.ne_of_lt h1
      have h3 : a < n + 1 := Nat.lt_succ_of_lt h1
      simp [h1, h2, h3]
    · by_cases h2 : a = n
      · subst h2; simp
      · have h3 : ¬ a < n + 1 := by omega
        simp [h1, h2, h3]

theorem sumTo_sumOver_comm (n : Nat) (l : List α) (g : α → Nat → Rat) :
    sumTo n (fun i => sumOver l (fun a => g a i)) = sumOver l (fun a => sumTo n (fun i => g a i)) := by
  induction l with
  | nil => simp [sumTo_eq_zero]
  | cons a l ih =>
    simp only [sumOver_cons]
    rw [sumTo_add, ih]

theorem sumTo_add_range (m k : Nat) (g : Nat → Rat) :
    sumTo (m + k) g = sumTo m g + sumTo k (fun b => g (m + b)) := by
  induction k with
  | zero => simp
  | succ k ih =>
    rw [← Nat.add_assoc]
    simp only [sumTo_succ, ih]; ring

/-- a sum over `n*k` indices, grouped in `n` blocks of `k` -/
theorem sumTo_mul_blocks (n k : Nat) (g : Nat → Rat) :
    sumTo (n * k) g = sumTo n (fun c => sumTo k (fun b => g (c * k + b))) := by
  induction n with
  | zero => simp
  | succ n ih =>
    rw [Nat.succ_mul, sumTo_add_range, ih]
    simp only [sumTo_succ]

/-! ### `cell_faces_as_dense` versus the incidence list -/

theorem cntPos_cons (i : Inc) (T : Topo) (f : Nat) :
    cntPos (i :: T) f = (if i.face = f ∧ 0 < i.sgn then 1 else 0) + cntPos T f := rfl
theorem cntNeg_cons (i : Inc) (T : Topo) (f : Nat) :
    cntNeg (i :: T) f = (if i.face = f ∧ i.sgn < 0 then 1 else 0) + cntNeg T f := rfl

theorem densePos_cons (i : Inc) (T : Topo) (f : Nat) :
    densePos (i :: T) f = match densePos T f with
      | some c => some c
      | none => if i.face = f ∧ 0 < i.sgn then some i.cell else none := rfl
theorem denseNeg_cons (i : Inc) (T : Topo) (f : Nat) :
    denseNeg (i :: T) f = match denseNeg T f with
      | some c => some c
      | none => if i.face = f ∧ i.sgn < 0 then some i.cell else none := rfl

theorem densePos_none_of_cnt (T : Topo) (f : Nat) (h : cntPos T f = 0) : densePos T f = none := by
  induction T with
  | nil => rfl
  | cons i T ih =>
    rw [cntPos_cons] at h
    have h1 : cntPos T f = 0 := by omega
    have h2 : ¬ (i.face = f ∧ 0 < i.sgn) := by
      intro hc; rw [if_pos hc] at h; omega
    rw [densePos_cons, ih h1]; simp [h2]

theorem denseNeg_none_of_cnt (T : Topo) (f : Nat) (h : cntNeg T f = 0) : denseNeg T f = none := by
  induction T with
  | nil => rfl
  | cons i T ih =>
    rw [cntNeg_cons] at h
    have h1 : cntNeg T f = 0 := by omega
    have h2 : ¬ (i.face = f ∧ i.sgn < 0) := by
      intro hc; rw [if_pos hc] at h; omega
    rw [denseNeg_cons, ih h1]; simp [h2]

/-- under "at most one positive cell", `cf_dense[0, f]` is the cell of any positive entry of the face -/
theorem densePos_of_mem (T : Topo) (f : Nat) (h : cntPos T f ≤ 1) (i : Inc) (hi : i ∈ T)
    (hf : i.face = f) (hs : 0 < i.sgn) : densePos T f = some i.cell := by
  induction T with
  | nil => cases hi
  | cons j T ih =>
    rw [cntPos_cons] at h
    rcases List.mem_cons.mp hi with rfl | hi'
    · rw [if_pos ⟨hf, hs⟩] at h
      have h1 : cntPos T f = 0 := by omega
      rw [densePos_cons, densePos_none_of_cnt T f h1]; simp [hf, hs]
    · have h1 : cntPos T f ≤ 1 := by omega
      rw [densePos_cons, ih h1 hi']

theorem denseNeg_of_mem (T : Topo) (f : Nat) (h : cntNeg T f ≤ 1) (i : Inc) (hi : i ∈ T)
    (hf : i.face = f) (hs : i.sgn < 0) : denseNeg T f = some i.cell := by
  induction T with
  | nil => cases hi
  | cons j T ih =>
    rw [cntNeg_cons] at h
    rcases List.mem_cons.mp hi with rfl | hi'
    · rw [if_pos ⟨hf, hs⟩] at h
      have h1 : cntNeg T f = 0 := by omega
      rw [denseNeg_cons, denseNeg_none_of_cnt T f h1]; simp [hf, hs]
    · have h1 : cntNeg T f ≤ 1 := by omega
      rw [denseNeg_cons, ih h1 hi']

theorem densePos_some_mem (T : Topo) (f a : Nat) (h : densePos T f = some a) :
    ∃ i ∈ T, i.face = f ∧ 0 < i.sgn ∧ i.cell = a := by
  induction T with
  | nil => cases h
  | cons j T ih =>
    rw [densePos_cons] at h
    cases hd : densePos T f with
    | some c =>
      rw [hd] at h
      obtain ⟨i, hi, hh⟩ := ih (by rw [hd]; exact h)
      exact ⟨i, List.mem_cons_of_mem _ hi, hh⟩
    | none =>
      rw [hd] at h
      by_cases hc : j.face = f ∧ 0 < j.sgn
      · simp only [if_pos hc, Option.some.injEq] at h
        exact ⟨j, List.mem_cons_self, hc.1, hc.2, h⟩
      · simp [if_neg hc] at h

theorem denseNeg_some_mem (T : Topo) (f a : Nat) (h : denseNeg T f = some a) :
    ∃ i ∈ T, i.face = f ∧ i.sgn < 0 ∧ i.cell = a := by
  induction T with
  | nil => cases h
  | cons j T ih =>
    rw [denseNeg_cons] at h
    cases hd : denseNeg T f with
    | some c =>
      rw [hd] at h
      obtain ⟨i, hi, hh⟩ := ih (by rw [hd]; exact h)
      exact ⟨i, List.mem_cons_of_mem _ hi, hh⟩
    | none =>
      rw [hd] at h
      by_cases hc : j.face = f ∧ j.sgn < 0
      · simp only [if_pos hc, Option.some.injEq] at h
        exact ⟨j, List.mem_cons_self, hc.1, hc.2, h⟩
      · simp [if_neg hc] at h

theorem cntPos_pos_of_mem (T : Topo) (f : Nat) (i : Inc) (hi : i ∈ T) (hf : i.face = f)
    (hs : 0 < i.sgn) : 1 ≤ cntPos T f := by
  induction T with
  | nil => cases hi
  | cons j T ih =>
    rw [cntPos_cons]
    rcases List.mem_cons.mp hi with rfl | hi'
    · rw [if_pos ⟨hf, hs⟩]; omega
    · have := ih hi'; omega

theorem cntNeg_pos_of_mem (T : Topo) (f : Nat) (i : Inc) (hi : i ∈ T) (hf : i.face = f)
    (hs : i.sgn < 0) : 1 ≤ cntNeg T f := by
  induction T with
  | nil => cases hi
  | cons j T ih =>
    rw [cntNeg_cons]
    rcases List.mem_cons.mp hi with rfl | hi'
    · rw [if_pos ⟨hf, hs⟩]; omega
    · have := ih hi'; omega

theorem mem_of_cntPos_pos (T : Topo) (f : Nat) (h : 1 ≤ cntPos T f) :
    ∃ i ∈ T, i.face = f ∧ 0 < i.sgn := by
  induction T with
  | nil => simp [cntPos] at h
  | cons j T ih =>
    rw [cntPos_cons] at h
    by_cases hc : j.face = f ∧ 0 < j.sgn
    · exact ⟨j, List.mem_cons_self, hc⟩
    · rw [if_neg hc] at h
      obtain ⟨i, hi, hh⟩ := ih (by omega)
      exact ⟨i, List.mem_cons_of_mem _ hi, hh⟩

theorem mem_of_cntNeg_pos (T : Topo) (f : Nat) (h : 1 ≤ cntNeg T f) :
    ∃ i ∈ T, i.face = f ∧ i.sgn < 0 := by
  induction T with
  | nil => simp [cntNeg] at h
  | cons j T ih =>
    rw [cntNeg_cons] at h
    by_cases hc : j.face = f ∧ j.sgn < 0
    · exact ⟨j, List.mem_cons_self, hc⟩
    · rw [if_neg hc] at h
      obtain ⟨i, hi, hh⟩ := ih (by omega)
      exact ⟨i, List.mem_cons_of_mem _ hi, hh⟩

/-! ### what well-formedness gives -/

theorem WF.unit {T : Topo} (h : WF T) (i : Inc) (hi : i ∈ T) : i.sgn = 1 ∨ i.sgn = -1 := by
  have := (List.all_eq_true.mp h) i hi
  simp only [decide_eq_true_eq] at this
  exact this.1

theorem WF.pos {T : Topo} (h : WF T) (f : Nat) : cntPos T f ≤ 1 := by
  by_cases h0 : 1 ≤ cntPos T f
  · obtain ⟨i, hi, hf, _⟩ := mem_of_cntPos_pos T f h0
    have := (List.all_eq_true.mp h) i hi
    simp only [decide_eq_true_eq] at this
    rw [← hf]; exact this.2.1
  · omega

theorem WF.neg {T : Topo} (h : WF T) (f : Nat) : cntNeg T f ≤ 1 := by
  by_cases h0 : 1 ≤ cntNeg T f
  · obtain ⟨i, hi, hf, _⟩ := mem_of_cntNeg_pos T f h0
    have := (List.all_eq_true.mp h) i hi
    simp only [decide_eq_true_eq] at this
    rw [← hf]; exact this.2.2
  · omega

/-- the sign of the divergence of a face = (#positive cells) − (#negative cells) -/
theorem sgnDiv_eq_cnt (T : Topo) (f : Nat) (hu : ∀ i ∈ T, i.sgn = 1 ∨ i.sgn = -1) :
    sgnDiv T f = (cntPos T f : Rat) - (cntNeg T f : Rat) := by
  induction T with
  | nil => simp [sgnDiv, cntPos, cntNeg]
  | cons j T ih =>
    have ih' := ih (fun i hi => hu i (List.mem_cons_of_mem _ hi))
    unfold sgnDiv at ih' ⊢
    rw [sumOver_cons, ih', cntPos_cons, cntNeg_cons]
    by_cases hf : j.face = f
    · rcases hu j List.mem_cons_self with h1 | h1
      · simp [hf, h1]; ring
      · simp [hf, h1]; ring
    · simp [hf]

theorem sgnDiv_interior (T : Topo) (f : Nat) (h : WF T) (hi : Interior T f) : sgnDiv T f = 0 := by
  rw [sgnDiv_eq_cnt T f h.unit, hi.1, hi.2]; simp

/-! ### flux sign -/

theorem posFlux_iff (P : Pb) (f : Nat) : posFlux P f = true ↔ 0 ≤ P.q f := by
  unfold posFlux sgnR
  by_cases h1 : 0 < P.q f
  · simp [h1, le_of_lt h1]
  · by_cases h2 : P.q f < 0
    · simp [h1, h2]
    · have : P.q f = 0 := le_antisymm (not_lt.mp h1) (not_lt.mp h2)
      simp [this]

theorem posFlux_false_iff (P : Pb) (f : Nat) : posFlux P f = false ↔ P.q f < 0 := by
  rw [← not_le, ← posFlux_iff]; simp

/-- `inflow_ind` = Dirichlet faces whose upstream side has no cell -/
theorem inflowDir_eq (P : Pb) (f : Nat) : inflowDir P f = (P.isDir f && (upstream P f).isNone) := by
  unfold inflowDir upstream
  cases posFlux P f <;> simp

theorem upCol_of_not_deleted (P : Pb) (f : Nat) (h : deleted P f = false) : upCol P f = upstream P f := by
  unfold upCol; simp [h]

theorem upCol_of_deleted (P : Pb) (f : Nat) (h : deleted P f = true) : upCol P f = none := by
  unfold upCol; simp [h]

/-! ### triplet lists -/

theorem entryOf_append (M₁ M₂ : List Trip) (r c : Nat) :
    entryOf (M₁ ++ M₂) r c = entryOf M₁ r c + entryOf M₂ r c := sumOver_append _ _ _

theorem entryOf_cons (t : Trip) (M : List Trip) (r c : Nat) :
    entryOf (t :: M) r c = (if t.1 = r ∧ t.2.1 = c then t.2.2 else 0) + entryOf M r c := rfl

theorem entryOf_nil (r c : Nat) : entryOf [] r c = 0 := rfl

/-- entries of the `k` copies of one triplet -/
theorem entryOf_block (k : Nat) (hk : 0 < k) (t : Trip) (r c : Nat) (n : Nat) (hn : n ≤ k) :
    entryOf ((List.range n).map (fun a => (t.1 * k + a, t.2.1 * k + a, t.2.2))) r c
      = if r / k = t.1 ∧ c / k = t.2.1 ∧ r % k = c % k ∧ r % k < n then t.2.2 else 0 := by
  induction n with
  | zero => simp [entryOf_nil]
  | succ n ih =>
    rw [List.range_succ, List.map_append, entryOf_append, ih (Nat.le_of_succ_le hn)]
    simp only [List.map_cons, List.map_nil, entryOf_cons, entryOf_nil, add_zero]
    have hnk : n < k := hn
    by_cases h1 : t.1 * k + n = r ∧ t.2.1 * k + n = c
    · obtain ⟨hr, hc⟩ := h1
      have e1 : r / k = t.1 := by
        rw [← hr, Nat.mul_comm, Nat.mul_add_div hk, Nat.div_eq_of_lt hnk]; simp
      have e2 : c / k = t.2.1 := by
        rw [← hc, Nat.mul_comm, Nat.mul_add_div hk, Nat.div_eq_of_lt hnk]; simp
      have e3 : r % k = n := by rw [← hr, Nat.mul_comm, Nat.mul_add_mod, Nat.mod_eq_of_lt hnk]
      have e4 : c % k = n := by rw [← hc, Nat.mul_comm, Nat.mul_add_mod, Nat.mod_eq_of_lt hnk]
      simp [hr, hc, e1, e2, e3, e4]
    · rw [if_neg h1, add_zero]
      by_cases h2 : r / k = t.1 ∧ c / k = t.2.1 ∧ r % k = c % k ∧ r % k < n + 1
      · obtain ⟨a1, a2, a3, a4⟩ := h2
        have a5 : r % k < n := by
          rcases Nat.lt_succ_iff_lt_or_eq.mp a4 with h | h
          · exact h
          · exfalso; apply h1
            constructor
            · rw [← a1, ← h]; exact Nat.div_add_mod' r k
            · rw [← a2, ← h, a3]; exact Nat.div_add_mod' c k
        simp [a1, a2, a3, a4, a3 ▸ a5]
      · have h3 : ¬ (r / k = t.1 ∧ c / k = t.2.1 ∧ r % k = c % k ∧ r % k < n) := by
          intro ⟨a1, a2, a3, a4⟩; exact h2 ⟨a1, a2, a3, Nat.lt_succ_of_lt a4⟩
        rw [if_neg h2, if_neg h3]

end PorepyVerif.C17
