/-
C17 — helper lemmas: finite sums, `cell_faces_as_dense` versus the incidence list, the sign of the
divergence, Kronecker expansion of triplet lists.
-/
import Mathlib.Algebra.Order.Field.Rat
import Mathlib.Tactic.Ring
import Mathlib.Tactic.Linarith
import Mathlib.Tactic.Positivity
import Mathlib.Tactic.FieldSimp
import PorepyVerif.C17.Model

namespace PorepyVerif.C17

/-! ### sums -/

@[simp] theorem sumOver_nil (g : α → Rat) : sumOver [] g = 0 := rfl
@[simp] theorem sumOver_cons (a : α) (l : List α) (g : α → Rat) :
    sumOver (a :: l) g = g a + sumOver l g := rfl
@[simp] theorem sumTo_zero (g : Nat → Rat) : sumTo 0 g = 0 := rfl
@[simp] theorem sumTo_succ (n : Nat) (g : Nat → Rat) : sumTo (n + 1) g = sumTo n g + g n := rfl

theorem sumOver_append (l₁ l₂ : List α) (g : α → Rat) :
    sumOver (l₁ ++ l₂) g = sumOver l₁ g + sumOver l₂ g := by
  induction l₁ with
  | nil => simp
  | cons a l ih => simp [ih, add_assoc]

theorem sumOver_add (l : List α) (g h : α → Rat) :
    sumOver l (fun a => g a + h a) = sumOver l g + sumOver l h := by
  induction l with
  | nil => simp
  | cons a l ih => simp only [sumOver_cons, ih]; ring

theorem sumOver_sub (l : List α) (g h : α → Rat) :
    sumOver l (fun a => g a - h a) = sumOver l g - sumOver l h := by
  induction l with
  | nil => simp
  | cons a l ih => simp only [sumOver_cons, ih]; ring

theorem sumOver_neg (l : List α) (g : α → Rat) :
    sumOver l (fun a => -g a) = -sumOver l g := by
  induction l with
  | nil => simp
  | cons a l ih => simp only [sumOver_cons, ih]; ring

theorem sumOver_mul_right (l : List α) (g : α → Rat) (k : Rat) :
    sumOver l (fun a => g a * k) = sumOver l g * k := by
  induction l with
  | nil => simp
  | cons a l ih => simp only [sumOver_cons, ih]; ring

theorem sumOver_congr (l : List α) (g h : α → Rat) (H : ∀ a ∈ l, g a = h a) :
    sumOver l g = sumOver l h := by
  induction l with
  | nil => rfl
  | cons a l ih =>
    simp only [sumOver_cons]
    rw [H a List.mem_cons_self, ih (fun b hb => H b (List.mem_cons_of_mem _ hb))]

theorem sumOver_le (l : List α) (g h : α → Rat) (H : ∀ a ∈ l, g a ≤ h a) :
    sumOver l g ≤ sumOver l h := by
  induction l with
  | nil => simp
  | cons a l ih =>
    simp only [sumOver_cons]
    exact add_le_add (H a List.mem_cons_self) (ih (fun b hb => H b (List.mem_cons_of_mem _ hb)))

theorem sumOver_eq_zero (l : List α) (g : α → Rat) (H : ∀ a ∈ l, g a = 0) : sumOver l g = 0 := by
  induction l with
  | nil => rfl
  | cons a l ih =>
    simp only [sumOver_cons]
    rw [H a List.mem_cons_self, ih (fun b hb => H b (List.mem_cons_of_mem _ hb))]; simp

theorem sumOver_nonneg (l : List α) (g : α → Rat) (H : ∀ a ∈ l, 0 ≤ g a) : 0 ≤ sumOver l g := by
  induction l with
  | nil => simp
  | cons a l ih =>
    simp only [sumOver_cons]
    exact add_nonneg (H a List.mem_cons_self) (ih (fun b hb => H b (List.mem_cons_of_mem _ hb)))

theorem sumTo_congr (n : Nat) (g h : Nat → Rat) (H : ∀ i, i < n → g i = h i) : sumTo n g = sumTo n h := by
  induction n with
  | zero => rfl
  | succ n ih =>
    simp only [sumTo_succ]
    rw [ih (fun i hi => H i (Nat.lt_succ_of_lt hi)), H n (Nat.lt_succ_self n)]

theorem sumTo_add (n : Nat) (g h : Nat → Rat) :
    sumTo n (fun i => g i + h i) = sumTo n g + sumTo n h := by
  induction n with
  | zero => simp
  | succ n ih => simp only [sumTo_succ, ih]; ring

theorem sumTo_sub (n : Nat) (g h : Nat → Rat) :
    sumTo n (fun i => g i - h i) = sumTo n g - sumTo n h := by
  induction n with
  | zero => simp
  | succ n ih => simp only [sumTo_succ, ih]; ring

theorem sumTo_mul_left (n : Nat) (g : Nat → Rat) (k : Rat) :
    sumTo n (fun i => k * g i) = k * sumTo n g := by
  induction n with
  | zero => simp
  | succ n ih => simp only [sumTo_succ, ih]; ring

theorem sumTo_eq_zero (n : Nat) (g : Nat → Rat) (H : ∀ i, i < n → g i = 0) : sumTo n g = 0 := by
  induction n with
  | zero => rfl
  | succ n ih =>
    simp only [sumTo_succ]
    rw [ih (fun i hi => H i (Nat.lt_succ_of_lt hi)), H n (Nat.lt_succ_self n)]; simp

/-- a sum that picks one index -/
theorem sumTo_ite_eq (a n : Nat) (h : Nat → Rat) :
    sumTo n (fun i => if a = i then h i else 0) = if a < n then h a else 0 := by
  induction n with
  | zero => simp
  | succ n ih =>
    simp only [sumTo_succ, ih]
    by_cases h1 : a < n
    · have h2 : a ≠ n := Nat.ne_of_lt h1
      have h3 : a < n + 1 := Nat.lt_succ_of_lt h1
      simp [h1, h2, h3]
    · by_cases h2 : a = n
      · subst h2; simp
      · have h3 : ¬ a < n + 1 := by omega
        simp [h1, h2, h3]

theorem sumTo_sumOver_comm (n : Nat) (l : List α) (g : α → Nat → Rat) :
    sumTo n (fun i => sumOver l (fun a => g a i)) = sumOver l (fun a => sumTo n (fun i => g a i)) := by
  induction l with
  | nil => simp [sumTo_eq_zero]
  | cons a l ih =>
    simp only [sumOver_cons]
    rw [sumTo_add, ih]

theorem sumTo_add_range (m k : Nat) (g : Nat → Rat) :
    sumTo (m + k) g = sumTo m g + sumTo k (fun b => g (m + b)) := by
  induction k with
  | zero => simp
  | succ k ih =>
    rw [← Nat.add_assoc]
    simp only [sumTo_succ, ih]; ring

/-- a sum over `n*k` indices, grouped in `n` blocks of `k` -/
theorem sumTo_mul_blocks (n k : Nat) (g : Nat → Rat) :
    sumTo (n * k) g = sumTo n (fun c => sumTo k (fun b => g (c * k + b))) := by
  induction n with
  | zero => simp
  | succ n ih =>
    rw [Nat.succ_mul, sumTo_add_range, ih]
    simp only [sumTo_succ]

/-! ### `cell_faces_as_dense` versus the incidence list -/

theorem cntPos_cons (i : Inc) (T : Topo) (f : Nat) :
    cntPos (i :: T) f = (if i.face = f ∧ 0 < i.sgn then 1 else 0) + cntPos T f := rfl
theorem cntNeg_cons (i : Inc) (T : Topo) (f : Nat) :
    cntNeg (i :: T) f = (if i.face = f ∧ i.sgn < 0 then 1 else 0) + cntNeg T f := rfl

theorem densePos_cons (i : Inc) (T : Topo) (f : Nat) :
    densePos (i :: T) f = match densePos T f with
      | some c => some c
      | none => if i.face = f ∧ 0 < i.sgn then some i.cell else none := rfl
theorem denseNeg_cons (i : Inc) (T : Topo) (f : Nat) :
    denseNeg (i :: T) f = match denseNeg T f with
      | some c => some c
      | none => if i.face = f ∧ i.sgn < 0 then some i.cell else none := rfl

theorem densePos_none_of_cnt (T : Topo) (f : Nat) (h : cntPos T f = 0) : densePos T f = none := by
  induction T with
  | nil => rfl
  | cons i T ih =>
    rw [cntPos_cons] at h
    have h1 : cntPos T f = 0 := by omega
    have h2 : ¬ (i.face = f ∧ 0 < i.sgn) := by
      intro hc; rw [if_pos hc] at h; omega
    rw [densePos_cons, ih h1]; simp [h2]

theorem denseNeg_none_of_cnt (T : Topo) (f : Nat) (h : cntNeg T f = 0) : denseNeg T f = none := by
  induction T with
  | nil => rfl
  | cons i T ih =>
    rw [cntNeg_cons] at h
    have h1 : cntNeg T f = 0 := by omega
    have h2 : ¬ (i.face = f ∧ i.sgn < 0) := by
      intro hc; rw [if_pos hc] at h; omega
    rw [denseNeg_cons, ih h1]; simp [h2]

/-- under "at most one positive cell", `cf_dense[0, f]` is the cell of any positive entry of the face -/
theorem densePos_of_mem (T : Topo) (f : Nat) (h : cntPos T f ≤ 1) (i : Inc) (hi : i ∈ T)
    (hf : i.face = f) (hs : 0 < i.sgn) : densePos T f = some i.cell := by
  induction T with
  | nil => cases hi
  | cons j T ih =>
    rw [cntPos_cons] at h
    rcases List.mem_cons.mp hi with rfl | hi'
    · rw [if_pos ⟨hf, hs⟩] at h
      have h1 : cntPos T f = 0 := by omega
      rw [densePos_cons, densePos_none_of_cnt T f h1]; simp [hf, hs]
    · have h1 : cntPos T f ≤ 1 := by omega
      rw [densePos_cons, ih h1 hi']

theorem denseNeg_of_mem (T : Topo) (f : Nat) (h : cntNeg T f ≤ 1) (i : Inc) (hi : i ∈ T)
    (hf : i.face = f) (hs : i.sgn < 0) : denseNeg T f = some i.cell := by
  induction T with
  | nil => cases hi
  | cons j T ih =>
    rw [cntNeg_cons] at h
    rcases List.mem_cons.mp hi with rfl | hi'
    · rw [if_pos ⟨hf, hs⟩] at h
      have h1 : cntNeg T f = 0 := by omega
      rw [denseNeg_cons, denseNeg_none_of_cnt T f h1]; simp [hf, hs]
    · have h1 : cntNeg T f ≤ 1 := by omega
      rw [denseNeg_cons, ih h1 hi']

theorem densePos_some_mem (T : Topo) (f a : Nat) (h : densePos T f = some a) :
    ∃ i ∈ T, i.face = f ∧ 0 < i.sgn ∧ i.cell = a := by
  induction T with
  | nil => cases h
  | cons j T ih =>
    rw [densePos_cons] at h
    cases hd : densePos T f with
    | some c =>
      rw [hd] at h
      obtain ⟨i, hi, hh⟩ := ih (by rw [hd]; exact h)
      exact ⟨i, List.mem_cons_of_mem _ hi, hh⟩
    | none =>
      rw [hd] at h
      by_cases hc : j.face = f ∧ 0 < j.sgn
      · simp only [if_pos hc, Option.some.injEq] at h
        exact ⟨j, List.mem_cons_self, hc.1, hc.2, h⟩
      · simp [if_neg hc] at h

theorem denseNeg_some_mem (T : Topo) (f a : Nat) (h : denseNeg T f = some a) :
    ∃ i ∈ T, i.face = f ∧ i.sgn < 0 ∧ i.cell = a := by
  induction T with
  | nil => cases h
  | cons j T ih =>
    rw [denseNeg_cons] at h
    cases hd : denseNeg T f with
    | some c =>
      rw [hd] at h
      obtain ⟨i, hi, hh⟩ := ih (by rw [hd]; exact h)
      exact ⟨i, List.mem_cons_of_mem _ hi, hh⟩
    | none =>
      rw [hd] at h
      by_cases hc : j.face = f ∧ j.sgn < 0
      · simp only [if_pos hc, Option.some.injEq] at h
        exact ⟨j, List.mem_cons_self, hc.1, hc.2, h⟩
      · simp [if_neg hc] at h

theorem cntPos_pos_of_mem (T : Topo) (f : Nat) (i : Inc) (hi : i ∈ T) (hf : i.face = f)
    (hs : 0 < i.sgn) : 1 ≤ cntPos T f := by
  induction T with
  | nil => cases hi
  | cons j T ih =>
    rw [cntPos_cons]
    rcases List.mem_cons.mp hi with rfl | hi'
    · rw [if_pos ⟨hf, hs⟩]; omega
    · have := ih hi'; omega

theorem cntNeg_pos_of_mem (T : Topo) (f : Nat) (i : Inc) (hi : i ∈ T) (hf : i.face = f)
    (hs : i.sgn < 0) : 1 ≤ cntNeg T f := by
  induction T with
  | nil => cases hi
  | cons j T ih =>
    rw [cntNeg_cons]
    rcases List.mem_cons.mp hi with rfl | hi'
    · rw [if_pos ⟨hf, hs⟩]; omega
    · have := ih hi'; omega

theorem mem_of_cntPos_pos (T : Topo) (f : Nat) (h : 1 ≤ cntPos T f) :
    ∃ i ∈ T, i.face = f ∧ 0 < i.sgn := by
  induction T with
  | nil => simp [cntPos] at h
  | cons j T ih =>
    rw [cntPos_cons] at h
    by_cases hc : j.face = f ∧ 0 < j.sgn
    · exact ⟨j, List.mem_cons_self, hc⟩
    · rw [if_neg hc] at h
      obtain ⟨i, hi, hh⟩ := ih (by omega)
      exact ⟨i, List.mem_cons_of_mem _ hi, hh⟩

theorem mem_of_cntNeg_pos (T : Topo) (f : Nat) (h : 1 ≤ cntNeg T f) :
    ∃ i ∈ T, i.face = f ∧ i.sgn < 0 := by
  induction T with
  | nil => simp [cntNeg] at h
  | cons j T ih =>
    rw [cntNeg_cons] at h
    by_cases hc : j.face = f ∧ j.sgn < 0
    · exact ⟨j, List.mem_cons_self, hc⟩
    · rw [if_neg hc] at h
      obtain ⟨i, hi, hh⟩ := ih (by omega)
      exact ⟨i, List.mem_cons_of_mem _ hi, hh⟩

/-! ### what well-formedness gives -/

theorem WF.unit {T : Topo} (h : WF T) (i : Inc) (hi : i ∈ T) : i.sgn = 1 ∨ i.sgn = -1 := by
  have := (List.all_eq_true.mp h) i hi
  simp only [decide_eq_true_eq] at this
  exact this.1

theorem WF.pos {T : Topo} (h : WF T) (f : Nat) : cntPos T f ≤ 1 := by
  by_cases h0 : 1 ≤ cntPos T f
  · obtain ⟨i, hi, hf, _⟩ := mem_of_cntPos_pos T f h0
    have := (List.all_eq_true.mp h) i hi
    simp only [decide_eq_true_eq] at this
    rw [← hf]; exact this.2.1
  · omega

theorem WF.neg {T : Topo} (h : WF T) (f : Nat) : cntNeg T f ≤ 1 := by
  by_cases h0 : 1 ≤ cntNeg T f
  · obtain ⟨i, hi, hf, _⟩ := mem_of_cntNeg_pos T f h0
    have := (List.all_eq_true.mp h) i hi
    simp only [decide_eq_true_eq] at this
    rw [← hf]; exact this.2.2
  · omega

/-- the sign of the divergence of a face = (#positive cells) − (#negative cells) -/
theorem sgnDiv_eq_cnt (T : Topo) (f : Nat) (hu : ∀ i ∈ T, i.sgn = 1 ∨ i.sgn = -1) :
    sgnDiv T f = (cntPos T f : Rat) - (cntNeg T f : Rat) := by
  induction T with
  | nil => simp [sgnDiv, cntPos, cntNeg]
  | cons j T ih =>
    have ih' := ih (fun i hi => hu i (List.mem_cons_of_mem _ hi))
    unfold sgnDiv at ih' ⊢
    rw [sumOver_cons, ih', cntPos_cons, cntNeg_cons]
    by_cases hf : j.face = f
    · rcases hu j List.mem_cons_self with h1 | h1
      · have e : ¬ ((1 : Rat) < 0) := by norm_num
        simp [hf, h1, e]; ring
      · have e : ¬ ((1 : Rat) < 0) := by norm_num
        simp [hf, h1, e]; ring
    · simp [hf]

theorem sgnDiv_interior (T : Topo) (f : Nat) (h : WF T) (hi : Interior T f) : sgnDiv T f = 0 := by
  rw [sgnDiv_eq_cnt T f h.unit, hi.1, hi.2]; simp

/-! ### flux sign -/

theorem posFlux_iff (P : Pb) (f : Nat) : posFlux P f = true ↔ 0 ≤ P.q f := by
  unfold posFlux sgnR
  by_cases h1 : 0 < P.q f
  · simp [h1, le_of_lt h1]
  · by_cases h2 : P.q f < 0
    · simp [h1, h2]
    · have : P.q f = 0 := le_antisymm (not_lt.mp h1) (not_lt.mp h2)
      simp [this]

theorem posFlux_false_iff (P : Pb) (f : Nat) : posFlux P f = false ↔ P.q f < 0 := by
  rw [← not_le, ← posFlux_iff]; simp

/-- `inflow_ind` = Dirichlet faces whose upstream side has no cell -/
theorem inflowDir_eq (P : Pb) (f : Nat) : inflowDir P f = (P.isDir f && (upstream P f).isNone) := by
  unfold inflowDir upstream
  cases posFlux P f <;> simp

theorem upCol_of_not_deleted (P : Pb) (f : Nat) (h : deleted P f = false) : upCol P f = upstream P f := by
  unfold upCol; simp [h]

theorem upCol_of_deleted (P : Pb) (f : Nat) (h : deleted P f = true) : upCol P f = none := by
  unfold upCol; simp [h]

/-! ### triplet lists -/

theorem entryOf_append (M₁ M₂ : List Trip) (r c : Nat) :
    entryOf (M₁ ++ M₂) r c = entryOf M₁ r c + entryOf M₂ r c := sumOver_append _ _ _

theorem entryOf_cons (t : Trip) (M : List Trip) (r c : Nat) :
    entryOf (t :: M) r c = (if t.1 = r ∧ t.2.1 = c then t.2.2 else 0) + entryOf M r c := rfl

theorem entryOf_nil (r c : Nat) : entryOf [] r c = 0 := rfl

/-- entries of the `k` copies of one triplet -/
theorem entryOf_block (k : Nat) (hk : 0 < k) (t : Trip) (r c : Nat) (n : Nat) (hn : n ≤ k) :
    entryOf ((List.range n).map (fun a => (t.1 * k + a, t.2.1 * k + a, t.2.2))) r c
      = if r / k = t.1 ∧ c / k = t.2.1 ∧ r % k = c % k ∧ r % k < n then t.2.2 else 0 := by
  induction n with
  | zero => simp [entryOf_nil]
  | succ n ih =>
    rw [List.range_succ, List.map_append, entryOf_append, ih (Nat.le_of_succ_le hn)]
    simp only [List.map_cons, List.map_nil, entryOf_cons, entryOf_nil, add_zero]
    have hnk : n < k := hn
    by_cases h1 : t.1 * k + n = r ∧ t.2.1 * k + n = c
    · obtain ⟨hr, hc⟩ := h1
      have e1 : r / k = t.1 := by
        rw [← hr, Nat.mul_comm, Nat.mul_add_div hk, Nat.div_eq_of_lt hnk]; simp
      have e2 : c / k = t.2.1 := by
        rw [← hc, Nat.mul_comm, Nat.mul_add_div hk, Nat.div_eq_of_lt hnk]; simp
      have e3 : r % k = n := by rw [← hr, Nat.mul_comm, Nat.mul_add_mod, Nat.mod_eq_of_lt hnk]
      have e4 : c % k = n := by rw [← hc, Nat.mul_comm, Nat.mul_add_mod, Nat.mod_eq_of_lt hnk]
      simp [hr, hc, e1, e2, e3, e4]
    · rw [if_neg h1, add_zero]
      by_cases h2 : r / k = t.1 ∧ c / k = t.2.1 ∧ r % k = c % k ∧ r % k < n + 1
      · obtain ⟨a1, a2, a3, a4⟩ := h2
        have a5 : r % k < n := by
          rcases Nat.lt_succ_iff_lt_or_eq.mp a4 with h | h
          · exact h
          · exfalso; apply h1
            constructor
            · rw [← a1, ← h]; exact Nat.div_add_mod' r k
            · rw [← a2, ← h, a3]; exact Nat.div_add_mod' c k
        rw [if_pos ⟨a1, a2, a3, a5⟩, if_pos ⟨a1, a2, a3, a4⟩]
      · have h3 : ¬ (r / k = t.1 ∧ c / k = t.2.1 ∧ r % k = c % k ∧ r % k < n) := by
          intro ⟨a1, a2, a3, a4⟩; exact h2 ⟨a1, a2, a3, Nat.lt_succ_of_lt a4⟩
        rw [if_neg h2, if_neg h3]

/-! ### discrete Gauss: summing the divergence over cells -/

theorem sum_divAt (T : Topo) (g : Nat → Rat) (nc : Nat) (hc : ∀ i ∈ T, i.cell < nc) :
    sumTo nc (divAt T g) = sumOver T (fun i => i.sgn * g i.face) := by
  unfold divAt
  rw [sumTo_sumOver_comm]
  apply sumOver_congr
  intro i hi
  rw [sumTo_ite_eq i.cell nc (fun _ => i.sgn * g i.face), if_pos (hc i hi)]

theorem sum_faces (T : Topo) (g : Nat → Rat) (nf : Nat) (hf : ∀ i ∈ T, i.face < nf) :
    sumOver T (fun i => i.sgn * g i.face) = sumTo nf (fun f => sgnDiv T f * g f) := by
  unfold sgnDiv
  have e : ∀ f, sumOver T (fun i => if i.face = f then i.sgn else 0) * g f
      = sumOver T (fun i => if i.face = f then i.sgn * g f else 0) := by
    intro f
    rw [← sumOver_mul_right]
    apply sumOver_congr
    intro i _
    by_cases h : i.face = f <;> simp [h]
  rw [sumTo_congr nf _ _ (fun f _ => e f), sumTo_sumOver_comm]
  apply sumOver_congr
  intro i hi
  rw [sumTo_ite_eq i.face nf (fun f => i.sgn * g f), if_pos (hf i hi)]

theorem divAt_eq_out_sub_in (T : Topo) (q : Nat → Rat) (k : Nat) :
    divAt T q k = outflow T q k - inflow T q k := by
  unfold divAt outflow inflow
  rw [← sumOver_sub]
  apply sumOver_congr
  intro i _
  by_cases h : i.cell = k
  · simp only [if_pos h]
    rcases le_total (i.sgn * q i.face) 0 with h1 | h1
    · rw [max_eq_right h1, max_eq_left (by linarith)]; ring
    · rw [max_eq_left h1, max_eq_right (by linarith)]; ring
  · simp [h]

/-! ### counting cells of a face from "every entry of the face has this sign" -/

theorem cntNeg_eq_zero (T : Topo) (f : Nat) (h : ∀ j ∈ T, j.face = f → ¬ j.sgn < 0) : cntNeg T f = 0 := by
  induction T with
  | nil => rfl
  | cons j T ih =>
    rw [cntNeg_cons, ih (fun i hi => h i (List.mem_cons_of_mem _ hi))]
    have : ¬ (j.face = f ∧ j.sgn < 0) := fun hc => h j List.mem_cons_self hc.1 hc.2
    simp [this]

theorem cntPos_eq_zero (T : Topo) (f : Nat) (h : ∀ j ∈ T, j.face = f → ¬ 0 < j.sgn) : cntPos T f = 0 := by
  induction T with
  | nil => rfl
  | cons j T ih =>
    rw [cntPos_cons, ih (fun i hi => h i (List.mem_cons_of_mem _ hi))]
    have : ¬ (j.face = f ∧ 0 < j.sgn) := fun hc => h j List.mem_cons_self hc.1 hc.2
    simp [this]

/-- on an interior face of a well-formed topology both rows of `cf_dense` hold a cell -/
theorem interior_upstream_some (P : Pb) (hwf : WF P.T) (f : Nat) (h : Interior P.T f) :
    ∃ j, upstream P f = some j := by
  obtain ⟨i, hi, hf, hs⟩ := mem_of_cntPos_pos P.T f (by rw [h.1])
  obtain ⟨i', hi', hf', hs'⟩ := mem_of_cntNeg_pos P.T f (by rw [h.2])
  unfold upstream
  cases posFlux P f
  · exact ⟨i'.cell, by simpa using denseNeg_of_mem P.T f (hwf.neg f) i' hi' hf' hs'⟩
  · exact ⟨i.cell, by simpa using densePos_of_mem P.T f (hwf.pos f) i hi hf hs⟩

/-- if the flux leaves the cell of an entry through its face, that cell is the upstream cell -/
theorem upstream_of_outflow (P : Pb) (hwf : WF P.T) (i : Inc) (hi : i ∈ P.T)
    (hout : 0 < i.sgn * P.q i.face) : upstream P i.face = some i.cell := by
  unfold upstream
  rcases hwf.unit i hi with h1 | h1
  · rw [h1, one_mul] at hout
    rw [(posFlux_iff P i.face).mpr (le_of_lt hout)]
    simpa using densePos_of_mem P.T i.face (hwf.pos _) i hi rfl (by rw [h1]; norm_num)
  · rw [h1] at hout
    have hq : P.q i.face < 0 := by linarith
    rw [(posFlux_false_iff P i.face).mpr hq]
    simpa using denseNeg_of_mem P.T i.face (hwf.neg _) i hi rfl (by rw [h1]; norm_num)

theorem upstream_cell_lt (P : Pb) (nc : Nat) (hcell : ∀ i ∈ P.T, i.cell < nc) (f j : Nat)
    (h : upstream P f = some j) : j < nc := by
  unfold upstream at h
  cases hp : posFlux P f
  · rw [hp] at h
    obtain ⟨i, hi, _, _, hc⟩ := denseNeg_some_mem P.T f j (by simpa using h)
    rw [← hc]; exact hcell i hi
  · rw [hp] at h
    obtain ⟨i, hi, _, _, hc⟩ := densePos_some_mem P.T f j (by simpa using h)
    rw [← hc]; exact hcell i hi

/-! ### the convex-combination argument, entry by entry -/

/-- The face flux seen from the cell `k` of an entry is `flux × (a value between m and M)`, and that
    value is the cell's own value when the flux leaves the cell. -/
theorem faceFlux_as_upstream_value (P : Pb) (hwf : WF P.T) (nc : Nat) (c bv : Nat → Rat) (m M : Rat)
    (hcell : ∀ i ∈ P.T, i.cell < nc)
    (hc : ∀ j, j < nc → m ≤ c j ∧ c j ≤ M)
    (hneu : ∀ i ∈ P.T, P.isNeu i.face = true → P.q i.face = 0 ∧ bv i.face = 0)
    (hnoerr : ∀ i ∈ P.T, P.q i.face ≠ 0 → upErr P i.face = false)
    (hbv : ∀ i ∈ P.T, inflowDir P i.face = true → P.q i.face ≠ 0 → m ≤ bv i.face ∧ bv i.face ≤ M)
    (i : Inc) (hi : i ∈ P.T) :
    ∃ x, faceFlux P c bv i.face = P.q i.face * x ∧ m ≤ x ∧ x ≤ M ∧
      (0 < i.sgn * P.q i.face → x = c i.cell) := by
  have hk := hc i.cell (hcell i hi)
  by_cases hq : P.q i.face = 0
  · refine ⟨c i.cell, ?_, hk.1, hk.2, fun _ => rfl⟩
    unfold faceFlux neuDiag
    cases hn : P.isNeu i.face
    · simp [hq]
    · simp [hq, (hneu i hi hn).2]
  · have hn : P.isNeu i.face = false := by
      cases hn : P.isNeu i.face
      · rfl
      · exact absurd (hneu i hi hn).1 hq
    have hnd : neuDiag P i.face = 0 := by unfold neuDiag; simp [hn]
    cases hu : upstream P i.face with
    | some j =>
      have hin : inflowDir P i.face = false := by rw [inflowDir_eq, hu]; simp
      have hdel : deleted P i.face = false := by unfold deleted; simp [hn, hin]
      have hcol : upCol P i.face = some j := by rw [upCol_of_not_deleted P _ hdel, hu]
      have hj := hc j (upstream_cell_lt P nc hcell i.face j hu)
      refine ⟨c j, ?_, hj.1, hj.2, ?_⟩
      · unfold faceFlux upVal dirDiag
        rw [hcol, hnd]; simp [hin]
      · intro hout
        have := upstream_of_outflow P hwf i hi hout
        rw [hu] at this
        rw [Option.some.inj this]
    | none =>
      have he := hnoerr i hi hq
      unfold upErr at he
      rw [hu] at he
      have hdel : deleted P i.face = true := by simpa using he
      have hin : inflowDir P i.face = true := by
        unfold deleted at hdel; simpa [hn] using hdel
      have hb := hbv i hi hin hq
      refine ⟨bv i.face, ?_, hb.1, hb.2, ?_⟩
      · unfold faceFlux upVal dirDiag
        rw [upCol_of_deleted P _ hdel, hnd]; simp [hin]
      · intro hout
        have := upstream_of_outflow P hwf i hi hout
        rw [hu] at this
        cases this

theorem arith_term (s q x ck m M : Rat) (hx1 : m ≤ x) (hx2 : x ≤ M) (hout : 0 < s * q → x = ck) :
    s * (q * x) - s * q * ck ≤ max (-(s * q)) 0 * (ck - m) ∧
    -(max (-(s * q)) 0 * (M - ck)) ≤ s * (q * x) - s * q * ck := by
  rcases lt_or_ge 0 (s * q) with h | h
  · rw [hout h, max_eq_right (by linarith)]
    constructor <;> · ring_nf; exact le_refl _
  · rw [max_eq_left (by linarith)]
    have h1 : s * q * (x - m) ≤ 0 := mul_nonpos_of_nonpos_of_nonneg h (by linarith)
    have h2 : s * q * (M - x) ≤ 0 := mul_nonpos_of_nonpos_of_nonneg h (by linarith)
    constructor <;> nlinarith [h1, h2]

/-- bounds on the divergence of the face flux in cell `k`, obtained by summing `arith_term` -/
theorem divAt_faceFlux_bounds (P : Pb) (hwf : WF P.T) (nc : Nat) (c bv : Nat → Rat) (m M : Rat)
    (hcell : ∀ i ∈ P.T, i.cell < nc)
    (hc : ∀ j, j < nc → m ≤ c j ∧ c j ≤ M)
    (hneu : ∀ i ∈ P.T, P.isNeu i.face = true → P.q i.face = 0 ∧ bv i.face = 0)
    (hnoerr : ∀ i ∈ P.T, P.q i.face ≠ 0 → upErr P i.face = false)
    (hbv : ∀ i ∈ P.T, inflowDir P i.face = true → P.q i.face ≠ 0 → m ≤ bv i.face ∧ bv i.face ≤ M)
    (k : Nat) :
    divAt P.T (faceFlux P c bv) k - divAt P.T P.q k * c k ≤ inflow P.T P.q k * (c k - m) ∧
    -(inflow P.T P.q k * (M - c k)) ≤ divAt P.T (faceFlux P c bv) k - divAt P.T P.q k * c k := by
  unfold divAt inflow
  rw [← sumOver_mul_right, ← sumOver_mul_right, ← sumOver_mul_right, ← sumOver_sub]
  have key : ∀ i ∈ P.T,
      ((if i.cell = k then i.sgn * faceFlux P c bv i.face else 0) - (if i.cell = k then i.sgn * P.q i.face else 0) * c k
        ≤ (if i.cell = k then max (-(i.sgn * P.q i.face)) 0 else 0) * (c k - m)) ∧
      (-((if i.cell = k then max (-(i.sgn * P.q i.face)) 0 else 0) * (M - c k))
        ≤ (if i.cell = k then i.sgn * faceFlux P c bv i.face else 0) - (if i.cell = k then i.sgn * P.q i.face else 0) * c k) := by
    intro i hi
    by_cases h : i.cell = k
    · simp only [if_pos h]
      obtain ⟨x, hx, hx1, hx2, hout⟩ :=
        faceFlux_as_upstream_value P hwf nc c bv m M hcell hc hneu hnoerr hbv i hi
      rw [hx, ← h]
      exact arith_term i.sgn (P.q i.face) x (c i.cell) m M hx1 hx2 hout
    · simp [h]
  constructor
  · exact sumOver_le _ _ _ (fun i hi => (key i hi).1)
  · have := sumOver_le P.T
      (fun i => -((if i.cell = k then max (-(i.sgn * P.q i.face)) 0 else 0) * (M - c k)))
      _ (fun i hi => (key i hi).2)
    rw [sumOver_neg] at this
    exact this

theorem arith_final_lower (ck m A W dt V : Rat) (hV : 0 < V) (hdt : 0 ≤ dt) (hcfl : dt * W ≤ V)
    (hck : m ≤ ck) (hA : A ≤ W * (ck - m)) : m ≤ ck - dt / V * A := by
  have hr : 0 ≤ dt / V := div_nonneg hdt hV.le
  have h1 : dt / V * A ≤ dt / V * (W * (ck - m)) := mul_le_mul_of_nonneg_left hA hr
  have h2 : dt / V * (W * (ck - m)) = dt * W / V * (ck - m) := by ring
  have h3 : dt * W / V ≤ 1 := (div_le_one hV).mpr hcfl
  have h4 : dt * W / V * (ck - m) ≤ 1 * (ck - m) := mul_le_mul_of_nonneg_right h3 (by linarith)
  linarith

theorem arith_final_upper (ck M A W dt V : Rat) (hV : 0 < V) (hdt : 0 ≤ dt) (hcfl : dt * W ≤ V)
    (hck : ck ≤ M) (hA : -(W * (M - ck)) ≤ A) : ck - dt / V * A ≤ M := by
  have hr : 0 ≤ dt / V := div_nonneg hdt hV.le
  have h1 : dt / V * (-(W * (M - ck))) ≤ dt / V * A := mul_le_mul_of_nonneg_left hA hr
  have h2 : dt / V * (W * (M - ck)) = dt * W / V * (M - ck) := by ring
  have h3 : dt * W / V ≤ 1 := (div_le_one hV).mpr hcfl
  have h4 : dt * W / V * (M - ck) ≤ 1 * (M - ck) := mul_le_mul_of_nonneg_right h3 (by linarith)
  linarith

/-! ### the triplet lists of the driver represent the entry functions -/

theorem upwindTrip_entry (P : Pb) (nf f c : Nat) :
    entryOf (upwindTrip P nf) f c = if f < nf then U P f c else 0 := by
  induction nf with
  | zero => simp [upwindTrip, entryOf_nil]
  | succ n ih =>
    unfold upwindTrip
    rw [entryOf_append, ih]
    unfold U
    by_cases h1 : f < n
    · have h2 : f < n + 1 := Nat.lt_succ_of_lt h1
      have h3 : n ≠ f := (Nat.ne_of_lt h1).symm
      cases hu : upCol P n <;> simp [h1, h2, h3, entryOf_cons, entryOf_nil]
    · by_cases h2 : f = n
      · subst h2
        cases hu : upCol P f with
        | none => simp [entryOf_nil]
        | some j => simp [entryOf_cons, entryOf_nil, eq_comm]
      · have h3 : ¬ f < n + 1 := by omega
        have h4 : n ≠ f := fun e => h2 e.symm
        cases hu : upCol P n <;> simp [h1, h3, h4, entryOf_cons, entryOf_nil]

theorem dirTrip_entry (P : Pb) (nf r c : Nat) :
    entryOf (dirTrip P nf) r c = if r < nf ∧ r = c then dirDiag P r else 0 := by
  induction nf with
  | zero => simp [dirTrip, entryOf_nil]
  | succ n ih =>
    unfold dirTrip
    rw [entryOf_append, ih]
    unfold dirDiag
    by_cases h1 : r < n
    · have h2 : r < n + 1 := Nat.lt_succ_of_lt h1
      have h3 : n ≠ r := (Nat.ne_of_lt h1).symm
      cases hu : inflowDir P n <;> simp [h1, h2, h3, entryOf_cons, entryOf_nil]
    · by_cases h2 : r = n
      · subst h2
        cases hu : inflowDir P r <;> simp [entryOf_cons, entryOf_nil]
      · have h3 : ¬ r < n + 1 := by omega
        have h4 : n ≠ r := fun e => h2 e.symm
        cases hu : inflowDir P n <;> simp [h1, h3, h4, entryOf_cons, entryOf_nil]

theorem neuTrip_entry (P : Pb) (nf r c : Nat) :
    entryOf (neuTrip P nf) r c = if r < nf ∧ r = c then neuDiag P r else 0 := by
  induction nf with
  | zero => simp [neuTrip, entryOf_nil]
  | succ n ih =>
    unfold neuTrip
    rw [entryOf_append, ih]
    unfold neuDiag
    by_cases h1 : r < n
    · have h2 : r < n + 1 := Nat.lt_succ_of_lt h1
      have h3 : n ≠ r := (Nat.ne_of_lt h1).symm
      cases hu : P.isNeu n <;> simp [h1, h2, h3, entryOf_cons, entryOf_nil]
    · by_cases h2 : r = n
      · subst h2
        cases hu : P.isNeu r <;> simp [entryOf_cons, entryOf_nil]
      · have h3 : ¬ r < n + 1 := by omega
        have h4 : n ≠ r := fun e => h2 e.symm
        cases hu : P.isNeu n <;> simp [h1, h3, h4, entryOf_cons, entryOf_nil]

/-! ### interface coupling -/

theorem sumTo_comm (n m : Nat) (g : Nat → Nat → Rat) :
    sumTo n (fun i => sumTo m (fun j => g i j)) = sumTo m (fun j => sumTo n (fun i => g i j)) := by
  induction n with
  | zero => simp [sumTo_eq_zero]
  | succ n ih => simp only [sumTo_succ, ih, sumTo_add]

theorem sumTo_mul_right (n : Nat) (g : Nat → Rat) (k : Rat) :
    sumTo n (fun i => g i * k) = sumTo n g * k := by
  induction n with
  | zero => simp
  | succ n ih => simp only [sumTo_succ, ih]; ring

theorem absR_nonneg (x : Rat) : 0 ≤ absR x := by
  unfold absR; split <;> linarith

theorem absR_mul_sgnR (x : Rat) : absR x * ((sgnR x : Int) : Rat) = x := by
  unfold absR sgnR
  by_cases h1 : 0 < x
  · have : ¬ x < 0 := not_lt.mpr h1.le
    simp [h1, this]
  · by_cases h2 : x < 0
    · simp [h1, h2]
    · have : x = 0 := le_antisymm (not_lt.mp h1) (not_lt.mp h2)
      simp [this]

theorem cplFlag_iff (C : Cp) (m : Nat) : cplFlag C m = true ↔ 0 < C.lam m := by
  unfold cplFlag sgnR
  by_cases h1 : 0 < C.lam m
  · simp [h1]
  · by_cases h2 : C.lam m < 0
    · simp [h1, h2]
    · simp [h1, h2]

/-- total weight of a face in the trace operator: the number of its cells -/
def faceWeight (T : Topo) (f : Nat) : Rat := sumOver T (fun i => if i.face = f then absR i.sgn else 0)

theorem sum_traceW (T : Topo) (f nc : Nat) (hc : ∀ i ∈ T, i.cell < nc) :
    sumTo nc (fun c => traceW T f c) = faceWeight T f := by
  unfold traceW faceWeight
  rw [sumTo_sumOver_comm]
  apply sumOver_congr
  intro i hi
  by_cases h : i.face = f
  · have e : ∀ c, (if i.face = f ∧ i.cell = c then absR i.sgn else 0) = if i.cell = c then absR i.sgn else 0 := by
      intro c; simp [h]
    rw [sumTo_congr nc _ _ (fun c _ => e c), sumTo_ite_eq i.cell nc (fun _ => absR i.sgn), if_pos (hc i hi), if_pos h]
  · rw [if_neg h]
    exact sumTo_eq_zero _ _ (fun c _ => by simp [h])

theorem traceVal_eq_matvec (T : Topo) (c : Nat → Rat) (f nc : Nat) (hc : ∀ i ∈ T, i.cell < nc) :
    sumTo nc (fun k => traceW T f k * c k) = traceVal T c f := by
  unfold traceW traceVal
  have e : ∀ k, sumOver T (fun i => if i.face = f ∧ i.cell = k then absR i.sgn else 0) * c k
      = sumOver T (fun i => if i.cell = k then (if i.face = f then absR i.sgn * c k else 0) else 0) := by
    intro k
    rw [← sumOver_mul_right]
    apply sumOver_congr
    intro i _
    by_cases h1 : i.face = f <;> by_cases h2 : i.cell = k <;> simp [h1, h2]
  rw [sumTo_congr nc _ _ (fun k _ => e k), sumTo_sumOver_comm]
  apply sumOver_congr
  intro i hi
  rw [sumTo_ite_eq i.cell nc (fun k => if i.face = f then absR i.sgn * c k else 0), if_pos (hc i hi)]

theorem faceWeight_eq_cnt (T : Topo) (f : Nat) (hu : ∀ i ∈ T, i.sgn = 1 ∨ i.sgn = -1) :
    faceWeight T f = (cntPos T f : Rat) + (cntNeg T f : Rat) := by
  induction T with
  | nil => simp [faceWeight, cntPos, cntNeg]
  | cons j T ih =>
    have ih' := ih (fun i hi => hu i (List.mem_cons_of_mem _ hi))
    unfold faceWeight at ih' ⊢
    rw [sumOver_cons, ih', cntPos_cons, cntNeg_cons]
    by_cases hf : j.face = f
    · have e : ¬ ((1 : Rat) < 0) := by norm_num
      rcases hu j List.mem_cons_self with h1 | h1
      · simp [hf, h1, e, absR]; ring
      · simp [hf, h1, e, absR]; ring
    · simp [hf]

end PorepyVerif.C17
