import PorepyVerif.C17.Props
#print axioms PorepyVerif.C17.upwind_selects_upstream
#print axioms PorepyVerif.C17.upwind_boundary_rows_neumann
#print axioms PorepyVerif.C17.sgnDiv_boundary
#print axioms PorepyVerif.C17.upwind_boundary_rows_dirichlet
#print axioms PorepyVerif.C17.dirDiag_support
#print axioms PorepyVerif.C17.boundary_data_only_on_boundary_rows
#print axioms PorepyVerif.C17.upwind_boundary_rows
#print axioms PorepyVerif.C17.upVal_eq_matvec
#print axioms PorepyVerif.C17.transport_balance
#print axioms PorepyVerif.C17.transport_conserves
#print axioms PorepyVerif.C17.transport_conserves_iter
#print axioms PorepyVerif.C17.transport_maximum_principle_inflow
#print axioms PorepyVerif.C17.transport_maximum_principle
#print axioms PorepyVerif.C17.transport_maximum_principle_iter
#print axioms PorepyVerif.C17.kron_entry
#print axioms PorepyVerif.C17.kron_components
#print axioms PorepyVerif.C17.kron_upwind_entry
