/-
C17 — property theorems (statements depend on Model.lean only; helper lemmas in Lemmas.lean).

Property: for any grid, face flux field and assignment of Dirichlet or Neumann conditions to the
boundary faces, each face with nonzero flux selects in the upwind matrix exactly the cell the flux
leaves (no cell on Neumann faces and on Dirichlet inflow faces), with boundary data entering only
on those faces.  An explicit transport step under the CFL limit with no-flow boundaries and a
divergence-free flux keeps the total advected amount unchanged and keeps cell values within the
initial bounds.

"Any grid" = any list `T` of signed incidences `(face, cell, ±1)` with at most one cell on each
side of a face (`WF T`, decidable); fluxes, boundary flags, boundary data, volumes are arbitrary
functions.  An entry `⟨f, a, 1⟩ ∈ T` says that the normal of face `f` points out of cell `a`.
-/
import PorepyVerif.C17.Lemmas

namespace PorepyVerif.C17

/-! ### upstream selection -/

/-- Interior face `f` (normal pointing from cell `a` to cell `b`), not flagged Neumann: row `f` of the
    upwind matrix has exactly one nonzero entry, a 1, at the cell the flux leaves — `a` for positive
    flux, `b` for negative flux; zero flux is treated as positive (as coded: `np.sign(flux) >= 0`). -/
theorem upwind_selects_upstream (P : Pb) (hwf : WF P.T) (f a b : Nat)
    (ha : (⟨f, a, 1⟩ : Inc) ∈ P.T) (hb : (⟨f, b, -1⟩ : Inc) ∈ P.T) (hneu : P.isNeu f = false) :
    (0 < P.q f → ∀ c, U P f c = if c = a then 1 else 0) ∧
    (P.q f < 0 → ∀ c, U P f c = if c = b then 1 else 0) ∧
    (P.q f = 0 → ∀ c, U P f c = if c = a then 1 else 0) := by
  have dp : densePos P.T f = some a := densePos_of_mem P.T f (hwf.pos f) ⟨f, a, 1⟩ ha rfl (by norm_num)
  have dn : denseNeg P.T f = some b := denseNeg_of_mem P.T f (hwf.neg f) ⟨f, b, -1⟩ hb rfl (by norm_num)
  have hcol : upCol P f = if posFlux P f then some a else some b := by
    have hin : inflowDir P f = false := by
      rw [inflowDir_eq]; unfold upstream; rw [dp, dn]; cases posFlux P f <;> simp
    have hdel : deleted P f = false := by unfold deleted; simp [hneu, hin]
    rw [upCol_of_not_deleted P f hdel]; unfold upstream; rw [dp, dn]
  have pos_case : 0 ≤ P.q f → ∀ c, U P f c = if c = a then 1 else 0 := by
    intro h c
    unfold U; rw [hcol, (posFlux_iff P f).mpr h]
    by_cases hc : c = a
    · simp [hc]
    · have : ¬ a = c := fun e => hc e.symm
      simp [hc, this]
  refine ⟨fun h => pos_case (le_of_lt h), ?_, fun h => pos_case (le_of_eq h.symm)⟩
  intro h c
  unfold U; rw [hcol, (posFlux_false_iff P f).mpr h]
  by_cases hc : c = b
  · simp [hc]
  · have : ¬ b = c := fun e => hc e.symm
    simp [hc, this]

/-! ### boundary rows -/

/-- Neumann faces (any topology): no cell is selected, `bound_transport_neu` carries the sign of the
    divergence and `bound_transport_neu` is zero on every other face. -/
theorem upwind_boundary_rows_neumann (P : Pb) (f : Nat) :
    (P.isNeu f = true → (∀ c, U P f c = 0) ∧ neuDiag P f = sgnDiv P.T f) ∧
    (P.isNeu f = false → neuDiag P f = 0) := by
  constructor
  · intro h
    have hdel : deleted P f = true := by unfold deleted; simp [h]
    refine ⟨fun c => ?_, ?_⟩
    · unfold U; rw [upCol_of_deleted P f hdel]; simp
    · unfold neuDiag; simp [h]
  · intro h; unfold neuDiag; simp [h]

/-- On a boundary face (its only entry is `i`) the sign of the divergence is the sign of that entry:
    +1 if the normal points out of the domain, -1 if it points in. -/
theorem sgnDiv_boundary (T : Topo) (hwf : WF T) (i : Inc) (hi : i ∈ T)
    (honly : ∀ j ∈ T, j.face = i.face → j = i) : sgnDiv T i.face = i.sgn := by
  rw [sgnDiv_eq_cnt T i.face hwf.unit]
  rcases hwf.unit i hi with h1 | h1
  · have hp : cntPos T i.face = 1 :=
      le_antisymm (hwf.pos _) (cntPos_pos_of_mem T i.face i hi rfl (by rw [h1]; norm_num))
    have hn : cntNeg T i.face = 0 := cntNeg_eq_zero T i.face (fun j hj hf => by
      rw [honly j hj hf, h1]; norm_num)
    rw [hp, hn, h1]; norm_num
  · have hn : cntNeg T i.face = 1 :=
      le_antisymm (hwf.neg _) (cntNeg_pos_of_mem T i.face i hi rfl (by rw [h1]; norm_num))
    have hp : cntPos T i.face = 0 := cntPos_eq_zero T i.face (fun j hj hf => by
      rw [honly j hj hf, h1]; norm_num)
    rw [hp, hn, h1]; norm_num

/-- Dirichlet boundary face (only entry `i`, not Neumann): if the flux enters the domain the row is
    empty and `bound_transport_dir` has a 1; if it leaves the domain the row selects the interior
    cell and `bound_transport_dir` has nothing. -/
theorem upwind_boundary_rows_dirichlet (P : Pb) (hwf : WF P.T) (i : Inc) (hi : i ∈ P.T)
    (honly : ∀ j ∈ P.T, j.face = i.face → j = i)
    (hdir : P.isDir i.face = true) (hneu : P.isNeu i.face = false) :
    (i.sgn * P.q i.face < 0 → (∀ c, U P i.face c = 0) ∧ dirDiag P i.face = 1) ∧
    (0 < i.sgn * P.q i.face →
      (∀ c, U P i.face c = if c = i.cell then 1 else 0) ∧ dirDiag P i.face = 0) := by
  constructor
  · intro hin
    have hup : upstream P i.face = none := by
      unfold upstream
      rcases hwf.unit i hi with h1 | h1
      · rw [h1, one_mul] at hin
        rw [(posFlux_false_iff P i.face).mpr hin]
        simpa using denseNeg_none_of_cnt P.T i.face (cntNeg_eq_zero P.T i.face (fun j hj hf => by
          rw [honly j hj hf, h1]; norm_num))
      · rw [h1] at hin
        have hq : 0 ≤ P.q i.face := by linarith
        rw [(posFlux_iff P i.face).mpr hq]
        simpa using densePos_none_of_cnt P.T i.face (cntPos_eq_zero P.T i.face (fun j hj hf => by
          rw [honly j hj hf, h1]; norm_num))
    have hinf : inflowDir P i.face = true := by rw [inflowDir_eq, hup, hdir]; rfl
    have hdel : deleted P i.face = true := by unfold deleted; simp [hinf]
    refine ⟨fun c => ?_, ?_⟩
    · unfold U; rw [upCol_of_deleted P _ hdel]; simp
    · unfold dirDiag; simp [hinf]
  · intro hout
    have hup := upstream_of_outflow P hwf i hi hout
    have hinf : inflowDir P i.face = false := by rw [inflowDir_eq, hup]; simp
    have hdel : deleted P i.face = false := by unfold deleted; simp [hneu, hinf]
    refine ⟨fun c => ?_, ?_⟩
    · unfold U; rw [upCol_of_not_deleted P _ hdel, hup]
      by_cases hc : c = i.cell
      · simp [hc]
      · have : ¬ i.cell = c := fun e => hc e.symm
        simp [hc, this]
    · unfold dirDiag; simp [hinf]

/-- `bound_transport_dir` is nonzero only on Dirichlet faces whose upstream side has no cell. -/
theorem dirDiag_support (P : Pb) (f : Nat) (h : dirDiag P f ≠ 0) :
    P.isDir f = true ∧ upstream P f = none := by
  unfold dirDiag at h
  cases hin : inflowDir P f
  · simp [hin] at h
  · rw [inflowDir_eq] at hin
    simpa using hin

/-- Boundary data enters only on the deleted rows (Neumann faces and Dirichlet inflow faces), with the
    coded signs, and cell values enter only on the other rows: the composed face flux
    `flux·(upwind c) + bound_transport_dir (flux·bv) + bound_transport_neu bv` is
    `flux · c[upstream cell]` on kept rows and `[Dirichlet inflow]·flux·bv + [Neumann]·sgn_div·bv` on
    deleted rows. -/
theorem boundary_data_only_on_boundary_rows (P : Pb) (c bv : Nat → Rat) (f : Nat) :
    (deleted P f = false →
      dirDiag P f = 0 ∧ neuDiag P f = 0 ∧ faceFlux P c bv f = P.q f * upVal P c f) ∧
    (deleted P f = true →
      (∀ j, U P f j = 0) ∧
      faceFlux P c bv f = dirDiag P f * (P.q f * bv f) + neuDiag P f * bv f) := by
  constructor
  · intro h
    unfold deleted at h
    have h1 : P.isNeu f = false := by cases hn : P.isNeu f <;> simp_all
    have h2 : inflowDir P f = false := by cases hn : inflowDir P f <;> simp_all
    have hd : dirDiag P f = 0 := by unfold dirDiag; simp [h2]
    have hn : neuDiag P f = 0 := by unfold neuDiag; simp [h1]
    exact ⟨hd, hn, by unfold faceFlux; rw [hd, hn]; ring⟩
  · intro h
    have hcol := upCol_of_deleted P f h
    refine ⟨fun j => by unfold U; rw [hcol]; simp, ?_⟩
    unfold faceFlux upVal; rw [hcol]; ring

/-- The property's second clause in one statement (the three theorems above combined). -/
theorem upwind_boundary_rows (P : Pb) (hwf : WF P.T) (c bv : Nat → Rat) (i : Inc) (hi : i ∈ P.T)
    (honly : ∀ j ∈ P.T, j.face = i.face → j = i) :
    -- Neumann: no cell, the sign of the divergence multiplies the boundary value
    (P.isNeu i.face = true → (∀ j, U P i.face j = 0) ∧ neuDiag P i.face = i.sgn) ∧
    -- Dirichlet (not Neumann), flux entering the domain: no cell, the boundary value is transported
    (P.isDir i.face = true → P.isNeu i.face = false → i.sgn * P.q i.face < 0 →
      (∀ j, U P i.face j = 0) ∧ faceFlux P c bv i.face = P.q i.face * bv i.face) ∧
    -- Dirichlet (not Neumann), flux leaving the domain: the interior cell, no boundary value
    (P.isDir i.face = true → P.isNeu i.face = false → 0 < i.sgn * P.q i.face →
      (∀ j, U P i.face j = if j = i.cell then 1 else 0) ∧
      faceFlux P c bv i.face = P.q i.face * c i.cell) := by
  refine ⟨fun hn => ?_, fun hd hn hin => ?_, fun hd hn hout => ?_⟩
  · have := (upwind_boundary_rows_neumann P i.face).1 hn
    exact ⟨this.1, by rw [this.2, sgnDiv_boundary P.T hwf i hi honly]⟩
  · have h := (upwind_boundary_rows_dirichlet P hwf i hi honly hd hn).1 hin
    refine ⟨h.1, ?_⟩
    have hinf : inflowDir P i.face = true := by
      unfold dirDiag at h; cases hx : inflowDir P i.face <;> simp_all
    have hdel : deleted P i.face = true := by unfold deleted; simp [hinf]
    rw [((boundary_data_only_on_boundary_rows P c bv i.face).2 hdel).2, h.2,
      ((upwind_boundary_rows_neumann P i.face).2 hn)]
    ring
  · have h := (upwind_boundary_rows_dirichlet P hwf i hi honly hd hn).2 hout
    refine ⟨h.1, ?_⟩
    have hup := upstream_of_outflow P hwf i hi hout
    have hinf : inflowDir P i.face = false := by rw [inflowDir_eq, hup]; simp
    have hdel : deleted P i.face = false := by unfold deleted; simp [hn, hinf]
    rw [((boundary_data_only_on_boundary_rows P c bv i.face).1 hdel).2.2]
    unfold upVal; rw [upCol_of_not_deleted P _ hdel, hup]

/-- `(upwind @ c)[f]` computed from the matrix entries is the value in the selected cell. -/
theorem upVal_eq_matvec (P : Pb) (c : Nat → Rat) (f nc : Nat) (h : ∀ j, upCol P f = some j → j < nc) :
    sumTo nc (fun j => U P f j * c j) = upVal P c f := by
  unfold U upVal
  cases hu : upCol P f with
  | none => exact sumTo_eq_zero _ _ (fun j _ => by simp)
  | some a =>
    have e : ∀ j, (if some a = some j then (1 : Rat) else 0) * c j = if a = j then c j else 0 := by
      intro j; by_cases hj : a = j <;> simp [hj]
    rw [sumTo_congr nc _ _ (fun j _ => e j), sumTo_ite_eq, if_pos (h a hu)]

/-- `discretize` is defined (no kept row with column -1, i.e. scipy does not raise) whenever every face is
    interior or carries a Dirichlet or a Neumann flag — for any flux field. -/
theorem discretize_defined (P : Pb) (hwf : WF P.T) (nf : Nat)
    (hbc : ∀ f, f < nf → P.isNeu f = true ∨ P.isDir f = true ∨ Interior P.T f) :
    anyErr P nf = false := by
  induction nf with
  | zero => rfl
  | succ n ih =>
    unfold anyErr
    rw [ih (fun f hf => hbc f (Nat.lt_succ_of_lt hf))]
    have : upErr P n = false := by
      unfold upErr
      rcases hbc n (Nat.lt_succ_self n) with h | h | h
      · have : deleted P n = true := by unfold deleted; simp [h]
        simp [this]
      · cases hu : upstream P n with
        | some j => simp
        | none =>
          have : deleted P n = true := by unfold deleted; rw [inflowDir_eq, hu, h]; simp
          simp [this]
      · obtain ⟨j, hj⟩ := interior_upstream_some P hwf n h
        rw [hj]; simp
    rw [this]; rfl

/-! ### conservation -/

/-- Balance for ANY topology, flux, flags and data: one explicit step changes the total amount
    `Σ V c` by `-dt ×` the net face flux through the faces, weighted by the sign of the divergence
    (which vanishes on interior faces). -/
theorem transport_balance (P : Pb) (nf nc : Nat) (dt : Rat) (V bv c : Nat → Rat)
    (hcell : ∀ i ∈ P.T, i.cell < nc) (hface : ∀ i ∈ P.T, i.face < nf)
    (hV : ∀ i, i < nc → V i ≠ 0) :
    sumTo nc (fun i => V i * step P dt V bv c i)
      = sumTo nc (fun i => V i * c i) - dt * sumTo nf (fun f => sgnDiv P.T f * faceFlux P c bv f) := by
  have e : ∀ i, i < nc → V i * step P dt V bv c i
      = V i * c i - dt * divAt P.T (faceFlux P c bv) i := by
    intro i hi
    unfold step
    have := hV i hi
    field_simp
  rw [sumTo_congr nc _ _ e, sumTo_sub, sumTo_mul_left, sum_divAt P.T _ nc hcell,
    sum_faces P.T _ nf hface]

/-- Conservation: if every face is interior or a Neumann face with zero data (no-flow boundary), an
    explicit step keeps `Σ V c` for ANY flux field and any time step. -/
theorem transport_conserves (P : Pb) (hwf : WF P.T) (nf nc : Nat) (dt : Rat) (V bv c : Nat → Rat)
    (hcell : ∀ i ∈ P.T, i.cell < nc) (hface : ∀ i ∈ P.T, i.face < nf)
    (hV : ∀ i, i < nc → V i ≠ 0)
    (hclosed : ∀ f, f < nf → Interior P.T f ∨ (P.isNeu f = true ∧ bv f = 0)) :
    sumTo nc (fun i => V i * step P dt V bv c i) = sumTo nc (fun i => V i * c i) := by
  rw [transport_balance P nf nc dt V bv c hcell hface hV]
  have : sumTo nf (fun f => sgnDiv P.T f * faceFlux P c bv f) = 0 := by
    apply sumTo_eq_zero
    intro f hf
    rcases hclosed f hf with h | ⟨h1, h2⟩
    · rw [sgnDiv_interior P.T f hwf h]; ring
    · have hdel : deleted P f = true := by unfold deleted; simp [h1]
      rw [((boundary_data_only_on_boundary_rows P c bv f).2 hdel).2, h2]; ring
  rw [this]; ring

/-- … and therefore after any number of steps. -/
theorem transport_conserves_iter (P : Pb) (hwf : WF P.T) (nf nc : Nat) (dt : Rat) (V bv : Nat → Rat)
    (hcell : ∀ i ∈ P.T, i.cell < nc) (hface : ∀ i ∈ P.T, i.face < nf)
    (hV : ∀ i, i < nc → V i ≠ 0)
    (hclosed : ∀ f, f < nf → Interior P.T f ∨ (P.isNeu f = true ∧ bv f = 0))
    (n : Nat) (c : Nat → Rat) :
    sumTo nc (fun i => V i * iter P dt V bv n c i) = sumTo nc (fun i => V i * c i) := by
  induction n generalizing c with
  | zero => rfl
  | succ n ih =>
    show sumTo nc (fun i => V i * iter P dt V bv n (step P dt V bv c) i) = _
    rw [ih, transport_conserves P hwf nf nc dt V bv c hcell hface hV hclosed]

/-! ### maximum principle -/

/-- General form (covers flow through Dirichlet in/outflow boundaries): divergence-free flux, CFL
    condition `dt · outflow ≤ V`, Neumann faces carry neither flux nor data, every face where flux
    enters from outside is a Dirichlet face (`upErr = false`: the discretization is defined) whose
    datum lies in `[m, M]`.  Then one explicit step keeps every cell value in `[m, M]`. -/
theorem transport_maximum_principle_inflow (P : Pb) (hwf : WF P.T) (nc : Nat) (dt : Rat)
    (V bv c : Nat → Rat) (m M : Rat)
    (hcell : ∀ i ∈ P.T, i.cell < nc)
    (hV : ∀ i, i < nc → 0 < V i) (hdt : 0 ≤ dt)
    (hdiv : ∀ i, i < nc → divAt P.T P.q i = 0)
    (hcfl : ∀ i, i < nc → dt * outflow P.T P.q i ≤ V i)
    (hneu : ∀ i ∈ P.T, P.isNeu i.face = true → P.q i.face = 0 ∧ bv i.face = 0)
    (hnoerr : ∀ i ∈ P.T, P.q i.face ≠ 0 → upErr P i.face = false)
    (hbv : ∀ i ∈ P.T, inflowDir P i.face = true → P.q i.face ≠ 0 → m ≤ bv i.face ∧ bv i.face ≤ M)
    (hc : ∀ j, j < nc → m ≤ c j ∧ c j ≤ M) :
    ∀ i, i < nc → m ≤ step P dt V bv c i ∧ step P dt V bv c i ≤ M := by
  intro i hi
  have hb := divAt_faceFlux_bounds P hwf nc c bv m M hcell hc hneu hnoerr hbv i
  rw [hdiv i hi, zero_mul, sub_zero] at hb
  have hio : inflow P.T P.q i = outflow P.T P.q i := by
    have := divAt_eq_out_sub_in P.T P.q i
    rw [hdiv i hi] at this; linarith
  rw [hio] at hb
  unfold step
  exact ⟨arith_final_lower (c i) m _ _ dt (V i) (hV i hi) hdt (hcfl i hi) (hc i hi).1 hb.1,
    arith_final_upper (c i) M _ _ dt (V i) (hV i hi) hdt (hcfl i hi) (hc i hi).2 hb.2⟩

/-- The property as stated: no-flow boundaries (zero flux on every face that is not interior; Neumann
    flags only on faces without flux, with zero data), divergence-free flux, CFL limit ⇒ one
    explicit step keeps every cell value within the bounds of the old values. -/
theorem transport_maximum_principle (P : Pb) (hwf : WF P.T) (nc : Nat) (dt : Rat)
    (V bv c : Nat → Rat) (m M : Rat)
    (hcell : ∀ i ∈ P.T, i.cell < nc)
    (hV : ∀ i, i < nc → 0 < V i) (hdt : 0 ≤ dt)
    (hdiv : ∀ i, i < nc → divAt P.T P.q i = 0)
    (hcfl : ∀ i, i < nc → dt * outflow P.T P.q i ≤ V i)
    (hnoflow : ∀ i ∈ P.T, ¬ Interior P.T i.face → P.q i.face = 0)
    (hneu : ∀ i ∈ P.T, P.isNeu i.face = true → P.q i.face = 0 ∧ bv i.face = 0)
    (hc : ∀ j, j < nc → m ≤ c j ∧ c j ≤ M) :
    ∀ i, i < nc → m ≤ step P dt V bv c i ∧ step P dt V bv c i ≤ M := by
  have hint : ∀ i ∈ P.T, P.q i.face ≠ 0 → ∃ j, upstream P i.face = some j := by
    intro i hi hq
    by_cases h : Interior P.T i.face
    · exact interior_upstream_some P hwf _ h
    · exact absurd (hnoflow i hi h) hq
  apply transport_maximum_principle_inflow P hwf nc dt V bv c m M hcell hV hdt hdiv hcfl hneu _ _ hc
  · intro i hi hq
    obtain ⟨j, hj⟩ := hint i hi hq
    unfold upErr; rw [hj]; simp
  · intro i hi hin hq
    obtain ⟨j, hj⟩ := hint i hi hq
    rw [inflowDir_eq, hj] at hin
    simp at hin

/-- … and after any number of steps the values stay within the INITIAL bounds. -/
theorem transport_maximum_principle_iter (P : Pb) (hwf : WF P.T) (nc : Nat) (dt : Rat)
    (V bv : Nat → Rat) (m M : Rat)
    (hcell : ∀ i ∈ P.T, i.cell < nc)
    (hV : ∀ i, i < nc → 0 < V i) (hdt : 0 ≤ dt)
    (hdiv : ∀ i, i < nc → divAt P.T P.q i = 0)
    (hcfl : ∀ i, i < nc → dt * outflow P.T P.q i ≤ V i)
    (hneu : ∀ i ∈ P.T, P.isNeu i.face = true → P.q i.face = 0 ∧ bv i.face = 0)
    (hnoerr : ∀ i ∈ P.T, P.q i.face ≠ 0 → upErr P i.face = false)
    (hbv : ∀ i ∈ P.T, inflowDir P i.face = true → P.q i.face ≠ 0 → m ≤ bv i.face ∧ bv i.face ≤ M)
    (n : Nat) (c : Nat → Rat) (hc : ∀ j, j < nc → m ≤ c j ∧ c j ≤ M) :
    ∀ i, i < nc → m ≤ iter P dt V bv n c i ∧ iter P dt V bv n c i ≤ M := by
  induction n generalizing c with
  | zero => exact hc
  | succ n ih =>
    exact ih (step P dt V bv c)
      (transport_maximum_principle_inflow P hwf nc dt V bv c m M hcell hV hdt hdiv hcfl hneu hnoerr hbv hc)

/-! ### components -/

/-- `sps.kron(M, eye(k))` on triplet lists has the entries of the Kronecker product:
    `(r, c) ↦ M[r / k, c / k]` if `r % k = c % k`, else 0 — for every sparse matrix `M`. -/
theorem kron_entry (k : Nat) (hk : 0 < k) (M : List Trip) (r c : Nat) :
    entryOf (kronTrip k M) r c = kronE (entryOf M) k r c := by
  induction M with
  | nil => simp [kronTrip, kronE, entryOf_nil]
  | cons t M ih =>
    unfold kronTrip
    rw [entryOf_append, ih, entryOf_block k hk t r c k (le_refl k)]
    unfold kronE
    rw [entryOf_cons]
    have hlt : r % k < k := Nat.mod_lt r hk
    by_cases hm : r % k = c % k
    · by_cases h1 : r / k = t.1 ∧ c / k = t.2.1
      · have h2 : t.1 = r / k ∧ t.2.1 = c / k := ⟨h1.1.symm, h1.2.symm⟩
        rw [if_pos ⟨h1.1, h1.2, hm, hlt⟩, if_pos hm, if_pos hm, if_pos h2]
      · have h2 : ¬ (t.1 = r / k ∧ t.2.1 = c / k) := fun h => h1 ⟨h.1.symm, h.2.symm⟩
        have h3 : ¬ (r / k = t.1 ∧ c / k = t.2.1 ∧ r % k = c % k ∧ r % k < k) :=
          fun h => h1 ⟨h.1, h.2.1⟩
        rw [if_neg h3, if_pos hm, if_pos hm, if_neg h2]
    · have h3 : ¬ (r / k = t.1 ∧ c / k = t.2.1 ∧ r % k = c % k ∧ r % k < k) :=
        fun h => hm h.2.2.1
      rw [if_neg h3, if_neg hm, if_neg hm]; ring

/-- Components do not mix: applying the expanded matrix to a vector that stores component `a` of
    cell `c` at index `c*k + a` applies the one-component matrix to each component separately. -/
theorem kron_components (A : Nat → Nat → Rat) (k nc : Nat) (x : Nat → Rat) (f a : Nat) (ha : a < k) :
    sumTo (nc * k) (fun j => kronE A k (f * k + a) j * x j)
      = sumTo nc (fun c => A f c * x (c * k + a)) := by
  have hk : 0 < k := Nat.lt_of_le_of_lt (Nat.zero_le a) ha
  rw [sumTo_mul_blocks]
  apply sumTo_congr
  intro c _
  have e : ∀ b, b < k → kronE A k (f * k + a) (c * k + b) * x (c * k + b)
      = if a = b then A f c * x (c * k + b) else 0 := by
    intro b hb
    unfold kronE
    have e1 : (f * k + a) % k = a := by rw [Nat.mul_comm, Nat.mul_add_mod, Nat.mod_eq_of_lt ha]
    have e2 : (c * k + b) % k = b := by rw [Nat.mul_comm, Nat.mul_add_mod, Nat.mod_eq_of_lt hb]
    have e3 : (f * k + a) / k = f := by
      rw [Nat.mul_comm, Nat.mul_add_div hk, Nat.div_eq_of_lt ha]; simp
    have e4 : (c * k + b) / k = c := by
      rw [Nat.mul_comm, Nat.mul_add_div hk, Nat.div_eq_of_lt hb]; simp
    rw [e1, e2, e3, e4]
    by_cases h : a = b <;> simp [h]
  rw [sumTo_congr k _ _ e, sumTo_ite_eq a k (fun b => A f c * x (c * k + b)), if_pos ha]

/-- The expanded upwind matrix of `discretize` for `k` components: entry `(f*k+a, c*k+b)` is the
    one-component entry `U f c` if `a = b`, else 0 (likewise for the two boundary matrices, whose
    triplet lists represent `dirDiag` / `neuDiag` by `dirTrip_entry` / `neuTrip_entry`). -/
theorem kron_upwind_entry (P : Pb) (nf k : Nat) (f c a b : Nat) (hf : f < nf) (ha : a < k) (hb : b < k) :
    entryOf (kronTrip k (upwindTrip P nf)) (f * k + a) (c * k + b) = if a = b then U P f c else 0 := by
  have hk : 0 < k := Nat.lt_of_le_of_lt (Nat.zero_le a) ha
  rw [kron_entry k hk]
  unfold kronE
  have e1 : (f * k + a) % k = a := by rw [Nat.mul_comm, Nat.mul_add_mod, Nat.mod_eq_of_lt ha]
  have e2 : (c * k + b) % k = b := by rw [Nat.mul_comm, Nat.mul_add_mod, Nat.mod_eq_of_lt hb]
  have e3 : (f * k + a) / k = f := by
    rw [Nat.mul_comm, Nat.mul_add_div hk, Nat.div_eq_of_lt ha]; simp
  have e4 : (c * k + b) / k = c := by
    rw [Nat.mul_comm, Nat.mul_add_div hk, Nat.div_eq_of_lt hb]; simp
  rw [e1, e2, e3, e4, upwindTrip_entry, if_pos hf]

/-! ### interface coupling (`UpwindCoupling`) -/

/-- Upstream selection on an interface: for positive mortar flux (from primary to secondary) the value
    on the primary side (trace of the cell values at the matched face) is transported, otherwise —
    including zero flux, as coded (`np.sign(lam) > 0`) — the value of the secondary cell. -/
theorem coupling_selects_upstream (C : Cp) (ch cl : Nat → Rat) (m : Nat) :
    (0 < C.lam m → upPrimDiag C m = 1 ∧ upSecDiag C m = 0 ∧
      eta C ch cl m = C.lam m * traceVal C.Th ch (C.pf m)) ∧
    (C.lam m ≤ 0 → upPrimDiag C m = 0 ∧ upSecDiag C m = 1 ∧
      eta C ch cl m = C.lam m * cl (C.sc m)) := by
  constructor
  · intro h
    have hf := (cplFlag_iff C m).mpr h
    unfold upSecDiag upPrimDiag eta
    simp [hf, h]
  · intro h
    have hf : cplFlag C m = false := by
      cases hc : cplFlag C m
      · rfl
      · exact absurd ((cplFlag_iff C m).mp hc) (not_lt.mpr h)
    unfold upSecDiag upPrimDiag eta
    simp [hf, not_lt.mpr h]

/-- On a fracture face of a well-formed primary grid (its only entry is `i`) the trace is the value of
    the adjacent cell: the primary-side value is the value of the cell the mortar flux leaves. -/
theorem traceVal_fracture_face (T : Topo) (hwf : WF T) (c : Nat → Rat) (i : Inc) (hi : i ∈ T)
    (honly : ∀ j ∈ T, j.face = i.face → j = i) (hnd : T.Nodup) : traceVal T c i.face = c i.cell := by
  unfold traceVal
  have hu : absR i.sgn = 1 := by
    rcases hwf.unit i hi with h | h <;> simp [h, absR]
  induction T with
  | nil => cases hi
  | cons j T ih =>
    rw [sumOver_cons]
    have hnd' := List.nodup_cons.mp hnd
    rcases List.mem_cons.mp hi with rfl | hi'
    · have : sumOver T (fun j => if j.face = i.face then absR j.sgn * c j.cell else 0) = 0 := by
        apply sumOver_eq_zero
        intro j hj
        by_cases hf : j.face = i.face
        · have := honly j (List.mem_cons_of_mem _ hj) hf
          exact absurd (this ▸ hj) hnd'.1
        · simp [hf]
      rw [this]; simp [hu]
    · have hji : j ≠ i := fun e => hnd'.1 (e ▸ hi')
      have hjf : ¬ j.face = i.face := fun hf => hji (honly j List.mem_cons_self hf)
      rw [if_neg hjf, zero_add]
      have hwf' : WF T := by
        -- only the sign part of WF is used below; rebuild it for the tail
        exact (by
          unfold WF wfB
          rw [List.all_eq_true]
          intro k hk
          have hk' := (List.all_eq_true.mp hwf) k (List.mem_cons_of_mem _ hk)
          simp only [decide_eq_true_eq] at hk' ⊢
          refine ⟨hk'.1, ?_, ?_⟩
          · have := hk'.2.1; rw [cntPos_cons] at this; omega
          · have := hk'.2.2; rw [cntNeg_cons] at this; omega)
      exact ih hwf' hi' (fun k hk hf => honly k (List.mem_cons_of_mem _ hk) hf) hnd'.2

/-- Row 2 of the assembled coupling blocks applied to the cell values of both sides is the upwinded
    mortar flux `η` (`cc[2,0] c_h + cc[2,1] c_l − η = 0`). -/
theorem coupling_row_matvec (C : Cp) (ch cl : Nat → Rat) (nch ncl m : Nat)
    (hcell : ∀ i ∈ C.Th, i.cell < nch) (hsc : C.sc m < ncl) :
    sumTo nch (fun c => cc20 C m c * ch c) + sumTo ncl (fun l => cc21 C m l * cl l) = eta C ch cl m := by
  have e1 : sumTo nch (fun c => cc20 C m c * ch c)
      = absR (C.lam m) * cplFluxDiag C m * upPrimDiag C m * traceVal C.Th ch (C.pf m) := by
    unfold cc20
    rw [← traceVal_eq_matvec C.Th ch (C.pf m) nch hcell, ← sumTo_mul_left]
    exact sumTo_congr _ _ _ (fun c _ => by ring)
  have e2 : sumTo ncl (fun l => cc21 C m l * cl l)
      = absR (C.lam m) * cplFluxDiag C m * upSecDiag C m * cl (C.sc m) := by
    unfold cc21
    have e : ∀ l, absR (C.lam m) * cplFluxDiag C m * upSecDiag C m * (if C.sc m = l then 1 else 0) * cl l
        = if C.sc m = l then absR (C.lam m) * cplFluxDiag C m * upSecDiag C m * cl l else 0 := by
      intro l; by_cases h : C.sc m = l <;> simp [h]
    rw [sumTo_congr ncl _ _ (fun l _ => e l), sumTo_ite_eq, if_pos hsc]
  rw [e1, e2]
  have hl : absR (C.lam m) * cplFluxDiag C m = C.lam m := absR_mul_sgnR (C.lam m)
  rw [hl]
  rcases lt_or_ge 0 (C.lam m) with h | h
  · obtain ⟨a, b, c⟩ := (coupling_selects_upstream C ch cl m).1 h
    rw [a, b, c]; ring
  · obtain ⟨a, b, c⟩ := (coupling_selects_upstream C ch cl m).2 h
    rw [a, b, c]; ring

/-- Conservation across the interface: for ANY mortar fluxes `η`, what the blocks `cc[0,2]` take out of
    the primary cells is what `cc[1,2]` puts into the secondary cells (every matched primary face is a
    face with exactly one cell). -/
theorem coupling_interface_conserves (C : Cp) (hwf : WF C.Th) (nm nch ncl : Nat) (η : Nat → Rat)
    (hcell : ∀ i ∈ C.Th, i.cell < nch) (hsc : ∀ m, m < nm → C.sc m < ncl)
    (hface : ∀ m, m < nm → cntPos C.Th (C.pf m) + cntNeg C.Th (C.pf m) = 1) :
    sumTo nch (fun k => sumTo nm (fun m => cc02 C k m * η m))
      + sumTo ncl (fun l => sumTo nm (fun m => cc12 C l m * η m)) = 0 := by
  rw [sumTo_comm nch nm, sumTo_comm ncl nm, ← sumTo_add]
  apply sumTo_eq_zero
  intro m hm
  have e1 : sumTo nch (fun k => cc02 C k m * η m) = η m := by
    unfold cc02
    rw [sumTo_mul_right, sum_traceW C.Th (C.pf m) nch hcell, faceWeight_eq_cnt C.Th (C.pf m) hwf.unit]
    have : ((cntPos C.Th (C.pf m) : Rat) + (cntNeg C.Th (C.pf m) : Rat)) = 1 := by
      have := hface m hm
      exact_mod_cast this
    rw [this, one_mul]
  have e2 : sumTo ncl (fun l => cc12 C l m * η m) = -η m := by
    unfold cc12
    have e : ∀ l, (if C.sc m = l then (-1 : Rat) else 0) * η m = if C.sc m = l then -η m else 0 := by
      intro l; by_cases h : C.sc m = l <;> simp [h]
    rw [sumTo_congr ncl _ _ (fun l _ => e l), sumTo_ite_eq (C.sc m) ncl (fun _ => -η m), if_pos (hsc m hm)]
  rw [e1, e2]; ring

/-! ### mixed-dimensional transport -/

/-- Explicit transport step on a mixed-dimensional grid (any graph of subdomains coupled by interfaces,
    flattened to global indices): if every face is interior or a Neumann face with zero data (outer
    no-flow boundary; fracture faces are Neumann faces, their flux is the mortar flux) and every mortar
    cell is matched with a one-cell face and a cell, the total amount `Σ V c` over ALL subdomains is
    unchanged — for any subdomain fluxes and any mortar fluxes (in particular divergence-free ones). -/
theorem md_transport_conserves (M : Md) (hwf : WF M.P.T) (nf nc : Nat) (dt : Rat) (V bv c : Nat → Rat)
    (hcell : ∀ i ∈ M.P.T, i.cell < nc) (hface : ∀ i ∈ M.P.T, i.face < nf)
    (hV : ∀ i, i < nc → V i ≠ 0)
    (hclosed : ∀ f, f < nf → Interior M.P.T f ∨ (M.P.isNeu f = true ∧ bv f = 0))
    (hsc : ∀ m, m < M.nm → M.sc m < nc)
    (hpf : ∀ m, m < M.nm → cntPos M.P.T (M.pf m) + cntNeg M.P.T (M.pf m) = 1) :
    sumTo nc (fun i => V i * mdStep M dt V bv c i) = sumTo nc (fun i => V i * c i) := by
  have e : ∀ i, i < nc → V i * mdStep M dt V bv c i
      = V i * step M.P dt V bv c i - dt * intfOut M c i := by
    intro i hi
    unfold mdStep step
    have := hV i hi
    field_simp
    ring
  rw [sumTo_congr nc _ _ e, sumTo_sub, sumTo_mul_left,
    transport_conserves M.P hwf nf nc dt V bv c hcell hface hV hclosed]
  have : sumTo nc (intfOut M c) = 0 := by
    unfold intfOut
    rw [sumTo_add]
    exact coupling_interface_conserves M.cp hwf M.nm nc nc (eta M.cp c c) hcell hsc hpf
  rw [this]; ring

theorem md_transport_conserves_iter (M : Md) (hwf : WF M.P.T) (nf nc : Nat) (dt : Rat) (V bv : Nat → Rat)
    (hcell : ∀ i ∈ M.P.T, i.cell < nc) (hface : ∀ i ∈ M.P.T, i.face < nf)
    (hV : ∀ i, i < nc → V i ≠ 0)
    (hclosed : ∀ f, f < nf → Interior M.P.T f ∨ (M.P.isNeu f = true ∧ bv f = 0))
    (hsc : ∀ m, m < M.nm → M.sc m < nc)
    (hpf : ∀ m, m < M.nm → cntPos M.P.T (M.pf m) + cntNeg M.P.T (M.pf m) = 1)
    (n : Nat) (c : Nat → Rat) :
    sumTo nc (fun i => V i * mdIter M dt V bv n c i) = sumTo nc (fun i => V i * c i) := by
  induction n generalizing c with
  | zero => rfl
  | succ n ih =>
    show sumTo nc (fun i => V i * mdIter M dt V bv n (mdStep M dt V bv c) i) = _
    rw [ih, md_transport_conserves M hwf nf nc dt V bv c hcell hface hV hclosed hsc hpf]

/-! ### the hypotheses as decidable input conditions (evaluated by the driver on every case) -/

/-- `consHypB` (well-formed grid, indices in range, every face interior or Neumann with zero data, nonzero
    volumes) is a Boolean the driver evaluates; when it answers `true` the total amount is conserved. -/
theorem transport_conserves_checked (P : Pb) (nf nc : Nat) (dt : Rat) (V bv c : Nat → Rat)
    (h : consHypB P nf nc V bv = true) :
    sumTo nc (fun i => V i * step P dt V bv c i) = sumTo nc (fun i => V i * c i) := by
  simp only [consHypB, Bool.and_eq_true] at h
  obtain ⟨⟨⟨h1, h2⟩, h3⟩, h4⟩ := h
  have hb : ∀ i ∈ P.T, i.face < nf ∧ i.cell < nc := by
    intro i hi
    have := (List.all_eq_true.mp h2) i hi
    simpa using this
  apply transport_conserves P h1 nf nc dt V bv c (fun i hi => (hb i hi).2) (fun i hi => (hb i hi).1)
  · intro i hi
    have := (List.all_eq_true.mp h4) i (List.mem_range.mpr hi)
    simpa using this
  · intro f hf
    have := (List.all_eq_true.mp h3) f (List.mem_range.mpr hf)
    simp only [Bool.or_eq_true, Bool.and_eq_true, decide_eq_true_eq] at this
    exact this

/-- `mpHypB` = all hypotheses of the maximum principle (divergence-free, CFL, Neumann faces without flux and
    data, flux enters only through Dirichlet faces with data in `[m, M]`, cell values in `[m, M]`). -/
theorem transport_maximum_principle_checked (P : Pb) (nc : Nat) (dt : Rat) (V bv c : Nat → Rat) (m M : Rat)
    (h : mpHypB P nc dt V bv c m M = true) :
    ∀ i, i < nc → m ≤ step P dt V bv c i ∧ step P dt V bv c i ≤ M := by
  simp only [mpHypB, Bool.and_eq_true] at h
  obtain ⟨⟨⟨⟨h1, h2⟩, h3⟩, h4⟩, h5⟩ := h
  have hcell : ∀ i ∈ P.T, i.cell < nc := by
    intro i hi; simpa using (List.all_eq_true.mp h2) i hi
  have hdt : 0 ≤ dt := by simpa using h3
  have hc4 : ∀ i, i < nc → (0 < V i ∧ divAt P.T P.q i = 0 ∧ dt * outflow P.T P.q i ≤ V i ∧ m ≤ c i ∧ c i ≤ M) := by
    intro i hi
    have := (List.all_eq_true.mp h4) i (List.mem_range.mpr hi)
    simp only [Bool.and_eq_true, decide_eq_true_eq] at this
    exact ⟨this.1.1.1.1, this.1.1.1.2, this.1.1.2, this.1.2, this.2⟩
  have h5' : ∀ i ∈ P.T,
      ((P.isNeu i.face = false ∨ (P.q i.face = 0 ∧ bv i.face = 0)) ∧
       (P.q i.face = 0 ∨ (upErr P i.face = false ∧ (inflowDir P i.face = false ∨ (m ≤ bv i.face ∧ bv i.face ≤ M))))) := by
    intro i hi
    have := (List.all_eq_true.mp h5) i hi
    simpa [Bool.and_eq_true, Bool.or_eq_true] using this
  apply transport_maximum_principle_inflow P h1 nc dt V bv c m M hcell
    (fun i hi => (hc4 i hi).1) hdt (fun i hi => (hc4 i hi).2.1) (fun i hi => (hc4 i hi).2.2.1)
  · intro i hi hn
    rcases (h5' i hi).1 with h | h
    · rw [h] at hn; cases hn
    · exact h
  · intro i hi hq
    rcases (h5' i hi).2 with h | h
    · exact absurd h hq
    · exact h.1
  · intro i hi hin hq
    rcases (h5' i hi).2 with h | h
    · exact absurd h hq
    · rcases h.2 with h' | h'
      · rw [h'] at hin; cases hin
      · exact h'
  · exact fun j hj => ⟨(hc4 j hj).2.2.2.1, (hc4 j hj).2.2.2.2⟩

theorem md_transport_conserves_checked (M : Md) (nf nc : Nat) (dt : Rat) (V bv c : Nat → Rat)
    (h1 : consHypB M.P nf nc V bv = true) (h2 : mdHypB M nc = true) :
    sumTo nc (fun i => V i * mdStep M dt V bv c i) = sumTo nc (fun i => V i * c i) := by
  simp only [consHypB, Bool.and_eq_true] at h1
  obtain ⟨⟨⟨a1, a2⟩, a3⟩, a4⟩ := h1
  have hb : ∀ i ∈ M.P.T, i.face < nf ∧ i.cell < nc := by
    intro i hi; simpa using (List.all_eq_true.mp a2) i hi
  have hm : ∀ m, m < M.nm → M.sc m < nc ∧ cntPos M.P.T (M.pf m) + cntNeg M.P.T (M.pf m) = 1 := by
    intro m hm
    have := (List.all_eq_true.mp h2) m (List.mem_range.mpr hm)
    simpa using this
  apply md_transport_conserves M a1 nf nc dt V bv c (fun i hi => (hb i hi).2) (fun i hi => (hb i hi).1)
  · intro i hi; simpa using (List.all_eq_true.mp a4) i (List.mem_range.mpr hi)
  · intro f hf
    have := (List.all_eq_true.mp a3) f (List.mem_range.mpr hf)
    simp only [Bool.or_eq_true, Bool.and_eq_true, decide_eq_true_eq] at this
    exact this
  · exact fun m h => (hm m h).1
  · exact fun m h => (hm m h).2

/-! ### `Upwind.darcy_flux` produces divergence-free fluxes -/

/-- The flux `darcy_flux` computes for a constant velocity `beta` is divergence-free on every grid whose
    cells are geometrically closed (`Σ_faces sign · normal = 0` per cell, the discrete divergence theorem
    of C19), provided the face aperture is the same on all faces (in particular without apertures). This
    discharges the "divergence-free flux" hypothesis of the maximum principle for uniform flow fields. -/
theorem darcy_flux_divergence_free (T : Topo) (nx ny nz : Nat → Rat) (bx by' bz a : Rat)
    (ap : Option (Nat → Rat)) (hap : ∀ i ∈ T, faceAperture T ap i.face = a) (k : Nat)
    (hx : divAt T nx k = 0) (hy : divAt T ny k = 0) (hz : divAt T nz k = 0) :
    divAt T (darcyFlux T nx ny nz bx by' bz ap) k = 0 := by
  unfold divAt at hx hy hz ⊢
  have e : ∀ i ∈ T, (if i.cell = k then i.sgn * darcyFlux T nx ny nz bx by' bz ap i.face else 0)
      = (if i.cell = k then i.sgn * nx i.face else 0) * (a * bx)
        + (if i.cell = k then i.sgn * ny i.face else 0) * (a * by')
        + (if i.cell = k then i.sgn * nz i.face else 0) * (a * bz) := by
    intro i hi
    unfold darcyFlux
    rw [hap i hi]
    by_cases h : i.cell = k
    · simp only [if_pos h]; ring
    · simp [h]
  rw [sumOver_congr T _ _ e, sumOver_add, sumOver_add, sumOver_mul_right, sumOver_mul_right,
    sumOver_mul_right, hx, hy, hz]
  ring

theorem faceAperture_none (T : Topo) (f : Nat) : faceAperture T none f = 1 := rfl

/-! ### the legacy entry point `assemble_matrix_rhs` -/

/-- `assemble_matrix_rhs` (one component) returns `A = div · diag(flux) · upwind` and
    `rhs = div · (bound_transport_neu + bound_transport_dir · diag(flux)) · bc_values`; in the code's sign
    convention `A c + rhs` is the divergence of the composed face flux, so a transport loop that discretizes
    once and re-assembles in every step (`c − dt/V (A c + rhs)`) performs exactly `step` — every theorem about
    `step` (conservation, maximum principle) is a theorem about that loop. -/
theorem assemble_matvec (P : Pb) (c bv : Nat → Rat) (nc k : Nat)
    (hcol : ∀ f j, upCol P f = some j → j < nc) :
    sumTo nc (fun j => entryOf (assembleTrip P P.T) k j * c j) + assembleRhs P bv k
      = divAt P.T (faceFlux P c bv) k := by
  have key : ∀ T' : Topo, sumTo nc (fun j => entryOf (assembleTrip P T') k j * c j)
      = sumOver T' (fun i => if i.cell = k then i.sgn * (P.q i.face * upVal P c i.face) else 0) := by
    intro T'
    induction T' with
    | nil => exact sumTo_eq_zero _ _ (fun j _ => by simp [assembleTrip, entryOf_nil])
    | cons i T' ih =>
      rw [sumOver_cons, ← ih]
      cases hu : upCol P i.face with
      | none =>
        have e0 : assembleTrip P (i :: T') = assembleTrip P T' := by simp [assembleTrip, hu]
        rw [e0]; unfold upVal; rw [hu]; simp
      | some a =>
        have e0 : assembleTrip P (i :: T') = (i.cell, a, i.sgn * P.q i.face) :: assembleTrip P T' := by
          simp [assembleTrip, hu]
        rw [e0]
        have e2 : ∀ j, entryOf ((i.cell, a, i.sgn * P.q i.face) :: assembleTrip P T') k j * c j
            = (if a = j then (if i.cell = k then i.sgn * (P.q i.face * c j) else 0) else 0)
              + entryOf (assembleTrip P T') k j * c j := by
          intro j
          rw [entryOf_cons]
          by_cases h1 : i.cell = k <;> by_cases h2 : a = j <;> simp [h1, h2] <;> ring
        rw [sumTo_congr nc _ _ (fun j _ => e2 j), sumTo_add,
          sumTo_ite_eq a nc (fun j => if i.cell = k then i.sgn * (P.q i.face * c j) else 0), if_pos (hcol _ _ hu)]
        unfold upVal; rw [hu]
  rw [key P.T]
  unfold assembleRhs divAt
  rw [← sumOver_add]
  apply sumOver_congr
  intro i _
  unfold faceFlux
  by_cases h : i.cell = k
  · simp only [if_pos h]; ring
  · simp [h]

/-! ### non-vacuity: concrete data

`T3` = `CartGrid(3)` in 1-d (faces 0..3, cells 0..2, normals pointing right): the stored entries of
`cell_faces` in `sps.find` order.  `ring4` = four cells in a ring (a closed loop, no boundary). -/

def T3 : Topo := [⟨0, 0, -1⟩, ⟨1, 0, 1⟩, ⟨1, 1, -1⟩, ⟨2, 1, 1⟩, ⟨2, 2, -1⟩, ⟨3, 2, 1⟩]

def ring4 : Topo := [⟨0, 0, 1⟩, ⟨0, 1, -1⟩, ⟨1, 1, 1⟩, ⟨1, 2, -1⟩, ⟨2, 2, 1⟩, ⟨2, 3, -1⟩, ⟨3, 3, 1⟩, ⟨3, 0, -1⟩]

example : WF T3 := by decide +kernel
example : WF ring4 := by decide +kernel
example : Interior T3 1 ∧ ¬ Interior T3 0 := by decide +kernel

/-- flux to the left on face 1, to the right on face 2, Dirichlet at both ends -/
def Pex : Pb := ⟨T3, fun f => if f = 1 then -2 else if f = 2 then 3 else if f = 0 then 1 else -1,
  fun f => f = 0 ∨ f = 3, fun _ => false⟩

-- hypotheses of `upwind_selects_upstream` on face 1 and what it yields
example : (⟨1, 0, 1⟩ : Inc) ∈ Pex.T ∧ (⟨1, 1, -1⟩ : Inc) ∈ Pex.T ∧ Pex.isNeu 1 = false ∧ Pex.q 1 < 0 := by
  decide +kernel
example : (List.range 3).map (U Pex 1) = [0, 1, 0] ∧ (List.range 3).map (U Pex 2) = [0, 1, 0] := by
  decide +kernel
-- both boundary faces are Dirichlet inflow faces here: empty rows, unit entries in bound_transport_dir
example : (List.range 3).map (U Pex 0) = [0, 0, 0] ∧ dirDiag Pex 0 = 1 ∧ dirDiag Pex 3 = 1 ∧
    (List.range 3).map (U Pex 3) = [0, 0, 0] := by decide +kernel
-- `discretize_defined`: its hypothesis holds for Pex; with a Robin-like (unflagged) inflow end the model reports the error
example : (∀ f, f < 4 → Pex.isNeu f = true ∨ Pex.isDir f = true ∨ Interior Pex.T f) ∧ anyErr Pex 4 = false := by
  decide +kernel
example : anyErr ⟨T3, fun _ => 1, fun f => f = 3, fun _ => false⟩ 4 = true := by decide +kernel

/-- circulation of strength 2 around the ring, no boundary; `dt · outflow = 1/2 · 2 ≤ V = 1` -/
def Pring : Pb := ⟨ring4, fun _ => 2, fun _ => false, fun _ => false⟩

def cRing : Nat → Rat := fun j => if j = 0 then 5 else if j = 2 then -3 else 1

example : (∀ i, i < 4 → divAt Pring.T Pring.q i = 0) ∧
    (∀ i, i < 4 → (1 / 2 : Rat) * outflow Pring.T Pring.q i ≤ 1) := by decide +kernel
example : (List.range 4).map (step Pring (1 / 2) (fun _ => 1) (fun _ => 0) cRing) = [1, 5, 1, -3] := by
  decide +kernel
example : sumTo 4 (fun i => 1 * step Pring (1 / 2) (fun _ => 1) (fun _ => 0) cRing i)
    = sumTo 4 (fun i => 1 * cRing i) := by decide +kernel

/-- Neumann (no-flow) ends on the 1-d grid, arbitrary flux: conservation hypothesis and conclusion -/
def Pneu : Pb := ⟨T3, fun f => if f = 1 then -2 else if f = 2 then 3 else 7, fun _ => false,
  fun f => f = 0 ∨ f = 3⟩

example : ∀ f, f < 4 → Interior Pneu.T f ∨ (Pneu.isNeu f = true ∧ (fun _ => (0 : Rat)) f = 0) := by
  decide +kernel
example : sumTo 3 (fun i => (i + 1 : Rat) * step Pneu (1 / 4) (fun i => (i + 1 : Rat)) (fun _ => 0) cRing i)
    = sumTo 3 (fun i => (i + 1 : Rat) * cRing i) := by decide +kernel

example : entryOf (kronTrip 2 (upwindTrip Pex 4)) (1 * 2 + 1) (1 * 2 + 1) = 1 ∧
    entryOf (kronTrip 2 (upwindTrip Pex 4)) (1 * 2 + 1) (1 * 2 + 0) = 0 := by decide +kernel

/-! all hypotheses of the transport theorems hold together on non-trivial data -/

example : ∀ i, i < 4 → (-3 : Rat) ≤ step Pring (1 / 2) (fun _ => 1) (fun _ => 0) cRing i ∧
    step Pring (1 / 2) (fun _ => 1) (fun _ => 0) cRing i ≤ 5 :=
  transport_maximum_principle Pring (by decide +kernel) 4 (1 / 2) (fun _ => 1) (fun _ => 0) cRing (-3) 5
    (by decide +kernel) (by intro i _; norm_num) (by norm_num) (by decide +kernel) (by decide +kernel)
    (by decide +kernel) (by decide +kernel) (by decide +kernel)

/-- uniform flow to the right through the 1-d grid, Dirichlet at both ends, inflow datum 4 -/
def Pthru : Pb := ⟨T3, fun _ => 1, fun f => f = 0 ∨ f = 3, fun _ => false⟩

def cThru : Nat → Rat := fun j => if j = 0 then 1 else if j = 1 then 2 else 3

example : ∀ i, i < 3 → (1 : Rat) ≤ step Pthru (1 / 2) (fun _ => 1) (fun _ => 4) cThru i ∧
    step Pthru (1 / 2) (fun _ => 1) (fun _ => 4) cThru i ≤ 4 :=
  transport_maximum_principle_inflow Pthru (by decide +kernel) 3 (1 / 2) (fun _ => 1) (fun _ => 4) cThru 1 4
    (by decide +kernel) (by intro i _; norm_num) (by norm_num) (by decide +kernel) (by decide +kernel)
    (by decide +kernel) (by decide +kernel) (by decide +kernel) (by decide +kernel)

example : (List.range 3).map (step Pthru (1 / 2) (fun _ => 1) (fun _ => 4) cThru) = [5 / 2, 3 / 2, 5 / 2] := by
  decide +kernel

example : sumTo 3 (fun i => (i + 1 : Rat) * step Pneu (1 / 4) (fun i => (i + 1 : Rat)) (fun _ => 0) cRing i)
    = sumTo 3 (fun i => (i + 1 : Rat) * cRing i) :=
  transport_conserves Pneu (by decide +kernel) 4 3 (1 / 4) (fun i => (i + 1 : Rat)) (fun _ => 0) cRing
    (by decide +kernel) (by decide +kernel) (by intro i _; positivity) (by decide +kernel)

/-! ### the legacy `assemble_matrix_rhs` sign (an observation, not part of the property)

`assemble_matrix_rhs` returns `rhs = +div @ (…) @ bc_values`, i.e. the boundary term with the sign it
has on the LEFT-hand side.  On `CartGrid(3)` with unit flux to the right and Dirichlet inflow datum 3,
the system `A c = rhs` is solved by `c = (-3, -3, -3)`, whereas the explicit step composed as in
porepy's models (`faceFlux`) transports the datum with its own sign. -/

def Pleg : Pb := ⟨T3, fun _ => 1, fun f => f = 0 ∨ f = 3, fun _ => false⟩
def bvLeg : Nat → Rat := fun f => if f = 0 then 3 else 0

example : (List.range 3).map (assembleRhs Pleg bvLeg) = [-3, 0, 0] := by decide +kernel
example : ∀ k, k < 3 → sumTo 3 (fun j => entryOf (assembleTrip Pleg Pleg.T) k j * (-3)) = assembleRhs Pleg bvLeg k := by
  decide +kernel
-- one explicit step from c = 0 raises the inflow cell towards the datum (dt/V = 1/2): +3/2, not −3/2
example : (List.range 3).map (step Pleg (1 / 2) (fun _ => 1) bvLeg (fun _ => 0)) = [3 / 2, 0, 0] := by
  decide +kernel

/-! ### interface coupling and mixed-dimensional step on concrete data

Primary: two 1-d cells separated by a fracture point (faces 0,1 | 2,3; faces 1 and 2 are the split
fracture faces), global cell 2 = the 0-d fracture cell; two mortar cells. -/

def Tmd : Topo := [⟨0, 0, -1⟩, ⟨1, 0, 1⟩, ⟨2, 1, -1⟩, ⟨3, 1, 1⟩]

def Mex : Md := ⟨⟨Tmd, fun _ => 0, fun _ => false, fun _ => true⟩, 2,
  fun m => if m = 0 then 1 else 2, fun _ => 2, fun m => if m = 0 then 2 else -2⟩

def cMd : Nat → Rat := fun j => if j = 0 then 4 else if j = 1 then 1 else -2

example : WF Tmd ∧ Tmd.Nodup := by decide +kernel
-- flux 2 from cell 0 into the fracture cell (takes the primary value 4), flux -2 on the other side,
-- i.e. from the fracture cell into cell 1 (takes the secondary value -2)
example : (List.range 2).map (eta Mex.cp cMd cMd) = [8, 4] := by decide +kernel
example : (List.range 3).map (mdStep Mex (1 / 4) (fun _ => 1) (fun _ => 0) cMd) = [2, 0, 1] := by
  decide +kernel

example : sumTo 3 (fun i => 1 * mdStep Mex (1 / 4) (fun _ => 1) (fun _ => 0) cMd i) = sumTo 3 (fun i => 1 * cMd i) :=
  md_transport_conserves Mex (by decide +kernel) 4 3 (1 / 4) (fun _ => 1) (fun _ => 0) cMd
    (by decide +kernel) (by decide +kernel) (by intro i _; norm_num) (by decide +kernel)
    (by decide +kernel) (by decide +kernel)

example : traceVal Tmd cMd 1 = cMd 0 :=
  traceVal_fracture_face Tmd (by decide +kernel) cMd ⟨1, 0, 1⟩ (by decide +kernel) (by decide +kernel) (by decide +kernel)

-- `assemble_matvec` on the through-flow example: A c + rhs = div(face flux) in every cell
example : ∀ k, k < 3 → sumTo 3 (fun j => entryOf (assembleTrip Pthru Pthru.T) k j * cThru j) + assembleRhs Pthru (fun _ => 4) k
    = divAt Pthru.T (faceFlux Pthru cThru (fun _ => 4)) k := by decide +kernel

/-! the checkers answer `true` on the concrete data above, and `false` when a hypothesis fails -/
example : consHypB Pneu 4 3 (fun i => (i + 1 : Rat)) (fun _ => 0) = true := by decide +kernel
example : consHypB Pthru 4 3 (fun _ => 1) (fun _ => 0) = false := by decide +kernel      -- Dirichlet ends: open
example : mpHypB Pring 4 (1 / 2) (fun _ => 1) (fun _ => 0) cRing (-3) 5 = true := by decide +kernel
example : mpHypB Pthru 3 (1 / 2) (fun _ => 1) (fun _ => 4) cThru 1 4 = true := by decide +kernel
example : mpHypB Pthru 3 2 (fun _ => 1) (fun _ => 4) cThru 1 4 = false := by decide +kernel  -- CFL violated
example : mdHypB Mex 3 = true ∧ consHypB Mex.P 4 3 (fun _ => 1) (fun _ => 0) = true := by decide +kernel

/-- unit normals of the 1-d grid `T3` (pointing right): `darcy_flux` with `beta = (5/2, 7, 0)` -/
example : (List.range 4).map (darcyFlux T3 (fun _ => 1) (fun _ => 0) (fun _ => 0) (5 / 2) 7 0 none) = [5 / 2, 5 / 2, 5 / 2, 5 / 2] := by
  decide +kernel
example : ∀ k, k < 3 → divAt T3 (darcyFlux T3 (fun _ => 1) (fun _ => 0) (fun _ => 0) (5 / 2) 7 0 none) k = 0 :=
  fun k _ => darcy_flux_divergence_free T3 _ _ _ _ _ _ 1 none (fun _ _ => rfl) k
    (by unfold divAt T3; simp; split <;> (try split) <;> (try split) <;> norm_num) (by simp [divAt, T3]) (by simp [divAt, T3])
-- with cell apertures 2, 4, 6 the face apertures are the means over the adjacent cells
example : (List.range 4).map (faceAperture T3 (some (fun c => (2 * c + 2 : Rat)))) = [2, 3, 5, 6] := by decide +kernel

end PorepyVerif.C17
