/- C17 line-protocol driver: `lake env lean --run PorepyVerif/C17/Driver.lean` -/
import PorepyVerif.Common.Wire
import PorepyVerif.C17.Model
open Lean PV PorepyVerif.C17

def ofTrips (l : List Trip) : Json := ofList (fun t => Json.arr #[ofNat t.1, ofNat t.2.1, ofRat t.2.2]) l

def arrFn (l : List Rat) : Nat → Rat :=
  let a := l.toArray
  fun i => a.getD i 0

def boolFn (l : List Bool) : Nat → Bool :=
  let a := l.toArray
  fun i => a.getD i false

def parseInc (row : List Rat) : R Inc :=
  match row with
  | [f, c, s] =>
    if f.den == 1 && c.den == 1 && f.num ≥ 0 && c.num ≥ 0 then pure ⟨f.num.toNat, c.num.toNat, s⟩
    else throw "bad incidence"
  | _ => throw "bad incidence"

/-- one explicit step of all cells; the face fluxes `faceFlux P c bv f` are tabulated once
    (the value computed for cell `i` is `step P dt V bv c i` by definition) -/
def stepAll (P : Pb) (nf nc : Nat) (dt : Rat) (V bv : Nat → Rat) (cl : List Rat) : List Rat :=
  let c := arrFn cl
  let g := arrFn ((List.range nf).map (faceFlux P c bv))
  (List.range nc).map (fun i => c i - dt / V i * divAt P.T g i)

def stepsAll (P : Pb) (nf nc : Nat) (dt : Rat) (V : Nat → Rat) (bvs : List (Nat → Rat)) :
    Nat → List (List Rat) → List (List (List Rat))
  | 0, _ => []
  | n + 1, cls =>
    let nxt := (cls.zip bvs).map (fun (cl, bv) => stepAll P nf nc dt V bv cl)
    nxt :: stepsAll P nf nc dt V bvs n nxt

/-- components interleaved as the Kronecker expansion orders them: index `i*k + a` -/
def interleave (nc : Nat) (comps : List (List Rat)) : List Rat :=
  (List.range nc).flatMap (fun i => comps.map (fun cl => cl.getD i 0))

def run (j : Json) : R Json := do
  let op ← fStr j "op"
  if op != "upwind" then throw s!"unknown op {op}" else
  let nf ← fNat j "nf"
  let nc ← fNat j "nc"
  let incs ← fRatss j "inc"
  let T ← incs.mapM parseInc
  let flux ← fRats j "flux"
  let isDir ← field j "is_dir" >>= jList jBool
  let isNeu ← field j "is_neu" >>= jList jBool
  let k ← fNat j "k"
  let bvs ← fRatss j "bv"
  let cs ← fRatss j "c"
  let Vl ← fRats j "V"
  let dt ← fRat j "dt"
  let nsteps ← fNat j "nsteps"
  if flux.length != nf || isDir.length != nf || isNeu.length != nf || Vl.length != nc then throw "length mismatch" else
  if bvs.length != k || cs.length != k then throw "component mismatch" else
  let P : Pb := ⟨T, arrFn flux, boolFn isDir, boolFn isNeu⟩
  if anyErr P nf then pure (err "ValueError") else
  let up := kronTrip k (upwindTrip P nf)
  let dir := kronTrip k (dirTrip P nf)
  let neu := kronTrip k (neuTrip P nf)
  let steps := stepsAll P nf nc dt (arrFn Vl) (bvs.map arrFn) nsteps cs
  let asm :=
    if k == 1 then
      let bv := arrFn (bvs.headD [])
      obj [("A", ofTrips (assembleTrip P T)), ("rhs", ofRats ((List.range nc).map (assembleRhs P bv)))]
    else err "ValueError"
  pure (obj [
    ("shapes", ofList ofNats [[nf * k, nc * k], [nf * k, nf * k], [nf * k, nf * k]]),
    ("upwind", ofTrips up), ("dir", ofTrips dir), ("neu", ofTrips neu),
    ("steps", ofList (fun comps => ofRats (interleave nc comps)) steps),
    ("assemble", asm)])

def main : IO Unit := runPure run
