/- C17 line-protocol driver: `lake env lean --run PorepyVerif/C17/Driver.lean` -/
import PorepyVerif.Common.Wire
import PorepyVerif.C17.Model
open Lean PV PorepyVerif.C17

def ofTrips (l : List Trip) : Json := ofList (fun t => Json.arr #[ofNat t.1, ofNat t.2.1, ofRat t.2.2]) l

def arrFn (l : List Rat) : Nat → Rat :=
  let a := l.toArray
  fun i => a.getD i 0

def boolFn (l : List Bool) : Nat → Bool :=
  let a := l.toArray
  fun i => a.getD i false

def parseInc (row : List Rat) : R Inc :=
  match row with
  | [f, c, s] =>
    if f.den == 1 && c.den == 1 && f.num ≥ 0 && c.num ≥ 0 then pure ⟨f.num.toNat, c.num.toNat, s⟩
    else throw "bad incidence"
  | _ => throw "bad incidence"

/-- one explicit step of all cells; the face fluxes `faceFlux P c bv f` are tabulated once
    (the value computed for cell `i` is `step P dt V bv c i` by definition) -/
def stepAll (P : Pb) (nf nc : Nat) (dt : Rat) (V bv : Nat → Rat) (cl : List Rat) : List Rat :=
  let c := arrFn cl
  let g := arrFn ((List.range nf).map (faceFlux P c bv))
  (List.range nc).map (fun i => c i - dt / V i * divAt P.T g i)

def stepsAll (P : Pb) (nf nc : Nat) (dt : Rat) (V : Nat → Rat) (bvs : List (Nat → Rat)) :
    Nat → List (List Rat) → List (List (List Rat))
  | 0, _ => []
  | n + 1, cls =>
    let nxt := (cls.zip bvs).map (fun (cl, bv) => stepAll P nf nc dt V bv cl)
    nxt :: stepsAll P nf nc dt V bvs n nxt

/-- components interleaved as the Kronecker expansion orders them: index `i*k + a` -/
def interleave (nc : Nat) (comps : List (List Rat)) : List Rat :=
  (List.range nc).flatMap (fun i => comps.map (fun cl => cl.getD i 0))

def natFn (l : List Nat) : Nat → Nat :=
  let a := l.toArray
  fun i => a.getD i 0

/-- one interface of a mixed-dimensional case: the coupling matrices of `UpwindCoupling`, in global indices -/
def runIntf (T : Topo) (j : Json) : R Json := do
  let pf ← fNats j "pf"
  let sc ← fNats j "sc"
  let lam ← fRats j "lam"
  let dh ← fInt j "dim_h"
  let dl ← fInt j "dim_l"
  let f0 ← fNat j "face_lo"
  let f1 ← fNat j "face_hi"
  let nm := lam.length
  if pf.length != nm || sc.length != nm then throw "mortar length mismatch" else
  if !codimOk dh dl then pure (err "ValueError") else
  let C : Cp := ⟨T, natFn pf, natFn sc, arrFn lam⟩
  let ms := List.range nm
  pure (obj [
    ("upwind_primary", ofRats (ms.map (upPrimDiag C))),
    ("upwind_secondary", ofRats (ms.map (upSecDiag C))),
    ("flux", ofRats (ms.map (cplFluxDiag C))),
    ("trace", ofTrips ((T.filter (fun i => f0 ≤ i.face && i.face < f1)).map (fun i => (i.face, i.cell, absR i.sgn)))),
    ("cc02", ofTrips (cc02Trip C nm)),
    ("cc12", ofTrips (ms.map (fun m => (C.sc m, m, cc12 C (C.sc m) m)))),
    ("cc20", ofTrips (cc20Trip C nm)),
    ("cc21", ofTrips (ms.map (fun m => (m, C.sc m, cc21 C m (C.sc m)))))])

def mdSteps (M : Md) (nc : Nat) (dt : Rat) (V bv : Nat → Rat) : Nat → List Rat → List (List Rat)
  | 0, _ => []
  | n + 1, cl =>
    let c := arrFn cl
    let nxt := (List.range nc).map (mdStep M dt V bv c)
    nxt :: mdSteps M nc dt V bv n nxt

def runMd (j : Json) : R Json := do
  let nf ← fNat j "nf"
  let nc ← fNat j "nc"
  let incs ← fRatss j "inc"
  let T ← incs.mapM parseInc
  let flux ← fRats j "flux"
  let isDir ← field j "is_dir" >>= jList jBool
  let isNeu ← field j "is_neu" >>= jList jBool
  let bv ← fRats j "bv"
  let cl ← fRats j "c"
  let Vl ← fRats j "V"
  let dt ← fRat j "dt"
  let nsteps ← fNat j "nsteps"
  let intfs ← field j "interfaces" >>= jList pure
  let pf ← fNats j "pf"
  let sc ← fNats j "sc"
  let lam ← fRats j "lam"
  if flux.length != nf || isDir.length != nf || isNeu.length != nf || Vl.length != nc || cl.length != nc then throw "length mismatch" else
  let P : Pb := ⟨T, arrFn flux, boolFn isDir, boolFn isNeu⟩
  if anyErr P nf then pure (err "ValueError") else
  let M : Md := ⟨P, lam.length, natFn pf, natFn sc, arrFn lam⟩
  let io ← intfs.mapM (runIntf T)
  pure (obj [
    ("upwind", ofTrips (upwindTrip P nf)), ("dir", ofTrips (dirTrip P nf)), ("neu", ofTrips (neuTrip P nf)),
    ("interfaces", Json.arr io.toArray),
    ("hyp", obj [("cons", Json.bool (consHypB P nf nc (arrFn Vl) (arrFn bv))), ("md", Json.bool (mdHypB M nc))]),
    ("steps", ofList ofRats (mdSteps M nc dt (arrFn Vl) (arrFn bv) nsteps cl))])

def runDarcy (j : Json) : R Json := do
  let nf ← fNat j "nf"
  let incs ← fRatss j "inc"
  let T ← incs.mapM parseInc
  let normals ← fRatss j "normals"
  let beta ← fRats j "beta"
  let ap ← field j "ap" >>= jOpt (jList jRat)
  match normals, beta with
  | [nx, ny, nz], [bx, by', bz] =>
    let apf := ap.map arrFn
    pure (obj [("flux", ofRats ((List.range nf).map (darcyFlux T (arrFn nx) (arrFn ny) (arrFn nz) bx by' bz apf)))])
  | _, _ => throw "bad normals/beta"

def run (j : Json) : R Json := do
  let op ← fStr j "op"
  if op == "md" then runMd j else
  if op == "darcy_flux" then runDarcy j else
  if op != "upwind" then throw s!"unknown op {op}" else
  let nf ← fNat j "nf"
  let nc ← fNat j "nc"
  let incs ← fRatss j "inc"
  let T ← incs.mapM parseInc
  let flux ← fRats j "flux"
  let isDir ← field j "is_dir" >>= jList jBool
  let isNeu ← field j "is_neu" >>= jList jBool
  let k ← fNat j "k"
  let bvs ← fRatss j "bv"
  let cs ← fRatss j "c"
  let Vl ← fRats j "V"
  let dt ← fRat j "dt"
  let nsteps ← fNat j "nsteps"
  let bounds ← fRatss j "bounds"
  if flux.length != nf || isDir.length != nf || isNeu.length != nf || Vl.length != nc then throw "length mismatch" else
  if bvs.length != k || cs.length != k || bounds.length != k then throw "component mismatch" else
  let P : Pb := ⟨T, arrFn flux, boolFn isDir, boolFn isNeu⟩
  let hyp := obj [
    ("wf", Json.bool (wfB T)),
    ("cons", ofList (fun bv => Json.bool (consHypB P nf nc (arrFn Vl) (arrFn bv))) bvs),
    ("mp", ofList (fun (x : (List Rat × List Rat) × List Rat) =>
        Json.bool (mpHypB P nc dt (arrFn Vl) (arrFn x.1.1) (arrFn x.1.2) (x.2.getD 0 0) (x.2.getD 1 0))) ((bvs.zip cs).zip bounds))]
  if anyErr P nf then pure (err "ValueError") else
  let up := kronTrip k (upwindTrip P nf)
  let dir := kronTrip k (dirTrip P nf)
  let neu := kronTrip k (neuTrip P nf)
  let steps := stepsAll P nf nc dt (arrFn Vl) (bvs.map arrFn) nsteps cs
  let asm :=
    if k == 1 then
      let bv := arrFn (bvs.headD [])
      obj [("A", ofTrips (assembleTrip P T)), ("rhs", ofRats ((List.range nc).map (assembleRhs P bv)))]
    else err "ValueError"
  pure (obj [
    ("shapes", ofList ofNats [[nf * k, nc * k], [nf * k, nf * k], [nf * k, nf * k]]),
    ("upwind", ofTrips up), ("dir", ofTrips dir), ("neu", ofTrips neu),
    ("steps", ofList (fun comps => ofRats (interleave nc comps)) steps),
    ("assemble", asm), ("hyp", hyp)])

def main : IO Unit := runPure run
