/-
C17 — executable model of `porepy.numerics.fv.upwind.Upwind.discretize` (core Lean only).

Topology = the stored entries `(face, cell, sign)` of `sd.cell_faces`, in the order `sps.find`
enumerates them.  Everything `discretize` computes is discrete logic on top of it:

  darcy_flux = np.sign(flux);  pos_flux = darcy_flux >= 0;  neg_flux = ~pos_flux
  cf_dense   = sd.cell_faces_as_dense()           -- row 0: cell with positive sign, row 1: negative, -1: none
  upstream_cell_ind[pos] = cf_dense[0, pos];  upstream_cell_ind[neg] = cf_dense[1, neg]
  neumann_ind = faces with bc.is_neu
  inflow_ind  = bc.is_dir and ((pos_flux and cf_dense[0] < 0) or (neg_flux and cf_dense[1] < 0))
  rows neumann_ind ∪ inflow_ind are deleted; the remaining rows get a 1 in column upstream_cell_ind
        (column -1, i.e. no cell on the upstream side of a face that is not deleted: scipy raises ValueError)
  bound_transport_neu = diag(sgn_div) on neumann_ind,  sgn_div = column sums of the divergence
  bound_transport_dir = identity on inflow_ind
  all three expanded by `sps.kron(·, eye(num_components))`.

Numbers are rationals (every binary64 is one).  Functions `Nat → _` stand for the numpy arrays.
-/
namespace PorepyVerif.C17

/-- one stored entry of `cell_faces` -/
structure Inc where
  face : Nat
  cell : Nat
  sgn : Rat
deriving DecidableEq, Repr

abbrev Topo := List Inc

/-! ### generic sums (structural recursion) -/

def sumOver : List α → (α → Rat) → Rat
  | [], _ => 0
  | a :: l, g => g a + sumOver l g

def sumTo : Nat → (Nat → Rat) → Rat
  | 0, _ => 0
  | n + 1, g => sumTo n g + g n

/-! ### `cell_faces_as_dense` -/

/-- `cf_dense[0, f]`: the cell with positive sign (`none` is the -1 of the code).  numpy fancy
    assignment `cf_dense[0, fi[pos]] = ci[pos]`: the last stored entry wins. -/
def densePos : Topo → Nat → Option Nat
  | [], _ => none
  | i :: T, f =>
    match densePos T f with
    | some c => some c
    | none => if i.face = f ∧ 0 < i.sgn then some i.cell else none

/-- `cf_dense[1, f]`: the cell with negative sign. -/
def denseNeg : Topo → Nat → Option Nat
  | [], _ => none
  | i :: T, f =>
    match denseNeg T f with
    | some c => some c
    | none => if i.face = f ∧ i.sgn < 0 then some i.cell else none

/-- number of cells on the positive / negative side of a face -/
def cntPos : Topo → Nat → Nat
  | [], _ => 0
  | i :: T, f => (if i.face = f ∧ 0 < i.sgn then 1 else 0) + cntPos T f

def cntNeg : Topo → Nat → Nat
  | [], _ => 0
  | i :: T, f => (if i.face = f ∧ i.sgn < 0 then 1 else 0) + cntNeg T f

/-- well-formed topology (decidable): signs are ±1 and every face has at most one cell per side -/
def wfB (T : Topo) : Bool :=
  T.all (fun i => (i.sgn = 1 ∨ i.sgn = -1) ∧ cntPos T i.face ≤ 1 ∧ cntNeg T i.face ≤ 1)

def WF (T : Topo) : Prop := wfB T = true

instance (T : Topo) : Decidable (WF T) := by unfold WF; infer_instance

/-- interior face: a cell on both sides -/
def Interior (T : Topo) (f : Nat) : Prop := cntPos T f = 1 ∧ cntNeg T f = 1

instance (T : Topo) (f : Nat) : Decidable (Interior T f) := by unfold Interior; infer_instance

/-! ### the discretization -/

/-- input of `discretize`: topology, face fluxes, boundary-condition flags -/
structure Pb where
  T : Topo
  q : Nat → Rat
  isDir : Nat → Bool
  isNeu : Nat → Bool

/-- `np.sign` -/
def sgnR (x : Rat) : Int := if 0 < x then 1 else if x < 0 then -1 else 0

/-- `pos_flux = np.sign(flux) >= 0` (zero flux counts as positive) -/
def posFlux (P : Pb) (f : Nat) : Bool := decide (0 ≤ sgnR (P.q f))

/-- `upstream_cell_ind[f]` (`none` = -1) -/
def upstream (P : Pb) (f : Nat) : Option Nat :=
  if posFlux P f then densePos P.T f else denseNeg P.T f

/-- membership in `inflow_ind` -/
def inflowDir (P : Pb) (f : Nat) : Bool :=
  P.isDir f && ((posFlux P f && (densePos P.T f).isNone) || (!posFlux P f && (denseNeg P.T f).isNone))

/-- membership in `delete_ind` -/
def deleted (P : Pb) (f : Nat) : Bool := P.isNeu f || inflowDir P f

/-- the column of the unit entry of row `f` of the upwind matrix, if the row has one -/
def upCol (P : Pb) (f : Nat) : Option Nat := if deleted P f then none else upstream P f

/-- a kept row whose upstream side has no cell: column index -1, `coo_matrix` raises ValueError -/
def upErr (P : Pb) (f : Nat) : Bool := !deleted P f && (upstream P f).isNone

/-- entry of the one-component upwind matrix -/
def U (P : Pb) (f c : Nat) : Rat := if upCol P f = some c then 1 else 0

/-- `sgn_div[f]`: column sum of the divergence -/
def sgnDiv (T : Topo) (f : Nat) : Rat := sumOver T (fun i => if i.face = f then i.sgn else 0)

/-- diagonal of `bound_transport_neu` / `bound_transport_dir` (one component) -/
def neuDiag (P : Pb) (f : Nat) : Rat := if P.isNeu f then sgnDiv P.T f else 0
def dirDiag (P : Pb) (f : Nat) : Rat := if inflowDir P f then 1 else 0

/-- `(upwind @ c)[f]` -/
def upVal (P : Pb) (c : Nat → Rat) (f : Nat) : Rat :=
  match upCol P f with
  | some j => c j
  | none => 0

/-- the advective face flux as composed from the three matrices
    (`flux * (upwind @ c) + bound_transport_dir @ (flux * bc_values) + bound_transport_neu @ bc_values`) -/
def faceFlux (P : Pb) (c bv : Nat → Rat) (f : Nat) : Rat :=
  P.q f * upVal P c f + dirDiag P f * (P.q f * bv f) + neuDiag P f * bv f

/-- `(sd.divergence(1) @ g)[k]` -/
def divAt (T : Topo) (g : Nat → Rat) (k : Nat) : Rat :=
  sumOver T (fun i => if i.cell = k then i.sgn * g i.face else 0)

/-- flux leaving / entering cell `k` -/
def outflow (T : Topo) (q : Nat → Rat) (k : Nat) : Rat :=
  sumOver T (fun i => if i.cell = k then max (i.sgn * q i.face) 0 else 0)

def inflow (T : Topo) (q : Nat → Rat) (k : Nat) : Rat :=
  sumOver T (fun i => if i.cell = k then max (-(i.sgn * q i.face)) 0 else 0)

/-- one explicit transport step  c' = c − dt/V · div(face flux) -/
def step (P : Pb) (dt : Rat) (V bv c : Nat → Rat) (i : Nat) : Rat :=
  c i - dt / V i * divAt P.T (faceFlux P c bv) i

def iter (P : Pb) (dt : Rat) (V bv : Nat → Rat) : Nat → (Nat → Rat) → (Nat → Rat)
  | 0, c => c
  | n + 1, c => iter P dt V bv n (step P dt V bv c)

/-! ### sparse matrices as triplet lists, Kronecker expansion -/

abbrev Trip := Nat × Nat × Rat

/-- entry of a triplet list (duplicates add up, as in `coo_matrix`) -/
def entryOf (M : List Trip) (r c : Nat) : Rat :=
  sumOver M (fun t => if t.1 = r ∧ t.2.1 = c then t.2.2 else 0)

/-- `sps.kron(M, sps.eye(k))` -/
def kronTrip (k : Nat) : List Trip → List Trip
  | [] => []
  | t :: M => (List.range k).map (fun a => (t.1 * k + a, t.2.1 * k + a, t.2.2)) ++ kronTrip k M

/-- entry of `kron(A, eye(k))` for a matrix given by its entries -/
def kronE (A : Nat → Nat → Rat) (k r c : Nat) : Rat := if r % k = c % k then A (r / k) (c / k) else 0

def upwindTrip (P : Pb) : Nat → List Trip
  | 0 => []
  | n + 1 => upwindTrip P n ++ (match upCol P n with
      | some c => [(n, c, 1)]
      | none => [])

def dirTrip (P : Pb) : Nat → List Trip
  | 0 => []
  | n + 1 => dirTrip P n ++ (if inflowDir P n then [(n, n, 1)] else [])

def neuTrip (P : Pb) : Nat → List Trip
  | 0 => []
  | n + 1 => neuTrip P n ++ (if P.isNeu n then [(n, n, sgnDiv P.T n)] else [])

/-- does `discretize` raise (some kept row has column -1)? -/
def anyErr (P : Pb) : Nat → Bool
  | 0 => false
  | n + 1 => anyErr P n || upErr P n

/-- legacy `assemble_matrix_rhs` (one component): `div @ diag(flux) @ upwind` as unsummed triplets and
    `div @ (bound_transport_neu + bound_transport_dir @ diag(flux)) @ bc_values` -/
def assembleTrip (P : Pb) : Topo → List Trip
  | [] => []
  | i :: T => (match upCol P i.face with
      | some j => [(i.cell, j, i.sgn * P.q i.face)]
      | none => []) ++ assembleTrip P T

def assembleRhs (P : Pb) (bv : Nat → Rat) (k : Nat) : Rat :=
  divAt P.T (fun f => neuDiag P f * bv f + dirDiag P f * (P.q f * bv f)) k

/-! ### `UpwindCoupling`: upwinding of the interface (mortar) flux

One interface between a primary (higher-dimensional) grid with topology `Th` and a secondary grid.
Mortar cell `m` is matched with the primary face `pf m` and the secondary cell `sc m` (matching grids:
the mortar projections of `pp.meshing.cart_grid` are 0/1 maps; they are inputs here, C26 is about them).

  lam_flux = np.sign(flux);  flag = lam_flux > 0          (zero mortar flux counts as "from secondary")
  upwind_primary = diag(flag);  upwind_secondary = diag(1 - flag);  flux = diag(lam_flux)
  trace = |divergence|ᵀ  (face ← adjacent cells),  inv_trace = |divergence|
  assemble:  cc[0,2] = inv_trace @ mortar_to_primary_int           (what leaves the primary cell …)
             cc[1,2] = -mortar_to_secondary_int                    (… enters the secondary cell)
             cc[2,0] = diag(|λ|) @ flux @ upwind_primary @ primary_to_mortar_avg @ trace
             cc[2,1] = diag(|λ|) @ flux @ upwind_secondary @ secondary_to_mortar_avg
             cc[2,2] = -identity
-/

def absR (x : Rat) : Rat := if x < 0 then -x else x

/-- entry `[f, c]` of the trace operator `|divergence|ᵀ` -/
def traceW (T : Topo) (f c : Nat) : Rat :=
  sumOver T (fun i => if i.face = f ∧ i.cell = c then absR i.sgn else 0)

/-- `(trace @ c)[f]`: the cell values seen from face `f` -/
def traceVal (T : Topo) (c : Nat → Rat) (f : Nat) : Rat :=
  sumOver T (fun i => if i.face = f then absR i.sgn * c i.cell else 0)

structure Cp where
  Th : Topo
  pf : Nat → Nat
  sc : Nat → Nat
  lam : Nat → Rat

/-- the dimension test of `UpwindCoupling.discretize` (else ValueError) -/
def codimOk (dimPrimary dimSecondary : Int) : Bool :=
  dimPrimary - dimSecondary == 1 || dimPrimary - dimSecondary == 2

/-- `flag = np.sign(lam) > 0` -/
def cplFlag (C : Cp) (m : Nat) : Bool := decide (0 < sgnR (C.lam m))

/-- diagonals of `upwind_primary`, `upwind_secondary`, `flux` -/
def upPrimDiag (C : Cp) (m : Nat) : Rat := if cplFlag C m then 1 else 0
def upSecDiag (C : Cp) (m : Nat) : Rat := 1 - upPrimDiag C m
def cplFluxDiag (C : Cp) (m : Nat) : Rat := (sgnR (C.lam m) : Int)

/-- blocks of `assemble_matrix_rhs` as entry functions -/
def cc02 (C : Cp) (c m : Nat) : Rat := traceW C.Th (C.pf m) c
def cc12 (C : Cp) (l m : Nat) : Rat := if C.sc m = l then -1 else 0
def cc20 (C : Cp) (m c : Nat) : Rat := absR (C.lam m) * cplFluxDiag C m * upPrimDiag C m * traceW C.Th (C.pf m) c
def cc21 (C : Cp) (m l : Nat) : Rat := absR (C.lam m) * cplFluxDiag C m * upSecDiag C m * (if C.sc m = l then 1 else 0)

/-- the advective mortar flux `η` determined by row 2 (`cc20 ch + cc21 cl − η = 0`):
    mortar flux × (primary trace value if the flux is positive, else the secondary cell value) -/
def eta (C : Cp) (ch cl : Nat → Rat) (m : Nat) : Rat :=
  C.lam m * (if 0 < C.lam m then traceVal C.Th ch (C.pf m) else cl (C.sc m))

/-- triplets of the blocks for the driver (unsummed) -/
def cc02Trip (C : Cp) (nm : Nat) : List Trip :=
  (List.range nm).flatMap (fun m => (C.Th.filter (fun i => i.face = C.pf m)).map (fun i => (i.cell, m, absR i.sgn)))
def cc20Trip (C : Cp) (nm : Nat) : List Trip :=
  (List.range nm).flatMap (fun m => (C.Th.filter (fun i => i.face = C.pf m)).map
    (fun i => (m, i.cell, absR (C.lam m) * cplFluxDiag C m * upPrimDiag C m * absR i.sgn)))

/-! ### mixed-dimensional explicit transport step

A mixed-dimensional grid flattened to one global numbering: `P.T` is the disjoint union of the
incidences of all subdomains (global face / cell indices; which subdomain an index belongs to plays no
role), and every mortar cell of every interface is one entry `m < nm` with its primary face `pf m`
(global), its secondary cell `sc m` (global) and its flux `lam m`.  The graph of subdomains and
interfaces is encoded in `pf`/`sc`. -/

structure Md where
  P : Pb
  nm : Nat
  pf : Nat → Nat
  sc : Nat → Nat
  lam : Nat → Rat

def Md.cp (M : Md) : Cp := ⟨M.P.T, M.pf, M.sc, M.lam⟩

/-- net interface outflow of cell `k`: `Σ_m cc02[k,m] η_m + Σ_m cc12[k,m] η_m` -/
def intfOut (M : Md) (c : Nat → Rat) (k : Nat) : Rat :=
  sumTo M.nm (fun m => cc02 M.cp k m * eta M.cp c c m) + sumTo M.nm (fun m => cc12 M.cp k m * eta M.cp c c m)

def mdStep (M : Md) (dt : Rat) (V bv c : Nat → Rat) (k : Nat) : Rat :=
  c k - dt / V k * (divAt M.P.T (faceFlux M.P c bv) k + intfOut M c k)

def mdIter (M : Md) (dt : Rat) (V bv : Nat → Rat) : Nat → (Nat → Rat) → (Nat → Rat)
  | 0, c => c
  | n + 1, c => mdIter M dt V bv n (mdStep M dt V bv c)

/-! ### decidable hypothesis checkers (evaluated by the driver on every case) -/

def boundsB (T : Topo) (nf nc : Nat) : Bool := T.all (fun i => decide (i.face < nf) && decide (i.cell < nc))

/-- every face is interior or a Neumann face with zero data -/
def closedB (P : Pb) (nf : Nat) (bv : Nat → Rat) : Bool :=
  (List.range nf).all (fun f => decide (Interior P.T f) || (P.isNeu f && decide (bv f = 0)))

/-- all hypotheses of `transport_conserves` -/
def consHypB (P : Pb) (nf nc : Nat) (V bv : Nat → Rat) : Bool :=
  wfB P.T && boundsB P.T nf nc && closedB P nf bv && (List.range nc).all (fun i => decide (V i ≠ 0))

/-- all hypotheses of `transport_maximum_principle_inflow` for given bounds `m`, `M` -/
def mpHypB (P : Pb) (nc : Nat) (dt : Rat) (V bv c : Nat → Rat) (m M : Rat) : Bool :=
  wfB P.T && P.T.all (fun i => decide (i.cell < nc)) && decide (0 ≤ dt) &&
  (List.range nc).all (fun i => decide (0 < V i) && decide (divAt P.T P.q i = 0) &&
    decide (dt * outflow P.T P.q i ≤ V i) && decide (m ≤ c i) && decide (c i ≤ M)) &&
  P.T.all (fun i =>
    (!P.isNeu i.face || (decide (P.q i.face = 0) && decide (bv i.face = 0))) &&
    (decide (P.q i.face = 0) ||
      (!upErr P i.face && (!inflowDir P i.face || (decide (m ≤ bv i.face) && decide (bv i.face ≤ M))))))

/-- the extra hypotheses of `md_transport_conserves` on the mortar matching -/
def mdHypB (M : Md) (nc : Nat) : Bool :=
  (List.range M.nm).all (fun m => decide (M.sc m < nc) && decide (cntPos M.P.T (M.pf m) + cntNeg M.P.T (M.pf m) = 1))

/-! ### `Upwind.darcy_flux`: normal flux of a constant velocity field

`face_apertures = (|cell_faces| @ cell_apertures) / bincount(rows)` (mean aperture of the adjacent cells, 1 if
no apertures are given), `flux[f] = face_normals[:, f] · (face_apertures[f] * beta)`. -/

def cntFace (T : Topo) (f : Nat) : Rat := sumOver T (fun i => if i.face = f then 1 else 0)

def faceAperture (T : Topo) (ap : Option (Nat → Rat)) (f : Nat) : Rat :=
  match ap with
  | none => 1
  | some a => sumOver T (fun i => if i.face = f then absR i.sgn * a i.cell else 0) / cntFace T f

def darcyFlux (T : Topo) (nx ny nz : Nat → Rat) (bx by' bz : Rat) (ap : Option (Nat → Rat)) (f : Nat) : Rat :=
  nx f * (faceAperture T ap f * bx) + ny f * (faceAperture T ap f * by') + nz f * (faceAperture T ap f * bz)

end PorepyVerif.C17
