/-
C29 — executable model of `porepy.geometry.intersections.split_intersecting_segments_2d`
(core Lean only), over exact rationals.

What is modelled (as coded, minus the two prefilters and with exact arithmetic in place of `tol`):
  * `inter s t`      = `segments_2d(start_1, end_1, start_2, end_2)`: Cramer's rule for non-parallel
                       lines; for parallel lines the collinearity test and the overlap of the
                       parameter intervals (`t_min`, `t_max`), parameters computed from the x- or
                       the y-component of the direction exactly as the code does;
  * `splitPts`       = for one segment: its two end points and every intersection point found with
                       any segment, mapped to the unique point set (`uniquify_point_set` + `np.unique`
                       on the indices; here: exact deduplication of rational points);
  * `sortFrom`       = `np.argsort` of the squared distance from the start point `e[0, ei]`;
  * `consec`         = `np.vstack((new_inds[:-1], new_inds[1:], loc_tags))`;
  * `preFrom`        = the loop over all lines that stacks the pieces with parent index and tags;
  * `dedupEdges`     = sorting the two point indices of every edge + `np.unique(axis=1, return_index)`:
                       one representative per unordered pair, the FIRST occurrence (lowest parent);
  * `tagInfo`        = `(tags, all_2_unique)`: for every piece before uniquification its tags and the
                       unique edge it was mapped to.
The bounding-box sweep and the normalised cross-product side test are not part of the model; their
exact versions `boxesOverlap` / `sameStrictSide` are defined here for the soundness theorems.
Zero-length segments are outside the model (the code raises or passes them through, depending on
the prefilter); the driver answers `ValueError` for them.
-/
namespace PorepyVerif.C29

abbrev Pt := Rat × Rat

structure Seg where
  a : Pt
  b : Pt
  tags : List Int
deriving DecidableEq, Repr

def rmax (x y : Rat) : Rat := if x ≤ y then y else x
def rmin (x y : Rat) : Rat := if x ≤ y then x else y

def psub (p q : Pt) : Pt := (p.1 - q.1, p.2 - q.2)
def cross (u v : Pt) : Rat := u.1 * v.2 - u.2 * v.1
/-- `start + t * d` -/
def along (a d : Pt) (t : Rat) : Pt := (a.1 + t * d.1, a.2 + t * d.2)
def dist2 (p q : Pt) : Rat := (p.1 - q.1) * (p.1 - q.1) + (p.2 - q.2) * (p.2 - q.2)

/-- direction `end - start` -/
def Seg.d (s : Seg) : Pt := psub s.b s.a
def Seg.nondeg (s : Seg) : Prop := s.a ≠ s.b
instance (s : Seg) : Decidable s.nondeg := inferInstanceAs (Decidable (s.a ≠ s.b))

/-- parameter of `p` on the line `a + t d` as the code computes it: from the x-component if the
    direction has one, else from the y-component -/
def paramOn (a d p : Pt) : Rat :=
  if d.1 ≠ 0 then (p.1 - a.1) / d.1 else (p.2 - a.2) / d.2

/-- collinear tail of `segments_2d`: `ts`, `te` are the parameters of the other segment's end points -/
def overlap (a d : Pt) (ts te : Rat) : List Pt :=
  if ts < 0 ∧ te < 0 then []
  else if ts > 1 ∧ te > 1 then []
  else
    let tmin := rmax (rmin ts te) 0
    let tmax := rmin (rmax ts te) 1
    if tmax ≤ tmin then [along a d tmin] else [along a d tmin, along a d tmax]

/-- `segments_2d` with exact comparisons: `[]` = `None`, one point, or the two ends of the overlap. -/
def inter (s t : Seg) : List Pt :=
  let d1 := s.d
  let d2 := t.d
  let ds := psub t.a s.a
  let discr := d1.1 * (-d2.2) - d1.2 * (-d2.1)
  if discr = 0 then
    if ds.1 * d1.2 - ds.2 * d1.1 = 0 then
      overlap s.a d1 (paramOn s.a d1 t.a) (paramOn s.a d1 t.b)
    else []
  else
    let t1 := (ds.1 * (-d2.2) - ds.2 * (-d2.1)) / discr
    let t2 := (d1.1 * ds.2 - d1.2 * ds.1) / discr
    if 0 ≤ t1 ∧ t1 ≤ 1 ∧ 0 ≤ t2 ∧ t2 ≤ 1 then [along s.a d1 t1] else []

/-- exact deduplication of points (one copy of each) -/
def dedup : List Pt → List Pt
  | [] => []
  | p :: l => if p ∈ l then dedup l else p :: dedup l

/-- all points at which segment `s` is cut: its end points and its intersections with every segment -/
def splitPts (segs : List Seg) (s : Seg) : List Pt :=
  dedup (s.a :: s.b :: segs.flatMap (inter s))

def insertBy (a p : Pt) : List Pt → List Pt
  | [] => [p]
  | x :: l => if dist2 p a ≤ dist2 x a then p :: x :: l else x :: insertBy a p l

/-- insertion sort by squared distance from `a` -/
def sortFrom (a : Pt) : List Pt → List Pt
  | [] => []
  | p :: l => insertBy a p (sortFrom a l)

/-- consecutive pairs -/
def consec : List Pt → List (Pt × Pt)
  | [] => []
  | [_] => []
  | p :: q :: l => (p, q) :: consec (q :: l)

/-- the pieces of one parent, ordered from its start point -/
def pieces (segs : List Seg) (s : Seg) : List (Pt × Pt) :=
  consec (sortFrom s.a (splitPts segs s))

structure OutEdge where
  p : Pt
  q : Pt
  parent : Nat
  tags : List Int
deriving DecidableEq, Repr

/-- pieces of the parents `l` (numbered from `i`), cut by all segments `all` -/
def preFrom (all : List Seg) : Nat → List Seg → List OutEdge
  | _, [] => []
  | i, s :: rest => (pieces all s).map (fun e => ⟨e.1, e.2, i, s.tags⟩) ++ preFrom all (i + 1) rest

/-- all pieces before uniquification, parent by parent -/
def preEdges (segs : List Seg) : List OutEdge := preFrom segs 0 segs

/-- the same edge as an unordered pair of points -/
def sameEdge (e f : OutEdge) : Bool :=
  (e.p = f.p && e.q = f.q) || (e.p = f.q && e.q = f.p)

/-- keep the first representative of every unordered pair -/
def dedupEdges : List OutEdge → List OutEdge
  | [] => []
  | e :: l => e :: (dedupEdges l).filter (fun f => !sameEdge f e)

/-- the returned edges with parent (`argsort`) and tags -/
def split (segs : List Seg) : List OutEdge := dedupEdges (preEdges segs)

/-- `tag_info`: for every piece before uniquification, its tags and the unique edge it is mapped to -/
def tagInfo (segs : List Seg) : List (List Int × Option OutEdge) :=
  (preEdges segs).map (fun e => (e.tags, (split segs).find? (fun f => sameEdge f e)))

/-! ### specification vocabulary -/

/-- `q` lies on the closed segment from `a` to `b` -/
def OnSeg (a b q : Pt) : Prop :=
  ∃ t : Rat, 0 ≤ t ∧ t ≤ 1 ∧ q.1 = a.1 + t * (b.1 - a.1) ∧ q.2 = a.2 + t * (b.2 - a.2)

/-- closed bounding boxes of the two segments overlap (what `_identify_overlapping_rectangles` tests) -/
def boxesOverlap (s t : Seg) : Prop :=
  rmin s.a.1 s.b.1 ≤ rmax t.a.1 t.b.1 ∧ rmin t.a.1 t.b.1 ≤ rmax s.a.1 s.b.1 ∧
  rmin s.a.2 s.b.2 ≤ rmax t.a.2 t.b.2 ∧ rmin t.a.2 t.b.2 ≤ rmax s.a.2 s.b.2

/-- both end points of `t` strictly on the same side of the line through `s`
    (exact form of `start_cross * end_cross = 1`) -/
def sameStrictSide (s t : Seg) : Prop :=
  (0 < cross s.d (psub t.a s.a) ∧ 0 < cross s.d (psub t.b s.a)) ∨
  (cross s.d (psub t.a s.a) < 0 ∧ cross s.d (psub t.b s.a) < 0)

/-- Bool form of `boxesOverlap` -/
def boxesOverlapB (s t : Seg) : Bool :=
  decide (rmin s.a.1 s.b.1 ≤ rmax t.a.1 t.b.1) && decide (rmin t.a.1 t.b.1 ≤ rmax s.a.1 s.b.1) &&
  decide (rmin s.a.2 s.b.2 ≤ rmax t.a.2 t.b.2) && decide (rmin t.a.2 t.b.2 ≤ rmax s.a.2 s.b.2)

/-- candidate partners `(i, j)` of segment `i` among the later segments (numbered from `j`) -/
def pairsWith (i : Nat) (s : Seg) : Nat → List Seg → List (Nat × Nat)
  | _, [] => []
  | j, t :: rest =>
    if boxesOverlapB s t then (i, j) :: pairsWith i s (j + 1) rest else pairsWith i s (j + 1) rest

def pairsFrom : Nat → List Seg → List (Nat × Nat)
  | _, [] => []
  | i, s :: rest => pairsWith i s (i + 1) rest ++ pairsFrom (i + 1) rest

/-- specification of `_identify_overlapping_rectangles` on the boxes of the segments: all pairs
    `i < j` whose closed bounding boxes overlap, sorted by `i` (then `j`) -/
def boxPairs (segs : List Seg) : List (Nat × Nat) := pairsFrom 0 segs

/-- what the early-return branch of the code returns when no intersection point was found:
    the input edges unchanged, `argsort = arange` -/
def trivFrom : Nat → List Seg → List OutEdge
  | _, [] => []
  | i, s :: rest => ⟨s.a, s.b, i, s.tags⟩ :: trivFrom (i + 1) rest

/-- no two different input segments (by position) have an intersection point -/
def NoIsect (segs : List Seg) : Prop := segs.Pairwise (fun s t => inter s t = [] ∧ inter t s = [])

instance (segs : List Seg) : Decidable (NoIsect segs) :=
  inferInstanceAs (Decidable (segs.Pairwise (fun s t => inter s t = [] ∧ inter t s = [])))

end PorepyVerif.C29
