/- C29 line-protocol driver: `lake env lean --run PorepyVerif/C29/Driver.lean` -/
import PorepyVerif.Common.Wire
import PorepyVerif.C29.Model
open Lean PV PorepyVerif.C29

def jPt (j : Json) : R Pt := do
  let l ← jList jRat j
  match l with
  | [x, y] => pure (x, y)
  | _ => throw "point must have two coordinates"

def jSeg (j : Json) : R Seg := do
  let a ← field j "a" >>= jPt
  let b ← field j "b" >>= jPt
  let tags ← fInts j "tags"
  pure ⟨a, b, tags⟩

def ofPt (p : Pt) : Json := ofRats [p.1, p.2]

def run (j : Json) : R Json := do
  let op ← fStr j "op"
  match op with
  | "split" =>
    let segs ← field j "segs" >>= jList jSeg
    if segs.any (fun s => s.a == s.b) then pure (err "ValueError") else
    let out := split segs
    let ti := tagInfo segs
    pure (obj [
      ("nointersect", Json.bool (decide (NoIsect segs))),
      ("pairs", ofList (fun (x : Nat × Nat) => ofNats [x.1, x.2]) (boxPairs segs)),
      ("edges", ofList (fun e => obj [("p", ofPt e.p), ("q", ofPt e.q), ("parent", ofNat e.parent), ("tags", ofInts e.tags)]) out),
      ("pre", ofList (fun (x : List Int × Option OutEdge) => match x.2 with
          | some e => obj [("p", ofPt e.p), ("q", ofPt e.q), ("tags", ofInts x.1)]
          | none => obj [("tags", ofInts x.1)]) ti)])
  | "inter" =>
    let s ← field j "s" >>= jSeg
    let t ← field j "t" >>= jSeg
    pure (ofList ofPt (inter s t))
  | _ => throw s!"unknown op {op}"

def main : IO Unit := runPure run
