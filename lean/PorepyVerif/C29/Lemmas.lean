/-
C29 — helper lemmas: plane algebra over ℚ, soundness/completeness of `inter`, list lemmas for
`dedup` / `sortFrom` / `consec` / `dedupEdges`, and the one-dimensional argument for collinear parents.
-/
import PorepyVerif.C29.Model
import Mathlib.Algebra.Order.Field.Rat
import Mathlib.Algebra.Order.Field.Basic
import Mathlib.Tactic.Ring
import Mathlib.Tactic.Linarith
import Mathlib.Tactic.FieldSimp
import Mathlib.Tactic.LinearCombination

namespace PorepyVerif.C29

/-! ### points -/

theorem pt_ext {p q : Pt} (h1 : p.1 = q.1) (h2 : p.2 = q.2) : p = q := Prod.ext h1 h2

@[simp] theorem along_fst (a d : Pt) (t : Rat) : (along a d t).1 = a.1 + t * d.1 := rfl
@[simp] theorem along_snd (a d : Pt) (t : Rat) : (along a d t).2 = a.2 + t * d.2 := rfl
@[simp] theorem psub_fst (p q : Pt) : (psub p q).1 = p.1 - q.1 := rfl
@[simp] theorem psub_snd (p q : Pt) : (psub p q).2 = p.2 - q.2 := rfl
@[simp] theorem d_fst (s : Seg) : s.d.1 = s.b.1 - s.a.1 := rfl
@[simp] theorem d_snd (s : Seg) : s.d.2 = s.b.2 - s.a.2 := rfl

theorem along_zero (a d : Pt) : along a d 0 = a := by
  apply pt_ext <;> simp

theorem along_one (s : Seg) : along s.a s.d 1 = s.b := by
  apply pt_ext <;> simp

theorem d_ne_zero {s : Seg} (h : s.nondeg) : s.d.1 ≠ 0 ∨ s.d.2 ≠ 0 := by
  by_contra hc
  push Not at hc
  apply h
  apply pt_ext
  · have := hc.1; simp at this; linarith
  · have := hc.2; simp at this; linarith

theorem along_inj {a d : Pt} (hd : d.1 ≠ 0 ∨ d.2 ≠ 0) {t u : Rat} (h : along a d t = along a d u) : t = u := by
  have h1 : a.1 + t * d.1 = a.1 + u * d.1 := congrArg Prod.fst h
  have h2 : a.2 + t * d.2 = a.2 + u * d.2 := congrArg Prod.snd h
  rcases hd with hd | hd
  · have : (t - u) * d.1 = 0 := by linarith
    rcases mul_eq_zero.mp this with h | h
    · linarith
    · exact absurd h hd
  · have : (t - u) * d.2 = 0 := by linarith
    rcases mul_eq_zero.mp this with h | h
    · linarith
    · exact absurd h hd

theorem paramOn_along {a d : Pt} (hd : d.1 ≠ 0 ∨ d.2 ≠ 0) (t : Rat) : paramOn a d (along a d t) = t := by
  unfold paramOn
  by_cases h1 : d.1 ≠ 0
  · rw [if_pos h1]; simp; field_simp
  · rw [if_neg h1]
    have h2 : d.2 ≠ 0 := by
      rcases hd with h | h
      · exact absurd h h1
      · exact h
    simp; field_simp

/-- a point on the line through `a` with direction `d ≠ 0` has a parameter -/
theorem line_param {a d p : Pt} (hd : d.1 ≠ 0 ∨ d.2 ≠ 0) (h : cross (psub p a) d = 0) :
    ∃ t : Rat, p = along a d t := by
  have hD : d.1 * d.1 + d.2 * d.2 ≠ 0 := by
    rcases hd with h | h
    · have := mul_self_pos.mpr h; nlinarith [mul_self_nonneg d.2]
    · have := mul_self_pos.mpr h; nlinarith [mul_self_nonneg d.1]
  simp only [cross, psub_fst, psub_snd] at h
  refine ⟨((p.1 - a.1) * d.1 + (p.2 - a.2) * d.2) / (d.1 * d.1 + d.2 * d.2), ?_⟩
  have e1 : p.1 - a.1 = ((p.1 - a.1) * d.1 + (p.2 - a.2) * d.2) / (d.1 * d.1 + d.2 * d.2) * d.1 := by
    rw [div_mul_eq_mul_div, eq_div_iff hD]; linear_combination d.2 * h
  have e2 : p.2 - a.2 = ((p.1 - a.1) * d.1 + (p.2 - a.2) * d.2) / (d.1 * d.1 + d.2 * d.2) * d.2 := by
    rw [div_mul_eq_mul_div, eq_div_iff hD]; linear_combination (-d.1) * h
  apply pt_ext
  · simp only [along_fst]; linarith
  · simp only [along_snd]; linarith

/-! ### OnSeg -/

theorem onSeg_left (a b : Pt) : OnSeg a b a := ⟨0, le_refl _, by norm_num, by ring, by ring⟩
theorem onSeg_right (a b : Pt) : OnSeg a b b := ⟨1, by norm_num, le_refl _, by ring, by ring⟩

theorem onSeg_symm {a b q : Pt} (h : OnSeg a b q) : OnSeg b a q := by
  obtain ⟨t, h0, h1, hx, hy⟩ := h
  exact ⟨1 - t, by linarith, by linarith, by rw [hx]; ring, by rw [hy]; ring⟩

/-- `OnSeg` in terms of the parametrisation of a segment -/
theorem onSeg_iff_along (s : Seg) (q : Pt) :
    OnSeg s.a s.b q ↔ ∃ t : Rat, 0 ≤ t ∧ t ≤ 1 ∧ q = along s.a s.d t := by
  constructor
  · rintro ⟨t, h0, h1, hx, hy⟩
    exact ⟨t, h0, h1, pt_ext (by simpa using hx) (by simpa using hy)⟩
  · rintro ⟨t, h0, h1, rfl⟩
    exact ⟨t, h0, h1, by simp, by simp⟩

/-- points between two points of a parametrised line: parameter form -/
theorem onSeg_along_iff {a d : Pt} (hd : d.1 ≠ 0 ∨ d.2 ≠ 0) (x y z : Rat) :
    OnSeg (along a d x) (along a d y) (along a d z) ↔ ((x ≤ z ∧ z ≤ y) ∨ (y ≤ z ∧ z ≤ x)) := by
  constructor
  · rintro ⟨t, h0, h1, hx, hy⟩
    simp only [along_fst, along_snd] at hx hy
    have hz : z = x + t * (y - x) := by
      rcases hd with hd | hd
      · have : (z - (x + t * (y - x))) * d.1 = 0 := by linarith
        rcases mul_eq_zero.mp this with h | h
        · linarith
        · exact absurd h hd
      · have : (z - (x + t * (y - x))) * d.2 = 0 := by linarith
        rcases mul_eq_zero.mp this with h | h
        · linarith
        · exact absurd h hd
    rcases le_total x y with hxy | hxy
    · left
      have := mul_nonneg h0 (sub_nonneg.mpr hxy)
      have h2 : (1 - t) * (y - x) ≥ 0 := mul_nonneg (by linarith) (sub_nonneg.mpr hxy)
      constructor <;> nlinarith
    · right
      have := mul_nonneg h0 (sub_nonneg.mpr hxy)
      have h2 : (1 - t) * (x - y) ≥ 0 := mul_nonneg (by linarith) (sub_nonneg.mpr hxy)
      constructor <;> nlinarith
  · intro h
    by_cases hxy : x = y
    · subst hxy
      have : z = x := by rcases h with h | h <;> linarith
      subst this
      exact onSeg_left _ _
    · have hne : y - x ≠ 0 := sub_ne_zero.mpr (Ne.symm hxy)
      refine ⟨(z - x) / (y - x), ?_, ?_, ?_, ?_⟩
      · rcases h with h | h
        · exact div_nonneg (by linarith) (by linarith)
        · exact div_nonneg_of_nonpos (by linarith) (by linarith)
      · rcases h with h | h
        · rw [div_le_one (by rcases lt_or_gt_of_ne hxy with h' | h' <;> [linarith; linarith])]
          linarith
        · have hneg : y - x < 0 := by
            rcases lt_or_gt_of_ne hxy with h' | h'
            · linarith
            · linarith
          rw [div_le_one_of_neg hneg]; linarith
      · simp only [along_fst]; field_simp; ring
      · simp only [along_snd]; field_simp; ring



/-! ### the collinear tail `overlap` in parameter form -/

/-- `z` lies between `x` and `y` -/
def Btw (x y z : Rat) : Prop := (x ≤ z ∧ z ≤ y) ∨ (y ≤ z ∧ z ≤ x)

theorem Btw.symm {x y z : Rat} (h : Btw x y z) : Btw y x z := Or.symm h

theorem overlap_key (ts te : Rat) (hA : 0 ≤ ts ∨ 0 ≤ te) (hB : ts ≤ 1 ∨ te ≤ 1) (z : Rat)
    (hz : z = rmax (rmin ts te) 0 ∨ z = rmin (rmax ts te) 1) :
    0 ≤ z ∧ z ≤ 1 ∧ Btw ts te z ∧ (z = ts ∨ z = te ∨ z = 0 ∨ z = 1) := by
  unfold rmax rmin at hz
  unfold Btw
  grind

theorem overlap_mem {a d : Pt} {ts te : Rat} {p : Pt} (h : p ∈ overlap a d ts te) :
    ∃ z : Rat, p = along a d z ∧ 0 ≤ z ∧ z ≤ 1 ∧ Btw ts te z ∧ (z = ts ∨ z = te ∨ z = 0 ∨ z = 1) := by
  unfold overlap at h
  by_cases h1 : ts < 0 ∧ te < 0
  · rw [if_pos h1] at h; cases h
  rw [if_neg h1] at h
  by_cases h2 : ts > 1 ∧ te > 1
  · rw [if_pos h2] at h; cases h
  rw [if_neg h2] at h
  have hA : 0 ≤ ts ∨ 0 ≤ te := by
    by_contra hc; push Not at hc; exact h1 hc
  have hB : ts ≤ 1 ∨ te ≤ 1 := by
    by_contra hc; push Not at hc; exact h2 hc
  simp only at h
  split_ifs at h
  · rw [List.mem_singleton] at h
    exact ⟨_, h, overlap_key ts te hA hB _ (Or.inl rfl)⟩
  · rcases List.mem_cons.mp h with h | h
    · exact ⟨_, h, overlap_key ts te hA hB _ (Or.inl rfl)⟩
    · rw [List.mem_singleton] at h
      exact ⟨_, h, overlap_key ts te hA hB _ (Or.inr rfl)⟩

theorem overlap_key2 (ts te z : Rat) (h0 : 0 ≤ z) (h1 : z ≤ 1) (hb : Btw ts te z)
    (he : z = ts ∨ z = te ∨ z = 0 ∨ z = 1) :
    z = rmax (rmin ts te) 0 ∨ (z = rmin (rmax ts te) 1) := by
  unfold rmax rmin
  unfold Btw at hb
  grind

theorem overlap_key3 (ts te : Rat) (h : rmin (rmax ts te) 1 ≤ rmax (rmin ts te) 0)
    (hA : 0 ≤ ts ∨ 0 ≤ te) (hB : ts ≤ 1 ∨ te ≤ 1) :
    rmin (rmax ts te) 1 = rmax (rmin ts te) 0 := by
  unfold rmax rmin at *
  grind

/-- an end point of either segment (parameters `ts`, `te`, `0`, `1`) inside both parameter ranges is reported -/
theorem overlap_complete {a d : Pt} {ts te z : Rat} (h0 : 0 ≤ z) (h1 : z ≤ 1) (hb : Btw ts te z)
    (he : z = ts ∨ z = te ∨ z = 0 ∨ z = 1) : along a d z ∈ overlap a d ts te := by
  unfold overlap
  have hA : 0 ≤ ts ∨ 0 ≤ te := by unfold Btw at hb; grind
  have hB : ts ≤ 1 ∨ te ≤ 1 := by unfold Btw at hb; grind
  have n1 : ¬ (ts < 0 ∧ te < 0) := by grind
  have n2 : ¬ (ts > 1 ∧ te > 1) := by grind
  rw [if_neg n1, if_neg n2]
  simp only
  rcases overlap_key2 ts te z h0 h1 hb he with hz | hz
  · split_ifs
    · rw [← hz]; exact List.mem_singleton.mpr rfl
    · rw [← hz]; exact List.mem_cons_self
  · split_ifs with hc
    · rw [← overlap_key3 ts te hc hA hB, ← hz]; exact List.mem_singleton.mpr rfl
    · rw [← hz]; exact List.mem_cons_of_mem _ (List.mem_singleton.mpr rfl)

theorem overlap_nonempty {a d : Pt} {ts te z : Rat} (h0 : 0 ≤ z) (h1 : z ≤ 1) (hb : Btw ts te z) :
    overlap a d ts te ≠ [] := by
  unfold overlap
  have n1 : ¬ (ts < 0 ∧ te < 0) := by unfold Btw at hb; grind
  have n2 : ¬ (ts > 1 ∧ te > 1) := by unfold Btw at hb; grind
  rw [if_neg n1, if_neg n2]
  simp only
  split_ifs <;> simp

/-! ### `inter` -/

/-- the two segments lie on one line -/
def Col (s t : Seg) : Prop := cross s.d t.d = 0 ∧ cross (psub t.a s.a) s.d = 0

theorem inter_of_col {s t : Seg} (hs : s.nondeg) (h : Col s t) :
    ∃ ts te : Rat, t.a = along s.a s.d ts ∧ t.b = along s.a s.d te ∧
      inter s t = overlap s.a s.d ts te := by
  have hd := d_ne_zero hs
  obtain ⟨h1, h2⟩ := h
  obtain ⟨ts, hts⟩ := line_param (a := s.a) (p := t.a) hd h2
  have h3 : cross (psub t.b s.a) s.d = 0 := by
    simp only [cross, psub_fst, psub_snd, d_fst, d_snd] at h1 h2 ⊢
    linear_combination h2 - h1
  obtain ⟨te, hte⟩ := line_param (a := s.a) (p := t.b) hd h3
  refine ⟨ts, te, hts, hte, ?_⟩
  unfold inter
  simp only
  have e1 : s.d.1 * -t.d.2 - s.d.2 * -t.d.1 = 0 := by
    simp only [cross] at h1; linear_combination (-1 : Rat) * h1
  have e2 : (psub t.a s.a).1 * s.d.2 - (psub t.a s.a).2 * s.d.1 = 0 := by
    simpa only [cross] using h2
  rw [if_pos e1, if_pos e2]
  conv => lhs; rw [hts, hte]
  rw [paramOn_along hd, paramOn_along hd]

theorem inter_of_par_noncol {s t : Seg} (h1 : cross s.d t.d = 0) (h2 : cross (psub t.a s.a) s.d ≠ 0) :
    inter s t = [] := by
  unfold inter
  simp only
  have e1 : s.d.1 * -t.d.2 - s.d.2 * -t.d.1 = 0 := by
    simp only [cross] at h1; linear_combination (-1 : Rat) * h1
  have e2 : ¬ ((psub t.a s.a).1 * s.d.2 - (psub t.a s.a).2 * s.d.1 = 0) := by
    simpa only [cross] using h2
  rw [if_pos e1, if_neg e2]

/-- the Cramer parameters of the non-parallel branch -/
def cramer1 (s t : Seg) : Rat :=
  ((psub t.a s.a).1 * (-t.d.2) - (psub t.a s.a).2 * (-t.d.1)) / (s.d.1 * (-t.d.2) - s.d.2 * (-t.d.1))
def cramer2 (s t : Seg) : Rat :=
  (s.d.1 * (psub t.a s.a).2 - s.d.2 * (psub t.a s.a).1) / (s.d.1 * (-t.d.2) - s.d.2 * (-t.d.1))

theorem inter_of_nonpar {s t : Seg} (h : cross s.d t.d ≠ 0) :
    inter s t = if 0 ≤ cramer1 s t ∧ cramer1 s t ≤ 1 ∧ 0 ≤ cramer2 s t ∧ cramer2 s t ≤ 1
      then [along s.a s.d (cramer1 s t)] else [] := by
  unfold inter cramer1 cramer2
  simp only
  have e1 : ¬ (s.d.1 * -t.d.2 - s.d.2 * -t.d.1 = 0) := by
    intro hc; apply h; simp only [cross]; linear_combination (-1 : Rat) * hc
  rw [if_neg e1]

theorem cramer_point {s t : Seg} (h : cross s.d t.d ≠ 0) :
    along s.a s.d (cramer1 s t) = along t.a t.d (cramer2 s t) := by
  have e1 : (s.d.1 * -t.d.2 - s.d.2 * -t.d.1) ≠ 0 := by
    intro hc; apply h; simp only [cross]; linear_combination (-1 : Rat) * hc
  have hc1 : cramer1 s t * (s.d.1 * -t.d.2 - s.d.2 * -t.d.1) =
      (psub t.a s.a).1 * (-t.d.2) - (psub t.a s.a).2 * (-t.d.1) := by
    unfold cramer1; exact div_mul_cancel₀ _ e1
  have hc2 : cramer2 s t * (s.d.1 * -t.d.2 - s.d.2 * -t.d.1) =
      s.d.1 * (psub t.a s.a).2 - s.d.2 * (psub t.a s.a).1 := by
    unfold cramer2; exact div_mul_cancel₀ _ e1
  simp only [psub_fst, psub_snd] at hc1 hc2
  apply pt_ext
  · simp only [along_fst]
    have key : (s.d.1 * -t.d.2 - s.d.2 * -t.d.1) *
        ((s.a.1 + cramer1 s t * s.d.1) - (t.a.1 + cramer2 s t * t.d.1)) = 0 := by
      linear_combination s.d.1 * hc1 - t.d.1 * hc2
    rcases mul_eq_zero.mp key with k | k
    · exact absurd k e1
    · linarith
  · simp only [along_snd]
    have key : (s.d.1 * -t.d.2 - s.d.2 * -t.d.1) *
        ((s.a.2 + cramer1 s t * s.d.2) - (t.a.2 + cramer2 s t * t.d.2)) = 0 := by
      linear_combination s.d.2 * hc1 - t.d.2 * hc2
    rcases mul_eq_zero.mp key with k | k
    · exact absurd k e1
    · linarith

/-- uniqueness: a common point of two non-parallel lines has the Cramer parameters -/
theorem cramer_unique {s t : Seg} (h : cross s.d t.d ≠ 0) {mu nu : Rat}
    (hq : along s.a s.d mu = along t.a t.d nu) : mu = cramer1 s t ∧ nu = cramer2 s t := by
  have e1 : (s.d.1 * -t.d.2 - s.d.2 * -t.d.1) ≠ 0 := by
    intro hc; apply h; simp only [cross]; linear_combination (-1 : Rat) * hc
  have hx : s.a.1 + mu * s.d.1 = t.a.1 + nu * t.d.1 := congrArg Prod.fst hq
  have hy : s.a.2 + mu * s.d.2 = t.a.2 + nu * t.d.2 := congrArg Prod.snd hq
  unfold cramer1 cramer2
  simp only [psub_fst, psub_snd]
  constructor
  · rw [eq_div_iff e1]; linear_combination (-t.d.2) * hx + t.d.1 * hy
  · rw [eq_div_iff e1]; linear_combination (-s.d.2) * hx + s.d.1 * hy


/-! ### geometric form of the `inter` lemmas -/

theorem inter_sound' {s t : Seg} (hs : s.nondeg) {p : Pt} (h : p ∈ inter s t) :
    OnSeg s.a s.b p ∧ OnSeg t.a t.b p := by
  by_cases hpar : cross s.d t.d = 0
  · by_cases hcol : cross (psub t.a s.a) s.d = 0
    · obtain ⟨ts, te, hta, htb, hi⟩ := inter_of_col hs ⟨hpar, hcol⟩
      rw [hi] at h
      obtain ⟨z, hp, h0, h1, hb, _⟩ := overlap_mem h
      constructor
      · exact (onSeg_iff_along s p).mpr ⟨z, h0, h1, hp⟩
      · rw [hta, htb, hp]; exact (onSeg_along_iff (d_ne_zero hs) ts te z).mpr hb
    · rw [inter_of_par_noncol hpar hcol] at h; cases h
  · rw [inter_of_nonpar hpar] at h
    split_ifs at h with hc
    · rw [List.mem_singleton] at h
      obtain ⟨c0, c1, c2, c3⟩ := hc
      constructor
      · exact (onSeg_iff_along s p).mpr ⟨_, c0, c1, h⟩
      · exact (onSeg_iff_along t p).mpr ⟨_, c2, c3, h.trans (cramer_point hpar)⟩
    · cases h

theorem inter_complete_nonpar {s t : Seg} (hpar : cross s.d t.d ≠ 0) {q : Pt}
    (h1 : OnSeg s.a s.b q) (h2 : OnSeg t.a t.b q) : inter s t = [q] := by
  obtain ⟨mu, m0, m1, hq1⟩ := (onSeg_iff_along s q).mp h1
  obtain ⟨nu, n0, n1, hq2⟩ := (onSeg_iff_along t q).mp h2
  obtain ⟨e1, e2⟩ := cramer_unique hpar (hq1.symm.trans hq2)
  rw [inter_of_nonpar hpar, ← e1, ← e2, if_pos ⟨m0, m1, n0, n1⟩, hq1]

theorem inter_col_endpoint {s t : Seg} (hs : s.nondeg) (hc : Col s t) {x : Pt}
    (hx : x = s.a ∨ x = s.b ∨ x = t.a ∨ x = t.b) (h1 : OnSeg s.a s.b x) (h2 : OnSeg t.a t.b x) :
    x ∈ inter s t := by
  have hd := d_ne_zero hs
  obtain ⟨ts, te, hta, htb, hi⟩ := inter_of_col hs hc
  obtain ⟨z, z0, z1, hz⟩ := (onSeg_iff_along s x).mp h1
  have hb : Btw ts te z := by
    have h2' := h2
    rw [hta, htb, hz] at h2'
    exact (onSeg_along_iff hd ts te z).mp h2'
  rw [hi, hz]
  apply overlap_complete z0 z1 hb
  rcases hx with hx | hx | hx | hx
  · right; right; left; apply along_inj hd (a := s.a); rw [← hz, hx, along_zero]
  · right; right; right; apply along_inj hd (a := s.a); rw [← hz, hx, along_one]
  · left; apply along_inj hd (a := s.a); rw [← hz, hx, hta]
  · right; left; apply along_inj hd (a := s.a); rw [← hz, hx, htb]

theorem inter_par_mem {s t : Seg} (hs : s.nondeg) (hpar : cross s.d t.d = 0) {p : Pt}
    (h : p ∈ inter s t) : Col s t ∧ (p = s.a ∨ p = s.b ∨ p = t.a ∨ p = t.b) := by
  by_cases hcol : cross (psub t.a s.a) s.d = 0
  · refine ⟨⟨hpar, hcol⟩, ?_⟩
    obtain ⟨ts, te, hta, htb, hi⟩ := inter_of_col hs ⟨hpar, hcol⟩
    rw [hi] at h
    obtain ⟨z, hp, _, _, _, he⟩ := overlap_mem h
    rcases he with he | he | he | he
    · right; right; left; rw [hp, he, hta]
    · right; right; right; rw [hp, he, htb]
    · left; rw [hp, he, along_zero]
    · right; left; rw [hp, he, along_one]
  · rw [inter_of_par_noncol hpar hcol] at h; cases h

theorem inter_nonempty_of_common {s t : Seg} (hs : s.nondeg) {q : Pt}
    (h1 : OnSeg s.a s.b q) (h2 : OnSeg t.a t.b q) : inter s t ≠ [] := by
  by_cases hpar : cross s.d t.d = 0
  · have hd := d_ne_zero hs
    obtain ⟨mu, m0, m1, hq1⟩ := (onSeg_iff_along s q).mp h1
    obtain ⟨nu, n0, n1, hq2⟩ := (onSeg_iff_along t q).mp h2
    have hcol : cross (psub t.a s.a) s.d = 0 := by
      have hx : s.a.1 + mu * s.d.1 = t.a.1 + nu * t.d.1 := congrArg Prod.fst (hq1.symm.trans hq2)
      have hy : s.a.2 + mu * s.d.2 = t.a.2 + nu * t.d.2 := congrArg Prod.snd (hq1.symm.trans hq2)
      simp only [cross, psub_fst, psub_snd] at hpar ⊢
      linear_combination (-s.d.2) * hx + s.d.1 * hy + nu * hpar
    obtain ⟨ts, te, hta, htb, hi⟩ := inter_of_col hs ⟨hpar, hcol⟩
    rw [hi]
    have hb : Btw ts te mu := by
      have h2' := h2
      rw [hta, htb, hq1] at h2'
      exact (onSeg_along_iff hd ts te mu).mp h2'
    exact overlap_nonempty m0 m1 hb
  · rw [inter_complete_nonpar hpar h1 h2]; simp

/-! ### parallel and collinear segments -/

theorem cross_par_trans {x y d : Pt} (hd : d.1 ≠ 0 ∨ d.2 ≠ 0) (hx : cross x d = 0) (hy : cross y d = 0) :
    cross x y = 0 := by
  simp only [cross] at hx hy ⊢
  have k1 : (x.1 * y.2 - x.2 * y.1) * d.1 = 0 := by linear_combination (-x.1) * hy + y.1 * hx
  have k2 : (x.1 * y.2 - x.2 * y.1) * d.2 = 0 := by linear_combination y.2 * hx - x.2 * hy
  rcases hd with hd | hd
  · rcases mul_eq_zero.mp k1 with k | k
    · exact k
    · exact absurd k hd
  · rcases mul_eq_zero.mp k2 with k | k
    · exact k
    · exact absurd k hd

theorem cross_swap (x y : Pt) : cross x y = - cross y x := by simp only [cross]; ring

theorem Col.symm' {s t : Seg} (hs : s.nondeg) (h : Col s t) : Col t s := by
  have hd := d_ne_zero hs
  obtain ⟨h1, h2⟩ := h
  have h1' : cross t.d s.d = 0 := by rw [cross_swap, h1]; ring
  refine ⟨h1', ?_⟩
  have := cross_par_trans hd h2 h1'
  simp only [cross, psub_fst, psub_snd] at this ⊢
  linear_combination (-1 : Rat) * this

theorem Col.trans' {s t u : Seg} (hs : s.nondeg) (h1 : Col s t) (h2 : Col s u) : Col t u := by
  have hd := d_ne_zero hs
  obtain ⟨a1, a2⟩ := h1
  obtain ⟨b1, b2⟩ := h2
  have a1' : cross t.d s.d = 0 := by rw [cross_swap, a1]; ring
  have b1' : cross u.d s.d = 0 := by rw [cross_swap, b1]; ring
  refine ⟨cross_par_trans hd a1' b1', ?_⟩
  have k1 := cross_par_trans hd b2 a1'
  have k2 := cross_par_trans hd a2 a1'
  simp only [cross, psub_fst, psub_snd] at k1 k2 ⊢
  linear_combination k1 - k2

theorem nonpar_transfer {s t u : Seg} (ht : t.nondeg) (h : Col s t) (hn : cross s.d u.d ≠ 0) :
    cross t.d u.d ≠ 0 := by
  intro hc
  apply hn
  have hd := d_ne_zero ht
  have c2 : cross u.d t.d = 0 := by rw [cross_swap, hc]; ring
  exact cross_par_trans hd h.1 c2

/-- parallel segments with a common point are collinear -/
theorem col_of_par_common {s t : Seg} (hpar : cross s.d t.d = 0) {q : Pt}
    (h1 : OnSeg s.a s.b q) (h2 : OnSeg t.a t.b q) : Col s t := by
  obtain ⟨mu, m0, m1, hq1⟩ := (onSeg_iff_along s q).mp h1
  obtain ⟨nu, n0, n1, hq2⟩ := (onSeg_iff_along t q).mp h2
  refine ⟨hpar, ?_⟩
  have hx : s.a.1 + mu * s.d.1 = t.a.1 + nu * t.d.1 := congrArg Prod.fst (hq1.symm.trans hq2)
  have hy : s.a.2 + mu * s.d.2 = t.a.2 + nu * t.d.2 := congrArg Prod.snd (hq1.symm.trans hq2)
  simp only [cross, psub_fst, psub_snd] at hpar ⊢
  linear_combination (-s.d.2) * hx + s.d.1 * hy + nu * hpar

/-! ### convexity -/

theorem onSeg_of_along_ends {a d : Pt} {x y : Rat} {p : Pt} (h : OnSeg (along a d x) (along a d y) p) :
    ∃ z : Rat, p = along a d z ∧ Btw x y z := by
  obtain ⟨l, l0, l1, hx, hy⟩ := h
  simp only [along_fst, along_snd] at hx hy
  refine ⟨x + l * (y - x), pt_ext ?_ ?_, ?_⟩
  · simp only [along_fst]; rw [hx]; ring
  · simp only [along_snd]; rw [hy]; ring
  · unfold Btw
    rcases le_total x y with hxy | hxy
    · left
      have := mul_nonneg l0 (sub_nonneg.mpr hxy)
      have h2 : 0 ≤ (1 - l) * (y - x) := mul_nonneg (by linarith) (sub_nonneg.mpr hxy)
      constructor <;> nlinarith
    · right
      have := mul_nonneg l0 (sub_nonneg.mpr hxy)
      have h2 : 0 ≤ (1 - l) * (x - y) := mul_nonneg (by linarith) (sub_nonneg.mpr hxy)
      constructor <;> nlinarith

theorem btw_range {x y z : Rat} (hx : 0 ≤ x ∧ x ≤ 1) (hy : 0 ≤ y ∧ y ≤ 1) (h : Btw x y z) : 0 ≤ z ∧ z ≤ 1 := by
  unfold Btw at h; grind

theorem btw_convex {a b x y z : Rat} (hx : Btw a b x) (hy : Btw a b y) (h : Btw x y z) : Btw a b z := by
  unfold Btw at *; grind

/-- a point on a segment between two points of `s` lies on `s` -/
theorem onSeg_trans {s : Seg} {u v q : Pt} (hu : OnSeg s.a s.b u) (hv : OnSeg s.a s.b v)
    (hq : OnSeg u v q) : OnSeg s.a s.b q := by
  obtain ⟨x, x0, x1, rfl⟩ := (onSeg_iff_along s u).mp hu
  obtain ⟨y, y0, y1, rfl⟩ := (onSeg_iff_along s v).mp hv
  obtain ⟨z, rfl, hb⟩ := onSeg_of_along_ends hq
  have := btw_range ⟨x0, x1⟩ ⟨y0, y1⟩ hb
  exact (onSeg_iff_along s _).mpr ⟨z, this.1, this.2, rfl⟩

/-! ### lists: `dedup`, `sortFrom`, `consec` -/

theorem mem_dedup (p : Pt) (l : List Pt) : p ∈ dedup l ↔ p ∈ l := by
  induction l with
  | nil => simp [dedup]
  | cons a l ih =>
    unfold dedup
    by_cases h : a ∈ l
    · rw [if_pos h, ih, List.mem_cons]
      constructor
      · exact Or.inr
      · rintro (rfl | h') <;> assumption
    · rw [if_neg h, List.mem_cons, List.mem_cons, ih]

theorem nodup_dedup (l : List Pt) : (dedup l).Nodup := by
  induction l with
  | nil => simp [dedup]
  | cons a l ih =>
    unfold dedup
    by_cases h : a ∈ l
    · rw [if_pos h]; exact ih
    · rw [if_neg h]
      exact List.nodup_cons.mpr ⟨fun hc => h ((mem_dedup a l).mp hc), ih⟩

theorem mem_insertBy (a p x : Pt) (l : List Pt) : x ∈ insertBy a p l ↔ x = p ∨ x ∈ l := by
  induction l with
  | nil => simp [insertBy]
  | cons y l ih =>
    unfold insertBy
    split_ifs
    · simp
    · rw [List.mem_cons, ih, List.mem_cons]
      constructor
      · rintro (h | h | h)
        · exact Or.inr (Or.inl h)
        · exact Or.inl h
        · exact Or.inr (Or.inr h)
      · rintro (h | h | h)
        · exact Or.inr (Or.inl h)
        · exact Or.inl h
        · exact Or.inr (Or.inr h)

theorem mem_sortFrom (a x : Pt) (l : List Pt) : x ∈ sortFrom a l ↔ x ∈ l := by
  induction l with
  | nil => simp [sortFrom]
  | cons y l ih => unfold sortFrom; rw [mem_insertBy, ih, List.mem_cons]

theorem nodup_insertBy (a p : Pt) (l : List Pt) (hp : p ∉ l) (hl : l.Nodup) : (insertBy a p l).Nodup := by
  induction l with
  | nil => simp [insertBy]
  | cons y l ih =>
    unfold insertBy
    split_ifs
    · exact List.nodup_cons.mpr ⟨hp, hl⟩
    · have hy := List.nodup_cons.mp hl
      refine List.nodup_cons.mpr ⟨?_, ih (fun h => hp (List.mem_cons_of_mem _ h)) hy.2⟩
      rw [mem_insertBy]
      rintro (h | h)
      · exact hp (h ▸ List.mem_cons_self)
      · exact hy.1 h

theorem nodup_sortFrom (a : Pt) (l : List Pt) (hl : l.Nodup) : (sortFrom a l).Nodup := by
  induction l with
  | nil => simp [sortFrom]
  | cons y l ih =>
    unfold sortFrom
    have hy := List.nodup_cons.mp hl
    exact nodup_insertBy a y _ (fun h => hy.1 ((mem_sortFrom a y l).mp h)) (ih hy.2)

theorem pairwise_insertBy (a p : Pt) (l : List Pt)
    (hl : l.Pairwise (fun x y => dist2 x a ≤ dist2 y a)) :
    (insertBy a p l).Pairwise (fun x y => dist2 x a ≤ dist2 y a) := by
  induction l with
  | nil => simp [insertBy]
  | cons y l ih =>
    unfold insertBy
    have hy := List.pairwise_cons.mp hl
    split_ifs with hc
    · refine List.pairwise_cons.mpr ⟨?_, hl⟩
      intro z hz
      rcases List.mem_cons.mp hz with rfl | hz
      · exact hc
      · exact le_trans hc (hy.1 z hz)
    · refine List.pairwise_cons.mpr ⟨?_, ih hy.2⟩
      intro z hz
      rcases (mem_insertBy a p z l).mp hz with rfl | hz
      · exact le_of_lt (not_le.mp hc)
      · exact hy.1 z hz

theorem pairwise_sortFrom (a : Pt) (l : List Pt) :
    (sortFrom a l).Pairwise (fun x y => dist2 x a ≤ dist2 y a) := by
  induction l with
  | nil => simp [sortFrom]
  | cons y l ih => unfold sortFrom; exact pairwise_insertBy a y _ ih

theorem consec_split {l : List Pt} {u v : Pt} (h : (u, v) ∈ consec l) :
    ∃ pre post, l = pre ++ u :: v :: post := by
  induction l with
  | nil => simp [consec] at h
  | cons p l ih =>
    cases l with
    | nil => simp [consec] at h
    | cons q r =>
      simp only [consec, List.mem_cons] at h
      rcases h with h | h
      · obtain ⟨rfl, rfl⟩ := Prod.mk.inj h
        exact ⟨[], r, rfl⟩
      · obtain ⟨pre, post, e⟩ := ih h
        exact ⟨p :: pre, post, by rw [e]; rfl⟩

theorem consec_mem {l : List Pt} {u v : Pt} (h : (u, v) ∈ consec l) : u ∈ l ∧ v ∈ l := by
  obtain ⟨pre, post, rfl⟩ := consec_split h
  simp

theorem consec_ne {l : List Pt} (hl : l.Nodup) {u v : Pt} (h : (u, v) ∈ consec l) : u ≠ v := by
  obtain ⟨pre, post, rfl⟩ := consec_split h
  have := (List.nodup_append.mp hl).2.1
  have := (List.nodup_cons.mp this).1
  intro e; apply this; rw [e]; exact List.mem_cons_self

theorem consec_sorted {a : Pt} {l : List Pt} (hs : l.Pairwise (fun x y => dist2 x a ≤ dist2 y a))
    {u v x : Pt} (he : (u, v) ∈ consec l) (hx : x ∈ l) :
    dist2 u a ≤ dist2 v a ∧ (dist2 x a ≤ dist2 u a ∨ dist2 v a ≤ dist2 x a) := by
  obtain ⟨pre, post, rfl⟩ := consec_split he
  rw [List.pairwise_append] at hs
  obtain ⟨_, h2, h3⟩ := hs
  have h4 := List.pairwise_cons.mp h2
  have h5 := List.pairwise_cons.mp h4.2
  refine ⟨h4.1 v List.mem_cons_self, ?_⟩
  rcases List.mem_append.mp hx with hx | hx
  · left; exact h3 x hx u List.mem_cons_self
  · rcases List.mem_cons.mp hx with rfl | hx
    · left; exact le_refl _
    · rcases List.mem_cons.mp hx with rfl | hx
      · right; exact le_refl _
      · right; exact h5.1 x hx

/-- discrete intermediate value: a list with at least two entries either stays strictly on one side
    of the level `k`, or has a consecutive pair straddling it -/
theorem ivt (c : Pt → Rat) (k : Rat) : ∀ l : List Pt, 2 ≤ l.length →
    (∀ x ∈ l, c x < k) ∨ (∀ x ∈ l, k < c x) ∨ ∃ e ∈ consec l, Btw (c e.1) (c e.2) k := by
  intro l
  induction l with
  | nil => intro h; simp at h
  | cons p l ih =>
    intro hlen
    cases l with
    | nil => simp at hlen
    | cons q r =>
      have base : (c p < k ∧ c q < k) ∨ (k < c p ∧ k < c q) ∨ Btw (c p) (c q) k := by
        unfold Btw; grind
      cases r with
      | nil =>
        rcases base with h | h | h
        · left; intro x hx; simp at hx; rcases hx with rfl | rfl <;> [exact h.1; exact h.2]
        · right; left; intro x hx; simp at hx; rcases hx with rfl | rfl <;> [exact h.1; exact h.2]
        · right; right; exact ⟨(p, q), by simp [consec], h⟩
      | cons r1 r2 =>
        have ih' := ih (by simp)
        rcases ih' with h | h | ⟨e, he, hb⟩
        · rcases base with hb | hb | hb
          · left; intro x hx
            rcases List.mem_cons.mp hx with rfl | hx
            · exact hb.1
            · exact h x hx
          · exfalso; have := h q List.mem_cons_self; linarith [hb.2]
          · right; right; exact ⟨(p, q), by simp [consec], hb⟩
        · rcases base with hb | hb | hb
          · exfalso; have := h q List.mem_cons_self; linarith [hb.2]
          · right; left; intro x hx
            rcases List.mem_cons.mp hx with rfl | hx
            · exact hb.1
            · exact h x hx
          · right; right; exact ⟨(p, q), by simp [consec], hb⟩
        · right; right
          refine ⟨e, ?_, hb⟩
          show e ∈ consec (p :: q :: r1 :: r2)
          rw [consec]; exact List.mem_cons_of_mem _ he


/-! ### split points and pieces of one parent -/

theorem mem_splitPts {segs : List Seg} {s : Seg} {x : Pt} :
    x ∈ splitPts segs s ↔ x = s.a ∨ x = s.b ∨ ∃ u ∈ segs, x ∈ inter s u := by
  unfold splitPts
  rw [mem_dedup, List.mem_cons, List.mem_cons, List.mem_flatMap]

theorem splitPts_onSeg {segs : List Seg} {s : Seg} (hs : s.nondeg) {x : Pt}
    (hx : x ∈ splitPts segs s) : OnSeg s.a s.b x := by
  rcases mem_splitPts.mp hx with rfl | rfl | ⟨u, _, hu⟩
  · exact onSeg_left _ _
  · exact onSeg_right _ _
  · exact (inter_sound' hs hu).1

theorem dist2_along (a d : Pt) (t : Rat) :
    dist2 (along a d t) a = t * t * (d.1 * d.1 + d.2 * d.2) := by
  simp only [dist2, along_fst, along_snd]; ring

theorem sq_mono {x y D : Rat} (_hx : 0 ≤ x) (hy : 0 ≤ y) (hD : 0 < D) (h : x * x * D ≤ y * y * D) :
    x ≤ y := by
  by_contra hc
  have hc := not_le.mp hc
  have : 0 < (x - y) * (x + y) * D := mul_pos (mul_pos (by linarith) (by linarith)) hD
  nlinarith

theorem normSq_pos {d : Pt} (hd : d.1 ≠ 0 ∨ d.2 ≠ 0) : 0 < d.1 * d.1 + d.2 * d.2 := by
  rcases hd with h | h
  · have := mul_self_pos.mpr h; nlinarith [mul_self_nonneg d.2]
  · have := mul_self_pos.mpr h; nlinarith [mul_self_nonneg d.1]

theorem pieces_mem {segs : List Seg} {s : Seg} {u v : Pt} (he : (u, v) ∈ pieces segs s) :
    u ∈ splitPts segs s ∧ v ∈ splitPts segs s := by
  have he0 : (u, v) ∈ consec (sortFrom s.a (splitPts segs s)) := he
  have hm := consec_mem he0
  exact ⟨(mem_sortFrom _ _ _).mp hm.1, (mem_sortFrom _ _ _).mp hm.2⟩

theorem pieces_ne {segs : List Seg} {s : Seg} {u v : Pt} (he : (u, v) ∈ pieces segs s) : u ≠ v := by
  have he0 : (u, v) ∈ consec (sortFrom s.a (splitPts segs s)) := he
  exact consec_ne (nodup_sortFrom _ _ (nodup_dedup _)) he0

/-- key lemma: no split point of the parent lies strictly inside one of its pieces -/
theorem piece_no_interior {segs : List Seg} {s : Seg} (hs : s.nondeg) {u v x : Pt}
    (he : (u, v) ∈ pieces segs s) (hx : x ∈ splitPts segs s) (hb : OnSeg u v x) : x = u ∨ x = v := by
  have hd := d_ne_zero hs
  have hD := normSq_pos hd
  have he0 : (u, v) ∈ consec (sortFrom s.a (splitPts segs s)) := he
  have hmem := pieces_mem he
  have hu := splitPts_onSeg hs hmem.1
  have hv := splitPts_onSeg hs hmem.2
  have hxs := splitPts_onSeg hs hx
  obtain ⟨hle, hcase⟩ := consec_sorted (pairwise_sortFrom s.a _) he0 ((mem_sortFrom _ _ _).mpr hx)
  obtain ⟨xu, u0, u1, rfl⟩ := (onSeg_iff_along s u).mp hu
  obtain ⟨xv, v0, v1, rfl⟩ := (onSeg_iff_along s v).mp hv
  obtain ⟨xx, x0, x1, rfl⟩ := (onSeg_iff_along s x).mp hxs
  have hbt := (onSeg_along_iff hd xu xv xx).mp hb
  rw [dist2_along, dist2_along] at hle
  have huv := sq_mono u0 v0 hD hle
  rcases hcase with hc | hc
  · rw [dist2_along, dist2_along] at hc
    have := sq_mono x0 u0 hD hc
    left; congr 1; rcases hbt with h | h <;> linarith [h.1, h.2]
  · rw [dist2_along, dist2_along] at hc
    have := sq_mono v0 x0 hD hc
    right; congr 1; rcases hbt with h | h <;> linarith [h.1, h.2]

theorem two_le_length {l : List Pt} {x y : Pt} (hx : x ∈ l) (hy : y ∈ l) (h : x ≠ y) : 2 ≤ l.length := by
  cases l with
  | nil => cases hx
  | cons p l =>
    cases l with
    | nil =>
      simp at hx hy; exact absurd (hx.trans hy.symm) h
    | cons q r => simp

theorem btw_scale {x y z D : Rat} (hD : 0 < D) (h : Btw (x * D) (y * D) (z * D)) : Btw x y z := by
  rcases h with ⟨h1, h2⟩ | ⟨h1, h2⟩
  · exact Or.inl ⟨le_of_mul_le_mul_right h1 hD, le_of_mul_le_mul_right h2 hD⟩
  · exact Or.inr ⟨le_of_mul_le_mul_right h1 hD, le_of_mul_le_mul_right h2 hD⟩

/-- the pieces of a parent cover it -/
theorem pieces_cover {segs : List Seg} {s : Seg} (hs : s.nondeg) {q : Pt} (hq : OnSeg s.a s.b q) :
    ∃ e ∈ pieces segs s, OnSeg e.1 e.2 q := by
  have hd := d_ne_zero hs
  have hD := normSq_pos hd
  have hc : ∀ t : Rat, (fun p : Pt => (p.1 - s.a.1) * s.d.1 + (p.2 - s.a.2) * s.d.2) (along s.a s.d t)
      = t * (s.d.1 * s.d.1 + s.d.2 * s.d.2) := by
    intro t; simp only [along_fst, along_snd]; ring
  generalize hcdef : (fun p : Pt => (p.1 - s.a.1) * s.d.1 + (p.2 - s.a.2) * s.d.2) = c at hc
  obtain ⟨z, z0, z1, rfl⟩ := (onSeg_iff_along s q).mp hq
  have ha : s.a ∈ sortFrom s.a (splitPts segs s) :=
    (mem_sortFrom _ _ _).mpr (mem_splitPts.mpr (Or.inl rfl))
  have hb : s.b ∈ sortFrom s.a (splitPts segs s) :=
    (mem_sortFrom _ _ _).mpr (mem_splitPts.mpr (Or.inr (Or.inl rfl)))
  have hlen := two_le_length ha hb hs
  have ca : c s.a = 0 := by
    have := hc 0; rw [along_zero] at this; rw [this]; ring
  have cb : c s.b = s.d.1 * s.d.1 + s.d.2 * s.d.2 := by
    have := hc 1; rw [along_one] at this; rw [this]; ring
  rcases ivt c (c (along s.a s.d z)) _ hlen with h | h | ⟨e, he, hbt⟩
  · exfalso
    have := h s.b hb
    rw [cb, hc] at this
    nlinarith
  · exfalso
    have := h s.a ha
    rw [ca, hc] at this
    nlinarith
  · refine ⟨e, he, ?_⟩
    have hm := pieces_mem (u := e.1) (v := e.2) he
    obtain ⟨xu, u0, u1, hu⟩ := (onSeg_iff_along s e.1).mp (splitPts_onSeg hs hm.1)
    obtain ⟨xv, v0, v1, hv⟩ := (onSeg_iff_along s e.2).mp (splitPts_onSeg hs hm.2)
    rw [hu, hv] at hbt ⊢
    rw [hc, hc, hc] at hbt
    exact (onSeg_along_iff hd xu xv z).mpr (btw_scale hD hbt)

/-- inside an overlap, collinear parents have the same split points -/
theorem splitPts_transfer {segs : List Seg} (hall : ∀ u ∈ segs, u.nondeg) {s t : Seg}
    (hs : s ∈ segs) (ht : t ∈ segs) (hc : Col s t) {x : Pt} (hx : x ∈ splitPts segs s)
    (hxt : OnSeg t.a t.b x) : x ∈ splitPts segs t := by
  have hsn := hall s hs
  have htn := hall t ht
  have hxs := splitPts_onSeg hsn hx
  have hts : Col t s := Col.symm' hsn hc
  have endA : s.a = x → x ∈ splitPts segs t := fun e =>
    mem_splitPts.mpr (Or.inr (Or.inr ⟨s, hs,
      inter_col_endpoint htn hts (Or.inr (Or.inr (Or.inl e.symm))) hxt hxs⟩))
  have endB : s.b = x → x ∈ splitPts segs t := fun e =>
    mem_splitPts.mpr (Or.inr (Or.inr ⟨s, hs,
      inter_col_endpoint htn hts (Or.inr (Or.inr (Or.inr e.symm))) hxt hxs⟩))
  rcases mem_splitPts.mp hx with e | e | ⟨u, hu, hxu⟩
  · exact endA e.symm
  · exact endB e.symm
  · have hun := hall u hu
    have hxu' := (inter_sound' hsn hxu).2
    by_cases hpar : cross s.d u.d = 0
    · obtain ⟨hcu, hend⟩ := inter_par_mem hsn hpar hxu
      have htu : Col t u := Col.trans' hsn hc hcu
      rcases hend with e | e | e | e
      · exact endA e.symm
      · exact endB e.symm
      · exact mem_splitPts.mpr (Or.inr (Or.inr ⟨u, hu,
          inter_col_endpoint htn htu (Or.inr (Or.inr (Or.inl e))) hxt hxu'⟩))
      · exact mem_splitPts.mpr (Or.inr (Or.inr ⟨u, hu,
          inter_col_endpoint htn htu (Or.inr (Or.inr (Or.inr e))) hxt hxu'⟩))
    · have := nonpar_transfer htn hc hpar
      exact mem_splitPts.mpr (Or.inr (Or.inr ⟨u, hu, by
        rw [inter_complete_nonpar this hxt hxu']; exact List.mem_singleton.mpr rfl⟩))

/-! ### the one-dimensional argument for two collinear parents -/

theorem oneD_ordered (SPs SPt : Rat → Prop) (x1 x2 y1 y2 z ts te : Rat)
    (hx1 : 0 ≤ x1 ∧ x1 ≤ 1) (hx2 : 0 ≤ x2 ∧ x2 ≤ 1) (hy1 : Btw ts te y1) (hy2 : Btw ts te y2)
    (hz1 : x1 < z) (hz2 : z < x2) (hz3 : y1 ≤ z) (hz4 : z ≤ y2)
    (sx1 : SPs x1) (sx2 : SPs x2) (sy1 : SPt y1) (sy2 : SPt y2)
    (KLs : ∀ w, SPs w → x1 ≤ w → w ≤ x2 → w = x1 ∨ w = x2)
    (KLt : ∀ w, SPt w → y1 ≤ w → w ≤ y2 → w = y1 ∨ w = y2)
    (K1 : ∀ w, SPs w → Btw ts te w → SPt w)
    (K2 : ∀ w, SPt w → 0 ≤ w → w ≤ 1 → SPs w) : x1 = y1 ∧ x2 = y2 := by
  have c1 : y1 ≤ x1 := by
    by_contra hc
    have hc := not_le.mp hc
    rcases KLs y1 (K2 y1 sy1 (by linarith [hx1.1]) (by linarith [hx2.2])) (le_of_lt hc) (by linarith)
      with h | h <;> linarith
  have c2 : x2 ≤ y2 := by
    by_contra hc
    have hc := not_le.mp hc
    rcases KLs y2 (K2 y2 sy2 (by linarith [hx1.1]) (by linarith [hx2.2])) (by linarith) (le_of_lt hc)
      with h | h <;> linarith
  have b1 : Btw ts te x1 := btw_convex hy1 hy2 (Or.inl ⟨c1, by linarith⟩)
  have b2 : Btw ts te x2 := btw_convex hy1 hy2 (Or.inl ⟨by linarith, c2⟩)
  constructor
  · rcases KLt x1 (K1 x1 sx1 b1) c1 (by linarith) with h | h <;> linarith
  · rcases KLt x2 (K1 x2 sx2 b2) (by linarith) c2 with h | h <;> linarith

theorem oneD (SPs SPt : Rat → Prop) (x1 x2 y1 y2 z ts te : Rat)
    (hx1 : 0 ≤ x1 ∧ x1 ≤ 1) (hx2 : 0 ≤ x2 ∧ x2 ≤ 1) (hy1 : Btw ts te y1) (hy2 : Btw ts te y2)
    (hzx : Btw x1 x2 z) (hzy : Btw y1 y2 z)
    (sx1 : SPs x1) (sx2 : SPs x2) (sy1 : SPt y1) (sy2 : SPt y2)
    (KLs : ∀ w, SPs w → Btw x1 x2 w → w = x1 ∨ w = x2)
    (KLt : ∀ w, SPt w → Btw y1 y2 w → w = y1 ∨ w = y2)
    (K1 : ∀ w, SPs w → Btw ts te w → SPt w)
    (K2 : ∀ w, SPt w → 0 ≤ w → w ≤ 1 → SPs w) :
    (z = x1 ∨ z = x2) ∨ ((x1 = y1 ∧ x2 = y2) ∨ (x1 = y2 ∧ x2 = y1)) := by
  by_cases e1 : z = x1
  · exact Or.inl (Or.inl e1)
  by_cases e2 : z = x2
  · exact Or.inl (Or.inr e2)
  right
  rcases hzx with ⟨a1, a2⟩ | ⟨a1, a2⟩ <;> rcases hzy with ⟨b1, b2⟩ | ⟨b1, b2⟩
  · left
    exact oneD_ordered SPs SPt x1 x2 y1 y2 z ts te hx1 hx2 hy1 hy2
      (lt_of_le_of_ne a1 (Ne.symm e1)) (lt_of_le_of_ne a2 e2) b1 b2 sx1 sx2 sy1 sy2
      (fun w hw h1 h2 => KLs w hw (Or.inl ⟨h1, h2⟩)) (fun w hw h1 h2 => KLt w hw (Or.inl ⟨h1, h2⟩)) K1 K2
  · right
    exact oneD_ordered SPs SPt x1 x2 y2 y1 z ts te hx1 hx2 hy2 hy1
      (lt_of_le_of_ne a1 (Ne.symm e1)) (lt_of_le_of_ne a2 e2) b1 b2 sx1 sx2 sy2 sy1
      (fun w hw h1 h2 => KLs w hw (Or.inl ⟨h1, h2⟩))
      (fun w hw h1 h2 => (KLt w hw (Or.inr ⟨h1, h2⟩)).symm) K1 K2
  · right
    have := oneD_ordered SPs SPt x2 x1 y1 y2 z ts te hx2 hx1 hy1 hy2
      (lt_of_le_of_ne a1 (Ne.symm e2)) (lt_of_le_of_ne a2 e1) b1 b2 sx2 sx1 sy1 sy2
      (fun w hw h1 h2 => (KLs w hw (Or.inr ⟨h1, h2⟩)).symm)
      (fun w hw h1 h2 => KLt w hw (Or.inl ⟨h1, h2⟩)) K1 K2
    exact ⟨this.2, this.1⟩
  · left
    have := oneD_ordered SPs SPt x2 x1 y2 y1 z ts te hx2 hx1 hy2 hy1
      (lt_of_le_of_ne a1 (Ne.symm e2)) (lt_of_le_of_ne a2 e1) b1 b2 sx2 sx1 sy2 sy1
      (fun w hw h1 h2 => (KLs w hw (Or.inr ⟨h1, h2⟩)).symm)
      (fun w hw h1 h2 => (KLt w hw (Or.inr ⟨h1, h2⟩)).symm) K1 K2
    exact ⟨this.2, this.1⟩

/-- pieces of two collinear parents: a common point strictly inside the first piece forces the two
    pieces to be the same edge -/
theorem col_meet {segs : List Seg} (hall : ∀ u ∈ segs, u.nondeg) {s t : Seg}
    (hs : s ∈ segs) (ht : t ∈ segs) (hc : Col s t) {u v u' v' q : Pt}
    (he : (u, v) ∈ pieces segs s) (he' : (u', v') ∈ pieces segs t)
    (hq : OnSeg u v q) (hq' : OnSeg u' v' q) :
    (q = u ∨ q = v) ∨ ((u = u' ∧ v = v') ∨ (u = v' ∧ v = u')) := by
  have hsn := hall s hs
  have htn := hall t ht
  have hd := d_ne_zero hsn
  have hts := Col.symm' hsn hc
  have hm := pieces_mem he
  have hm' := pieces_mem he'
  obtain ⟨ts, te, hta, htb, _⟩ := inter_of_col hsn hc
  obtain ⟨x1, x10, x11, hu⟩ := (onSeg_iff_along s u).mp (splitPts_onSeg hsn hm.1)
  obtain ⟨x2, x20, x21, hv⟩ := (onSeg_iff_along s v).mp (splitPts_onSeg hsn hm.2)
  have hu't := splitPts_onSeg htn hm'.1
  have hv't := splitPts_onSeg htn hm'.2
  rw [hta, htb] at hu't hv't
  obtain ⟨y1, hu', hy1⟩ := onSeg_of_along_ends hu't
  obtain ⟨y2, hv', hy2⟩ := onSeg_of_along_ends hv't
  subst hu hv hu' hv'
  obtain ⟨z, hz, hzx⟩ := onSeg_of_along_ends hq
  obtain ⟨z', hz', hzy⟩ := onSeg_of_along_ends hq'
  have hzz : z' = z := along_inj hd (hz'.symm.trans hz)
  subst hzz
  subst hz
  have R := oneD (fun w => along s.a s.d w ∈ splitPts segs s) (fun w => along s.a s.d w ∈ splitPts segs t)
    x1 x2 y1 y2 z' ts te ⟨x10, x11⟩ ⟨x20, x21⟩ hy1 hy2 hzx hzy hm.1 hm.2 hm'.1 hm'.2
    (fun w hw hb => by
      rcases piece_no_interior hsn he hw ((onSeg_along_iff hd x1 x2 w).mpr hb) with h | h
      · left; exact along_inj hd h
      · right; exact along_inj hd h)
    (fun w hw hb => by
      rcases piece_no_interior htn he' hw ((onSeg_along_iff hd y1 y2 w).mpr hb) with h | h
      · left; exact along_inj hd h
      · right; exact along_inj hd h)
    (fun w hw hb => splitPts_transfer hall hs ht hc hw (by
      rw [hta, htb]; exact (onSeg_along_iff hd ts te w).mpr hb))
    (fun w hw h0 h1 => splitPts_transfer hall ht hs hts hw ((onSeg_iff_along s _).mpr ⟨w, h0, h1, rfl⟩))
  rcases R with (h | h) | (⟨h1, h2⟩ | ⟨h1, h2⟩)
  · left; left; rw [h]
  · left; right; rw [h]
  · right; left; rw [h1, h2]; exact ⟨rfl, rfl⟩
  · right; right; rw [h1, h2]; exact ⟨rfl, rfl⟩

/-- two pieces (of any two parents) meet only in common end points, unless they are the same edge -/
theorem meet {segs : List Seg} (hall : ∀ u ∈ segs, u.nondeg) {s t : Seg}
    (hs : s ∈ segs) (ht : t ∈ segs) {u v u' v' q : Pt}
    (he : (u, v) ∈ pieces segs s) (he' : (u', v') ∈ pieces segs t)
    (hq : OnSeg u v q) (hq' : OnSeg u' v' q) :
    ((q = u ∨ q = v) ∧ (q = u' ∨ q = v')) ∨ ((u = u' ∧ v = v') ∨ (u = v' ∧ v = u')) := by
  have hsn := hall s hs
  have htn := hall t ht
  have hm := pieces_mem he
  have hm' := pieces_mem he'
  have hqs : OnSeg s.a s.b q := onSeg_trans (splitPts_onSeg hsn hm.1) (splitPts_onSeg hsn hm.2) hq
  have hqt : OnSeg t.a t.b q := onSeg_trans (splitPts_onSeg htn hm'.1) (splitPts_onSeg htn hm'.2) hq'
  by_cases hpar : cross s.d t.d = 0
  · have hc := col_of_par_common hpar hqs hqt
    have hts := Col.symm' hsn hc
    rcases col_meet hall hs ht hc he he' hq hq' with h1 | h1
    · rcases col_meet hall ht hs hts he' he hq' hq with h2 | h2
      · left; exact ⟨h1, h2⟩
      · right
        rcases h2 with ⟨a, b⟩ | ⟨a, b⟩
        · left; exact ⟨a.symm, b.symm⟩
        · right; exact ⟨b.symm, a.symm⟩
    · right; exact h1
  · left
    have i1 : q ∈ splitPts segs s := mem_splitPts.mpr (Or.inr (Or.inr ⟨t, ht, by
      rw [inter_complete_nonpar hpar hqs hqt]; exact List.mem_singleton.mpr rfl⟩))
    have hpar' : cross t.d s.d ≠ 0 := by
      rw [cross_swap]; exact neg_ne_zero.mpr hpar
    have i2 : q ∈ splitPts segs t := mem_splitPts.mpr (Or.inr (Or.inr ⟨s, hs, by
      rw [inter_complete_nonpar hpar' hqt hqs]; exact List.mem_singleton.mpr rfl⟩))
    exact ⟨piece_no_interior hsn he i1 hq, piece_no_interior htn he' i2 hq'⟩


/-! ### unordered edges, uniquification -/

/-- the same edge as an unordered pair of points (Prop form of `sameEdge`) -/
def Same (e f : OutEdge) : Prop := (e.p = f.p ∧ e.q = f.q) ∨ (e.p = f.q ∧ e.q = f.p)

theorem sameEdge_iff (e f : OutEdge) : sameEdge e f = true ↔ Same e f := by
  simp [sameEdge, Same]

theorem Same.refl (e : OutEdge) : Same e e := Or.inl ⟨rfl, rfl⟩

theorem Same.symm {e f : OutEdge} (h : Same e f) : Same f e := by
  rcases h with ⟨a, b⟩ | ⟨a, b⟩
  · exact Or.inl ⟨a.symm, b.symm⟩
  · exact Or.inr ⟨b.symm, a.symm⟩

theorem Same.trans {e f g : OutEdge} (h1 : Same e f) (h2 : Same f g) : Same e g := by
  rcases h1 with ⟨a, b⟩ | ⟨a, b⟩ <;> rcases h2 with ⟨c, d⟩ | ⟨c, d⟩
  · exact Or.inl ⟨a.trans c, b.trans d⟩
  · exact Or.inr ⟨a.trans c, b.trans d⟩
  · exact Or.inr ⟨a.trans d, b.trans c⟩
  · exact Or.inl ⟨a.trans d, b.trans c⟩

theorem sameEdge_false_iff (e f : OutEdge) : sameEdge e f = false ↔ ¬ Same e f := by
  rw [← sameEdge_iff]; simp

theorem dedupEdges_sublist (l : List OutEdge) : (dedupEdges l).Sublist l := by
  induction l with
  | nil => exact List.Sublist.slnil
  | cons e l ih =>
    unfold dedupEdges
    exact List.Sublist.cons_cons e (List.Sublist.trans List.filter_sublist ih)

theorem dedupEdges_rep (l : List OutEdge) : ∀ e ∈ l, ∃ f ∈ dedupEdges l, Same f e := by
  induction l with
  | nil => intro e h; cases h
  | cons e0 l ih =>
    intro e he
    unfold dedupEdges
    rcases List.mem_cons.mp he with rfl | he
    · exact ⟨e, List.mem_cons_self, Same.refl e⟩
    · obtain ⟨f, hf, hs⟩ := ih e he
      by_cases h0 : Same f e0
      · exact ⟨e0, List.mem_cons_self, (h0.symm).trans hs⟩
      · refine ⟨f, List.mem_cons_of_mem _ (List.mem_filter.mpr ⟨hf, ?_⟩), hs⟩
        rw [Bool.not_eq_true', sameEdge_false_iff]; exact h0

theorem dedupEdges_pairwise (l : List OutEdge) : (dedupEdges l).Pairwise (fun e f => ¬ Same e f) := by
  induction l with
  | nil => exact List.Pairwise.nil
  | cons e0 l ih =>
    unfold dedupEdges
    refine List.pairwise_cons.mpr ⟨?_, List.Pairwise.sublist List.filter_sublist ih⟩
    intro f hf
    have := (List.mem_filter.mp hf).2
    rw [Bool.not_eq_true', sameEdge_false_iff] at this
    exact fun h => this h.symm

/-! ### the stacked pieces -/

theorem mem_preFrom {all : List Seg} : ∀ (l : List Seg) (i : Nat) (e : OutEdge), e ∈ preFrom all i l →
    ∃ k s, l[k]? = some s ∧ e.parent = i + k ∧ e.tags = s.tags ∧ (e.p, e.q) ∈ pieces all s := by
  intro l
  induction l with
  | nil => intro i e h; simp [preFrom] at h
  | cons s rest ih =>
    intro i e h
    unfold preFrom at h
    rcases List.mem_append.mp h with h | h
    · obtain ⟨pc, hpc, rfl⟩ := List.mem_map.mp h
      exact ⟨0, s, by simp, by simp, rfl, hpc⟩
    · obtain ⟨k, s', hk, hp, ht, hpc⟩ := ih (i + 1) e h
      exact ⟨k + 1, s', by simpa using hk, by omega, ht, hpc⟩

theorem preFrom_of_piece {all : List Seg} : ∀ (l : List Seg) (i : Nat) (s : Seg) (pc : Pt × Pt),
    s ∈ l → pc ∈ pieces all s → ∃ e ∈ preFrom all i l, e.p = pc.1 ∧ e.q = pc.2 := by
  intro l
  induction l with
  | nil => intro i s pc hs; cases hs
  | cons s0 rest ih =>
    intro i s pc hs hpc
    unfold preFrom
    rcases List.mem_cons.mp hs with rfl | hs
    · exact ⟨⟨pc.1, pc.2, i, s.tags⟩, List.mem_append_left _ (List.mem_map.mpr ⟨pc, hpc, rfl⟩), rfl, rfl⟩
    · obtain ⟨e, he, h⟩ := ih (i + 1) s pc hs hpc
      exact ⟨e, List.mem_append_right _ he, h⟩

/-! ### prefilters -/

theorem onSeg_box {a b p : Pt} (h : OnSeg a b p) :
    rmin a.1 b.1 ≤ p.1 ∧ p.1 ≤ rmax a.1 b.1 ∧ rmin a.2 b.2 ≤ p.2 ∧ p.2 ≤ rmax a.2 b.2 := by
  obtain ⟨t, t0, t1, hx, hy⟩ := h
  have key : ∀ x y w : Rat, w = x + t * (y - x) → rmin x y ≤ w ∧ w ≤ rmax x y := by
    intro x y w hw
    unfold rmin rmax
    split_ifs with hxy
    · have := mul_nonneg t0 (sub_nonneg.mpr hxy)
      have h2 := mul_nonneg (sub_nonneg.mpr t1) (sub_nonneg.mpr hxy)
      constructor <;> nlinarith
    · have hxy' := le_of_lt (not_le.mp hxy)
      have := mul_nonneg t0 (sub_nonneg.mpr hxy')
      have h2 := mul_nonneg (sub_nonneg.mpr t1) (sub_nonneg.mpr hxy')
      constructor <;> nlinarith
  exact ⟨(key _ _ _ hx).1, (key _ _ _ hx).2, (key _ _ _ hy).1, (key _ _ _ hy).2⟩

theorem no_common_of_sameStrictSide {s t : Seg} (h : sameStrictSide s t) {q : Pt}
    (h1 : OnSeg s.a s.b q) (h2 : OnSeg t.a t.b q) : False := by
  obtain ⟨mu, m0, m1, hx, hy⟩ := h1
  obtain ⟨nu, n0, n1, hx', hy'⟩ := h2
  have e0 : s.d.1 * (q.2 - s.a.2) - s.d.2 * (q.1 - s.a.1) = 0 := by
    rw [hx, hy]; simp only [d_fst, d_snd]; ring
  have e1 : s.d.1 * (q.2 - s.a.2) - s.d.2 * (q.1 - s.a.1) =
      (1 - nu) * cross s.d (psub t.a s.a) + nu * cross s.d (psub t.b s.a) := by
    rw [hx', hy']; simp only [cross, psub_fst, psub_snd]; ring
  rcases h with ⟨c1, c2⟩ | ⟨c1, c2⟩
  · have a1 := mul_nonneg (sub_nonneg.mpr n1) (le_of_lt c1)
    rcases eq_or_lt_of_le n0 with hn | hn
    · subst hn; linarith
    · have := mul_pos hn c2; linarith
  · have a1 := mul_nonneg (sub_nonneg.mpr n1) (le_of_lt (neg_pos.mpr c1))
    rcases eq_or_lt_of_le n0 with hn | hn
    · subst hn; linarith
    · have := mul_pos hn (neg_pos.mpr c2); linarith

theorem overlap_hull {a d : Pt} {ts te z : Rat} (h0 : 0 ≤ z) (h1 : z ≤ 1) (hb : Btw ts te z) :
    ∃ z1 z2 : Rat, along a d z1 ∈ overlap a d ts te ∧ along a d z2 ∈ overlap a d ts te ∧
      z1 ≤ z ∧ z ≤ z2 := by
  unfold overlap
  have n1 : ¬ (ts < 0 ∧ te < 0) := by unfold Btw at hb; grind
  have n2 : ¬ (ts > 1 ∧ te > 1) := by unfold Btw at hb; grind
  rw [if_neg n1, if_neg n2]
  simp only
  have k1 : rmax (rmin ts te) 0 ≤ z := by unfold rmax rmin; unfold Btw at hb; grind
  have k2 : z ≤ rmin (rmax ts te) 1 := by unfold rmax rmin; unfold Btw at hb; grind
  split_ifs with hc
  · exact ⟨_, _, List.mem_singleton.mpr rfl, List.mem_singleton.mpr rfl, k1, by linarith⟩
  · exact ⟨_, _, List.mem_cons_self, List.mem_cons_of_mem _ (List.mem_singleton.mpr rfl), k1, k2⟩

/-! ### the uniquification keeps the first parent -/

theorem dedupEdges_first (l : List OutEdge) (hl : l.Pairwise (fun a b => a.parent ≤ b.parent)) :
    ∀ e ∈ dedupEdges l, ∀ g ∈ l, Same g e → e.parent ≤ g.parent := by
  induction l with
  | nil => intro e he; cases he
  | cons e0 l ih =>
    intro e he g hg hs
    have hp := List.pairwise_cons.mp hl
    unfold dedupEdges at he
    rcases List.mem_cons.mp he with rfl | he
    · rcases List.mem_cons.mp hg with rfl | hg
      · exact Nat.le_refl _
      · exact hp.1 g hg
    · have hf := List.mem_filter.mp he
      have hne : ¬ Same e e0 := by
        have := hf.2
        rw [Bool.not_eq_true', sameEdge_false_iff] at this
        exact this
      rcases List.mem_cons.mp hg with rfl | hg
      · exact absurd hs.symm hne
      · exact ih hp.2 e hf.1 g hg hs

theorem preFrom_parent_ge {all : List Seg} (l : List Seg) (i : Nat) : ∀ e ∈ preFrom all i l, i ≤ e.parent := by
  intro e he
  obtain ⟨k, _, _, hp, _, _⟩ := mem_preFrom l i e he
  omega

theorem pairwise_of_all {α : Type} {R : α → α → Prop} (h : ∀ a b, R a b) : ∀ l : List α, l.Pairwise R := by
  intro l
  induction l with
  | nil => exact List.Pairwise.nil
  | cons a l ih => exact List.pairwise_cons.mpr ⟨fun b _ => h a b, ih⟩

theorem preFrom_sorted {all : List Seg} : ∀ (l : List Seg) (i : Nat),
    (preFrom all i l).Pairwise (fun a b => a.parent ≤ b.parent) := by
  intro l
  induction l with
  | nil => intro i; simp [preFrom]
  | cons s rest ih =>
    intro i
    unfold preFrom
    rw [List.pairwise_append]
    refine ⟨?_, ih (i + 1), ?_⟩
    · rw [List.pairwise_map]
      exact pairwise_of_all (fun _ _ => Nat.le_refl _) _
    · intro a ha b hb
      obtain ⟨pc, _, rfl⟩ := List.mem_map.mp ha
      have := preFrom_parent_ge rest (i + 1) b hb
      simp only
      omega

/-! ### an edge contained in another parent is a piece of that parent too -/

theorem col_of_two_common {s t : Seg} {u v : Pt} (huv : u ≠ v)
    (h1 : OnSeg s.a s.b u) (h2 : OnSeg s.a s.b v) (h3 : OnSeg t.a t.b u) (h4 : OnSeg t.a t.b v) :
    Col s t := by
  obtain ⟨x1, _, _, hu1⟩ := (onSeg_iff_along s u).mp h1
  obtain ⟨x2, _, _, hv1⟩ := (onSeg_iff_along s v).mp h2
  obtain ⟨y1, _, _, hu2⟩ := (onSeg_iff_along t u).mp h3
  obtain ⟨y2, _, _, hv2⟩ := (onSeg_iff_along t v).mp h4
  have a1 : s.a.1 + x1 * s.d.1 = t.a.1 + y1 * t.d.1 := congrArg Prod.fst (hu1.symm.trans hu2)
  have a2 : s.a.2 + x1 * s.d.2 = t.a.2 + y1 * t.d.2 := congrArg Prod.snd (hu1.symm.trans hu2)
  have b1 : s.a.1 + x2 * s.d.1 = t.a.1 + y2 * t.d.1 := congrArg Prod.fst (hv1.symm.trans hv2)
  have b2 : s.a.2 + x2 * s.d.2 = t.a.2 + y2 * t.d.2 := congrArg Prod.snd (hv1.symm.trans hv2)
  have hne : x2 - x1 ≠ 0 := by
    intro h
    apply huv
    have : x1 = x2 := by linarith
    rw [hu1, hv1, this]
  have key : (x2 - x1) * cross s.d t.d = 0 := by
    simp only [cross]
    linear_combination t.d.2 * (b1 - a1) - t.d.1 * (b2 - a2)
  have hpar : cross s.d t.d = 0 := by
    rcases mul_eq_zero.mp key with h | h
    · exact absurd h hne
    · exact h
  exact col_of_par_common hpar h1 h3

theorem mem_split_two {l : List Pt} {u v : Pt} (hu : u ∈ l) (hv : v ∈ l) (h : u ≠ v) :
    (∃ pre mid post, l = pre ++ u :: (mid ++ v :: post)) ∨
    (∃ pre mid post, l = pre ++ v :: (mid ++ u :: post)) := by
  obtain ⟨a, b, rfl⟩ := List.append_of_mem hu
  rcases List.mem_append.mp hv with hv | hv
  · obtain ⟨c, d, rfl⟩ := List.append_of_mem hv
    right
    exact ⟨c, d, b, by simp⟩
  · rcases List.mem_cons.mp hv with hv | hv
    · exact absurd hv.symm h
    · obtain ⟨c, d, rfl⟩ := List.append_of_mem hv
      left
      exact ⟨a, c, d, rfl⟩

theorem consec_of_adjacent (pre post : List Pt) (u v : Pt) : (u, v) ∈ consec (pre ++ u :: v :: post) := by
  induction pre with
  | nil => simp [consec]
  | cons p pre ih =>
    cases pre with
    | nil => simp [consec]
    | cons q pre' =>
      show (u, v) ∈ consec (p :: q :: (pre' ++ u :: v :: post))
      rw [consec]
      exact List.mem_cons_of_mem _ ih

theorem adjacent_core {a : Pt} {L : List Pt} (hnd : L.Nodup)
    (hsort : L.Pairwise (fun x y => dist2 x a ≤ dist2 y a)) {u v : Pt} {pre mid post : List Pt}
    (hL : L = pre ++ u :: (mid ++ v :: post))
    (hno : ∀ x ∈ L, dist2 u a ≤ dist2 x a → dist2 x a ≤ dist2 v a → x = u ∨ x = v) :
    (u, v) ∈ consec L := by
  subst hL
  cases mid with
  | nil => exact consec_of_adjacent pre post u v
  | cons x m =>
    exfalso
    have h2 := (List.pairwise_append.mp hsort).2.1
    have h3 := List.pairwise_cons.mp h2
    have hux : dist2 u a ≤ dist2 x a := h3.1 x (by simp)
    have h4 := List.pairwise_cons.mp h3.2
    have hxv : dist2 x a ≤ dist2 v a := h4.1 v (by simp)
    have n2 := (List.nodup_append.mp hnd).2.1
    have n3 := List.nodup_cons.mp n2
    have n4 := List.nodup_cons.mp n3.2
    rcases hno x (by simp) hux hxv with h | h
    · exact n3.1 (by rw [← h]; simp)
    · exact n4.1 (by rw [h]; simp)

theorem between_of_sorted {s : Seg} (hs : s.nondeg) {u x v : Pt}
    (hu : OnSeg s.a s.b u) (hx : OnSeg s.a s.b x) (hv : OnSeg s.a s.b v)
    (h1 : dist2 u s.a ≤ dist2 x s.a) (h2 : dist2 x s.a ≤ dist2 v s.a) : OnSeg u v x := by
  have hd := d_ne_zero hs
  have hD := normSq_pos hd
  obtain ⟨xu, u0, _, rfl⟩ := (onSeg_iff_along s u).mp hu
  obtain ⟨xx, x0, _, rfl⟩ := (onSeg_iff_along s x).mp hx
  obtain ⟨xv, v0, _, rfl⟩ := (onSeg_iff_along s v).mp hv
  rw [dist2_along, dist2_along] at h1 h2
  exact (onSeg_along_iff hd xu xv xx).mpr (Or.inl ⟨sq_mono u0 x0 hD h1, sq_mono x0 v0 hD h2⟩)

theorem pieces_of_no_between {segs : List Seg} {s : Seg} (hs : s.nondeg) {u v : Pt}
    (hu : u ∈ splitPts segs s) (hv : v ∈ splitPts segs s) (huv : u ≠ v)
    (hno : ∀ x ∈ splitPts segs s, OnSeg u v x → x = u ∨ x = v) :
    (u, v) ∈ pieces segs s ∨ (v, u) ∈ pieces segs s := by
  have hnd := nodup_sortFrom s.a _ (nodup_dedup (s.a :: s.b :: segs.flatMap (inter s)))
  have hsort := pairwise_sortFrom s.a (splitPts segs s)
  have hus := splitPts_onSeg hs hu
  have hvs := splitPts_onSeg hs hv
  rcases mem_split_two ((mem_sortFrom s.a u _).mpr hu) ((mem_sortFrom s.a v _).mpr hv) huv with
    ⟨pre, mid, post, hL⟩ | ⟨pre, mid, post, hL⟩
  · left
    refine adjacent_core hnd hsort hL ?_
    intro x hx h1 h2
    have hxs := (mem_sortFrom s.a x _).mp hx
    exact hno x hxs (between_of_sorted hs hus (splitPts_onSeg hs hxs) hvs h1 h2)
  · right
    refine adjacent_core hnd hsort hL ?_
    intro x hx h1 h2
    have hxs := (mem_sortFrom s.a x _).mp hx
    exact (hno x hxs (onSeg_symm (between_of_sorted hs hvs (splitPts_onSeg hs hxs) hus h1 h2))).symm

theorem edge_is_piece_of_container {segs : List Seg} (hall : ∀ u ∈ segs, u.nondeg) {s t : Seg}
    (hs : s ∈ segs) (ht : t ∈ segs) {u v : Pt} (he : (u, v) ∈ pieces segs t)
    (h1 : OnSeg s.a s.b u) (h2 : OnSeg s.a s.b v) :
    (u, v) ∈ pieces segs s ∨ (v, u) ∈ pieces segs s := by
  have hsn := hall s hs
  have htn := hall t ht
  have hm := pieces_mem he
  have hut := splitPts_onSeg htn hm.1
  have hvt := splitPts_onSeg htn hm.2
  have huv := pieces_ne he
  have hc : Col t s := col_of_two_common huv hut hvt h1 h2
  have hcs : Col s t := Col.symm' htn hc
  have hus := splitPts_transfer hall ht hs hc hm.1 h1
  have hvs := splitPts_transfer hall ht hs hc hm.2 h2
  apply pieces_of_no_between hsn hus hvs huv
  intro x hx hb
  have hxt : OnSeg t.a t.b x := onSeg_trans hut hvt hb
  exact piece_no_interior htn he (splitPts_transfer hall hs ht hcs hx hxt) hb

theorem preFrom_of_piece_idx {all : List Seg} : ∀ (l : List Seg) (i k : Nat) (s : Seg) (pc : Pt × Pt),
    l[k]? = some s → pc ∈ pieces all s →
    ∃ e ∈ preFrom all i l, e.p = pc.1 ∧ e.q = pc.2 ∧ e.parent = i + k ∧ e.tags = s.tags := by
  intro l
  induction l with
  | nil => intro i k s pc hk; simp at hk
  | cons s0 rest ih =>
    intro i k s pc hk hpc
    unfold preFrom
    cases k with
    | zero =>
      simp at hk
      subst hk
      exact ⟨⟨pc.1, pc.2, i, s0.tags⟩, List.mem_append_left _ (List.mem_map.mpr ⟨pc, hpc, rfl⟩),
        rfl, rfl, rfl, rfl⟩
    | succ k =>
      have hk' : rest[k]? = some s := by simpa using hk
      obtain ⟨e, he, a, b, c, d⟩ := ih (i + 1) k s pc hk' hpc
      exact ⟨e, List.mem_append_right _ he, a, b, by omega, d⟩

/-! ### candidate pairs of the bounding-box prefilter -/
theorem boxesOverlapB_iff (s t : Seg) : boxesOverlapB s t = true ↔ boxesOverlap s t := by
  simp [boxesOverlapB, boxesOverlap, and_assoc]

theorem mem_pairsWith (i : Nat) (s : Seg) : ∀ (l : List Seg) (j k : Nat) (t : Seg),
    l[k]? = some t → boxesOverlapB s t = true → (i, j + k) ∈ pairsWith i s j l := by
  intro l
  induction l with
  | nil => intro j k t hk; simp at hk
  | cons t0 rest ih =>
    intro j k t hk hb
    unfold pairsWith
    cases k with
    | zero =>
      simp at hk
      subst hk
      rw [if_pos hb]
      exact List.mem_cons_self
    | succ k =>
      have hk' : rest[k]? = some t := by simpa using hk
      have := ih (j + 1) k t hk' hb
      have e : j + 1 + k = j + (k + 1) := by omega
      rw [e] at this
      split_ifs
      · exact List.mem_cons_of_mem _ this
      · exact this

theorem mem_pairsFrom : ∀ (l : List Seg) (i0 a b : Nat) (s t : Seg),
    l[a]? = some s → l[b]? = some t → a < b → boxesOverlapB s t = true →
    (i0 + a, i0 + b) ∈ pairsFrom i0 l := by
  intro l
  induction l with
  | nil => intro i0 a b s t ha; simp at ha
  | cons s0 rest ih =>
    intro i0 a b s t ha hb hab hov
    unfold pairsFrom
    cases b with
    | zero => omega
    | succ b =>
      have hb' : rest[b]? = some t := by simpa using hb
      cases a with
      | zero =>
        simp at ha
        subst ha
        have := mem_pairsWith i0 s0 rest (i0 + 1) b t hb' hov
        have e : i0 + 1 + b = i0 + (b + 1) := by omega
        rw [e] at this
        exact List.mem_append_left _ this
      | succ a =>
        have ha' : rest[a]? = some s := by simpa using ha
        have := ih (i0 + 1) a b s t ha' hb' (by omega) hov
        have e1 : i0 + 1 + a = i0 + (a + 1) := by omega
        have e2 : i0 + 1 + b = i0 + (b + 1) := by omega
        rw [e1, e2] at this
        exact List.mem_append_right _ this

/-! ### the early-return branch (no intersection found) -/
theorem pairwise_mem_ne {α : Type} {R : α → α → Prop} (hsym : ∀ a b, R a b → R b a) :
    ∀ {l : List α}, l.Pairwise R → ∀ a ∈ l, ∀ b ∈ l, a ≠ b → R a b := by
  intro l
  induction l with
  | nil => intro _ a ha; cases ha
  | cons x l ih =>
    intro h a ha b hb hne
    have hp := List.pairwise_cons.mp h
    rcases List.mem_cons.mp ha with ea | ha'
    · rcases List.mem_cons.mp hb with eb | hb'
      · exact absurd (ea.trans eb.symm) hne
      · rw [ea]; exact hp.1 b hb'
    · rcases List.mem_cons.mp hb with eb | hb'
      · rw [eb]; exact hsym _ _ (hp.1 a ha')
      · exact ih hp.2 a ha' b hb' hne

theorem splitPts_trivial {segs : List Seg} (hall : ∀ u ∈ segs, u.nondeg) (hno : NoIsect segs)
    {s : Seg} (hs : s ∈ segs) : ∀ x ∈ splitPts segs s, x = s.a ∨ x = s.b := by
  intro x hx
  rcases mem_splitPts.mp hx with h | h | ⟨u, hu, hxu⟩
  · exact Or.inl h
  · exact Or.inr h
  · by_cases e : s = u
    · subst e
      have hpar : cross s.d s.d = 0 := by simp only [cross]; ring
      obtain ⟨_, hend⟩ := inter_par_mem (hall s hs) hpar hxu
      rcases hend with h | h | h | h
      · exact Or.inl h
      · exact Or.inr h
      · exact Or.inl h
      · exact Or.inr h
    · have := (pairwise_mem_ne (fun a b h => ⟨h.2, h.1⟩) hno s hs u hu e).1
      rw [this] at hxu
      cases hxu

theorem dist2_self (a : Pt) : dist2 a a = 0 := by simp only [dist2]; ring

theorem dist2_pos {a b : Pt} (h : b ≠ a) : 0 < dist2 b a := by
  by_contra hc
  have hc := not_lt.mp hc
  simp only [dist2] at hc
  have h1 := mul_self_nonneg (b.1 - a.1)
  have h2 := mul_self_nonneg (b.2 - a.2)
  have e1 : (b.1 - a.1) * (b.1 - a.1) = 0 := by linarith
  have e2 : (b.2 - a.2) * (b.2 - a.2) = 0 := by linarith
  apply h
  apply pt_ext
  · have := mul_self_eq_zero.mp e1; linarith
  · have := mul_self_eq_zero.mp e2; linarith

theorem sortFrom_two {a b : Pt} (hab : a ≠ b) {L : List Pt} (hnd : L.Nodup) (ha : a ∈ L) (hb : b ∈ L)
    (hall : ∀ x ∈ L, x = a ∨ x = b) : sortFrom a L = [a, b] := by
  have hpos := dist2_pos (Ne.symm hab)
  have h0 := dist2_self a
  have s1 : sortFrom a [a, b] = [a, b] := by
    simp only [sortFrom, insertBy]
    rw [if_pos (by rw [h0]; exact le_of_lt hpos)]
  have s2 : sortFrom a [b, a] = [a, b] := by
    simp only [sortFrom, insertBy]
    rw [if_neg (by rw [h0]; exact not_le.mpr hpos)]
  match L, hnd, ha, hb, hall with
  | [], _, ha, _, _ => cases ha
  | [x], _, ha, hb, _ =>
    simp at ha hb
    exact absurd (ha.trans hb.symm) hab
  | [x, y], hnd, _, _, hall =>
    have hx := hall x (by simp)
    have hy := hall y (by simp)
    have hne : x ≠ y := by
      intro e; subst e; simp at hnd
    rcases hx with rfl | rfl <;> rcases hy with rfl | rfl
    · exact absurd rfl hne
    · exact s1
    · exact s2
    · exact absurd rfl hne
  | x :: y :: z :: r, hnd, _, _, hall =>
    exfalso
    have hx := hall x (by simp)
    have hy := hall y (by simp)
    have hz := hall z (by simp)
    have n1 := List.nodup_cons.mp hnd
    have n2 := List.nodup_cons.mp n1.2
    have xy : x ≠ y := fun e => n1.1 (by rw [e]; simp)
    have xz : x ≠ z := fun e => n1.1 (by rw [e]; simp)
    have yz : y ≠ z := fun e => n2.1 (by rw [e]; simp)
    rcases hx with rfl | rfl <;> rcases hy with rfl | rfl <;> rcases hz with rfl | rfl <;>
      first | exact xy rfl | exact xz rfl | exact yz rfl

theorem pieces_trivial {segs : List Seg} (hall : ∀ u ∈ segs, u.nondeg) (hno : NoIsect segs)
    {s : Seg} (hs : s ∈ segs) : pieces segs s = [(s.a, s.b)] := by
  unfold pieces
  rw [sortFrom_two (L := splitPts segs s) (hall s hs)
    (show (splitPts segs s).Nodup from nodup_dedup _) (mem_splitPts.mpr (Or.inl rfl))
    (mem_splitPts.mpr (Or.inr (Or.inl rfl))) (splitPts_trivial hall hno hs)]
  rfl

theorem preFrom_trivial {all : List Seg} : ∀ (l : List Seg) (i : Nat),
    (∀ s ∈ l, pieces all s = [(s.a, s.b)]) → preFrom all i l = trivFrom i l := by
  intro l
  induction l with
  | nil => intro i _; rfl
  | cons s rest ih =>
    intro i h
    unfold preFrom trivFrom
    rw [h s List.mem_cons_self, ih (i + 1) (fun t ht => h t (List.mem_cons_of_mem _ ht))]
    rfl

theorem dedupEdges_id : ∀ {l : List OutEdge}, l.Pairwise (fun e f => ¬ Same e f) → dedupEdges l = l := by
  intro l
  induction l with
  | nil => intro _; rfl
  | cons e l ih =>
    intro h
    have hp := List.pairwise_cons.mp h
    unfold dedupEdges
    rw [ih hp.2]
    congr 1
    apply List.filter_eq_self.mpr
    intro f hf
    rw [Bool.not_eq_true', sameEdge_false_iff]
    exact fun hs => hp.1 f hf hs.symm

theorem mem_trivFrom : ∀ (l : List Seg) (i : Nat) (f : OutEdge), f ∈ trivFrom i l →
    ∃ t ∈ l, f.p = t.a ∧ f.q = t.b := by
  intro l
  induction l with
  | nil => intro i f h; cases h
  | cons s rest ih =>
    intro i f h
    unfold trivFrom at h
    rcases List.mem_cons.mp h with rfl | h
    · exact ⟨s, List.mem_cons_self, rfl, rfl⟩
    · obtain ⟨t, ht, a, b⟩ := ih (i + 1) f h
      exact ⟨t, List.mem_cons_of_mem _ ht, a, b⟩

theorem trivFrom_pairwise : ∀ (l : List Seg) (i : Nat), (∀ s ∈ l, s.nondeg) →
    l.Pairwise (fun s t => inter s t = [] ∧ inter t s = []) →
    (trivFrom i l).Pairwise (fun e f => ¬ Same e f) := by
  intro l
  induction l with
  | nil => intro i _ _; exact List.Pairwise.nil
  | cons s rest ih =>
    intro i hnd h
    have hp := List.pairwise_cons.mp h
    unfold trivFrom
    refine List.pairwise_cons.mpr ⟨?_, ih (i + 1) (fun t ht => hnd t (List.mem_cons_of_mem _ ht)) hp.2⟩
    intro f hf hsame
    obtain ⟨t, ht, fa, fb⟩ := mem_trivFrom rest (i + 1) f hf
    have hsn := hnd s List.mem_cons_self
    have hon : OnSeg t.a t.b s.a := by
      rcases hsame with ⟨a, _⟩ | ⟨a, _⟩
      · have : s.a = t.a := a.trans fa
        rw [this]; exact onSeg_left _ _
      · have : s.a = t.b := a.trans fb
        rw [this]; exact onSeg_right _ _
    exact inter_nonempty_of_common hsn (onSeg_left _ _) hon (hp.1 t ht).1

end PorepyVerif.C29
