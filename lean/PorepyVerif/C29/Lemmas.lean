/-
C29 — helper lemmas: plane algebra over ℚ, soundness/completeness of `inter`, list lemmas for
`dedup` / `sortFrom` / `consec` / `dedupEdges`, and the one-dimensional argument for collinear parents.
-/
import PorepyVerif.C29.Model
import Mathlib.Algebra.Order.Field.Rat
import Mathlib.Algebra.Order.Field.Basic
import Mathlib.Tactic.Ring
import Mathlib.Tactic.Linarith
import Mathlib.Tactic.FieldSimp
import Mathlib.Tactic.LinearCombination

namespace PorepyVerif.C29

/-! ### points -/

theorem pt_ext {p q : Pt} (h1 : p.1 = q.1) (h2 : p.2 = q.2) : p = q := Prod.ext h1 h2

@[simp] theorem along_fst (a d : Pt) (t : Rat) : (along a d t).1 = a.1 + t * d.1 := rfl
@[simp] theorem along_snd (a d : Pt) (t : Rat) : (along a d t).2 = a.2 + t * d.2 := rfl
@[simp] theorem psub_fst (p q : Pt) : (psub p q).1 = p.1 - q.1 := rfl
@[simp] theorem psub_snd (p q : Pt) : (psub p q).2 = p.2 - q.2 := rfl
@[simp] theorem d_fst (s : Seg) : s.d.1 = s.b.1 - s.a.1 := rfl
@[simp] theorem d_snd (s : Seg) : s.d.2 = s.b.2 - s.a.2 := rfl

theorem along_zero (a d : Pt) : along a d 0 = a := by
  apply pt_ext <;> simp

theorem along_one (s : Seg) : along s.a s.d 1 = s.b := by
  apply pt_ext <;> simp

theorem d_ne_zero {s : Seg} (h : s.nondeg) : s.d.1 ≠ 0 ∨ s.d.2 ≠ 0 := by
  by_contra hc
  push Not at hc
  apply h
  apply pt_ext
  · have := hc.1; simp at this; linarith
  · have := hc.2; simp at this; linarith

theorem along_inj {a d : Pt} (hd : d.1 ≠ 0 ∨ d.2 ≠ 0) {t u : Rat} (h : along a d t = along a d u) : t = u := by
  have h1 : a.1 + t * d.1 = a.1 + u * d.1 := congrArg Prod.fst h
  have h2 : a.2 + t * d.2 = a.2 + u * d.2 := congrArg Prod.snd h
  rcases hd with hd | hd
  · have : (t - u) * d.1 = 0 := by linarith
    rcases mul_eq_zero.mp this with h | h
    · linarith
    · exact absurd h hd
  · have : (t - u) * d.2 = 0 := by linarith
    rcases mul_eq_zero.mp this with h | h
    · linarith
    · exact absurd h hd

theorem paramOn_along {a d : Pt} (hd : d.1 ≠ 0 ∨ d.2 ≠ 0) (t : Rat) : paramOn a d (along a d t) = t := by
  unfold paramOn
  by_cases h1 : d.1 ≠ 0
  · rw [if_pos h1]; simp; field_simp
  · rw [if_neg h1]
    have h2 : d.2 ≠ 0 := by
      rcases hd with h | h
      · exact absurd h h1
      · exact h
    simp; field_simp

/-- a point on the line through `a` with direction `d ≠ 0` has a parameter -/
theorem line_param {a d p : Pt} (hd : d.1 ≠ 0 ∨ d.2 ≠ 0) (h : cross (psub p a) d = 0) :
    ∃ t : Rat, p = along a d t := by
  have hD : d.1 * d.1 + d.2 * d.2 ≠ 0 := by
    rcases hd with h | h
    · have := mul_self_pos.mpr h; nlinarith [mul_self_nonneg d.2]
    · have := mul_self_pos.mpr h; nlinarith [mul_self_nonneg d.1]
  simp only [cross, psub_fst, psub_snd] at h
  refine ⟨((p.1 - a.1) * d.1 + (p.2 - a.2) * d.2) / (d.1 * d.1 + d.2 * d.2), ?_⟩
  have e1 : p.1 - a.1 = ((p.1 - a.1) * d.1 + (p.2 - a.2) * d.2) / (d.1 * d.1 + d.2 * d.2) * d.1 := by
    rw [div_mul_eq_mul_div, eq_div_iff hD]; linear_combination d.2 * h
  have e2 : p.2 - a.2 = ((p.1 - a.1) * d.1 + (p.2 - a.2) * d.2) / (d.1 * d.1 + d.2 * d.2) * d.2 := by
    rw [div_mul_eq_mul_div, eq_div_iff hD]; linear_combination (-d.1) * h
  apply pt_ext
  · simp only [along_fst]; linarith
  · simp only [along_snd]; linarith

/-! ### OnSeg -/

theorem onSeg_left (a b : Pt) : OnSeg a b a := ⟨0, le_refl _, by norm_num, by ring, by ring⟩
theorem onSeg_right (a b : Pt) : OnSeg a b b := ⟨1, by norm_num, le_refl _, by ring, by ring⟩

theorem onSeg_symm {a b q : Pt} (h : OnSeg a b q) : OnSeg b a q := by
  obtain ⟨t, h0, h1, hx, hy⟩ := h
  exact ⟨1 - t, by linarith, by linarith, by rw [hx]; ring, by rw [hy]; ring⟩

/-- `OnSeg` in terms of the parametrisation of a segment -/
theorem onSeg_iff_along (s : Seg) (q : Pt) :
    OnSeg s.a s.b q ↔ ∃ t : Rat, 0 ≤ t ∧ t ≤ 1 ∧ q = along s.a s.d t := by
  constructor
  · rintro ⟨t, h0, h1, hx, hy⟩
    exact ⟨t, h0, h1, pt_ext (by simpa using hx) (by simpa using hy)⟩
  · rintro ⟨t, h0, h1, rfl⟩
    exact ⟨t, h0, h1, by simp, by simp⟩

/-- points between two points of a parametrised line: parameter form -/
theorem onSeg_along_iff {a d : Pt} (hd : d.1 ≠ 0 ∨ d.2 ≠ 0) (x y z : Rat) :
    OnSeg (along a d x) (along a d y) (along a d z) ↔ ((x ≤ z ∧ z ≤ y) ∨ (y ≤ z ∧ z ≤ x)) := by
  constructor
  · rintro ⟨t, h0, h1, hx, hy⟩
    simp only [along_fst, along_snd] at hx hy
    have hz : z = x + t * (y - x) := by
      rcases hd with hd | hd
      · have : (z - (x + t * (y - x))) * d.1 = 0 := by linarith
        rcases mul_eq_zero.mp this with h | h
        · linarith
        · exact absurd h hd
      · have : (z - (x + t * (y - x))) * d.2 = 0 := by linarith
        rcases mul_eq_zero.mp this with h | h
        · linarith
        · exact absurd h hd
    rcases le_total x y with hxy | hxy
    · left
      have := mul_nonneg h0 (sub_nonneg.mpr hxy)
      have h2 : (1 - t) * (y - x) ≥ 0 := mul_nonneg (by linarith) (sub_nonneg.mpr hxy)
      constructor <;> nlinarith
    · right
      have := mul_nonneg h0 (sub_nonneg.mpr hxy)
      have h2 : (1 - t) * (x - y) ≥ 0 := mul_nonneg (by linarith) (sub_nonneg.mpr hxy)
      constructor <;> nlinarith
  · intro h
    by_cases hxy : x = y
    · subst hxy
      have : z = x := by rcases h with h | h <;> linarith
      subst this
      exact onSeg_left _ _
    · have hne : y - x ≠ 0 := sub_ne_zero.mpr (Ne.symm hxy)
      refine ⟨(z - x) / (y - x), ?_, ?_, ?_, ?_⟩
      · rcases h with h | h
        · exact div_nonneg (by linarith) (by linarith)
        · exact div_nonneg_of_nonpos (by linarith) (by linarith)
      · rcases h with h | h
        · rw [div_le_one (by rcases lt_or_gt_of_ne hxy with h' | h' <;> [linarith; linarith])]
          linarith
        · have hneg : y - x < 0 := by
            rcases lt_or_gt_of_ne hxy with h' | h'
            · linarith
            · linarith
          rw [div_le_one_of_neg hneg]; linarith
      · simp only [along_fst]; field_simp; ring
      · simp only [along_snd]; field_simp; ring



/-! ### the collinear tail `overlap` in parameter form -/

/-- `z` lies between `x` and `y` -/
def Btw (x y z : Rat) : Prop := (x ≤ z ∧ z ≤ y) ∨ (y ≤ z ∧ z ≤ x)

theorem Btw.symm {x y z : Rat} (h : Btw x y z) : Btw y x z := Or.symm h

theorem overlap_key (ts te : Rat) (hA : 0 ≤ ts ∨ 0 ≤ te) (hB : ts ≤ 1 ∨ te ≤ 1) (z : Rat)
    (hz : z = rmax (rmin ts te) 0 ∨ z = rmin (rmax ts te) 1) :
    0 ≤ z ∧ z ≤ 1 ∧ Btw ts te z ∧ (z = ts ∨ z = te ∨ z = 0 ∨ z = 1) := by
  unfold rmax rmin at hz
  unfold Btw
  grind

theorem overlap_mem {a d : Pt} {ts te : Rat} {p : Pt} (h : p ∈ overlap a d ts te) :
    ∃ z : Rat, p = along a d z ∧ 0 ≤ z ∧ z ≤ 1 ∧ Btw ts te z ∧ (z = ts ∨ z = te ∨ z = 0 ∨ z = 1) := by
  unfold overlap at h
  by_cases h1 : ts < 0 ∧ te < 0
  · rw [if_pos h1] at h; cases h
  rw [if_neg h1] at h
  by_cases h2 : ts > 1 ∧ te > 1
  · rw [if_pos h2] at h; cases h
  rw [if_neg h2] at h
  have hA : 0 ≤ ts ∨ 0 ≤ te := by
    by_contra hc; push Not at hc; exact h1 hc
  have hB : ts ≤ 1 ∨ te ≤ 1 := by
    by_contra hc; push Not at hc; exact h2 hc
  simp only at h
  split_ifs at h
  · rw [List.mem_singleton] at h
    exact ⟨_, h, overlap_key ts te hA hB _ (Or.inl rfl)⟩
  · rcases List.mem_cons.mp h with h | h
    · exact ⟨_, h, overlap_key ts te hA hB _ (Or.inl rfl)⟩
    · rw [List.mem_singleton] at h
      exact ⟨_, h, overlap_key ts te hA hB _ (Or.inr rfl)⟩

theorem overlap_key2 (ts te z : Rat) (h0 : 0 ≤ z) (h1 : z ≤ 1) (hb : Btw ts te z)
    (he : z = ts ∨ z = te ∨ z = 0 ∨ z = 1) :
    z = rmax (rmin ts te) 0 ∨ (z = rmin (rmax ts te) 1) := by
  unfold rmax rmin
  unfold Btw at hb
  grind

theorem overlap_key3 (ts te : Rat) (h : rmin (rmax ts te) 1 ≤ rmax (rmin ts te) 0)
    (hA : 0 ≤ ts ∨ 0 ≤ te) (hB : ts ≤ 1 ∨ te ≤ 1) :
    rmin (rmax ts te) 1 = rmax (rmin ts te) 0 := by
  unfold rmax rmin at *
  grind

/-- an end point of either segment (parameters `ts`, `te`, `0`, `1`) inside both parameter ranges is reported -/
theorem overlap_complete {a d : Pt} {ts te z : Rat} (h0 : 0 ≤ z) (h1 : z ≤ 1) (hb : Btw ts te z)
    (he : z = ts ∨ z = te ∨ z = 0 ∨ z = 1) : along a d z ∈ overlap a d ts te := by
  unfold overlap
  have hA : 0 ≤ ts ∨ 0 ≤ te := by unfold Btw at hb; grind
  have hB : ts ≤ 1 ∨ te ≤ 1 := by unfold Btw at hb; grind
  have n1 : ¬ (ts < 0 ∧ te < 0) := by grind
  have n2 : ¬ (ts > 1 ∧ te > 1) := by grind
  rw [if_neg n1, if_neg n2]
  simp only
  rcases overlap_key2 ts te z h0 h1 hb he with hz | hz
  · split_ifs
    · rw [← hz]; exact List.mem_singleton.mpr rfl
    · rw [← hz]; exact List.mem_cons_self
  · split_ifs with hc
    · rw [← overlap_key3 ts te hc hA hB, ← hz]; exact List.mem_singleton.mpr rfl
    · rw [← hz]; exact List.mem_cons_of_mem _ (List.mem_singleton.mpr rfl)

theorem overlap_nonempty {a d : Pt} {ts te z : Rat} (h0 : 0 ≤ z) (h1 : z ≤ 1) (hb : Btw ts te z) :
    overlap a d ts te ≠ [] := by
  unfold overlap
  have n1 : ¬ (ts < 0 ∧ te < 0) := by unfold Btw at hb; grind
  have n2 : ¬ (ts > 1 ∧ te > 1) := by unfold Btw at hb; grind
  rw [if_neg n1, if_neg n2]
  simp only
  split_ifs <;> simp

/-! ### `inter` -/

/-- the two segments lie on one line -/
def Col (s t : Seg) : Prop := cross s.d t.d = 0 ∧ cross (psub t.a s.a) s.d = 0

theorem inter_of_col {s t : Seg} (hs : s.nondeg) (h : Col s t) :
    ∃ ts te : Rat, t.a = along s.a s.d ts ∧ t.b = along s.a s.d te ∧
      inter s t = overlap s.a s.d ts te := by
  have hd := d_ne_zero hs
  obtain ⟨h1, h2⟩ := h
  obtain ⟨ts, hts⟩ := line_param (a := s.a) (p := t.a) hd h2
  have h3 : cross (psub t.b s.a) s.d = 0 := by
    simp only [cross, psub_fst, psub_snd, d_fst, d_snd] at h1 h2 ⊢
    linear_combination h2 - h1
  obtain ⟨te, hte⟩ := line_param (a := s.a) (p := t.b) hd h3
  refine ⟨ts, te, hts, hte, ?_⟩
  unfold inter
  simp only
  have e1 : s.d.1 * -t.d.2 - s.d.2 * -t.d.1 = 0 := by
    simp only [cross] at h1; linear_combination (-1 : Rat) * h1
  have e2 : (psub t.a s.a).1 * s.d.2 - (psub t.a s.a).2 * s.d.1 = 0 := by
    simpa only [cross] using h2
  rw [if_pos e1, if_pos e2]
  conv => lhs; rw [hts, hte]
  rw [paramOn_along hd, paramOn_along hd]

theorem inter_of_par_noncol {s t : Seg} (h1 : cross s.d t.d = 0) (h2 : cross (psub t.a s.a) s.d ≠ 0) :
    inter s t = [] := by
  unfold inter
  simp only
  have e1 : s.d.1 * -t.d.2 - s.d.2 * -t.d.1 = 0 := by
    simp only [cross] at h1; linear_combination (-1 : Rat) * h1
  have e2 : ¬ ((psub t.a s.a).1 * s.d.2 - (psub t.a s.a).2 * s.d.1 = 0) := by
    simpa only [cross] using h2
  rw [if_pos e1, if_neg e2]

/-- the Cramer parameters of the non-parallel branch -/
def cramer1 (s t : Seg) : Rat :=
  ((psub t.a s.a).1 * (-t.d.2) - (psub t.a s.a).2 * (-t.d.1)) / (s.d.1 * (-t.d.2) - s.d.2 * (-t.d.1))
def cramer2 (s t : Seg) : Rat :=
  (s.d.1 * (psub t.a s.a).2 - s.d.2 * (psub t.a s.a).1) / (s.d.1 * (-t.d.2) - s.d.2 * (-t.d.1))

theorem inter_of_nonpar {s t : Seg} (h : cross s.d t.d ≠ 0) :
    inter s t = if 0 ≤ cramer1 s t ∧ cramer1 s t ≤ 1 ∧ 0 ≤ cramer2 s t ∧ cramer2 s t ≤ 1
      then [along s.a s.d (cramer1 s t)] else [] := by
  unfold inter cramer1 cramer2
  simp only
  have e1 : ¬ (s.d.1 * -t.d.2 - s.d.2 * -t.d.1 = 0) := by
    intro hc; apply h; simp only [cross]; linear_combination (-1 : Rat) * hc
  rw [if_neg e1]

theorem cramer_point {s t : Seg} (h : cross s.d t.d ≠ 0) :
    along s.a s.d (cramer1 s t) = along t.a t.d (cramer2 s t) := by
  have e1 : (s.d.1 * -t.d.2 - s.d.2 * -t.d.1) ≠ 0 := by
    intro hc; apply h; simp only [cross]; linear_combination (-1 : Rat) * hc
  have hc1 : cramer1 s t * (s.d.1 * -t.d.2 - s.d.2 * -t.d.1) =
      (psub t.a s.a).1 * (-t.d.2) - (psub t.a s.a).2 * (-t.d.1) := by
    unfold cramer1; exact div_mul_cancel₀ _ e1
  have hc2 : cramer2 s t * (s.d.1 * -t.d.2 - s.d.2 * -t.d.1) =
      s.d.1 * (psub t.a s.a).2 - s.d.2 * (psub t.a s.a).1 := by
    unfold cramer2; exact div_mul_cancel₀ _ e1
  simp only [psub_fst, psub_snd] at hc1 hc2
  apply pt_ext
  · simp only [along_fst]
    have key : (s.d.1 * -t.d.2 - s.d.2 * -t.d.1) *
        ((s.a.1 + cramer1 s t * s.d.1) - (t.a.1 + cramer2 s t * t.d.1)) = 0 := by
      linear_combination s.d.1 * hc1 - t.d.1 * hc2
    rcases mul_eq_zero.mp key with k | k
    · exact absurd k e1
    · linarith
  · simp only [along_snd]
    have key : (s.d.1 * -t.d.2 - s.d.2 * -t.d.1) *
        ((s.a.2 + cramer1 s t * s.d.2) - (t.a.2 + cramer2 s t * t.d.2)) = 0 := by
      linear_combination s.d.2 * hc1 - t.d.2 * hc2
    rcases mul_eq_zero.mp key with k | k
    · exact absurd k e1
    · linarith

/-- uniqueness: a common point of two non-parallel lines has the Cramer parameters -/
theorem cramer_unique {s t : Seg} (h : cross s.d t.d ≠ 0) {mu nu : Rat}
    (hq : along s.a s.d mu = along t.a t.d nu) : mu = cramer1 s t ∧ nu = cramer2 s t := by
  have e1 : (s.d.1 * -t.d.2 - s.d.2 * -t.d.1) ≠ 0 := by
    intro hc; apply h; simp only [cross]; linear_combination (-1 : Rat) * hc
  have hx : s.a.1 + mu * s.d.1 = t.a.1 + nu * t.d.1 := congrArg Prod.fst hq
  have hy : s.a.2 + mu * s.d.2 = t.a.2 + nu * t.d.2 := congrArg Prod.snd hq
  unfold cramer1 cramer2
  simp only [psub_fst, psub_snd]
  constructor
  · rw [eq_div_iff e1]; linear_combination (-t.d.2) * hx + t.d.1 * hy
  · rw [eq_div_iff e1]; linear_combination (-s.d.2) * hx + s.d.1 * hy

end PorepyVerif.C29
