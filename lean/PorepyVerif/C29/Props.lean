/-
C29 — property theorems (statements only depend on Model.lean; helper lemmas in Lemmas.lean).

Property: for any set of 2-D segments, splitting at intersections returns edges that meet only at
shared end points, cover exactly the union of the input segments, each lie inside the input segment
they are mapped to with that segment's tags, and contain no duplicates.

All theorems about `split` hold for EVERY list of segments without zero-length members
(`AllNondeg`); coordinates are arbitrary rationals (so every binary64 input is covered, rounding is not).
-/
import PorepyVerif.C29.Lemmas

namespace PorepyVerif.C29

/-- hypothesis of the theorems about `split`: no zero-length input segment -/
def AllNondeg (segs : List Seg) : Prop := ∀ s ∈ segs, s.nondeg

instance (segs : List Seg) : Decidable (AllNondeg segs) :=
  inferInstanceAs (Decidable (∀ s ∈ segs, s.nondeg))

theorem mem_split_pre {segs : List Seg} {e : OutEdge} (h : e ∈ split segs) : e ∈ preEdges segs :=
  (dedupEdges_sublist _).subset h

/-! ### the pairwise intersection (`segments_2d`, exact) -/

/-- every reported point lies on both segments -/
theorem inter_sound {s t : Seg} (hs : s.nondeg) {p : Pt} (h : p ∈ inter s t) :
    OnSeg s.a s.b p ∧ OnSeg t.a t.b p := inter_sound' hs h

/-- every common point of the two segments lies between two reported points (the reported points
    span the whole intersection); for non-parallel segments the common point is the only report -/
theorem inter_complete {s t : Seg} (hs : s.nondeg) {q : Pt}
    (h1 : OnSeg s.a s.b q) (h2 : OnSeg t.a t.b q) :
    (∃ p1 ∈ inter s t, ∃ p2 ∈ inter s t, OnSeg p1 p2 q) ∧ (cross s.d t.d ≠ 0 → inter s t = [q]) := by
  refine ⟨?_, fun h => inter_complete_nonpar h h1 h2⟩
  by_cases hpar : cross s.d t.d = 0
  · have hc := col_of_par_common hpar h1 h2
    have hd := d_ne_zero hs
    obtain ⟨ts, te, hta, htb, hi⟩ := inter_of_col hs hc
    obtain ⟨mu, m0, m1, hq⟩ := (onSeg_iff_along s q).mp h1
    have hb : Btw ts te mu := by
      have h2' := h2
      rw [hta, htb, hq] at h2'
      exact (onSeg_along_iff hd ts te mu).mp h2'
    obtain ⟨z1, z2, i1, i2, l1, l2⟩ := overlap_hull (a := s.a) (d := s.d) m0 m1 hb
    rw [hi, hq]
    exact ⟨_, i1, _, i2, (onSeg_along_iff hd z1 z2 mu).mpr (Or.inl ⟨l1, l2⟩)⟩
  · rw [inter_complete_nonpar hpar h1 h2]
    exact ⟨q, List.mem_singleton.mpr rfl, q, List.mem_singleton.mpr rfl, onSeg_left q q⟩

/-! ### the two prefilters only discard pairs without a common point -/

/-- bounding-box prefilter: segments that intersect have overlapping closed bounding boxes
    (contrapositive: disjoint boxes ⇒ `segments_2d` would return `None`) -/
theorem prefilter_sound {s t : Seg} (hs : s.nondeg) (h : inter s t ≠ []) : boxesOverlap s t := by
  obtain ⟨p, hp⟩ := List.exists_mem_of_ne_nil _ h
  obtain ⟨h1, h2⟩ := inter_sound' hs hp
  obtain ⟨a1, a2, a3, a4⟩ := onSeg_box h1
  obtain ⟨b1, b2, b3, b4⟩ := onSeg_box h2
  exact ⟨le_trans a1 b2, le_trans b1 a2, le_trans a3 b4, le_trans b3 a4⟩

/-- cross-product side prefilter (exact form): if both end points of `t` are strictly on the same
    side of the line through `s`, there is no intersection -/
theorem side_prefilter_sound {s t : Seg} (hs : s.nondeg) (h : sameStrictSide s t) : inter s t = [] := by
  by_contra hne
  obtain ⟨p, hp⟩ := List.exists_mem_of_ne_nil _ hne
  obtain ⟨h1, h2⟩ := inter_sound' hs hp
  exact no_common_of_sameStrictSide h h1 h2

/-- the candidate pairs of the bounding-box prefilter contain every pair of input segments that
    intersect: restricting the calls of `segments_2d` to `boxPairs` loses no intersection point -/
theorem prefilter_pairs_complete (segs : List Seg) (i j : Nat) (s t : Seg)
    (hi : segs[i]? = some s) (hj : segs[j]? = some t) (hij : i < j) (hs : s.nondeg)
    (h : inter s t ≠ []) : (i, j) ∈ boxPairs segs := by
  have := mem_pairsFrom segs 0 i j s t hi hj hij ((boxesOverlapB_iff s t).mpr (prefilter_sound hs h))
  simpa [boxPairs] using this

/-! ### the subdivision -/

/-- every returned edge lies inside the input segment it is mapped to (`argsort`), carries that
    segment's tags, and has positive length -/
theorem split_inside_parent_with_tags (segs : List Seg) (hall : AllNondeg segs) :
    ∀ e ∈ split segs, ∃ s, segs[e.parent]? = some s ∧ e.tags = s.tags ∧
      OnSeg s.a s.b e.p ∧ OnSeg s.a s.b e.q ∧ e.p ≠ e.q ∧ ∀ q, OnSeg e.p e.q q → OnSeg s.a s.b q := by
  intro e he
  obtain ⟨k, s, hk, hp, ht, hpc⟩ := mem_preFrom segs 0 e (mem_split_pre he)
  have hs : s ∈ segs := List.mem_of_getElem? hk
  have hsn := hall s hs
  have hm := pieces_mem hpc
  have h1 := splitPts_onSeg hsn hm.1
  have h2 := splitPts_onSeg hsn hm.2
  exact ⟨s, by rw [hp]; simpa using hk, ht, h1, h2, pieces_ne hpc, fun q hq => onSeg_trans h1 h2 hq⟩

/-- the returned edges cover every input segment: each point of a parent lies on a returned edge
    that is itself contained in the parent.  Together with `split_inside_parent_with_tags` the union of
    the returned edges is exactly the union of the input segments. -/
theorem split_cover (segs : List Seg) (hall : AllNondeg segs) :
    ∀ s ∈ segs, ∀ q, OnSeg s.a s.b q →
      ∃ e ∈ split segs, OnSeg e.p e.q q ∧ OnSeg s.a s.b e.p ∧ OnSeg s.a s.b e.q := by
  intro s hs q hq
  have hsn := hall s hs
  obtain ⟨pc, hpc, hon⟩ := pieces_cover (segs := segs) hsn hq
  obtain ⟨e0, he0, e1, e2⟩ := preFrom_of_piece segs 0 s pc hs hpc
  obtain ⟨f, hf, hsame⟩ := dedupEdges_rep _ e0 he0
  have hm := pieces_mem (u := pc.1) (v := pc.2) hpc
  have h1 := splitPts_onSeg hsn hm.1
  have h2 := splitPts_onSeg hsn hm.2
  refine ⟨f, hf, ?_⟩
  rcases hsame with ⟨a, b⟩ | ⟨a, b⟩
  · rw [a, b, e1, e2]; exact ⟨hon, h1, h2⟩
  · rw [a, b, e1, e2]; exact ⟨onSeg_symm hon, h2, h1⟩

/-- no duplicates: two different returned edges are never the same unordered pair of points
    (`List.Pairwise` = for any two different positions of the list) -/
theorem split_nodup (segs : List Seg) :
    (split segs).Pairwise (fun e f => ¬ ((e.p = f.p ∧ e.q = f.q) ∨ (e.p = f.q ∧ e.q = f.p))) :=
  dedupEdges_pairwise _

/-- FULL non-crossing statement: two different returned edges meet only in points that are end
    points of both — for non-parallel parents (an interior crossing point would have been a split
    point of both), parallel parents (no common point), and collinear / overlapping / identical
    parents (inside the overlap both parents have the same split points). -/
theorem split_noncrossing (segs : List Seg) (hall : AllNondeg segs) :
    (split segs).Pairwise (fun e f => ∀ q, OnSeg e.p e.q q → OnSeg f.p f.q q →
      (q = e.p ∨ q = e.q) ∧ (q = f.p ∨ q = f.q)) := by
  refine List.Pairwise.imp_of_mem ?_ (dedupEdges_pairwise (preEdges segs))
  intro e f he hf hns q hq hq'
  obtain ⟨k, s, hk, _, _, hpc⟩ := mem_preFrom segs 0 e (mem_split_pre he)
  obtain ⟨k', t, hk', _, _, hpc'⟩ := mem_preFrom segs 0 f (mem_split_pre hf)
  rcases meet hall (List.mem_of_getElem? hk) (List.mem_of_getElem? hk') hpc hpc' hq hq' with h | h
  · exact h
  · exact absurd h hns

/-- `tag_info`: one entry per piece before uniquification; each entry carries the tags of the
    piece's parent and points to a returned edge that is the same unordered pair as the piece -/
theorem split_tag_info (segs : List Seg) :
    (tagInfo segs).length = (preEdges segs).length ∧
    ∀ x ∈ tagInfo segs, ∃ e ∈ preEdges segs, (∃ s, segs[e.parent]? = some s ∧ x.1 = s.tags) ∧
      ∃ f ∈ split segs, x.2 = some f ∧ ((f.p = e.p ∧ f.q = e.q) ∨ (f.p = e.q ∧ f.q = e.p)) := by
  constructor
  · simp [tagInfo]
  · intro x hx
    unfold tagInfo at hx
    obtain ⟨e, he, rfl⟩ := List.mem_map.mp hx
    obtain ⟨k, s, hk, hp, ht, _⟩ := mem_preFrom segs 0 e he
    refine ⟨e, he, ⟨s, by rw [hp]; simpa using hk, ht⟩, ?_⟩
    obtain ⟨f0, hf0, hs0⟩ := dedupEdges_rep _ e he
    cases hfind : (split segs).find? (fun f => sameEdge f e) with
    | none =>
      have := List.find?_eq_none.mp hfind f0 hf0
      exact absurd ((sameEdge_iff f0 e).mpr hs0) this
    | some f =>
      have hp : sameEdge f e = true := List.find?_some (p := fun f => sameEdge f e) hfind
      exact ⟨f, List.mem_of_find?_eq_some hfind, rfl, (sameEdge_iff f e).mp hp⟩

/-- the parent reported for a returned edge is the FIRST (lowest-index) input segment that has this
    edge among its pieces -/
theorem split_parent_is_first (segs : List Seg) :
    ∀ e ∈ split segs, ∀ g ∈ preEdges segs,
      ((g.p = e.p ∧ g.q = e.q) ∨ (g.p = e.q ∧ g.q = e.p)) → e.parent ≤ g.parent :=
  dedupEdges_first _ (preFrom_sorted segs 0)

/-- `tag_info` is complete: every input segment that contains a returned edge contributes a piece
    (before uniquification) that is this edge as an unordered pair, with that segment's index and tags -/
theorem split_tag_info_complete (segs : List Seg) (hall : AllNondeg segs) :
    ∀ e ∈ split segs, ∀ (i : Nat) (s : Seg), segs[i]? = some s →
      OnSeg s.a s.b e.p → OnSeg s.a s.b e.q →
      ∃ g ∈ preEdges segs, g.parent = i ∧ g.tags = s.tags ∧
        ((g.p = e.p ∧ g.q = e.q) ∨ (g.p = e.q ∧ g.q = e.p)) := by
  intro e he i s hi h1 h2
  obtain ⟨k, t, hk, _, _, hpc⟩ := mem_preFrom segs 0 e (mem_split_pre he)
  have hs := List.mem_of_getElem? hi
  have ht := List.mem_of_getElem? hk
  rcases edge_is_piece_of_container hall hs ht hpc h1 h2 with h | h
  · obtain ⟨g, hg, a, b, c, d⟩ := preFrom_of_piece_idx segs 0 i s (e.p, e.q) hi h
    exact ⟨g, hg, by omega, d, Or.inl ⟨a, b⟩⟩
  · obtain ⟨g, hg, a, b, c, d⟩ := preFrom_of_piece_idx segs 0 i s (e.q, e.p) hi h
    exact ⟨g, hg, by omega, d, Or.inr ⟨a, b⟩⟩

/-- the union of the returned edges is exactly the union of the input segments -/
theorem split_union_eq (segs : List Seg) (hall : AllNondeg segs) (q : Pt) :
    (∃ e ∈ split segs, OnSeg e.p e.q q) ↔ (∃ s ∈ segs, OnSeg s.a s.b q) := by
  constructor
  · rintro ⟨e, he, hq⟩
    obtain ⟨s, hk, _, _, _, _, hin⟩ := split_inside_parent_with_tags segs hall e he
    exact ⟨s, List.mem_of_getElem? hk, hin q hq⟩
  · rintro ⟨s, hs, hq⟩
    obtain ⟨e, he, h, _⟩ := split_cover segs hall s hs q hq
    exact ⟨e, he, h⟩

/-- the early-return branch is consistent with the general path: when no two different input
    segments have an intersection point, the general algorithm returns the input edges unchanged,
    in order, each mapped to itself (`argsort = arange`) — exactly what the code returns early -/
theorem split_no_intersection (segs : List Seg) (hall : AllNondeg segs) (hno : NoIsect segs) :
    split segs = trivFrom 0 segs := by
  have h1 : preEdges segs = trivFrom 0 segs :=
    preFrom_trivial segs 0 (fun s hs => pieces_trivial hall hno hs)
  unfold split
  rw [h1]
  exact dedupEdges_id (trivFrom_pairwise segs 0 hall hno)

/-! ### non-vacuity: concrete inputs -/

/-- an X-crossing with a fractional crossing point, a collinear overlap, a T-junction, a duplicate -/
def exSegs : List Seg :=
  [⟨(0, 0), (3, 1), [1]⟩, ⟨(0, 1), (3, 0), [2]⟩, ⟨(3, 1), (6, 2), [3]⟩, ⟨(-3, -1), (3, 1), [4]⟩,
   ⟨(6, 2), (6, 0), [5]⟩, ⟨(3, 0), (0, 1), [6]⟩]

example : AllNondeg exSegs := by decide +kernel

example : (split exSegs).map (fun e => (e.p, e.q, e.parent, e.tags)) =
    [((0, 0), (3/2, 1/2), 0, [1]), ((3/2, 1/2), (3, 1), 0, [1]),
     ((0, 1), (3/2, 1/2), 1, [2]), ((3/2, 1/2), (3, 0), 1, [2]),
     ((3, 1), (6, 2), 2, [3]), ((-3, -1), (0, 0), 3, [4]), ((6, 2), (6, 0), 4, [5])] := by
  decide +kernel

example : (tagInfo exSegs).map (fun x => (x.1, x.2.map (fun e => e.parent))) =
    [([1], some 0), ([1], some 0), ([2], some 1), ([2], some 1), ([3], some 2),
     ([4], some 3), ([4], some 0), ([4], some 0), ([5], some 4), ([6], some 1), ([6], some 1)] := by
  decide +kernel

/-- `inter` on the three kinds of pairs -/
example : inter ⟨(0, 0), (3, 1), []⟩ ⟨(0, 1), (3, 0), []⟩ = [(3/2, 1/2)] := by decide +kernel
example : inter ⟨(0, 0), (3, 1), []⟩ ⟨(-3, -1), (3/2, 1/2), []⟩ = [(0, 0), (3/2, 1/2)] := by decide +kernel
example : inter ⟨(0, 0), (3, 1), []⟩ ⟨(0, 1), (3, 2), []⟩ = [] := by decide +kernel

/-- the hypotheses of the prefilter theorems are satisfiable -/
example : inter ⟨(0, 0), (3, 1), []⟩ ⟨(0, 1), (3, 0), []⟩ ≠ [] := by decide +kernel
example : sameStrictSide ⟨(0, 0), (3, 1), []⟩ ⟨(0, 1), (3, 2), []⟩ := by
  unfold sameStrictSide; decide +kernel

/-- `split_tag_info_complete` on data: the returned edge (0,0)-(3/2,1/2) (parent 0) also lies in input
    segment 3 = (-3,-1)-(3,1); segment 3 contributes that piece with its own index and tags -/
example : ∃ g ∈ preEdges exSegs, g.parent = 3 ∧ g.tags = [4] ∧ g.p = ((0, 0) : Pt) ∧ g.q = ((3/2, 1/2) : Pt) := by
  decide +kernel

/-- `split_union_eq` on data: the crossing point lies on an input segment and on a returned edge -/
example : ∃ s ∈ exSegs, OnSeg s.a s.b ((3/2, 1/2) : Pt) :=
  ⟨⟨(0, 0), (3, 1), [1]⟩, by decide +kernel, 1/2, by decide +kernel, by decide +kernel,
    by decide +kernel, by decide +kernel⟩

/-- the candidate pairs on the example (every intersecting pair is among them) -/
example : boxPairs exSegs =
    [(0, 1), (0, 2), (0, 3), (0, 5), (1, 2), (1, 3), (1, 5), (2, 3), (2, 4), (2, 5), (3, 5)] := by decide +kernel

/-- hypothesis of `split_no_intersection` is satisfiable (two parallel segments and an isolated one) -/
example : NoIsect [⟨(0, 0), (2, 1), [1]⟩, ⟨(0, 1), (2, 2), [2]⟩, ⟨(5, 5), (6, 7), [3]⟩] := by
  decide +kernel

end PorepyVerif.C29
