import PorepyVerif.C29.Props
#print axioms PorepyVerif.C29.split_cover
#print axioms PorepyVerif.C29.split_inside_parent_with_tags
#print axioms PorepyVerif.C29.split_nodup
#print axioms PorepyVerif.C29.split_noncrossing
#print axioms PorepyVerif.C29.split_tag_info
#print axioms PorepyVerif.C29.split_parent_is_first
#print axioms PorepyVerif.C29.inter_sound
#print axioms PorepyVerif.C29.inter_complete
#print axioms PorepyVerif.C29.prefilter_sound
#print axioms PorepyVerif.C29.side_prefilter_sound
#print axioms PorepyVerif.C29.split_tag_info_complete
#print axioms PorepyVerif.C29.split_union_eq
#print axioms PorepyVerif.C29.prefilter_pairs_complete
#print axioms PorepyVerif.C29.split_no_intersection
