/-
C22 — property theorems (statements depend on Model.lean only, plus the closed form `axisSpec`
defined in Lemmas.lean; helper lemmas in Lemmas.lean).

Property: extracting any set of cells yields a grid whose face and node index maps point to the matching
parent entities (and whose geometry, recomputed, is the parent's — see EXPLANATION in harness/props/c22.py:
the theorem below is the topological half of that argument); partitioners assign every cell to exactly
one part within range; overlap layers only grow the cell set and contain all neighbours of the previous
layer.
-/
import PorepyVerif.C22.Lemmas

namespace PorepyVerif.C22

/-! ## (a) extraction -/

/-- `extract_subgrid(g, c, sort)` succeeded with result `r`.  Then
 * `face_map` / `node_map` are strictly increasing (hence injective);
 * `face_map` holds exactly the parent faces of the extracted cells, `node_map` exactly the parent nodes
   of those faces, and all of them exist in the parent;
 * the local cell-face relation, renumbered through `face_map`, IS the parent's relation on the extracted
   cells — same faces in the same stored order with the same signs; the local face-node relation,
   renumbered through `node_map`, IS the parent's on the extracted faces (same node order, which is what
   `compute_geometry` reads);
 * local indices are within the maps. -/
theorem extract_maps_point_to_parent (g : Topo) (c : List Nat) (sort : Bool) (r : Sub)
    (h : extract g c sort = .ok r) :
    r.faceMap.Pairwise (· < ·) ∧ r.nodeMap.Pairwise (· < ·) ∧ r.faceMap.Nodup ∧ r.nodeMap.Nodup ∧
    (∀ f, f ∈ r.faceMap ↔ ∃ i ∈ r.cells, f ∈ g.cfFaces.getD i []) ∧
    (∀ n, n ∈ r.nodeMap ↔ ∃ f ∈ r.faceMap, n ∈ g.fn.getD f []) ∧
    (∀ i ∈ r.cells, i < g.cfFaces.length) ∧ (∀ f ∈ r.faceMap, f < g.fn.length) ∧
    r.cfFaces.map (fun col => col.map (fun lf => r.faceMap.getD lf 0))
      = r.cells.map (fun i => g.cfFaces.getD i []) ∧
    r.cfSigns = r.cells.map (fun i => g.cfSigns.getD i []) ∧
    r.fn.map (fun col => col.map (fun ln => r.nodeMap.getD ln 0))
      = r.faceMap.map (fun f => g.fn.getD f []) ∧
    (∀ col ∈ r.cfFaces, ∀ lf ∈ col, lf < r.faceMap.length) ∧
    (∀ col ∈ r.fn, ∀ ln ∈ col, ln < r.nodeMap.length) := by
  obtain ⟨hc, hfm, hcf, hnm, hfn, hsg, hci, hfi, _⟩ := extractCore_ok h
  rw [← hc] at hfm hcf hsg hci
  obtain ⟨f1, f2, f3, f4⟩ := extractSub_spec g.cfFaces r.cells
  obtain ⟨n1, n2, n3, n4⟩ := extractSub_spec g.fn r.faceMap
  rw [← hfm] at f1 f2 f3 f4
  rw [← hcf] at f3 f4
  rw [← hnm] at n1 n2 n3 n4
  rw [← hfn] at n3 n4
  exact ⟨f1, n1, nodup_of_pairwise_lt f1, nodup_of_pairwise_lt n1, f2, n2, hci, hfi, f3, hsg, n3, f4, n4⟩

/-- The cells of the sub-grid (`parent_cell_ind`) are the requested cells: in the given order for
    `sort=False`; sorted ascending, as a permutation of the input, for `sort=True` (and unchanged if the
    input was sorted already). -/
theorem extract_cells_order (g : Topo) (c : List Nat) (sort : Bool) (r : Sub)
    (h : extract g c sort = .ok r) :
    (sort = false → r.cells = c) ∧
    (sort = true → r.cells = isort c ∧ r.cells.Pairwise (· ≤ ·) ∧ r.cells.Perm c) ∧
    (c.Pairwise (· ≤ ·) → r.cells = c) := by
  have hc := (extractCore_ok h).1
  refine ⟨?_, ?_, ?_⟩
  · intro hs; rw [hc, hs]; rfl
  · intro hs
    rw [hc, hs]
    exact ⟨rfl, pairwise_isort c, perm_isort c⟩
  · intro hsorted
    rw [hc]
    cases sort
    · rfl
    · exact isort_of_sorted hsorted

/-- `faces=True` (2-d and 3-d parents): the node map of the lower-dimensional grid is strictly increasing
    and holds exactly the parent nodes of the chosen faces; in the 2-d → 1-d case the cells' local
    nodes (which are the 1-d grid's faces), renumbered through the node map, are the parent faces' nodes
    in stored order. -/
theorem extract_faces_maps_point_to_parent (fn : List (List Nat)) (f : List Nat) (r : FaceSub) :
    (extractFaces2 fn f = .ok r →
      r.faces = f ∧ r.nodeMap.Pairwise (· < ·) ∧
      (∀ n, n ∈ r.nodeMap ↔ ∃ x ∈ f, n ∈ fn.getD x []) ∧
      r.cfFaces.map (fun col => col.map (fun ln => r.nodeMap.getD ln 0)) = f.map (fun x => fn.getD x []) ∧
      r.fn = (List.range r.nodeMap.length).map (fun i => [i])) ∧
    (extractFaces3 fn f = .ok r →
      r.faces = f ∧ r.nodeMap.Pairwise (· < ·) ∧
      (∀ n, n ∈ r.nodeMap ↔ ∃ x ∈ f, n ∈ fn.getD x []) ∧
      r.cfFaces.length = f.length) := by
  obtain ⟨s1, s2, s3, _⟩ := extractSub_spec fn f
  constructor
  · intro h
    unfold extractFaces2 at h
    simp only at h
    split at h
    · cases h
    · split at h
      · cases h
      · injection h with h
        subst h
        exact ⟨rfl, s1, s2, s3, rfl⟩
  · intro h
    unfold extractFaces3 at h
    simp only at h
    split at h
    · cases h
    · split at h
      · cases h
      · injection h with h
        subst h
        refine ⟨rfl, s1, s2, ?_⟩
        simp [extractSub, renumber, subCols]

/-- `partition_grid`: the parts' cell lists together contain every cell exactly once (the flattened list
    has no duplicates and its members are exactly the cells `< ind.length`), every part is sorted, and the
    sub-grid extracted for part `j` has exactly that part's cells. -/
theorem partition_grid_cells_once (g : Topo) (ind : List Nat) :
    (partCells ind).flatten.Nodup ∧
    (∀ c, c ∈ (partCells ind).flatten ↔ c < ind.length) ∧
    (partitionGrid g ind).length = (usort ind).length ∧
    (∀ (j : Nat) (r : Sub), (partitionGrid g ind)[j]? = some (Except.ok r) →
      (partCells ind)[j]? = some r.cells) := by
  refine ⟨nodup_partCells_flatten ind, fun c => mem_partCells_flatten, by simp [partitionGrid, partCells], ?_⟩
  intro j r hj
  simp only [partitionGrid, List.getElem?_map] at hj
  cases hcs : (partCells ind)[j]? with
  | none => simp [hcs] at hj
  | some cs =>
    simp only [hcs, Option.map_some, Option.some.injEq] at hj
    have hmem : cs ∈ partCells ind := List.mem_of_getElem? hcs
    have := (extract_cells_order g cs true r hj).2.2 (partCells_sorted hmem)
    rw [this]

/-! ## (b) `partition_structured` -/

/-- The coded construction of the per-axis coarse index (increments at multiples of `⌊f/c⌋`, trimmed to
    `c` increments, cumulative sum minus one) has the closed form `min (i / ⌊f/c⌋) (c-1)`. -/
theorem axis_index_closed_form (f c : Nat) (hc : 1 ≤ c) (hcf : c ≤ f) :
    axisIdx f c = (List.range f).map (fun i => ((min (i / (f / c)) (c - 1) : Nat) : Int)) :=
  axisIdx_closed hc hcf

/-- hypothesis of the theorems below: every axis has `1 ≤ coarse ≤ fine` -/
def DimsOk (fine coarse : List Nat) : Prop := ∀ q ∈ fine.zip coarse, 1 ≤ q.2 ∧ q.2 ≤ q.1

/-- Cell `(i, j, k)` of the Cartesian grid (global number `i + f0·(j + f1·k)`, x fastest) gets the
    mixed-radix combination of its three axis indices. (2-d and 1-d: same statement with fewer axes.) -/
theorem partition_structured_cell :
    (∀ f0 c0 p, partitionStructured [f0] [c0] = .ok p → 1 ≤ c0 → c0 ≤ f0 →
      ∀ i, i < f0 → p.getD i (-1) = (axisSpec f0 c0 i : Nat)) ∧
    (∀ f0 f1 c0 c1 p, partitionStructured [f0, f1] [c0, c1] = .ok p → DimsOk [f0, f1] [c0, c1] →
      ∀ i j, i < f0 → j < f1 →
        p.getD (i + f0 * j) (-1) = (axisSpec f0 c0 i : Nat) + (axisSpec f1 c1 j : Nat) * (c0 : Int)) ∧
    (∀ f0 f1 f2 c0 c1 c2 p, partitionStructured [f0, f1, f2] [c0, c1, c2] = .ok p →
      DimsOk [f0, f1, f2] [c0, c1, c2] → ∀ i j k, i < f0 → j < f1 → k < f2 →
        p.getD (i + f0 * (j + f1 * k)) (-1)
          = (axisSpec f0 c0 i : Nat) + (axisSpec f1 c1 j : Nat) * (c0 : Int)
            + (axisSpec f2 c2 k : Nat) * ((c0 * c1 : Nat) : Int)) := by
  refine ⟨?_, ?_, ?_⟩
  · intro f0 c0 p h hc hcf i hi
    rw [ps1 ⟨hc, hcf⟩] at h
    injection h with h
    subst h
    exact axisIdx_getD hc hcf hi _
  · intro f0 f1 c0 c1 p h hd i j hi hj
    have h0 : 1 ≤ c0 ∧ c0 ≤ f0 := hd (f0, c0) (by simp)
    have h1 : 1 ≤ c1 ∧ c1 ≤ f1 := hd (f1, c1) (by simp)
    rw [ps2 h0 h1] at h
    injection h with h
    subst h
    unfold combine2
    rw [getD_flatMap_uniform _ f0 (-1) (-1) _ (by intro y _; simp [axisIdx_length]) i j hi
      (by rw [axisIdx_length]; exact hj)]
    rw [getD_map' _ _ (by rw [axisIdx_length]; exact hi) (-1) (-1),
      axisIdx_getD h0.1 h0.2 hi, axisIdx_getD h1.1 h1.2 hj]
  · intro f0 f1 f2 c0 c1 c2 p h hd i j k hi hj hk
    have h0 : 1 ≤ c0 ∧ c0 ≤ f0 := hd (f0, c0) (by simp)
    have h1 : 1 ≤ c1 ∧ c1 ≤ f1 := hd (f1, c1) (by simp)
    have h2 : 1 ≤ c2 ∧ c2 ≤ f2 := hd (f2, c2) (by simp)
    rw [ps3 h0 h1 h2] at h
    injection h with h
    subst h
    unfold combine3
    have hjk : j + f1 * k < f1 * f2 := by
      have : f1 * (k + 1) ≤ f1 * f2 := Nat.mul_le_mul_left _ (by omega)
      rw [Nat.mul_succ] at this
      omega
    -- flatten the two outer loops into one loop over pairs (z, y), indexed by j + f1*k
    have hflat : ∀ (zs ys : List Int) (F : Int → Int → List Int),
        zs.flatMap (fun z => ys.flatMap (fun y => F z y))
          = (zs.flatMap (fun z => ys.map (fun y => (z, y)))).flatMap (fun q => F q.1 q.2) := by
      intro zs ys F
      simp [List.flatMap_assoc, List.flatMap_map]
    rw [hflat]
    rw [getD_flatMap_uniform _ f0 (-1) ((-1 : Int), (-1 : Int)) _
      (by intro q _; simp [axisIdx_length]) i (j + f1 * k) hi
      (by rw [length_pairs, axisIdx_length, axisIdx_length]; exact hjk)]
    rw [getD_flatMap_uniform (fun z => (axisIdx f1 c1).map (fun y => (z, y))) f1 ((-1 : Int), (-1 : Int)) (-1) _
      (by intro z _; simp [axisIdx_length]) j k hj (by rw [axisIdx_length]; exact hk)]
    rw [getD_map' _ (axisIdx f0 c0) (by rw [axisIdx_length]; exact hi) (-1) (-1),
      getD_map' _ (axisIdx f1 c1) (by rw [axisIdx_length]; exact hj) _ (-1)]
    simp only
    rw [axisIdx_getD h0.1 h0.2 hi, axisIdx_getD h1.1 h1.2 hj, axisIdx_getD h2.1 h2.2 hk]

/-- Every part id lies in `[0, Π coarse_dims)`. -/
theorem partition_structured_in_range (fine coarse : List Nat) (p : List Int)
    (h : partitionStructured fine coarse = .ok p) (hd : DimsOk fine coarse) :
    ∀ x ∈ p, 0 ≤ x ∧ x < ((coarse.foldl (· * ·) 1 : Nat) : Int) := by
  rcases ps_cases h with ⟨f0, c0, rfl, rfl⟩ | ⟨f0, f1, c0, c1, rfl, rfl⟩ |
    ⟨f0, f1, f2, c0, c1, c2, rfl, rfl⟩
  · have h0 : 1 ≤ c0 ∧ c0 ≤ f0 := hd (f0, c0) (by simp)
    rw [ps1 h0] at h; injection h with h; subst h
    intro x hx
    simpa using axisIdx_range h0.1 h0.2 hx
  · have h0 : 1 ≤ c0 ∧ c0 ≤ f0 := hd (f0, c0) (by simp)
    have h1 : 1 ≤ c1 ∧ c1 ≤ f1 := hd (f1, c1) (by simp)
    rw [ps2 h0 h1] at h; injection h with h; subst h
    intro q hq
    obtain ⟨y, hy, x, hx, rfl⟩ := mem_combine2.mp hq
    have hxr := axisIdx_range h0.1 h0.2 hx
    have hyr := axisIdx_range h1.1 h1.2 hy
    simpa using radix2 hxr.1 hxr.2 hyr.1 hyr.2
  · have h0 : 1 ≤ c0 ∧ c0 ≤ f0 := hd (f0, c0) (by simp)
    have h1 : 1 ≤ c1 ∧ c1 ≤ f1 := hd (f1, c1) (by simp)
    have h2 : 1 ≤ c2 ∧ c2 ≤ f2 := hd (f2, c2) (by simp)
    rw [ps3 h0 h1 h2] at h; injection h with h; subst h
    intro q hq
    obtain ⟨z, hz, y, hy, x, hx, rfl⟩ := mem_combine3.mp hq
    have hxr := axisIdx_range h0.1 h0.2 hx
    have hyr := axisIdx_range h1.1 h1.2 hy
    have hzr := axisIdx_range h2.1 h2.2 hz
    have hw := radix2 hxr.1 hxr.2 hyr.1 hyr.2
    simpa using radix2 hw.1 hw.2 hzr.1 hzr.2

/-- Every cell gets exactly one id (the result is a vector with one entry per cell, `Π fine_dims` of them)
    and every coarse id in `[0, Π coarse_dims)` is used by some cell. -/
theorem partition_structured_total (fine coarse : List Nat) (p : List Int)
    (h : partitionStructured fine coarse = .ok p) (hd : DimsOk fine coarse) :
    p.length = fine.foldl (· * ·) 1 ∧
    ∀ q : Nat, q < coarse.foldl (· * ·) 1 → (q : Int) ∈ p := by
  rcases ps_cases h with ⟨f0, c0, rfl, rfl⟩ | ⟨f0, f1, c0, c1, rfl, rfl⟩ |
    ⟨f0, f1, f2, c0, c1, c2, rfl, rfl⟩
  · have h0 : 1 ≤ c0 ∧ c0 ≤ f0 := hd (f0, c0) (by simp)
    rw [ps1 h0] at h; injection h with h; subst h
    refine ⟨by simp [axisIdx_length], ?_⟩
    intro q hq
    exact axisIdx_onto h0.1 h0.2 (by simpa using hq)
  · have h0 : 1 ≤ c0 ∧ c0 ≤ f0 := hd (f0, c0) (by simp)
    have h1 : 1 ≤ c1 ∧ c1 ≤ f1 := hd (f1, c1) (by simp)
    rw [ps2 h0 h1] at h; injection h with h; subst h
    constructor
    · unfold combine2
      rw [length_flatMap_const _ f0 _ (by intro y _; simp [axisIdx_length]), axisIdx_length]
      simp
    · intro q hq
      have hq' : q < c0 * c1 := by simpa using hq
      obtain ⟨dx, dy, de⟩ := digits2 hq'
      refine mem_combine2.mpr ⟨_, axisIdx_onto h1.1 h1.2 dy, _, axisIdx_onto h0.1 h0.2 dx, ?_⟩
      exact_mod_cast de
  · have h0 : 1 ≤ c0 ∧ c0 ≤ f0 := hd (f0, c0) (by simp)
    have h1 : 1 ≤ c1 ∧ c1 ≤ f1 := hd (f1, c1) (by simp)
    have h2 : 1 ≤ c2 ∧ c2 ≤ f2 := hd (f2, c2) (by simp)
    rw [ps3 h0 h1 h2] at h; injection h with h; subst h
    constructor
    · unfold combine3
      rw [length_flatMap_const _ (f0 * f1) _ (by
            intro z _
            rw [length_flatMap_const _ f0 _ (by intro y _; simp [axisIdx_length]), axisIdx_length]),
        axisIdx_length]
      simp
    · intro q hq
      have hq' : q < (c0 * c1) * c2 := by simpa using hq
      obtain ⟨dw, dz, de⟩ := digits2 hq'
      obtain ⟨dx, dy, de'⟩ := digits2 dw
      refine mem_combine3.mpr ⟨_, axisIdx_onto h2.1 h2.2 dz, _, axisIdx_onto h1.1 h1.2 dy, _,
        axisIdx_onto h0.1 h0.2 dx, ?_⟩
      have e : q = q % (c0 * c1) % c0 + q % (c0 * c1) / c0 * c0 + q / (c0 * c1) * (c0 * c1) := by omega
      exact_mod_cast e

/-- Along every axis the coarse index is non-decreasing, starts at 0, ends at `c-1` and never skips a
    value: parts are contiguous index blocks in the order of the axis. -/
theorem partition_structured_monotone (f c : Nat) (hc : 1 ≤ c) (hcf : c ≤ f) :
    (axisIdx f c).Pairwise (· ≤ ·) ∧
    (axisIdx f c).getD 0 0 = 0 ∧ (axisIdx f c).getD (f - 1) 0 = (c : Int) - 1 ∧
    ∀ i, i + 1 < f → (axisIdx f c).getD (i + 1) 0 ≤ (axisIdx f c).getD i 0 + 1 := by
  refine ⟨?_, ?_, ?_, ?_⟩
  · rw [axisIdx_closed hc hcf, List.pairwise_map]
    refine List.Pairwise.imp ?_ List.pairwise_lt_range
    intro i j hij
    have := axisSpec_mono (f := f) (c := c) (Nat.le_of_lt hij)
    omega
  · rw [axisIdx_getD hc hcf (by omega), axisSpec_zero]; rfl
  · rw [axisIdx_getD hc hcf (by omega), axisSpec_last hc hcf]; omega
  · intro i hi
    rw [axisIdx_getD hc hcf hi, axisIdx_getD hc hcf (by omega)]
    have := axisSpec_step_le (f := f) (c := c) i
    omega

/-! ## (c) `overlap`

`ce` is the cell→entity relation the criterion uses (`ce[c]` = nodes of cell `c` for 'node', faces of
cell `c` for 'face'); two cells are neighbours iff they share an entity. -/

/-- Zero layers return the input set (sorted, duplicates removed); the output of any depth is sorted
    strictly increasingly, and the function answers (no error) when all input cells exist. -/
theorem overlap_zero_id (ce : List (List Nat)) (cells : List Nat)
    (hcells : ∀ c ∈ cells, c < ce.length) :
    (∀ k, overlap ce cells k = .ok (overlapCells ce cells k)) ∧
    (∀ c, c ∈ overlapCells ce cells 0 ↔ c ∈ cells) ∧
    (∀ k, (overlapCells ce cells k).Pairwise (· < ·)) :=
  ⟨overlap_ok hcells, fun _ => mem_overlapCells' hcells, overlapCells_sorted ce cells⟩

/-- Layers only grow the cell set: the result contains the input, and `k+1` layers contain `k` layers. -/
theorem overlap_monotone (ce : List (List Nat)) (cells : List Nat)
    (hcells : ∀ c ∈ cells, c < ce.length) (k : Nat) :
    (∀ c ∈ cells, c ∈ overlapCells ce cells k) ∧
    (∀ c ∈ overlapCells ce cells k, c ∈ overlapCells ce cells (k + 1)) := by
  have hstep : ∀ k, ∀ c ∈ overlapCells ce cells k, c ∈ overlapCells ce cells (k + 1) := by
    intro k c hc
    rw [mem_overlapCells' hcells] at hc ⊢
    exact (mem_layer (ovInv_layers ce cells k)).mpr (Or.inl hc)
  refine ⟨?_, hstep k⟩
  induction k with
  | zero => intro c hc; exact (mem_overlapCells' hcells).mpr hc
  | succ k ih => intro c hc; exact hstep k c (ih c hc)

/-- Every cell of the grid sharing an entity (node / face) with a cell of layer `k` is in layer `k+1`. -/
theorem overlap_contains_neighbours (ce : List (List Nat)) (cells : List Nat)
    (hcells : ∀ c ∈ cells, c < ce.length) (k c c' e : Nat)
    (hc : c ∈ overlapCells ce cells k) (hc' : c' < ce.length)
    (he : e ∈ ce.getD c []) (he' : e ∈ ce.getD c' []) :
    c' ∈ overlapCells ce cells (k + 1) := by
  rw [mem_overlapCells' hcells] at hc ⊢
  exact (mem_layer (ovInv_layers ce cells k)).mpr (Or.inr ⟨hc', c, hc, e, he, he'⟩)

/-- … and nothing else is added: layer `k+1` is exactly layer `k` plus its neighbours. -/
theorem overlap_layer_exact (ce : List (List Nat)) (cells : List Nat)
    (hcells : ∀ c ∈ cells, c < ce.length) (k c' : Nat) :
    c' ∈ overlapCells ce cells (k + 1) ↔
      c' ∈ overlapCells ce cells k ∨
      (c' < ce.length ∧ ∃ c ∈ overlapCells ce cells k, ∃ e, e ∈ ce.getD c [] ∧ e ∈ ce.getD c' []) := by
  simp only [mem_overlapCells' hcells]
  exact mem_layer (ovInv_layers ce cells k)

/-! ## non-vacuity: concrete instances (regression inputs of the repaired defects F11/F12 among them) -/

/-- 2×1 Cartesian grid: faces 0–2 vertical, 3–4 bottom, 5–6 top; nodes 0–2 bottom row, 3–5 top row -/
abbrev g21 : Topo :=
  { cfFaces := [[0, 1, 3, 5], [1, 2, 4, 6]], cfSigns := [[-1, 1, -1, 1], [-1, 1, -1, 1]],
    fn := [[0, 3], [1, 4], [2, 5], [0, 1], [1, 2], [3, 4], [4, 5]] }

example : (extract g21 [1] true).toOption.map (fun r => (r.cells, r.faceMap, r.nodeMap))
    = some ([1], [1, 2, 4, 6], [1, 2, 4, 5]) := by decide +kernel

example : (extract g21 [1] true).toOption.map (fun r => (r.cfFaces, r.cfSigns, r.fn))
    = some ([[0, 1, 2, 3]], [[-1, 1, -1, 1]], [[0, 2], [1, 3], [0, 1], [2, 3]]) := by decide +kernel

example : (extract g21 [1, 0] false).toOption.map (fun r => (r.cells, r.faceMap, r.cfFaces))
    = some ([1, 0], [0, 1, 2, 3, 4, 5, 6], [[1, 2, 4, 6], [0, 1, 3, 5]]) := by decide +kernel

/-- a duplicated cell makes a boundary face count twice: the `Grid` constructor refuses (ValueError) -/
example : (extract g21 [0, 0] true).toOption.isNone = true := by decide +kernel

/-- faces 1 (interior, vertical) and 3 (bottom left) of the 2×1 grid as a 1-d grid: they share node 1 -/
example : (extractFaces2 g21.fn [1, 3]).toOption.map (fun r => (r.nodeMap, r.cfFaces, r.cfSigns))
    = some ([0, 1, 4], [[1, 2], [0, 1]], [[1, 1], [1, -1]]) := by decide +kernel

example : partCells [2, 0, 2, 5] = [[1], [0, 2], [3]] := by decide +kernel

example : DimsOk [11, 2] [4, 2] := by
  intro q hq
  simp at hq
  rcases hq with rfl | rfl <;> simp

/-- F12 regression: 11×2 cells into 4×2 parts: ids 0..7, the surplus cells join the last block -/
example : (partitionStructured [11, 2] [4, 2]).toOption
    = some [0, 0, 1, 1, 2, 2, 3, 3, 3, 3, 3, 4, 4, 5, 5, 6, 6, 7, 7, 7, 7, 7] := by decide +kernel

example : (partitionStructured [3, 2, 2] [2, 1, 2]).toOption
    = some [0, 1, 1, 0, 1, 1, 2, 3, 3, 2, 3, 3] := by decide +kernel

example : axisIdx 11 4 = [0, 0, 1, 1, 2, 2, 3, 3, 3, 3, 3] := by decide +kernel

/-- F11 regression: `overlap(CartGrid([1,1]), [0], 1)` and `overlap(CartGrid([3,1]), [1], 0)` (node criterion) -/
example : (overlap [[0, 1, 2, 3]] [0] 1).toOption = some [0] := by decide +kernel
example : (overlap [[0, 1, 4, 5], [1, 2, 5, 6], [2, 3, 6, 7]] [1] 0).toOption = some [1] := by decide +kernel

/-- 4×1 grid, node criterion: one layer around cell 0 adds cell 1, two layers add cell 2 -/
example : overlapCells [[0, 1, 5, 6], [1, 2, 6, 7], [2, 3, 7, 8], [3, 4, 8, 9]] [0] 1 = [0, 1] := by decide +kernel
example : overlapCells [[0, 1, 5, 6], [1, 2, 6, 7], [2, 3, 7, 8], [3, 4, 8, 9]] [0] 2 = [0, 1, 2] := by decide +kernel

end PorepyVerif.C22
